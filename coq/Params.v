(* C19 -- model of the input validation of Coloquinte (no proofs in this file).

   Models, line by line:
     /repo/src/parameters.cpp   the six *Parameters::check() functions and ColoquinteParameters::check,
                                the seven constructors (order of evaluation: member initialisers first,
                                then the body), checkEffort (added by the F13a repair);
     /repo/src/coloquinte.cpp   Circuit::Circuit, the eleven vector setters, addNet, setNets,
                                setNetWeights, Circuit::check, checkNotInUse, and the entry of
                                placeGlobal / legalize / placeDetailed (params.check() before any work);
     /repo/src/coloquinte.hpp   Circuit::placeGlobal(int) / legalize(int) / placeDetailed(int) / place(int)
                                (construct ColoquinteParameters(effort) first).

   Conventions.
   * C++ `double` values are exact rationals (Q).  Every finite double is a dyadic rational, so the
     comparisons of check() are modelled exactly; the bounds are the exact binary values of the
     literals (0.9f is 7549747/8388608, not 9/10).  NaN and the infinities are outside the model.
   * C++ `int` values are Z (the harness only passes values that fit in 32 bits).
   * An array read `a[i]` is `znth_error a i`, which is None outside the array: the constructors return
     `UBIndex` in that case, so "refused before any table is indexed" is a statement about the model.
   * `assert(c)` with assertions enabled (README default build) is `AbortAssert` when c is false.
   * The defaults that the constructors compute (literal tables, and the exp/log/round interpolation
     of DetailedPlacerParameters, which is NOT modelled) enter as a `Tables` value; the instance
     `ParamsDefaults_gen.default_tables` is dumped from the C++ on every run.
   * Functions with suffix `_orig` model the code BEFORE the repairs d9ad548/f145d5b/7682226 (finding
     F13); they are only used in the `_refuted` statements. *)
From Coq Require Import String List ZArith QArith Bool.
Import ListNotations.
Open Scope Z_scope.

(* ------------------------------------------------------------------ messages *)

(* one constructor per `throw std::runtime_error(...)` site text *)
Inductive Msg :=
| MEffort
| MPenCutoff | MPenCutoffUpd | MPenAreaExp | MPenInitial | MPenUpdate | MPenBlend
| MCmSmallDist | MCmUpd | MCmLargeDist | MCmSteps | MCmSmallTol | MCmLargeTol
| MRlSteps | MRlBinSmall | MRlBinLarge | MRlReoptSize | MRlReoptOverlap | MRlReoptSmall
| MRlAtLeastOne | MRlOverlapSmaller | MRlQuadratic | MRlBlend
| MGpSteps | MGpInitial | MGpInitialLower | MGpStepsPerLeg | MGpGap | MGpDistTol | MGpExport
| MGpNoise | MGpPenDist | MGpPenBackoff
| MLgModel | MLgWidth | MLgY
| MDpPasses | MDpNeighbours | MDpRows | MDpShiftRows | MDpShiftCells | MDpReordRows | MDpReordCells
| MNbElements | MNbWeights | MInUse | MNetPins | MBadCell
| MSnStart | MSnSorted | MSnPins | MSnWeights
| MSizeMismatch.

Open Scope string_scope.
Definition msg_text (m : Msg) : string :=
  match m with
  | MEffort => "Placement effort must be between 1 and 9"
  | MPenCutoff => "Too small cutoff distance may lead to issues"
  | MPenCutoffUpd => "Penalty cutoff update factor should be close to 1"
  | MPenAreaExp => "Penalty area exponent should be between 0.5 and 1"
  | MPenInitial => "Initial penalty should be positive"
  | MPenUpdate => "Penalty update factor should be between one and two"
  | MPenBlend => "Penalty target blending should generally be between 0.5 and 1"
  | MCmSmallDist => "Too small approximation distance may lead to issues"
  | MCmUpd => "Approximation distance update factor should be close to 1"
  | MCmLargeDist => "Too large approximation distance is highly imprecise"
  | MCmSteps => "Must have positive number of steps during conjugate gradients"
  | MCmSmallTol => "Too small error tolerance may lead to issues"
  | MCmLargeTol => "Too large error tolerance is highly imprecise"
  | MRlSteps => "Must have non-negative number of steps for rough legalization"
  | MRlBinSmall => "Bin size should generally be larger than 1 (one standard cell)"
  | MRlBinLarge => "Bin size should not be too large (10 should be enough)"
  | MRlReoptSize => "Rough legalization reopt size should be at least 1"
  | MRlReoptOverlap => "Rough legalization reopt overlap should be at least 1"
  | MRlReoptSmall => "Rough legalization reopt should be small"
  | MRlAtLeastOne => "At least one rough legalization reopt value should be 2 or more"
  | MRlOverlapSmaller => "Rough legalization reopt overlap should be smaller than reopt size"
  | MRlQuadratic => "Rough legalization quadratic penalty should be non-negative and small (< 1.0)"
  | MRlBlend => "Rough legalization target blending should generally be between 0 and 0.5"
  | MGpSteps => "Invalid number of steps"
  | MGpInitial => "Invalid number of initial steps"
  | MGpInitialLower => "Number of initial steps should be lower than max number"
  | MGpStepsPerLeg => "Number of steps per legalization should be positive"
  | MGpGap => "Invalid gap tolerance (should be between 0 and 1)"
  | MGpDistTol => "Invalid distance tolerance (should be non-negative"
  | MGpExport => "Export blending should generally be between 0 and 1"
  | MGpNoise => "Noise should be a very small non-negative number"
  | MGpPenDist => "Invalid penalty update distance (should be positive)"
  | MGpPenBackoff => "Invalid penalty update backoff (should be at least 1)"
  | MLgModel => "Only L1 legalization model is supported"
  | MLgWidth => "Legalization ordering width should be small (0 < ... < 1)"
  | MLgY => "Legalization ordering y should be small (-0.1 < ... < 0.1)"
  | MDpPasses => "Number of detailed placement passes must be non-negative"
  | MDpNeighbours => "Number of detailed placement neighbour cells must be non-negative"
  | MDpRows => "Number of detailed placement rows must be non-negative"
  | MDpShiftRows => "Number of detailed placement shift rows must be positive"
  | MDpShiftCells => "Number of detailed placement shift cells must be non-negative"
  | MDpReordRows => "Number of detailed placement reordering rows must be positive"
  | MDpReordCells => "Number of detailed placement reordering cells must be non-negative"
  | MNbElements => "Number of elements is not the same as the number of cells of the circuit"
  | MNbWeights => "Number of weights is not the same as the number of nets of the circuit"
  | MInUse => "This operation is not allowed when the circuit is being placed"
  | MNetPins => "Inconsistent number of pins for the net"
  | MBadCell => "Net pin references a cell that does not exist"
  | MSnStart => "Net limits should start with 0"
  | MSnSorted => "Net limits should be sorted"
  | MSnPins => "Inconsistent number of pins for the nets"
  | MSnWeights => "Number of weights is not the same as the number of nets"
  | MSizeMismatch => "Size mismatch"
  end.
Close Scope string_scope.

(* ------------------------------------------------------------------ exact comparisons of doubles *)

Definition qlt (a b : Q) : bool := (Qnum a * Zpos (Qden b) <? Qnum b * Zpos (Qden a)).
Definition qle (a b : Q) : bool := (Qnum a * Zpos (Qden b) <=? Qnum b * Zpos (Qden a)).
Definition qgt (a b : Q) : bool := qlt b a.
Definition qge (a b : Q) : bool := qle b a.

(* exact values of the literals of parameters.cpp (IEEE double; `f` = float converted to double) *)
Definition d_1em6 : Q := 4722366482869645 # 4722366482869645213696.      (* 1.0e-6 *)
Definition d_0p8  : Q := 3602879701896397 # 4503599627370496.            (* 0.8 *)
Definition d_1p2  : Q := 5404319552844595 # 4503599627370496.            (* 1.2 *)
Definition d_0p49 : Q := 2206763817411543 # 4503599627370496.            (* 0.49 *)
Definition d_1p01 : Q := 4548635623644201 # 4503599627370496.            (* 1.01 *)
Definition f_0p1  : Q := 13421773 # 134217728.                           (* 0.1f *)
Definition f_1p1  : Q := 9227469 # 8388608.                              (* 1.1f *)
Definition d_1e3  : Q := 1000 # 1.                                       (* 1.0e3 *)
Definition d_1em8 : Q := 3022314549036573 # 302231454903657293676544.    (* 1.0e-8 *)
Definition f_0p9  : Q := 7549747 # 8388608.                              (* 0.9f *)
Definition d_m0p1 : Q := (-3602879701896397) # 36028797018963968.        (* -0.1 *)
Definition d_0p2  : Q := 3602879701896397 # 18014398509481984.           (* 0.2 *)
Definition d_m0p2 : Q := (-3602879701896397) # 18014398509481984.        (* -0.2 *)
Definition q0 : Q := 0 # 1.
Definition q1 : Q := 1 # 1.
Definition q2 : Q := 2 # 1.
Definition q25 : Q := 25 # 1.
Definition qm1 : Q := (-1) # 1.
Definition qmhalf : Q := (-1) # 2.                                       (* -0.5f *)
Definition q3half : Q := 3 # 2.                                          (* 1.5f *)

(* ------------------------------------------------------------------ parameter structs (coloquinte.hpp) *)

(* enums are their integer values: LegalizationModel::L1 = 0, NetModelOption::BoundToBound = 0 *)
Record RoughParams := {
  rl_costModel : Z; rl_nbSteps : Z; rl_binSize : Q;
  rl_lineReoptSize : Z; rl_lineReoptOverlap : Z; rl_diagReoptSize : Z; rl_diagReoptOverlap : Z;
  rl_squareReoptSize : Z; rl_squareReoptOverlap : Z; rl_unidimensionalTransport : bool;
  rl_quadraticPenalty : Q; rl_sideMargin : Q; rl_coarseningLimit : Q; rl_targetBlending : Q }.

Record PenaltyParams := {
  pe_cutoffDistance : Q; pe_cutoffDistanceUpdateFactor : Q; pe_areaExponent : Q;
  pe_initialValue : Q; pe_updateFactor : Q; pe_targetBlending : Q }.

Record ContinuousParams := {
  cm_netModel : Z; cm_approximationDistance : Q; cm_approximationDistanceUpdateFactor : Q;
  cm_maxNbConjugateGradientSteps : Z; cm_conjugateGradientErrorTolerance : Q }.

(* the scalar members of GlobalPlacerParameters *)
Record GlobalOwn := {
  gp_maxNbSteps : Z; gp_nbInitialSteps : Z; gp_nbStepsBeforeRoughLegalization : Z;
  gp_gapTolerance : Q; gp_distanceTolerance : Q; gp_penaltyUpdateDistance : Q;
  gp_penaltyUpdateBackoff : Q; gp_exportBlending : Q; gp_noise : Q }.

Record GlobalParams := {
  gp_own : GlobalOwn; gp_continuousModel : ContinuousParams;
  gp_roughLegalization : RoughParams; gp_penalty : PenaltyParams }.

Record LegalizationParams := {
  lg_costModel : Z; lg_orderingWidth : Q; lg_orderingHeight : Q; lg_orderingY : Q }.

Record DetailedParams := {
  dp_nbPasses : Z; dp_localSearchNbNeighbours : Z; dp_localSearchNbRows : Z; dp_shiftNbRows : Z;
  dp_shiftMaxNbCells : Z; dp_reorderingNbRows : Z; dp_reorderingMaxNbCells : Z }.

Record ColoquinteParams := {
  cp_global : GlobalParams; cp_legalization : LegalizationParams; cp_detailed : DetailedParams;
  cp_seed : Z }.

(* ------------------------------------------------------------------ check() : first failing test *)

(* a check() body is a sequence of `if (cond) throw msg;` : the first true condition decides *)
Fixpoint first_fail (l : list (bool * Msg)) : option Msg :=
  match l with
  | [] => None
  | (c, m) :: r => if c then Some m else first_fail r
  end.

(* parameters.cpp  PenaltyParameters::check *)
Definition penalty_tests (p : PenaltyParams) : list (bool * Msg) :=
  [ (qlt (pe_cutoffDistance p) d_1em6, MPenCutoff);
    (qlt (pe_cutoffDistanceUpdateFactor p) d_0p8 || qgt (pe_cutoffDistanceUpdateFactor p) d_1p2, MPenCutoffUpd);
    (qlt (pe_areaExponent p) d_0p49 || qgt (pe_areaExponent p) d_1p01, MPenAreaExp);
    (qle (pe_initialValue p) q0, MPenInitial);
    (qle (pe_updateFactor p) q1 || qge (pe_updateFactor p) q2, MPenUpdate);
    (qlt (pe_targetBlending p) f_0p1 || qgt (pe_targetBlending p) f_1p1, MPenBlend) ].

(* parameters.cpp  ContinuousModelParameters::check *)
Definition continuous_tests (p : ContinuousParams) : list (bool * Msg) :=
  [ (qlt (cm_approximationDistance p) d_1em6, MCmSmallDist);
    (qlt (cm_approximationDistanceUpdateFactor p) d_0p8 || qgt (cm_approximationDistanceUpdateFactor p) d_1p2, MCmUpd);
    (qgt (cm_approximationDistance p) d_1e3, MCmLargeDist);
    (cm_maxNbConjugateGradientSteps p <=? 0, MCmSteps);
    (qlt (cm_conjugateGradientErrorTolerance p) d_1em8, MCmSmallTol);
    (qgt (cm_conjugateGradientErrorTolerance p) q1, MCmLargeTol) ].

(* parameters.cpp  RoughLegalizationParameters::check *)
Definition rough_tests (p : RoughParams) : list (bool * Msg) :=
  let ls := rl_lineReoptSize p in let lo := rl_lineReoptOverlap p in
  let ds := rl_diagReoptSize p in let do := rl_diagReoptOverlap p in
  let ss := rl_squareReoptSize p in let so := rl_squareReoptOverlap p in
  [ (rl_nbSteps p <? 0, MRlSteps);
    (qlt (rl_binSize p) q1, MRlBinSmall);
    (qgt (rl_binSize p) q25, MRlBinLarge);
    ((ls <? 1) || (ds <? 1) || (ss <? 1), MRlReoptSize);
    ((lo <? 1) || (do <? 1) || (so <? 1), MRlReoptOverlap);
    ((ls >? 64) || (ds >? 64) || (ss >? 8), MRlReoptSmall);
    ((ls <? 2) && (ds <? 2) && (ss <? 2) &&
       (negb (rl_unidimensionalTransport p) || negb (rl_costModel p =? 0)), MRlAtLeastOne);
    ((ls >? 1) && (lo >=? ls), MRlOverlapSmaller);
    ((ds >? 1) && (do >=? ds), MRlOverlapSmaller);
    ((ss >? 1) && (so >=? ss), MRlOverlapSmaller);
    (qlt (rl_quadraticPenalty p) q0 || qgt (rl_quadraticPenalty p) q1, MRlQuadratic);
    (qlt (rl_targetBlending p) d_m0p1 || qgt (rl_targetBlending p) f_0p9, MRlBlend) ].

(* parameters.cpp  GlobalPlacerParameters::check, the tests after the three nested check() calls *)
Definition global_own_tests (p : GlobalOwn) : list (bool * Msg) :=
  [ (gp_maxNbSteps p <? 0, MGpSteps);
    (gp_nbInitialSteps p <? 0, MGpInitial);
    (gp_nbInitialSteps p >=? gp_maxNbSteps p, MGpInitialLower);
    (gp_nbStepsBeforeRoughLegalization p <? 1, MGpStepsPerLeg);
    (qlt (gp_gapTolerance p) q0 || qgt (gp_gapTolerance p) q1, MGpGap);
    (qlt (gp_distanceTolerance p) q0, MGpDistTol);
    (qlt (gp_exportBlending p) qmhalf || qgt (gp_exportBlending p) q3half, MGpExport);
    (qlt (gp_noise p) q0 || qgt (gp_noise p) q2, MGpNoise);
    (qle (gp_penaltyUpdateDistance p) q0, MGpPenDist);
    (qlt (gp_penaltyUpdateBackoff p) q1, MGpPenBackoff) ].

(* GlobalPlacerParameters::check: roughLegalization.check(); continuousModel.check(); penalty.check(); own *)
Definition global_tests (p : GlobalParams) : list (bool * Msg) :=
  rough_tests (gp_roughLegalization p) ++ continuous_tests (gp_continuousModel p) ++
  penalty_tests (gp_penalty p) ++ global_own_tests (gp_own p).

(* parameters.cpp  LegalizationParameters::check *)
Definition legalization_tests (p : LegalizationParams) : list (bool * Msg) :=
  [ (negb (lg_costModel p =? 0), MLgModel);
    (qgt (lg_orderingWidth p) q2 || qlt (lg_orderingWidth p) qm1, MLgWidth);
    (qgt (lg_orderingY p) d_0p2 || qlt (lg_orderingY p) d_m0p2, MLgY) ].

(* parameters.cpp  DetailedPlacerParameters::check *)
Definition detailed_tests (p : DetailedParams) : list (bool * Msg) :=
  [ (dp_nbPasses p <? 0, MDpPasses);
    (dp_localSearchNbNeighbours p <? 0, MDpNeighbours);
    (dp_localSearchNbRows p <? 0, MDpRows);
    (dp_shiftNbRows p <=? 0, MDpShiftRows);
    (dp_shiftMaxNbCells p <? 0, MDpShiftCells);
    (dp_reorderingNbRows p <=? 0, MDpReordRows);
    (dp_reorderingMaxNbCells p <? 0, MDpReordCells) ].

(* ColoquinteParameters::check: global.check(); legalization.check(); detailed.check() *)
Definition coloquinte_tests (p : ColoquinteParams) : list (bool * Msg) :=
  global_tests (cp_global p) ++ legalization_tests (cp_legalization p) ++ detailed_tests (cp_detailed p).

Definition check_penalty p := first_fail (penalty_tests p).
Definition check_continuous p := first_fail (continuous_tests p).
Definition check_rough p := first_fail (rough_tests p).
Definition check_global p := first_fail (global_tests p).
Definition check_legalization p := first_fail (legalization_tests p).
Definition check_detailed p := first_fail (detailed_tests p).
Definition check_coloquinte p := first_fail (coloquinte_tests p).

(* ------------------------------------------------------------------ constructors *)

Inductive Outcome (A : Type) :=
| Ok (a : A)
| Throw (m : Msg)          (* std::runtime_error, catchable *)
| UBIndex                  (* an array was read outside its bounds *)
| AbortAssert.             (* an assert() failed (assertions enabled) *)
Arguments Ok {A} a.
Arguments Throw {A} m.
Arguments UBIndex {A}.
Arguments AbortAssert {A}.

Definition bind {A B} (x : Outcome A) (f : A -> Outcome B) : Outcome B :=
  match x with Ok a => f a | Throw m => Throw m | UBIndex => UBIndex | AbortAssert => AbortAssert end.

(* a[i] for a C array / std::vector *)
Definition znth_error {A} (l : list A) (i : Z) : option A :=
  if i <? 0 then None else nth_error l (Z.to_nat i).

Definition index {A} (l : list A) (i : Z) : Outcome A :=
  match znth_error l i with Some a => Ok a | None => UBIndex end.

(* run check() on a freshly built value, as the constructors do at their end *)
Definition checked {A} (chk : A -> option Msg) (a : A) : Outcome A :=
  match chk a with Some m => Throw m | None => Ok a end.

(* The effort-indexed default values.  t_rough[e-1] is what RoughLegalizationParameters(e) builds
   (squareSizeArray[e-1] and the constants), t_penalty[e-1] likewise (updateFactorArray[e-1]),
   t_global[e-1] the scalar members of GlobalPlacerParameters(e) (gapToleranceArray[e-1]),
   t_detailed[e-1] the rounded interpolations of DetailedPlacerParameters(e); the two constructors
   that ignore their argument have one value each. *)
Record Tables := {
  t_rough : list RoughParams; t_penalty : list PenaltyParams; t_global : list GlobalOwn;
  t_detailed : list DetailedParams; t_continuous : ContinuousParams; t_legalization : LegalizationParams }.

Definition effort_bad (e : Z) : bool := (e <? 1) || (e >? 9).

(* parameters.cpp  checkEffort *)
Definition check_effort (e : Z) : Outcome unit := if effort_bad e then Throw MEffort else Ok tt.

Section Ctors.
  Variable T : Tables.

  (* RoughLegalizationParameters(int effort): checkEffort; ...; squareSizeArray[effort - 1] *)
  Definition rough_ctor (e : Z) : Outcome RoughParams :=
    bind (check_effort e) (fun _ => index (t_rough T) (e - 1)).
  (* PenaltyParameters(int effort): checkEffort; ...; updateFactorArray[effort - 1] *)
  Definition penalty_ctor (e : Z) : Outcome PenaltyParams :=
    bind (check_effort e) (fun _ => index (t_penalty T) (e - 1)).
  (* ContinuousModelParameters([[maybe_unused]] int effort) *)
  Definition continuous_ctor (e : Z) : Outcome ContinuousParams := Ok (t_continuous T).
  (* GlobalPlacerParameters(int effort) : continuousModel(effort), roughLegalization(effort),
     penalty(effort) { checkEffort; ...; gapToleranceArray[effort - 1]; check(); } *)
  Definition global_ctor (e : Z) : Outcome GlobalParams :=
    bind (continuous_ctor e) (fun cm =>
    bind (rough_ctor e) (fun rl =>
    bind (penalty_ctor e) (fun pe =>
    bind (check_effort e) (fun _ =>
    bind (index (t_global T) (e - 1)) (fun own =>
    checked check_global
      {| gp_own := own; gp_continuousModel := cm; gp_roughLegalization := rl; gp_penalty := pe |}))))).
  (* LegalizationParameters([[maybe_unused]] int effort) { ...; check(); } *)
  Definition legalization_ctor (e : Z) : Outcome LegalizationParams :=
    checked check_legalization (t_legalization T).
  (* DetailedPlacerParameters(int effort) { checkEffort; interpolate...; check(); } *)
  Definition detailed_ctor (e : Z) : Outcome DetailedParams :=
    bind (check_effort e) (fun _ =>
    bind (index (t_detailed T) (e - 1)) (fun d => checked check_detailed d)).
  (* ColoquinteParameters(int effort, int seed) : global(effort), legalization(effort),
     detailed(effort), seed(seed) { checkEffort(effort); } *)
  Definition coloquinte_ctor (e seed : Z) : Outcome ColoquinteParams :=
    bind (global_ctor e) (fun g =>
    bind (legalization_ctor e) (fun l =>
    bind (detailed_ctor e) (fun d =>
    bind (check_effort e) (fun _ =>
    Ok {| cp_global := g; cp_legalization := l; cp_detailed := d; cp_seed := seed |})))).

  (* ---- the same constructors BEFORE repair d9ad548 (F13a): no checkEffort in the members ---- *)
  Definition rough_ctor_orig (e : Z) : Outcome RoughParams := index (t_rough T) (e - 1).
  Definition penalty_ctor_orig (e : Z) : Outcome PenaltyParams := index (t_penalty T) (e - 1).
  Definition global_ctor_orig (e : Z) : Outcome GlobalParams :=
    bind (continuous_ctor e) (fun cm =>
    bind (rough_ctor_orig e) (fun rl =>
    bind (penalty_ctor_orig e) (fun pe =>
    bind (index (t_global T) (e - 1)) (fun own =>
    checked check_global
      {| gp_own := own; gp_continuousModel := cm; gp_roughLegalization := rl; gp_penalty := pe |})))).
  (* interpolateEffort: assert(effort >= minEffort && effort <= maxEffort) *)
  Definition detailed_ctor_orig (e : Z) : Outcome DetailedParams :=
    if effort_bad e then AbortAssert
    else bind (index (t_detailed T) (e - 1)) (fun d => checked check_detailed d).
  Definition coloquinte_ctor_orig (e seed : Z) : Outcome ColoquinteParams :=
    bind (global_ctor_orig e) (fun g =>
    bind (legalization_ctor e) (fun l =>
    bind (detailed_ctor_orig e) (fun d =>
    bind (check_effort e) (fun _ =>
    Ok {| cp_global := g; cp_legalization := l; cp_detailed := d; cp_seed := seed |})))).
End Ctors.

(* ------------------------------------------------------------------ Circuit (coloquinte.hpp/.cpp) *)

Record RowT := { r_minX : Z; r_maxX : Z; r_minY : Z; r_maxY : Z; r_orient : Z }.

(* the data members of class Circuit, one list per std::vector; enums and floats (net weights are
   small integers in the correspondence runs) as Z *)
Record CState := {
  netLimits : list Z; netWeights : list Z; pinCells : list Z; pinXOffsets : list Z; pinYOffsets : list Z;
  cellWidth : list Z; cellHeight : list Z; cellIsFixed : list bool; cellIsObstruction : list bool;
  cellRowPolarity : list Z; cellX : list Z; cellY : list Z; cellOrientation : list Z;
  rows : list RowT;
  isInUse : bool; hasCellSizeUpdate : bool; hasNetUpdate : bool }.

Definition zlen {A} (l : list A) : Z := Z.of_nat (length l).
Definition nbCells (c : CState) : Z := zlen (cellWidth c).
Definition nbNets (c : CState) : Z := zlen (netLimits c) - 1.
Definition nbPins (c : CState) : Z := last (netLimits c) 0.

Inductive CRes :=
| COk (c : CState)
| CThrow (m : Msg) (c : CState)   (* exception; c = the circuit that is left behind *)
| CAbort                          (* assert failed *)
| CWork (c : CState).             (* the parameters were accepted: the placement work starts on c *)

(* Circuit::Circuit(int nbCells) *)
Definition circuit_new (n : nat) : CState :=
  {| netLimits := [0]; netWeights := []; pinCells := []; pinXOffsets := []; pinYOffsets := [];
     cellWidth := repeat 0 n; cellHeight := repeat 0 n; cellIsFixed := repeat false n;
     cellIsObstruction := repeat true n; cellRowPolarity := repeat 0 n; cellX := repeat 0 n;
     cellY := repeat 0 n; cellOrientation := repeat 0 n; rows := [];
     isInUse := false; hasCellSizeUpdate := false; hasNetUpdate := false |}.

(* record updates *)
Definition upd_nets (c : CState) (lim w pc px py : list Z) (nu : bool) : CState :=
  {| netLimits := lim; netWeights := w; pinCells := pc; pinXOffsets := px; pinYOffsets := py;
     cellWidth := cellWidth c; cellHeight := cellHeight c; cellIsFixed := cellIsFixed c;
     cellIsObstruction := cellIsObstruction c; cellRowPolarity := cellRowPolarity c; cellX := cellX c;
     cellY := cellY c; cellOrientation := cellOrientation c; rows := rows c;
     isInUse := isInUse c; hasCellSizeUpdate := hasCellSizeUpdate c; hasNetUpdate := nu |}.
Definition upd_cells (c : CState) (w h : list Z) (f o : list bool) (pol x y ori : list Z) (su : bool) : CState :=
  {| netLimits := netLimits c; netWeights := netWeights c; pinCells := pinCells c;
     pinXOffsets := pinXOffsets c; pinYOffsets := pinYOffsets c;
     cellWidth := w; cellHeight := h; cellIsFixed := f; cellIsObstruction := o; cellRowPolarity := pol;
     cellX := x; cellY := y; cellOrientation := ori; rows := rows c;
     isInUse := isInUse c; hasCellSizeUpdate := su; hasNetUpdate := hasNetUpdate c |}.
Definition upd_rows (c : CState) (r : list RowT) : CState :=
  {| netLimits := netLimits c; netWeights := netWeights c; pinCells := pinCells c;
     pinXOffsets := pinXOffsets c; pinYOffsets := pinYOffsets c;
     cellWidth := cellWidth c; cellHeight := cellHeight c; cellIsFixed := cellIsFixed c;
     cellIsObstruction := cellIsObstruction c; cellRowPolarity := cellRowPolarity c; cellX := cellX c;
     cellY := cellY c; cellOrientation := cellOrientation c; rows := r;
     isInUse := isInUse c; hasCellSizeUpdate := hasCellSizeUpdate c; hasNetUpdate := hasNetUpdate c |}.
Definition upd_flags (c : CState) (su nu : bool) : CState :=
  {| netLimits := netLimits c; netWeights := netWeights c; pinCells := pinCells c;
     pinXOffsets := pinXOffsets c; pinYOffsets := pinYOffsets c;
     cellWidth := cellWidth c; cellHeight := cellHeight c; cellIsFixed := cellIsFixed c;
     cellIsObstruction := cellIsObstruction c; cellRowPolarity := cellRowPolarity c; cellX := cellX c;
     cellY := cellY c; cellOrientation := cellOrientation c; rows := rows c;
     isInUse := isInUse c; hasCellSizeUpdate := su; hasNetUpdate := nu |}.

(* the argument of a vector setter *)
Inductive SetterArg :=
| ACellX (v : list Z) | ACellY (v : list Z) | ACellIsFixed (v : list bool) | ACellIsObstruction (v : list bool)
| ACellOrientation (v : list Z) | ACellRowPolarity (v : list Z) | ACellWidth (v : list Z) | ACellHeight (v : list Z)
| ASolution (v : list (Z * Z * Z))          (* x, y, orientation *)
| ANetWeights (v : list Z) | ARows (v : list RowT).

Definition arg_len (a : SetterArg) : Z :=
  match a with
  | ACellX v | ACellY v | ACellOrientation v | ACellRowPolarity v | ACellWidth v | ACellHeight v
  | ANetWeights v => zlen v
  | ACellIsFixed v | ACellIsObstruction v => zlen v
  | ASolution v => zlen v
  | ARows v => zlen v
  end.

(* does the setter call checkNotInUse()?  (coloquinte.cpp: after the length test) *)
Definition setter_guarded (a : SetterArg) : bool :=
  match a with
  | ACellIsFixed _ | ACellIsObstruction _ | ACellRowPolarity _ | ARows _ => true
  | _ => false
  end.

(* the length the setter insists on; setRows accepts any length *)
Definition setter_expected (a : SetterArg) (c : CState) : option Z :=
  match a with
  | ARows _ => None
  | ANetWeights _ => Some (nbNets c)
  | _ => Some (nbCells c)
  end.

Definition setter_len_msg (a : SetterArg) : Msg :=
  match a with ANetWeights _ => MNbWeights | _ => MNbElements end.

Definition setter_apply (a : SetterArg) (c : CState) : CState :=
  let w := cellWidth c in let h := cellHeight c in let f := cellIsFixed c in let o := cellIsObstruction c in
  let pol := cellRowPolarity c in let x := cellX c in let y := cellY c in let ori := cellOrientation c in
  let su := hasCellSizeUpdate c in
  match a with
  | ACellX v => upd_cells c w h f o pol v y ori su
  | ACellY v => upd_cells c w h f o pol x v ori su
  | ACellIsFixed v => upd_cells c w h v o pol x y ori su
  | ACellIsObstruction v => upd_cells c w h f v pol x y ori su
  | ACellOrientation v => upd_cells c w h f o pol x y v su
  | ACellRowPolarity v => upd_cells c w h f o v x y ori su
  | ACellWidth v => upd_cells c v h f o pol x y ori true
  | ACellHeight v => upd_cells c w v f o pol x y ori true
  | ASolution v => upd_cells c w h f o pol (map (fun t => fst (fst t)) v) (map (fun t => snd (fst t)) v)
                             (map snd v) su
  | ANetWeights v => upd_nets c (netLimits c) v (pinCells c) (pinXOffsets c) (pinYOffsets c) true
  | ARows v => upd_rows c v
  end.

(* Circuit::setCellX ... setRows: length test, then checkNotInUse (where present), then the assignment *)
Definition run_setter (a : SetterArg) (c : CState) : CRes :=
  match setter_expected a c with
  | Some n => if negb (arg_len a =? n) then CThrow (setter_len_msg a) c
              else if setter_guarded a && isInUse c then CThrow MInUse c
              else COk (setter_apply a c)
  | None => if setter_guarded a && isInUse c then CThrow MInUse c else COk (setter_apply a c)
  end.

Definition cell_ok (c : CState) (i : Z) : bool := (0 <=? i) && (i <? nbCells c).

(* Circuit::addNet (after repair f145d5b) *)
Definition add_net (cells xs ys : list Z) (weight : Z) (c : CState) : CRes :=
  if negb (zlen cells =? zlen xs) || negb (zlen cells =? zlen ys) then CThrow MNetPins c
  else if isInUse c then CThrow MInUse c
  else if negb (forallb (cell_ok c) cells) then CThrow MBadCell c
  else match cells with
       | [] => COk c
       | _ => COk (upd_nets c (netLimits c ++ [last (netLimits c) 0 + zlen cells]) (netWeights c ++ [weight])
                            (pinCells c ++ cells) (pinXOffsets c ++ xs) (pinYOffsets c ++ ys) (hasNetUpdate c))
       end.

(* Circuit::addNet before the repair: lengths only *)
Definition add_net_orig (cells xs ys : list Z) (weight : Z) (c : CState) : CRes :=
  if negb (zlen cells =? zlen xs) || negb (zlen cells =? zlen ys) then CThrow MNetPins c
  else if isInUse c then CThrow MInUse c
  else match cells with
       | [] => COk c
       | _ => COk (upd_nets c (netLimits c ++ [last (netLimits c) 0 + zlen cells]) (netWeights c ++ [weight])
                            (pinCells c ++ cells) (pinXOffsets c ++ xs) (pinYOffsets c ++ ys) (hasNetUpdate c))
       end.

Fixpoint sortedb (l : list Z) : bool :=
  match l with
  | a :: ((b :: _) as r) => (a <=? b) && sortedb r
  | _ => true
  end.

(* netWeights_ = weights; netWeights_.resize(netLimits_.size() - 1, 1.0f) *)
Definition resize_weights (w : list Z) (n : nat) : list Z := firstn n w ++ repeat 1 (n - length w).

Definition set_nets_store (lim cells xs ys ws : list Z) (c : CState) : CState :=
  upd_nets c lim (resize_weights ws (length lim - 1)) cells xs ys true.

(* !limits.empty() && limits.front() == 0 *)
Definition starts0 (lim : list Z) : bool := match lim with l0 :: _ => l0 =? 0 | [] => false end.

(* Circuit::setNets (after repair f145d5b) *)
Definition set_nets (lim cells xs ys ws : list Z) (c : CState) : CRes :=
  if isInUse c then CThrow MInUse c
  else if negb (starts0 lim) then CThrow MSnStart c
  else if negb (sortedb lim) then CThrow MSnSorted c
  else if negb (last lim 0 =? zlen cells) || negb (last lim 0 =? zlen xs) || negb (last lim 0 =? zlen ys)
       then CThrow MSnPins c
  else if negb (zlen lim =? zlen ws + 1) && negb (zlen ws =? 0) then CThrow MSnWeights c
  else if negb (forallb (cell_ok c) cells) then CThrow MBadCell c
  else COk (set_nets_store lim cells xs ys ws c).

(* Circuit::setNets before the repair: assert() only (assertions enabled), no cell test *)
Definition set_nets_orig (lim cells xs ys ws : list Z) (c : CState) : CRes :=
  if isInUse c then CThrow MInUse c
  else if negb (starts0 lim) then CAbort
  else if negb (last lim 0 =? zlen cells) || negb (last lim 0 =? zlen xs) || negb (last lim 0 =? zlen ys)
       then CAbort
  else if negb (zlen lim =? zlen ws + 1) && negb (zlen ws =? 0) then CAbort
  else COk (set_nets_store lim cells xs ys ws c).

(* Circuit::check: thirteen tests, one message.  nbPins() reads netLimits_.back(): on an empty
   vector that is itself undefined, but the test `netLimits_.empty()` ... comes AFTER seven tests that
   do not touch it, and nbNets()/nbPins() are first used after it. *)
Definition circuit_check (c : CState) : option Msg :=
  let n := nbCells c in
  first_fail
    [ (negb (zlen (cellWidth c) =? n), MSizeMismatch);
      (negb (zlen (cellHeight c) =? n), MSizeMismatch);
      (negb (zlen (cellIsFixed c) =? n), MSizeMismatch);
      (negb (zlen (cellIsObstruction c) =? n), MSizeMismatch);
      (negb (zlen (cellX c) =? n), MSizeMismatch);
      (negb (zlen (cellY c) =? n), MSizeMismatch);
      (negb (zlen (cellOrientation c) =? n), MSizeMismatch);
      (match netLimits c with [] => true | _ => false end, MSizeMismatch);
      (negb (hd 0 (netLimits c) =? 0), MSizeMismatch);
      (negb (zlen (netWeights c) =? nbNets c), MSizeMismatch);
      (negb (zlen (pinCells c) =? nbPins c), MSizeMismatch);
      (negb (zlen (pinXOffsets c) =? nbPins c), MSizeMismatch);
      (negb (zlen (pinYOffsets c) =? nbPins c), MSizeMismatch) ].

(* every stored pin names an existing cell *)
Definition pins_in_range (c : CState) : bool := forallb (cell_ok c) (pinCells c).

(* ------------------------------------------------------------------ entry of the placement stages *)

Inductive Stage := SGlobal | SLegalize | SDetailed.

(* Circuit::placeGlobal / legalize / placeDetailed (const ColoquinteParameters&):
     GlobalPlacer::place      : params.check(); then the work
     DetailedPlacer::legalize : params.check(); flags := false; then the work      (after 7682226)
     DetailedPlacer::place    : legalize(...) first, so the same entry.
   The work itself (CWork) is not modelled here; isInUse_ is handled by C10's model (Busy.v) and is
   not touched by this one. *)
Definition enter (s : Stage) (p : ColoquinteParams) (c : CState) : CRes :=
  match check_coloquinte p with
  | Some m => CThrow m c
  | None => match s with
            | SGlobal => CWork c
            | _ => CWork (upd_flags c false false)
            end
  end.

(* before repair 7682226: legalize cleared the two update flags before params.check() *)
Definition enter_orig (s : Stage) (p : ColoquinteParams) (c : CState) : CRes :=
  match s with
  | SGlobal => match check_coloquinte p with Some m => CThrow m c | None => CWork c end
  | _ => let c' := upd_flags c false false in
         match check_coloquinte p with Some m => CThrow m c' | None => CWork c' end
  end.

(* Circuit::placeGlobal(int effort) etc.: `placeGlobal(ColoquinteParameters(effort))`.  The
   temporary is built before the circuit is touched. *)
Definition enter_effort (T : Tables) (s : Stage) (e : Z) (c : CState) : CRes :=
  match coloquinte_ctor T e (-1) with
  | Ok p => enter s p c
  | Throw m => CThrow m c
  | UBIndex | AbortAssert => CAbort
  end.
