(* C06, composed statements -- "every upper-bound placement that global placement exposes keeps the centre of every
   movable cell inside the bounding box of the placement rows", for a CIRCUIT.
   Model: GlobalCompose.v = Spread.circuit_grid_area / grid_of_circuit (fromIspdCircuit, F28 repair) o
          SpreadFloat.spread_coord_f true (spreadCoordX/Y in binary32 with the F15 and F21 repairs) o
          SpreadFloat.export_coord_f (std::round(x - 0.5 * placedWidth) in binary64), blendPlacement in binary32, and the
          loop of GlobalPlacer::run.  Proofs: GlobalComposeProofs.v.
   Oracles (quantified universally): the view of the hierarchical grid and its cell lists (C16's subject; the hypotheses
   view_of_circuit / bins_positive are C16's claims: the limits of a level are a sub-sequence of the finest limits that
   keeps both ends, only cells of positive demand are in bins), the target vectors (ANY binary32 values, NaN and
   infinities included), the solver's lower bounds, the stop tests.
   Window: |coordinates of the rows' bounding box| <= 2^24 (every int of the grid converts exactly to binary32), movable
   cells with non-negative int sizes whose area is below 2^31 (the `int` the demand is stored in).
   Labels: [F] proved for all inputs of the stated window; [W] witness computed inside Coq.
   Axioms: the binary32/binary64 theorems depend on the standard library's real numbers through Flocq
   (ClassicalDedekindReals.sig_forall_dec, sig_not_dec, FunctionalExtensionality.functional_extensionality_dep,
   Classical_Prop.classic), nothing else. *)
From Coq Require Import ZArith Reals List Bool Lia.
From Flocq Require Import Core BinarySingleNaN.
Require Import CV.Orient CV.FreeSpace CV.Spread CV.SpreadProofs CV.SpreadFloat CV.SpreadFloatProofs.
Require Import CV.GlobalCompose CV.GlobalComposeProofs.
Import ListNotations.
Local Open Scope Z_scope.

(* ---------------------------------------------------------------- 1. the headline clause for a circuit *)

(* [F] MAIN.  Every circuit with a row of positive width and height, any fixed cells and obstructions, margin >= 0,
   maxSize >= 1, every view of its grid, every allocation of cells of positive demand to the bins of that view, every
   pair of target vectors: every movable cell i (WITH or WITHOUT area) is exposed at integers (X, Y) -- in particular the
   conversion to int is defined: the spread coordinate is finite -- and twice its centre 2X + placedWidth lies in
   [2 minX R, 2 maxX R], R = bounding box of the rows, EXACTLY when the placed width is even and up to one half unit when
   it is odd (same in y).  The half unit is forced by std::round and attained: c06_half_unit_slack_attained. *)
Theorem c06_ub_exposed_centres_inside_rows_bbox : forall margin maxSize rows cells v tx ty,
  0 <= margin -> 1 <= maxSize -> has_proper_row rows ->
  in_window (bbox (map rr rows)) -> cells_window cells ->
  view_of_circuit margin maxSize rows cells v = true -> bins_positive cells v ->
  forall i c, nth_error cells i = Some c -> cc_fixed c = false -> (i < length tx)%nat -> (i < length ty)%nat ->
  let R := bbox (map rr rows) in
  exists X Y, nth_error (ub_exposure margin rows cells v tx ty) i = Some (Some (X, Y)) /\
    2 * minX R - placed_w c mod 2 <= 2 * X + placed_w c <= 2 * maxX R + placed_w c mod 2 /\
    2 * minY R - placed_h c mod 2 <= 2 * Y + placed_h c <= 2 * maxY R + placed_h c mod 2.
Proof. exact ub_exposed_centres_inside_rows_bbox. Qed.

(* [F] the same with respect to the placement area a of the density grid, which lies inside R and is `margin` away from
   the rows' ends in x whenever a free row survives the clipping (c06_grid_limits_inside_rows_bbox) *)
Theorem c06_ub_exposed_centres_inside_grid_area : forall margin maxSize rows cells v tx ty,
  0 <= margin -> 1 <= maxSize -> has_proper_row rows ->
  in_window (bbox (map rr rows)) -> cells_window cells ->
  view_of_circuit margin maxSize rows cells v = true -> bins_positive cells v ->
  forall i c, nth_error cells i = Some c -> cc_fixed c = false -> (i < length tx)%nat -> (i < length ty)%nat ->
  let a := circuit_grid_area margin rows cells in
  exists X Y, nth_error (ub_exposure margin rows cells v tx ty) i = Some (Some (X, Y)) /\
    2 * minX a - placed_w c mod 2 <= 2 * X + placed_w c <= 2 * maxX a + placed_w c mod 2 /\
    2 * minY a - placed_h c mod 2 <= 2 * Y + placed_h c <= 2 * maxY a + placed_h c mod 2.
Proof. exact ub_exposure_inside_area. Qed.

(* [F] even placed sizes: no slack *)
Theorem c06_centre_inside_even : forall R c X Y, centre_inside R c X Y ->
  (placed_w c mod 2 = 0 -> 2 * minX R <= 2 * X + placed_w c <= 2 * maxX R) /\
  (placed_h c mod 2 = 0 -> 2 * minY R <= 2 * Y + placed_h c <= 2 * maxY R).
Proof. exact centre_inside_even. Qed.

(* a circuit with a split row, a fixed obstruction (cell 0), a cell of odd width (cell 1), a turned cell (cell 2:
   stored 10 x 4, orientation E, placed 4 x 10), a flipped cell (3) and a movable cell without area (4); margin 1, bin
   size 10: grid limits x = 1 13 26 39, y = 0 10 20; the view merges the two right columns *)
Definition cx_rows := [ {| rr := {| minX := 0; maxX := 40; minY := 0; maxY := 10 |}; ro := oN |};
                        {| rr := {| minX := 0; maxX := 18; minY := 10; maxY := 20 |}; ro := oFS |};
                        {| rr := {| minX := 22; maxX := 40; minY := 10; maxY := 20 |}; ro := oFS |} ].
Definition cx_cells : list ccell :=
  [ (10, 0, 6, 10, oN, true, true); (5, 5, 3, 10, oN, false, false); (30, 3, 10, 4, oE, false, false);
    (-7, 50, 4, 10, oFN, false, false); (2, 2, 0, 10, oN, false, false) ].
Definition cx_view := {| v_x := [1; 13; 39]; v_y := [0; 10; 20]; v_cells := [[[1%nat]; []]; [[3%nat; 2%nat]; []]] |}.
(* targets with +infinity, -infinity and NaN entries *)
Definition cx_tx : list f32 := [B754_infinity false; f_of_me 7 (-1); f_of_Z 30; f_of_Z (-7); B754_nan].
Definition cx_ty : list f32 := [f_of_Z 0; B754_nan; f_of_me 13 (-2); B754_infinity true; f_of_Z 1000].

Example c06_compose_nonvacuous :
  grid_of_circuit 1 10 cx_rows cx_cells = ([1; 13; 26; 39], [0; 10; 20]) /\
  circuit_grid_area 1 cx_rows cx_cells = {| minX := 1; maxX := 39; minY := 0; maxY := 20 |} /\
  view_of_circuit 1 10 cx_rows cx_cells cx_view = true /\ view_shape cx_view = true /\
  map cell_demand cx_cells = [0; 30; 40; 40; 0] /\
  ub_exposure 1 cx_rows cx_cells cx_view cx_tx cx_ty = [Some (10, 0); Some (6, 0); Some (31, 3); Some (18, -3); Some (39, 15)].
Proof. repeat split; vm_compute; reflexivity. Qed.

Example c06_compose_hypotheses_nonvacuous :
  has_proper_row cx_rows /\ in_window (bbox (map rr cx_rows)) /\ cells_window cx_cells /\ bins_positive cx_cells cx_view.
Proof.
  split; [eexists; split; [left; reflexivity|simpl; lia]|].
  split; [unfold in_window; vm_compute; repeat split; discriminate|].
  split.
  - intros c Hc Hf. simpl in Hc.
    repeat (destruct Hc as [<-|Hc]; [try discriminate Hf; vm_compute; repeat split; try discriminate; reflexivity|]).
    destruct Hc.
  - intros c Hc. simpl in Hc. repeat (destruct Hc as [<-|Hc]; [vm_compute; reflexivity|]). destruct Hc.
Qed.

(* [W] the half unit is attained by a cell of POSITIVE area: one row [2^23, 2^23 + 64] x [0, 10], margin 0, one bin, a
   cell 63 x 10 and a cell 1 x 10 with the larger target: binary32 (one unit in the last place = 1 at 2^23) collapses the
   coordinate of the small cell onto the bin limit 8388672 = maxX R, std::round(8388672 - 0.5) = 8388672, and twice the
   exposed centre is 2 maxX R + 1.  Over Q (c06_spread_coord_inside) the coordinate is strictly inside the bin *)
Definition wx_rows := [ {| rr := {| minX := 8388608; maxX := 8388672; minY := 0; maxY := 10 |}; ro := oN |} ].
Definition wx_cells : list ccell := [ (8388608, 0, 63, 10, oN, false, false); (8388608, 0, 1, 10, oN, false, false) ].
Definition wx_view := {| v_x := [8388608; 8388672]; v_y := [0; 10]; v_cells := [[[0%nat; 1%nat]]] |}.
Definition wx_t : list f32 := [f_of_Z 0; f_of_Z 1].

Theorem c06_half_unit_slack_attained :
  has_proper_row wx_rows /\ in_window (bbox (map rr wx_rows)) /\ cells_window wx_cells /\
  view_of_circuit 0 100 wx_rows wx_cells wx_view = true /\ bins_positive wx_cells wx_view /\
  exists c X Y, nth_error wx_cells 1 = Some c /\ cc_fixed c = false /\ 0 < cell_demand c /\
    nth_error (ub_exposure 0 wx_rows wx_cells wx_view wx_t wx_t) 1 = Some (Some (X, Y)) /\
    2 * X + placed_w c = 2 * maxX (bbox (map rr wx_rows)) + 1.
Proof.
  split; [eexists; split; [left; reflexivity|simpl; lia]|].
  split; [unfold in_window; vm_compute; repeat split; discriminate|].
  split.
  { intros c Hc Hf. simpl in Hc.
    repeat (destruct Hc as [<-|Hc]; [vm_compute; repeat split; try discriminate; reflexivity|]). destruct Hc. }
  split; [vm_compute; reflexivity|].
  split.
  { intros c Hc. simpl in Hc. repeat (destruct Hc as [<-|Hc]; [vm_compute; reflexivity|]). destruct Hc. }
  exists (8388608, 0, 1, 10, oN, false, false), 8388672, 5.
  repeat split; vm_compute; reflexivity.
Qed.

(* [W] ... and INSIDE the magnitude range of C07 (|coordinates| <= 2^22): one row [0,45] x [2^22 - 9, 2^22] (odd height 9),
   default side margin 0.9 and bin size 5 (margin 8, maxSize 45: one bin), 45 movable cells 1 x 9 (an overfull bin), y targets
   0, 1, .., 44: the last cell's exact coordinate is 2^22 - 0.1, binary32 (one unit in the last place = 1/4 just below 2^22)
   collapses it onto the bin limit 2^22 = maxY R, std::round(2^22 - 4.5) = 2^22 - 4, twice the exposed centre is 2 maxY R + 1.
   Reproduced on the compiled library through Circuit::placeGlobal (design/C06.md, observation O3) *)
Definition wy_rows := [ {| rr := {| minX := 0; maxX := 45; minY := 4194295; maxY := 4194304 |}; ro := oN |} ].
Definition wy_cells : list ccell := map (fun k => (Z.of_nat k, 4194295, 1, 9, oN, false, false)) (seq 0 45).
Definition wy_view := {| v_x := [8; 37]; v_y := [4194295; 4194304]; v_cells := [[seq 0 45]] |}.
Definition wy_t : list f32 := map (fun k => f_of_Z (Z.of_nat k)) (seq 0 45).

Theorem c06_half_unit_slack_attained_in_range :
  has_proper_row wy_rows /\
  (let R := bbox (map rr wy_rows) in
   Z.abs (minX R) <= 2 ^ 22 /\ Z.abs (maxX R) <= 2 ^ 22 /\ Z.abs (minY R) <= 2 ^ 22 /\ Z.abs (maxY R) <= 2 ^ 22) /\
  view_of_circuit 8 45 wy_rows wy_cells wy_view = true /\
  forallb (fun c => 0 <? nth c (map cell_demand wy_cells) 0) (view_cells wy_view) = true /\
  exists c X Y, nth_error wy_cells 44 = Some c /\ cc_fixed c = false /\ 0 < cell_demand c /\
    nth_error (ub_exposure 8 wy_rows wy_cells wy_view wy_t wy_t) 44 = Some (Some (X, Y)) /\
    2 * Y + placed_h c = 2 * maxY (bbox (map rr wy_rows)) + 1.
Proof.
  split; [eexists; split; [left; reflexivity|simpl; lia]|].
  split; [vm_compute; repeat split; discriminate|].
  split; [vm_compute; reflexivity|]. split; [vm_compute; reflexivity|].
  exists (44, 4194295, 1, 9, oN, false, false), 36, 4194300.
  repeat split; vm_compute; reflexivity.
Qed.

(* ---------------------------------------------------------------- 1b. the view hypothesis as C16 states it *)
Require CV.Density CV.DensityProofs.

(* [F] MAIN, general form: the limits of the view only have to be strictly increasing and taken from the finest limits
   (limits_view); no cell list shape, no NoDup: a cell that is in a bin in one direction only, or in several bins, is
   still exposed inside *)
Theorem c06_ub_exposed_centres_inside_rows_bbox_gen : forall margin maxSize rows cells v tx ty,
  0 <= margin -> 1 <= maxSize -> has_proper_row rows ->
  in_window (bbox (map rr rows)) -> cells_window cells ->
  limits_view (fst (grid_of_circuit margin maxSize rows cells)) (v_x v) ->
  limits_view (snd (grid_of_circuit margin maxSize rows cells)) (v_y v) ->
  bins_positive cells v ->
  forall i c, nth_error cells i = Some c -> cc_fixed c = false -> (i < length tx)%nat -> (i < length ty)%nat ->
  let R := bbox (map rr rows) in
  exists X Y, nth_error (ub_exposure margin rows cells v tx ty) i = Some (Some (X, Y)) /\
    2 * minX R - placed_w c mod 2 <= 2 * X + placed_w c <= 2 * maxX R + placed_w c mod 2 /\
    2 * minY R - placed_h c mod 2 <= 2 * Y + placed_h c <= 2 * maxY R + placed_h c mod 2.
Proof. exact ub_exposed_centres_inside_rows_bbox_gen. Qed.

(* [F] the boolean test the tie evaluates on every recorded view implies limits_view *)
Theorem c06_is_view_limits_view : forall L H fine v, limits_ok L H fine -> is_view fine v = true -> limits_view fine v.
Proof. exact is_view_limits_view. Qed.

(* [F] the limits of EVERY level of C16's hierarchy (Density.level_limits, the subject of c16_level_limits_tile) over
   strictly increasing finest limits satisfy limits_view ... *)
Theorem c06_c16_level_limits_are_views : forall fine nb Lv P lvl vs, (1 <= nb)%nat -> DensityProofs.levels_ok nb Lv P ->
  length fine = S nb -> DensityProofs.schainZ fine ->
  Density.level_limits fine Lv lvl = Some vs -> limits_view fine vs.
Proof. exact c16_level_limits_view. Qed.

(* [F] ... and C16's grid of a circuit has exactly the bin limits of C06's (two models of DensityGrid::fromIspdCircuit) *)
Theorem c06_grid_models_agree : forall bs margin rows cells,
  Density.limX (Density.grid_of_circuit bs margin rows cells) = fst (Spread.grid_of_circuit margin bs rows cells) /\
  Density.limY (Density.grid_of_circuit bs margin rows cells) = snd (Spread.grid_of_circuit margin bs rows cells).
Proof. exact grid_of_circuit_bridge. Qed.

Example c06_views_nonvacuous :
  limits_view [1; 13; 26; 39] [1; 13; 39] /\ is_view [1; 13; 26; 39] [1; 13; 39] = true /\ is_view [1; 13; 26; 39] [1; 14; 39] = false /\
  Density.limX (Density.grid_of_circuit 10 1 cx_rows cx_cells) = [1; 13; 26; 39] /\
  Density.level_limits [1; 13; 26; 39] [[0; 1; 2; 3]; [0; 2; 3]; [0; 3]]%nat 1 = Some [1; 26; 39].
Proof.
  split; [split; [simpl; lia|intros a Ha; simpl in *; tauto]|]. repeat split; vm_compute; reflexivity.
Qed.

(* ---------------------------------------------------------------- 2. the pieces the composition needed *)

(* [F] repaired spreadCells in binary32, every demand positive as a float, ANY targets: every entry of the result is
   finite and inside [lo, hi] -- closes the half that c06_spread_cells_float_clamped_entries_partial leaves open (every
   cell IS written) *)
Theorem c06_spread_cells_float_all_inside : forall (targets demands : list f32) (lo hi : f32),
  length demands = length targets ->
  is_finite lo = true -> is_finite hi = true -> (B2R lo <= B2R hi)%R ->
  (forall d, In d demands -> Bleb d fzero = false) ->
  Forall (fin_in (B2R lo) (B2R hi)) (spread_cells_f true targets demands lo hi).
Proof. exact spread_cells_f_all_inside. Qed.

(* [F] ... for ANY visiting order that reaches every index (std::sort's result is an unspecified permutation when a NaN
   target breaks its precondition) *)
Theorem c06_spread_cells_float_any_order_inside : forall (order : list fkey) (demands : list f32) (inv lo hi : f32),
  is_finite lo = true -> is_finite hi = true -> (B2R lo <= B2R hi)%R ->
  (forall d, In d demands -> Bleb d fzero = false) ->
  (forall c, (c < length demands)%nat -> In c (map snd order)) ->
  forall c, (c < length demands)%nat ->
  fin_in (B2R lo) (B2R hi)
    (nth c (snd (fold_left (spread_step_f true demands inv lo hi) order (fzero, repeat fzero (length demands)))) fzero).
Proof. exact spread_cells_any_order_inside. Qed.

(* [F] repaired spreadCoordX/Y in binary32: every entry (cells in a bin and cells in no bin, any targets) is finite and
   inside the placement area, provided every bin lies in the area, has int limits of the window and holds only cells of
   positive int demand *)
Theorem c06_spread_coord_float_inside : forall (alo ahi : Z) bins target demand,
  Z.abs alo <= 2 ^ 24 -> Z.abs ahi <= 2 ^ 24 -> alo <= ahi ->
  (forall b, In b bins -> bin_inside alo ahi demand b) ->
  Forall (fin_in (IZR alo) (IZR ahi)) (spread_coord_f true alo ahi bins target demand) /\
  length (spread_coord_f true alo ahi bins target demand) = length target.
Proof. exact spread_coord_f_inside. Qed.

(* [F] the export expression at bit level: float promoted to double, 0.5 * size, the difference (one binary64 rounding),
   std::round *)
Theorem c06_export_coord_float_inside : forall (x : f32) (L H size : Z),
  is_finite x = true -> (IZR L <= B2R x <= IZR H)%R ->
  Z.abs L <= 2 ^ 24 -> Z.abs H <= 2 ^ 24 -> Z.abs size <= 2 ^ 31 ->
  exists X, export_coord_f x size = Some X /\ 2 * L - size mod 2 <= 2 * X + size <= 2 * H + size mod 2.
Proof. exact export_coord_f_inside. Qed.

Example c06_export_coord_float_nonvacuous :
  export_coord_f (f_of_Z 122) 7 = Some 119 /\ export_coord_f (f_of_Z 122) 6 = Some 119 /\
  export_coord_f (f_of_Z (-3)) 1 = Some (-4) /\ export_coord_f B754_nan 1 = None.
Proof. repeat split; vm_compute; reflexivity. Qed.

(* ---------------------------------------------------------------- 3. the returned placement *)

(* [F] blendPlacement in binary32 against the exact blend: 4 u (|1-w||a| + |w||b|) + 2^-100, u = 2^-24 *)
Theorem c06_blend_float_error : forall w a b : R,
  (Rabs (1 - w) <= 2 -> Rabs w <= 2 -> Rabs a <= bpow radix2 30 -> Rabs b <= bpow radix2 30 ->
   Rabs (blend_R w a b - ((1 - w) * a + w * b))
   <= 4 * bpow radix2 (-24) * (Rabs (1 - w) * Rabs a + Rabs w * Rabs b) + bpow radix2 (-100))%R.
Proof. exact blend_R_err. Qed.

(* [F] SECOND.  The placement GlobalPlacer::place leaves in the circuit: for every movable cell the integer written is
   (1-w) LB + w UB - placedWidth/2 up to 1/2 (std::round) + the binary32 error of the blend + 2^-19 (one binary64 rounding),
   for every finite weight with |w| <= 2 and |1-w| <= 2 (check() accepts exportBlending in [-0.5, 1.5]), both shortcuts of
   blendPlacement included, LB/UB entries finite and below 2^30 *)
Theorem c06_returned_placement_is_blend : forall w cells lbx ubx lby uby i c ax bx ay by_,
  weight_ok w -> cells_window cells ->
  nth_error cells i = Some c -> cc_fixed c = false ->
  nth_error lbx i = Some ax -> nth_error ubx i = Some bx -> nth_error lby i = Some ay -> nth_error uby i = Some by_ ->
  in_solver_window ax -> in_solver_window bx -> in_solver_window ay -> in_solver_window by_ ->
  exists X Y, nth_error (returned_placement w cells lbx ubx lby uby) i = Some (Some (X, Y)) /\
    (Rabs (IZR X - (blend_exact (B2R w) (B2R ax) (B2R bx) - IZR (placed_w c) * / 2))
      <= / 2 + blend_bound (B2R w) (B2R ax) (B2R bx) + bpow radix2 (-19))%R /\
    (Rabs (IZR Y - (blend_exact (B2R w) (B2R ay) (B2R by_) - IZR (placed_h c) * / 2))
      <= / 2 + blend_bound (B2R w) (B2R ay) (B2R by_) + bpow radix2 (-19))%R.
Proof. exact returned_placement_is_blend. Qed.

(* exportBlending 0.99 (the default): LB (10.25, 5), UB (20, 3.5) of the odd-width cell; the turned cell at LB = UB *)
Example c06_returned_nonvacuous :
  returned_placement (f_of_me 16609444 (-24)) cx_cells
    [f_of_Z 0; f_of_me 41 (-2); f_of_Z 30; f_of_Z 20; f_of_Z 3] [f_of_Z 0; f_of_Z 20; f_of_Z 30; f_of_Z 21; f_of_Z 3]
    [f_of_Z 0; f_of_Z 5; f_of_Z 8; f_of_Z 9; f_of_Z 3] [f_of_Z 0; f_of_me 7 (-1); f_of_Z 8; f_of_Z 9; f_of_Z 4]
  = [Some (10, 0); Some (18, -1); Some (28, 3); Some (19, 4); Some (3, -1)].
Proof. vm_compute. reflexivity. Qed.

(* ---------------------------------------------------------------- 4. the loop of GlobalPlacer::run *)

(* [F] THIRD.  Closed model of run() (run_global: the for loop with its break, the PenaltyUpdate callback, the runLB calls,
   the final runUB; the view after DensityLegalizer::run, the stop tests and the solver's lower bounds are oracles): for all
   oracle values that satisfy C16's claims (oracle_ok) every callback that exposes an upper bound (UpperBound or
   PenaltyUpdate) exposes ub_exposure of some view and targets; the loop makes at most maxNbSteps - nbInitialSteps
   iterations (UpperBound callbacks: one per iteration + the final one); the last callback is the UpperBound exposure of
   the final xPlacementUB_/yPlacementUB_ *)
Theorem c06_run_global_exposures : forall margin maxSize rows cells wrl maxNbSteps nbInitialSteps its vlast s0,
  state_len (length cells) s0 -> Forall (oracle_ok margin maxSize rows cells) its ->
  view_of_circuit margin maxSize rows cells vlast = true -> bins_positive cells vlast ->
  let r := run_global margin rows cells wrl maxNbSteps nbInitialSteps its vlast s0 in
  Forall (event_ok margin maxSize rows cells) (snd r) /\
  (count_ub (snd r) <= (maxNbSteps - nbInitialSteps) + 1)%nat /\
  state_len (length cells) (fst r) /\
  (exists evs pl, snd r = evs ++ [(KUpperBound, pl)] /\
                  pl = export_placement_f cells (s_ubx (fst r)) (s_uby (fst r))).
Proof. exact run_global_ok. Qed.

(* [F] hence: every upper bound the run exposes keeps every movable cell inside the rows' bounding box *)
Theorem c06_run_global_exposed_inside : forall margin maxSize rows cells wrl maxNbSteps nbInitialSteps its vlast s0,
  0 <= margin -> 1 <= maxSize -> has_proper_row rows -> in_window (bbox (map rr rows)) -> cells_window cells ->
  state_len (length cells) s0 -> Forall (oracle_ok margin maxSize rows cells) its ->
  view_of_circuit margin maxSize rows cells vlast = true -> bins_positive cells vlast ->
  forall e, In e (snd (run_global margin rows cells wrl maxNbSteps nbInitialSteps its vlast s0)) ->
  fst e <> KLowerBound ->
  forall i c, nth_error cells i = Some c -> cc_fixed c = false ->
  exists X Y, nth_error (snd e) i = Some (Some (X, Y)) /\ centre_inside (bbox (map rr rows)) c X Y.
Proof. exact run_global_exposed_inside. Qed.

(* two iterations (the second one stops), a PenaltyUpdate in the first, maxNbSteps 5: UpperBound, PenaltyUpdate,
   LowerBound, UpperBound (break), final UpperBound *)
Definition cx_s0 := {| s_lbx := cx_tx; s_lby := cx_ty; s_ubx := cx_tx; s_uby := cx_ty |}.
Definition cx_its :=
  [ {| it_view := cx_view; it_stop := false; it_penalty := true;
       it_lbs := [([f_of_Z 0; f_of_Z 9; f_of_Z 31; f_of_Z 20; f_of_Z 5], [f_of_Z 0; f_of_Z 4; f_of_Z 8; f_of_Z 9; f_of_Z 7])] |};
    {| it_view := {| v_x := [1; 39]; v_y := [0; 20]; v_cells := [[[2%nat; 1%nat; 3%nat]]] |}; it_stop := true;
       it_penalty := false; it_lbs := [] |};
    {| it_view := cx_view; it_stop := false; it_penalty := false; it_lbs := [] |} ].

Example c06_run_global_nonvacuous :
  map fst (snd (run_global 1 cx_rows cx_cells fzero 5 0 cx_its cx_view cx_s0))
    = [KUpperBound; KPenaltyUpdate; KLowerBound; KUpperBound; KUpperBound] /\
  count_ub (snd (run_global 1 cx_rows cx_cells fzero 5 0 cx_its cx_view cx_s0)) = 3%nat /\
  nth_error (map snd (snd (run_global 1 cx_rows cx_cells fzero 5 0 cx_its cx_view cx_s0))) 3
    = Some [Some (10, 0); Some (5, -2); Some (30, 4); Some (16, 11); Some (5, 2)].
Proof. repeat split; vm_compute; reflexivity. Qed.

Print Assumptions c06_ub_exposed_centres_inside_rows_bbox.
Print Assumptions c06_ub_exposed_centres_inside_grid_area.
Print Assumptions c06_centre_inside_even.
Print Assumptions c06_ub_exposed_centres_inside_rows_bbox_gen.
Print Assumptions c06_is_view_limits_view.
Print Assumptions c06_c16_level_limits_are_views.
Print Assumptions c06_grid_models_agree.
Print Assumptions c06_half_unit_slack_attained.
Print Assumptions c06_half_unit_slack_attained_in_range.
Print Assumptions c06_spread_cells_float_all_inside.
Print Assumptions c06_spread_cells_float_any_order_inside.
Print Assumptions c06_spread_coord_float_inside.
Print Assumptions c06_export_coord_float_inside.
Print Assumptions c06_blend_float_error.
Print Assumptions c06_returned_placement_is_blend.
Print Assumptions c06_run_global_exposures.
Print Assumptions c06_run_global_exposed_inside.
