(* C14 optimality, part M5: every feasible plan (matrix) of a sorted, well-formed problem costs at least
   Vf n (D_m - S_n), the optimum of the position problem. *)
From Coq Require Import List ZArith Lia Bool Arith.
Import ListNotations.
Require Import CV.LpCert CV.Transp1d CV.Transp1dProofs CV.Transp1dTerm CV.Transp1dCert CV.Transp1dOpt
               CV.Transp1dOptA1 CV.Transp1dOptA2 CV.Transp1dOptM1 CV.Transp1dOptM2 CV.Transp1dOptM3 CV.Transp1dOptM4.
Local Open Scope Z_scope.

Theorem plans_lower_bound P X : wf_sprob P -> sorted_sprob P -> feasible_mat P X ->
  Vf P (n_src P) (Dx P (n_snk P) - Sx P (n_src P)) <= mat_cost P X.
Proof.
  intros W So (Xpos & Xrow & Xcol).
  set (n := n_src P) in *. set (m := n_snk P) in *.
  pose proof (nw_cheapest n m (zn (su P)) (zn (sv P)) (Sx P) X (proj1 So) (proj2 So)
                (Sx_mono P W) (Sx_0 P W) Xpos Xrow) as C1.
  set (T := Tl n X) in *.
  assert (HT0 : T 0%nat = 0) by reflexivity.
  assert (HTm : forall j k, (j <= k)%nat -> (k <= m)%nat -> T j <= T k) by (apply (Tl_mono n m X Xpos)).
  assert (HTd : forall j, (j < m)%nat -> T (j + 1)%nat - T j <= Dx P (j + 1) - Dx P j).
  { intros j Hj. subst T. rewrite Tl_S. unfold ell. specialize (Xcol j Hj). lia. }
  assert (HTn : T m = Sx P n) by (apply (Tl_m n m (Sx P) X (Sx_0 P W) Xrow)).
  assert (Hfe : Sx P n <= Dx P m).
  { subst n m. rewrite Sx_n, Dx_m by exact W. apply (w_tot _ W). }
  pose proof (stair_dp P W So T HT0 HTm HTd HTn n (le_n _) (Dx P m) (Z.le_refl _) Hfe) as C2.
  assert (Hfit : FIT P T n (Dx P m)).
  { intros j Hj. unfold Lk, avail. pose proof (HTm (j + 1)%nat m ltac:(lia) ltac:(lia)).
    pose proof (HTm j (j + 1)%nat ltac:(lia) ltac:(lia)). specialize (HTd j Hj).
    pose proof (D_le P W 0 j ltac:(lia) ltac:(lia)). pose proof (D_le P W (j + 1) m ltac:(lia) ltac:(lia)).
    rewrite (Dx_0 P W) in *. lia. }
  specialize (C2 Hfit).
  assert (E1 : LpCert.cost (seq 0 n) (seq 0 m) (cabs (zn (su P)) (zn (sv P))) (fun j i => nw (Sx P) T i j) = zsum (rowcost P T) (seq 0 n)).
  { unfold LpCert.cost, rowcost. rewrite zsum_swap. apply zsum_ext. intros i _. apply zsum_ext. intros j _. reflexivity. }
  assert (E2 : LpCert.cost (seq 0 n) (seq 0 m) (cabs (zn (su P)) (zn (sv P))) (fun j i => X i j) = mat_cost P X).
  { unfold LpCert.cost, mat_cost. rewrite zsum_swap. apply zsum_ext. intros i _. apply zsum_ext. intros j _. reflexivity. }
  lia.
Qed.
