(* Review gap (C15, review_C11-C15.md "no theorem at compute_rows / compute_rows_circuit level"):
   exactness at the level Circuit::computeRows speaks about.  Everything is derived from
   FreeSpaceProofs.freespace_exact; the "ignored cells" and "turned outline" clauses become
   consequences of the characterisation (its right-hand side mentions only the extra obstacles and
   the cells with isFixed && isObstruction, through cell_placement). *)
From Coq Require Import List ZArith Lia Bool.
Import ListNotations.
Require Import CV.Orient CV.FreeSpace CV.FreeSpaceProofs.
Local Open Scope Z_scope.

Definition ccell := (Z * Z * Z * Z * orient * bool * bool)%type.

(* a column of one of the returned segments *)
Definition in_rows (x : Z) (l : list row) := exists s, In s l /\ minX (rr s) <= x < maxX (rr s).

(* placed width/height of a cell: swapped when the orientation is turned *)
Definition placed_w (w h : Z) (o : orient) := if is_turn o then h else w.
Definition placed_h (w h : Z) (o : orient) := if is_turn o then w else h.

(* column x of row rectangle rw is obstructed by the placed outline of the cell *)
Definition cell_obstructs (rw : rect) (x : Z) (c : ccell) : Prop :=
  match c with (cx, cy, w, h, o, fx, ob) =>
    fx = true /\ ob = true /\
    0 < placed_w w h o /\ 0 < placed_h w h o /\
    cy < maxY rw /\ minY rw < cy + placed_h w h o /\
    cx <= x < cx + placed_w w h o
  end.

Definition rect_obstructs (rw : rect) (x : Z) (o : rect) : Prop :=
  minX o < maxX o /\ minY o < maxY o /\ minY o < maxY rw /\ minY rw < maxY o /\ minX o <= x < maxX o.

(* the obstacle list Circuit::computeRows builds *)
Definition circuit_obstacles (extra : list rect) (cells : list ccell) : list rect :=
  obstacles_of extra
    (map (fun c : ccell => match c with (x, y, w, h, o, fx, ob) => (cell_placement x y w h o, fx, ob) end) cells).

Lemma in_rows_freespace r obs x :
  in_rows x (freespace_rows r obs) <-> in_ivs x (freespace_iv (rr r) obs).
Proof.
  unfold in_rows, in_ivs, in_iv, freespace_rows. split.
  - intros (s & Hin & Hx). apply in_map_iff in Hin. destruct Hin as (i & <- & Hi).
    exists i. split; [exact Hi|exact Hx].
  - intros (i & Hi & Hx). eexists. split; [apply in_map; exact Hi|exact Hx].
Qed.

Lemma blocks_spec rw o : blocks rw o = true <->
  minX o < maxX o /\ minY o < maxY o /\ minY o < maxY rw /\ minY rw < maxY o.
Proof. unfold blocks. rewrite !andb_true_iff, !Z.ltb_lt. tauto. Qed.

Lemma in_circuit_obstacles extra cells p :
  In p (circuit_obstacles extra cells) <->
  In p extra \/ exists x y w h o, In (x, y, w, h, o, true, true) cells /\ p = cell_placement x y w h o.
Proof.
  unfold circuit_obstacles, obstacles_of. rewrite in_app_iff, in_flat_map. split.
  - intros [H|(c & Hc & Hp)]; [left; exact H|right].
    apply in_map_iff in Hc. destruct Hc as ([[[[[[x y] w] h] o] fx] ob] & <- & Hin).
    destruct fx, ob; cbn in Hp; try contradiction. destruct Hp as [<-|[]].
    exists x, y, w, h, o. split; [exact Hin|reflexivity].
  - intros [H|(x & y & w & h & o & Hin & ->)]; [left; exact H|right].
    exists (cell_placement x y w h o, true, true). split; [|left; reflexivity].
    apply in_map_iff. exists (x, y, w, h, o, true, true). split; [reflexivity|exact Hin].
Qed.

(* concatenation over rows, in row order *)
Theorem compute_rows_circuit_concat rows extra cells :
  compute_rows_circuit rows extra cells =
  flat_map (fun r => freespace_rows r (circuit_obstacles extra cells)) rows.
Proof. reflexivity. Qed.

Theorem compute_rows_circuit_app rows1 rows2 extra cells :
  compute_rows_circuit (rows1 ++ rows2) extra cells =
  compute_rows_circuit rows1 extra cells ++ compute_rows_circuit rows2 extra cells.
Proof. unfold compute_rows_circuit, compute_rows. apply flat_map_app. Qed.

(* exactness for one row of a circuit *)
Theorem circuit_row_exact r extra cells x :
  in_rows x (freespace_rows r (circuit_obstacles extra cells)) <->
  (minX (rr r) <= x < maxX (rr r) /\ minY (rr r) < maxY (rr r) /\
   (forall o, In o extra -> ~ rect_obstructs (rr r) x o) /\
   (forall c, In c cells -> ~ cell_obstructs (rr r) x c)).
Proof.
  rewrite in_rows_freespace, freespace_exact. split.
  - intros (Hx & Hy & Hall). repeat split; try lia.
    + intros o Ho (A & B & C & D & E). apply (Hall o); [|apply blocks_spec; tauto|exact E].
      apply in_circuit_obstacles. left. exact Ho.
    + intros [[[[[[cx cy] w] h] o] fx] ob] Hc (-> & -> & A & B & C & D & E).
      apply (Hall (cell_placement cx cy w h o)).
      * apply in_circuit_obstacles. right. exists cx, cy, w, h, o. split; [exact Hc|reflexivity].
      * apply blocks_spec. unfold cell_placement, placed_w, placed_h in *. cbn [minX maxX minY maxY]. lia.
      * unfold cell_placement, placed_w in *. cbn [minX maxX]. exact E.
  - intros (Hx & Hy & Hex & Hcells). repeat split; try lia.
    intros p Hp Hb Hcol. apply blocks_spec in Hb. apply in_circuit_obstacles in Hp.
    destruct Hp as [Hp|(cx & cy & w & h & o & Hin & ->)].
    + apply (Hex p Hp). unfold rect_obstructs. tauto.
    + apply (Hcells _ Hin). unfold cell_obstructs, cell_placement, placed_w, placed_h in *.
      cbn [minX maxX minY maxY] in *. repeat split; try reflexivity; lia.
Qed.

(* whole result: a segment of the output comes from exactly one input row position; its columns are
   the obstruction-free columns of that row *)
Theorem compute_rows_circuit_exact rows extra cells s :
  In s (compute_rows_circuit rows extra cells) <->
  exists r, In r rows /\ In s (freespace_rows r (circuit_obstacles extra cells)).
Proof. rewrite compute_rows_circuit_concat. apply in_flat_map. Qed.

Theorem compute_rows_circuit_columns rows extra cells r x :
  In r rows ->
  (in_rows x (freespace_rows r (circuit_obstacles extra cells)) <->
   (minX (rr r) <= x < maxX (rr r) /\ minY (rr r) < maxY (rr r) /\
    (forall o, In o extra -> ~ rect_obstructs (rr r) x o) /\
    (forall c, In c cells -> ~ cell_obstructs (rr r) x c))).
Proof. intros _. apply circuit_row_exact. Qed.

(* the i-th row contributes the i-th block of the concatenation *)
Theorem compute_rows_circuit_cons r rows extra cells :
  compute_rows_circuit (r :: rows) extra cells =
  freespace_rows r (circuit_obstacles extra cells) ++ compute_rows_circuit rows extra cells.
Proof. reflexivity. Qed.

(* every returned segment: full height and orientation of its row, non-empty, inside the row *)
Theorem compute_rows_circuit_shape rows extra cells s :
  In s (compute_rows_circuit rows extra cells) ->
  exists r, In r rows /\
    minY (rr s) = minY (rr r) /\ maxY (rr s) = maxY (rr r) /\ ro s = ro r /\
    minX (rr r) <= minX (rr s) /\ minX (rr s) < maxX (rr s) /\ maxX (rr s) <= maxX (rr r).
Proof.
  intros H. apply compute_rows_circuit_exact in H. destruct H as (r & Hr & Hs).
  exists r. split; [exact Hr|]. exact (freespace_rows_shape _ _ _ Hs).
Qed.

(* cells that are movable or flagged non-obstruction are ignored: removing (or inserting) one
   anywhere in the cell list leaves the result unchanged, whatever its position, size, orientation *)
Lemma circuit_obstacles_ignore extra cs1 cs2 (c : ccell) :
  (match c with (_, _, _, _, _, fx, ob) => fx && ob end) = false ->
  circuit_obstacles extra (cs1 ++ c :: cs2) = circuit_obstacles extra (cs1 ++ cs2).
Proof.
  intros Hc. unfold circuit_obstacles, obstacles_of. f_equal.
  rewrite !map_app, !flat_map_app. f_equal. cbn [map flat_map].
  destruct c as [[[[[[x y] w] h] o] fx] ob]. rewrite Hc. reflexivity.
Qed.

Theorem compute_rows_circuit_ignores rows extra cs1 cs2 (c : ccell) :
  (match c with (_, _, _, _, _, fx, ob) => fx && ob end) = false ->
  compute_rows_circuit rows extra (cs1 ++ c :: cs2) = compute_rows_circuit rows extra (cs1 ++ cs2).
Proof.
  intros Hc. rewrite !compute_rows_circuit_concat, (circuit_obstacles_ignore _ _ _ _ Hc). reflexivity.
Qed.

Lemma circuit_obstacles_filter extra cells :
  circuit_obstacles extra cells =
  circuit_obstacles extra
    (filter (fun c : ccell => match c with (_, _, _, _, _, fx, ob) => fx && ob end) cells).
Proof.
  unfold circuit_obstacles, obstacles_of. f_equal.
  induction cells as [|[[[[[[x y] w] h] o] fx] ob] cells IH]; [reflexivity|].
  cbn [map flat_map filter]. destruct (fx && ob) eqn:E.
  - cbn [map flat_map]. rewrite E. cbn [app]. f_equal. exact IH.
  - cbn [app]. exact IH.
Qed.

Theorem compute_rows_circuit_only_fixed_obstructions rows extra cells :
  compute_rows_circuit rows extra cells =
  compute_rows_circuit rows extra
    (filter (fun c : ccell => match c with (_, _, _, _, _, fx, ob) => fx && ob end) cells).
Proof.
  rewrite !compute_rows_circuit_concat, <- circuit_obstacles_filter. reflexivity.
Qed.

(* turned outline: a turned fixed obstruction occupies [x, x+h) x [y, y+w); an unturned one
   [x, x+w) x [y, y+h) *)
Theorem cell_obstructs_turned rw x cx cy w h o :
  is_turn o = true ->
  (cell_obstructs rw x (cx, cy, w, h, o, true, true) <->
   0 < h /\ 0 < w /\ cy < maxY rw /\ minY rw < cy + w /\ cx <= x < cx + h).
Proof. intros T. unfold cell_obstructs, placed_w, placed_h. rewrite T. tauto. Qed.

Theorem cell_obstructs_unturned rw x cx cy w h o :
  is_turn o = false ->
  (cell_obstructs rw x (cx, cy, w, h, o, true, true) <->
   0 < w /\ 0 < h /\ cy < maxY rw /\ minY rw < cy + h /\ cx <= x < cx + w).
Proof. intros T. unfold cell_obstructs, placed_w, placed_h. rewrite T. tauto. Qed.

(* non-vacuity: a turned 1x4 obstruction (placed 4x1) on row 0, a movable cell and a fixed
   non-obstruction on the same columns are ignored, a second row is concatenated *)
Example compute_rows_circuit_nonvacuous :
  map (fun s => (minX (rr s), maxX (rr s), minY (rr s)))
   (compute_rows_circuit
     [ {| rr := {| minX := 0; maxX := 10; minY := 0; maxY := 2 |}; ro := oN |};
       {| rr := {| minX := 0; maxX := 10; minY := 2; maxY := 4 |}; ro := oFS |} ]
     [ {| minX := 8; maxX := 9; minY := 3; maxY := 5 |} ]
     [ (2, 0, 1, 4, oE, true, true); (5, 0, 2, 2, oN, false, true); (6, 0, 2, 2, oN, true, false) ])
  = [(0, 2, 0); (6, 10, 0); (0, 8, 2); (9, 10, 2)].
Proof. vm_compute. reflexivity. Qed.
