(* C05 -- the reordering search is finite: number of leaves <= nbRegions ^ nbCells * nbCells! *)
From Coq Require Import List ZArith Lia Bool Permutation Arith Factorial.
Import ListNotations.
Require Import CV.Orient CV.Hpwl CV.Moves CV.Optimiser CV.ShiftLp CV.DetailedValue CV.Reorder CV.ReorderGeomProofs CV.ReorderEnumProofs.

Lemma flat_map_length_le {A B} (f : A -> list B) k l : (forall x, In x l -> length (f x) <= k) -> length (flat_map f l) <= length l * k.
Proof.
  induction l as [|a t IH]; intros H; cbn [flat_map length]; [lia|]. rewrite app_length.
  specialize (H a (or_introl eq_refl)) as Ha. specialize (IH (fun x Hx => H x (or_intror Hx))). lia.
Qed.
Lemma flat_map_length_eq {A B} (f : A -> list B) k l : (forall x, In x l -> length (f x) = k) -> length (flat_map f l) = length l * k.
Proof.
  induction l as [|a t IH]; intros H; cbn [flat_map length]; [lia|]. rewrite app_length.
  rewrite (H a (or_introl eq_refl)), (IH (fun x Hx => H x (or_intror Hx))). lia.
Qed.

Lemma selects_length l : length (selects l) = length l.
Proof. induction l as [|a t IH]; cbn [selects length]; [reflexivity|]. rewrite map_length, IH. reflexivity. Qed.

Lemma lex_perms_length n : forall l, length l = n -> length (lex_perms n l) = fact n.
Proof.
  induction n as [|n IH]; intros l Hl; cbn [lex_perms fact]; [reflexivity|]. destruct l as [|a t]; [discriminate|].
  rewrite (flat_map_length_eq _ (fact n)).
  - rewrite selects_length, Hl. lia.
  - intros [x rest] Hin. cbn [fst snd]. rewrite map_length. apply IH. destruct (selects_perm _ _ _ Hin) as [_ L]. lia.
Qed.

Lemma loop_perms_length l : length (loop_perms l) <= fact (length l).
Proof. unfold loop_perms. rewrite <- (lex_perms_length (length l) l eq_refl). destruct (lex_perms (length l) l); cbn [tl length]; lia. Qed.

(* product of the factorials of the sizes *)
Definition pfl (ord : list (list nat)) : nat := fold_right (fun l a => fact (length l) * a) 1 ord.

Lemma fact_mul_le a b : fact a * fact b <= fact (a + b).
Proof.
  induction b as [|b IH]; [rewrite Nat.add_0_r; cbn [fact]; lia|]. rewrite Nat.add_succ_r. cbn [fact].
  assert (fact a * (fact b + b * fact b) = (S b) * (fact a * fact b)) by lia.
  assert (S b * (fact a * fact b) <= S (a + b) * fact (a + b)) by (apply Nat.mul_le_mono; [lia|exact IH]). lia.
Qed.

Lemma pfl_le ord : pfl ord <= fact (length (concat ord)).
Proof.
  induction ord as [|l t IH]; cbn [pfl fold_right concat length]; [cbn; lia|]. rewrite app_length. fold (pfl t).
  eapply Nat.le_trans; [apply Nat.mul_le_mono_l; exact IH|apply fact_mul_le].
Qed.

Lemma pfl_perm l l' : Permutation l l' -> pfl l = pfl l'.
Proof. unfold pfl. induction 1; cbn [fold_right]; [reflexivity|rewrite IHPermutation; reflexivity|lia|congruence]. Qed.

Lemma order_leaves_length w : forall regs chosen, length (order_leaves w regs chosen) <= pfl (map snd regs).
Proof.
  induction regs as [|[g ord] rest IH]; intros chosen; cbn [order_leaves map snd pfl fold_right length]; [lia|]. fold (pfl (map snd rest)).
  eapply Nat.le_trans; [apply (flat_map_length_le _ (pfl (map snd rest))); intros p _; apply IH|].
  apply Nat.mul_le_mono_r. apply loop_perms_length.
Qed.

Lemma concat_push_at_length ord i c : i < length ord -> length (concat (push_at ord i c)) = S (length (concat ord)).
Proof. intros H. rewrite (Permutation_length (push_at_perm ord i c H)). reflexivity. Qed.

Lemma choice_leaves_length d rgs : forall rem ord, length ord = length rgs ->
  length (choice_leaves d rgs rem ord) <= length rgs ^ length rem * fact (length (concat ord) + length rem).
Proof.
  induction rem as [|c rem IH]; intros ord Hl; cbn [choice_leaves length Nat.pow].
  - rewrite Nat.add_0_r, Nat.mul_1_l. eapply Nat.le_trans; [apply order_leaves_length|].
    rewrite map_rev, <- (pfl_perm _ _ (Permutation_rev _)), map_snd_combine by (symmetry; exact Hl). apply pfl_le.
  - eapply Nat.le_trans; [apply (flat_map_length_le _ (length rgs ^ length rem * fact (length (concat ord) + S (length rem))))|].
    + intros i Hi. apply in_seq in Hi. destruct (nth_error rgs i); [|cbn [length]; lia].
      destruct (choice_ok _ _ _ _); [|cbn [length]; lia].
      eapply Nat.le_trans; [apply IH; rewrite length_push_at; exact Hl|].
      rewrite concat_push_at_length by lia. rewrite Nat.add_succ_l, <- Nat.add_succ_r. lia.
    + rewrite seq_length. lia.
Qed.

(* (d) the search terminates after at most nbRegions ^ nbCells * nbCells! leaf evaluations *)
Theorem leaves_of_length d rgs :
  length (leaves_of d rgs) <= length rgs ^ length (registered rgs) * fact (length (registered rgs)).
Proof.
  unfold leaves_of. eapply Nat.le_trans; [apply choice_leaves_length; rewrite !map_length; reflexivity|].
  rewrite concat_nils. cbn [length Nat.add]. rewrite <- (Permutation_length (sort_asc_perm _)), !map_length. lia.
Qed.
