(* C16 -- model of the density grid and of the hierarchical cell-to-bin allocation.
   Sources modelled (line numbers of /repo at the time of writing):
     src/utils/helpers.hpp:10-21                computeSubdivisions
     src/coloquinte.hpp:25-58                   Rectangle (width/height/area/intersects/intersection)
     src/place_global/density_grid.cpp          DensityGrid (18-23, 25-46, 84-117, 146-154, 186-202),
                                                HierarchicalDensityPlacement (373-677)
     src/place_global/density_legalizer.cpp     findConstrainedSplitPos (176-211), doSplit (152-162),
                                                rebisect (213-231), reoptimize (233-309): integer parts only;
                                                every float-valued decision (cell order by cost, ideal split,
                                                transportation assignment) is an argument (oracle)
   Conventions: Z for coordinates/areas/demands, nat for indices (levels, bins, cells);
   C++ int division is Z.quot (operands of the index divisions are non-negative: nat division).
   No proofs in this file (DensityProofs.v). *)
From Coq Require Import List ZArith Lia Bool Arith QArith.
Import ListNotations.
Require Import CV.FreeSpace.
Local Open Scope Z_scope.

(* ------------------------------------------------------------------ helpers.hpp *)

(* computeSubdivisions(min, max, number): ret[i] = min + i*(max-min)/number, i = 0..number *)
Definition subdivisions (mn mx n : Z) : list Z :=
  map (fun i => mn + Z.quot (Z.of_nat i * (mx - mn)) n) (seq 0 (S (Z.to_nat n))).

(* ------------------------------------------------------------------ Rectangle *)

Definition rwidth (r : rect) : Z := maxX r - minX r.
Definition rheight (r : rect) : Z := maxY r - minY r.
Definition rarea (r : rect) : Z := rwidth r * rheight r.
Definition rintersects (a b : rect) : bool :=
  (minX a <? maxX b) && (minX b <? maxX a) && (minY a <? maxY b) && (minY b <? maxY a).
Definition rintersection (a b : rect) : rect :=
  {| minX := Z.max (minX a) (minX b); maxX := Z.min (maxX a) (maxX b);
     minY := Z.max (minY a) (minY b); maxY := Z.min (maxY a) (maxY b) |}.

(* ------------------------------------------------------------------ DensityGrid *)

(* binLimitX_, binLimitY_, binCapacity_[x][y] *)
Record grid := { limX : list Z; limY : list Z; gcap : list (list Z) }.

(* computePlacementArea: bounding box of the regions; (0,0,0,0) when there is none.
   (the C++ folds min/max from INT_MAX/INT_MIN, which is the identity on int) *)
Definition placement_area (regions : list rect) : rect :=
  match regions with
  | [] => {| minX := 0; maxX := 0; minY := 0; maxY := 0 |}
  | r :: rs =>
      fold_left (fun a r => {| minX := Z.min (minX r) (minX a); maxX := Z.max (maxX r) (maxX a);
                               minY := Z.min (minY r) (minY a); maxY := Z.max (maxY r) (maxY a) |}) rs r
  end.

Definition pairs {A} (l : list A) : list (A * A) := combine l (tl l).

(* DensityGrid::region(i, j) *)
Definition bin_region (px py : Z * Z) : rect :=
  {| minX := fst px; maxX := snd px; minY := fst py; maxY := snd py |}.

(* one iteration of the innermost statement of updateBinCapacity(regions) *)
Definition contrib (reg b : rect) : Z :=
  if rintersects reg b then rarea (rintersection reg b) else 0.

Definition zero_cap (lx ly : list Z) : list (list Z) :=
  map (fun _ => map (fun _ => 0) (pairs ly)) (pairs lx).

(* the i/j loops for one region *)
Definition add_region (lx ly : list Z) (reg : rect) (capm : list (list Z)) : list (list Z) :=
  map (fun pc => map (fun qc => snd qc + contrib reg (bin_region (fst pc) (fst qc)))
                     (combine (pairs ly) (snd pc)))
      (combine (pairs lx) capm).

(* updateBinCapacity(regions): zero, then accumulate region by region *)
Definition bin_capacity (lx ly : list Z) (regions : list rect) : list (list Z) :=
  fold_left (fun capm reg => add_region lx ly reg capm) regions (zero_cap lx ly).

(* updateBinsToSize: std::max(1, length / maxSize) *)
Definition nb_bins (len maxSize : Z) : Z := Z.max 1 (Z.quot len maxSize).

(* DensityGrid(binSize, regions) *)
Definition make_grid (binSize : Z) (regions : list rect) : grid :=
  let a := placement_area regions in
  let lx := subdivisions (minX a) (maxX a) (nb_bins (rwidth a) binSize) in
  let ly := subdivisions (minY a) (maxY a) (nb_bins (rheight a) binSize) in
  {| limX := lx; limY := ly; gcap := bin_capacity lx ly regions |}.

(* fromIspdCircuit: the side margin is removed from both ends of every free row segment, segments
   not wider than 2*margin are dropped.  margin = (int)(sideMargin*minCellHeight) and
   binSize = (int)(sizeFactor*minCellHeight) are float->int conversions: inputs here. *)
Definition clip_rows (margin : Z) (rows : list rect) : list rect :=
  flat_map (fun r => if rwidth r <=? 2 * margin then []
                     else [{| minX := minX r + margin; maxX := maxX r - margin; minY := minY r; maxY := maxY r |}]) rows.

Definition grid_of_rows (binSize margin : Z) (rows : list row) : grid :=
  make_grid binSize (clip_rows margin (map rr rows)).

(* ret.updateBinCapacity(regions) on a grid that exists already: same limits, capacities recomputed *)
Definition with_capacity (g : grid) (regions : list rect) : grid :=
  {| limX := limX g; limY := limY g; gcap := bin_capacity (limX g) (limY g) regions |}.

(* repair of finding F28, fromIspdCircuit lines 45-51: `DensityGrid ret(binSize, area); ret.updateBinCapacity({})`:
   the grid over the rectangle `area` (DensityGrid(int, Rectangle) delegates to the region constructor with the
   one region {area}) with the capacity of every bin set to 0 *)
Definition make_grid_area (binSize : Z) (area : rect) : grid := with_capacity (make_grid binSize [area]) [].

(* circuit.computeRows() is FreeSpace.compute_rows_circuit (C15).  When no free row segment survives the clipping
   (clippedRows.empty(): rows covered by fixed obstructions, or only pieces not wider than twice the margin left)
   the grid covers the bounding box of the circuit's rows (Circuit::computePlacementArea, coloquinte.cpp:261-276:
   the same fold as placement_area) with no capacity; before the repair that case was make_grid binSize [],
   a single empty bin at the origin *)
Definition grid_of_circuit (binSize margin : Z) (rows : list row)
           (cells : list (Z * Z * Z * Z * Orient.orient * bool * bool)) : grid :=
  let free := compute_rows_circuit rows [] cells in
  match clip_rows margin (map rr free) with
  | [] => make_grid_area binSize (placement_area (map rr rows))
  | _ :: _ => grid_of_rows binSize margin free
  end.

Definition sumZ (l : list Z) : Z := fold_right Z.add 0 l.

(* totalCapacity() *)
Definition total_capacity (g : grid) : Z := sumZ (map sumZ (gcap g)).

(* binCapacity(BinGroup{a,b,c,e}): sum of binCapacity_[i][j], a <= i < b, c <= j < e *)
Definition block_cap (capm : list (list Z)) (a b c e : nat) : Z :=
  sumZ (map (fun col => sumZ (firstn (e - c) (skipn c col))) (firstn (b - a) (skipn a capm))).

(* ------------------------------------------------------------------ hierarchy *)

(* canRefine (anonymous namespace) *)
Fixpoint can_refine (l : list nat) : bool :=
  match l with
  | a :: ((b :: _) as t) => (1 <? b - a)%nat || can_refine t
  | _ => false
  end.

(* refine(oldLimits, limits, parents): the loop from bin i on, b = oldLimits[i] *)
Fixpoint refine_aux (i b : nat) (rest : list nat) : list nat * list nat :=
  match rest with
  | [] => ([], [])
  | e :: rest' =>
      let r := refine_aux (S i) e rest' in
      if (2 <=? e - b)%nat then (((e + b) / 2)%nat :: e :: fst r, i :: i :: snd r)
      else (e :: fst r, i :: snd r)
  end.

Definition refine_limits (old : list nat) : list nat * list nat :=
  match old with
  | [] => ([0%nat], [])
  | b :: rest => let r := refine_aux 0 b rest in (0%nat :: fst r, snd r)
  end.

(* setupHierarchyHelper: accL/accP hold the levels pushed so far, newest first, i.e. already in the
   order std::reverse produces (index 0 = finest) *)
Fixpoint setup_loop (fuel : nat) (lims : list nat) (accL accP : list (list nat))
  : option (list (list nat) * list (list nat)) :=
  if can_refine lims then
    match fuel with
    | O => None
    | S f => let r := refine_limits lims in setup_loop f (fst r) (fst r :: accL) (snd r :: accP)
    end
  else Some (accL, accP).

Definition setup_hierarchy (nb : nat) : option (list (list nat) * list (list nat)) :=
  setup_loop nb [0%nat; nb] [[0%nat; nb]] [[0%nat]].

(* grid_, xLimits_, parentX_, yLimits_, parentY_ *)
Record hier := { hgrid : grid; xlim : list (list nat); xpar : list (list nat);
                 ylim : list (list nat); ypar : list (list nat) }.

(* setupHierarchy() *)
Definition make_hier (g : grid) : option hier :=
  match setup_hierarchy (length (limX g) - 1), setup_hierarchy (length (limY g) - 1) with
  | Some (xl, xp), Some (yl, yp) => Some {| hgrid := g; xlim := xl; xpar := xp; ylim := yl; ypar := yp |}
  | _, _ => None
  end.

(* nbBinsX(lvl) = xLimits_[lvl].size() - 1 *)
Definition nbins_at (lims : list (list nat)) (lvl : nat) : option nat :=
  match nth_error lims lvl with Some l => Some (length l - 1)%nat | None => None end.

(* every index must be valid *)
Fixpoint sel (l : list Z) (idx : list nat) : option (list Z) :=
  match idx with
  | [] => Some []
  | k :: idx' => match nth_error l k, sel l idx' with Some v, Some r => Some (v :: r) | _, _ => None end
  end.

(* binLimitX(x) of the current view, for all x: grid_.binLimitX(xLimits_[levelX_][x]) *)
Definition level_limits (fine : list Z) (lims : list (list nat)) (lvl : nat) : option (list Z) :=
  match nth_error lims lvl with Some idx => sel fine idx | None => None end.

(* binCapacity(x, y) of the view (lx, ly), for all x, y *)
Definition level_cap (h : hier) (lx ly : nat) : option (list (list Z)) :=
  match nth_error (xlim h) lx, nth_error (ylim h) ly with
  | Some xi, Some yi =>
      Some (map (fun ab => map (fun ce => block_cap (gcap (hgrid h)) (fst ab) (snd ab) (fst ce) (snd ce)) (pairs yi))
                (pairs xi))
  | _, _ => None
  end.

(* findBinByX / findBinByY on the limits of the current view; mx starts at nbBins *)
Fixpoint find_bin_loop (fuel : nat) (lims : list Z) (coord : Z) (mn mx : nat) : option nat :=
  if (mn + 1 <? mx)%nat then
    match fuel with
    | O => None
    | S f =>
        let mid := ((mx + mn) / 2)%nat in
        match nth_error lims mid with
        | None => None
        | Some v => if coord <? v then find_bin_loop f lims coord mn mid else find_bin_loop f lims coord mid mx
        end
    end
  else Some mn.

Definition find_bin (lims : list Z) (coord : Z) : option nat :=
  find_bin_loop (length lims) lims coord 0 (length lims - 1).

(* ------------------------------------------------------------------ cell-to-bin state *)

(* levelX_, levelY_, binCells_[x][y], cellBinX_, cellBinY_ *)
Record hstate := { lvx : nat; lvy : nat; bcells : list (list (list nat)); cbx : list Z; cby : list Z }.

Fixpoint upd {A} (l : list A) (k : nat) (v : A) : list A :=
  match l, k with
  | [], _ => []
  | _ :: t, O => v :: t
  | x :: t, S k' => x :: upd t k' v
  end.

Definition nth_error2 {A} (m : list (list A)) (i j : nat) : option A :=
  match nth_error m i with Some col => nth_error col j | None => None end.

Definition upd2 {A} (m : list (list A)) (i j : nat) (v : A) : list (list A) :=
  match nth_error m i with Some col => upd m i (upd col j v) | None => m end.

(* the (c, (i, j)) triples in the order the i/j/c loops of updateCellToBin visit them *)
Definition cell_bins (bc : list (list (list nat))) : list (nat * (nat * nat)) :=
  concat (map (fun ic => concat (map (fun jl => map (fun c => (c, (fst ic, fst jl))) (snd jl))
                                     (combine (seq 0 (length (snd ic))) (snd ic))))
              (combine (seq 0 (length bc)) bc)).

(* updateCellToBin(): assign -1, then the loops *)
Definition update_cell_to_bin (n : nat) (bc : list (list (list nat))) : list Z * list Z :=
  fold_left (fun acc t => (upd (fst acc) (fst t) (Z.of_nat (fst (snd t))),
                           upd (snd acc) (fst t) (Z.of_nat (snd (snd t)))))
            (cell_bins bc) (repeat (-1) n, repeat (-1) n).

Definition with_cells (n lx ly : nat) (bc : list (list (list nat))) : hstate :=
  let cb := update_cell_to_bin n bc in
  {| lvx := lx; lvy := ly; bcells := bc; cbx := fst cb; cby := snd cb |}.

(* HierarchicalDensityPlacement(grid, cellDemand): coarsest view, one bin with the cells of demand > 0 *)
Definition init_state (h : hier) (d : list Z) : hstate :=
  let all := map fst (filter (fun cv => 0 <? snd cv) (combine (seq 0 (length d)) d)) in
  with_cells (length d) (length (xlim h) - 1) (length (ylim h) - 1) [[all]].

(* setBinCells(x, y, cells) *)
Definition set_bin_cells (s : hstate) (x y : nat) (cells : list nat) : hstate :=
  {| lvx := lvx s; lvy := lvy s;
     bcells := upd2 (bcells s) x y cells;
     cbx := fold_left (fun a c => upd a c (Z.of_nat x)) cells (cbx s);
     cby := fold_left (fun a c => upd a c (Z.of_nat y)) cells (cby s) |}.

(* the scatter loops of coarsenX/coarsenY written as a gather: the new entry p is the merge, in
   increasing i, of the old entries whose parent is p (same resulting order as the push_backs) *)
Definition coarsen_gen {A} (merge : A -> A -> A) (empty : A) (ps : list nat) (np : nat) (olds : list A) : list A :=
  map (fun p => fold_right (fun qa acc => if (fst qa =? p)%nat then merge (snd qa) acc else acc)
                           empty (combine ps olds))
      (seq 0 np).

(* the loops of refineX/refineY: entry i receives the parent's entry iff i is the first child *)
Fixpoint refine_gen {A} (empty : A) (prev : option nat) (ps : list nat) (olds : list A) : option (list A) :=
  match ps with
  | [] => Some []
  | p :: ps' =>
      let first := match prev with Some q => negb (q =? p)%nat | None => true end in
      match (if first then nth_error olds p else Some empty), refine_gen empty (Some p) ps' olds with
      | Some a, Some r => Some (a :: r)
      | _, _ => None
      end
  end.

Fixpoint zipapp (a b : list (list nat)) : list (list nat) :=
  match a, b with
  | x :: a', y :: b' => (x ++ y) :: zipapp a' b'
  | _, _ => []
  end.

Definition nbx (h : hier) (s : hstate) : option nat := nbins_at (xlim h) (lvx s).
Definition nby (h : hier) (s : hstate) : option nat := nbins_at (ylim h) (lvy s).

(* coarsenX(): assert(levelX_ + 1 < nbLevelX()) *)
Definition coarsen_x (h : hier) (n : nat) (s : hstate) : option hstate :=
  match nth_error (xpar h) (lvx s), nbins_at (xlim h) (S (lvx s)), nby h s with
  | Some ps, Some np, Some ny =>
      Some (with_cells n (S (lvx s)) (lvy s) (coarsen_gen zipapp (repeat [] ny) ps np (bcells s)))
  | _, _, _ => None
  end.

(* coarsenY() *)
Definition coarsen_y (h : hier) (n : nat) (s : hstate) : option hstate :=
  match nth_error (ypar h) (lvy s), nbins_at (ylim h) (S (lvy s)) with
  | Some ps, Some np =>
      Some (with_cells n (lvx s) (S (lvy s)) (map (coarsen_gen (@app nat) [] ps np) (bcells s)))
  | _, _ => None
  end.

(* refineX(): assert(levelX_ >= 1) *)
Definition refine_x (h : hier) (n : nat) (s : hstate) : option hstate :=
  match lvx s with
  | O => None
  | S l =>
      match nth_error (xpar h) l, nby h s with
      | Some ps, Some ny =>
          match refine_gen (repeat [] ny) None ps (bcells s) with
          | Some bc => Some (with_cells n l (lvy s) bc)
          | None => None
          end
      | _, _ => None
      end
  end.

Fixpoint all_some {A} (l : list (option A)) : option (list A) :=
  match l with
  | [] => Some []
  | Some a :: l' => match all_some l' with Some r => Some (a :: r) | None => None end
  | None :: _ => None
  end.

(* refineY() *)
Definition refine_y (h : hier) (n : nat) (s : hstate) : option hstate :=
  match lvy s with
  | O => None
  | S l =>
      match nth_error (ypar h) l with
      | Some ps =>
          match all_some (map (refine_gen [] None ps) (bcells s)) with
          | Some bc => Some (with_cells n (lvx s) l bc)
          | None => None
          end
      | None => None
      end
  end.

(* ------------------------------------------------------------------ Redistribute *)

Definition allcells (bc : list (list (list nat))) : list nat := concat (concat bc).

Definition cnt (l : list nat) (c : nat) : nat := count_occ Nat.eq_dec l c.

(* multiset equality of two cell lists *)
Definition perm_b (l l' : list nat) : bool :=
  forallb (fun c => (cnt l c =? cnt l' c)%nat) (l ++ l').

Definition pair_eqb (a b : nat * nat) : bool := ((fst a =? fst b) && (snd a =? snd b))%nat.

Fixpoint nodup_pairs (T : list (nat * nat)) : bool :=
  match T with
  | [] => true
  | t :: T' => negb (existsb (pair_eqb t) T') && nodup_pairs T'
  end.

Definition bins_valid (bc : list (list (list nat))) (T : list (nat * nat)) : bool :=
  forallb (fun t => match nth_error2 bc (fst t) (snd t) with Some _ => true | None => false end) T.

(* the cells of the bins of T, in order *)
Definition gather (bc : list (list (list nat))) (T : list (nat * nat)) : list nat :=
  flat_map (fun t => match nth_error2 bc (fst t) (snd t) with Some l => l | None => [] end) T.

Fixpoint set_bins (s : hstate) (T : list (nat * nat)) (news : list (list nat)) : hstate :=
  match T, news with
  | t :: T', l :: news' => set_bins (set_bin_cells s (fst t) (snd t) l) T' news'
  | _, _ => s
  end.

(* Redistribute T news: the bins of T (distinct, valid) receive the lists news, which together hold
   exactly the cells these bins held before.  Abstracts rebisect / reoptimize / improveXTransport /
   improveYTransport (and, composed, improve/refine/run): whatever the float-valued costs say, those
   functions gather the cells of the bins they touch and hand all of them back with setBinCells. *)
Definition redistribute (s : hstate) (T : list (nat * nat)) (news : list (list nat)) : option hstate :=
  if (length T =? length news)%nat && nodup_pairs T && bins_valid (bcells s) T
     && perm_b (gather (bcells s) T) (concat news)
  then Some (set_bins s T news) else None.

Inductive op :=
| RefineX | RefineY | CoarsenX | CoarsenY
| Redist (T : list (nat * nat)) (news : list (list nat)).

Definition step (h : hier) (n : nat) (s : hstate) (o : op) : option hstate :=
  match o with
  | RefineX => refine_x h n s
  | RefineY => refine_y h n s
  | CoarsenX => coarsen_x h n s
  | CoarsenY => coarsen_y h n s
  | Redist T news => redistribute s T news
  end.

Fixpoint run_ops (h : hier) (n : nat) (s : hstate) (ops : list op) : option hstate :=
  match ops with
  | [] => Some s
  | o :: ops' => match step h n s o with Some s' => run_ops h n s' ops' | None => None end
  end.

(* ------------------------------------------------------------------ the code's check(), as a boolean *)

Definition zeqb_opt (o : option Z) (v : Z) : bool := match o with Some w => w =? v | None => false end.

(* HierarchicalDensityPlacement::check(), "All cells placed once and consistent" (and the sizes) *)
Definition partition_okb (h : hier) (d : list Z) (s : hstate) : bool :=
  let n := length d in
  let bc := bcells s in
  let all := allcells bc in
  match nbx h s, nby h s with
  | Some kx, Some ky =>
      (length bc =? kx)%nat && forallb (fun col => (length col =? ky)%nat) bc
      && forallb (fun c => (c <? n)%nat) all
      && forallb (fun cv => (cnt all (fst cv) =? (if (0 <? snd cv)%Z then 1 else 0))%nat) (combine (seq 0 n) d)
      && (length (cbx s) =? n)%nat && (length (cby s) =? n)%nat
      && forallb (fun t => zeqb_opt (nth_error (cbx s) (fst t)) (Z.of_nat (fst (snd t)))
                           && zeqb_opt (nth_error (cby s) (fst t)) (Z.of_nat (snd (snd t)))) (cell_bins bc)
      && forallb (fun c => (0 <? cnt all c)%nat
                           || (zeqb_opt (nth_error (cbx s) c) (-1) && zeqb_opt (nth_error (cby s) c) (-1))) (seq 0 n)
  | _, _ => false
  end.

(* refinement as a relation (the code puts the cells in the first child; any child would do):
   every cell of the new bin (i, j) was in the parent bin *)
Definition refined_from_x (ps : list nat) (old new : list (list (list nat))) : bool :=
  forallb (fun t => match nth_error ps (fst (snd t)) with
                    | Some p => match nth_error2 old p (snd (snd t)) with
                                | Some l => existsb (Nat.eqb (fst t)) l
                                | None => false
                                end
                    | None => false
                    end) (cell_bins new).

Definition refined_from_y (ps : list nat) (old new : list (list (list nat))) : bool :=
  forallb (fun t => match nth_error ps (snd (snd t)) with
                    | Some p => match nth_error2 old (fst (snd t)) p with
                                | Some l => existsb (Nat.eqb (fst t)) l
                                | None => false
                                end
                    | None => false
                    end) (cell_bins new).

(* ------------------------------------------------------------------ density_legalizer.cpp, integer parts *)

Fixpoint demands_of (d : list Z) (cells : list nat) : option (list Z) :=
  match cells with
  | [] => Some []
  | c :: cs => match nth_error d c, demands_of d cs with Some v, Some r => Some (v :: r) | _, _ => None end
  end.

(* first while loop of findConstrainedSplitPos ("remove from the left if overflowed") *)
Fixpoint split_left (fuel : nat) (dem : list Z) (pos : nat) (d1 d2 capa1 capa2 : Z) : option (nat * Z * Z) :=
  if (0 <? pos)%nat && (0 <? d1 - capa1) && (0 <? capa2) then
    match fuel with
    | O => None
    | S f =>
        match nth_error dem (pos - 1) with
        | None => None
        | Some dm =>
            if (0 <? capa1) && (d1 - capa1 <? d2 - capa2 + dm) then Some (pos, d1, d2)
            else split_left f dem (pos - 1) (d1 - dm) (d2 + dm) capa1 capa2
        end
    end
  else Some (pos, d1, d2).

(* second while loop ("remove from the right if overflowed") *)
Fixpoint split_right (fuel : nat) (dem : list Z) (pos : nat) (d1 d2 capa1 capa2 : Z) : option nat :=
  if (pos <? length dem)%nat && (0 <? d2 - capa2) && (0 <? capa1) then
    match fuel with
    | O => None
    | S f =>
        match nth_error dem pos with
        | None => None
        | Some dm =>
            if (0 <? capa2) && (d2 - capa2 <? d1 - capa1 + dm) then Some pos
            else split_right f dem (S pos) (d1 + dm) (d2 - dm) capa1 capa2
        end
    end
  else Some pos.

(* findConstrainedSplitPos(cellCosts, targetPos, capa1, capa2); dem = demands in cellCosts order *)
Definition find_constrained_split (dem : list Z) (target : nat) (capa1 capa2 : Z) : option nat :=
  let d1 := sumZ (firstn target dem) in
  let d2 := sumZ (skipn target dem) in
  match split_left (S (length dem)) dem target d1 d2 capa1 capa2 with
  | Some (pos, d1', d2') => split_right (S (length dem)) dem pos d1' d2' capa1 capa2
  | None => None
  end.

(* rebisect after computeCellCosts: `sorted` is the cell list ordered by the float costs, `ideal`
   the result of findIdealSplitPos (both oracles); doSplit = firstn/skipn *)
Definition rebisect_split (d : list Z) (sorted : list nat) (ideal : nat) (capa1 capa2 : Z)
  : option (list nat * list nat) :=
  match demands_of d sorted with
  | Some dem =>
      match find_constrained_split dem ideal capa1 capa2 with
      | Some k => Some (firstn k sorted, skipn k sorted)
      | None => None
      end
  | None => None
  end.

(* the reallocation loop at the end of reoptimize / improveXTransport / improveYTransport:
   binCells[assignment[i]].push_back(cells[i]) for nb bins *)
Definition reallocate (nb : nat) (cells : list nat) (assignment : list nat) : list (list nat) :=
  map (fun b => map fst (filter (fun ca => (snd ca =? b)%nat) (combine cells assignment))) (seq 0 nb).

(* ------------------------------------------------------------------ spreadCells, exact arithmetic *)

Local Open Scope Q_scope.

Definition sumQ (l : list Q) : Q := fold_right Qplus 0 l.

(* the loop of spreadCells over the cells in sorted order: (index, demand) pairs; dem is the running
   cumulative share; returns (index, coordinate) for the cells of positive demand *)
Fixpoint spread_loop (order : list (nat * Q)) (inv_total dem mn mx : Q) : list (nat * Q) :=
  match order with
  | [] => []
  | (c, cur) :: rest =>
      if Qle_bool cur 0 then spread_loop rest inv_total dem mn mx
      else
        let dem1 := dem + (1 # 2) * cur * inv_total in
        (c, dem1 * mx + (1 - dem1) * mn) :: spread_loop rest inv_total (dem1 + (1 # 2) * cur * inv_total) mn mx
  end.

(* spreadCells(targets, demands, minCoord, maxCoord) given the sorted order (std::sort of (target, index)
   pairs: an oracle here, the theorem holds for every order) *)
Definition spread_cells (order : list (nat * Q)) (mn mx : Q) : list (nat * Q) :=
  spread_loop order (/ sumQ (map snd order)) 0 mn mx.
