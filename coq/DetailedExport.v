(* Model of DetailedPlacement::exportPlacement(Circuit&) (src/place_detailed/detailed_placement.cpp,
   called by DetailedPlacer::exportPlacement, i.e. by DetailedPlacer::callback before every
   PlacementStep::Detailed callback and by DetailedPlacer::place on return), over the abstract row
   structure of Moves.v built by DetailedInit.from_circuit:

     for (int i = 0; i < nbCells(); ++i) {
       int cell = cellIndex_[i];            // fromIspdCircuit(circuit): cellIndex_[i] = i, never < 0
       if (cell < 0) continue;
       if (circuit.isFixed(cell)) continue;
       circuit.cellX_[cell] = cellX(i);
       circuit.cellY_[cell] = cellY(i);     // place(): cellY_[c] = rows_[row].minY
       circuit.cellOrientation_[cell] = cellOrientation(i);
     }

   A cell of the structure that is PLACED in a row is found by find_row: its x and orientation are the
   ones of the list element, its y is the y of the row (place() writes cellY_[c] = rows_[row].minY, the
   constructor insists on rect.minY == y).
   A movable cell that the structure IGNORES (width -1: not exactly one row high) holds in
   cellX_/cellY_/cellOrientation_ the values copied from the circuit by the constructor; no operation
   touches them (place/unplace are never applied to an ignored cell, runShiftsOnCells only writes
   cells taken from the rows), so on the circuit the structure was built from the three assignments
   write back what is already there: modelled by leaving the cell as it is (it is not in the abstract
   structure, find_row = None).
   A cell that is UNPLACED (d_loose, between unplace and place) has no y in the abstract structure
   (the C++ keeps the stale one); the C++ never exports in such a state (exportPlacement is only
   called between complete passes), and every theorem about write_back asks d_loose = [] -- or a
   history made of swaps, inserts and shifts only, which keeps it -- so what the model does there
   (it leaves the cell as it is) is never used. *)
From Coq Require Import List ZArith Lia Bool.
Import ListNotations.
Require Import CV.Orient CV.FreeSpace CV.Circuit CV.Moves.
Local Open Scope Z_scope.

(* map with the index of the element *)
Fixpoint map_from {A B : Type} (f : nat -> A -> B) (i : nat) (l : list A) : list B :=
  match l with
  | [] => []
  | a :: t => f i a :: map_from f (S i) t
  end.

(* one iteration of the loop, for circuit cell i *)
Definition export_cell (s : dstate) (i : nat) (k : ccell) : ccell :=
  if c_fixed k then k
  else match find_row (d_rows s) i 0 with
       | Some (_, r, _, m, _) =>
           {| c_x := p_x m; c_y := dr_y r; c_w := c_w k; c_h := c_h k; c_o := p_o m; c_pol := c_pol k;
              c_fixed := c_fixed k; c_obs := c_obs k |}
       | None => k
       end.

(* DetailedPlacement::exportPlacement *)
Definition write_back (c : circuit) (s : dstate) : circuit :=
  {| rows := rows c; cells := map_from (export_cell s) 0 (cells c) |}.

(* ---------- histories whose shift passes satisfy the constraints of the flow problem ----------
   The solver (lemon) is not modelled: Moves.shift_ok is the guard that its output is re-checked with
   on every driven shift pass and that follows from dual feasibility (c02_shift_dual_feasible_legal). *)
Require Import CV.MovesOrientProofs.   (* only for the history type dop / step_dop / run_dops *)

Definition dop_shift_ok (s : dstate) (o : dop) : bool :=
  match o with DMop _ => true | DShift xs => shift_ok s xs end.

Fixpoint dshifts_ok (s : dstate) (ops : list dop) : Prop :=
  match ops with
  | [] => True
  | o :: t => dop_shift_ok s o = true /\ dshifts_ok (step_dop s o) t
  end.

(* the optimiser's own moves: swap, insert, shift (no raw unplace / place) *)
Definition closed_dop (o : dop) : bool :=
  match o with DMop (MSwap _ _) | DMop (MInsert _ _ _) | DShift _ => true | _ => false end.
