(* C14 optimality, part M4: a staircase plan (sources packed on a compressed demand axis) costs at least the value
   function Vf of the position problem. *)
From Coq Require Import List ZArith Lia Bool Arith.
Import ListNotations.
Require Import CV.LpCert CV.Transp1d CV.Transp1dProofs CV.Transp1dTerm CV.Transp1dCert CV.Transp1dOpt
               CV.Transp1dOptA1 CV.Transp1dOptA2 CV.Transp1dOptM1 CV.Transp1dOptM2 CV.Transp1dOptM3.
Local Open Scope Z_scope.

Lemma Vf_mono P k : forall a b, 0 <= a -> a <= b -> Vf P k b <= Vf P k a.
Proof.
  destruct k as [|i]; intros a b Ha Hab; cbn [Vf]; [lia|].
  destruct (minupto_attained (fun x => Vf P i x + fc P i x) (Z.to_nat a)) as (k1 & Hk1 & E). rewrite E.
  apply (minupto_le (fun x => Vf P i x + fc P i x) (Z.to_nat b) k1). lia.
Qed.

Lemma Vf_le_step P i a x : 0 <= x -> x <= a -> Vf P (S i) a <= Vf P i x + fc P i x.
Proof.
  intros Hx Hxa. cbn [Vf].
  pose proof (minupto_le (fun x => Vf P i x + fc P i x) (Z.to_nat a) (Z.to_nat x) ltac:(lia)) as Q. cbv beta in Q.
  replace (Z.of_nat (Z.to_nat x)) with x in Q by lia. exact Q.
Qed.

Section Stair.
Variable P : sprob.
Hypothesis W : wf_sprob P.
Hypothesis So : sorted_sprob P.
Notation n := (n_src P).
Notation m := (n_snk P).
Notation D := (Dx P).
Notation c := (cost P).
Notation Sc := (Sx P).
Variable Tl : nat -> Z.
Hypothesis HT0 : Tl 0%nat = 0.
Hypothesis HTm : forall j k, (j <= k)%nat -> (k <= m)%nat -> Tl j <= Tl k.
Hypothesis HTd : forall j, (j < m)%nat -> Tl (j + 1)%nat - Tl j <= D (j + 1) - D j.
Hypothesis HTn : Tl m = Sc n.

Notation NW := (nw Sc Tl).
Definition rowcost (i : nat) : Z := zsum (fun j => c i j * NW i j) (seq 0 m).
Definition Lk (k j : nat) : Z := Z.max 0 (Z.min (Sc k) (Tl (j + 1)%nat) - Tl j).
Definition FIT (k : nat) (y : Z) : Prop := forall j, (j < m)%nat -> Lk k j <= avail P 0 y j.

Lemma Tl_le_D : forall j, (j <= m)%nat -> Tl j <= D j.
Proof.
  induction j as [|j IH]; intros Hj; [rewrite HT0, (Dx_0 P W); lia|].
  specialize (IH ltac:(lia)). pose proof (HTd j ltac:(lia)) as Q. replace (j + 1)%nat with (S j) in Q by lia. lia.
Qed.

(* the compressed sink that contains the compressed cell z *)
Lemma Tl_find z : 0 <= z < Tl m -> exists j, (j < m)%nat /\ Tl j <= z < Tl (j + 1)%nat.
Proof.
  intros Hz.
  assert (G : forall k, (k <= m)%nat -> z < Tl k -> exists j, (j < k)%nat /\ Tl j <= z < Tl (j + 1)%nat).
  { induction k as [|k IH]; intros Hk Hlt; [rewrite HT0 in Hlt; lia|].
    destruct (Z.lt_ge_cases z (Tl k)) as [Hc|Hc].
    - destruct (IH ltac:(lia) Hc) as (j & Hj & Hb). exists j. split; [lia|exact Hb].
    - exists k. replace (k + 1)%nat with (S k) by lia. split; lia. }
  destruct (G m (le_n _) ltac:(lia)) as (j & Hj & Hb). exists j. auto.
Qed.

Lemma nw_row_sum i : (i < n)%nat -> zsum (fun j => NW i j) (seq 0 m) = Sc (i + 1) - Sc i.
Proof.
  intros Hi. unfold nw. rewrite (ovl_tele Tl (Sc i) (Sc (i + 1)) m HTm). rewrite HT0, HTn.
  pose proof (Sx_nonneg_all := Sx_mono P W 0 i ltac:(lia) ltac:(lia)). rewrite (Sx_0 P W) in Sx_nonneg_all.
  pose proof (Sx_step P W i Hi). pose proof (Sx_mono P W (i + 1) n ltac:(lia) ltac:(lia)). lia.
Qed.

Lemma stair_dp : forall k, (k <= n)%nat -> forall y, y <= D m -> Sc k <= y -> FIT k y ->
  Vf P k (y - Sc k) <= zsum rowcost (seq 0 k).
Proof.
  induction k as [|k IH]; intros Hk y Hy HSy Hfit; [cbn; lia|].
  rewrite zsum_snoc. cbn [Nat.add].
  assert (Hkn : (k < n)%nat) by lia.
  pose proof (Sx_step P W k Hkn) as Hs. replace (k + 1)%nat with (S k) in Hs by lia.
  pose proof (Sx_mono P W 0 k ltac:(lia) ltac:(lia)) as S0. rewrite (Sx_0 P W) in S0.
  pose proof (Sx_mono P W (S k) n ltac:(lia) ltac:(lia)) as Sn.
  destruct (Tl_find (Sc k) ltac:(rewrite HTn; lia)) as (js & Hjs & Bs).
  pose proof (Tl_le_D js ltac:(lia)) as TD. pose proof (HTd js Hjs) as Td.
  set (y' := D js + (Sc k - Tl js)).
  assert (Hy'1 : y' < D (js + 1)) by (subst y'; lia).
  assert (Hy'0 : D js <= y') by (subst y'; lia).
  pose proof (Dx_0 P W) as D0. pose proof (D_le P W 0 js ltac:(lia) ltac:(lia)) as D0j.
  (* FIT k y' *)
  assert (Hfit' : FIT k y').
  { intros j Hj. unfold Lk, avail.
    pose proof (D_le P W j (j + 1) ltac:(lia) ltac:(lia)). pose proof (D_le P W 0 j ltac:(lia) ltac:(lia)).
    destruct (Nat.lt_ge_cases j js) as [Hlt|Hge]; [|destruct (Nat.eq_dec j js) as [->|Hne]].
    - pose proof (HTm (j + 1)%nat js ltac:(lia) ltac:(lia)). pose proof (D_le P W (j + 1) js ltac:(lia) ltac:(lia)).
      pose proof (HTd j Hj). pose proof (HTm j (j + 1)%nat ltac:(lia) ltac:(lia)). lia.
    - subst y'. lia.
    - pose proof (HTm (js + 1)%nat j ltac:(lia) ltac:(lia)). pose proof (HTm j (j + 1)%nat ltac:(lia) ltac:(lia)). lia. }
  (* the row of source k fits into the cells y' .. y-1 *)
  assert (Hrow : forall j, (j < m)%nat -> 0 <= NW k j <= avail P y' y j).
  { intros j Hj. split; [unfold nw; lia|]. specialize (Hfit j Hj). unfold Lk, avail in Hfit. unfold nw, avail.
    replace (k + 1)%nat with (S k) by lia.
    pose proof (D_le P W j (j + 1) ltac:(lia) ltac:(lia)). pose proof (D_le P W 0 j ltac:(lia) ltac:(lia)).
    destruct (Nat.lt_ge_cases j js) as [Hlt|Hge]; [|destruct (Nat.eq_dec j js) as [->|Hne]].
    - pose proof (HTm (j + 1)%nat js ltac:(lia) ltac:(lia)). lia.
    - subst y'. lia.
    - pose proof (HTm (js + 1)%nat j ltac:(lia) ltac:(lia)). pose proof (D_le P W (js + 1) j ltac:(lia) ltac:(lia)). lia. }
  assert (Hsum : zsum (fun j => NW k j) (seq 0 m) = Sc (k + 1) - Sc k) by (apply nw_row_sum; lia).
  assert (Hy'y : y' < y).
  { specialize (Hrow js Hjs). specialize (Hfit js Hjs). unfold Lk, avail in Hfit. unfold nw, avail in Hrow.
    replace (k + 1)%nat with (S k) in Hrow by lia. subst y'. lia. }
  assert (Hroom : Sc (k + 1) - Sc k <= y - y').
  { rewrite <- Hsum, <- (avail_sum P W y' y ltac:(lia) ltac:(lia) Hy).
    apply zsum_le. intros j Hj. apply in_seq in Hj. apply Hrow. lia. }
  destruct (best_window P W So k Hkn (Z.to_nat (y - y' - (Sc (k + 1) - Sc k))) y' y (fun j => NW k j)
              ltac:(lia) Hy ltac:(lia) Hrow Hsum) as (x & X1 & X2 & X3).
  replace (k + 1)%nat with (S k) in * by lia.
  specialize (IH ltac:(lia) y' ltac:(pose proof (D_le P W (js + 1) m ltac:(lia) ltac:(lia)); lia) ltac:(subst y'; lia) Hfit').
  pose proof (Vf_le_step P k (y - Sc (S k)) x ltac:(subst y'; lia) ltac:(lia)) as V1.
  pose proof (Vf_mono P k (y' - Sc k) x ltac:(subst y'; lia) ltac:(lia)) as V2.
  unfold rowcost at 2. lia.
Qed.
End Stair.
