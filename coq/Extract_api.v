(* Extraction of the C10/C03 models (family `api`) to OCaml for the correspondence runs.
   ExtrOcamlBasic only; Z, positive, nat stay the extracted Coq datatypes.  No Extract Constant. *)
From Coq Require Import Extraction ExtrOcamlBasic ZArith List.
Require Import CV.Orient CV.FreeSpace CV.Api.
Extraction Language OCaml.
Extraction "model_api.ml"
  Api.new_circuit Api.apply_setter Api.guarded Api.args_ok Api.check_ok Api.consistent
  Api.export_glob Api.export_leg Api.export_det Api.frame_okb Api.orient_keptb Api.run_exports
  Api.call0 Api.call1 Api.call1_orig Api.apply_cbop Api.apply_hop Api.run_history
  Api.adapt_glob Api.adapt_leg Api.adapt_det.
