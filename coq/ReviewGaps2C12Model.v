(* Review gap (C12, review_C11-C15.md): RowLegalizer::clear() (row_legalizer.cpp:83-87) and
   lastAvailablePos() (row_legalizer.hpp:35) were in neither model nor theorems.  Definitions only. *)
From Coq Require Import List ZArith Bool.
Import ListNotations.
Require Import CV.RowLeg.
Local Open Scope Z_scope.

(* clear(): cumWidth_.assign(1, 0); bounds = priority_queue(); constrainingPos_.clear();  begin_/end_ kept *)
Definition clear (s : rl) : rl :=
  {| rbegin := rbegin s; rend := rend s; cpos := []; widths := []; used := 0; bounds := [] |}.

(* lastAvailablePos(): constrainingPos_.back() + usedSpace().  constrainingPos_.back() is the newest entry
   (head of cpos); on an empty vector back() is undefined behaviour: None *)
Definition last_available_pos (s : rl) : option Z :=
  match cpos s with [] => None | c :: _ => Some (c + used s) end.

(* histories with clear() and lastAvailablePos() *)
Inductive opc := COp (o : op) | CClear | CLast.
Inductive outc := OCost (c : Z) | OCleared | OLast (r : option Z).

Definition stepc (s : rl) (o : opc) : rl * outc :=
  match o with
  | COp o' => let '(s', c) := step s o' in (s', OCost c)
  | CClear => (clear s, OCleared)
  | CLast => (s, OLast (last_available_pos s))
  end.

Definition run_statec (s : rl) (h : list opc) : rl := fold_left (fun s o => fst (stepc s o)) h s.

Fixpoint outputsc (s : rl) (h : list opc) : list outc :=
  match h with [] => [] | o :: r => snd (stepc s o) :: outputsc (fst (stepc s o)) r end.

(* the operations after the last clear(), lastAvailablePos() calls dropped (they do not change the state) *)
Fixpoint last_segment_aux (acc : list op) (h : list opc) : list op :=
  match h with
  | [] => rev acc
  | COp o :: r => last_segment_aux (o :: acc) r
  | CClear :: r => last_segment_aux [] r
  | CLast :: r => last_segment_aux acc r
  end.
Definition last_segment (h : list opc) : list op := last_segment_aux [] h.

(* every push of the history fits at the time it is made *)
Fixpoint fitsc (s : rl) (h : list opc) : Prop :=
  match h with
  | [] => True
  | o :: r => (match o with COp (Push w t) => 0 < w <= remaining_space s | _ => True end)
              /\ fitsc (fst (stepc s o)) r
  end.
