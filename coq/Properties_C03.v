(* C03 -- placement only moves movable cells; everything else is untouched.
   Model: Api.v -- the three functions through which a placement stage writes to the Circuit
   (GlobalPlacer::exportPlacement, Legalizer::exportPlacement, DetailedPlacement::exportPlacement), line by line and
   parametric in the internal vectors they export (arbitrary values = oracle), and the control flow of the three
   entry points.  PROVED: the frame for every sequence of exports / every call whose callback only looks, for every
   oracle and every cut point.  What a theorem about the export functions cannot see -- a write to the circuit from
   inside an algorithm -- is VALIDATED per run by ./check C03 with the proved checker frame_okb on the C++ circuit
   before/after every stage run. *)
From Coq Require Import List ZArith Lia Bool.
Import ListNotations.
Require Import CV.Orient CV.FreeSpace CV.Api CV.ApiProofs.
Local Open Scope Z_scope.

(* [F] each export function keeps widths, heights, fixed and obstruction flags, polarities, net limits, pin cells, pin
   offsets, net weights, rows, and x/y/orientation of fixed cells -- for all internal vectors *)
Theorem c03_export_global_frame : forall x2 y2 c, frame_ok c (export_glob x2 y2 c).
Proof. exact export_glob_frame. Qed.
Theorem c03_export_legalizer_frame : forall l c, frame_ok c (fst (export_leg l c)).
Proof. exact export_leg_frame. Qed.
Theorem c03_export_detailed_frame : forall l c, frame_ok c (export_det l c).
Proof. exact export_det_frame. Qed.

(* [F] a stage = any sequence of exports (callbacks + final) of arbitrary internal states, cut anywhere *)
Theorem c03_frame_ok : forall l c, frame_ok c (run_exports c l).
Proof. exact run_exports_frame. Qed.

(* [F] the same through the modelled control flow of Circuit::placeGlobal/legalize/placeDetailed: any stage, any oracle
   (number and content of the callbacks, success or failure of each step), any outcome (return, parameters rejected,
   infeasible legalization, callback throwing at any invocation, internal error), with a callback that does not
   itself modify the circuit *)
Theorem c03_frame_ok_call : forall s o cb c,
  (forall f, cb = Some f -> forall k, nth k (cb_ops f) [] = []) -> frame_ok c (fst (fst (call1 s o cb c))).
Proof. exact call1_frame. Qed.

(* [F] global placement additionally keeps every orientation *)
Theorem c03_global_keeps_orientation : forall l c, forallb is_glob l = true -> cellO (run_exports c l) = cellO c.
Proof. exact run_exports_global_orient. Qed.
Theorem c03_global_keeps_orientation_call : forall o cb c,
  (forall f, cb = Some f -> forall k, nth k (cb_ops f) [] = []) -> cellO (fst (fst (call1 StGlobal o cb c))) = cellO c.
Proof. exact call1_global_orient. Qed.

(* [F] the boolean checkers used on the C++ circuits decide the specification *)
Theorem c03_frame_okb_correct : forall a b, frame_okb a b = true <-> frame_ok a b.
Proof. exact frame_okb_correct. Qed.
Theorem c03_orient_keptb_correct : forall a b, orient_keptb a b = true <-> cellO a = cellO b.
Proof. exact orient_keptb_correct. Qed.

(* ---- non-vacuity: a fixed cell between two movable ones; the legalizer's parallel index skips it; the checker accepts
   the result and rejects a circuit in which the fixed cell moved *)
Example c03_nonvacuous :
  let c := snd (apply_setter (snd (apply_setter (new_circuit 3) (SSetCellIsFixed [false; true; false]))) (SSetCellX [7; 8; 9])) in
  let c' := run_exports c [XLeg [{| lc_placed := true; lc_x := 1; lc_y := 2; lc_o := oFS |};
                                 {| lc_placed := true; lc_x := 3; lc_y := 4; lc_o := oN |}];
                           XGlob [10; 11; 13] [0; 0; 0];
                           XDet [{| dc_index := 1; dc_x := 50; dc_y := 50; dc_o := oS |};
                                 {| dc_index := -1; dc_x := 0; dc_y := 0; dc_o := oN |};
                                 {| dc_index := 2; dc_x := 6; dc_y := 5; dc_o := oS |}]] in
  cellX c' = [5; 8; 6] /\ cellY c' = [0; 0; 5] /\ cellO c' = [oFS; oN; oS] /\ frame_okb c c' = true /\
  frame_okb c (set_cellX c' [5; 9; 6]) = false.
Proof. vm_compute. repeat split. Qed.

Print Assumptions c03_export_global_frame.
Print Assumptions c03_export_legalizer_frame.
Print Assumptions c03_export_detailed_frame.
Print Assumptions c03_frame_ok.
Print Assumptions c03_frame_ok_call.
Print Assumptions c03_global_keeps_orientation.
Print Assumptions c03_global_keeps_orientation_call.
Print Assumptions c03_frame_okb_correct.
Print Assumptions c03_orient_keptb_correct.
