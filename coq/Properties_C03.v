(* C03 -- placement only moves movable cells; everything else is untouched.
   Model: Api.v -- the three functions through which a placement stage writes to the Circuit
   (GlobalPlacer::exportPlacement, Legalizer::exportPlacement, DetailedPlacement::exportPlacement), line by line and
   parametric in the internal vectors they export (arbitrary values = oracle), and the control flow of the three
   entry points.  PROVED: the frame for every sequence of exports / every call whose callback only looks, for every
   oracle and every cut point.  What a theorem about the export functions cannot see -- a write to the circuit from
   inside an algorithm -- is covered twice: STATICALLY by theorem c03_algorithms_write_only_through_exports over a
   table of every use of a mutable Circuit in the algorithms' source, regenerated from clang's AST of the tree under
   check on every run (tools/circuit_access.py -> CircuitAccess_gen.v), and DYNAMICALLY per run by ./check C03 with
   the proved checker frame_okb on the C++ circuit before/after every stage run. *)
From Coq Require Import List ZArith Lia Bool.
Import ListNotations.
Require Import CV.Orient CV.FreeSpace CV.Api CV.ApiProofs CV.CircuitAccess CV.CircuitAccessProofs CV.CircuitAccess_gen.
Local Open Scope Z_scope.

(* [F] each export function keeps widths, heights, fixed and obstruction flags, polarities, net limits, pin cells, pin
   offsets, net weights, rows, and x/y/orientation of fixed cells -- for all internal vectors *)
Theorem c03_export_global_frame : forall x2 y2 c, frame_ok c (export_glob x2 y2 c).
Proof. exact export_glob_frame. Qed.
Theorem c03_export_legalizer_frame : forall l c, frame_ok c (fst (export_leg l c)).
Proof. exact export_leg_frame. Qed.
Theorem c03_export_detailed_frame : forall l c, frame_ok c (export_det l c).
Proof. exact export_det_frame. Qed.

(* [F] a stage = any sequence of exports (callbacks + final) of arbitrary internal states, cut anywhere *)
Theorem c03_frame_ok : forall l c, frame_ok c (run_exports c l).
Proof. exact run_exports_frame. Qed.

(* [F, but true by the SHAPE of the model: in Api.v a modelled stage can change the circuit only through export_* and the
   flag setters, so this says nothing about what the real algorithms write; that is the subject of
   c03_algorithms_write_only_through_exports (translator-derived table + rule) and of the per-run sampling]
   the same through the modelled control flow of Circuit::placeGlobal/legalize/placeDetailed: any stage, any oracle
   (number and content of the callbacks, success or failure of each step), any outcome (return, parameters rejected,
   infeasible legalization, callback throwing at any invocation, internal error), with a callback that does not
   itself modify the circuit *)
Theorem c03_frame_ok_call : forall s o cb c,
  (forall f, cb = Some f -> forall k, nth k (cb_ops f) [] = []) -> frame_ok c (fst (fst (call1 s o cb c))).
Proof. exact call1_frame. Qed.

(* [F] global placement additionally keeps every orientation *)
Theorem c03_global_keeps_orientation : forall l c, forallb is_glob l = true -> cellO (run_exports c l) = cellO c.
Proof. exact run_exports_global_orient. Qed.
Theorem c03_global_keeps_orientation_call : forall o cb c,
  (forall f, cb = Some f -> forall k, nth k (cb_ops f) [] = []) -> cellO (fst (fst (call1 StGlobal o cb c))) = cellO c.
Proof. exact call1_global_orient. Qed.

(* [F] the boolean checkers used on the C++ circuits decide the specification *)
Theorem c03_frame_okb_correct : forall a b, frame_okb a b = true <-> frame_ok a b.
Proof. exact frame_okb_correct. Qed.
Theorem c03_orient_keptb_correct : forall a b, orient_keptb a b = true <-> cellO a = cellO b.
Proof. exact orient_keptb_correct. Qed.

(* [translator-derived table + rule: F over the GENERATED table; the analysis that produces the table (tools/circuit_access.py
   over clang's AST) is trusted Python, and escapes it does not recognise are NOT SEEN -- recognised sources of a mutable
   Circuit: DeclRefExpr of a Circuit& parameter / variable, MemberExpr circuit_, `this` in a friend, any other lvalue
   expression of non-const Circuit type (listed as UUnknown = refused); token scan for const_cast / reinterpret_cast /
   mutable.  Not seen: writes through pointers or references to FIELDS obtained by other means, memcpy-style writes, code
   outside the scanned directories]
   the abstraction of Api.v is supported for the source of this run: among all functions of src/place_global, src/place_detailed and src/*.cpp other than Circuit's own
   members, there is a set R containing GlobalPlacer::place, DetailedPlacer::place and DetailedPlacer::legalize and
   closed under "hands the mutable circuit on" (by reference argument, or by storing it in a member of the class)
   such that every use of a mutable circuit is a read, a hand-over, a write of one of the two bookkeeping flags, or
   one of the eight writes (cellX_/cellY_/cellOrientation_ inside the three export functions) modelled by
   export_glob / export_leg / export_det; a function outside R may contain other placement writes only because no
   stage can reach it; no non-const Circuit method is called, nothing is unclassified, no const_cast/mutable exists;
   and nothing reachable from GlobalPlacer::place writes an orientation.  The boolean rule is evaluated on the table
   of the tree under check; circuit_uses_okb_sound lifts it to the Prop-level reading [uses_ok]. *)
Theorem c03_algorithms_write_only_through_exports : uses_ok circuit_uses.
Proof. exact (circuit_uses_okb_sound circuit_uses (eq_refl true)). Qed.

Theorem c03_access_rule_sound : forall uses, circuit_uses_okb uses = true -> uses_ok uses.
Proof. exact circuit_uses_okb_sound. Qed.

(* ---- non-vacuity: a fixed cell between two movable ones; the legalizer's parallel index skips it; the checker accepts
   the result and rejects a circuit in which the fixed cell moved *)
Example c03_nonvacuous :
  let c := snd (apply_setter (snd (apply_setter (new_circuit 3) (SSetCellIsFixed [false; true; false]))) (SSetCellX [7; 8; 9])) in
  let c' := run_exports c [XLeg [{| lc_placed := true; lc_x := 1; lc_y := 2; lc_o := oFS |};
                                 {| lc_placed := true; lc_x := 3; lc_y := 4; lc_o := oN |}];
                           XGlob [10; 11; 13] [0; 0; 0];
                           XDet [{| dc_index := 1; dc_x := 50; dc_y := 50; dc_o := oS |};
                                 {| dc_index := -1; dc_x := 0; dc_y := 0; dc_o := oN |};
                                 {| dc_index := 2; dc_x := 6; dc_y := 5; dc_o := oS |}]] in
  cellX c' = [5; 8; 6] /\ cellY c' = [0; 0; 5] /\ cellO c' = [oFS; oN; oS] /\ frame_okb c c' = true /\
  frame_okb c (set_cellX c' [5; 9; 6]) = false.
Proof. vm_compute. repeat split. Qed.

Print Assumptions c03_export_global_frame.
Print Assumptions c03_export_legalizer_frame.
Print Assumptions c03_export_detailed_frame.
Print Assumptions c03_frame_ok.
Print Assumptions c03_frame_ok_call.
Print Assumptions c03_global_keeps_orientation.
Print Assumptions c03_global_keeps_orientation_call.
Print Assumptions c03_frame_okb_correct.
Print Assumptions c03_orient_keptb_correct.
Print Assumptions c03_algorithms_write_only_through_exports.
Print Assumptions c03_access_rule_sound.
