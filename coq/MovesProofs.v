From Coq Require Import List ZArith Lia Bool.
Import ListNotations.
Require Import CV.Orient CV.Moves.
Local Open Scope Z_scope.

(* cells of a row are ordered, non-overlapping and inside the row *)
Fixpoint chain (lo hi : Z) (l : list pcell) : Prop :=
  match l with
  | [] => lo <= hi
  | c :: r => lo <= p_x c /\ 0 <= p_w c /\ chain (p_x c + p_w c) hi r
  end.

Definition row_ok (r : drow) : Prop := chain (dr_min r) (dr_max r) (dr_cells r).
Definition Inv (s : dstate) : Prop :=
  Forall row_ok (d_rows s) /\ Forall (fun c => 0 <= p_w c) (d_loose s).

Lemma chain_weaken lo lo' hi l : lo' <= lo -> chain lo hi l -> chain lo' hi l.
Proof. destruct l as [|c r]; cbn [chain]; [lia|]. intros H (H1 & H2 & H3). repeat split; try lia; assumption. Qed.

Lemma chain_lo_le_hi lo hi l : chain lo hi l -> lo <= hi.
Proof.
  revert lo. induction l as [|c r IH]; intros lo; cbn [chain]; [tauto|].
  intros (H1 & H2 & H3). specialize (IH _ H3). lia.
Qed.

Lemma chain_remove lo hi l1 c l2 : chain lo hi (l1 ++ c :: l2) -> chain lo hi (l1 ++ l2) /\ 0 <= p_w c.
Proof.
  revert lo. induction l1 as [|a l1 IH]; intros lo; cbn [app chain].
  - intros (H1 & H2 & H3). split; [|exact H2]. eapply chain_weaken; [|exact H3]. lia.
  - intros (H1 & H2 & H3). destruct (IH _ H3) as [H4 H5]. repeat split; assumption.
Qed.

Lemma chain_insert lo hi l1 l2 c :
  chain lo hi (l1 ++ l2) -> site_begin lo l1 <= p_x c -> 0 <= p_w c ->
  p_x c + p_w c <= site_end hi l2 -> chain lo hi (l1 ++ c :: l2).
Proof.
  revert lo. induction l1 as [|a l1 IH]; intros lo; cbn [app chain site_begin].
  - intros Hc Hb Hw He. repeat split; try assumption.
    destruct l2 as [|n r]; cbn [chain site_end] in *; [exact He|].
    destruct Hc as (H1 & H2 & H3). repeat split; assumption.
  - intros (H1 & H2 & H3) Hb Hw He. repeat split; try assumption. apply IH; assumption.
Qed.

Lemma split_at_app id l a m b : split_at id l = Some (a, m, b) -> l = a ++ m :: b /\ p_id m = id.
Proof.
  revert a m b. induction l as [|c r IH]; intros a m b; cbn [split_at]; [discriminate|].
  destruct (Nat.eqb_spec (p_id c) id) as [E|E].
  - intros [= <- <- <-]. split; [reflexivity|exact E].
  - destruct (split_at id r) as [[[a' m'] b']|]; [|discriminate].
    intros [= <- <- <-]. destruct (IH _ _ _ eq_refl) as [-> H]. split; [reflexivity|exact H].
Qed.

Lemma find_row_spec rows id : forall i0 i r a m b,
  find_row rows id i0 = Some (i, r, a, m, b) ->
  exists k, i = (i0 + k)%nat /\ nth_error rows k = Some r /\ dr_cells r = a ++ m :: b /\ p_id m = id.
Proof.
  induction rows as [|r0 t IH]; intros i0 i r a m b; cbn [find_row]; [discriminate|].
  destruct (split_at id (dr_cells r0)) as [[[a' m'] b']|] eqn:E.
  - intros [= <- <- <- <- <-]. apply split_at_app in E as [E1 E2]. exists O. rewrite Nat.add_0_r. cbn. tauto.
  - intros H. apply IH in H as (k & -> & H2 & H3 & H4). exists (S k). split; [lia|]. cbn. tauto.
Qed.

Lemma Forall_upd_row rows i r : Forall row_ok rows -> row_ok r -> Forall row_ok (upd_row rows i r).
Proof.
  revert i. induction rows as [|x t IH]; intros i Hf Hr; cbn [upd_row]; [constructor|].
  inversion Hf; subst. destruct i; constructor; try assumption. apply IH; assumption.
Qed.

Lemma Forall_nth {A} (P : A -> Prop) l k x : Forall P l -> nth_error l k = Some x -> P x.
Proof. intros H E. apply nth_error_In in E. rewrite Forall_forall in H. exact (H _ E). Qed.

Lemma unplace_inv s id s' : Inv s -> unplace s id = Some s' -> Inv s'.
Proof.
  intros [Hr Hl]. unfold unplace. destruct (find_row (d_rows s) id 0) as [[[[[i r] a] m] b]|] eqn:F; [|discriminate].
  intros [= <-]. apply find_row_spec in F as (k & -> & Hn & Hc & _). cbn [Nat.add].
  pose proof (Forall_nth _ _ _ _ Hr Hn) as Hok. unfold row_ok in Hok. rewrite Hc in Hok.
  destruct (chain_remove _ _ _ _ _ Hok) as [H1 H2]. split; cbn [d_rows d_loose].
  - apply Forall_upd_row; [exact Hr|]. unfold row_ok, set_cells; cbn. exact H1.
  - constructor; assumption.
Qed.

Lemma take_loose_spec id l c l' : take_loose id l = Some (c, l') -> In c l /\ forall P, Forall P l -> Forall P l'.
Proof.
  revert c l'. induction l as [|x r IH]; intros c l'; cbn [take_loose]; [discriminate|].
  destruct (Nat.eqb (p_id x) id).
  - intros [= <- <-]. split; [left; reflexivity|]. intros P H. inversion H; assumption.
  - destruct (take_loose id r) as [[m r']|]; [|discriminate]. intros [= <- <-].
    destruct (IH _ _ eq_refl) as [H1 H2]. split; [right; exact H1|].
    intros P H. inversion H; subst. constructor; [assumption|apply H2; assumption].
Qed.

Lemma split_site_app pred l a b : split_site pred l = Some (a, b) -> l = a ++ b.
Proof.
  unfold split_site. destruct pred as [p|]; [|intros [= <- <-]; reflexivity].
  destruct (split_at p l) as [[[a' m] b']|] eqn:E; [|discriminate].
  intros [= <- <-]. apply split_at_app in E as [-> _]. rewrite <- app_assoc. reflexivity.
Qed.

Lemma place_inv s id rowi pred x s' : Inv s -> place s id rowi pred x = Some s' -> Inv s'.
Proof.
  intros [Hr Hl]. unfold place.
  destruct (take_loose id (d_loose s)) as [[c loose']|] eqn:T; [|discriminate].
  destruct (nth_error (d_rows s) rowi) as [r|] eqn:N; [|discriminate].
  destruct (split_site pred (dr_cells r)) as [[a b]|] eqn:S; [|discriminate].
  destruct (_ && _) eqn:G; [|discriminate]. intros [= <-].
  apply andb_true_iff in G as [G1 G2]. apply Z.leb_le in G1, G2.
  apply take_loose_spec in T as [Tin Tall]. apply split_site_app in S.
  pose proof (Forall_nth _ _ _ _ Hr N) as Hok. unfold row_ok in Hok. rewrite S in Hok.
  assert (Hw : 0 <= p_w c) by (rewrite Forall_forall in Hl; apply Hl; exact Tin).
  split; cbn [d_rows d_loose].
  - apply Forall_upd_row; [exact Hr|]. unfold row_ok, set_cells; cbn [dr_min dr_max dr_cells].
    apply chain_insert; cbn [p_x p_w]; assumption.
  - apply Tall. exact Hl.
Qed.

Lemma insert_inv s id rowi pred s' : Inv s -> insert s id rowi pred = Some s' -> Inv s'.
Proof.
  intros HI. unfold insert. destruct (can_insert s id rowi pred) as [[|]|]; try discriminate.
  destruct (find_row _ _ _) as [[[[[? ?] ?] c] ?]|]; [|discriminate].
  destruct (nth_error _ _) as [r|]; [|discriminate].
  destruct (split_site _ _) as [[sa sb]|]; [|discriminate].
  destruct (unplace s id) as [s1|] eqn:U; [|discriminate].
  intros P. eapply place_inv; [|exact P]. eapply unplace_inv; eassumption.
Qed.

Lemma swap_inv s c1 c2 s' : Inv s -> swap s c1 c2 = Some s' -> Inv s'.
Proof.
  intros HI. unfold swap. destruct (can_swap s c1 c2) as [[|]|]; try discriminate.
  destruct (find_row (d_rows s) c1 0) as [[[[[i1 r1] a1] m1] b1]|]; [|discriminate].
  destruct (find_row (d_rows s) c2 0) as [[[[[i2 r2] a2] m2] b2]|]; [|discriminate].
  destruct (bounds_of r1 a1 b1) as [bb1 ba1]. destruct (bounds_of r2 a2 b2) as [bb2 ba2].
  destruct (if opt_nat_eqb (pred_of a1) (Some c2) then _ else _) as [x1 x2].
  destruct (unplace s c1) as [s1|] eqn:U1; [|discriminate].
  destruct (unplace s1 c2) as [s2|] eqn:U2; [|discriminate].
  assert (I2 : Inv s2) by (eapply unplace_inv; [eapply unplace_inv; eassumption|eassumption]).
  destruct (opt_nat_eqb (pred_of a1) (Some c2)).
  - destruct (place s2 c1 i2 _ x1) as [s3|] eqn:P1; [|discriminate].
    intros P2. eapply place_inv; [eapply place_inv; eassumption|exact P2].
  - destruct (opt_nat_eqb (pred_of a2) (Some c1)).
    + destruct (place s2 c2 i1 _ x2) as [s3|] eqn:P1; [|discriminate].
      intros P2. eapply place_inv; [eapply place_inv; eassumption|exact P2].
    + destruct (place s2 c1 i2 _ x1) as [s3|] eqn:P1; [|discriminate].
      intros P2. eapply place_inv; [eapply place_inv; eassumption|exact P2].
Qed.

Lemma step_inv s o : Inv s -> Inv (step_mop s o).
Proof.
  intros HI. unfold step_mop. destruct (apply_mop s o) as [s'|] eqn:A; [|exact HI].
  destruct o; cbn [apply_mop] in A.
  - eapply swap_inv; eassumption.
  - eapply insert_inv; eassumption.
  - eapply unplace_inv; eassumption.
  - eapply place_inv; eassumption.
Qed.

Theorem run_mops_inv ops : forall s, Inv s -> Inv (run_mops s ops).
Proof.
  induction ops as [|o ops IH]; intros s HI; cbn [run_mops fold_left]; [exact HI|].
  apply IH. apply step_inv. exact HI.
Qed.

(* pairwise reading of the row invariant *)
Lemma chain_In lo hi l c : chain lo hi l -> In c l -> lo <= p_x c /\ p_x c + p_w c <= hi /\ 0 <= p_w c.
Proof.
  revert lo. induction l as [|a r IH]; intros lo; cbn [chain In]; [tauto|].
  intros (H1 & H2 & H3) [->|Hin].
  - pose proof (chain_lo_le_hi _ _ _ H3). lia.
  - specialize (IH _ H3 Hin). lia.
Qed.

Lemma chain_ordered lo hi l i j ci cj :
  chain lo hi l -> (i < j)%nat -> nth_error l i = Some ci -> nth_error l j = Some cj -> p_x ci + p_w ci <= p_x cj.
Proof.
  revert lo i j. induction l as [|a r IH]; intros lo [|i] [|j] Hc Hij; cbn [nth_error]; try lia; try discriminate.
  - intros [= ->] Hj. destruct Hc as (_ & _ & Hc). apply nth_error_In in Hj.
    destruct (chain_In _ _ _ _ Hc Hj). lia.
  - destruct Hc as (_ & _ & Hc). apply (IH _ i j Hc). lia.
Qed.

(* orientation: place gives a polarised cell the orientation the table prescribes for the row *)
Lemma place_orientation s id rowi pred x s' :
  place s id rowi pred x = Some s' ->
  exists r c', nth_error (d_rows s) rowi = Some r /\
    (exists r', nth_error (d_rows s') rowi = Some r' /\ In c' (dr_cells r') /\ dr_o r' = dr_o r) /\
    p_id c' = id /\ p_x c' = x /\
    (cell_orientation_in_row (p_pol c') (dr_o r) = oUNKNOWN \/ p_o c' = cell_orientation_in_row (p_pol c') (dr_o r)).
Proof.
  unfold place.
  destruct (take_loose id (d_loose s)) as [[c loose']|] eqn:T; [|discriminate].
  destruct (nth_error (d_rows s) rowi) as [r|] eqn:N; [|discriminate].
  destruct (split_site pred (dr_cells r)) as [[a b]|] eqn:S; [|discriminate].
  destruct (_ && _); [|discriminate]. intros [= <-]. cbn [d_rows].
  eexists r, _. split; [reflexivity|]. split; [|split; [|split]].
  - exists (set_cells r (a ++ {| p_id := p_id c; p_x := x; p_w := p_w c; p_pol := p_pol c;
            p_o := if orient_eqb (cell_orientation_in_row (p_pol c) (dr_o r)) oUNKNOWN then p_o c
                   else cell_orientation_in_row (p_pol c) (dr_o r) |} :: b)).
    split; [|split; [cbn; apply in_or_app; right; left; reflexivity|reflexivity]].
    clear - N. revert rowi N. induction (d_rows s) as [|y t IH]; intros [|k] N; cbn in *; try discriminate; try reflexivity.
    apply IH. exact N.
  - cbn. clear - T. revert c loose' T. induction (d_loose s) as [|y t IH]; intros c loose'; cbn [take_loose]; [discriminate|].
    destruct (Nat.eqb_spec (p_id y) id); [intros [= <- <-]; assumption|].
    destruct (take_loose id t) as [[m r']|]; [|discriminate]. intros [= <- <-]. eapply IH; reflexivity.
  - reflexivity.
  - cbn [p_pol p_o]. destruct (orient_eqb _ oUNKNOWN) eqn:E; [left; apply orient_eqb_eq; exact E|right; reflexivity].
Qed.

(* ---------- the shift pass: positions satisfying the constraint arcs keep the rows legal ---------- *)
Lemma in_shift_false_new_x xs c : in_shift xs c = false -> new_x xs c = p_x c.
Proof.
  unfold in_shift, new_x. induction xs as [|p xs IH]; cbn [existsb find]; [reflexivity|].
  destruct (Nat.eqb (fst p) (p_id c)); cbn [orb]; [discriminate|exact IH].
Qed.

Definition shift_pre (xs : list (nat * Z)) (prev_sel : bool) (old_end new_end hi : Z) (l : list pcell) : Prop :=
  (prev_sel = false -> new_end = old_end) /\
  (prev_sel = true -> match l with [] => new_end <= hi | n :: _ => in_shift xs n = false -> new_end <= p_x n end).

Lemma row_shift_chain xs hi l : forall prev_sel old_end new_end,
  chain old_end hi l -> shift_pre xs prev_sel old_end new_end hi l ->
  row_shift_ok xs prev_sel old_end new_end hi l = true ->
  chain new_end hi (map (move_cell xs) l).
Proof.
  induction l as [|c r IH]; intros prev_sel old_end new_end Hc [P1 P2] Hok; cbn [map chain row_shift_ok] in *.
  - destruct prev_sel; [apply P2; reflexivity|rewrite P1 by reflexivity; exact Hc].
  - destruct Hc as (H1 & H2 & H3). cbn [move_cell p_x p_w].
    apply andb_prop in Hok as [Hok Hrec]. apply andb_prop in Hok as [Hlo Hhi].
    destruct (in_shift xs c) eqn:Sel.
    + split; [|split; [exact H2|]].
      * destruct prev_sel; apply Z.leb_le in Hlo; [exact Hlo|rewrite P1 by reflexivity; exact Hlo].
      * apply (IH true (p_x c + p_w c) (new_x xs c + p_w c) H3); [|exact Hrec].
        split; [discriminate|]. intros _. destruct r as [|n r']; [apply Z.leb_le; exact Hhi|].
        intros Hn. rewrite Hn in Hhi. apply Z.leb_le; exact Hhi.
    + rewrite (in_shift_false_new_x xs c Sel) in *. split; [|split; [exact H2|]].
      * destruct prev_sel; [apply P2; reflexivity|rewrite P1 by reflexivity; exact H1].
      * apply (IH false (p_x c + p_w c) (p_x c + p_w c) H3); [|exact Hrec]. split; [reflexivity|discriminate].
Qed.

Theorem shift_inv s xs : Inv s -> shift_ok s xs = true -> Inv (apply_shift s xs).
Proof.
  intros [HR HL] Hok. unfold apply_shift, Inv. cbn [d_rows d_loose]. split; [|exact HL].
  unfold shift_ok in Hok. rewrite forallb_forall in Hok. rewrite Forall_forall in *.
  intros r' Hr'. apply in_map_iff in Hr' as (r & <- & Hr). unfold row_ok. cbn [set_cells dr_min dr_max dr_cells].
  apply (row_shift_chain xs (dr_max r) (dr_cells r) false (dr_min r) (dr_min r)); [exact (HR r Hr)| |exact (Hok r Hr)].
  split; [reflexivity|discriminate].
Qed.
