(* C20 -- models of
     src/export.cpp            Circuit::exportIspd  (exportIspdAux/Nodes/Place/Nets/Rows)
     pycoloquinte/coloquinte.py  _read_aux/_read_nodes/_read_nets/_read_place/_read_rows, Circuit.read_ispd
     pycoloquinte/module.cpp   the table of bindings (types and naming rule; the table itself is generated:
                               Bindings_gen.v, written by tools/bindings.py on every run of ./check C20)
   A file is a list of lines, a line a list of tokens; whitespace runs are tokens too, so that the printer
   reproduces the bytes the C++ writes (compared byte for byte by ./check C20) while the reader drops them
   exactly where Python's str.split()/strip() does.  No proofs in this file. *)
From Coq Require Import String Ascii DecimalString.
From Coq Require Import List ZArith Bool.
Import ListNotations.
Require Import CV.Orient CV.Hpwl.
Local Open Scope string_scope.
Local Open Scope list_scope.
Local Open Scope Z_scope.
Notation "a +++ b" := (String.append a b) (at level 60, right associativity).

(* ------------------------------------------------------------------ circuits *)
Record cell := mkCell { cw : Z; ch : Z; cfixed : bool; cobs : bool; cpol : polarity; cx : Z; cy : Z; co : orient }.
Record pin := mkPin { pcell : nat; ppx : Z; ppy : Z }.        (* offsets of the UNORIENTED cell: pinXOffsets_/pinYOffsets_ *)
Record row := mkRow { rminx : Z; rmaxx : Z; rminy : Z; rmaxy : Z; rorient : orient }.
Record circuit := mkCircuit { cells : list cell; nets : list (list pin); rows : list row }.
Definition dcell := mkCell 0 0 false true pANY 0 0 oN.

(* ------------------------------------------------------------------ tokens and their text *)
Inductive token :=
| TWs (s : string)            (* a run of blanks/tabs *)
| TWord (s : string)          (* a literal word of the format *)
| TColon                      (* ":" *)
| TInt (z : Z)                (* operator<<(int) *)
| THalf (k : Z)               (* operator<<(double) of the value k/2 (exact for |k/2| < 10^5: at most 6 significant digits) *)
| TCell (i : nat)             (* "o" << i *)
| TNet (i : nat)              (* "n" << i *)
| TOrient (o : orient)        (* toString(CellOrientation) *)
| TFile (base ext : string).  (* filename << ".ext" *)
Definition line := list token.

Definition tab : string := String (ascii_of_nat 9) EmptyString.
Definition newline : string := String (ascii_of_nat 10) EmptyString.
Definition dec (z : Z) : string := NilZero.string_of_int (Z.to_int z).
(* parameters.cpp toString(CellOrientation) *)
Definition orient_name (o : orient) : string :=
  match o with oN => "N" | oS => "S" | oW => "W" | oE => "E" | oFN => "FN" | oFS => "FS" | oFW => "FW" | oFE => "FE"
             | oINVALID => "INVALID" | oUNKNOWN => "UnknownCellOrientation" end.
(* k/2 as printed by operator<<(double) at the default precision, for |k| < 200000 *)
Definition print_half (k : Z) : string :=
  if Z.even k then dec (Z.quot k 2)
  else (if k <? 0 then "-" else "") +++ dec (Z.quot (Z.abs k) 2) +++ ".5".
Definition print_token (t : token) : string :=
  match t with
  | TWs s => s | TWord s => s | TColon => ":" | TInt z => dec z | THalf k => print_half k
  | TCell i => "o" +++ dec (Z.of_nat i) | TNet i => "n" +++ dec (Z.of_nat i)
  | TOrient o => orient_name o | TFile b e => b +++ "." +++ e
  end.
Definition print_line (l : line) : string := String.concat "" (map print_token l) +++ newline.
Definition print_file (f : list line) : string := String.concat "" (map print_line f).

(* ------------------------------------------------------------------ the exporter (export.cpp) *)
Definition sp := TWs " ".
Definition tb := TWs tab.
Definition kv (k : string) (v : Z) : line := [TWord k; sp; TColon; sp; TInt v].
Definition ucla (what : string) : line := [TWord "UCLA"; sp; TWord what; sp; TWord "1.0"].
Fixpoint number_from {A} (k : nat) (l : list A) : list (nat * A) :=
  match l with [] => [] | x :: r => (k, x) :: number_from (S k) r end.

(* exportIspdAux *)
Definition export_aux (name : string) : list line :=
  [[TWord "RowBasedPlacement"; sp; TColon; sp; TFile name "nodes"; sp; TFile name "nets"; sp; TFile name "pl"; sp; TFile name "scl"]].

(* exportIspdNodes *)
Definition nodes_line (ic : nat * cell) : line :=
  [tb; TCell (fst ic); tb; TInt (cw (snd ic)); tb; TInt (ch (snd ic))] ++ (if cfixed (snd ic) then [tb; TWord "terminal"] else []).
Definition export_nodes (c : circuit) : list line :=
  ucla "nodes" :: [] :: kv "NumNodes" (Z.of_nat (length (cells c))) ::
  kv "NumTerminals" (Z.of_nat (length (filter cfixed (cells c)))) ::
  map nodes_line (number_from 0 (cells c)).

(* exportIspdPlace *)
Definition place_line (ic : nat * cell) : line :=
  [TCell (fst ic); tb; TInt (cx (snd ic)); tb; TInt (cy (snd ic)); tb; TColon; sp; TOrient (co (snd ic))].
Definition export_place (c : circuit) : list line :=
  ucla "pl" :: [] :: map place_line (number_from 0 (cells c)).

(* exportIspdNets.  [fixed = true]: the repaired code (commit "fix: exportIspd writes pin offsets of the
   oriented cell"): x = pinXOffsets_[pin] - 0.5 * cellWidth_[c].  [fixed = false]: the unchanged tree:
   x = pinXOffset(i, j) - 0.5 * cellWidth_[c], the offset under the cell's current orientation. *)
Definition pin_line (fixed : bool) (cs : list cell) (p : pin) : line :=
  let c := nth (pcell p) cs dcell in
  let x := if fixed then ppx p else pin_x_offset (co c) (cw c) (ch c) (ppx p) (ppy p) in
  let y := if fixed then ppy p else pin_y_offset (co c) (cw c) (ch c) (ppx p) (ppy p) in
  [tb; TCell (pcell p); sp; TWord "I"; sp; TColon; sp; THalf (2 * x - cw c); sp; THalf (2 * y - ch c)].
Definition net_lines (fixed : bool) (cs : list cell) (inet : nat * list pin) : list line :=
  [TWord "NetDegree"; sp; TColon; sp; TInt (Z.of_nat (length (snd inet))); sp; TNet (fst inet)] ::
  map (pin_line fixed cs) (snd inet).
Definition nb_pins (ns : list (list pin)) : nat := fold_right (fun n a => (length n + a)%nat) 0%nat ns.
Definition export_nets (fixed : bool) (c : circuit) : list line :=
  ucla "nets" :: [] :: kv "NumNets" (Z.of_nat (length (nets c))) :: kv "NumPins" (Z.of_nat (nb_pins (nets c))) :: [] ::
  flat_map (net_lines fixed (cells c)) (number_from 0 (nets c)).

(* exportIspdRows.  [fixed = true]: the repaired code (commit "fix: exportIspd drops the row orientation"):
   Siteorient is toString(orientation); [fixed = false]: the unchanged tree writes the constant 1. *)
Definition row_key (k pad : string) (v : token) : line := [TWs "  "; TWord k; TWs pad; TColon; sp; v].
Definition row_lines (fixed : bool) (r : row) : list line :=
  [ [TWord "CoreRow"; sp; TWord "Horizontal"];
    row_key "Coordinate" "    " (TInt (rminy r));
    row_key "Height" "        " (TInt (rmaxy r - rminy r));
    row_key "Sitewidth" "     " (TInt 1);
    row_key "Sitespacing" "   " (TInt 1);
    row_key "Siteorient" "    " (if fixed then TOrient (rorient r) else TInt 1);
    row_key "Sitesymmetry" "  " (TInt 1);
    row_key "SubrowOrigin" "  " (TInt (rminx r)) ++ [TWs "     "; TWord "NumSites"; sp; TColon; sp; TInt (rmaxx r - rminx r)];
    [TWord "End"] ].
Definition export_rows (fixed : bool) (c : circuit) : list line :=
  ucla "scl" :: [] :: kv "NumRows" (Z.of_nat (length (rows c))) :: [] :: flat_map (row_lines fixed) (rows c).

(* Circuit::exportIspd: the five files, keyed by (base name, extension) *)
Definition fsys := list (string * string * list line).
Definition export_ispd_v (pins_fixed rows_fixed : bool) (name : string) (c : circuit) : fsys :=
  [ (name, "aux", export_aux name); (name, "nodes", export_nodes c); (name, "pl", export_place c);
    (name, "nets", export_nets pins_fixed c); (name, "scl", export_rows rows_fixed c) ].
Definition export_ispd := export_ispd_v true true.            (* the repaired tree *)
Definition export_ispd_unfixed := export_ispd_v false false.  (* the unchanged tree (finding F14) *)

(* ------------------------------------------------------------------ the reader (coloquinte.py) *)
Definition is_ws (t : token) : bool := match t with TWs _ => true | _ => false end.
Definition is_colon (t : token) : bool := match t with TColon => true | _ => false end.
Definition split (l : line) : line := filter (fun t => negb (is_ws t)) l.          (* str.strip()/str.split() *)
Definition no_colon (l : line) : line := filter (fun t => negb (is_colon t)) l.    (* line.replace(":", " ") *)
(* line.startswith(kw), on the first word of the stripped line.  Cell/net names, numbers and orientation
   names never start with one of the keywords tested ("#", UCLA, Num..., NetDegree, CoreRow, End). *)
Definition starts (kw : string) (l : line) : bool := match l with TWord s :: _ => String.prefix kw s | _ => false end.

Definition token_eqb (a b : token) : bool :=
  match a, b with
  | TWs x, TWs y | TWord x, TWord y => String.eqb x y
  | TColon, TColon => true
  | TInt x, TInt y | THalf x, THalf y => Z.eqb x y
  | TCell x, TCell y | TNet x, TNet y => Nat.eqb x y
  | TOrient x, TOrient y => orient_eqb x y
  | TFile b1 e1, TFile b2 e2 => String.eqb b1 b2 && String.eqb e1 e2
  | _, _ => false
  end.

(* int(text): a whole double prints like an int *)
Definition tok_int (t : token) : option Z :=
  match t with TInt z => Some z | THalf k => if Z.even k then Some (Z.quot k 2) else None | _ => None end.
(* float(text), in halves *)
Definition tok_float2 (t : token) : option Z := match t with TInt z => Some (2 * z) | THalf k => Some k | _ => None end.
(* int(round(k/2)): Python 3 rounds half to even *)
Definition round_half (k : Z) : Z :=
  if Z.even k then k / 2 else let f := (k - 1) / 2 in if Z.even f then f else f + 1.
(* text in CellOrientation.__members__: the eight names module.cpp registers *)
Definition real_orient (o : orient) : bool := match o with oINVALID | oUNKNOWN => false | _ => true end.
Definition tok_orient (t : token) : option orient := match t with TOrient o => if real_orient o then Some o else None | _ => None end.

(* _parse_num_line: "Key : Value" with exactly one colon and an int after it *)
Fixpoint after_colon (l : line) : option line :=
  match l with [] => None | TColon :: r => Some r | _ :: r => after_colon r end.
Definition parse_num_line (l : line) : option Z :=
  if Nat.eqb (length (filter is_colon l)) 1 then match after_colon l with Some [t] => tok_int t | _ => None end else None.
Definition opt_is (o : option Z) (v : Z) : bool := match o with Some n => Z.eqb n v | None => true end.

(* dict((name, i) for i, name in enumerate(names)): the last index wins *)
Fixpoint lookup_from (names : list token) (k : nat) (t : token) (acc : option nat) : option nat :=
  match names with [] => acc | n :: r => lookup_from r (S k) t (if token_eqb n t then Some k else acc) end.
Definition name_index (names : list token) (t : token) : option nat := lookup_from names 0 t None.

(* ---- _read_nodes *)
Record node := mkNode { nname : token; nw : Z; nh : Z; nfixed : bool; nobs : bool }.
Record nodes_st := mkNS { ns_nb : option Z; ns_term : option Z; ns_first : bool; ns_nodes : list node }.
Definition nodes_step (st : option nodes_st) (raw : line) : option nodes_st :=
  match st with
  | None => None
  | Some s =>
    let l := split raw in
    match l with
    | [] => Some s
    | name :: rest =>
      if starts "#" l then Some s
      else if starts "UCLA" l && negb (ns_first s) then Some (mkNS (ns_nb s) (ns_term s) true (ns_nodes s))
      else if starts "NumNodes" l then
        match ns_nb s, parse_num_line l with
        | None, Some n => Some (mkNS (Some n) (ns_term s) (ns_first s) (ns_nodes s))
        | _, _ => None end
      else if starts "NumTerminals" l then
        match ns_term s, parse_num_line l with
        | None, Some n => Some (mkNS (ns_nb s) (Some n) (ns_first s) (ns_nodes s))
        | _, _ => None end
      else
        let fixed := existsb (token_eqb (TWord "terminal")) rest in
        match rest with
        | tw :: th :: _ =>
          match tok_int tw, tok_int th with
          | Some w, Some h => Some (mkNS (ns_nb s) (ns_term s) (ns_first s) (ns_nodes s ++ [mkNode name w h fixed true]))
          | _, _ => None end
        | _ => Some (mkNS (ns_nb s) (ns_term s) (ns_first s) (ns_nodes s ++ [mkNode name 0 0 fixed false]))
        end
    end
  end.
Definition read_nodes (f : list line) : option (list node) :=
  match fold_left nodes_step f (Some (mkNS None None false [])) with
  | Some s =>
    if opt_is (ns_nb s) (Z.of_nat (length (ns_nodes s))) && opt_is (ns_term s) (Z.of_nat (length (filter nfixed (ns_nodes s))))
    then Some (ns_nodes s) else None
  | None => None
  end.

(* ---- _read_nets.  A pin as read: (cell index, x, y) with x, y in halves (float(x)).  The nets are kept
   newest first (nets[-1] is the head). *)
Definition rpin := (nat * Z * Z)%type.
Definition rnet := (token * Z * list rpin)%type.
Record nets_st := mkTS { ts_nets : option Z; ts_pins : option Z; ts_first : bool; ts_rev : list rnet }.
Definition nets_step (names : list token) (st : option nets_st) (raw : line) : option nets_st :=
  match st with
  | None => None
  | Some s =>
    let l := split raw in
    match l with
    | [] => Some s
    | _ :: _ =>
      if starts "#" l then Some s
      else if starts "UCLA" l && negb (ts_first s) then Some (mkTS (ts_nets s) (ts_pins s) true (ts_rev s))
      else if starts "NumNets" l then
        match ts_nets s, parse_num_line l with
        | None, Some n => Some (mkTS (Some n) (ts_pins s) (ts_first s) (ts_rev s))
        | _, _ => None end
      else if starts "NumPins" l then
        match ts_pins s, parse_num_line l with
        | None, Some n => Some (mkTS (ts_nets s) (Some n) (ts_first s) (ts_rev s))
        | _, _ => None end
      else
        let vals := no_colon l in
        if starts "NetDegree" vals then
          match vals with
          | [_; d] => match tok_int d with
                      | Some deg => Some (mkTS (ts_nets s) (ts_pins s) (ts_first s) ((TNet (length (ts_rev s)), deg, []) :: ts_rev s))
                      | None => None end
          | [_; d; name] => match tok_int d with
                      | Some deg => Some (mkTS (ts_nets s) (ts_pins s) (ts_first s) ((name, deg, []) :: ts_rev s))
                      | None => None end
          | _ => None
          end
        else
          let pin :=
            match vals with
            | [c; _; x; y] => match name_index names c, tok_float2 x, tok_float2 y with
                              | Some i, Some x2, Some y2 => Some (i, x2, y2) | _, _, _ => None end
            | [c; _] => match name_index names c with Some i => Some (i, 0, 0) | None => None end
            | _ => None
            end in
          match pin, ts_rev s with
          | Some p, (nm, deg, pins) :: older => Some (mkTS (ts_nets s) (ts_pins s) (ts_first s) ((nm, deg, pins ++ [p]) :: older))
          | _, _ => None
          end
    end
  end.
(* pin offsets handed to add_net: int(round(0.5 * size + x)) *)
Definition conv_pin (widths heights : list Z) (p : rpin) : pin :=
  match p with (i, x2, y2) => mkPin i (round_half (nth i widths 0 + x2)) (round_half (nth i heights 0 + y2)) end.
Definition read_nets (f : list line) (names : list token) (widths heights : list Z) : option (list (list pin)) :=
  match fold_left (nets_step names) f (Some (mkTS None None false [])) with
  | Some s =>
    let ns := rev (ts_rev s) in
    if forallb (fun n : rnet => match n with (_, deg, pins) => Z.eqb deg (Z.of_nat (length pins)) end) ns
       && opt_is (ts_nets s) (Z.of_nat (length ns))
       && opt_is (ts_pins s) (Z.of_nat (fold_right (fun (n : rnet) a => (length (snd n) + a)%nat) 0%nat ns))
    then Some (map (fun n : rnet => map (conv_pin widths heights) (snd n)) ns) else None
  | None => None
  end.

(* ---- _read_place *)
Fixpoint set_nth {A} (l : list A) (i : nat) (a : A) : list A :=
  match l, i with [], _ => [] | _ :: r, O => a :: r | x :: r, S i' => x :: set_nth r i' a end.
Record place_st := mkPS { ps_first : bool; ps_x : list Z; ps_y : list Z; ps_o : list (option orient) }.
Definition place_step (names : list token) (st : option place_st) (raw : line) : option place_st :=
  match st with
  | None => None
  | Some s =>
    let l := split raw in
    match l with
    | [] => Some s
    | _ :: _ =>
      if starts "#" l then Some s
      else if starts "UCLA" l && negb (ps_first s) then Some (mkPS true (ps_x s) (ps_y s) (ps_o s))
      else
        match no_colon l with
        | c :: x :: y :: o :: _ =>
          match name_index names c, tok_int x, tok_int y, tok_orient o with
          | Some i, Some xv, Some yv, Some ov =>
            Some (mkPS (ps_first s) (set_nth (ps_x s) i xv) (set_nth (ps_y s) i yv) (set_nth (ps_o s) i (Some ov)))
          | _, _, _, _ => None end
        | _ => None
        end
    end
  end.
Definition read_place (f : list line) (names : list token) : option (list Z * list Z * list (option orient)) :=
  let n := length names in
  match fold_left (place_step names) f (Some (mkPS false (repeat 0 n) (repeat 0 n) (repeat None n))) with
  | Some s => Some (ps_x s, ps_y s, ps_o s)
  | None => None
  end.

(* ---- _read_rows *)
Definition lower_ascii (c : ascii) : ascii :=
  let n := nat_of_ascii c in if (Nat.leb 65 n && Nat.leb n 90)%bool then ascii_of_nat (n + 32) else c.
Fixpoint lower (s : string) : string := match s with EmptyString => EmptyString | String c r => String (lower_ascii c) (lower r) end.
Definition key_is (k : string) (t : token) : bool := match t with TWord s => String.eqb (lower s) k | _ => false end.

(* "for line in lines: if line.startswith('NumRows'): assert nb_rows is None; nb_rows = _parse_num_line(line)" *)
Definition num_rows_step (st : option (option Z)) (raw : line) : option (option Z) :=
  match st with
  | None => None
  | Some nb => let l := split raw in
               if starts "NumRows" l then
                 match nb, parse_num_line l with None, Some n => Some (Some n) | _, _ => None end
               else Some nb
  end.
(* row_descs, newest first *)
Definition desc_step (st : list line * bool) (raw : line) : list line * bool :=
  let l := split raw in
  if starts "CoreRow" l then ([] :: fst st, true)
  else if starts "End" l then (fst st, false)
  else if snd st then match fst st with d :: older => ((d ++ no_colon l) :: older, true) | [] => st end
  else st.
Record row_st := mkRS { rs_minx : option Z; rs_miny : option Z; rs_w : option Z; rs_h : option Z; rs_site : Z; rs_o : orient; rs_ok : bool }.
Definition with_int (t : token) (s : row_st) (f : Z -> row_st) : row_st :=
  match tok_int t with Some z => f z | None => mkRS (rs_minx s) (rs_miny s) (rs_w s) (rs_h s) (rs_site s) (rs_o s) false end.
Definition pair_step (s : row_st) (k v : token) : row_st :=
  let s1 := if key_is "coordinate" k then with_int v s (fun z => mkRS (rs_minx s) (Some z) (rs_w s) (rs_h s) (rs_site s) (rs_o s) (rs_ok s)) else s in
  let s2 := if key_is "subroworigin" k then with_int v s1 (fun z => mkRS (Some z) (rs_miny s1) (rs_w s1) (rs_h s1) (rs_site s1) (rs_o s1) (rs_ok s1)) else s1 in
  let s3 := if key_is "numsites" k then with_int v s2 (fun z => mkRS (rs_minx s2) (rs_miny s2) (Some z) (rs_h s2) (rs_site s2) (rs_o s2) (rs_ok s2)) else s2 in
  let s4 := if key_is "height" k then with_int v s3 (fun z => mkRS (rs_minx s3) (rs_miny s3) (rs_w s3) (Some z) (rs_site s3) (rs_o s3) (rs_ok s3)) else s3 in
  let s5 := if key_is "sitewidth" k then with_int v s4 (fun z => mkRS (rs_minx s4) (rs_miny s4) (rs_w s4) (rs_h s4) z (rs_o s4) (rs_ok s4)) else s4 in
  if key_is "siteorient" k then
    match tok_orient v with
    | Some o => mkRS (rs_minx s5) (rs_miny s5) (rs_w s5) (rs_h s5) (rs_site s5) o (rs_ok s5)
    | None => s5 end
  else s5.
Fixpoint scan_pairs (s : row_st) (d : line) : row_st :=
  match d with
  | k :: ((v :: _) as r) => scan_pairs (pair_step s k v) r
  | _ => s
  end.
Definition read_row (d : line) : option row :=
  let s := scan_pairs (mkRS None None None None 1 oN true) d in
  if rs_ok s then
    match rs_minx s, rs_miny s, rs_w s, rs_h s with
    | Some mx, Some my, Some w, Some h => Some (mkRow mx (mx + w * rs_site s) my (my + h) (rs_o s))
    | _, _, _, _ => None end
  else None.
Fixpoint all_some {A} (l : list (option A)) : option (list A) :=
  match l with
  | [] => Some []
  | Some a :: r => match all_some r with Some r' => Some (a :: r') | None => None end
  | None :: _ => None
  end.
Definition read_rows (f : list line) : option (list row) :=
  match fold_left num_rows_step f (Some None) with
  | Some _ => all_some (map read_row (rev (fst (fold_left desc_step f ([], false)))))
  | None => None
  end.

(* ---- _read_aux: one file name per extension among the words of the .aux file *)
Definition files_with (ext : string) (toks : line) : list string :=
  flat_map (fun t => match t with TFile b e => if String.eqb e ext then [b] else [] | _ => [] end) toks.
Definition read_aux (f : list line) : option (string * string * string * string) :=
  let toks := flat_map split f in
  match files_with "nodes" toks, files_with "nets" toks, files_with "pl" toks, files_with "scl" toks with
  | [a], [b], [c], [d] => Some (a, b, c, d)
  | _, _, _, _ => None
  end.
Fixpoint fs_get (fs : fsys) (b e : string) : option (list line) :=
  match fs with
  | [] => None
  | (b', e', f) :: r => if String.eqb b b' && String.eqb e e' then Some f else fs_get r b e
  end.

(* ---- Circuit.read_ispd *)
(* Circuit::rowHeight: throws without rows or with rows of different heights *)
Definition row_height (rs : list row) : option Z :=
  match rs with
  | [] => None
  | r0 :: _ => let h := rmaxy r0 - rminy r0 in if forallb (fun r => Z.eqb (rmaxy r - rminy r) h) rs then Some h else None
  end.
(* "Allow macros to have any orientation": the polarity the reader assigns (Python % is floor-mod) *)
Definition pol_of (rh h : Z) : polarity := if 4 * rh <? h then pANY else if (h mod rh) =? 0 then pSAME else pNW.
Definition read_ispd (fs : fsys) (name : string) : option circuit :=
  match fs_get fs name "aux" with None => None | Some auxf =>
  match read_aux auxf with None => None | Some (fa, fb, fc, fd) =>
  match fs_get fs fa "nodes", fs_get fs fb "nets", fs_get fs fc "pl", fs_get fs fd "scl" with
  | Some nodesf, Some netsf, Some plf, Some sclf =>
    match read_nodes nodesf with None => None | Some nodes =>
    let names := map nname nodes in
    let widths := map nw nodes in
    let heights := map nh nodes in
    match read_nets netsf names widths heights with None => None | Some rnets =>
    match read_place plf names with None => None | Some (xs, ys, os) =>
    match read_rows sclf with None => None | Some rws =>
    match all_some os with None => None | Some os' =>                           (* None is not a CellOrientation *)
    match row_height rws with None => None | Some rh =>
    if forallb (fun h => (4 * rh <? h) || negb (rh =? 0)) heights then     (* ZeroDivisionError otherwise *)
      Some (mkCircuit
              (map (fun inode : nat * node =>
                      let (i, n) := inode in
                      mkCell (nw n) (nh n) (nfixed n) (nobs n) (pol_of rh (nh n)) (nth i xs 0) (nth i ys 0) (nth i os' oN))
                   (number_from 0 nodes))
              (filter (fun n => match n with [] => false | _ => true end) rnets)  (* addNet ignores an empty net *)
              rws)
    else None
    end end end end end end
  | _, _, _, _ => None
  end end end.

(* ------------------------------------------------------------------ what the property compares *)
Definition proj_cell (c : cell) := (cw c, ch c, cfixed c, cx c, cy c, co c).
Definition project (c : circuit) := (map proj_cell (cells c), nets c, rows c).
Definition to_hcell (c : cell) : hcell := {| hx := cx c; hy := cy c; hw := cw c; hh := ch c; ho := co c |}.
Definition to_hpin (p : pin) : hpin := {| pc := pcell p; pxo := ppx p; pyo := ppy p |}.
Definition circuit_hpwl (c : circuit) : Z := hpwl (map to_hcell (cells c)) (map (map to_hpin) (nets c)).

(* the domain: what the text format and read_ispd can carry *)
Definition text_exact (k : Z) : Prop := -200000 < k < 200000.       (* |k/2| < 10^5 *)
Definition pin_ok (cs : list cell) (p : pin) : Prop :=
  (pcell p < length cs)%nat /\ text_exact (2 * ppx p - cw (nth (pcell p) cs dcell)) /\ text_exact (2 * ppy p - ch (nth (pcell p) cs dcell)).
Definition wf (c : circuit) : Prop :=
  Forall (fun x => real_orient (co x) = true) (cells c) /\
  Forall (fun r => real_orient (rorient r) = true) (rows c) /\
  Forall (fun n => n <> [] /\ Forall (pin_ok (cells c)) n) (nets c) /\
  exists rh, row_height (rows c) = Some rh /\ (rh <> 0 \/ Forall (fun x => 0 < ch x) (cells c)).
Definition text_exactb (k : Z) : bool := (-200000 <? k) && (k <? 200000).
Definition wfb (c : circuit) : bool :=
  forallb (fun x => real_orient (co x)) (cells c) &&
  forallb (fun r => real_orient (rorient r)) (rows c) &&
  forallb (fun n => match n with [] => false | _ => true end &&
                    forallb (fun p => Nat.ltb (pcell p) (length (cells c)) &&
                                      text_exactb (2 * ppx p - cw (nth (pcell p) (cells c) dcell)) &&
                                      text_exactb (2 * ppy p - ch (nth (pcell p) (cells c) dcell))) n) (nets c) &&
  match row_height (rows c) with
  | Some rh => negb (rh =? 0) || forallb (fun x => 0 <? ch x) (cells c)
  | None => false
  end.

(* ------------------------------------------------------------------ bindings (module.cpp) *)
Inductive bkind := BEnum | BReadWrite | BProperty | BPropertyRO | BMethod.
(* one .value / .def_readwrite / .def_property / .def_property_readonly / .def of module.cpp:
   Python name [bpy] inside py::enum_/py::class_<bclass_cpp>(m, "bclass_py") bound to bowner::bcpp
   (and, for def_property, the setter bset_owner::bset); bline = line of module.cpp *)
Record binding := mkB { bk : bkind; bclass_py : string; bclass_cpp : string; bpy : string;
                        bowner : string; bcpp : string; bset_owner : string; bset : string; bline : nat }.
(* declarations of coloquinte.hpp *)
Inductive decl :=
| DEnum (name : string) (values : list string)
| DStruct (name base : string) (fields methods : list string).

Definition upper_ascii (c : ascii) : ascii :=
  let n := nat_of_ascii c in if (Nat.leb 97 n && Nat.leb n 122)%bool then ascii_of_nat (n - 32) else c.
(* snake_case -> camelCase: every '_' is dropped and the next character upper-cased *)
Fixpoint camel_aux (up : bool) (s : string) : string :=
  match s with
  | EmptyString => EmptyString
  | String c r => if Ascii.eqb c "_"%char then camel_aux true r else String (if up then upper_ascii c else c) (camel_aux false r)
  end.
Definition camel (s : string) : string := camel_aux false s.
Definition cap (s : string) : string := match s with String c r => String (upper_ascii c) r | EmptyString => EmptyString end.

Fixpoint find_enum (d : list decl) (n : string) : option (list string) :=
  match d with
  | [] => None
  | DEnum n' vs :: r => if String.eqb n n' then Some vs else find_enum r n
  | _ :: r => find_enum r n
  end.
Fixpoint find_struct (d : list decl) (n : string) : option (string * list string * list string) :=
  match d with
  | [] => None
  | DStruct n' b fs ms :: r => if String.eqb n n' then Some (b, fs, ms) else find_struct r n
  | _ :: r => find_struct r n
  end.
(* the class and its declared bases *)
Fixpoint owners (fuel : nat) (d : list decl) (n : string) : list string :=
  match fuel with
  | O => []
  | S f => match find_struct d n with
           | Some (b, _, _) => n :: (if String.eqb b "" then [] else owners f d b)
           | None => []
           end
  end.
Definition mem (s : string) (l : list string) : bool := existsb (String.eqb s) l.
Definition has_field (d : list decl) (o f : string) : bool :=
  match find_struct d o with Some (_, fs, _) => mem f fs | None => false end.
Definition has_method (d : list decl) (o f : string) : bool :=
  match find_struct d o with Some (_, _, ms) => mem f ms | None => false end.

(* THE RULE (derived from module.cpp; see design/C20.md):
   enum value            Python name = C++ enumerator name, of the enum this py::enum_ binds, declared in the header
   def_readwrite         member = camel(Python name), a declared data member of the bound class or of a base
   def_property          getter = camel(name), setter = "set" + Cap(camel(name)), declared member functions
   def_property_readonly getter = camel(name) or "compute" + Cap(camel(name)), a declared member function
   (.def methods are listed in the table but are not part of the property) *)
Definition binding_okb (d : list decl) (b : binding) : bool :=
  let own := owners (S (length d)) d (bclass_cpp b) in
  match bk b with
  | BEnum => String.eqb (bowner b) (bclass_cpp b) &&
             match find_enum d (bclass_cpp b) with Some vs => mem (bcpp b) vs | None => false end &&
             String.eqb (bpy b) (bcpp b)
  | BReadWrite => mem (bowner b) own && has_field d (bowner b) (bcpp b) && String.eqb (bcpp b) (camel (bpy b))
  | BProperty => mem (bowner b) own && has_method d (bowner b) (bcpp b) && String.eqb (bcpp b) (camel (bpy b)) &&
                 mem (bset_owner b) own && has_method d (bset_owner b) (bset b) &&
                 String.eqb (bset b) ("set" +++ cap (camel (bpy b)))
  | BPropertyRO => mem (bowner b) own && has_method d (bowner b) (bcpp b) &&
                   (String.eqb (bcpp b) (camel (bpy b)) || String.eqb (bcpp b) ("compute" +++ cap (camel (bpy b))))
  | BMethod => true
  end.
