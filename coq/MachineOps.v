(* C07, tie of the hand-written machine-integer listings (coq/*Machine*.v) to the source.
   The table [machine_ops] (coq/MachineOps_gen.v) is GENERATED on every run by tools/machine_ops.py from clang's AST of the
   tree under check: for every C++ function that a listing transcribes, every operation that can overflow or trap at a
   signed integer type or that converts between types with a change of value (see the header of the script for the exact
   node kinds).  This file defines the shape of that table, the shape of the hand-written COVER table
   (coq/MachineOpsCover.v: for every operation either the listing value that covers it or an explicit exclusion with a reason
   from a closed enumeration) and the rule [ops_covered_b] that the two must satisfy.  Definitions only; proofs in
   MachineOpsProofs.v, statements in Properties_C07_listing.v. *)
From Coq Require Import List String Ascii Bool Arith.
Import ListNotations.
Require Import CV.RowLegMachine.
Local Open Scope string_scope.

(* ---------- the generated side *)
(* C++ scalar types as clang prints them after desugaring (LP64: int 32 bit, long = long long 64 bit) *)
Inductive mty := MInt | MLong | MLLong | MShort | MSChar
               | MUInt | MULong | MULLong | MUShort | MUChar | MBool | MChar
               | MFloat | MDouble | MLDouble.

Inductive opk :=
  | OAdd | OSub | OMul | ODiv | ORem | OShl                  (* BinaryOperator *)
  | OAddA | OSubA | OMulA | ODivA | ORemA | OShlA            (* CompoundAssignOperator, at its computation type *)
  | ONeg | OPreInc | OPostInc | OPreDec | OPostDec           (* UnaryOperator *)
  | OAbs                                                     (* abs / std::abs / labs / llabs *)
  | ONarrow (from : mty)                                     (* integral conversion to a signed type that cannot hold every value of [from] *)
  | OFloatToInt (from : mty)                                 (* floating -> integral conversion *)
  | OUnsigned.                                               (* unsigned arithmetic that is narrowed to a signed type afterwards *)

(* one operation: kind, result type, normalised source text, occurrence number among the identical (kind, type, text)
   triples of the same function (in source order) *)
Record mop := mkOp { o_kind : opk; o_ty : mty; o_text : string; o_occ : nat }.
(* one function: the listing file that transcribes it, its qualified name (an overloaded or instantiated name is followed by its
   parameter types), its operations in source order, and the qualified names (without parameter types) of the functions declared in
   the repo's own code that its body calls *)
Record mfun := mkF { f_listing : string; f_name : string; f_ops : list mop; f_calls : list string }.

(* ---------- the hand-written side *)
Inductive reason :=
  | ELoopCounter          (* ++i / i + 1 of a counter that a loop test keeps below a container size or below a listed int *)
  | EIndex                (* non-negative index arithmetic bounded by a container size *)
  | ESize                 (* a container size (or iterator distance) converted to int / long long: bounded by the number of elements *)
  | EConstant             (* operands are compile-time constants *)
  | EUnreachableInModel   (* a path that the configuration modelled by the listing never takes (named in the text of the entry) *)
  | EFloatInput           (* float -> integer conversion whose RESULT is an input of the listing with a stated range (not proved) *)
  | ECheckOnly            (* part of a consistency check / report that the placement path does not execute *)
  | ECoveredElsewhere     (* not a machine-integer listing value, but a theorem of another property file (named in the text) proves
                             that the conversion / operation is defined on a stated domain *)
  | ENotListed.           (* overflow-capable, executed, and NOT covered by any listed value: an open gap, named in design/C07.md *)

Inductive cov :=
  (* the value number [pos] of the SAMPLE evaluation [cv_samples] of the listing function [fn] (a Coq definition of the
     listing file; the sample is computed from it), which has C type [ty] there *)
  | Listed (fn : string) (pos : nat) (ty : cty)
  | Excluded (r : reason) (why : string).

Record centry := mkC { c_kind : opk; c_ty : mty; c_text : string; c_occ : nat; c_cov : cov }.
Record cfun := mkCF { cf_listing : string; cf_name : string; cf_entries : list centry }.
(* [cv_samples]: for each listing function referred to, the list of the C types of its values on a sample input.
   [cv_callees] (callees_not_inlined): the functions of the repo that a function of the table calls and that are deliberately NOT in
   the table, each with a one-line reason *)
Record cover := mkCover { cv_samples : list (string * list cty); cv_funs : list cfun; cv_callees : list (string * string) }.

(* ---------- decidable equalities *)
Definition mty_eqb (a b : mty) : bool :=
  match a, b with
  | MInt, MInt | MLong, MLong | MLLong, MLLong | MShort, MShort | MSChar, MSChar | MUInt, MUInt | MULong, MULong
  | MULLong, MULLong | MUShort, MUShort | MUChar, MUChar | MBool, MBool | MChar, MChar | MFloat, MFloat
  | MDouble, MDouble | MLDouble, MLDouble => true
  | _, _ => false
  end.

Definition opk_eqb (a b : opk) : bool :=
  match a, b with
  | OAdd, OAdd | OSub, OSub | OMul, OMul | ODiv, ODiv | ORem, ORem | OShl, OShl
  | OAddA, OAddA | OSubA, OSubA | OMulA, OMulA | ODivA, ODivA | ORemA, ORemA | OShlA, OShlA
  | ONeg, ONeg | OPreInc, OPreInc | OPostInc, OPostInc | OPreDec, OPreDec | OPostDec, OPostDec
  | OAbs, OAbs | OUnsigned, OUnsigned => true
  | ONarrow x, ONarrow y => mty_eqb x y
  | OFloatToInt x, OFloatToInt y => mty_eqb x y
  | _, _ => false
  end.

Definition cty_eqb (a b : cty) : bool :=
  match a, b with I32, I32 | I64, I64 => true | _, _ => false end.

(* the listing type that a value of C type [t] must carry (signed types only) *)
Definition mty_cty (t : mty) : option cty :=
  match t with
  | MInt => Some I32
  | MLong | MLLong => Some I64
  | _ => None
  end.

Definition octy_is (o : option cty) (t : cty) : bool :=
  match o with Some u => cty_eqb u t | None => false end.

(* ---------- the rule *)
Definition sample_of (c : cover) (fn : string) : option (list cty) :=
  match filter (fun p => String.eqb (fst p) fn) (cv_samples c) with
  | p :: _ => Some (snd p)
  | [] => None
  end.

Definition sample_ty (c : cover) (fn : string) (pos : nat) : option cty :=
  match sample_of c fn with
  | Some l => nth_error l pos
  | None => None
  end.

(* same function-independent identity: kind, type, text, occurrence *)
Definition same_op (o : mop) (e : centry) : bool :=
  opk_eqb (o_kind o) (c_kind e) && mty_eqb (o_ty o) (c_ty e) && String.eqb (o_text o) (c_text e)
  && Nat.eqb (o_occ o) (c_occ e).

(* second check: the C type of a covering listing value (read off the sample evaluation of the listing function named)
   is the listing type of the operation's GENERATED result type *)
Definition cov_okb (c : cover) (o : mop) (e : centry) : bool :=
  match c_cov e with
  | Listed fn pos ty => octy_is (mty_cty (o_ty o)) ty && octy_is (sample_ty c fn pos) ty
  | Excluded _ _ => true
  end.

Definition entry_okb (c : cover) (o : mop) (e : centry) : bool := same_op o e && cov_okb c o e.

Fixpoint forall2b {A B} (p : A -> B -> bool) (l : list A) (m : list B) : bool :=
  match l, m with
  | [], [] => true
  | a :: l', b :: m' => p a b && forall2b p l' m'
  | _, _ => false
  end.

Definition fun_okb (c : cover) (f : mfun) (g : cfun) : bool :=
  String.eqb (f_listing f) (cf_listing g) && String.eqb (f_name f) (cf_name g)
  && forall2b (entry_okb c) (f_ops f) (cf_entries g).

(* the name of a function without its parameter types: "K::f(int)" -> "K::f" *)
Fixpoint base_name (s : string) : string :=
  match s with
  | EmptyString => EmptyString
  | String ch r => if Ascii.eqb ch "("%char then EmptyString else String ch (base_name r)
  end.

Definition smem (s : string) (l : list string) : bool := existsb (String.eqb s) l.
Definition table_names (t : list mfun) : list string := map (fun f => base_name (f_name f)) t.

(* callee closure: every function of the repo that a function of the table calls is itself a function of the table (under some
   listing) or is named in [cv_callees]; and no entry of [cv_callees] is stale (each is called by a function of the table and is
   not in the table) *)
Definition calls_okb (t : list mfun) (c : cover) : bool :=
  forallb (fun f => forallb (fun n => smem n (table_names t) || smem n (map fst (cv_callees c))) (f_calls f)) t
  && forallb (fun p => existsb (fun f => smem (fst p) (f_calls f)) t && negb (smem (fst p) (table_names t))) (cv_callees c).

(* the generated table and the cover list the same functions in the same order (sorted by listing, then name), each with
   the same operations in the same (source) order: every generated operation is matched by exactly one cover entry and no
   cover entry is left over; and the callee closure holds *)
Definition ops_covered_b (t : list mfun) (c : cover) : bool := forall2b (fun_okb c) t (cv_funs c) && calls_okb t c.

(* ---------- Prop-level reading *)
Definition op_matches (o : mop) (e : centry) : Prop :=
  o_kind o = c_kind e /\ o_ty o = c_ty e /\ o_text o = c_text e /\ o_occ o = c_occ e.

Definition cov_ok (c : cover) (o : mop) (e : centry) : Prop :=
  match c_cov e with
  | Listed fn pos ty => mty_cty (o_ty o) = Some ty /\ sample_ty c fn pos = Some ty
  | Excluded _ _ => True
  end.

(* every operation of the table has its own cover entry (position for position), and conversely *)
Definition ops_covered (t : list mfun) (c : cover) : Prop :=
  List.length t = List.length (cv_funs c) /\
  forall i f g, nth_error t i = Some f -> nth_error (cv_funs c) i = Some g ->
    f_listing f = cf_listing g /\ f_name f = cf_name g /\
    List.length (f_ops f) = List.length (cf_entries g) /\
    forall j o e, nth_error (f_ops f) j = Some o -> nth_error (cf_entries g) j = Some e ->
      op_matches o e /\ cov_ok c o e.

(* callee closure, Prop level *)
Definition calls_ok (t : list mfun) (c : cover) : Prop :=
  (forall f n, In f t -> In n (f_calls f) ->
     (exists g, In g t /\ base_name (f_name g) = n) \/ (exists r, In (n, r) (cv_callees c))) /\
  (forall n r, In (n, r) (cv_callees c) ->
     (exists f, In f t /\ In n (f_calls f)) /\ ~ (exists g, In g t /\ base_name (f_name g) = n)).

(* counts used by the check's report *)
Definition is_listed (e : centry) : bool := match c_cov e with Listed _ _ _ => true | Excluded _ _ => false end.
Definition count_listed (c : cover) : nat :=
  fold_right (fun g n => (List.length (filter is_listed (cf_entries g)) + n)%nat) O (cv_funs c).
Definition count_entries (c : cover) : nat :=
  fold_right (fun g n => (List.length (cf_entries g) + n)%nat) O (cv_funs c).

(* ---------- mutators of a table / a cover, used by the discriminating Examples of Properties_C07_listing.v: each changes the
   FIRST function that has an operation (resp. entry) *)
Definition retype (t : mty) : mty := match t with MInt => MLLong | _ => MInt end.

Fixpoint map_first_fun (h : mfun -> option mfun) (t : list mfun) : list mfun :=
  match t with
  | [] => []
  | f :: r => match h f with Some f' => f' :: r | None => f :: map_first_fun h r end
  end.

Definition on_first_op (h : mop -> list mop) (f : mfun) : option mfun :=
  match f_ops f with
  | [] => None
  | o :: r => Some (mkF (f_listing f) (f_name f) (h o ++ r) (f_calls f))
  end.

(* (a) the source gains an operation (the first one occurs twice) / loses one *)
Definition mut_add_op : list mfun -> list mfun := map_first_fun (on_first_op (fun o => [o; mkOp (o_kind o) (o_ty o) (o_text o) (S (o_occ o))])).
Definition mut_drop_op : list mfun -> list mfun := map_first_fun (on_first_op (fun _ => [])).
(* (b) an operation is retyped: int -> long long (anything else -> int) *)
Definition mut_retype : list mfun -> list mfun := map_first_fun (on_first_op (fun o => [mkOp (o_kind o) (retype (o_ty o)) (o_text o) (o_occ o)])).
(* (c) the text of an expression changes *)
Definition mut_retext : list mfun -> list mfun := map_first_fun (on_first_op (fun o => [mkOp (o_kind o) (o_ty o) (o_text o ++ " + 1") (o_occ o)])).
(* a whole function is added to / removed from the table *)
Definition mut_add_fun (t : list mfun) : list mfun := mkF "X.v" "f" [] [] :: t.
(* the first function of the table calls a helper of the repo that is neither in the table nor in callees_not_inlined *)
Definition mut_add_call (t : list mfun) : list mfun :=
  match t with
  | [] => []
  | f :: r => mkF (f_listing f) (f_name f) (f_ops f) ("newHelper" :: f_calls f) :: r
  end.
Definition mut_drop_fun (t : list mfun) : list mfun := tl t.

Fixpoint map_first_cfun (h : cfun -> option cfun) (t : list cfun) : list cfun :=
  match t with
  | [] => []
  | f :: r => match h f with Some f' => f' :: r | None => f :: map_first_cfun h r end
  end.

Definition flip_cty (t : cty) : cty := match t with I32 => I64 | I64 => I32 end.

(* the first [Listed] entry of the cover claims the other listing type / the next position / an unknown listing function *)
Fixpoint first_listed (h : string -> nat -> cty -> cov) (l : list centry) : option (list centry) :=
  match l with
  | [] => None
  | e :: r =>
      match c_cov e with
      | Listed fn pos ty => Some (mkC (c_kind e) (c_ty e) (c_text e) (c_occ e) (h fn pos ty) :: r)
      | Excluded _ _ => match first_listed h r with Some r' => Some (e :: r') | None => None end
      end
  end.

Definition mut_cover (h : string -> nat -> cty -> cov) (c : cover) : cover :=
  mkCover (cv_samples c)
    (map_first_cfun (fun g => match first_listed h (cf_entries g) with
                              | Some l => Some (mkCF (cf_listing g) (cf_name g) l) | None => None end) (cv_funs c))
    (cv_callees c).

Definition mut_cover_type : cover -> cover := mut_cover (fun fn pos ty => Listed fn pos (flip_cty ty)).
Definition mut_cover_fn : cover -> cover := mut_cover (fun fn pos ty => Listed (fn ++ "_") pos ty).
Definition mut_cover_pos_end : cover -> cover := mut_cover (fun fn pos ty => Listed fn 100000 ty).
(* a stale entry: the first function of the cover has one more entry *)
Definition mut_cover_stale (c : cover) : cover :=
  mkCover (cv_samples c)
    (map_first_cfun (fun g => match cf_entries g with
                              | [] => None
                              | e :: r => Some (mkCF (cf_listing g) (cf_name g) (e :: e :: r)) end) (cv_funs c))
    (cv_callees c).
(* callees_not_inlined loses its first entry / gains an entry that nothing calls / names a function of the table *)
Definition mut_cover_drop_callee (c : cover) : cover := mkCover (cv_samples c) (cv_funs c) (tl (cv_callees c)).
Definition mut_cover_stale_callee (c : cover) : cover :=
  mkCover (cv_samples c) (cv_funs c) (("nobody::callsThis", "stale") :: cv_callees c).
Definition mut_cover_callee_in_table (t : list mfun) (c : cover) : cover :=
  mkCover (cv_samples c) (cv_funs c)
    (match t with f :: _ => (base_name (f_name f), "in the table") :: cv_callees c | [] => cv_callees c end).
