(* C01 -- the internal tests of the legalizer PASS on every state the model reaches (InternalChecks.v):
   AbacusLegalizer::check at the end of AbacusLegalizer::run, the size test of Legalizer::exportPlacement, computeNorm's default
   case; hence Legalizer.legalize / legalize_circuit are what the C++ does INCLUDING these tests. *)
From Coq Require Import List ZArith Lia Bool Arith.
Import ListNotations.
Require Import CV.Orient CV.FreeSpace CV.FreeSpaceProofs CV.RowLeg CV.RowLegProofs CV.Circuit CV.Legalizer CV.LegalizerProofs.
Require Import CV.LegalizerAbacusProofs CV.LegalizerSoundProofs CV.InternalChecks.
Local Open Scope Z_scope.

(* ---------- the combinators ---------- *)
Lemma call_pass {A} (f : A -> chk_res) l : (forall a, In a l -> f a = CPass) -> call f l = CPass.
Proof.
  induction l as [|a t IH]; intros H; cbn [call]; [reflexivity|].
  rewrite (H a (or_introl eq_refl)). cbn [cseq]. apply IH. intros b Hb. apply H. right. exact Hb.
Qed.

Lemma neq_len_false {A} (l : list A) n : length l = n -> neq_len l n = false.
Proof. intros <-. unfold neq_len. rewrite Nat.eqb_refl. reflexivity. Qed.

Lemma nth_lt {A} (l : list A) i a : nth_error l i = Some a -> (i < length l)%nat.
Proof. intros H. apply nth_error_Some. rewrite H. discriminate. Qed.

Lemma Forall2_len {A B} (P : A -> B -> Prop) l l' : Forall2 P l l' -> length l = length l'.
Proof. induction 1; cbn; congruence. Qed.

Lemma nth_error_combine {A B} (l : list A) (l' : list B) : forall i a b,
  nth_error l i = Some a -> nth_error l' i = Some b -> nth_error (combine l l') i = Some (a, b).
Proof.
  revert l'. induction l as [|x l IH]; intros [|y l'] [|i] a b; cbn [nth_error combine]; try discriminate.
  - intros [= <-] [= <-]. reflexivity.
  - apply IH.
Qed.

Lemma nth_error_In_combine {A B} (l : list A) (l' : list B) i a b :
  nth_error l i = Some a -> nth_error l' i = Some b -> In (a, b) (combine l l').
Proof. intros H1 H2. eapply nth_error_In. apply nth_error_combine; eassumption. Qed.

(* ---------- LegalizerBase::check on a state built by leg_state_of ---------- *)
Lemma base_check_pass rows cells res rh :
  length res = length cells -> (forall r, In r rows -> row_h r = rh) ->
  base_check (leg_state_of rows cells res) = CPass.
Proof.
  intros L Hh. unfold base_check, leg_state_of, lg_nb. cbn [lg_w lg_h lg_tx lg_ty lg_to lg_x lg_y lg_o lg_rows].
  assert (LC : length (combine cells res) = length cells) by (rewrite combine_length; lia).
  cbn [first_err]. rewrite !neq_len_false by (rewrite ?map_length, ?LC; reflexivity). cbn [cseq].
  destruct rows as [|r0 rows']; [reflexivity|]. apply call_pass. intros r Hr.
  rewrite (Hh r Hr), (Hh r0 (or_introl eq_refl)), Z.eqb_refl. reflexivity.
Qed.

(* ---------- the read-back loop writes every cell of every rowToCells_[i] ---------- *)
Section Fill.
Variable rows : list row.
Variable cells : list cell.

Lemma a_write_length i r res p : length (a_write rows cells i r res p) = length res.
Proof.
  destruct p as [cj x]. unfold a_write. destruct (nth_error cells cj) as [c|]; [|reflexivity].
  destruct (get_orientation rows c i); [apply upd_length|reflexivity].
Qed.

Lemma a_write_keeps i r res p ci :
  (exists v, nth_error res ci = Some (Some v)) -> exists v, nth_error (a_write rows cells i r res p) ci = Some (Some v).
Proof.
  intros (v & Hv). destruct p as [cj x]. unfold a_write. destruct (nth_error cells cj) as [c|]; [|exists v; exact Hv].
  destruct (get_orientation rows c i) as [o|]; [|exists v; exact Hv].
  destruct (Nat.eq_dec cj ci) as [->|Hne].
  - eexists. apply nth_error_upd_eq. eapply nth_lt. exact Hv.
  - exists v. rewrite nth_error_upd_neq by exact Hne. exact Hv.
Qed.

Lemma fold_write_keeps i r l : forall res ci,
  (exists v, nth_error res ci = Some (Some v)) -> exists v, nth_error (fold_left (a_write rows cells i r) l res) ci = Some (Some v).
Proof.
  induction l as [|p l IH]; intros res ci H; cbn [fold_left]; [exact H|]. apply IH. apply a_write_keeps. exact H.
Qed.

Lemma fold_write_sets i r l : forall res ci x c o,
  In (ci, x) l -> nth_error cells ci = Some c -> get_orientation rows c i = Some o -> (ci < length res)%nat ->
  exists v, nth_error (fold_left (a_write rows cells i r) l res) ci = Some (Some v).
Proof.
  induction l as [|p l IH]; intros res ci x c o Hin Hc Ho Hlt; [destruct Hin|]. cbn [fold_left].
  destruct Hin as [->|Hin].
  - apply fold_write_keeps. unfold a_write. rewrite Hc, Ho. eexists. apply nth_error_upd_eq. exact Hlt.
  - eapply IH; try eassumption. rewrite a_write_length. exact Hlt.
Qed.

Lemma a_fill_keeps rws : forall i lgs rcl res ci,
  (exists v, nth_error res ci = Some (Some v)) -> exists v, nth_error (a_fill rows cells i rws lgs rcl res) ci = Some (Some v).
Proof.
  induction rws as [|r rws IH]; intros i [|lg lgs] [|rc rcl] res ci H; cbn [a_fill]; try exact H.
  apply IH. apply fold_write_keeps. exact H.
Qed.

Lemma a_fill_sets rws : forall i lgs rcl res j r lg rc ci x c o,
  nth_error rws j = Some r -> nth_error lgs j = Some lg -> nth_error rcl j = Some rc ->
  In (ci, x) (combine rc (placement lg)) -> nth_error cells ci = Some c ->
  get_orientation rows c (i + Z.of_nat j) = Some o -> (ci < length res)%nat ->
  exists v, nth_error (a_fill rows cells i rws lgs rcl res) ci = Some (Some v).
Proof.
  induction rws as [|r0 rws IH]; intros i lgs rcl res j r lg rc ci x c o Hr; [destruct j; discriminate|].
  destruct lgs as [|lg0 lgs]; [destruct j; discriminate|]. destruct rcl as [|rc0 rcl]; [destruct j; discriminate|].
  cbn [a_fill]. destruct j as [|j]; cbn [nth_error] in *.
  - injection Hr as ->. intros [= ->] [= ->] Hin Hc Ho Hlt. apply a_fill_keeps. rewrite Z.add_0_r in Ho.
    eapply fold_write_sets; eassumption.
  - intros Hl Hrc Hin Hc Ho Hlt. eapply (IH (i + 1) lgs rcl _ j r lg rc ci x c o); try eassumption.
    + replace (i + 1 + Z.of_nat j) with (i + Z.of_nat (S j)) by lia. exact Ho.
    + rewrite fold_write_length. exact Hlt.
Qed.
End Fill.

(* ---------- what check() reads for a cell recorded in rowToCells_[i] at position k ---------- *)
Lemma row_ok_lengths rows cells i r lg rc : row_ok rows cells i r lg rc ->
  length rc = length (widths lg) /\ length (placement lg) = length (widths lg).
Proof.
  intros Hok. pose proof (row_ok_widths_pos _ _ _ _ _ _ Hok) as Hpos. pose proof (row_ok_legal _ _ _ _ _ _ Hok) as Hleg.
  destruct Hok as (_ & _ & _ & _ & _ & Hf). split.
  - rewrite (Forall2_len _ _ _ Hf), rev_length. reflexivity.
  - destruct (legal_rev_pairwise _ _ _ _ Hpos Hleg) as (Hlen & _). unfold placement. rewrite rev_length. exact Hlen.
Qed.

Lemma ab_reads rows0 cells : widths_positive cells ->
  forall i r lg rc k ci,
    nth_error (sort_rows rows0) i = Some r -> nth_error (abacus_rowlegs rows0 cells) i = Some lg ->
    nth_error (abacus_rowcells rows0 cells) i = Some rc -> nth_error rc k = Some ci ->
    exists c x y o, nth_error cells ci = Some c /\ nth_error (placement lg) k = Some x /\
                    nth_error (abacus_run rows0 cells) ci = Some (Some (x, y, o)).
Proof.
  intros Hpos i r lg rc k ci Hr Hlg Hrc Hk.
  pose proof (abacus_final_inv rows0 cells Hpos) as HI. destruct HI as [L1 L2 Hrow Hnd Hlt Huq].
  pose proof (Hrow i r lg rc Hr Hlg Hrc) as Hok.
  destruct (row_ok_lengths _ _ _ _ _ _ Hok) as (Len1 & Len2).
  assert (Hkl : (k < length rc)%nat) by (eapply nth_lt; exact Hk).
  destruct (nth_error (placement lg) k) as [x|] eqn:Hx; [|apply nth_error_None in Hx; lia].
  pose proof Hok as (_ & _ & _ & _ & _ & Hf).
  destruct (Forall2_nth_error_l _ _ _ _ _ Hf Hk) as (w & Hw & c & Hc & Hcw & (Hh & o0 & Ho0 & _)).
  assert (Hci : (ci < length cells)%nat) by (eapply nth_lt; exact Hc).
  assert (Hset : exists v, nth_error (abacus_run rows0 cells) ci = Some (Some v)).
  { rewrite abacus_run_unfold.
    eapply (a_fill_sets (sort_rows rows0) cells (sort_rows rows0) 0 _ _ _ i r lg rc ci x c o0); try eassumption.
    - eapply nth_error_In_combine; eassumption.
    - rewrite map_length. exact Hci. }
  destruct Hset as ([[x' y'] o'] & Hres).
  destruct (abacus_placed_origin _ _ _ _ _ _ _ Hc Hres) as (i' & r' & lg' & rc' & k' & A1 & A2 & A3 & A4 & A5 & _ & _).
  assert (i' = i) by (eapply Huq; [exact A3|exact Hrc|eapply nth_error_In; exact A4|eapply nth_error_In; exact Hk]). subst i'.
  rewrite Hlg in A2. injection A2 as <-. rewrite Hrc in A3. injection A3 as <-.
  assert (k' = k).
  { pose proof (Hnd i rc Hrc) as ND. rewrite NoDup_nth_error in ND. apply ND; [eapply nth_lt; exact A4|congruence]. }
  subst k'. rewrite Hx in A5. injection A5 as <-.
  exists c, x, y', o'. repeat split; assumption.
Qed.

Lemma leg_state_reads rows cells res ci c x y o :
  nth_error cells ci = Some c -> nth_error res ci = Some (Some (x, y, o)) ->
  nth_error (lg_x (leg_state_of rows cells res)) ci = Some x /\ nth_error (lg_w (leg_state_of rows cells res)) ci = Some (cw c).
Proof.
  intros Hc Hr. unfold leg_state_of. cbn [lg_x lg_w]. split.
  - erewrite map_nth_error; [|apply nth_error_combine; eassumption]. reflexivity.
  - erewrite map_nth_error; [|exact Hc]. reflexivity.
Qed.

(* ---------- the two loops ---------- *)
Lemma ab_loop1_pass s : forall rows rtc, length rtc = length rows ->
  (forall i r rc c, nth_error rows i = Some r -> nth_error rtc i = Some rc -> In c rc -> ab_cell_in_row s r c = CPass) ->
  ab_loop1 s rows rtc = CPass.
Proof.
  induction rows as [|r rows IH]; intros [|rc rtc] L H; cbn [ab_loop1]; try reflexivity; try discriminate.
  rewrite call_pass; [cbn [cseq]|intros c Hc; exact (H O r rc c eq_refl eq_refl Hc)].
  apply IH; [cbn in L; lia|]. intros i r' rc' c Hr Hrc. exact (H (S i) r' rc' c Hr Hrc).
Qed.

Lemma ab_row_overlap_pass s : forall rc,
  (forall k c1 c2, nth_error rc k = Some c1 -> nth_error rc (S k) = Some c2 -> ab_pair s c1 c2 = CPass) ->
  ab_row_overlap s rc = CPass.
Proof.
  induction rc as [|c1 rc IH]; intros H; cbn [ab_row_overlap]; [reflexivity|].
  destruct rc as [|c2 rc']; [reflexivity|].
  rewrite (H O c1 c2 eq_refl eq_refl). cbn [cseq]. apply IH. intros k a b Ha Hb. exact (H (S k) a b Ha Hb).
Qed.

Lemma ab_loop2_pass s : forall rows rtc, length rtc = length rows ->
  (forall i rc, nth_error rtc i = Some rc -> (i < length rows)%nat -> ab_row_overlap s rc = CPass) ->
  ab_loop2 s rows rtc = CPass.
Proof.
  induction rows as [|r rows IH]; intros [|rc rtc] L H; cbn [ab_loop2]; try reflexivity; try discriminate.
  rewrite (H O rc eq_refl) by (cbn; lia). cbn [cseq]. apply IH; [cbn in L; lia|].
  intros i rc' Hrc Hi. apply (H (S i) rc' Hrc). cbn. lia.
Qed.

(* ---------- AbacusLegalizer::check passes at the end of AbacusLegalizer::run ----------
   for EVERY list of row segments of one height (sorted or not, overlapping or not) and every list of cells of positive width,
   whatever their heights, targets, polarities and orientations *)
Theorem abacus_check_passes rows0 cells rh :
  widths_positive cells -> (forall r, In r rows0 -> row_h r = rh) ->
  abacus_check (ab_final rows0 cells) = CPass.
Proof.
  intros Hpos Hh. unfold abacus_check, ab_final. cbn [ab_base ab_rtc].
  pose proof (abacus_final_inv rows0 cells Hpos) as HI. destruct HI as [L1 L2 Hrow Hnd Hlt Huq].
  fold (abacus_rowcells rows0 cells).
  assert (Lres : length (abacus_run rows0 cells) = length cells).
  { rewrite abacus_run_unfold, a_fill_length. apply map_length. }
  rewrite (base_check_pass _ _ _ rh Lres) by (intros r Hr; apply Hh; apply sort_rows_In; exact Hr). cbn [cseq].
  change (lg_rows (leg_state_of (sort_rows rows0) cells (abacus_run rows0 cells))) with (sort_rows rows0).
  assert (Hleg : forall i, (i < length (sort_rows rows0))%nat -> exists lg, nth_error (abacus_rowlegs rows0 cells) i = Some lg).
  { intros i Hi. destruct (nth_error (abacus_rowlegs rows0 cells) i) as [lg|] eqn:E; [exists lg; reflexivity|].
    apply nth_error_None in E. lia. }
  rewrite ab_loop1_pass; [cbn [cseq]|exact L2|].
  - apply ab_loop2_pass; [exact L2|]. intros i rc Hrc Hi.
    destruct (Hleg i Hi) as (lg & Hlg). destruct (nth_error (sort_rows rows0) i) as [r|] eqn:Hr; [|apply nth_error_None in Hr; lia].
    apply ab_row_overlap_pass. intros k c1 c2 H1 H2.
    destruct (ab_reads rows0 cells Hpos i r lg rc k c1 Hr Hlg Hrc H1) as (c & x & y & o & Hc & Hx & Hres).
    destruct (ab_reads rows0 cells Hpos i r lg rc (S k) c2 Hr Hlg Hrc H2) as (c' & x' & y' & o' & Hc' & Hx' & Hres').
    destruct (leg_state_reads (sort_rows rows0) cells _ _ _ _ _ _ Hc Hres) as (Rx & Rw).
    destruct (leg_state_reads (sort_rows rows0) cells _ _ _ _ _ _ Hc' Hres') as (Rx' & _).
    unfold ab_pair. rewrite Rx, Rw, Rx'.
    pose proof (row_cells_ordered _ _ _ _ _ _ _ _ _ _ _ _ (Hrow i r lg rc Hr Hlg Hrc) (Nat.lt_succ_diag_r k) H1 Hx Hx' Hc) as Hord.
    unfold throw_if. destruct (Z.ltb_spec x' (x + cw c)); [lia|reflexivity].
  - intros i r rc ci Hr Hrc Hin. apply In_nth_error in Hin as (k & Hk).
    destruct (Hleg i (nth_lt _ _ _ Hr)) as (lg & Hlg).
    destruct (ab_reads rows0 cells Hpos i r lg rc k ci Hr Hlg Hrc Hk) as (c & x & y & o & Hc & Hx & Hres).
    destruct (leg_state_reads (sort_rows rows0) cells _ _ _ _ _ _ Hc Hres) as (Rx & Rw).
    unfold ab_cell_in_row. rewrite Rx, Rw.
    destruct (row_cell_inside _ _ _ _ _ _ _ _ _ _ (Hrow i r lg rc Hr Hlg Hrc) Hk Hx Hc) as (_ & B1 & B2).
    destruct (Z.ltb_spec x (minX (rr r))); [lia|]. unfold throw_if. destruct (Z.ltb_spec (maxX (rr r)) (x + cw c)); [lia|reflexivity].
Qed.

(* ---------- Legalizer::run: the model with the test = the model without it ---------- *)
Lemma remaining_rows_height rows cells st rh :
  (forall r, In r rows -> row_h r = rh) -> forall s, In s (remaining_rows rows cells st) -> row_h s = rh.
Proof.
  intros H s Hs. apply remaining_rows_In in Hs as (r & obs & Hr & Hs). apply freespace_rows_shape in Hs.
  specialize (H r Hr). unfold row_h in *. lia.
Qed.

Lemma select_widths cells st order keep : widths_positive cells -> widths_positive (map snd (select cells st order keep)).
Proof.
  intros Hpos. unfold widths_positive in *. rewrite Forall_forall in *. intros c Hc.
  apply in_map_iff in Hc as ([ci c'] & <- & Hin). apply select_spec in Hin as (Hn & _). cbn [snd].
  apply Hpos. eapply nth_error_In. exact Hn.
Qed.

Theorem legalize_chk_eq rows0 cells order rh :
  (forall r, In r rows0 -> row_h r = rh) -> widths_positive cells ->
  legalize_chk rows0 cells order = outcome_inj (legalize rows0 cells order).
Proof.
  intros Hh Hpos. unfold legalize_chk, legalize.
  destruct (sort_rows rows0) as [|r0 rest] eqn:Es.
  - destruct (existsb _ order); [reflexivity|].
    change (abacus_check (ab_final [] [])) with CPass. cbn [after_check].
    destruct (length cells =? 0)%nat; reflexivity.
  - cbv zeta.
    rewrite (abacus_check_passes _ _ rh).
    + cbn [after_check].
      match goal with |- (if forallb ?f ?l then _ else _) = _ => destruct (forallb f l) end; reflexivity.
    + apply select_widths. exact Hpos.
    + apply remaining_rows_height. intros r Hr. apply Hh. apply sort_rows_In. rewrite Es. exact Hr.
Qed.

(* ---------- Legalizer::exportPlacement: "Circuit does not match legalizer for export" cannot be thrown ---------- *)
Lemma export_chk_pass cs : forall j, export_chk cs j (j + length (filter (fun k => negb (c_fixed k)) cs)) = CPass.
Proof.
  induction cs as [|k t IH]; intros j; cbn [export_chk filter]; [reflexivity|].
  destruct (c_fixed k); cbn [negb]; [apply IH|]. cbn [length].
  destruct (Nat.leb_spec (j + S (length (filter (fun k0 => negb (c_fixed k0)) t))) j); [lia|].
  replace (j + S (length (filter (fun k0 => negb (c_fixed k0)) t)))%nat with (S j + length (filter (fun k0 => negb (c_fixed k0)) t))%nat by lia.
  apply IH.
Qed.

Lemma export_chk_circuit c : export_chk (cells c) 0 (length (leg_cells c)) = CPass.
Proof. unfold leg_cells, movable. rewrite map_length. exact (export_chk_pass (cells c) 0). Qed.

(* a circuit with MORE movable cells than the legalizer has cells: the test fires (it is not vacuous) *)
Lemma export_chk_fires cs n : (n < length (filter (fun k => negb (c_fixed k)) cs))%nat ->
  forall j, (j <= n)%nat -> (n - j < length (filter (fun k => negb (c_fixed k)) cs))%nat -> export_chk cs j n = CFail EExportMismatch.
Proof.
  intros _. induction cs as [|k t IH]; intros j Hj Hlt; cbn [export_chk filter length] in *; [lia|].
  destruct (c_fixed k); cbn [negb] in *; [apply IH; assumption|]. cbn [length] in Hlt.
  destruct (Nat.leb_spec n j); [reflexivity|]. apply IH; lia.
Qed.

Lemma export_chk_fires0 cs n : (n < length (filter (fun k => negb (c_fixed k)) cs))%nat -> export_chk cs 0 n = CFail EExportMismatch.
Proof. intros H. apply (export_chk_fires cs n H 0%nat); lia. Qed.

(* ---------- DetailedPlacer::legalize after params.check(): the model with ALL the tests = Legalizer.legalize_circuit ----------
   domain: rows of one height (any rh, also <= 0), movable cells of positive placed width, a cost model among the six
   enumerators (params.check() accepts L1 = 0 only).  Nothing about positions, heights, polarities, fixed cells. *)
Definition checks_domain (c : circuit) (rh : Z) : Prop :=
  (forall r, In r (rows c) -> row_h r = rh) /\
  (forall k, In k (movable c) -> 0 < maxX (placement_of k) - minX (placement_of k)).

Lemma std_design_checks_domain c rh : std_design c rh -> checks_domain c rh.
Proof. intros (_ & H1 & _ & _ & H2). split; [exact H1|]. intros k Hk. apply (H2 k Hk). Qed.

Lemma free_rows_height c rh : (forall r, In r (rows c) -> row_h r = rh) -> forall s, In s (free_rows c) -> row_h s = rh.
Proof.
  intros H s Hs. apply free_rows_In in Hs as (r & obs & Hr & Hs). apply freespace_rows_shape in Hs.
  specialize (H r Hr). unfold row_h in *. lia.
Qed.

Lemma leg_cells_widths c : (forall k, In k (movable c) -> 0 < maxX (placement_of k) - minX (placement_of k)) -> widths_positive (leg_cells c).
Proof.
  intros H. unfold widths_positive, leg_cells. rewrite Forall_forall. intros lc Hlc.
  apply in_map_iff in Hlc as (k & <- & Hk). cbn [leg_cell_of cw]. apply H. exact Hk.
Qed.

Theorem legalize_circuit_chk_eq costModel c order rh :
  checks_domain c rh -> 0 <= costModel <= 5 ->
  legalize_circuit_chk costModel c order = leg_result_inj (legalize_circuit c order).
Proof.
  intros (Hh & Hw) Hm. unfold legalize_circuit_chk, legalize_circuit.
  rewrite (legalize_chk_eq _ _ _ rh (free_rows_height c rh Hh) (leg_cells_widths c Hw)).
  destruct (legalize (free_rows c) (leg_cells c) order) as [pl| |]; cbn [outcome_inj leg_result_inj]; try reflexivity.
  rewrite export_chk_circuit.
  assert (Hn : norm_check costModel = CPass).
  { unfold norm_check, throw_if. destruct (Z.leb_spec 0 costModel); [|lia]. destruct (Z.leb_spec costModel 5); [reflexivity|lia]. }
  rewrite Hn. destruct (leg_cells c); reflexivity.
Qed.

(* ---------- the entry point ---------- *)
Require Import CV.CellOrder CV.CellOrderProofs CV.Params CV.ParamsProofs CV.InternalChecksEntry.

Lemma params_ok_cost_model P : check_coloquinte P = None -> lg_costModel (cp_legalization P) = 0.
Proof.
  unfold check_coloquinte, coloquinte_tests. rewrite !first_fail_app.
  destruct (first_fail (global_tests (cp_global P))); [discriminate|].
  destruct (first_fail (legalization_tests (cp_legalization P))) eqn:E; [discriminate|]. intros _.
  unfold legalization_tests in E. cbn [first_fail] in E.
  destruct (lg_costModel (cp_legalization P) =? 0) eqn:E0; [apply Z.eqb_eq in E0; exact E0|discriminate].
Qed.

(* the ONLY exceptions of DetailedPlacer::legalize (before the callback) on the domain: the parameter check, "No row present",
   "Not all cells have been placed" *)
Theorem legalize_entry_eq P c rh : checks_domain c rh ->
  legalize_entry P c = match check_coloquinte P with
                       | Some m => EnParams m
                       | None => EnRes (leg_result_inj (legalize_real (order_params_of P) c))
                       end.
Proof.
  intros D. unfold legalize_entry. destruct (check_coloquinte P) as [m|] eqn:E; [reflexivity|].
  rewrite (params_ok_cost_model P E). unfold legalize_real. f_equal. apply (legalize_circuit_chk_eq 0 c _ rh D). lia.
Qed.

(* every outcome of the entry point on the property's domain *)
Theorem legalize_entry_outcomes P c rh : std_design c rh ->
  match legalize_entry P c with
  | EnParams m => check_coloquinte P = Some m
  | EnRes (LcOk c') => check_coloquinte P = None /\ legalize_real (order_params_of P) c = LegOk c' /\ legal c' /\
                       Circuit.rows c' = Circuit.rows c /\ Forall2 same_frame (Circuit.cells c) (Circuit.cells c')
  | EnRes LcNoRow => check_coloquinte P = None /\ legalize_real (order_params_of P) c = LegNoRow
  | EnRes LcNotAllPlaced => check_coloquinte P = None /\ legalize_real (order_params_of P) c = LegNotAllPlaced
  | EnRes (LcCheck _) => False
  | EnRes LcUB => False
  end.
Proof.
  intros SD. rewrite (legalize_entry_eq P c rh (std_design_checks_domain c rh SD)).
  destruct (check_coloquinte P) as [m|]; [reflexivity|].
  destruct (legalize_real (order_params_of P) c) as [c'| |] eqn:E; cbn [leg_result_inj]; try (split; reflexivity).
  split; [reflexivity|]. split; [reflexivity|]. split; [exact (legalize_real_legal _ _ _ _ SD E)|].
  exact (legalize_real_frame _ _ _ E).
Qed.
