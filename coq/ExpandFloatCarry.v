(* C18, floating-point analysis, part 4: the missingArea carry of Circuit::expandCellsToDensity in binary64.
   The subtractions fracW - newW and missingArea - h are EXACT; the only roundings of one loop iteration are the
   product h * (fracW - newW) and the sum missingArea + product.  Carry invariant with the accumulated error.
   Proofs only. *)
From Coq Require Import ZArith Reals Psatz Lra Lia List Bool.
From Flocq Require Import Core BinarySingleNaN Sterbenz.
Require Import CV.Orient CV.FreeSpace CV.Expand CV.ExpandProofs CV.SpreadFloat CV.SpreadFloatProofs.
Require Import CV.ExpandFloat CV.ExpandFloatBase CV.ExpandFloatProofs.
Import ListNotations.
Local Open Scope R_scope.
Local Existing Instance ExpandFloatBase.prec53.
Local Existing Instance ExpandFloatBase.valid64.

(* x - h is a binary64 value when x is one, x < 2^53, and h is an integer with 0 <= h <= x *)
Lemma fmt64_minus_int : forall (x : R) (h : Z), fmt64 x -> 0 <= IZR h <= x -> x < bpow radix2 53 ->
  fmt64 (x - IZR h).
Proof.
  intros x h Fx Hh Hx.
  destruct (Req_dec (x - IZR h) 0) as [D0|D0].
  { rewrite D0. apply generic_format_0. }
  assert (Px : 0 < x) by lra.
  set (e := cexp radix2 fexp64 x).
  assert (Mx : (mag radix2 x <= 53)%Z).
  { apply mag_le_bpow; [lra|]. rewrite Rabs_pos_eq by lra. exact Hx. }
  assert (He : (e <= 0)%Z) by (unfold e, cexp, FLT_exp; lia).
  unfold fmt64, generic_format in Fx. fold e in Fx.
  set (M := Ztrunc (scaled_mantissa radix2 fexp64 x)) in Fx.
  assert (Eh : IZR h = F2R (Float radix2 (h * Zpower radix2 (- e)) e)).
  { unfold F2R. cbn [Fnum Fexp]. rewrite mult_IZR. rewrite IZR_Zpower by lia. rewrite Rmult_assoc, <- bpow_plus.
    replace (- e + e)%Z with 0%Z by lia. simpl. ring. }
  assert (Ed : x - IZR h = F2R (Float radix2 (M - h * Zpower radix2 (- e)) e)).
  { rewrite Fx at 1. rewrite Eh at 1. unfold F2R. cbn [Fnum Fexp]. rewrite minus_IZR. ring. }
  unfold fmt64. rewrite Ed. apply generic_format_F2R. intros _. rewrite <- Ed.
  assert (Md : (mag radix2 (x - IZR h) <= mag radix2 x)%Z).
  { apply mag_le_abs; [exact D0|]. rewrite !Rabs_pos_eq by lra. lra. }
  unfold e, cexp, FLT_exp. lia.
Qed.

(* fracW - newW: the fractional part of a non-negative double is computed exactly *)
Lemma frac_part_exact : forall x : R, fmt64 x -> 0 <= x -> fmt64 (x - IZR (Ztrunc x)).
Proof.
  intros x Fx Px. rewrite Ztrunc_floor by exact Px.
  pose proof (Zfloor_lb x) as L. pose proof (Zfloor_ub x) as U.
  destruct (Z.eq_dec (Zfloor x) 0) as [Z0|Z0].
  { rewrite Z0. replace (x - 0) with x by ring. exact Fx. }
  assert (P : (1 <= Zfloor x)%Z).
  { assert (0 <= Zfloor x)%Z by (apply Zfloor_lub; exact Px). lia. }
  assert (P' : 1 <= IZR (Zfloor x)) by (apply (IZR_le 1); exact P).
  apply sterbenz; auto with typeclass_instances.
  - (* the integer part of a double is a double *)
    destruct (Rlt_or_le x (bpow radix2 53)) as [Hs|Hb].
    + apply fmt64_IZR. apply Z.abs_lt. split; [lia|]. apply lt_IZR.
      change (IZR (2 ^ 53)) with (bpow radix2 53). lra.
    + (* x >= 2^53: x is an integer *)
      assert (Ex : (0 <= cexp radix2 fexp64 x)%Z).
      { unfold cexp, FLT_exp. assert (53 < mag radix2 x)%Z; [|lia].
        apply mag_gt_bpow. rewrite Rabs_pos_eq by lra. exact Hb. }
      unfold fmt64, generic_format in Fx. set (e := cexp radix2 fexp64 x) in *.
      set (M := Ztrunc (scaled_mantissa radix2 fexp64 x)) in Fx.
      assert (Ix : x = IZR (M * Zpower radix2 e)).
      { rewrite Fx at 1. unfold F2R. cbn [Fnum Fexp]. rewrite mult_IZR, IZR_Zpower by lia. reflexivity. }
      rewrite Ix at 1. rewrite Zfloor_IZR. rewrite <- Ix. exact Fx.
  - lra.
Qed.

Lemma bpow_m53 : bpow radix2 (-53) = / 9007199254740992. Proof. reflexivity. Qed.
Lemma bpow_31 : bpow radix2 31 = 2147483648. Proof. reflexivity. Qed.
Lemma bpow_33 : bpow radix2 33 = 8589934592. Proof. reflexivity. Qed.
Lemma bpow_m20 : bpow radix2 (-20) = / 1048576. Proof. reflexivity. Qed.
Lemma bpow_m30 : bpow radix2 (-30) = / 1073741824. Proof. reflexivity. Qed.
Lemma eta_small : 0 < bpow radix2 (-1075) <= bpow radix2 (-30).
Proof. split; [apply bpow_gt_0|apply bpow_le; lia]. Qed.

Lemma abs31 : forall z : Z, (0 <= z < 2 ^ 31)%Z -> (Z.abs z < 2 ^ 53)%Z.
Proof. intros z Hz. apply Z.abs_lt. split; [lia|]. eapply Z.lt_le_trans; [apply Hz|]. apply Z.pow_le_mono_r; lia. Qed.

Lemma IZR31 : forall z : Z, (0 <= z < 2 ^ 31)%Z -> 0 <= IZR z < bpow radix2 31.
Proof.
  intros z Hz. split; [apply IZR_le; lia|]. change (bpow radix2 31) with (IZR (2 ^ 31)). apply IZR_lt. lia.
Qed.

(* missingArea += h * (fracW - newW): two roundings, absolute error at most 2^-20 *)
Lemma carry_in_f_spec : forall (m : f64) (h : Z) (fw : f64),
  is_finite m = true -> is_finite fw = true -> (1 <= h < 2 ^ 31)%Z ->
  0 <= B2R m <= bpow radix2 31 -> 0 <= B2R fw < bpow radix2 31 ->
  is_finite (carry_in_f m h fw) = true /\
  0 <= B2R (carry_in_f m h fw) <= bpow radix2 33 /\
  Rabs (B2R (carry_in_f m h fw) - (B2R m + IZR h * (B2R fw - IZR (Ztrunc (B2R fw))))) <= bpow radix2 (-20).
Proof.
  intros m h fw Fm Ff Hh Hm Hf.
  set (n := Ztrunc (B2R fw)).
  assert (Nf : IZR n <= B2R fw < IZR n + 1).
  { unfold n. rewrite Ztrunc_floor by lra. split; [apply Zfloor_lb|apply Zfloor_ub]. }
  assert (Nn : (0 <= n < 2 ^ 31)%Z).
  { split.
    - unfold n. rewrite Ztrunc_floor by lra. apply Zfloor_lub. lra.
    - apply lt_IZR. change (IZR (2 ^ 31)) with (bpow radix2 31). lra. }
  destruct (d_of_Z_exact n (abs31 n Nn)) as [N1 N2].
  destruct (d_of_Z_exact h (abs31 h ltac:(lia))) as [H1 H2].
  pose proof (IZR31 h ltac:(lia)) as Rh. assert (Rh1 : 1 <= IZR h) by (apply (IZR_le 1); lia).
  rewrite bpow_31 in *.
  (* fracW - newW, exact *)
  destruct (dsub_correct fw (d_of_Z n) Ff N2) as [S1 S2].
  { rewrite N1, Rabs_pos_eq by lra. apply Rle_trans with (bpow radix2 0); [simpl; lra|apply bpow_le; lia]. }
  rewrite N1 in S1. rewrite rnd64_id in S1 by (apply frac_part_exact; [apply B2R_fmt64|lra]).
  set (fr := B2R fw - IZR n) in *. assert (Rf : 0 <= fr < 1) by (unfold fr; lra).
  set (q := IZR h * fr). assert (Rq : 0 <= q <= IZR h) by (unfold q; nra).
  (* h * (fracW - newW) *)
  destruct (dmul_correct (d_of_Z h) _ H2 S2) as [M1 M2].
  { rewrite H1, S1. fold q. rewrite Rabs_pos_eq by lra.
    apply Rle_trans with (bpow radix2 31); [rewrite bpow_31; lra|apply bpow_le; lia]. }
  rewrite H1, S1 in M1. fold q in M1.
  set (p := B2R (dmul (d_of_Z h) (dsub fw (d_of_Z n)))) in *.
  assert (Rp : 0 <= p <= IZR h).
  { rewrite M1. split; [apply rnd64_nonneg; lra|apply rnd64_le_fmt; [apply fmt64_IZR; apply abs31; lia|lra]]. }
  pose proof (rnd64_err q) as E1. rewrite <- M1 in E1. rewrite (Rabs_pos_eq q) in E1 by lra.
  (* missingArea + ... *)
  destruct (dadd_correct m _ Fm M2) as [A1 A2].
  { fold p. rewrite Rabs_pos_eq by lra. apply Rle_trans with (bpow radix2 33); [rewrite bpow_33; lra|apply bpow_le; lia]. }
  fold p in A1.
  pose proof (rnd64_err (B2R m + p)) as E2. rewrite <- A1 in E2. rewrite (Rabs_pos_eq (B2R m + p)) in E2 by lra.
  unfold carry_in_f. rewrite Btrunc_Ztrunc. fold n. split; [exact A2|].
  set (m1 := B2R (dadd m (dmul (d_of_Z h) (dsub fw (d_of_Z n))))) in *.
  split.
  - rewrite A1. split; [apply rnd64_nonneg; lra|apply rnd64_le_fmt; [apply fmt64_bpow; lia|rewrite bpow_33; lra]].
  - apply abs_le_inv in E1. apply abs_le_inv in E2. destruct eta_small as [Eta0 Eta].
    rewrite bpow_m53 in E1, E2. rewrite bpow_m30 in Eta. rewrite bpow_m20.
    apply Rabs_le. fold q. lra.
Qed.

(* while (missingArea >= h) { ++newW; missingArea -= h; }: every subtraction is exact *)
Lemma carry_loop_f_spec : forall fuel (h w : Z) (m : f64) w' m', (1 <= h < 2 ^ 31)%Z ->
  is_finite m = true -> 0 <= B2R m < bpow radix2 53 ->
  carry_loop_f fuel h w m = Some (w', m') ->
  is_finite m' = true /\ 0 <= B2R m' < IZR h /\ B2R m' <= B2R m /\
  IZR h * IZR w' + B2R m' = IZR h * IZR w + B2R m.
Proof.
  induction fuel as [|fuel IH]; intros h w m w' m' Hh Fm Hm H; cbn [carry_loop_f] in H;
    destruct (d_of_Z_exact h (abs31 h ltac:(lia))) as [H1 H2];
    destruct (Bleb (d_of_Z h) m) eqn:B; try discriminate H.
  - pose proof (dleb_false_gt _ _ H2 Fm B) as L. rewrite H1 in L. inversion H; subst.
    split; [exact Fm|]. split; [lra|]. split; lra.
  - pose proof (dleb_le _ _ H2 Fm B) as L. rewrite H1 in L.
    assert (Rh1 : 1 <= IZR h) by (apply (IZR_le 1); lia).
    destruct (dsub_correct m (d_of_Z h) Fm H2) as [S1 S2].
    { rewrite H1, Rabs_pos_eq by lra. apply Rle_trans with (bpow radix2 53); [lra|apply bpow_le; lia]. }
    rewrite H1 in S1. rewrite rnd64_id in S1 by (apply fmt64_minus_int; [apply B2R_fmt64|lra|lra]).
    destruct (IH h (w + 1)%Z _ w' m' Hh S2 ltac:(rewrite S1; lra) H) as [F' [R' [L' E']]].
    split; [exact F'|]. split; [exact R'|]. split; [lra|]. rewrite E', S1, plus_IZR. ring.
  - pose proof (dleb_false_gt _ _ H2 Fm B) as L. rewrite H1 in L. inversion H; subst.
    split; [exact Fm|]. split; [lra|]. split; lra.
Qed.

(* the (int) conversion of fracW is defined: the capped product is finite and in [0, 2^31) *)
Definition fw_ok (f cap : f64) (k : ecell) : Prop :=
  processed k = true ->
  is_finite (frac_width_f f cap k) = true /\ 0 <= B2R (frac_width_f f cap k) < bpow radix2 31.

(* one loop iteration on a processed cell: the carry invariant with an error of at most 2^-20 area units *)
Lemma expand_cell_f_spec : forall f cap k (m : f64) k' m',
  processed k = true -> (e_h k < 2 ^ 31)%Z ->
  is_finite m = true -> 0 <= B2R m <= bpow radix2 31 -> fw_ok f cap k ->
  expand_cell_f f cap k m = Some (k', m') ->
  k' = set_w k (e_w k') /\ is_finite m' = true /\ 0 <= B2R m' < IZR (e_h k) /\
  Rabs (IZR (e_h k) * IZR (e_w k') + B2R m' - (IZR (e_h k) * B2R (frac_width_f f cap k) + B2R m))
    <= bpow radix2 (-20).
Proof.
  intros f cap k m k' m' P Hh Fm Hm Ok H. destruct (Ok P) as [Ff Hf].
  destruct (processed_spec k P) as [_ [Ph _]].
  unfold expand_cell_f in H. rewrite P in H.
  set (fw := frac_width_f f cap k) in *.
  destruct (carry_in_f_spec m (e_h k) fw Fm Ff ltac:(lia) Hm Hf) as [F1 [R1 E1]].
  destruct (carry_loop_f _ _ _ _) as [[w' m2]|] eqn:L; [|discriminate H]. inversion H; subst k' m'.
  cbn [set_w e_w e_h]. rewrite (Btrunc_Ztrunc fw) in L.
  assert (R53 : 0 <= B2R (carry_in_f m (e_h k) fw) < bpow radix2 53).
  { split; [apply R1|]. eapply Rle_lt_trans; [apply R1|]. apply bpow_lt. lia. }
  assert (Hh' : (1 <= e_h k < 2 ^ 31)%Z) by lia.
  destruct (carry_loop_f_spec _ _ _ _ _ _ Hh' F1 R53 L) as [F2 [R2 [_ E2]]].
  split; [reflexivity|]. split; [exact F2|]. split; [exact R2|].
  rewrite E2.
  match goal with |- Rabs ?a <= _ =>
    replace a with (B2R (carry_in_f m (e_h k) fw) - (B2R m + IZR (e_h k) * (B2R fw - IZR (Ztrunc (B2R fw))))) by ring
  end.
  exact E1.
Qed.

(* ------------------------------------------------------------------ the whole loop *)
Definition frac_area_f (f cap : f64) (k : ecell) : R :=
  if processed k then IZR (e_h k) * B2R (frac_width_f f cap k) else IZR (marea1 k).
Fixpoint rsum (l : list R) : R := match l with [] => 0 | x :: t => x + rsum t end.
Definition nproc (cells : list ecell) : nat := length (filter processed cells).

Lemma expand_cells_f_inv : forall f cap (H : Z), (H <= 2 ^ 31)%Z -> forall cells (m : f64) cells' m',
  int_sizes cells -> Forall (fw_ok f cap) cells -> Forall (fun k => (e_h k <= H)%Z) cells ->
  is_finite m = true -> 0 <= B2R m < IZR H ->
  expand_cells_f f cap cells m = Some (cells', m') ->
  is_finite m' = true /\ 0 <= B2R m' < IZR H /\
  Rabs (IZR (movable_area cells') + B2R m' - (rsum (map (frac_area_f f cap) cells) + B2R m))
    <= INR (nproc cells) * bpow radix2 (-20).
Proof.
  intros f cap H HH. induction cells as [|k r IH]; intros m cells' m' Hs Ok Hb Fm Hm E; cbn [expand_cells_f] in E.
  - inversion E; subst. split; [exact Fm|]. split; [exact Hm|]. cbn.
    replace (0 + B2R m' - (0 + B2R m')) with 0 by ring. rewrite Rabs_R0. lra.
  - destruct (expand_cell_f f cap k m) as [[k1 m1]|] eqn:E1; [|discriminate E].
    destruct (expand_cells_f f cap r m1) as [[r1 m2]|] eqn:E2; [|discriminate E].
    inversion E; subst cells' m'. inversion Hs as [|? ? [Hw Hh] Hs']; subst. inversion Ok; subst. inversion Hb; subst.
    assert (H31 : IZR H <= bpow radix2 31).
    { change (bpow radix2 31) with (IZR (2 ^ 31)). apply IZR_le. exact HH. }
    rewrite movable_area_cons, plus_IZR. cbn [map rsum].
    destruct (processed k) eqn:P.
    + destruct (expand_cell_f_spec f cap k m k1 m1 P ltac:(lia) Fm ltac:(lra) ltac:(assumption) E1) as [K1 [F1 [R1 A1]]].
      assert (R1' : 0 <= B2R m1 < IZR H).
      { split; [apply R1|]. eapply Rlt_le_trans; [apply R1|]. apply IZR_le. assumption. }
      destruct (IH m1 r1 m2 Hs' ltac:(assumption) ltac:(assumption) F1 R1' E2) as [F2 [R2 A2]].
      split; [exact F2|]. split; [exact R2|].
      destruct (processed_spec k P) as [Nf _].
      assert (Ma : IZR (marea1 k1) = IZR (e_h k) * IZR (e_w k1)).
      { rewrite K1. unfold marea1, cell_area. cbn [set_w e_fixed e_w e_h]. rewrite Nf, mult_IZR. ring. }
      unfold nproc. cbn [filter]. rewrite P. cbn [length]. fold (nproc r). rewrite S_INR.
      unfold frac_area_f at 1. rewrite P. rewrite Ma.
      replace (IZR (e_h k) * IZR (e_w k1) + IZR (movable_area r1) + B2R m2 -
               (IZR (e_h k) * B2R (frac_width_f f cap k) + rsum (map (frac_area_f f cap) r) + B2R m))
        with ((IZR (e_h k) * IZR (e_w k1) + B2R m1 - (IZR (e_h k) * B2R (frac_width_f f cap k) + B2R m)) +
              (IZR (movable_area r1) + B2R m2 - (rsum (map (frac_area_f f cap) r) + B2R m1))) by ring.
      eapply Rle_trans; [apply Rabs_triang|]. lra.
    + rewrite (expand_cell_f_unprocessed f cap k m P) in E1. inversion E1; subst k1 m1.
      destruct (IH m r1 m2 Hs' ltac:(assumption) ltac:(assumption) Fm Hm E2) as [F2 [R2 A2]].
      split; [exact F2|]. split; [exact R2|].
      unfold nproc. cbn [filter]. rewrite P. fold (nproc r).
      unfold frac_area_f at 1. rewrite P.
      replace (IZR (marea1 k) + IZR (movable_area r1) + B2R m2 -
               (IZR (marea1 k) + rsum (map (frac_area_f f cap) r) + B2R m))
        with (IZR (movable_area r1) + B2R m2 - (rsum (map (frac_area_f f cap) r) + B2R m)) by ring.
      exact A2.
Qed.
