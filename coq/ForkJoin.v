(* C08 -- fork/join of two tasks over a shared store (definitions only; proofs in
   ForkJoinProofs.v).

   What is modelled: the shape of GlobalPlacer::runLB (src/place_global/place_global.cpp,
   "Solve the continuous model (x and y independently)"): two tasks are started with
   std::async, run concurrently, and are joined.  A task is a list of atomic actions on a
   store of named locations.  The store stands for every object two threads could share
   (data members of the GlobalPlacer, its two NetModel objects, locals of runLB that are
   passed by reference, static/global objects of the library); what a task holds privately
   (the decay-copied std::async arguments, its stack, its result slot) is the task's LOG.

   * [Read l]     : the task loads location l; the value is appended to its log.
   * [Write l f]  : the task stores [f log] into l -- the written value may depend on
                    everything the task has read so far, in any way ([f] is arbitrary).
   The per-task RESULT is the final log: every value the task ever computes (in particular
   the vector returned through the future) is a function of it.

   The summary of the real code (which locations each std::async task may read / write) is
   NOT written here: it is generated from the C++ source by tools/effects.py into
   Effects_gen.v on every run of ./check C08 (trusted translator), as a [summary] value of
   the record type below; [fp_first]/[fp_second] turn the extracted facts into footprints. *)
From Coq Require Import List Bool String.
Import ListNotations.
Local Open Scope string_scope.

Section Generic.
  Variable Loc : Type.
  Variable Val : Type.

  Inductive action :=
  | Read (l : Loc)
  | Write (l : Loc) (f : list Val -> Val).

  Definition task := list action.

  (* shared store, log of the first task, log of the second task *)
  Record state := { st : Loc -> Val; lg1 : list Val; lg2 : list Val }.

  Variable loc_eqb : Loc -> Loc -> bool.

  Definition upd (s : Loc -> Val) (l : Loc) (v : Val) : Loc -> Val :=
    fun l' => if loc_eqb l l' then v else s l'.

  (* one atomic step of task [tid] (true = first task, false = second task) *)
  Definition step (tid : bool) (a : action) (c : state) : state :=
    match a with
    | Read l =>
        if tid then {| st := st c; lg1 := lg1 c ++ [st c l]; lg2 := lg2 c |}
        else {| st := st c; lg1 := lg1 c; lg2 := lg2 c ++ [st c l] |}
    | Write l f =>
        {| st := upd (st c) l (f (if tid then lg1 c else lg2 c)); lg1 := lg1 c; lg2 := lg2 c |}
    end.

  (* a global execution = a list of (thread id, action), executed left to right *)
  Fixpoint exec (m : list (bool * action)) (c : state) : state :=
    match m with
    | [] => c
    | (tid, a) :: m' => exec m' (step tid a c)
    end.

  Definition tag (tid : bool) (t : task) : list (bool * action) := map (fun a => (tid, a)) t.

  (* [interleaving t1 t2 m]: m is a merge of t1 (tagged true) and t2 (tagged false) that keeps
     the program order of each task: the set of all schedules of the two tasks *)
  Inductive interleaving : task -> task -> list (bool * action) -> Prop :=
  | il_nil : interleaving [] [] []
  | il_first : forall a t1 t2 m, interleaving t1 t2 m -> interleaving (a :: t1) t2 ((true, a) :: m)
  | il_second : forall a t1 t2 m, interleaving t1 t2 m -> interleaving t1 (a :: t2) ((false, a) :: m).

  (* observable equality of two final configurations: same store (location by location), same
     result of the first task, same result of the second task *)
  Definition same (c d : state) : Prop :=
    (forall l, st c l = st d l) /\ lg1 c = lg1 d /\ lg2 c = lg2 d.

  (* footprints *)
  Definition reads_of (t : task) : list Loc :=
    flat_map (fun a => match a with Read l => [l] | Write _ _ => [] end) t.
  Definition writes_of (t : task) : list Loc :=
    flat_map (fun a => match a with Read _ => [] | Write l _ => [l] end) t.

  Definition memb (l : Loc) (ls : list Loc) : bool := existsb (loc_eqb l) ls.
  Definition disjointb (xs ys : list Loc) : bool := forallb (fun x => negb (memb x ys)) xs.
  Definition subsetb (xs ys : list Loc) : bool := forallb (fun x => memb x ys) xs.

  Record footprint := { fp_reads : list Loc; fp_writes : list Loc }.

  (* a task stays inside a footprint *)
  Definition conforms (t : task) (f : footprint) : Prop :=
    subsetb (reads_of t) (fp_reads f) = true /\ subsetb (writes_of t) (fp_writes f) = true.

  (* Bernstein's conditions: what one task writes, the other neither reads nor writes *)
  Definition footprints_disjoint2 (f g : footprint) : bool :=
    disjointb (fp_writes f) (fp_reads g ++ fp_writes g) &&
    disjointb (fp_writes g) (fp_reads f ++ fp_writes f).
End Generic.

Arguments Read {Loc Val}.
Arguments Write {Loc Val}.
Arguments st {Loc Val}.
Arguments lg1 {Loc Val}.
Arguments lg2 {Loc Val}.
Arguments Build_state {Loc Val}.
Arguments il_nil {Loc Val}.
Arguments il_first {Loc Val}.
Arguments il_second {Loc Val}.
Arguments fp_reads {Loc}.
Arguments fp_writes {Loc}.
Arguments Build_footprint {Loc}.
Arguments same {Loc Val}.
Arguments interleaving {Loc Val}.
Arguments tag {Loc Val}.
Arguments conforms {Loc Val}.

(* ------------------------------------------------------------------------------------------
   The generated effect summary (type of Effects_gen.effects).  Locations are names. *)

(* one std::async(std::launch::async, &C::m, &obj, args...) call as read off the AST of runLB *)
Record async_call := {
  ac_future : string;              (* name of the std::future variable                                *)
  ac_callee : string;              (* qualified name of the member function run by the task            *)
  ac_callee_const : bool;          (* the callee is a const member function                            *)
  ac_class_mutable : list string;  (* `mutable` data members of the callee's class (writable in const) *)
  ac_object : string;              (* the object the callee is invoked on, e.g. "this->xtopo_"         *)
  ac_byvalue : list string;        (* arguments decay-copied into the task (private to it)             *)
  ac_byref_const : list string;    (* locations handed over as std::cref / pointer to const            *)
  ac_byref_mut : list string;      (* locations handed over as std::ref / pointer to non-const         *)
  ac_result_target : string        (* where the main thread stores fut.get(), e.g. "this->xPlacementLB_" *)
}.

Record summary := {
  sm_function : string;            (* the function containing the fork/join                            *)
  sm_policy_async : bool;          (* both calls use std::launch::async (informative: not needed below) *)
  sm_first : async_call;           (* the call whose future is joined first                            *)
  sm_second : async_call;
  (* what the main thread reads to build the decay-copies of the SECOND launch: the first task is
     already running at that point, so these reads are concurrent with it (they are sequenced before
     the second task and are charged to the second thread) *)
  sm_second_launch_reads : list string;
  (* main-thread accesses between the two joins, i.e. while the second task may still run *)
  sm_between_reads : list string;
  sm_between_writes : list string;
  (* main-thread accesses between the launches and the first join (both tasks may still run) *)
  sm_early_reads : list string;
  sm_early_writes : list string;
  sm_joined_before_use : bool;     (* no statement reads a result target before its future was joined;
                                      both futures are joined before the function goes on            *)
  (* static / thread_local / namespace-scope non-const objects found anywhere in src/ that are not
     on the translator's explained list: any code may touch them, so BOTH tasks are charged with
     reading and writing each of them *)
  sm_globals : list string
}.

Definition priv (c : async_call) (what : string) : string :=
  "task(" ++ ac_future c ++ ")." ++ what.

(* what one task may touch: it reads its object, the const-referenced locations and the
   globals; it writes its own result slot, the mutable-referenced locations, the globals, and
   its object unless the callee is a const member function of a class without mutable members *)
Definition fp_call (globals : list string) (c : async_call) : footprint string :=
  {| fp_reads := ac_object c :: ac_byref_const c ++ ac_byref_mut c ++ globals;
     fp_writes := priv c "result" :: ac_byref_mut c ++ globals ++
                  (if ac_callee_const c && match ac_class_mutable c with [] => true | _ => false end
                   then [] else [ac_object c]) |}.

(* first "thread" = the task joined first, followed by what the main thread does between the
   two joins (sequenced after that task by the join, concurrent with the other task).  Other
   main-thread accesses BEFORE the first join (statements between the two launches or between the
   second launch and the first join) would be concurrent with both tasks: a third thread, which the
   two-task theorem does not cover; [summary_ok] therefore demands that there are none. *)
Definition fp_first (s : summary) : footprint string :=
  let f := fp_call (sm_globals s) (sm_first s) in
  {| fp_reads := fp_reads f ++ priv (sm_first s) "result" :: sm_between_reads s;
     fp_writes := fp_writes f ++ sm_between_writes s |}.

(* second "thread" = the main thread's evaluation of the second launch's arguments, followed by the
   second task *)
Definition fp_second (s : summary) : footprint string :=
  let f := fp_call (sm_globals s) (sm_second s) in
  {| fp_reads := sm_second_launch_reads s ++ fp_reads f; fp_writes := fp_writes f |}.

Definition footprints_disjoint (s : summary) : bool :=
  footprints_disjoint2 string String.eqb (fp_first s) (fp_second s).

Definition is_nil {A} (l : list A) : bool := match l with [] => true | _ => false end.

(* everything Properties_C08 demands of the generated summary *)
Definition summary_ok (s : summary) : bool :=
  footprints_disjoint s && sm_joined_before_use s &&
  is_nil (sm_early_reads s) && is_nil (sm_early_writes s) &&
  negb (String.eqb (ac_object (sm_first s)) (ac_object (sm_second s))) &&
  negb (String.eqb (ac_result_target (sm_first s)) (ac_result_target (sm_second s))) &&
  negb (String.eqb (ac_future (sm_first s)) (ac_future (sm_second s))).
