(* C06 -- proofs about the composed model GlobalCompose.v: the exposed upper bound of EVERY circuit with a proper row
   keeps the centre of every movable cell inside the rows' bounding box (up to the half unit std::round forces for odd
   sizes), the returned placement is the blend up to the stated roundings, the loop of GlobalPlacer::run exposes only such
   placements and makes at most maxNbSteps - nbInitialSteps iterations.
   Every lemma is closed by Qed; the real-number axioms of the standard library are inherited through Flocq. *)
From Coq Require Import ZArith Reals Psatz Lra Lia List Bool Permutation Sorted.
From Flocq Require Import Core BinarySingleNaN.
Require Import CV.Orient CV.FreeSpace CV.Spread CV.SpreadProofs CV.SpreadFloat CV.SpreadFloatProofs CV.GlobalCompose.
Import ListNotations.

(* ================================================================== 1. limits, views *)
Section Lists.
Local Open Scope Z_scope.

Lemma limits_ok_tail : forall L H a l, limits_ok L H (a :: l) -> limits_ok L H l.
Proof.
  intros L H a l Hl i j x y Hij Hi Hj. apply (Hl (S i) (S j) x y); [lia|exact Hi|exact Hj].
Qed.

Lemma limits_ok_sorted : forall L H l, limits_ok L H l -> StronglySorted Z.lt l.
Proof.
  intros L H l. induction l as [|a l IH]; intros Hl; constructor.
  - apply IH. eapply limits_ok_tail; exact Hl.
  - apply Forall_forall. intros x Hx. destruct (In_nth_error _ _ Hx) as [n Hn].
    destruct (Hl 0%nat (S n) a x) as [_ [H1 _]]; [lia|reflexivity|exact Hn|exact H1].
Qed.

Lemma limits_ok_bounds : forall L H l, limits_ok L H l -> (2 <= length l)%nat -> Forall (fun x => L <= x <= H) l.
Proof.
  intros L H l Hl Hlen. apply Forall_forall. intros x Hx. destruct (In_nth_error _ _ Hx) as [n Hn].
  destruct n as [|n].
  - destruct l as [|a [|b l]]; simpl in Hlen; try lia. simpl in Hn. inversion Hn; subst a.
    destruct (Hl 0%nat 1%nat x b) as [H1 [H2 H3]]; [lia|reflexivity|reflexivity|lia].
  - destruct l as [|a l]; [discriminate|]. simpl in Hn.
    destruct (Hl 0%nat (S n) a x) as [H1 [H2 H3]]; [lia|reflexivity|exact Hn|lia].
Qed.

Lemma subseqb_In : forall fine v, subseqb fine v = true -> forall a, In a v -> In a fine.
Proof.
  induction fine as [|b fine IH]; intros v Hs a Ha.
  - destruct v; [destruct Ha|discriminate].
  - destruct v as [|a0 v]; [destruct Ha|]. simpl in Hs.
    destruct (a0 =? b) eqn:E.
    + apply Z.eqb_eq in E. subst a0. destruct Ha as [<-|Ha]; [left; reflexivity|right; eapply IH; eauto].
    + right. eapply IH; eauto.
Qed.

Lemma subseqb_sorted : forall fine v, subseqb fine v = true -> StronglySorted Z.lt fine -> StronglySorted Z.lt v.
Proof.
  induction fine as [|b fine IH]; intros v Hs Hf.
  - destruct v; [constructor|discriminate].
  - destruct v as [|a0 v]; [constructor|]. simpl in Hs. inversion Hf as [|? ? Hf' Hb]; subst.
    destruct (a0 =? b) eqn:E.
    + apply Z.eqb_eq in E. subst a0. constructor; [apply IH; assumption|].
      apply Forall_forall. intros x Hx. rewrite Forall_forall in Hb. apply Hb. eapply subseqb_In; eauto.
    + apply IH; assumption.
Qed.

Lemma pairs_sorted : forall (l : list Z) lo hi, StronglySorted Z.lt l -> In (lo, hi) (pairs l) ->
  lo < hi /\ In lo l /\ In hi l.
Proof.
  unfold pairs. induction l as [|a l IH]; intros lo hi Hs Hin; [destruct Hin|].
  destruct l as [|b l]; [destruct Hin|]. cbn [tl combine] in Hin. inversion Hs as [|? ? Hs' Ha]; subst.
  destruct Hin as [E|Hin].
  - inversion E; subst. inversion Ha; subst. split; [assumption|]. split; [left; reflexivity|right; left; reflexivity].
  - destruct (IH lo hi Hs' Hin) as [H1 [H2 H3]]. split; [exact H1|]. split; right; assumption.
Qed.

(* the limits of a view lie between the same bounds as the finest ones, each bin is a proper interval *)
Lemma view_pairs_inside : forall L H fine v lo hi, limits_ok L H fine -> (2 <= length fine)%nat ->
  subseqb fine v = true -> In (lo, hi) (pairs v) -> L <= lo /\ lo < hi /\ hi <= H.
Proof.
  intros L H fine v lo hi Hl Hlen Hs Hin.
  pose proof (limits_ok_sorted _ _ _ Hl) as Sf.
  pose proof (subseqb_sorted _ _ Hs Sf) as Sv.
  destruct (pairs_sorted _ _ _ Sv Hin) as [H1 [H2 H3]].
  pose proof (limits_ok_bounds _ _ _ Hl Hlen) as B. rewrite Forall_forall in B.
  pose proof (B lo (subseqb_In _ _ Hs _ H2)). pose proof (B hi (subseqb_In _ _ Hs _ H3)). lia.
Qed.

Lemma limits_length : forall mn mx ms, (2 <= length (limits mn mx ms))%nat.
Proof. intros. unfold limits, subdivisions. rewrite map_length, seq_length. unfold nb_bins. lia. Qed.

End Lists.

(* ================================================================== 2. the bins of a view *)
Section Bins.
Local Open Scope Z_scope.

Lemma bins_x_in : forall v b, In b (bins_x v) ->
  In (b_lo b, b_hi b) (pairs (v_x v)) /\ exists col, In col (v_cells v) /\ In (b_cells b) col.
Proof.
  intros v b Hb. unfold bins_x in Hb. apply in_concat in Hb. destruct Hb as [l [Hl Hb]].
  apply in_map_iff in Hl. destruct Hl as [[[lo hi] col] [El Hpc]]. subst l. cbn [fst snd] in Hb.
  apply in_map_iff in Hb. destruct Hb as [cs [Eb Hcs]]. subst b. cbn [b_lo b_hi b_cells].
  split; [eapply in_combine_l; exact Hpc|]. exists col. split; [eapply in_combine_r; exact Hpc|exact Hcs].
Qed.

Lemma bins_y_in : forall v b, In b (bins_y v) ->
  In (b_lo b, b_hi b) (pairs (v_y v)) /\ exists col, In col (v_cells v) /\ In (b_cells b) col.
Proof.
  intros v b Hb. unfold bins_y in Hb. apply in_concat in Hb. destruct Hb as [l [Hl Hb]].
  apply in_map_iff in Hl. destruct Hl as [col [El Hcol]]. subst l.
  apply in_map_iff in Hb. destruct Hb as [[[lo hi] cs] [Eb Hqc]]. subst b. cbn [b_lo b_hi b_cells fst snd].
  split; [eapply in_combine_l; exact Hqc|]. exists col. split; [exact Hcol|eapply in_combine_r; exact Hqc].
Qed.

Lemma bin_cell_in_view : forall v col cs c, In col (v_cells v) -> In cs col -> In c cs -> In c (view_cells v).
Proof.
  intros v col cs c H1 H2 H3. unfold view_cells. apply in_concat. exists cs. split; [|exact H3].
  apply in_concat. exists col. split; assumption.
Qed.

End Bins.

(* ================================================================== 3. repaired spreadCells in binary32: every cell of
   positive demand IS written, with a finite value of [lo, hi] (the half that c06_spread_cells_float_clamped_entries_partial
   leaves open) *)
Section SpreadAll.
Local Open Scope R_scope.

Definition fin_in (lo hi : R) (v : f32) : Prop := is_finite v = true /\ lo <= B2R v <= hi.

Lemma fin_in_weaken : forall lo hi lo' hi' v, lo' <= lo -> hi <= hi' -> fin_in lo hi v -> fin_in lo' hi' v.
Proof. intros lo hi lo' hi' v H1 H2 [F [A B]]. split; [exact F|lra]. Qed.

Lemma fset_nth_length : forall l c v, length (fset_nth c v l) = length l.
Proof. induction l as [|h t IH]; intros c v; destruct c; simpl; auto. Qed.

Lemma fset_nth_same : forall l c v d, (c < length l)%nat -> nth c (fset_nth c v l) d = v.
Proof. induction l as [|h t IH]; intros c v d H; destruct c; simpl in *; try lia; auto. apply IH. lia. Qed.

Lemma fset_nth_other : forall l c c' v d, c <> c' -> nth c' (fset_nth c v l) d = nth c' l d.
Proof.
  induction l as [|h t IH]; intros c c' v d H; destruct c; destruct c'; simpl; auto; try congruence.
Qed.

Lemma finsert_key_perm : forall k l, Permutation (finsert_key k l) (k :: l).
Proof.
  intros k l. induction l as [|h t IH]; simpl; [apply Permutation_refl|].
  destruct (fkey_ltb h k); [|apply Permutation_refl].
  eapply Permutation_trans; [apply perm_skip; exact IH|apply perm_swap].
Qed.

Lemma fsort_keys_perm : forall l, Permutation (fsort_keys l) l.
Proof.
  induction l as [|k l IH]; simpl; [constructor|].
  eapply Permutation_trans; [apply finsert_key_perm|apply perm_skip; exact IH].
Qed.

Lemma map_snd_combine_seq : forall (A : Type) (l : list A) s, map snd (combine l (seq s (length l))) = seq s (length l).
Proof. induction l as [|a l IH]; intros s; simpl; [reflexivity|]. rewrite IH. reflexivity. Qed.

Lemma fsort_order_indices : forall targets c, (c < length targets)%nat ->
  In c (map snd (fsort_keys (fmk_order targets))).
Proof.
  intros targets c Hc.
  apply (Permutation_in c (Permutation_sym (Permutation_map snd (fsort_keys_perm (fmk_order targets))))).
  unfold fmk_order. rewrite map_snd_combine_seq. apply in_seq. lia.
Qed.

Lemma spread_step_f_length : forall cl demands inv lo hi st k,
  length (snd (spread_step_f cl demands inv lo hi st k)) = length (snd st).
Proof.
  intros. unfold spread_step_f. destruct (nth_error demands (snd k)); [|reflexivity].
  destruct (Bleb f fzero); [reflexivity|]. cbn [snd]. apply fset_nth_length.
Qed.

(* the loop, from any state: an index that is visited, or that was good before, is good afterwards *)
Lemma spread_fold_written : forall demands inv lo hi,
  is_finite lo = true -> is_finite hi = true -> B2R lo <= B2R hi ->
  (forall d, In d demands -> Bleb d fzero = false) ->
  forall l st c, length (snd st) = length demands -> (c < length demands)%nat ->
    (In c (map snd l) \/ fin_in (B2R lo) (B2R hi) (nth c (snd st) fzero)) ->
    fin_in (B2R lo) (B2R hi) (nth c (snd (fold_left (spread_step_f true demands inv lo hi) l st)) fzero).
Proof.
  intros demands inv lo hi Fl Fh Hle Hpos. induction l as [|k l IH]; intros st c Hlen Hc Hor.
  - simpl. destruct Hor as [[]|H]. exact H.
  - cbn [fold_left]. apply IH; [rewrite spread_step_f_length; exact Hlen|exact Hc|].
    destruct (Nat.eq_dec (snd k) c) as [E|NE].
    + right. unfold spread_step_f. cbv zeta. rewrite E. unfold f32, fkey in *.
      destruct (nth_error demands c) as [cur|] eqn:Ed; [|apply nth_error_None in Ed; lia].
      rewrite (Hpos cur (nth_error_In _ _ Ed)). cbn [snd].
      rewrite fset_nth_same by (unfold f32 in *; lia). apply spread_expr_clamped_f_inside; assumption.
    + destruct Hor as [[E|Hin]|Hg]; [congruence|left; exact Hin|].
      right. unfold spread_step_f. cbv zeta. unfold f32, fkey in *. destruct (nth_error demands (snd k)) as [cur|]; [|exact Hg].
      destruct (Bleb cur fzero); [exact Hg|]. cbn [snd]. rewrite fset_nth_other by exact NE. exact Hg.
Qed.

Lemma spread_cells_f_length : forall cl targets demands lo hi,
  length (spread_cells_f cl targets demands lo hi) = length targets.
Proof.
  intros. unfold spread_cells_f, spread_cells_state_f.
  set (order := fsort_keys (fmk_order targets)). set (inv := fdiv fone (fsum demands)).
  assert (G : forall l st, length (snd (fold_left (spread_step_f cl demands inv lo hi) l st)) = length (snd st)).
  { induction l as [|k l IH]; intros st; [reflexivity|]. simpl. rewrite IH. apply spread_step_f_length. }
  rewrite G. cbn [snd]. apply repeat_length.
Qed.

(* [F] repaired spreadCells, all demands positive (as floats), any targets: every entry finite and inside [lo, hi] *)
Lemma spread_cells_f_all_inside : forall targets demands lo hi,
  length demands = length targets ->
  is_finite lo = true -> is_finite hi = true -> B2R lo <= B2R hi ->
  (forall d, In d demands -> Bleb d fzero = false) ->
  Forall (fin_in (B2R lo) (B2R hi)) (spread_cells_f true targets demands lo hi).
Proof.
  intros targets demands lo hi Hlen Fl Fh Hle Hpos.
  apply Forall_forall. intros x Hx. destruct (In_nth _ _ fzero Hx) as [c [Hc Hn]]. subst x.
  rewrite spread_cells_f_length in Hc.
  unfold spread_cells_f, spread_cells_state_f.
  apply spread_fold_written; try assumption.
  - cbn [snd]. rewrite repeat_length. symmetry. exact Hlen.
  - lia.
  - left. apply fsort_order_indices. exact Hc.
Qed.

(* an int demand in (0, 2^100] converts to a float that is not <= 0.0f *)
Lemma f_of_Z_pos_not_le0 : forall d : Z, (0 < d <= 2 ^ 100)%Z -> Bleb (f_of_Z d) fzero = false.
Proof.
  intros d Hd. destruct (f_of_Z_correct d) as [C1 C2]; [lia|].
  rewrite (Bleb_correct 24 128 (f_of_Z d) fzero C2 (eq_refl true)). apply Rle_bool_false.
  rewrite C1. change (B2R fzero) with 0.
  apply Rlt_le_trans with 1; [lra|]. rewrite <- rnd32_1. apply rnd32_le. apply IZR_le. lia.
Qed.

End SpreadAll.

(* ================================================================== 4. repaired spreadCoordX/Y in binary32 *)
Section SpreadCoord.
Local Open Scope R_scope.

Lemma fset_nth_Forall : forall (P : f32 -> Prop) l c v, Forall P l -> P v -> Forall P (fset_nth c v l).
Proof.
  intros P l. induction l as [|h t IH]; intros c v Hl Hv; destruct c; simpl; try constructor;
    inversion Hl; subst; try assumption. apply IH; assumption.
Qed.

Lemma fwrite_back_Forall : forall (P : f32 -> Prop) cells coords ret,
  Forall P ret -> Forall P coords -> Forall P (fwrite_back cells coords ret).
Proof.
  intros P cells. induction cells as [|c cs IH]; intros coords ret Hr Hc; [exact Hr|].
  destruct coords as [|v vs]; [exact Hr|]. simpl. inversion Hc; subst.
  apply IH; [apply fset_nth_Forall; assumption|assumption].
Qed.

Lemma fwrite_back_length : forall cells coords ret, length (fwrite_back cells coords ret) = length ret.
Proof.
  induction cells as [|c cs IH]; intros coords ret; [reflexivity|]. destruct coords as [|v vs]; [reflexivity|].
  simpl. rewrite IH. apply fset_nth_length.
Qed.

Lemma spread_bin_f_length : forall cl target demand ret b, length (spread_bin_f cl target demand ret b) = length ret.
Proof. intros. unfold spread_bin_f. apply fwrite_back_length. Qed.

(* one bin whose limits are ints of the window inside [alo, ahi], all of whose cells have a positive int demand *)
Lemma spread_bin_f_inside : forall (alo ahi : Z) target demand ret b,
  (Z.abs (b_lo b) <= 2 ^ 24)%Z -> (Z.abs (b_hi b) <= 2 ^ 24)%Z ->
  (alo <= b_lo b)%Z -> (b_lo b <= b_hi b)%Z -> (b_hi b <= ahi)%Z ->
  (forall c, In c (b_cells b) -> (0 < nth c demand 0 <= 2 ^ 100)%Z) ->
  Forall (fin_in (IZR alo) (IZR ahi)) ret ->
  Forall (fin_in (IZR alo) (IZR ahi)) (spread_bin_f true target demand ret b).
Proof.
  intros alo ahi target demand ret b Wl Wh H1 H2 H3 Hpos Hret. unfold spread_bin_f.
  destruct (f_of_Z_exact (b_lo b) Wl) as [L1 L2]. destruct (f_of_Z_exact (b_hi b) Wh) as [U1 U2].
  apply fwrite_back_Forall; [exact Hret|].
  eapply Forall_impl; [|apply spread_cells_f_all_inside].
  - intros v Hv. rewrite L1, U1 in Hv. eapply fin_in_weaken; [| |exact Hv]; apply IZR_le; assumption.
  - rewrite !map_length. reflexivity.
  - exact L2.
  - exact U2.
  - rewrite L1, U1. apply IZR_le. exact H2.
  - intros d Hd. apply in_map_iff in Hd. destruct Hd as [c [<- Hc]]. apply f_of_Z_pos_not_le0. apply Hpos. exact Hc.
Qed.

Definition bin_inside (alo ahi : Z) (demand : list Z) (b : bin) : Prop :=
  (Z.abs (b_lo b) <= 2 ^ 24)%Z /\ (Z.abs (b_hi b) <= 2 ^ 24)%Z /\
  (alo <= b_lo b)%Z /\ (b_lo b <= b_hi b)%Z /\ (b_hi b <= ahi)%Z /\
  (forall c, In c (b_cells b) -> (0 < nth c demand 0 <= 2 ^ 100)%Z).

(* [F] the whole function: every entry -- cells in a bin AND cells in no bin, whatever the targets (NaN, infinities) --
   is finite and lies in the placement area [alo, ahi] *)
Lemma spread_coord_f_inside : forall (alo ahi : Z) bins target demand,
  (Z.abs alo <= 2 ^ 24)%Z -> (Z.abs ahi <= 2 ^ 24)%Z -> (alo <= ahi)%Z ->
  (forall b, In b bins -> bin_inside alo ahi demand b) ->
  Forall (fin_in (IZR alo) (IZR ahi)) (spread_coord_f true alo ahi bins target demand) /\
  length (spread_coord_f true alo ahi bins target demand) = length target.
Proof.
  intros alo ahi bins target demand Wl Wh Hle Hb. unfold spread_coord_f.
  destruct (f_of_Z_exact alo Wl) as [L1 L2]. destruct (f_of_Z_exact ahi Wh) as [U1 U2].
  set (ret0 := map (clamp_f (f_of_Z alo) (f_of_Z ahi)) target).
  assert (H0 : Forall (fin_in (IZR alo) (IZR ahi)) ret0).
  { apply Forall_forall. intros v Hv. apply in_map_iff in Hv. destruct Hv as [t [<- _]].
    rewrite <- L1, <- U1. apply clamp_f_inside_any; [exact L2|exact U2|]. rewrite L1, U1. apply IZR_le. exact Hle. }
  assert (HL : length ret0 = length target) by apply map_length.
  clearbody ret0. revert ret0 H0 HL. induction bins as [|b bins IH]; intros ret0 H0 HL; [split; assumption|].
  cbn [fold_left]. apply IH.
  - intros b' Hb'. apply Hb. right. exact Hb'.
  - destruct (Hb b (or_introl eq_refl)) as (A1 & A2 & A3 & A4 & A5 & A6). apply spread_bin_f_inside; assumption.
  - rewrite spread_bin_f_length. exact HL.
Qed.

End SpreadCoord.

(* ================================================================== 5. the export step at bit level (binary64) *)
Section Export64.
Local Open Scope R_scope.

Notation fexp32 := (FLT_exp (-149) 24).
Notation fexp64 := (FLT_exp (-1074) 53).
Local Instance gc_prec53 : Prec_gt_0 53 := p53.
Local Instance gc_prec53_1024 : Prec_lt_emax 53 1024 := p53_1024.
Local Instance gc_valid64 : Valid_exp fexp64 := FLT_exp_valid (-1074) 53.
Local Instance gc_prec24 : Prec_gt_0 24 := p24.
Local Instance gc_valid32 : Valid_exp fexp32 := FLT_exp_valid (-149) 24.

Definition fmt64 (x : R) : Prop := generic_format radix2 fexp64 x.

Lemma rnd64_le : forall x y, x <= y -> rnd64 x <= rnd64 y.
Proof. intros. unfold rnd64. apply round_le; auto with typeclass_instances. Qed.

Lemma rnd64_id : forall x, fmt64 x -> rnd64 x = x.
Proof. intros. unfold rnd64. apply round_generic; auto with typeclass_instances. Qed.

(* k * 2^e is a binary64 value when |k| < 2^53 and e >= -1074 *)
Lemma fmt64_F2R : forall k e : Z, (Z.abs k < 2 ^ 53)%Z -> (-1074 <= e)%Z -> fmt64 (IZR k * bpow radix2 e).
Proof.
  intros k e Hk He. unfold fmt64. apply generic_format_FLT. exists (Float radix2 k e); simpl; [reflexivity|lia|lia].
Qed.

Lemma fmt32_fmt64 : forall x, fmt32 x -> fmt64 x.
Proof.
  intros x Hx. unfold fmt64. apply (generic_inclusion_mag radix2 fexp32 fexp64); [|exact Hx].
  intros _. unfold FLT_exp. lia.
Qed.

Lemma fmt64_bpow : forall e, (-1074 <= e)%Z -> fmt64 (bpow radix2 e).
Proof. intros e He. apply generic_format_bpow. unfold FLT_exp. lia. Qed.

Lemma rnd64_no_overflow : forall x, Rabs x <= bpow radix2 1023 ->
  Rlt_bool (Rabs (rnd64 x)) (bpow radix2 1024) = true.
Proof.
  intros x H. apply Rlt_bool_true. apply Rle_lt_trans with (bpow radix2 1023).
  - unfold rnd64. apply abs_round_le_generic; auto with typeclass_instances. apply fmt64_bpow. lia.
  - apply bpow_lt. lia.
Qed.

Lemma dmul_correct : forall x y : f64, is_finite x = true -> is_finite y = true ->
  Rabs (B2R x * B2R y) <= bpow radix2 1023 ->
  B2R (dmul x y) = rnd64 (B2R x * B2R y) /\ is_finite (dmul x y) = true.
Proof.
  intros x y Fx Fy H.
  pose proof (Bmult_correct 53 1024 p53 p53_1024 mode_NE x y) as C.
  change (round radix2 (SpecFloat.fexp 53 1024) (round_mode mode_NE) (B2R x * B2R y)) with (rnd64 (B2R x * B2R y)) in C.
  rewrite (rnd64_no_overflow _ H) in C. destruct C as [C1 [C2 _]].
  split; [exact C1|]. unfold dmul. rewrite C2, Fx, Fy. reflexivity.
Qed.

Lemma dsub_correct : forall x y : f64, is_finite x = true -> is_finite y = true ->
  Rabs (B2R x - B2R y) <= bpow radix2 1023 ->
  B2R (dsub x y) = rnd64 (B2R x - B2R y) /\ is_finite (dsub x y) = true.
Proof.
  intros x y Fx Fy H.
  pose proof (Bminus_correct 53 1024 p53 p53_1024 mode_NE x y Fx Fy) as C.
  change (round radix2 (SpecFloat.fexp 53 1024) (round_mode mode_NE) (B2R x - B2R y)) with (rnd64 (B2R x - B2R y)) in C.
  rewrite (rnd64_no_overflow _ H) in C. destruct C as [C1 [C2 _]].
  split; [exact C1|exact C2].
Qed.

Lemma small_le_bpow1023 : forall x, Rabs x <= bpow radix2 60 -> Rabs x <= bpow radix2 1023.
Proof. intros x H. eapply Rle_trans; [exact H|]. apply bpow_le. lia. Qed.

(* binary_normalize of m * 2^e that is already a binary64 value of small magnitude: exact *)
Lemma dnormalize_exact : forall (m e : Z) (s : bool), fmt64 (IZR m * bpow radix2 e) ->
  Rabs (IZR m * bpow radix2 e) <= bpow radix2 60 ->
  B2R (@binary_normalize 53 1024 p53 p53_1024 mode_NE m e s) = IZR m * bpow radix2 e /\
  is_finite (@binary_normalize 53 1024 p53 p53_1024 mode_NE m e s) = true.
Proof.
  intros m e s Hf Hb.
  pose proof (binary_normalize_correct 53 1024 p53 p53_1024 mode_NE m e s) as C. cbv zeta in C.
  assert (E : F2R (Float radix2 m e) = IZR m * bpow radix2 e) by reflexivity.
  rewrite E in C.
  change (round radix2 (SpecFloat.fexp 53 1024) (round_mode mode_NE) (IZR m * bpow radix2 e))
    with (rnd64 (IZR m * bpow radix2 e)) in C.
  rewrite (rnd64_no_overflow _ (small_le_bpow1023 _ Hb)) in C. destruct C as [C1 [C2 _]].
  split; [rewrite C1; apply rnd64_id; exact Hf|exact C2].
Qed.

Lemma IZR_abs_le_bpow : forall (z : Z) (k : Z), (0 <= k)%Z -> (Z.abs z <= 2 ^ k)%Z -> Rabs (IZR z) <= bpow radix2 k.
Proof.
  intros z k Hk Hz. rewrite <- abs_IZR. apply Rle_trans with (IZR (2 ^ k)); [apply IZR_le; exact Hz|].
  rewrite (IZR_Zpower radix2) by exact Hk. apply Rle_refl.
Qed.

Lemma d_of_Z_exact : forall z : Z, (Z.abs z <= 2 ^ 52)%Z -> B2R (d_of_Z z) = IZR z /\ is_finite (d_of_Z z) = true.
Proof.
  intros z Hz. unfold d_of_Z.
  assert (E : IZR z * bpow radix2 0 = IZR z) by (simpl; ring).
  rewrite <- E at 1. apply dnormalize_exact.
  - apply fmt64_F2R; lia.
  - rewrite E. eapply Rle_trans; [apply (IZR_abs_le_bpow z 52); [lia|exact Hz]|]. apply bpow_le. lia.
Qed.

Lemma dhalf_exact : B2R dhalf = / 2 /\ is_finite dhalf = true.
Proof.
  unfold dhalf. assert (E : IZR 1 * bpow radix2 (-1) = / 2) by (simpl; lra).
  rewrite <- E at 1. apply dnormalize_exact.
  - apply fmt64_F2R; lia.
  - rewrite E. rewrite Rabs_pos_eq by lra. apply Rle_trans with 1; [lra|]. apply (bpow_le radix2 0 60). lia.
Qed.

(* (double)x for a finite float x: exact *)
Lemma d_of_f_exact : forall x : f32, is_finite x = true -> Rabs (B2R x) <= bpow radix2 60 ->
  B2R (d_of_f x) = B2R x /\ is_finite (d_of_f x) = true.
Proof.
  intros x Fx Hb. pose proof (B2R_fmt32 x) as Hf. apply fmt32_fmt64 in Hf.
  destruct x as [s|s| |s m e B]; try discriminate Fx.
  - split; reflexivity.
  - cbn [d_of_f]. change (B2R (B754_finite s m e B)) with (F2R (Float radix2 (cond_Zopp s (Zpos m)) e)) in *.
    unfold F2R in *. cbn [Fnum Fexp] in *. apply dnormalize_exact; assumption.
Qed.


(* std::round on a finite binary64 value: an integer within 1/2 *)
Lemma round_half_away_me_err : forall s m e,
  Rabs (IZR (round_half_away_me s m e) - F2R (Float radix2 (cond_Zopp s (Zpos m)) e)) <= / 2.
Proof.
  intros s m e.
  assert (K : forall mag : Z, Rabs (IZR mag - F2R (Float radix2 (Zpos m) e)) <= / 2 ->
              Rabs (IZR (cond_Zopp s mag) - F2R (Float radix2 (cond_Zopp s (Zpos m)) e)) <= / 2).
  { intros mag H. destruct s; cbn [cond_Zopp]; [|exact H].
    rewrite F2R_Zopp, opp_IZR.
    replace (- IZR mag - - F2R (Float radix2 (Zpos m) e)) with (- (IZR mag - F2R (Float radix2 (Zpos m) e))) by ring.
    rewrite Rabs_Ropp. exact H. }
  unfold round_half_away_me. apply K. unfold F2R. cbn [Fnum Fexp].
  destruct (Z.leb_spec 0 e) as [He|He].
  - rewrite mult_IZR, (IZR_Zpower radix2) by exact He.
    replace (IZR (Zpos m) * bpow radix2 e - IZR (Zpos m) * bpow radix2 e) with 0 by ring.
    rewrite Rabs_R0. lra.
  - set (d := (2 ^ (- e))%Z).
    assert (Hd : (0 < d)%Z) by (apply Z.pow_pos_nonneg; lia).
    assert (HD : IZR d = bpow radix2 (- e)) by (unfold d; apply (IZR_Zpower radix2); lia).
    assert (Hinv : bpow radix2 e * IZR d = 1).
    { rewrite HD, <- bpow_plus. replace (e + - e)%Z with 0%Z by ring. reflexivity. }
    pose proof (Z.div_mod (Zpos m) d ltac:(lia)) as DM.
    pose proof (Z.mod_pos_bound (Zpos m) d Hd) as MB.
    set (q := (Zpos m / d)%Z) in *. set (r := (Zpos m mod d)%Z) in *.
    assert (EM : IZR (Zpos m) = IZR d * IZR q + IZR r) by (rewrite DM at 1; rewrite plus_IZR, mult_IZR; reflexivity).
    assert (Hr0 : 0 <= IZR r) by (apply IZR_le; lia).
    assert (Hr1 : IZR r < IZR d) by (apply IZR_lt; lia).
    assert (HDp : 0 < IZR d) by (apply IZR_lt; exact Hd).
    set (t := IZR (Zpos m) * bpow radix2 e).
    assert (Et : t * IZR d = IZR d * IZR q + IZR r).
    { unfold t. rewrite Rmult_assoc, Hinv, Rmult_1_r. exact EM. }
    clearbody t. apply Rabs_le.
    destruct (Z.leb_spec d (2 * r)) as [Hh|Hh].
    + assert (Hh' : IZR d <= 2 * IZR r) by (rewrite <- mult_IZR; apply IZR_le; exact Hh).
      rewrite plus_IZR. split; nra.
    + assert (Hh' : 2 * IZR r < IZR d) by (rewrite <- mult_IZR; apply IZR_lt; exact Hh).
      split; nra.
Qed.

Lemma dround_Z_finite : forall v : f64, is_finite v = true ->
  exists r, dround_Z v = Some r /\ Rabs (IZR r - B2R v) <= / 2.
Proof.
  intros v Fv. destruct v as [s|s| |s m e B]; try discriminate Fv.
  - exists 0%Z. split; [reflexivity|]. simpl. rewrite Rminus_0_r, Rabs_R0. lra.
  - exists (round_half_away_me s m e). split; [reflexivity|]. apply round_half_away_me_err.
Qed.

(* a half-integer of small magnitude is a binary64 value *)
Lemma fmt64_half_int : forall a : Z, (Z.abs a <= 2 ^ 52)%Z -> fmt64 (IZR a * / 2).
Proof.
  intros a Ha. replace (/ 2) with (bpow radix2 (-1)) by (simpl; lra). apply fmt64_F2R; lia.
Qed.

(* [F] std::round(x - 0.5 * size) evaluated as the C++ does (float promoted to double, one binary64 product, one
   binary64 difference, std::round) for a finite float x in [L, H], int limits in the window, int size: the result X is
   defined and twice the exposed centre 2X + size lies in [2L, 2H] -- exactly when the size is even, and up to ONE half
   unit (the half-integer case of std::round) when it is odd *)
Lemma export_coord_f_inside : forall (x : f32) (L H size : Z),
  is_finite x = true -> IZR L <= B2R x <= IZR H ->
  (Z.abs L <= 2 ^ 24)%Z -> (Z.abs H <= 2 ^ 24)%Z -> (Z.abs size <= 2 ^ 31)%Z ->
  exists X, export_coord_f x size = Some X /\
            (2 * L - size mod 2 <= 2 * X + size <= 2 * H + size mod 2)%Z.
Proof.
  intros x L H size Fx [HxL HxH] WL WH Ws.
  assert (P24 : (2 ^ 24 = 16777216)%Z) by reflexivity. assert (P31 : (2 ^ 31 = 2147483648)%Z) by reflexivity.
  assert (P52 : (2 ^ 52 = 4503599627370496)%Z) by reflexivity.
  assert (BL : Rabs (IZR L) <= bpow radix2 24) by (apply IZR_abs_le_bpow; lia).
  assert (BH : Rabs (IZR H) <= bpow radix2 24) by (apply IZR_abs_le_bpow; lia).
  assert (BS : Rabs (IZR size) <= bpow radix2 31) by (apply IZR_abs_le_bpow; lia).
  assert (B24 : bpow radix2 24 = 16777216) by (simpl; lra).
  assert (B31 : bpow radix2 31 = 2147483648) by (simpl; lra).
  assert (B60 : bpow radix2 60 = 1152921504606846976) by (simpl; lra).
  apply Rabs_le_inv in BL, BH, BS.
  assert (Bx : Rabs (B2R x) <= bpow radix2 60).
  { apply Rabs_le. lra. }
  destruct (d_of_f_exact x Fx Bx) as [X1 X2].
  destruct (d_of_Z_exact size ltac:(lia)) as [S1 S2].
  destruct dhalf_exact as [D1 D2].
  destruct (dmul_correct dhalf (d_of_Z size) D2 S2) as [M1 M2].
  { rewrite D1, S1. apply small_le_bpow1023. apply Rabs_le. lra. }
  rewrite D1, S1 in M1.
  assert (M1' : B2R (dmul dhalf (d_of_Z size)) = IZR size * / 2).
  { rewrite M1. rewrite Rmult_comm. apply rnd64_id. apply fmt64_half_int. lia. }
  destruct (dsub_correct (d_of_f x) (dmul dhalf (d_of_Z size)) X2 M2) as [V1 V2].
  { rewrite X1, M1'. apply small_le_bpow1023. apply Rabs_le. lra. }
  rewrite X1, M1' in V1.
  destruct (dround_Z_finite _ V2) as [r [Hr1 Hr2]].
  exists r. split; [exact Hr1|]. rewrite V1 in Hr2. apply Rabs_le_inv in Hr2.
  (* the rounded difference stays between the two half-integers (2L - size)/2 and (2H - size)/2 *)
  assert (Elo : rnd64 (IZR (2 * L - size) * / 2) = IZR (2 * L - size) * / 2) by (apply rnd64_id, fmt64_half_int; lia).
  assert (Ehi : rnd64 (IZR (2 * H - size) * / 2) = IZR (2 * H - size) * / 2) by (apply rnd64_id, fmt64_half_int; lia).
  assert (Glo : IZR (2 * L - size) * / 2 <= rnd64 (B2R x - IZR size * / 2)).
  { rewrite <- Elo. apply rnd64_le. rewrite minus_IZR, mult_IZR. lra. }
  assert (Ghi : rnd64 (B2R x - IZR size * / 2) <= IZR (2 * H - size) * / 2).
  { rewrite <- Ehi. apply rnd64_le. rewrite minus_IZR, mult_IZR. lra. }
  assert (Zlo : (2 * L - size - 1 <= 2 * r)%Z).
  { apply le_IZR. rewrite !minus_IZR, !mult_IZR in *. lra. }
  assert (Zhi : (2 * r <= 2 * H - size + 1)%Z).
  { apply le_IZR. rewrite plus_IZR, !minus_IZR, !mult_IZR in *. lra. }
  pose proof (Z.mod_pos_bound size 2 ltac:(lia)). pose proof (Z.div_mod size 2 ltac:(lia)). lia.
Qed.

End Export64.

(* ================================================================== 6. the composed theorem: one circuit, one exposure *)
Section Compose.
Local Open Scope Z_scope.

(* the magnitude window in which every int of the grid converts exactly to binary32 *)
Definition in_window (r : rect) : Prop :=
  Z.abs (minX r) <= 2 ^ 24 /\ Z.abs (maxX r) <= 2 ^ 24 /\ Z.abs (minY r) <= 2 ^ 24 /\ Z.abs (maxY r) <= 2 ^ 24.

(* sizes of the movable cells are non-negative ints and their area fits the `int` the demand is stored in *)
Definition cells_window (cells : list ccell) : Prop :=
  forall c, In c cells -> cc_fixed c = false ->
    0 <= cc_w c < 2 ^ 31 /\ 0 <= cc_h c < 2 ^ 31 /\ cc_w c * cc_h c < 2 ^ 31.

Lemma export_placement_f_nth : forall cells xs ys i c x y,
  nth_error cells i = Some c -> nth_error xs i = Some x -> nth_error ys i = Some y ->
  nth_error (export_placement_f cells xs ys) i = Some (export_cell_f c x y).
Proof.
  induction cells as [|c0 cells IH]; intros xs ys i c x y Hc Hx Hy; [destruct i; discriminate|].
  destruct xs as [|x0 xs]; [destruct i; discriminate|]. destruct ys as [|y0 ys]; [destruct i; discriminate|].
  destruct i as [|i]; simpl in *.
  - inversion Hc; inversion Hx; inversion Hy; subst. reflexivity.
  - apply IH; assumption.
Qed.

Lemma demand_bound : forall cells c, cells_window cells -> nth c (map cell_demand cells) 0 <= 2 ^ 100.
Proof.
  intros cells c Hw. destruct (lt_dec c (length (map cell_demand cells))) as [Hc|Hc].
  - pose proof (nth_In (map cell_demand cells) 0 Hc) as Hin. apply in_map_iff in Hin.
    destruct Hin as [cl [E Hcl]]. rewrite <- E. unfold cell_demand.
    destruct (cc_fixed cl) eqn:Ef; [apply Z.pow_nonneg; lia|].
    destruct (Hw cl Hcl Ef) as (_ & _ & H3).
    apply Z.le_trans with (2 ^ 31); [lia|]. apply Z.pow_le_mono_r; lia.
  - rewrite nth_overflow by lia. apply Z.pow_nonneg. lia.
Qed.

Lemma is_view_subseq : forall fine v, is_view fine v = true -> subseqb fine v = true.
Proof. intros fine v H. unfold is_view in H. rewrite !andb_true_iff in H. tauto. Qed.

(* the bins of one direction of a view are inside the placement area, in the window, with positive demands *)
Lemma view_bins_inside : forall (alo ahi : Z) fine vl (bins : list bin) cells v,
  Z.abs alo <= 2 ^ 24 -> Z.abs ahi <= 2 ^ 24 ->
  limits_ok alo ahi fine -> (2 <= length fine)%nat -> subseqb fine vl = true ->
  cells_window cells -> bins_positive cells v ->
  (forall b, In b bins -> In (b_lo b, b_hi b) (pairs vl) /\ exists col, In col (v_cells v) /\ In (b_cells b) col) ->
  forall b, In b bins -> bin_inside alo ahi (map cell_demand cells) b.
Proof.
  intros alo ahi fine vl bins cells v Wl Wh Hl Hlen Hs Hw Hp Hin b Hb.
  destruct (Hin b Hb) as [Hpair [col [Hcol Hcs]]].
  destruct (view_pairs_inside _ _ _ _ _ _ Hl Hlen Hs Hpair) as [A [B C]].
  unfold bin_inside. repeat split; try lia.
  - apply Hp. eapply bin_cell_in_view; eassumption.
  - apply demand_bound. exact Hw.
Qed.

Lemma placed_sizes_window : forall cells c, cells_window cells -> In c cells -> cc_fixed c = false ->
  0 <= placed_w c < 2 ^ 31 /\ 0 <= placed_h c < 2 ^ 31.
Proof.
  intros cells c Hw Hc Hf. destruct (Hw c Hc Hf) as (A & B & _). unfold placed_w, placed_h.
  destruct (is_turn (cc_orient c)); split; assumption.
Qed.

(* [F] the exposure with respect to the placement area `a` of the density grid (a lies inside the rows' bounding box) *)
Lemma ub_exposure_inside_area : forall margin maxSize rows cells v tx ty,
  0 <= margin -> 1 <= maxSize -> has_proper_row rows ->
  in_window (bbox (map rr rows)) -> cells_window cells ->
  view_of_circuit margin maxSize rows cells v = true -> bins_positive cells v ->
  forall i c, nth_error cells i = Some c -> cc_fixed c = false -> (i < length tx)%nat -> (i < length ty)%nat ->
  let a := circuit_grid_area margin rows cells in
  exists X Y, nth_error (ub_exposure margin rows cells v tx ty) i = Some (Some (X, Y)) /\
    2 * minX a - placed_w c mod 2 <= 2 * X + placed_w c <= 2 * maxX a + placed_w c mod 2 /\
    2 * minY a - placed_h c mod 2 <= 2 * Y + placed_h c <= 2 * maxY a + placed_h c mod 2.
Proof.
  intros margin maxSize rows cells v tx ty Hm Hs Hrow Hwin Hcw Hview Hpos i c Hc Hfx Hix Hiy a.
  destruct (grid_of_circuit margin maxSize rows cells) as [lx ly] eqn:Eg.
  destruct (grid_of_circuit_limits_all margin maxSize rows cells lx ly Hm Hs Hrow Eg)
    as (Hin & Hax & Hay & Hlx & Hly & _ & _).
  fold a in Hin, Hax, Hay, Hlx, Hly.
  destruct Hwin as (W1 & W2 & W3 & W4). unfold rect_in in Hin.
  assert (Wa : Z.abs (minX a) <= 2 ^ 24 /\ Z.abs (maxX a) <= 2 ^ 24 /\ Z.abs (minY a) <= 2 ^ 24 /\ Z.abs (maxY a) <= 2 ^ 24) by lia.
  destruct Wa as (Wa1 & Wa2 & Wa3 & Wa4).
  assert (Elx : lx = limits (minX a) (maxX a) maxSize /\ ly = limits (minY a) (maxY a) maxSize).
  { unfold grid_of_circuit in Eg. fold a in Eg. inversion Eg. split; reflexivity. }
  assert (Llx : (2 <= length lx)%nat) by (destruct Elx as [-> _]; apply limits_length).
  assert (Lly : (2 <= length ly)%nat) by (destruct Elx as [_ ->]; apply limits_length).
  unfold view_of_circuit in Hview. rewrite Eg in Hview. cbn [fst snd] in Hview.
  apply andb_true_iff in Hview. destruct Hview as [Vx Vy].
  apply is_view_subseq in Vx. apply is_view_subseq in Vy.
  pose proof (view_bins_inside (minX a) (maxX a) lx (v_x v) (bins_x v) cells v Wa1 Wa2 Hlx Llx Vx Hcw Hpos (bins_x_in v)) as Bx.
  pose proof (view_bins_inside (minY a) (maxY a) ly (v_y v) (bins_y v) cells v Wa3 Wa4 Hly Lly Vy Hcw Hpos (bins_y_in v)) as By.
  destruct (spread_coord_f_inside (minX a) (maxX a) (bins_x v) tx (map cell_demand cells) Wa1 Wa2 ltac:(lia) Bx) as [Fx Lx].
  destruct (spread_coord_f_inside (minY a) (maxY a) (bins_y v) ty (map cell_demand cells) Wa3 Wa4 ltac:(lia) By) as [Fy Ly].
  unfold ub_exposure, ub_coords. fold a. cbn [fst snd].
  set (ux := spread_coord_f true (minX a) (maxX a) (bins_x v) tx (map cell_demand cells)) in *.
  set (uy := spread_coord_f true (minY a) (maxY a) (bins_y v) ty (map cell_demand cells)) in *.
  destruct (nth_error ux i) as [x|] eqn:Ex; [|apply nth_error_None in Ex; lia].
  destruct (nth_error uy i) as [y|] eqn:Ey; [|apply nth_error_None in Ey; lia].
  rewrite Forall_forall in Fx, Fy.
  destruct (Fx x (nth_error_In _ _ Ex)) as [Fx1 Fx2]. destruct (Fy y (nth_error_In _ _ Ey)) as [Fy1 Fy2].
  destruct (placed_sizes_window cells c Hcw (nth_error_In _ _ Hc) Hfx) as [Pw Ph].
  destruct (export_coord_f_inside x (minX a) (maxX a) (placed_w c) Fx1 Fx2 Wa1 Wa2 ltac:(lia)) as [X [EX BX]].
  destruct (export_coord_f_inside y (minY a) (maxY a) (placed_h c) Fy1 Fy2 Wa3 Wa4 ltac:(lia)) as [Y [EY BY]].
  exists X, Y. split; [|split; assumption].
  rewrite (export_placement_f_nth cells ux uy i c x y Hc Ex Ey). unfold export_cell_f. rewrite Hfx, EX, EY. reflexivity.
Qed.

(* [F] MAIN: with respect to the bounding box R of the placement rows *)
Theorem ub_exposed_centres_inside_rows_bbox : forall margin maxSize rows cells v tx ty,
  0 <= margin -> 1 <= maxSize -> has_proper_row rows ->
  in_window (bbox (map rr rows)) -> cells_window cells ->
  view_of_circuit margin maxSize rows cells v = true -> bins_positive cells v ->
  forall i c, nth_error cells i = Some c -> cc_fixed c = false -> (i < length tx)%nat -> (i < length ty)%nat ->
  let R := bbox (map rr rows) in
  exists X Y, nth_error (ub_exposure margin rows cells v tx ty) i = Some (Some (X, Y)) /\
    2 * minX R - placed_w c mod 2 <= 2 * X + placed_w c <= 2 * maxX R + placed_w c mod 2 /\
    2 * minY R - placed_h c mod 2 <= 2 * Y + placed_h c <= 2 * maxY R + placed_h c mod 2.
Proof.
  intros margin maxSize rows cells v tx ty Hm Hs Hrow Hwin Hcw Hview Hpos i c Hc Hfx Hix Hiy R.
  destruct (ub_exposure_inside_area margin maxSize rows cells v tx ty Hm Hs Hrow Hwin Hcw Hview Hpos i c Hc Hfx Hix Hiy)
    as (X & Y & E & BX & BY).
  destruct (grid_of_circuit margin maxSize rows cells) as [lx ly] eqn:Eg.
  destruct (grid_of_circuit_limits_all margin maxSize rows cells lx ly Hm Hs Hrow Eg) as (Hin & _).
  unfold rect_in in Hin. fold R in Hin. exists X, Y. split; [exact E|]. lia.
Qed.

End Compose.

(* ================================================================== 7. blendPlacement in binary32 and the returned placement *)
Section Blend.
Local Open Scope R_scope.

Lemma abs_close : forall x y e, Rabs (x - y) <= e -> Rabs x <= Rabs y + e.
Proof.
  intros x y e H. replace x with (y + (x - y)) at 1 by ring. eapply Rle_trans; [apply Rabs_triang|]. lra.
Qed.

Lemma bpow_m100_facts : 0 < bpow radix2 (-150) /\ bpow radix2 (-150) * bpow radix2 30 = bpow radix2 (-120) /\
  bpow radix2 (-150) <= bpow radix2 (-120) /\ 16 * bpow radix2 (-120) <= bpow radix2 (-100).
Proof.
  split; [apply bpow_gt_0|]. split; [rewrite <- bpow_plus; reflexivity|]. split; [apply bpow_le; lia|].
  change 16 with (bpow radix2 4). rewrite <- bpow_plus. apply bpow_le. lia.
Qed.

(* [F] the binary32 blend (three products/differences and one sum, one rounding each) against the exact blend *)
Lemma blend_R_err : forall w a b,
  Rabs (1 - w) <= 2 -> Rabs w <= 2 -> Rabs a <= bpow radix2 30 -> Rabs b <= bpow radix2 30 ->
  Rabs (blend_R w a b - ((1 - w) * a + w * b))
  <= 4 * bpow radix2 (-24) * (Rabs (1 - w) * Rabs a + Rabs w * Rabs b) + bpow radix2 (-100).
Proof.
  intros w a b HW1 HWw HAa HBb. unfold blend_R.
  destruct bpow_m100_facts as (Heta & Hdel & Hed & H16).
  set (eta := bpow radix2 (-150)) in *. set (del := bpow radix2 (-120)) in *.
  set (c := rnd32 (1 - w)). set (p := rnd32 (c * a)). set (q := rnd32 (w * b)).
  pose proof (rnd32_err (1 - w)) as E1. fold c eta in E1.
  pose proof (rnd32_err (c * a)) as E2. fold p eta in E2.
  pose proof (rnd32_err (w * b)) as E3. fold q eta in E3.
  pose proof (rnd32_err (p + q)) as E4. fold eta in E4.
  rewrite bpow_m24 in *. set (u := / 16777216) in *.
  assert (Hu : u = / 16777216) by reflexivity.
  set (W1 := Rabs (1 - w)) in *. set (Ww := Rabs w) in *. set (Aa := Rabs a) in *. set (Bb := Rabs b) in *.
  assert (P0 : 0 <= W1) by apply Rabs_pos. assert (P1 : 0 <= Ww) by apply Rabs_pos.
  assert (P2 : 0 <= Aa) by apply Rabs_pos. assert (P3 : 0 <= Bb) by apply Rabs_pos.
  assert (HetaA : eta * Aa <= del).
  { rewrite <- Hdel. apply Rmult_le_compat_l; [lra|exact HAa]. }
  (* |c| and |c a| *)
  pose proof (abs_close _ _ _ E1) as Hc. fold W1 in Hc.
  assert (Hca : Rabs (c * a) <= W1 * Aa + u * (W1 * Aa) + del).
  { rewrite Rabs_mult. fold Aa.
    apply Rle_trans with ((W1 + (u * W1 + eta)) * Aa); [apply Rmult_le_compat_r; [exact P2|exact Hc]|]. lra. }
  assert (Hcad : Rabs (c * a - (1 - w) * a) <= u * (W1 * Aa) + del).
  { replace (c * a - (1 - w) * a) with ((c - (1 - w)) * a) by ring. rewrite Rabs_mult. fold Aa.
    apply Rle_trans with ((u * W1 + eta) * Aa); [apply Rmult_le_compat_r; [exact P2|exact E1]|]. lra. }
  assert (Hwb : Rabs (w * b) = Ww * Bb) by (rewrite Rabs_mult; reflexivity).
  rewrite Hwb in E3.
  pose proof (abs_close _ _ _ E2) as Hp. pose proof (abs_close _ _ _ E3) as Hq. rewrite Hwb in Hq.
  assert (Hpq : Rabs (p + q) <= Rabs p + Rabs q) by apply Rabs_triang.
  set (P := W1 * Aa) in *. set (Q := Ww * Bb) in *.
  assert (PP : 0 <= P) by (apply Rmult_le_pos; assumption). assert (QQ : 0 <= Q) by (apply Rmult_le_pos; assumption).
  replace (rnd32 (p + q) - ((1 - w) * a + w * b))
    with ((rnd32 (p + q) - (p + q)) + (p - c * a) + (c * a - (1 - w) * a) + (q - w * b)) by ring.
  eapply Rle_trans; [apply Rabs_triang|]. eapply Rle_trans; [apply Rplus_le_compat_r, Rabs_triang|].
  eapply Rle_trans; [apply Rplus_le_compat_r, Rplus_le_compat_r, Rabs_triang|].
  assert (Hu2 : u * (u * P) <= u * P / 1000).
  { unfold Rdiv. rewrite <- Rmult_assoc. rewrite (Rmult_comm (u * P)). rewrite <- !Rmult_assoc.
    apply Rmult_le_compat_r; [exact PP|]. unfold u. lra. }
  assert (Hu3 : 0 <= u * P) by (apply Rmult_le_pos; [unfold u; lra|exact PP]).
  assert (Hu4 : 0 <= u * Q) by (apply Rmult_le_pos; [unfold u; lra|exact QQ]).
  assert (Hu5 : u * (u * Q) <= u * Q / 1000).
  { unfold Rdiv. rewrite <- Rmult_assoc. rewrite (Rmult_comm (u * Q)). rewrite <- !Rmult_assoc.
    apply Rmult_le_compat_r; [exact QQ|]. unfold u. lra. }
  assert (Hu6 : u * (u * (u * P)) <= u * P / 1000).
  { apply Rle_trans with (u * (u * P / 1000)); [apply Rmult_le_compat_l; [unfold u; lra|exact Hu2]|].
    unfold Rdiv. rewrite <- Rmult_assoc. apply Rmult_le_compat_r; [lra|].
    rewrite <- (Rmult_1_l (u * P)) at 2. apply Rmult_le_compat_r; [exact Hu3|unfold u; lra]. }
  assert (Hud : u * del <= del) by (rewrite <- (Rmult_1_l del) at 2; apply Rmult_le_compat_r; [lra|unfold u; lra]).
  assert (Hue : u * eta <= eta) by (rewrite <- (Rmult_1_l eta) at 2; apply Rmult_le_compat_r; [lra|unfold u; lra]).
  assert (Huud : u * (u * del) <= del).
  { apply Rle_trans with (u * del); [apply Rmult_le_compat_l; [unfold u; lra|exact Hud]|exact Hud]. }
  (* everything is now linear in u*P, u*Q, u*u*P, ..., del, eta *)
  assert (mul_u : forall x y, x <= y -> u * x <= u * y) by (intros x y Hxy; apply Rmult_le_compat_l; [unfold u; lra|exact Hxy]).
  pose proof (mul_u _ _ Hca) as Huca.
  assert (T2 : Rabs (p - c * a) <= u * P + u * (u * P) + u * del + eta) by lra.
  assert (Tp : Rabs p <= P + u * P + del + (u * P + u * (u * P) + u * del + eta)) by lra.
  assert (Tq : Rabs q <= Q + (u * Q + eta)) by lra.
  assert (T4 : Rabs (rnd32 (p + q) - (p + q))
               <= u * P + u * (u * P) + u * del + (u * (u * P) + u * (u * (u * P)) + u * (u * del) + u * eta)
                  + (u * Q + (u * (u * Q) + u * eta)) + eta).
  { eapply Rle_trans; [exact E4|].
    apply Rle_trans with (u * (P + u * P + del + (u * P + u * (u * P) + u * del + eta) + (Q + (u * Q + eta))) + eta);
      [|lra].
    apply Rplus_le_compat_r. apply mul_u. lra. }
  lra.
Qed.


Lemma abs_mult_le : forall x y bx by_, Rabs x <= bx -> Rabs y <= by_ -> Rabs (x * y) <= bx * by_.
Proof.
  intros x y bx by_ Hx Hy. rewrite Rabs_mult. apply Rmult_le_compat; try apply Rabs_pos; assumption.
Qed.

(* the bit-level expression computes blend_R on finite operands of the window; the result is finite, below 2^32 *)
Lemma blend_expr_f_correct : forall w a b : f32,
  is_finite w = true -> is_finite a = true -> is_finite b = true ->
  Rabs (1 - B2R w) <= 2 -> Rabs (B2R w) <= 2 -> Rabs (B2R a) <= bpow radix2 30 -> Rabs (B2R b) <= bpow radix2 30 ->
  B2R (blend_expr_f w a b) = blend_R (B2R w) (B2R a) (B2R b) /\ is_finite (blend_expr_f w a b) = true /\
  Rabs (B2R (blend_expr_f w a b)) <= bpow radix2 32.
Proof.
  intros w a b Fw Fa Fb HW1 HWw HA HB. destruct fone_correct as [O1 O2].
  assert (E1 : bpow radix2 1 = 2) by (simpl; lra).
  assert (E31 : 2 * bpow radix2 30 = bpow radix2 31) by (change 2 with (bpow radix2 1); rewrite <- bpow_plus; reflexivity).
  assert (E32 : bpow radix2 31 + bpow radix2 31 = bpow radix2 32).
  { replace (bpow radix2 31 + bpow radix2 31) with (2 * bpow radix2 31) by ring.
    change 2 with (bpow radix2 1). rewrite <- bpow_plus. reflexivity. }
  assert (L127 : forall k, (k <= 127)%Z -> bpow radix2 k <= bpow radix2 127) by (intros; apply bpow_le; assumption).
  destruct (fsub_correct fone w O2 Fw) as [C1 C2].
  { rewrite O1. eapply Rle_trans; [exact HW1|]. rewrite <- E1. apply L127. lia. }
  rewrite O1 in C1.
  assert (Bc : Rabs (B2R (fsub fone w)) <= 2).
  { rewrite C1, <- E1. apply rnd32_abs_le; [apply fmt32_bpow; lia|rewrite E1; exact HW1]. }
  assert (Bca : Rabs (B2R (fsub fone w) * B2R a) <= bpow radix2 31).
  { rewrite <- E31. apply abs_mult_le; assumption. }
  destruct (fmul_correct (fsub fone w) a C2 Fa) as [P1 P2].
  { eapply Rle_trans; [exact Bca|]. apply L127. lia. }
  assert (Bp : Rabs (B2R (fmul (fsub fone w) a)) <= bpow radix2 31).
  { rewrite P1. apply rnd32_abs_le; [apply fmt32_bpow; lia|exact Bca]. }
  assert (Bwb : Rabs (B2R w * B2R b) <= bpow radix2 31).
  { rewrite <- E31. apply abs_mult_le; assumption. }
  destruct (fmul_correct w b Fw Fb) as [Q1 Q2].
  { eapply Rle_trans; [exact Bwb|]. apply L127. lia. }
  assert (Bq : Rabs (B2R (fmul w b)) <= bpow radix2 31).
  { rewrite Q1. apply rnd32_abs_le; [apply fmt32_bpow; lia|exact Bwb]. }
  assert (Bpq : Rabs (B2R (fmul (fsub fone w) a) + B2R (fmul w b)) <= bpow radix2 32).
  { eapply Rle_trans; [apply Rabs_triang|]. rewrite <- E32. lra. }
  destruct (fadd_correct _ _ P2 Q2) as [R1 R2].
  { eapply Rle_trans; [exact Bpq|]. apply L127. lia. }
  unfold blend_expr_f. split; [|split; [exact R2|]].
  - rewrite R1, P1, Q1, C1. reflexivity.
  - rewrite R1. apply rnd32_abs_le; [apply fmt32_bpow; lia|exact Bpq].
Qed.

Lemma feqb_true : forall a b : f32, is_finite a = true -> is_finite b = true -> feqb a b = true -> B2R a = B2R b.
Proof.
  intros a b Fa Fb H. unfold feqb in H. rewrite (Bcompare_correct 24 128 a b Fa Fb) in H.
  destruct (Rcompare_spec (B2R a) (B2R b)); try discriminate H. assumption.
Qed.

(* the accepted range of a blending weight as the proofs use it: finite, |w| <= 2 and |1 - w| <= 2
   (ColoquinteParameters::check accepts exportBlending in [-0.5, 1.5] and the rough target blending in [-0.1, 0.9]) *)
Definition weight_ok (w : f32) : Prop := is_finite w = true /\ Rabs (1 - B2R w) <= 2 /\ Rabs (B2R w) <= 2.

Definition blend_exact (w a b : R) : R := (1 - w) * a + w * b.
Definition blend_bound (w a b : R) : R :=
  4 * bpow radix2 (-24) * (Rabs (1 - w) * Rabs a + Rabs w * Rabs b) + bpow radix2 (-100).

Lemma blend_bound_nonneg : forall w a b, 0 <= blend_bound w a b.
Proof.
  intros. unfold blend_bound. pose proof (bpow_gt_0 radix2 (-24)). pose proof (bpow_gt_0 radix2 (-100)).
  pose proof (Rabs_pos (1 - w)). pose proof (Rabs_pos a). pose proof (Rabs_pos w). pose proof (Rabs_pos b).
  assert (0 <= Rabs (1 - w) * Rabs a) by (apply Rmult_le_pos; assumption).
  assert (0 <= Rabs w * Rabs b) by (apply Rmult_le_pos; assumption). nra.
Qed.

(* [F] blendPlacement, entry i, both shortcuts included: a finite float below 2^32 within blend_bound of the exact blend *)
Lemma blend_f_nth : forall w v1 v2 i a b, weight_ok w ->
  nth_error v1 i = Some a -> nth_error v2 i = Some b ->
  is_finite a = true -> is_finite b = true -> Rabs (B2R a) <= bpow radix2 30 -> Rabs (B2R b) <= bpow radix2 30 ->
  exists x, nth_error (blend_f w v1 v2) i = Some x /\ is_finite x = true /\ Rabs (B2R x) <= bpow radix2 32 /\
            Rabs (B2R x - blend_exact (B2R w) (B2R a) (B2R b)) <= blend_bound (B2R w) (B2R a) (B2R b).
Proof.
  intros w v1 v2 i a b (Fw & HW1 & HWw) H1 H2 Fa Fb HA HB.
  assert (L32 : bpow radix2 30 <= bpow radix2 32) by (apply bpow_le; lia).
  pose proof (blend_bound_nonneg (B2R w) (B2R a) (B2R b)) as NN.
  unfold blend_f. destruct (feqb w fzero) eqn:E0.
  - apply (feqb_true w fzero Fw eq_refl) in E0. change (B2R fzero) with 0 in E0.
    exists a. split; [exact H1|]. split; [exact Fa|]. split; [lra|].
    unfold blend_exact. rewrite E0. replace (B2R a - ((1 - 0) * B2R a + 0 * B2R b)) with 0 by ring. rewrite Rabs_R0. apply blend_bound_nonneg.
  - destruct (feqb w fone) eqn:E1.
    + destruct fone_correct as [O1 O2]. apply (feqb_true w fone Fw O2) in E1. rewrite O1 in E1.
      exists b. split; [exact H2|]. split; [exact Fb|]. split; [lra|].
      unfold blend_exact. rewrite E1. replace (B2R b - ((1 - 1) * B2R a + 1 * B2R b)) with 0 by ring. rewrite Rabs_R0. apply blend_bound_nonneg.
    + exists (blend_expr_f w a b).
      destruct (blend_expr_f_correct w a b Fw Fa Fb HW1 HWw HA HB) as (C1 & C2 & C3).
      split; [|split; [exact C2|split; [exact C3|]]].
      * assert (Hc : nth_error (combine v1 v2) i = Some (a, b)).
        { clear -H1 H2. revert v2 i H1 H2. induction v1 as [|x v1 IH]; intros v2 i H1 H2; [destruct i; discriminate|].
          destruct v2 as [|y v2]; [destruct i; discriminate|]. destruct i; simpl in *; [congruence|apply IH; assumption]. }
        exact (map_nth_error (fun p => blend_expr_f w (fst p) (snd p)) i (combine v1 v2) Hc).
      * rewrite C1. apply blend_R_err; assumption.
Qed.

End Blend.

(* ================================================================== 8. the returned placement *)
Section Returned.
Local Open Scope R_scope.

(* std::round(x - 0.5 * size) at bit level for any finite float below 2^40: defined, within 1/2 of ONE binary64 rounding *)
Lemma export_coord_f_spec : forall (x : f32) (size : Z),
  is_finite x = true -> Rabs (B2R x) <= bpow radix2 40 -> (Z.abs size <= 2 ^ 31)%Z ->
  exists X, export_coord_f x size = Some X /\ Rabs (IZR X - rnd64 (B2R x - IZR size * / 2)) <= / 2.
Proof.
  intros x size Fx Bx Ws.
  assert (BS : Rabs (IZR size) <= bpow radix2 31) by (apply IZR_abs_le_bpow; lia).
  assert (B31 : bpow radix2 31 = 2147483648) by (simpl; lra).
  assert (B40 : bpow radix2 40 = 1099511627776) by (simpl; lra).
  assert (B60 : bpow radix2 60 = 1152921504606846976) by (simpl; lra).
  assert (P31 : (2 ^ 31 = 2147483648)%Z) by reflexivity. assert (P52 : (2 ^ 52 = 4503599627370496)%Z) by reflexivity.
  pose proof (Rabs_le_inv _ _ Bx) as Bx'. apply Rabs_le_inv in BS.
  destruct (d_of_f_exact x Fx) as [X1 X2]; [apply Rabs_le; lra|].
  destruct (d_of_Z_exact size ltac:(lia)) as [S1 S2]. destruct dhalf_exact as [D1 D2].
  destruct (dmul_correct dhalf (d_of_Z size) D2 S2) as [M1 M2].
  { rewrite D1, S1. apply small_le_bpow1023. apply Rabs_le. lra. }
  rewrite D1, S1 in M1.
  assert (M1' : B2R (dmul dhalf (d_of_Z size)) = IZR size * / 2).
  { rewrite M1. rewrite Rmult_comm. apply rnd64_id. apply fmt64_half_int. lia. }
  destruct (dsub_correct (d_of_f x) (dmul dhalf (d_of_Z size)) X2 M2) as [V1 V2].
  { rewrite X1, M1'. apply small_le_bpow1023. apply Rabs_le. lra. }
  rewrite X1, M1' in V1.
  destruct (dround_Z_finite _ V2) as [r [Hr1 Hr2]]. exists r. split; [exact Hr1|]. rewrite <- V1. exact Hr2.
Qed.

Definition in_solver_window (v : f32) : Prop := is_finite v = true /\ Rabs (B2R v) <= bpow radix2 30.

(* one coordinate of the returned placement *)
Lemma returned_coord : forall w v1 v2 i a b size, weight_ok w ->
  nth_error v1 i = Some a -> nth_error v2 i = Some b -> in_solver_window a -> in_solver_window b ->
  (Z.abs size <= 2 ^ 31)%Z ->
  exists x X, nth_error (blend_f w v1 v2) i = Some x /\ export_coord_f x size = Some X /\
    Rabs (IZR X - (blend_exact (B2R w) (B2R a) (B2R b) - IZR size * / 2))
    <= / 2 + blend_bound (B2R w) (B2R a) (B2R b) + bpow radix2 (-19).
Proof.
  intros w v1 v2 i a b size Hw H1 H2 [Fa HA] [Fb HB] Ws.
  destruct (blend_f_nth w v1 v2 i a b Hw H1 H2 Fa Fb HA HB) as (x & Ex & Fx & Bx & Dx).
  assert (L40 : bpow radix2 32 <= bpow radix2 40) by (apply bpow_le; lia).
  destruct (export_coord_f_spec x size Fx ltac:(lra) Ws) as (X & EX & DX).
  exists x, X. split; [exact Ex|]. split; [exact EX|].
  set (t := B2R x - IZR size * / 2) in *.
  pose proof (rnd64_err t) as Et.
  assert (BS : Rabs (IZR size) <= bpow radix2 31) by (apply IZR_abs_le_bpow; lia).
  assert (Bt : Rabs t <= bpow radix2 33).
  { unfold t. eapply Rle_trans; [apply Rabs_triang|]. rewrite Rabs_Ropp, Rabs_mult, (Rabs_pos_eq (/ 2)) by lra.
    replace (bpow radix2 33) with (bpow radix2 32 + bpow radix2 32); [pose proof (bpow_gt_0 radix2 31);
      assert (bpow radix2 31 <= bpow radix2 32) by (apply bpow_le; lia); lra|].
    replace (bpow radix2 32 + bpow radix2 32) with (2 * bpow radix2 32) by ring.
    change 2 with (bpow radix2 1). rewrite <- bpow_plus. reflexivity. }
  assert (Em : bpow radix2 (-53) * Rabs t <= bpow radix2 (-20)).
  { replace (bpow radix2 (-20)) with (bpow radix2 (-53) * bpow radix2 33) by (rewrite <- bpow_plus; reflexivity).
    apply Rmult_le_compat_l; [apply bpow_ge_0|exact Bt]. }
  assert (Es : bpow radix2 (-1075) <= bpow radix2 (-20)) by (apply bpow_le; lia).
  assert (E19 : bpow radix2 (-19) = 2 * bpow radix2 (-20)) by (change 2 with (bpow radix2 1); rewrite <- bpow_plus; reflexivity).
  replace (IZR X - (blend_exact (B2R w) (B2R a) (B2R b) - IZR size * / 2))
    with ((IZR X - rnd64 t) + (rnd64 t - t) + (B2R x - blend_exact (B2R w) (B2R a) (B2R b))) by (unfold t; ring).
  eapply Rle_trans; [apply Rabs_triang|]. eapply Rle_trans; [apply Rplus_le_compat_r, Rabs_triang|]. lra.
Qed.

(* [F] SECOND: the returned placement of every movable cell is blendPlacement(LB, UB, exportBlending) minus half the placed
   size, rounded: within 1/2 (std::round) + the binary32 error of the blend + 2^-19 (the binary64 rounding) *)
Theorem returned_placement_is_blend : forall w cells lbx ubx lby uby i c ax bx ay by_,
  weight_ok w -> cells_window cells ->
  nth_error cells i = Some c -> cc_fixed c = false ->
  nth_error lbx i = Some ax -> nth_error ubx i = Some bx -> nth_error lby i = Some ay -> nth_error uby i = Some by_ ->
  in_solver_window ax -> in_solver_window bx -> in_solver_window ay -> in_solver_window by_ ->
  exists X Y, nth_error (returned_placement w cells lbx ubx lby uby) i = Some (Some (X, Y)) /\
    Rabs (IZR X - (blend_exact (B2R w) (B2R ax) (B2R bx) - IZR (placed_w c) * / 2))
      <= / 2 + blend_bound (B2R w) (B2R ax) (B2R bx) + bpow radix2 (-19) /\
    Rabs (IZR Y - (blend_exact (B2R w) (B2R ay) (B2R by_) - IZR (placed_h c) * / 2))
      <= / 2 + blend_bound (B2R w) (B2R ay) (B2R by_) + bpow radix2 (-19).
Proof.
  intros w cells lbx ubx lby uby i c ax bx ay by_ Hw Hcw Hc Hfx H1 H2 H3 H4 W1 W2 W3 W4.
  destruct (placed_sizes_window cells c Hcw (nth_error_In _ _ Hc) Hfx) as [Pw Ph].
  assert (P31 : (2 ^ 31 = 2147483648)%Z) by reflexivity.
  destruct (returned_coord w lbx ubx i ax bx (placed_w c) Hw H1 H2 W1 W2 ltac:(lia)) as (x & X & Ex & EX & DX).
  destruct (returned_coord w lby uby i ay by_ (placed_h c) Hw H3 H4 W3 W4 ltac:(lia)) as (y & Y & Ey & EY & DY).
  exists X, Y. split; [|split; assumption]. unfold returned_placement.
  rewrite (export_placement_f_nth cells _ _ i c x y Hc Ex Ey). unfold export_cell_f. rewrite Hfx, EX, EY. reflexivity.
Qed.

End Returned.

(* ================================================================== 9. the loop of GlobalPlacer::run *)
Section Loop.
Local Open Scope Z_scope.

Definition state_len (n : nat) (s : gstate) : Prop :=
  length (s_lbx s) = n /\ length (s_lby s) = n /\ length (s_ubx s) = n /\ length (s_uby s) = n.

(* what the theorems ask of an iteration's oracles: C16's claims about the view, vectors of the right size *)
Definition oracle_ok (margin maxSize : Z) (rows : list row) (cells : list ccell) (it : iter_oracle) : Prop :=
  view_of_circuit margin maxSize rows cells (it_view it) = true /\ bins_positive cells (it_view it) /\
  Forall (fun lb => length (fst lb) = length cells /\ length (snd lb) = length cells) (it_lbs it).

Definition is_ub_exposure (margin maxSize : Z) (rows : list row) (cells : list ccell) (pl : list (option (Z * Z))) : Prop :=
  exists v tx ty, view_of_circuit margin maxSize rows cells v = true /\ bins_positive cells v /\
    length tx = length cells /\ length ty = length cells /\ pl = ub_exposure margin rows cells v tx ty.

Definition event_ok (margin maxSize : Z) (rows : list row) (cells : list ccell) (e : event) : Prop :=
  match fst e with KLowerBound => True | _ => is_ub_exposure margin maxSize rows cells (snd e) end.

Lemma blend_f_length : forall w v1 v2 n, length v1 = n -> length v2 = n -> length (blend_f w v1 v2) = n.
Proof.
  intros w v1 v2 n H1 H2. unfold blend_f. destruct (feqb w fzero); [exact H1|]. destruct (feqb w fone); [exact H2|].
  rewrite map_length, combine_length, H1, H2. apply Nat.min_id.
Qed.

Lemma spread_coord_f_length : forall cl alo ahi bins target demand,
  length (spread_coord_f cl alo ahi bins target demand) = length target.
Proof.
  intros. unfold spread_coord_f. set (r0 := map (clamp_f (f_of_Z alo) (f_of_Z ahi)) target).
  assert (H0 : length r0 = length target) by apply map_length. clearbody r0. revert r0 H0.
  induction bins as [|b bins IH]; intros r0 H0; [exact H0|]. cbn [fold_left]. apply IH.
  rewrite spread_bin_f_length. exact H0.
Qed.

Lemma run_ub_ok : forall margin maxSize rows cells wrl v s,
  state_len (length cells) s -> view_of_circuit margin maxSize rows cells v = true -> bins_positive cells v ->
  let r := run_ub margin rows cells wrl v s in
  state_len (length cells) (fst r) /\ fst (snd r) = KUpperBound /\
  is_ub_exposure margin maxSize rows cells (snd (snd r)) /\
  snd (snd r) = export_placement_f cells (s_ubx (fst r)) (s_uby (fst r)).
Proof.
  intros margin maxSize rows cells wrl v s (L1 & L2 & L3 & L4) Hv Hp r. unfold r, run_ub. cbn [fst snd s_lbx s_lby s_ubx s_uby].
  pose proof (blend_f_length wrl _ _ _ L1 L3) as Tx. pose proof (blend_f_length wrl _ _ _ L2 L4) as Ty.
  split; [|split; [reflexivity|split; [|reflexivity]]].
  - unfold state_len, ub_coords. cbn [fst snd s_lbx s_lby s_ubx s_uby]. rewrite !spread_coord_f_length. tauto.
  - exists v, (blend_f wrl (s_lbx s) (s_ubx s)), (blend_f wrl (s_lby s) (s_uby s)).
    split; [exact Hv|]. split; [exact Hp|]. split; [exact Tx|]. split; [exact Ty|]. reflexivity.
Qed.

Lemma count_ub_app : forall a b, count_ub (a ++ b) = (count_ub a + count_ub b)%nat.
Proof. intros. unfold count_ub. rewrite filter_app, app_length. reflexivity. Qed.

Lemma count_ub_cons : forall e l,
  count_ub (e :: l) = ((match fst e with KUpperBound => 1 | _ => 0 end) + count_ub l)%nat.
Proof. intros e l. unfold count_ub. cbn [filter]. destruct (fst e); reflexivity. Qed.

Lemma run_lbs_ok : forall margin maxSize rows cells lbs s,
  state_len (length cells) s ->
  Forall (fun lb => length (fst lb) = length cells /\ length (snd lb) = length cells) lbs ->
  let r := run_lbs cells s lbs in
  state_len (length cells) (fst r) /\ Forall (event_ok margin maxSize rows cells) (snd r) /\ count_ub (snd r) = 0%nat.
Proof.
  intros margin maxSize rows cells lbs. induction lbs as [|lb t IH]; intros s Hs Hl; cbn [run_lbs fst snd].
  - split; [exact Hs|]. split; [constructor|reflexivity].
  - inversion Hl as [|? ? [A B] Hl']; subst.
    assert (Hs' : state_len (length cells) (fst (run_lb cells s lb))).
    { destruct Hs as (L1 & L2 & L3 & L4). unfold run_lb, state_len. cbn [fst s_lbx s_lby s_ubx s_uby]. tauto. }
    destruct (IH _ Hs' Hl') as (I1 & I2 & I3).
    split; [exact I1|]. split; [constructor; [exact I|exact I2]|].
    unfold count_ub in *. cbn [filter run_lb fst snd]. exact I3.
Qed.

(* [F] every callback of the loop that exposes an upper bound (UpperBound, PenaltyUpdate) exposes ub_exposure of some
   view / targets; the loop makes at most one iteration per oracle record *)
Lemma run_loop_ok : forall margin maxSize rows cells wrl its s,
  state_len (length cells) s -> Forall (oracle_ok margin maxSize rows cells) its ->
  let r := run_loop margin rows cells wrl its s in
  state_len (length cells) (fst r) /\ Forall (event_ok margin maxSize rows cells) (snd r) /\
  (count_ub (snd r) <= length its)%nat.
Proof.
  intros margin maxSize rows cells wrl its. induction its as [|it rest IH]; intros s Hs Ho; cbn [run_loop].
  - cbn [fst snd]. split; [exact Hs|]. split; [constructor|]. unfold count_ub. simpl. lia.
  - inversion Ho as [|? ? (Hv & Hp & Hl) Ho']; subst.
    destruct (run_ub_ok margin maxSize rows cells wrl (it_view it) s Hs Hv Hp) as (U1 & U2 & U3 & U4).
    set (ru := run_ub margin rows cells wrl (it_view it) s) in *.
    assert (Eu : event_ok margin maxSize rows cells (snd ru)) by (unfold event_ok; rewrite U2; exact U3).
    assert (Cu : count_ub [snd ru] = 1%nat) by (unfold count_ub; cbn [filter]; rewrite U2; reflexivity).
    destruct (it_stop it).
    + cbn [fst snd]. split; [exact U1|]. split; [constructor; [exact Eu|constructor]|]. rewrite Cu. simpl. lia.
    + destruct (run_lbs_ok margin maxSize rows cells (it_lbs it) (fst ru) U1 Hl) as (B1 & B2 & B3).
      destruct (IH _ B1 Ho') as (I1 & I2 & I3). cbn [fst snd].
      split; [exact I1|]. split.
      * constructor; [exact Eu|]. apply Forall_app. split; [|apply Forall_app; split; assumption].
        destruct (it_penalty it); [|constructor]. constructor; [|constructor].
        unfold event_ok. cbn [fst snd]. rewrite <- U4. exact U3.
      * rewrite count_ub_cons, U2.
        destruct (it_penalty it); cbn [app]; [rewrite count_ub_cons; cbn [fst]|]; rewrite count_ub_app, B3; cbn [length]; lia.
Qed.

Lemma Forall_firstn : forall (A : Type) (P : A -> Prop) n l, Forall P l -> Forall P (firstn n l).
Proof.
  intros A P n. induction n as [|n IH]; intros l H; [constructor|]. destruct l; [constructor|].
  inversion H; subst. simpl. constructor; [assumption|apply IH; assumption].
Qed.

(* [F] THIRD: GlobalPlacer::run as a whole *)
Theorem run_global_ok : forall margin maxSize rows cells wrl maxNbSteps nbInitialSteps its vlast s0,
  state_len (length cells) s0 -> Forall (oracle_ok margin maxSize rows cells) its ->
  view_of_circuit margin maxSize rows cells vlast = true -> bins_positive cells vlast ->
  let r := run_global margin rows cells wrl maxNbSteps nbInitialSteps its vlast s0 in
  Forall (event_ok margin maxSize rows cells) (snd r) /\
  (count_ub (snd r) <= (maxNbSteps - nbInitialSteps) + 1)%nat /\
  state_len (length cells) (fst r) /\
  (exists evs pl, snd r = evs ++ [(KUpperBound, pl)] /\
                  pl = export_placement_f cells (s_ubx (fst r)) (s_uby (fst r))).
Proof.
  intros margin maxSize rows cells wrl mx ni its vlast s0 Hs Ho Hv Hp r. unfold r, run_global.
  destruct (run_loop_ok margin maxSize rows cells wrl (firstn (mx - ni) its) s0 Hs (Forall_firstn _ _ _ _ Ho))
    as (L1 & L2 & L3).
  set (rl := run_loop margin rows cells wrl (firstn (mx - ni) its) s0) in *.
  destruct (run_ub_ok margin maxSize rows cells wrl vlast (fst rl) L1 Hv Hp) as (U1 & U2 & U3 & U4).
  set (ru := run_ub margin rows cells wrl vlast (fst rl)) in *. cbn [fst snd].
  split; [|split; [|split; [exact U1|]]].
  - apply Forall_app. split; [exact L2|]. constructor; [|constructor]. unfold event_ok. rewrite U2. exact U3.
  - rewrite count_ub_app. assert (Cu : count_ub [snd ru] = 1%nat) by (unfold count_ub; cbn [filter]; rewrite U2; reflexivity).
    rewrite Cu. pose proof (firstn_le_length (mx - ni) its). lia.
  - exists (snd rl), (snd (snd ru)). split; [|exact U4].
    destruct (snd ru) as [k pl] eqn:E. cbn [fst snd] in *. subst k. reflexivity.
Qed.

End Loop.

(* ================================================================== 10. corollaries *)
Section Corollaries.
Local Open Scope Z_scope.

(* what "inside the rows' bounding box R" means for one exposed cell: twice the centre within [2 min, 2 max], up to the
   half unit of std::round when the placed size is odd *)
Definition centre_inside (R : rect) (c : ccell) (X Y : Z) : Prop :=
  2 * minX R - placed_w c mod 2 <= 2 * X + placed_w c <= 2 * maxX R + placed_w c mod 2 /\
  2 * minY R - placed_h c mod 2 <= 2 * Y + placed_h c <= 2 * maxY R + placed_h c mod 2.

(* even placed sizes: no slack at all *)
Lemma centre_inside_even : forall R c X Y, centre_inside R c X Y ->
  (placed_w c mod 2 = 0 -> 2 * minX R <= 2 * X + placed_w c <= 2 * maxX R) /\
  (placed_h c mod 2 = 0 -> 2 * minY R <= 2 * Y + placed_h c <= 2 * maxY R).
Proof. intros R c X Y [H1 H2]. split; intros E; rewrite E in *; lia. Qed.

(* [F] every upper bound that GlobalPlacer::run exposes -- at an UpperBound or a PenaltyUpdate callback, at any
   iteration, and the final one -- keeps every movable cell inside the rows' bounding box *)
Theorem run_global_exposed_inside : forall margin maxSize rows cells wrl maxNbSteps nbInitialSteps its vlast s0,
  0 <= margin -> 1 <= maxSize -> has_proper_row rows -> in_window (bbox (map rr rows)) -> cells_window cells ->
  state_len (length cells) s0 -> Forall (oracle_ok margin maxSize rows cells) its ->
  view_of_circuit margin maxSize rows cells vlast = true -> bins_positive cells vlast ->
  forall e, In e (snd (run_global margin rows cells wrl maxNbSteps nbInitialSteps its vlast s0)) ->
  fst e <> KLowerBound ->
  forall i c, nth_error cells i = Some c -> cc_fixed c = false ->
  exists X Y, nth_error (snd e) i = Some (Some (X, Y)) /\ centre_inside (bbox (map rr rows)) c X Y.
Proof.
  intros margin maxSize rows cells wrl mx ni its vlast s0 Hm Hs Hrow Hwin Hcw Hs0 Ho Hv Hp e He Hk i c Hc Hfx.
  destruct (run_global_ok margin maxSize rows cells wrl mx ni its vlast s0 Hs0 Ho Hv Hp) as (Hall & _).
  rewrite Forall_forall in Hall. specialize (Hall e He). unfold event_ok in Hall.
  assert (Hexp : is_ub_exposure margin maxSize rows cells (snd e)) by (destruct (fst e); [congruence|exact Hall|exact Hall]).
  destruct Hexp as (v & tx & ty & V1 & V2 & Lx & Ly & ->).
  assert (Hi : (i < length cells)%nat) by (apply nth_error_Some; congruence).
  apply (ub_exposed_centres_inside_rows_bbox margin maxSize rows cells v tx ty Hm Hs Hrow Hwin Hcw V1 V2 i c Hc Hfx); lia.
Qed.

(* spreadCells for ANY visiting order that reaches every index (what std::sort returns; with a NaN among the targets the
   precondition of std::sort is violated and its result is an unspecified permutation): all entries inside *)
Lemma spread_cells_any_order_inside : forall (order : list fkey) (demands : list f32) (inv lo hi : f32),
  is_finite lo = true -> is_finite hi = true -> (B2R lo <= B2R hi)%R ->
  (forall d, In d demands -> Bleb d fzero = false) ->
  (forall c, (c < length demands)%nat -> In c (map snd order)) ->
  forall c, (c < length demands)%nat ->
  fin_in (B2R lo) (B2R hi)
    (nth c (snd (fold_left (spread_step_f true demands inv lo hi) order (fzero, repeat fzero (length demands)))) fzero).
Proof.
  intros order demands inv lo hi Fl Fh Hle Hpos Hall c Hc.
  apply spread_fold_written; try assumption.
  - cbn [snd]. apply repeat_length.
  - left. apply Hall. exact Hc.
Qed.

End Corollaries.

(* ================================================================== 11. the view hypothesis in the form C16 proves it *)
Require CV.Density CV.DensityProofs.

Section ViewC16.
Local Open Scope Z_scope.

(* what the composition really needs of the limits of a view: strictly increasing, each one a limit of the finest grid *)
Definition limits_view (fine v : list Z) : Prop :=
  DensityProofs.schainZ v /\ forall a, In a v -> In a fine.

Lemma schain_pairs : forall (l : list Z) lo hi, DensityProofs.schainZ l -> In (lo, hi) (pairs l) ->
  lo < hi /\ In lo l /\ In hi l.
Proof.
  unfold pairs. induction l as [|a l IH]; intros lo hi Hs Hin; [destruct Hin|].
  destruct l as [|b l]; [destruct Hin|]. cbn [tl combine] in Hin. destruct Hs as [Hab Hs].
  destruct Hin as [E|Hin].
  - inversion E; subst. split; [exact Hab|]. split; [left; reflexivity|right; left; reflexivity].
  - destruct (IH lo hi Hs Hin) as [H1 [H2 H3]]. split; [exact H1|]. split; right; assumption.
Qed.

Lemma sorted_schain : forall l, StronglySorted Z.lt l -> DensityProofs.schainZ l.
Proof.
  induction l as [|a l IH]; intros Hs; [exact I|]. destruct l as [|b l]; [exact I|].
  inversion Hs as [|? ? Hs' Ha]; subst. split; [inversion Ha; assumption|apply IH; exact Hs'].
Qed.

(* the boolean test of the tie implies it *)
Lemma is_view_limits_view : forall L H fine v, limits_ok L H fine -> is_view fine v = true -> limits_view fine v.
Proof.
  intros L H fine v Hl Hv. apply is_view_subseq in Hv. split.
  - apply sorted_schain. eapply subseqb_sorted; [exact Hv|]. eapply limits_ok_sorted; exact Hl.
  - intros a Ha. eapply subseqb_In; eassumption.
Qed.

Lemma sel_In : forall (l : list Z) idx vs, Density.sel l idx = Some vs -> forall a, In a vs -> In a l.
Proof.
  intros l idx. induction idx as [|k idx IH]; intros vs Hs a Ha; simpl in Hs.
  - inversion Hs; subst. destruct Ha.
  - destruct (nth_error l k) as [v|] eqn:Ek; [|discriminate]. destruct (Density.sel l idx) as [r|]; [|discriminate].
    inversion Hs; subst. destruct Ha as [<-|Ha]; [eapply nth_error_In; exact Ek|eapply IH; [reflexivity|exact Ha]].
Qed.

(* [F] the limits of EVERY level of C16's hierarchy (Density.level_limits over a well-formed hierarchy, theorem
   c16_level_limits_tile) satisfy it *)
Lemma c16_level_limits_view : forall fine nb Lv P lvl vs, (1 <= nb)%nat -> DensityProofs.levels_ok nb Lv P ->
  length fine = S nb -> DensityProofs.schainZ fine ->
  Density.level_limits fine Lv lvl = Some vs -> limits_view fine vs.
Proof.
  intros fine nb Lv P lvl vs Hnb Hlv Hlen Hsc Hv.
  assert (Hl : (lvl < length Lv)%nat).
  { unfold Density.level_limits in Hv. destruct (nth_error Lv lvl) eqn:E; [|discriminate]. apply nth_error_Some. congruence. }
  destruct (DensityProofs.level_limits_tile fine nb Lv P lvl Hnb Hlv Hlen (DensityProofs.schain_chain _ Hsc) Hl)
    as (vs' & E & _ & _ & _ & Hs).
  rewrite Hv in E. inversion E; subst vs'. split; [apply Hs; exact Hsc|].
  unfold Density.level_limits in Hv. destruct (nth_error Lv lvl) as [idx|]; [|discriminate]. eapply sel_In; exact Hv.
Qed.

(* the bins of one direction, from limits_view *)
Lemma view_bins_inside_gen : forall (alo ahi : Z) fine vl (bins : list bin) cells v,
  Z.abs alo <= 2 ^ 24 -> Z.abs ahi <= 2 ^ 24 ->
  limits_ok alo ahi fine -> (2 <= length fine)%nat -> limits_view fine vl ->
  cells_window cells -> bins_positive cells v ->
  (forall b, In b bins -> In (b_lo b, b_hi b) (pairs vl) /\ exists col, In col (v_cells v) /\ In (b_cells b) col) ->
  forall b, In b bins -> bin_inside alo ahi (map cell_demand cells) b.
Proof.
  intros alo ahi fine vl bins cells v Wl Wh Hl Hlen [Hs Hi] Hw Hp Hin b Hb.
  destruct (Hin b Hb) as [Hpair [col [Hcol Hcs]]].
  destruct (schain_pairs _ _ _ Hs Hpair) as [A [B C]].
  pose proof (limits_ok_bounds _ _ _ Hl Hlen) as Bd. rewrite Forall_forall in Bd.
  pose proof (Bd _ (Hi _ B)). pose proof (Bd _ (Hi _ C)).
  unfold bin_inside. repeat split; try lia.
  - apply Hp. eapply bin_cell_in_view; eassumption.
  - apply demand_bound. exact Hw.
Qed.

(* [F] MAIN, general form: the view hypothesis as a Prop (limits_view), which c16_level_limits_view derives from C16's
   hierarchy and is_view_limits_view from the boolean test *)
Theorem ub_exposed_centres_inside_rows_bbox_gen : forall margin maxSize rows cells v tx ty,
  0 <= margin -> 1 <= maxSize -> has_proper_row rows ->
  in_window (bbox (map rr rows)) -> cells_window cells ->
  limits_view (fst (grid_of_circuit margin maxSize rows cells)) (v_x v) ->
  limits_view (snd (grid_of_circuit margin maxSize rows cells)) (v_y v) ->
  bins_positive cells v ->
  forall i c, nth_error cells i = Some c -> cc_fixed c = false -> (i < length tx)%nat -> (i < length ty)%nat ->
  let R := bbox (map rr rows) in
  exists X Y, nth_error (ub_exposure margin rows cells v tx ty) i = Some (Some (X, Y)) /\
    2 * minX R - placed_w c mod 2 <= 2 * X + placed_w c <= 2 * maxX R + placed_w c mod 2 /\
    2 * minY R - placed_h c mod 2 <= 2 * Y + placed_h c <= 2 * maxY R + placed_h c mod 2.
Proof.
  intros margin maxSize rows cells v tx ty Hm Hs Hrow Hwin Hcw Vx Vy Hpos i c Hc Hfx Hix Hiy R.
  set (a := circuit_grid_area margin rows cells).
  destruct (grid_of_circuit margin maxSize rows cells) as [lx ly] eqn:Eg. cbn [fst snd] in Vx, Vy.
  destruct (grid_of_circuit_limits_all margin maxSize rows cells lx ly Hm Hs Hrow Eg)
    as (Hin & Hax & Hay & Hlx & Hly & _ & _).
  fold a in Hin, Hax, Hay, Hlx, Hly. fold R in Hin.
  destruct Hwin as (W1 & W2 & W3 & W4). fold R in W1, W2, W3, W4. unfold rect_in in Hin.
  assert (Wa : Z.abs (minX a) <= 2 ^ 24 /\ Z.abs (maxX a) <= 2 ^ 24 /\ Z.abs (minY a) <= 2 ^ 24 /\ Z.abs (maxY a) <= 2 ^ 24) by lia.
  destruct Wa as (Wa1 & Wa2 & Wa3 & Wa4).
  assert (Elx : lx = limits (minX a) (maxX a) maxSize /\ ly = limits (minY a) (maxY a) maxSize).
  { unfold grid_of_circuit in Eg. fold a in Eg. inversion Eg. split; reflexivity. }
  assert (Llx : (2 <= length lx)%nat) by (destruct Elx as [-> _]; apply limits_length).
  assert (Lly : (2 <= length ly)%nat) by (destruct Elx as [_ ->]; apply limits_length).
  pose proof (view_bins_inside_gen (minX a) (maxX a) lx (v_x v) (bins_x v) cells v Wa1 Wa2 Hlx Llx Vx Hcw Hpos (bins_x_in v)) as Bx.
  pose proof (view_bins_inside_gen (minY a) (maxY a) ly (v_y v) (bins_y v) cells v Wa3 Wa4 Hly Lly Vy Hcw Hpos (bins_y_in v)) as By.
  destruct (spread_coord_f_inside (minX a) (maxX a) (bins_x v) tx (map cell_demand cells) Wa1 Wa2 ltac:(lia) Bx) as [Fx Lx].
  destruct (spread_coord_f_inside (minY a) (maxY a) (bins_y v) ty (map cell_demand cells) Wa3 Wa4 ltac:(lia) By) as [Fy Ly].
  unfold ub_exposure, ub_coords. fold a. cbn [fst snd].
  set (ux := spread_coord_f true (minX a) (maxX a) (bins_x v) tx (map cell_demand cells)) in *.
  set (uy := spread_coord_f true (minY a) (maxY a) (bins_y v) ty (map cell_demand cells)) in *.
  destruct (nth_error ux i) as [x|] eqn:Ex; [|apply nth_error_None in Ex; lia].
  destruct (nth_error uy i) as [y|] eqn:Ey; [|apply nth_error_None in Ey; lia].
  rewrite Forall_forall in Fx, Fy.
  destruct (Fx x (nth_error_In _ _ Ex)) as [Fx1 Fx2]. destruct (Fy y (nth_error_In _ _ Ey)) as [Fy1 Fy2].
  destruct (placed_sizes_window cells c Hcw (nth_error_In _ _ Hc) Hfx) as [Pw Ph].
  destruct (export_coord_f_inside x (minX a) (maxX a) (placed_w c) Fx1 Fx2 Wa1 Wa2 ltac:(lia)) as [X [EX BX]].
  destruct (export_coord_f_inside y (minY a) (maxY a) (placed_h c) Fy1 Fy2 Wa3 Wa4 ltac:(lia)) as [Y [EY BY]].
  exists X, Y. split; [|lia].
  rewrite (export_placement_f_nth cells ux uy i c x y Hc Ex Ey). unfold export_cell_f. rewrite Hfx, EX, EY. reflexivity.
Qed.

End ViewC16.

(* ================================================================== 12. the two models of DensityGrid::fromIspdCircuit agree *)
Section GridBridge.
Local Open Scope Z_scope.

Lemma subdivisions_bridge : forall mn mx q,
  Density.subdivisions mn mx (Z.max 1 q) = Spread.subdivisions mn mx (Z.to_nat (Z.max 1 q)).
Proof.
  intros mn mx q. unfold Density.subdivisions, Spread.subdivisions. apply map_ext. intros i.
  rewrite Z2Nat.id by lia. reflexivity.
Qed.

Lemma limits_bridge : forall (a : rect) bs,
  Density.subdivisions (minX a) (maxX a) (Density.nb_bins (Density.rwidth a) bs) = limits (minX a) (maxX a) bs /\
  Density.subdivisions (minY a) (maxY a) (Density.nb_bins (Density.rheight a) bs) = limits (minY a) (maxY a) bs.
Proof.
  intros a bs. unfold limits, Density.nb_bins, Spread.nb_bins, Density.rwidth, Density.rheight.
  split; apply subdivisions_bridge.
Qed.

(* [F] C16's grid of a circuit (Density.grid_of_circuit) has exactly the bin limits of C06's (Spread.grid_of_circuit) *)
Lemma grid_of_circuit_bridge : forall bs margin rows cells,
  Density.limX (Density.grid_of_circuit bs margin rows cells) = fst (Spread.grid_of_circuit margin bs rows cells) /\
  Density.limY (Density.grid_of_circuit bs margin rows cells) = snd (Spread.grid_of_circuit margin bs rows cells).
Proof.
  intros bs margin rows cells.
  unfold Density.grid_of_circuit, Spread.grid_of_circuit, Spread.circuit_grid_area.
  change (Density.clip_rows margin (map rr (compute_rows_circuit rows [] cells)))
    with (Spread.clip_rows margin (map rr (compute_rows_circuit rows [] cells))).
  destruct (Spread.clip_rows margin (map rr (compute_rows_circuit rows [] cells))) as [|r0 rs] eqn:Ec.
  - unfold Density.make_grid_area, Density.with_capacity, Density.make_grid. cbn [Density.limX Density.limY fst snd].
    change (Density.placement_area [Density.placement_area (map rr rows)]) with (bbox (map rr rows)).
    apply limits_bridge.
  - unfold Density.grid_of_rows, Density.make_grid. cbn [Density.limX Density.limY fst snd].
    change (Density.clip_rows margin (map rr (compute_rows_circuit rows [] cells)))
      with (Spread.clip_rows margin (map rr (compute_rows_circuit rows [] cells))).
    rewrite Ec. unfold grid_area. rewrite Ec.
    change (Density.placement_area (r0 :: rs)) with (bbox (r0 :: rs)).
    apply limits_bridge.
Qed.

End GridBridge.
