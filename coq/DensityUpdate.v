(* C16: the demand-update operation of the hierarchical density placement and histories that contain it.
   Model of (src/place_global/density_grid.cpp, /repo main):
     HierarchicalDensityPlacement::fromIspdCircuit :204-216 / updateCellDemand(const Circuit&) :219-236
       demands[i] = circuit.isFixed(i) ? 0 : circuit.area(i)                      -> circuit_demands
       if ((cellDemand_[i] == 0) != (demands[i] == 0)) throw ...   (for every i)    -> same_zero_status
       cellDemand_ = demands                                                        -> update_demand
   A throw leaves the object untouched (the guard loop runs before the assignment): the refused update is the
   identity.  The bins (binCells_, cellBinX_/Y_) are never touched by the update.
   `assert(circuit.nbCells() == nbCells())` is the length test of same_zero_status.
   Definitions only; proofs in DensityUpdateProofs.v. *)
From Coq Require Import List ZArith Bool.
Import ListNotations.
Require Import CV.Density.
Local Open Scope Z_scope.

(* one cell of the circuit as the update sees it: (fixed, width, height) *)
Definition cell_demand (c : bool * Z * Z) : Z :=
  let '(fx, w, h) := c in if fx then 0 else w * h.
Definition circuit_demands (cells : list (bool * Z * Z)) : list Z := map cell_demand cells.

(* the guard: no demand changes to or from zero *)
Definition same_zero_status (d d' : list Z) : bool :=
  (length d =? length d')%nat
  && forallb (fun p => Bool.eqb (fst p =? 0) (snd p =? 0)) (combine d d').

(* updateCellDemand(circuit) on the demand vector: refused (exception, nothing changes) or replaced *)
Definition update_demand (d d' : list Z) : list Z := if same_zero_status d d' then d' else d.

(* histories: the operations of Density.v (refineX/Y, coarsenX/Y, Redistribute = run/improve/rebisect/...)
   interleaved with demand updates; the state is (current demand vector, allocation) *)
Inductive uop :=
| Op (o : op)
| Update (d' : list Z).

Definition ustep (h : hier) (ds : list Z * hstate) (o : uop) : option (list Z * hstate) :=
  match o with
  | Op o' => match step h (length (fst ds)) (snd ds) o' with
             | Some s' => Some (fst ds, s')
             | None => None
             end
  | Update d' => Some (update_demand (fst ds) d', snd ds)
  end.

Fixpoint run_uops (h : hier) (ds : list Z * hstate) (ops : list uop) : option (list Z * hstate) :=
  match ops with
  | [] => Some ds
  | o :: ops' => match ustep h ds o with Some ds' => run_uops h ds' ops' | None => None end
  end.

(* the demands handed to the updates of a history are areas: non-negative *)
Definition nonnegb (d : list Z) : bool := forallb (fun v => 0 <=? v) d.
Definition updates_nonneg (ops : list uop) : Prop :=
  forall d', In (Update d') ops -> nonnegb d' = true.
