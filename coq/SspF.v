(* C13 -- the model of Ssp.v with the fuel of updateTree's label-correcting loop (cpp:483) as a
   parameter.  Definitions only; proofs in SspTree.v / SspOpt.v, statements in Properties_C13.v.

   Ssp.v first gave the `while (true)` loop of updateTree() the fuel n^3 + 2n + 1 ([cubic_fuel] below), a
   modelling bound that turned out to be insufficient (SspFuelCex.v: the loop is a label-correcting
   search that picks the marked sink of smallest sendingCost_; moving costs can be negative, and such
   searches need exponentially many rounds in the worst case); it now uses the proved budget
   [big_fuel] (tree_fuel = big_fuel, by computation).  Here every definition that (transitively)
   calls update_tree is repeated verbatim with the fuel [tf (length rm)] instead of
   [tree_fuel (length rm)]; everything else is Ssp.v's.  [sspF tree_fuel = ssp] holds by
   computation (ssp_is_sspF in SspOpt.v).  "The C++ loop terminates" is then the statement that some
   fuel makes the model return; [big_fuel] is a fuel for which this is proved. *)
From Coq Require Import List ZArith Bool.
Import ListNotations.
Require Import CV.LpCert CV.Ssp.
Local Open Scope Z_scope.

(* updateTree(), cpp:472-511, fuel tf *)
Definition update_treeF (tf : nat -> positive) (s : St) : res St :=
  let rm := rem s in
  let t0 := mkT (map (fun r => if r >? 0 then 0 else INT_MAX) rm)
                (map (fun _ => None) rm)
                (map (fun r => r >? 0) rm) in
  do t <- run_loop 483 (tf (length rm)) (tree_body (queues s) rm) t0;
  Ok (mkSt (alloc s) (rem s) (t_sc t) (t_par t) (queues s)).

(* sendSource(src, sink, quantity), cpp:513-557 *)
Definition send_source3F (tf : nat -> positive) (pb : Pb) (s : St) (src sink : nat) (quantity : Z) : res (St * Z) :=
  if negb (quantity >? 0) then Fail (EAssert 516) else
  let n := nsnk pb in
  do w1 <- run_loop 519 (chain_fuel n) (walk1_body s) (sink, quantity);
  let (root, m1) := w1 in
  let maxSent := Z.min m1 (getZ (rem s) root) in
  if negb (maxSent >? 0) then Fail (EAssert 526) else
  do w <- run_loop 532 (chain_fuel n) (walk2_body pb (parent s) (rem s) maxSent)
                   (mkW2 (alloc s) (queues s) sink src false);
  let snk1 := w_snk w in
  let al := upd2 (w_al w) snk1 (w_src w) (get2 (w_al w) snk1 (w_src w) + maxSent) in
  let rm := upd (rem s) snk1 (getZ (rem s) snk1 - maxSent) in
  let full := getZ rm snk1 =? 0 in
  let qs := if full then init_queues pb al (w_qs w) snk1 else w_qs w in
  let s1 := mkSt al rm (scost s) (parent s) qs in
  do s2 <- (if w_upd w || full then update_treeF tf s1 else Ok s1);
  Ok (s2, maxSent).

(* sendSource(src), cpp:462-470 *)
Definition send_bodyF (tf : nat -> positive) (pb : Pb) (src : nat) (sr : St * Z) : step (St * Z) (res St) :=
  let (s, remaining) := sr in
  if negb (remaining >? 0) then Done (Ok s) else
  let sink := best_sink pb (scost s) src in
  match send_source3F tf pb s src sink remaining with
  | Fail e => Done (Fail e)
  | Ok (s', sent) => if negb (sent >? 0) then Done (Fail (EAssert 467)) else Continue (s', remaining - sent)
  end.
Definition send_sourceF (tf : nat -> positive) (pb : Pb) (s : St) (src : nat) : res St :=
  let d := getZ (dems pb) src in
  run_loop 464 (Z.to_pos (d + 1)) (send_bodyF tf pb src) (s, d).

(* run(), solve() *)
Definition ssp_runF (tf : nat -> positive) (pb : Pb) : res St :=
  foldM (send_sourceF tf pb) (sorted_sources pb) (init_st pb).
Definition sspF (tf : nat -> positive) (pb : Pb) : res (list (list Z)) := do s <- ssp_runF tf pb; Ok (alloc s).

(* a fuel that provably suffices for every call of updateTree on n sinks: each round lowers
   2 * (sum of the labels) + (number of marked sinks), which starts at most at n * (2 * INT_MAX + 1) *)
Definition big_fuel (n : nat) : positive := Z.to_pos (Z.of_nat n * (2 * INT_MAX + 1) + 1).

(* the budget Ssp.v used before: refuted by SspFuelCex.v *)
Definition cubic_fuel (n : nat) : positive := Pos.of_succ_nat (n * n * n + 2 * n).
