(* Circuit-level soundness of the RAW legalizer model (Legalizer.legalize_circuit), for
   designs whose movable cells are all row-high (so that the Tetris pass places nothing):
   a returned placement is `legal` in the sense of Circuit.v (C01) and honours the row
   polarities (C04).  Built on LegalizerAbacusProofs (Abacus pass, all inputs) and
   FreeSpaceProofs (free segments are inside their rows, disjoint, same orientation). *)
From Coq Require Import List ZArith Lia Bool.
Import ListNotations.
Require Import CV.Orient CV.FreeSpace CV.FreeSpaceProofs CV.RowLeg CV.Circuit CV.CircuitProofs
               CV.Legalizer CV.LegalizerProofs CV.LegalizerAbacusProofs.
Require CV.LegalizerTetrisProofs.
Local Open Scope Z_scope.

(* ------------------------------------------------------------------ *)
(* disjoint rectangles: list lemmas *)

Lemma disjoint_rects_sym a b : disjoint_rects a b -> disjoint_rects b a.
Proof. unfold disjoint_rects. tauto. Qed.

(* s is contained in r *)
Definition inside (s r : rect) : Prop :=
  minX r <= minX s /\ maxX s <= maxX r /\ minY r <= minY s /\ maxY s <= maxY r.

Lemma inside_refl r : inside r r.
Proof. unfold inside. lia. Qed.

Lemma inside_trans a b c : inside a b -> inside b c -> inside a c.
Proof. unfold inside. lia. Qed.

Lemma disjoint_inside r r' s s' :
  disjoint_rects r r' -> inside s r -> inside s' r' -> disjoint_rects s s'.
Proof. unfold disjoint_rects, inside. lia. Qed.

Lemma pd_app l1 l2 :
  pairwise_disjoint (l1 ++ l2) <->
  pairwise_disjoint l1 /\ pairwise_disjoint l2 /\ (forall a b, In a l1 -> In b l2 -> disjoint_rects a b).
Proof.
  induction l1 as [|x l1 IH]; cbn [app pairwise_disjoint].
  - split; [intros H; repeat split; [exact H|intros a b []]|tauto].
  - rewrite IH. split.
    + intros (H1 & H2 & H3 & H4). repeat split; try assumption.
      * intros b Hb. apply H1. apply in_or_app. left. exact Hb.
      * intros a b [<-|Ha] Hb; [apply H1; apply in_or_app; right; exact Hb|apply H4; assumption].
    + intros ((H1 & H2) & H3 & H4). repeat split; try assumption.
      * intros b Hb. apply in_app_or in Hb as [Hb|Hb]; [apply H1; exact Hb|apply H4; [left; reflexivity|exact Hb]].
      * intros a b Ha Hb. apply H4; [right; exact Ha|exact Hb].
Qed.

Lemma pd_nth l : pairwise_disjoint l ->
  forall i j a b, i <> j -> nth_error l i = Some a -> nth_error l j = Some b -> disjoint_rects a b.
Proof.
  induction l as [|x l IH]; intros Hpd i j a b Hne Hi Hj; [destruct i; discriminate|].
  destruct Hpd as [H1 H2]. destruct i as [|i], j as [|j]; cbn [nth_error] in Hi, Hj; try lia.
  - injection Hi as <-. apply H1. eapply nth_error_In; exact Hj.
  - injection Hj as <-. apply disjoint_rects_sym. apply H1. eapply nth_error_In; exact Hi.
  - apply (IH H2 i j); try assumption. lia.
Qed.

Lemma pd_of_nth l :
  (forall i j a b, (i < j)%nat -> nth_error l i = Some a -> nth_error l j = Some b -> disjoint_rects a b) ->
  pairwise_disjoint l.
Proof.
  induction l as [|x l IH]; intros H; cbn [pairwise_disjoint]; [exact I|]. split.
  - intros b Hb. apply In_nth_error in Hb as [j Hj]. apply (H O (S j) x b); [lia|reflexivity|exact Hj].
  - apply IH. intros i j a b Hij Hi Hj. apply (H (S i) (S j) a b); [lia|exact Hi|exact Hj].
Qed.

(* ------------------------------------------------------------------ *)
(* sort_rows is a permutation that keeps pairwise disjointness *)

Lemma insert_row_In r0 l r : In r (insert_row r0 l) <-> r = r0 \/ In r l.
Proof.
  induction l as [|x l IH]; cbn [insert_row In].
  - split; [intros [<-|[]]; left; reflexivity|intros [->|[]]; left; reflexivity].
  - destruct (_ || _); cbn [In].
    + split; [intros [<-|H]; [left; reflexivity|right; exact H]|intros [->|H]; [left; reflexivity|right; exact H]].
    + rewrite IH. split.
      * intros [<-|[->|H]]; [right; left; reflexivity|left; reflexivity|right; right; exact H].
      * intros [->|[<-|H]]; [right; left; reflexivity|left; reflexivity|right; right; exact H].
Qed.

Lemma sort_rows_In l r : In r (sort_rows l) <-> In r l.
Proof.
  induction l as [|x l IH]; cbn [sort_rows fold_right In]; [tauto|].
  fold (sort_rows l). rewrite insert_row_In, IH. split; intros [H|H]; auto.
Qed.

Lemma pd_insert r0 l :
  pairwise_disjoint (map rr (insert_row r0 l)) <-> pairwise_disjoint (map rr (r0 :: l)).
Proof.
  induction l as [|x l IH]; cbn [insert_row]; [tauto|].
  destruct (_ || _); [tauto|]. cbn [map pairwise_disjoint] in *. rewrite IH. split.
  - intros (H1 & H2 & H3). split; [|split].
    + intros b [<-|Hb]; [apply disjoint_rects_sym, H1; apply in_map_iff; exists r0; split; [reflexivity|apply insert_row_In; left; reflexivity]|apply H2; exact Hb].
    + intros b Hb. apply H1. apply in_map_iff in Hb as (s & <- & Hs). apply in_map_iff. exists s.
      split; [reflexivity|apply insert_row_In; right; exact Hs].
    + exact H3.
  - intros (H1 & H2 & H3). split; [|split].
    + intros b Hb. apply in_map_iff in Hb as (s & <- & Hs). apply insert_row_In in Hs as [->|Hs].
      * apply disjoint_rects_sym, H1. left. reflexivity.
      * apply H2. apply in_map_iff. exists s. split; [reflexivity|exact Hs].
    + intros b Hb. apply H1. right. exact Hb.
    + exact H3.
Qed.

Lemma pd_sort l : pairwise_disjoint (map rr l) -> pairwise_disjoint (map rr (sort_rows l)).
Proof.
  induction l as [|x l IH]; cbn [sort_rows fold_right map]; [tauto|]. fold (sort_rows l).
  intros [H1 H2]. apply pd_insert. cbn [map pairwise_disjoint]. split; [|apply IH; exact H2].
  intros b Hb. apply H1. apply in_map_iff in Hb as (s & <- & Hs). apply in_map_iff. exists s.
  split; [reflexivity|apply sort_rows_In; exact Hs].
Qed.

(* splitting every row into disjoint pieces inside it keeps the list pairwise disjoint *)
Lemma pd_flat_map (f : row -> list row) l :
  pairwise_disjoint (map rr l) ->
  (forall r, In r l -> pairwise_disjoint (map rr (f r)) /\ forall s, In s (f r) -> inside (rr s) (rr r)) ->
  pairwise_disjoint (map rr (flat_map f l)).
Proof.
  induction l as [|x l IH]; intros Hpd Hf; cbn [flat_map map]; [exact I|].
  destruct Hpd as [H1 H2]. rewrite map_app. apply pd_app. split; [|split].
  - apply Hf. left. reflexivity.
  - apply IH; [exact H2|]. intros r Hr. apply Hf. right. exact Hr.
  - intros a b Ha Hb. apply in_map_iff in Ha as (s & <- & Hs). apply in_map_iff in Hb as (s' & <- & Hs').
    apply in_flat_map in Hs' as (r' & Hr' & Hs').
    eapply disjoint_inside.
    + apply H1. apply in_map_iff. exists r'. split; [reflexivity|exact Hr'].
    + apply Hf; [left; reflexivity|exact Hs].
    + apply Hf; [right; exact Hr'|exact Hs'].
Qed.

(* the free segments of one row *)
Lemma chain_pd lo hi y1 y2 l : chain lo hi l ->
  pairwise_disjoint (map (fun i : iv => {| minX := fst i; maxX := snd i; minY := y1; maxY := y2 |}) l).
Proof.
  revert lo. induction l as [|[a b] l IH]; intros lo; cbn [chain map pairwise_disjoint]; [tauto|].
  intros (H1 & H2 & H3 & H4). split; [|eapply IH; exact H4].
  intros r Hr. apply in_map_iff in Hr as ([a' b'] & <- & Hin).
  destruct (chain_In _ _ _ _ _ H4 Hin) as (K1 & K2 & K3). unfold disjoint_rects. cbn. lia.
Qed.

Lemma freespace_rows_pd r obs : pairwise_disjoint (map rr (freespace_rows r obs)).
Proof.
  unfold freespace_rows. rewrite map_map. cbn [rr].
  eapply chain_pd. apply freespace_chain.
Qed.

Lemma freespace_rows_inside r obs s : In s (freespace_rows r obs) -> inside (rr s) (rr r).
Proof. intros H. apply freespace_rows_shape in H. unfold inside. lia. Qed.

(* ------------------------------------------------------------------ *)
(* plumbing of Legalizer::run : select / import / remaining_rows / the result list *)

Lemma import_length sel res : forall st, length (import st sel res) = length st.
Proof.
  unfold import. generalize (combine sel res) as l.
  induction l as [|[[ci c] p] l IH]; intros st; cbn [fold_left]; [reflexivity|].
  rewrite IH. destruct p; [apply upd_length|reflexivity].
Qed.

Lemma import_spec sel res st ci v :
  nth_error (import st sel res) ci = Some (Some v) ->
  nth_error st ci = Some (Some v) \/
  exists m c, nth_error sel m = Some (ci, c) /\ nth_error res m = Some (Some v).
Proof.
  unfold import. intros H.
  assert (G : nth_error st ci = Some (Some v) \/ exists c, In ((ci, c), Some v) (combine sel res)).
  { revert st H. generalize (combine sel res) as l.
    induction l as [|[[cj c] p] l IH]; intros st H; cbn [fold_left] in H; [left; exact H|].
    apply IH in H as [H|(c' & Hin)]; [|right; exists c'; right; exact Hin].
    destruct p as [v'|]; [|left; exact H].
    apply nth_error_upd_inv in H as [[-> Hv]|[_ H]]; [|left; exact H].
    right. exists c. left. injection Hv as ->. reflexivity. }
  destruct G as [G|(c & Hin)]; [left; exact G|right].
  apply In_combine_nth_error in Hin as (m & H1 & H2). exists m, c. split; assumption.
Qed.

Lemma select_spec cells st order keep ci c :
  In (ci, c) (select cells st order keep) ->
  nth_error cells ci = Some c /\ nth_error st ci = Some None /\ keep c = true.
Proof.
  unfold select. intros H. apply in_flat_map in H as (cj & _ & H).
  destruct (nth_error cells cj) as [c'|] eqn:E1; [|destruct H].
  destruct (nth_error st cj) as [[v|]|] eqn:E2; try destruct H.
  destruct (keep c') eqn:E3; [|destruct H]. destruct H as [[= <- <-]|[]]. repeat split; assumption.
Qed.

Lemma select_nil cells st order keep :
  (forall c, In c cells -> keep c = false) -> select cells st order keep = [].
Proof.
  intros H. unfold select. induction order as [|ci order IH]; cbn [flat_map]; [reflexivity|].
  rewrite IH, app_nil_r. destruct (nth_error cells ci) as [c|] eqn:E; [|reflexivity].
  destruct (nth_error st ci) as [[v|]|]; try reflexivity.
  rewrite (H c (nth_error_In _ _ E)). reflexivity.
Qed.

Lemma remaining_rows_In rows cells st s :
  In s (remaining_rows rows cells st) -> exists r obs, In r rows /\ In s (freespace_rows r obs).
Proof.
  unfold remaining_rows. intros H. apply in_flat_map in H as (r & Hr & Hs). exists r. eexists. split; eassumption.
Qed.

Lemma remaining_rows_pd rows cells st :
  pairwise_disjoint (map rr rows) -> pairwise_disjoint (map rr (remaining_rows rows cells st)).
Proof.
  intros H. unfold remaining_rows. apply pd_flat_map; [exact H|]. intros r _. split.
  - apply freespace_rows_pd.
  - intros s. apply freespace_rows_inside.
Qed.

Definition is_some (p : placed) : bool := match p with Some _ => true | None => false end.
Definition vals (st : list placed) : list (Z * Z * orient) :=
  flat_map (fun p => match p with Some v => [v] | None => [] end) st.

Lemma all_some_vals st : forallb is_some st = true -> map Some (vals st) = st.
Proof.
  induction st as [|[v|] st IH]; cbn [forallb is_some vals flat_map map app]; [reflexivity| |discriminate].
  intros H. cbn [andb] in H. f_equal. apply IH. exact H.
Qed.

(* Legalizer::run when every cell is exactly one row high: the Tetris pass selects nothing,
   the result is what the Abacus pass on the free segments returns, re-indexed by `order` *)
Lemma legalize_rowhigh rows0 cellsL order pl r0 rest :
  sort_rows rows0 = r0 :: rest ->
  Forall (fun c => ch c = maxY (rr r0) - minY (rr r0)) cellsL ->
  legalize rows0 cellsL order = Ok pl ->
  let rh := maxY (rr r0) - minY (rr r0) in
  let st0 := map (fun _ => @None (Z * Z * orient)) cellsL in
  let sel := select cellsL st0 order (fun c => ch c =? rh) in
  map Some pl = import st0 sel (abacus_run (remaining_rows (sort_rows rows0) cellsL st0) (map snd sel)).
Proof.
  intros Hs Hh. unfold legalize. rewrite Hs. cbv zeta.
  rewrite (select_nil cellsL _ order (fun c => maxY (rr r0) - minY (rr r0) <? ch c)).
  2:{ intros c Hc. rewrite Forall_forall in Hh. rewrite (Hh c Hc). apply Z.ltb_irrefl. }
  cbn [map import combine fold_left].
  match goal with |- (if forallb ?f ?l then _ else _) = _ -> _ => destruct (forallb f l) eqn:E end; [|discriminate].
  intros [= <-]. apply all_some_vals. exact E.
Qed.

(* ------------------------------------------------------------------ *)
(* exportPlacement *)
Definition moved (k : ccell) (v : Z * Z * orient) : ccell :=
  let '(x, y, o) := v in
  {| c_x := x; c_y := y; c_w := c_w k; c_h := c_h k; c_o := o; c_pol := c_pol k;
     c_fixed := c_fixed k; c_obs := c_obs k |}.

Lemma export_movable cs : forall pl,
  length pl = length (filter (fun k => negb (c_fixed k)) cs) ->
  filter (fun k => negb (c_fixed k)) (export_cells cs pl) =
  map (fun kv => moved (fst kv) (snd kv)) (combine (filter (fun k => negb (c_fixed k)) cs) pl).
Proof.
  induction cs as [|k cs IH]; intros pl; cbn [export_cells filter]; [reflexivity|].
  destruct (c_fixed k) eqn:F; cbn [negb].
  - cbn [filter]. rewrite F. cbn [negb]. apply IH.
  - destruct pl as [|[[x y] o] pl]; cbn [length]; [discriminate|]. intros [= Hl].
    cbn [filter c_fixed negb combine map fst snd moved]. rewrite F. f_equal. apply IH. exact Hl.
Qed.

Lemma export_obstacles cs : forall pl,
  flat_map (fun c => match c with (p, fx, ob) => if fx && ob then [p] else [] end)
           (map (fun k => (placement_of k, c_fixed k, c_obs k)) (export_cells cs pl)) =
  flat_map (fun c => match c with (p, fx, ob) => if (fx && ob)%bool then [p] else [] end)
           (map (fun k => (placement_of k, c_fixed k, c_obs k)) cs).
Proof.
  induction cs as [|k cs IH]; intros pl; cbn [export_cells map flat_map]; [reflexivity|].
  destruct (c_fixed k) eqn:F.
  - cbn [map flat_map]. rewrite ?F. f_equal. apply IH.
  - destruct pl as [|[[x y] o] pl]; cbn [map flat_map c_fixed c_obs]; rewrite ?F; cbn [andb app]; apply IH.
Qed.

Lemma export_free_rows c pl :
  free_rows {| rows := rows c; cells := export_cells (cells c) pl |} = free_rows c.
Proof.
  unfold free_rows, compute_rows, obstacles_of. cbn [rows cells]. rewrite export_obstacles. reflexivity.
Qed.

(* ------------------------------------------------------------------ *)
(* Legalizer::run on row-high cells over disjoint segments of one height *)

Definition cellrect (c : cell) (x y : Z) : rect :=
  {| minX := x; maxX := x + cw c; minY := y; maxY := y + ch c |}.

Lemma legalize_norows rows0 cellsL order pl :
  sort_rows rows0 = [] -> legalize rows0 cellsL order = Ok pl -> pl = [] /\ cellsL = [].
Proof.
  intros Hs. unfold legalize. rewrite Hs. cbv zeta.
  destruct (existsb _ order); [discriminate|].
  destruct (length cellsL =? 0)%nat eqn:E; [|discriminate].
  intros [= <-]. split; [reflexivity|]. apply Nat.eqb_eq in E. destruct cellsL; [reflexivity|discriminate].
Qed.

Lemma st0_none (cellsL : list cell) ci v :
  nth_error (map (fun _ : cell => @None (Z * Z * orient)) cellsL) ci = Some (Some v) -> False.
Proof. intros H. apply nth_error_In, in_map_iff in H as (? & H & _). discriminate. Qed.

Theorem legalize_rowhigh_sound rows0 cellsL order pl rh :
  0 < rh ->
  (forall r, In r rows0 -> maxY (rr r) - minY (rr r) = rh) ->
  pairwise_disjoint (map rr rows0) ->
  Forall (fun c => ch c = rh /\ 0 < cw c) cellsL ->
  legalize rows0 cellsL order = Ok pl ->
  length pl = length cellsL /\
  (forall ci c x y o, nth_error cellsL ci = Some c -> nth_error pl ci = Some (x, y, o) ->
     exists r, In r rows0 /\ y = minY (rr r) /\ minX (rr r) <= x /\ x + cw c <= maxX (rr r) /\
               o <> oINVALID /\ o = seg_orientation c r) /\
  (forall ci cj c c' x y o x' y' o', ci <> cj ->
     nth_error cellsL ci = Some c -> nth_error cellsL cj = Some c' ->
     nth_error pl ci = Some (x, y, o) -> nth_error pl cj = Some (x', y', o') ->
     disjoint_rects (cellrect c x y) (cellrect c' x' y')).
Proof.
  intros Hrh Hheight Hpd Hcells Hleg.
  destruct (sort_rows rows0) as [|r0 rest] eqn:Hs.
  { destruct (legalize_norows _ _ _ _ Hs Hleg) as [-> ->]. split; [reflexivity|].
    split; intros ci; intros; destruct ci; discriminate. }
  assert (Hr0 : maxY (rr r0) - minY (rr r0) = rh).
  { apply Hheight. apply sort_rows_In. rewrite Hs. left. reflexivity. }
  assert (Hh : Forall (fun c => ch c = maxY (rr r0) - minY (rr r0)) cellsL).
  { eapply Forall_impl; [|exact Hcells]. intros c [H _]. lia. }
  pose proof (legalize_rowhigh _ _ _ _ _ _ Hs Hh Hleg) as Hpl. cbv zeta in Hpl.
  rewrite Hr0 in Hpl.
  set (st0 := map (fun _ : cell => @None (Z * Z * orient)) cellsL) in *.
  set (sel := select cellsL st0 order (fun c => ch c =? rh)) in *.
  set (rows2 := remaining_rows (sort_rows rows0) cellsL st0) in *.
  set (cells2 := map snd sel) in *.
  (* the abacus pass *)
  assert (Hpos2 : widths_positive cells2).
  { unfold widths_positive, cells2. apply Forall_forall. intros c Hc.
    apply in_map_iff in Hc as ([ci c1] & <- & Hin). apply select_spec in Hin as (Hc1 & _).
    rewrite Forall_forall in Hcells. apply (Hcells c1). eapply nth_error_In; exact Hc1. }
  destruct (abacus_rows_legal rows2 cells2 Hpos2) as (_ & _ & _ & _ & Hin5 & Hdis6).
  pose proof (abacus_orientation_valid rows2 cells2 Hpos2) as Hor. cbv zeta in Hor.
  (* a value of pl comes from a position m of sel *)
  assert (Horigin : forall ci c v, nth_error cellsL ci = Some c -> nth_error pl ci = Some v ->
            exists m, nth_error cells2 m = Some c /\ nth_error (abacus_run rows2 cells2) m = Some (Some v) /\
                      nth_error sel m = Some (ci, c)).
  { intros ci c v Hc Hv. apply (map_nth_error Some) in Hv. rewrite Hpl in Hv.
    apply import_spec in Hv as [Hv|(m & c1 & Hm & Hres)]; [exfalso; eapply st0_none; exact Hv|].
    pose proof (select_spec _ _ _ _ _ _ (nth_error_In _ _ Hm)) as (Hc1 & _).
    rewrite Hc in Hc1. injection Hc1 as <-.
    exists m. split; [|split; [exact Hres|exact Hm]].
    unfold cells2. rewrite (map_nth_error snd _ _ Hm). reflexivity. }
  (* a segment of the abacus pass is inside a segment of rows0 with the same y-range and orientation *)
  assert (Hseg : forall i r, nth_error (sort_rows rows2) i = Some r ->
            exists r1, In r1 rows0 /\ minY (rr r) = minY (rr r1) /\ maxY (rr r) = maxY (rr r1) /\
                       ro r = ro r1 /\ minX (rr r1) <= minX (rr r) /\ maxX (rr r) <= maxX (rr r1)).
  { intros i r Hr. apply nth_error_In in Hr. apply (proj1 (sort_rows_In _ _)) in Hr. unfold rows2 in Hr.
    apply remaining_rows_In in Hr as (r1 & obs & Hr1 & Hin). apply (proj1 (sort_rows_In _ _)) in Hr1.
    apply freespace_rows_shape in Hin. destruct Hin as (A & B & C & D & E & F).
    exists r1. repeat split; try assumption; lia. }
  assert (Hpd2 : pairwise_disjoint (map rr (sort_rows rows2))).
  { apply pd_sort. apply remaining_rows_pd. apply pd_sort. exact Hpd. }
  split; [|split].
  - apply (f_equal (@length _)) in Hpl. rewrite map_length, import_length in Hpl.
    unfold st0 in Hpl. rewrite map_length in Hpl. exact Hpl.
  - intros ci c x y o Hc Hv.
    destruct (Horigin ci c _ Hc Hv) as (m & Hm & Hres & _).
    destruct (Hor m c x y o Hm Hres) as (i & r & rc & H1 & _ & _ & (S1 & S2 & S3 & S4) & _ & O1 & _ & _ & O4).
    destruct (Hseg i r H1) as (r1 & R1 & R2 & R3 & R4 & R5 & R6).
    exists r1. unfold seg_orientation in *. rewrite <- R4. repeat split; try assumption; lia.
  - intros ci cj c c' x y o x' y' o' Hne Hc Hc' Hv Hv'.
    destruct (Horigin ci c _ Hc Hv) as (m & Hm & Hres & Hsel).
    destruct (Horigin cj c' _ Hc' Hv') as (m' & Hm' & Hres' & Hsel').
    assert (Hmm : m <> m') by (intros ->; rewrite Hsel in Hsel'; congruence).
    destruct (Hin5 m c x y o Hm Hres) as (i & r & rc & H1 & H2 & H3 & (S1 & S2 & S3 & S4)).
    destruct (Hin5 m' c' x' y' o' Hm' Hres') as (i' & r' & rc' & H1' & H2' & H3' & (S1' & S2' & S3' & S4')).
    destruct (Nat.eq_dec i i') as [<-|Hii].
    + rewrite H2 in H2'. injection H2' as <-.
      destruct (Hdis6 i rc m m' c c' x y o x' y' o' H2 H3 H3' Hmm Hm Hm' Hres Hres') as [D|D];
        unfold disjoint_rects, cellrect; cbn; lia.
    + pose proof (pd_nth _ Hpd2 i i' (rr r) (rr r') Hii (map_nth_error rr _ _ H1) (map_nth_error rr _ _ H1')) as D.
      eapply disjoint_inside; [exact D| |]; unfold inside, cellrect; cbn; lia.
Qed.

(* ------------------------------------------------------------------ *)
(* circuit level *)

(* the domain: rows of one positive height rh, pairwise disjoint, not turned; every movable
   cell has positive placed width, placed height exactly rh (row-high: no Tetris pass),
   and is not turned unless it has no polarity (its orientation is then kept) *)
Definition rowhigh_design (c : circuit) (rh : Z) : Prop :=
  0 < rh /\
  (forall r, In r (rows c) -> maxY (rr r) - minY (rr r) = rh) /\
  pairwise_disjoint (map rr (rows c)) /\
  (forall r, In r (rows c) -> is_turn (ro r) = false) /\
  (forall k, In k (movable c) ->
     0 < maxX (placement_of k) - minX (placement_of k) /\
     maxY (placement_of k) - minY (placement_of k) = rh /\
     (is_turn (c_o k) = false \/ c_pol k = pANY)).

Lemma nth_error_map_inv {A B} (f : A -> B) l i b :
  nth_error (map f l) i = Some b -> exists a, nth_error l i = Some a /\ b = f a.
Proof.
  revert i. induction l as [|x l IH]; intros [|i]; cbn [map nth_error]; try discriminate.
  - intros [= <-]. exists x. split; reflexivity.
  - apply IH.
Qed.

Lemma nth_error_combine_inv {A B} (l : list A) (l' : list B) i a b :
  nth_error (combine l l') i = Some (a, b) -> nth_error l i = Some a /\ nth_error l' i = Some b.
Proof.
  revert l' i. induction l as [|x l IH]; intros [|y l'] [|i]; cbn [combine nth_error]; try discriminate.
  - intros [= <- <-]. split; reflexivity.
  - apply IH.
Qed.

Lemma row_height_uniform c rh :
  rows c <> [] -> (forall r, In r (rows c) -> maxY (rr r) - minY (rr r) = rh) -> row_height c = Some rh.
Proof.
  unfold row_height. destruct (rows c) as [|r rs]; [congruence|]. intros _ H.
  rewrite (H r (or_introl eq_refl)).
  replace (forallb _ rs) with true; [reflexivity|]. symmetry. apply forallb_forall.
  intros r' Hr'. apply Z.eqb_eq. apply H. right. exact Hr'.
Qed.

Lemma free_rows_In c s :
  In s (free_rows c) -> exists r obs, In r (rows c) /\ In s (freespace_rows r obs).
Proof.
  unfold free_rows, compute_rows. intros H. apply in_flat_map in H as (r & Hr & Hs).
  exists r. eexists. split; eassumption.
Qed.

Lemma free_rows_pd c : pairwise_disjoint (map rr (rows c)) -> pairwise_disjoint (map rr (free_rows c)).
Proof.
  intros H. unfold free_rows, compute_rows. apply pd_flat_map; [exact H|]. intros r _. split.
  - apply freespace_rows_pd.
  - intros s. apply freespace_rows_inside.
Qed.

(* the orientation given in a non-turned row keeps the cell's turn *)
Lemma seg_orientation_turn c r :
  is_turn (ro r) = false -> (is_turn (cor c) = false \/ cpol c = pANY) ->
  is_turn (seg_orientation c r) = is_turn (cor c).
Proof.
  unfold seg_orientation. intros Hr [Hc|Hp].
  - destruct (orient_eqb _ oUNKNOWN); [reflexivity|]. rewrite Hc.
    destruct (cpol c), (ro r); cbn in *; try reflexivity; discriminate.
  - rewrite Hp. reflexivity.
Qed.

Lemma placement_moved k x y o :
  is_turn o = is_turn (c_o k) ->
  placement_of (moved k (x, y, o)) = cellrect (leg_cell_of k) x y.
Proof.
  intros H. unfold placement_of, moved, cellrect, leg_cell_of, placement_of, cell_placement.
  cbn [c_x c_y c_w c_h c_o cw ch minX maxX minY maxY]. rewrite H. f_equal; lia.
Qed.

Theorem legalize_circuit_rowhigh_legal c order c' rh :
  rowhigh_design c rh -> legalize_circuit c order = LegOk c' -> legal c'.
Proof.
  intros (Hrh & Hheight & Hpd & Hturn & Hmov). unfold legalize_circuit.
  destruct (legalize (free_rows c) (leg_cells c) order) as [pl| |] eqn:Hleg; try discriminate.
  intros [= <-].
  (* facts about the free segments *)
  assert (Hfh : forall s, In s (free_rows c) -> maxY (rr s) - minY (rr s) = rh).
  { intros s Hs. apply free_rows_In in Hs as (r & obs & Hr & Hs). apply freespace_rows_shape in Hs.
    specialize (Hheight r Hr). lia. }
  assert (Hcells : Forall (fun lc => ch lc = rh /\ 0 < cw lc) (leg_cells c)).
  { apply Forall_forall. intros lc Hlc. unfold leg_cells in Hlc. apply in_map_iff in Hlc as (k & <- & Hk).
    destruct (Hmov k Hk) as (H1 & H2 & _). unfold leg_cell_of. cbn [cw ch]. split; [exact H2|exact H1]. }
  destruct (legalize_rowhigh_sound _ _ _ _ _ Hrh Hfh (free_rows_pd c Hpd) Hcells Hleg) as (Hlen & Hcell & Hdis).
  unfold leg_cells in Hlen. rewrite map_length in Hlen.
  set (c' := {| rows := rows c; cells := export_cells (cells c) pl |}).
  assert (Hmv : movable c' = map (fun kv => moved (fst kv) (snd kv)) (combine (movable c) pl)).
  { unfold movable, c'. cbn [cells]. apply export_movable. exact Hlen. }
  (* every moved cell *)
  assert (Hone : forall ci k x y o, nth_error (movable c) ci = Some k -> nth_error pl ci = Some (x, y, o) ->
     placement_of (moved k (x, y, o)) = cellrect (leg_cell_of k) x y /\
     exists s, In s (free_rows c) /\ y = minY (rr s) /\ minX (rr s) <= x /\ x + cw (leg_cell_of k) <= maxX (rr s)).
  { intros ci k x y o Hk Hv.
    assert (Hlc : nth_error (leg_cells c) ci = Some (leg_cell_of k)) by (apply map_nth_error; exact Hk).
    destruct (Hcell ci _ x y o Hlc Hv) as (s & Hs & Hy & Hx1 & Hx2 & _ & Ho).
    split; [|exists s; repeat split; assumption].
    apply placement_moved. rewrite Ho.
    destruct (free_rows_In _ _ Hs) as (r & obs & Hr & Hsr). apply freespace_rows_shape in Hsr.
    destruct Hsr as (_ & _ & Hro & _).
    replace (c_o k) with (cor (leg_cell_of k)) by reflexivity.
    apply seg_orientation_turn.
    - rewrite Hro. apply Hturn. exact Hr.
    - cbn [leg_cell_of cor cpol]. apply (Hmov k). eapply nth_error_In; exact Hk. }
  unfold legal.
  assert (Hcase : rows c = [] \/ rows c <> []) by (destruct (rows c); [left; reflexivity|right; discriminate]).
  destruct Hcase as [Hrows|Hrows].
  { (* no row at all: nothing was movable *)
    assert (Hfr : free_rows c = []) by (unfold free_rows, compute_rows; rewrite Hrows; reflexivity).
    rewrite Hfr in Hleg. destruct (legalize_norows [] _ _ _ eq_refl Hleg) as [-> Hnil].
    unfold row_height. cbn [rows c']. rewrite Hrows. rewrite Hmv.
    unfold leg_cells in Hnil. apply map_eq_nil in Hnil. rewrite Hnil. reflexivity. }
  assert (Hrhc : row_height c' = Some rh).
  { apply row_height_uniform; cbn [rows c']; [exact Hrows|exact Hheight]. }
  rewrite Hrhc. split; [exact Hrh|]. split.
  - intros k' Hk'. rewrite Hmv in Hk'. apply in_map_iff in Hk' as ([k [[x y] o]] & <- & Hin).
    apply In_nth_error in Hin as [ci Hci]. apply nth_error_combine_inv in Hci as [Hk Hv].
    destruct (Hone ci k x y o Hk Hv) as (Hp & s & Hs & Hy & Hx1 & Hx2).
    cbn [fst snd]. unfold cell_legal. cbv zeta. rewrite Hp.
    destruct (Hmov k (nth_error_In _ _ Hk)) as (Hw & Hh & _).
    unfold cellrect. cbn [minX maxX minY maxY]. unfold leg_cell_of at 1 2 3. cbn [cw ch].
    split; [lia|]. exists 1%nat. split; [lia|]. split; [lia|]. split.
    + destruct (free_rows_In _ _ Hs) as (r & obs & Hr & Hsr). apply freespace_rows_shape in Hsr.
      exists r. cbn [rows c']. split; [exact Hr|]. lia.
    + intros j Hj. assert (j = O) by lia. subst j. unfold strip_in_segment.
      unfold c'. rewrite export_free_rows. exists s. cbn [minX maxX minY maxY].
      specialize (Hfh s Hs). unfold leg_cell_of in Hx2. cbn [cw] in Hx2. repeat split; try assumption; lia.
  - apply pd_of_nth. intros i j a b Hij Ha Hb. rewrite Hmv, map_map in Ha, Hb.
    apply nth_error_map_inv in Ha as ([k [[x y] o]] & Ha & ->).
    apply nth_error_map_inv in Hb as ([k2 [[x2 y2] o2]] & Hb & ->).
    apply nth_error_combine_inv in Ha as [Hk Hv]. apply nth_error_combine_inv in Hb as [Hk2 Hv2].
    cbn [fst snd].
    destruct (Hone i k x y o Hk Hv) as (-> & _). destruct (Hone j k2 x2 y2 o2 Hk2 Hv2) as (-> & _).
    apply (Hdis i j _ _ x y o x2 y2 o2); try assumption; try lia; apply map_nth_error; assumption.
Qed.

Print Assumptions legalize_rowhigh_sound.
Print Assumptions legalize_circuit_rowhigh_legal.

(* ================================================================== *)
(* The general case: Tetris pass (cells higher than a row) then Abacus pass (row-high
   cells) on the segments left free by the cells the Tetris pass placed *)

(* the obstacles remaining_rows subtracts: the placed cells *)
Definition placed_obs (cells : list cell) (st : list placed) : list rect :=
  flat_map (fun '(c, p) => match p with
      | Some (x, y, _) => [{| minX := x; maxX := x + cw c; minY := y; maxY := y + ch c |}] | None => [] end) (combine cells st).

Lemma remaining_rows_eq rows cells st :
  remaining_rows rows cells st = flat_map (fun r => freespace_rows r (placed_obs cells st)) rows.
Proof. reflexivity. Qed.

Lemma placed_obs_In cells : forall st ci c x y o,
  nth_error cells ci = Some c -> nth_error st ci = Some (Some (x, y, o)) ->
  In (cellrect c x y) (placed_obs cells st).
Proof.
  unfold placed_obs. induction cells as [|c0 cells IH]; intros [|p st] [|ci] c x y o; cbn [nth_error combine flat_map];
    try discriminate.
  - intros [= ->] [= ->]. apply in_or_app. left. left. reflexivity.
  - intros Hc Hs. apply in_or_app. right. eapply IH; eassumption.
Qed.

(* a free segment is clear, in x, of every obstacle that meets the row in y *)
Lemma freespace_rows_clear r obs s o :
  In s (freespace_rows r obs) -> In o obs -> blocks (rr r) o = true ->
  maxX o <= minX (rr s) \/ maxX (rr s) <= minX o.
Proof.
  intros Hs Ho Hb. pose proof (freespace_rows_shape _ _ _ Hs) as (_ & _ & _ & _ & Hne & _).
  unfold freespace_rows in Hs. apply in_map_iff in Hs as ([a b] & <- & Hin). cbn [rr minX maxX fst snd] in *.
  destruct (Z_le_gt_dec (maxX o) a) as [|H1]; [left; assumption|].
  destruct (Z_le_gt_dec b (minX o)) as [|H2]; [right; assumption|]. exfalso.
  assert (Hbx : minX o < maxX o).
  { unfold blocks in Hb. apply andb_true_iff in Hb as [Hb _]. apply andb_true_iff in Hb as [Hb _].
    apply andb_true_iff in Hb as [Hb _]. apply Z.ltb_lt in Hb. exact Hb. }
  assert (Hiv : in_ivs (Z.max a (minX o)) (freespace_iv (rr r) obs)).
  { exists (a, b). split; [exact Hin|]. unfold in_iv. cbn [fst snd]. lia. }
  apply freespace_exact in Hiv as (_ & _ & Hall). apply (Hall o Ho Hb). lia.
Qed.

Lemma legalize_unfold rows0 cellsL order pl r0 rest :
  sort_rows rows0 = r0 :: rest -> legalize rows0 cellsL order = Ok pl ->
  let rh := maxY (rr r0) - minY (rr r0) in
  let rows := sort_rows rows0 in
  let st0 := map (fun _ => @None (Z * Z * orient)) cellsL in
  let sel1 := select cellsL st0 order (fun c => rh <? ch c) in
  let st1 := import st0 sel1 (tetris_run (remaining_rows rows cellsL st0) (map snd sel1)) in
  let sel2 := select cellsL st1 order (fun c => ch c =? rh) in
  map Some pl = import st1 sel2 (abacus_run (remaining_rows rows cellsL st1) (map snd sel2)).
Proof.
  intros Hs. unfold legalize. rewrite Hs. cbv zeta.
  match goal with |- (if forallb ?f ?l then _ else _) = _ -> _ => destruct (forallb f l) eqn:E end; [|discriminate].
  intros [= <-]. apply all_some_vals. exact E.
Qed.

Lemma get_orientation_seg rows c i o :
  get_orientation rows c i = Some o -> exists r, nthZ rows i = Some r /\ o = seg_orientation c r.
Proof.
  unfold get_orientation. destruct (nthZ rows i) as [r|]; [|discriminate]. intros [= <-].
  exists r. split; reflexivity.
Qed.

(* rows0: pairwise disjoint, of height rh; no cell changes its turn in any of them *)
Definition no_turn_change (rows0 : list row) (cellsL : list cell) : Prop :=
  forall c r, In c cellsL -> In r rows0 -> is_turn (seg_orientation c r) = is_turn (cor c).

Theorem legalize_sound rows0 cellsL order pl rh :
  0 < rh ->
  (forall r, In r rows0 -> maxY (rr r) - minY (rr r) = rh) ->
  pairwise_disjoint (map rr rows0) ->
  Forall (fun c => 0 < cw c /\ 0 < ch c) cellsL ->
  no_turn_change rows0 cellsL ->
  legalize rows0 cellsL order = Ok pl ->
  length pl = length cellsL /\
  (forall ci c x y o, nth_error cellsL ci = Some c -> nth_error pl ci = Some (x, y, o) ->
     o <> oINVALID /\ is_turn o = is_turn (cor c) /\
     (exists r', In r' rows0 /\ o = seg_orientation c r' /\ minY (rr r') = y) /\
     forall j, 0 <= j -> j * rh < ch c ->
       exists r, In r rows0 /\ minY (rr r) = y + j * rh /\ minX (rr r) <= x /\ x + cw c <= maxX (rr r)) /\
  (forall ci cj c c' x y o x' y' o', ci <> cj ->
     nth_error cellsL ci = Some c -> nth_error cellsL cj = Some c' ->
     nth_error pl ci = Some (x, y, o) -> nth_error pl cj = Some (x', y', o') ->
     disjoint_rects (cellrect c x y) (cellrect c' x' y')).
Proof.
  intros Hrh Hheight Hpd Hcells Hturn Hleg.
  destruct (sort_rows rows0) as [|r0 rest] eqn:Hs.
  { destruct (legalize_norows _ _ _ _ Hs Hleg) as [-> ->]. split; [reflexivity|].
    split; intros ci; intros; destruct ci; discriminate. }
  assert (Hr0 : maxY (rr r0) - minY (rr r0) = rh).
  { apply Hheight. apply sort_rows_In. rewrite Hs. left. reflexivity. }
  pose proof (legalize_unfold _ _ _ _ _ _ Hs Hleg) as Hpl. cbv zeta in Hpl. rewrite Hr0 in Hpl.
  set (st0 := map (fun _ : cell => @None (Z * Z * orient)) cellsL) in *.
  set (sel1 := select cellsL st0 order (fun c => rh <? ch c)) in *.
  set (rowsT := remaining_rows (sort_rows rows0) cellsL st0) in *.
  set (cellsT := map snd sel1) in *.
  set (st1 := import st0 sel1 (tetris_run rowsT cellsT)) in *.
  set (sel2 := select cellsL st1 order (fun c => ch c =? rh)) in *.
  set (rowsA := remaining_rows (sort_rows rows0) cellsL st1) in *.
  set (cellsA := map snd sel2) in *.
  rewrite Forall_forall in Hcells.
  (* segments of either pass *)
  assert (Hseg : forall st r, In r (sort_rows (remaining_rows (sort_rows rows0) cellsL st)) ->
            exists r1, In r1 rows0 /\ minY (rr r) = minY (rr r1) /\ maxY (rr r) = maxY (rr r1) /\
                       ro r = ro r1 /\ minX (rr r1) <= minX (rr r) /\ maxX (rr r) <= maxX (rr r1)).
  { intros st r Hr. apply (proj1 (sort_rows_In _ _)) in Hr.
    apply remaining_rows_In in Hr as (r1 & obs & Hr1 & Hin). apply (proj1 (sort_rows_In _ _)) in Hr1.
    apply freespace_rows_shape in Hin. destruct Hin as (A & B & C & D & E & F).
    exists r1. repeat split; try assumption; lia. }
  assert (Hpdst : forall st, pairwise_disjoint (map rr (sort_rows (remaining_rows (sort_rows rows0) cellsL st)))).
  { intros st. apply pd_sort. apply remaining_rows_pd. apply pd_sort. exact Hpd. }
  (* ---- the Tetris pass ---- *)
  assert (HposT : Forall (fun c => 0 < cw c /\ 0 < ch c) cellsT).
  { apply Forall_forall. intros c Hc. apply in_map_iff in Hc as ([ci c1] & <- & Hin).
    apply select_spec in Hin as (Hc1 & _). apply (Hcells c1). eapply nth_error_In; exact Hc1. }
  assert (HuniT : LegalizerTetrisProofs.rows_uniform rh (sort_rows rowsT)).
  { split; [exact Hrh|]. apply Forall_forall. intros r Hr.
    destruct (Hseg st0 r Hr) as (r1 & R1 & R2 & R3 & _). specialize (Hheight r1 R1). lia. }
  assert (HdisT : LegalizerTetrisProofs.rows_disjoint (sort_rows rowsT)).
  { intros i j ri rj Hij Hi Hj.
    exact (pd_nth _ (Hpdst st0) i j _ _ Hij (map_nth_error rr _ _ Hi) (map_nth_error rr _ _ Hj)). }
  destruct (LegalizerTetrisProofs.tetris_rows_legal rowsT cellsT rh HuniT HdisT HposT) as (_ & HT1 & HT2).
  (* a value of st1 comes from the Tetris pass; the cell keeps its dimensions *)
  assert (HoriginT : forall ci c v, nth_error cellsL ci = Some c -> nth_error st1 ci = Some (Some v) ->
            exists m, nth_error cellsT m = Some c /\ nth_error (tetris_run rowsT cellsT) m = Some (Some v) /\
                      nth_error sel1 m = Some (ci, c)).
  { intros ci c v Hc Hv. unfold st1 in Hv.
    apply import_spec in Hv as [Hv|(m & c1 & Hm & Hres)]; [exfalso; eapply st0_none; exact Hv|].
    pose proof (select_spec _ _ _ _ _ _ (nth_error_In _ _ Hm)) as (Hc1 & _).
    rewrite Hc in Hc1. injection Hc1 as <-.
    exists m. split; [|split; [exact Hres|exact Hm]].
    unfold cellsT. rewrite (map_nth_error snd _ _ Hm). reflexivity. }
  assert (HT : forall m c x y o, In c cellsL ->
            nth_error cellsT m = Some c -> nth_error (tetris_run rowsT cellsT) m = Some (Some (x, y, o)) ->
            o <> oINVALID /\ is_turn o = is_turn (cor c) /\
            (exists r', In r' rows0 /\ o = seg_orientation c r' /\ minY (rr r') = y) /\
            LegalizerTetrisProofs.t_dims c o = (cw c, ch c)).
  { intros m c x y o Hin Hm Hres. destruct (HT1 m c x y o Hm Hres) as (Ho & Hinv & (r0' & Hr0' & Hy0) & _).
    apply get_orientation_seg in Ho as (r' & Hr' & ->). rewrite Hr0' in Hr'. injection Hr' as ->.
    apply nthZ_Some in Hr0' as [_ Hr'].
    destruct (Hseg st0 r' (nth_error_In _ _ Hr')) as (r1 & R1 & R2 & _ & R4 & _).
    assert (E : seg_orientation c r' = seg_orientation c r1) by (unfold seg_orientation; rewrite R4; reflexivity).
    assert (Ht : is_turn (seg_orientation c r') = is_turn (cor c)) by (rewrite E; apply Hturn; assumption).
    split; [exact Hinv|]. split; [exact Ht|]. split; [exists r1; split; [exact R1|split; [exact E|lia]]|].
    unfold LegalizerTetrisProofs.t_dims. rewrite Ht. rewrite xorb_nilpotent. reflexivity. }
  (* ---- the Abacus pass ---- *)
  assert (HposA : widths_positive cellsA).
  { unfold widths_positive. apply Forall_forall. intros c Hc. apply in_map_iff in Hc as ([ci c1] & <- & Hin).
    apply select_spec in Hin as (Hc1 & _). apply (Hcells c1). eapply nth_error_In; exact Hc1. }
  destruct (abacus_rows_legal rowsA cellsA HposA) as (_ & _ & _ & _ & Hin5 & Hdis6).
  pose proof (abacus_orientation_valid rowsA cellsA HposA) as Hor. cbv zeta in Hor.
  (* a value of pl is a Tetris value of st1, or an Abacus value of a cell st1 left unplaced *)
  assert (Horigin : forall ci c v, nth_error cellsL ci = Some c -> nth_error pl ci = Some v ->
            nth_error st1 ci = Some (Some v) \/
            (ch c = rh /\ exists m, nth_error cellsA m = Some c /\ nth_error (abacus_run rowsA cellsA) m = Some (Some v) /\
                       nth_error sel2 m = Some (ci, c))).
  { intros ci c v Hc Hv. apply (map_nth_error Some) in Hv. rewrite Hpl in Hv.
    apply import_spec in Hv as [Hv|(m & c1 & Hm & Hres)]; [left; exact Hv|right].
    pose proof (select_spec _ _ _ _ _ _ (nth_error_In _ _ Hm)) as (Hc1 & _ & Hk).
    rewrite Hc in Hc1. injection Hc1 as <-. apply Z.eqb_eq in Hk. split; [exact Hk|].
    exists m. split; [|split; [exact Hres|exact Hm]].
    unfold cellsA. rewrite (map_nth_error snd _ _ Hm). reflexivity. }
  (* a Tetris cell and an Abacus cell *)
  assert (HTA : forall ci c x y o m c' x' y' o',
            nth_error cellsL ci = Some c -> nth_error st1 ci = Some (Some (x, y, o)) ->
            nth_error cellsA m = Some c' -> nth_error (abacus_run rowsA cellsA) m = Some (Some (x', y', o')) ->
            disjoint_rects (cellrect c x y) (cellrect c' x' y')).
  { intros ci c x y o m c' x' y' o' Hc Hst Hm Hres.
    destruct (Hin5 m c' x' y' o' Hm Hres) as (i & r & rc & H1 & _ & _ & (S1 & S2 & S3 & S4)).
    apply nth_error_In in H1. apply (proj1 (sort_rows_In _ _)) in H1. unfold rowsA in H1.
    rewrite remaining_rows_eq in H1. apply in_flat_map in H1 as (r1 & Hr1 & Hsr).
    pose proof (placed_obs_In _ _ _ _ _ _ _ Hc Hst) as Hobs.
    pose proof (freespace_rows_shape _ _ _ Hsr) as (Y1 & Y2 & _).
    destruct (Hcells c (nth_error_In _ _ Hc)) as [Hw Hh].
    destruct (blocks (rr r1) (cellrect c x y)) eqn:Hb.
    - destruct (freespace_rows_clear _ _ _ _ Hsr Hobs Hb) as [D|D];
        unfold disjoint_rects, cellrect in *; cbn [minX maxX minY maxY] in *; lia.
    - unfold blocks, cellrect in Hb. cbn [minX maxX minY maxY] in Hb.
      apply andb_false_iff in Hb as [Hb|Hb]; [apply andb_false_iff in Hb as [Hb|Hb]; [apply andb_false_iff in Hb as [Hb|Hb]|]|];
        apply Z.ltb_ge in Hb; unfold disjoint_rects, cellrect; cbn [minX maxX minY maxY]; lia. }
  split; [|split].
  - apply (f_equal (@length _)) in Hpl. rewrite map_length, import_length in Hpl.
    unfold st1 in Hpl. rewrite import_length in Hpl. unfold st0 in Hpl. rewrite map_length in Hpl. exact Hpl.
  - intros ci c x y o Hc Hv. pose proof (nth_error_In _ _ Hc) as Hcin.
    destruct (Horigin ci c _ Hc Hv) as [Hst|(Hch & m & Hm & Hres & _)].
    + destruct (HoriginT ci c _ Hc Hst) as (m & Hm & Hres & _).
      destruct (HT m c x y o Hcin Hm Hres) as (O1 & O2 & O3 & Hd).
      split; [exact O1|]. split; [exact O2|]. split; [exact O3|].
      intros j Hj0 Hj. destruct (HT1 m c x y o Hm Hres) as (_ & _ & _ & Hlev). rewrite Hd in Hlev. cbn [fst snd] in Hlev.
      destruct (Hlev j Hj0 Hj) as (r & Hr & L1 & L2 & L3).
      destruct (Hseg st0 r Hr) as (r1 & R1 & R2 & R3 & R4 & R5 & R6).
      exists r1. split; [exact R1|]. lia.
    + destruct (Hor m c x y o Hm Hres) as (i & r & rc & H1 & _ & _ & (S1 & S2 & S3 & S4) & _ & O1 & _ & _ & O4).
      destruct (Hseg st1 r (nth_error_In _ _ H1)) as (r1 & R1 & R2 & R3 & R4 & R5 & R6).
      assert (E : seg_orientation c r = seg_orientation c r1) by (unfold seg_orientation; rewrite R4; reflexivity).
      split; [exact O1|]. split; [rewrite O4, E; apply Hturn; assumption|].
      split; [exists r1; split; [exact R1|split; [rewrite O4; exact E|lia]]|].
      intros j Hj0 Hj. assert (j = 0) by nia. subst j. exists r1. split; [exact R1|]. lia.
  - intros ci cj c c' x y o x' y' o' Hne Hc Hc' Hv Hv'.
    pose proof (nth_error_In _ _ Hc) as Hcin. pose proof (nth_error_In _ _ Hc') as Hcin'.
    destruct (Horigin ci c _ Hc Hv) as [Hst|(Hch & m & Hm & Hres & Hsel)];
      destruct (Horigin cj c' _ Hc' Hv') as [Hst'|(Hch' & m' & Hm' & Hres' & Hsel')].
    + (* both from the Tetris pass *)
      destruct (HoriginT ci c _ Hc Hst) as (m & Hm & Hres & Hsel).
      destruct (HoriginT cj c' _ Hc' Hst') as (m' & Hm' & Hres' & Hsel').
      assert (Hmm : m <> m') by (intros ->; rewrite Hsel in Hsel'; congruence).
      destruct (HT m c x y o Hcin Hm Hres) as (_ & _ & _ & Hd).
      destruct (HT m' c' x' y' o' Hcin' Hm' Hres') as (_ & _ & _ & Hd').
      pose proof (HT2 m m' c c' x y o x' y' o' Hmm Hm Hm' Hres Hres') as D.
      rewrite Hd, Hd' in D. exact D.
    + eapply HTA; eassumption.
    + apply disjoint_rects_sym. eapply HTA; eassumption.
    + (* both from the Abacus pass *)
      assert (Hmm : m <> m') by (intros ->; rewrite Hsel in Hsel'; congruence).
      destruct (Hin5 m c x y o Hm Hres) as (i & r & rc & H1 & H2 & H3 & (S1 & S2 & S3 & S4)).
      destruct (Hin5 m' c' x' y' o' Hm' Hres') as (i' & r' & rc' & H1' & H2' & H3' & (S1' & S2' & S3' & S4')).
      destruct (Nat.eq_dec i i') as [<-|Hii].
      * rewrite H2 in H2'. injection H2' as <-.
        destruct (Hdis6 i rc m m' c c' x y o x' y' o' H2 H3 H3' Hmm Hm Hm' Hres Hres') as [D|D];
          unfold disjoint_rects, cellrect; cbn; lia.
      * pose proof (pd_nth _ (Hpdst st1) i i' (rr r) (rr r') Hii (map_nth_error rr _ _ H1) (map_nth_error rr _ _ H1')) as D.
        eapply disjoint_inside; [exact D| |]; unfold inside, cellrect; cbn; lia.
Qed.

Print Assumptions legalize_sound.

(* ------------------------------------------------------------------ *)
(* circuit level, general: rows of one positive height rh, pairwise disjoint, not turned;
   every movable cell has positive placed width, placed height a positive multiple of rh,
   and is not turned unless it has no polarity *)
Definition std_design (c : circuit) (rh : Z) : Prop :=
  0 < rh /\
  (forall r, In r (rows c) -> maxY (rr r) - minY (rr r) = rh) /\
  pairwise_disjoint (map rr (rows c)) /\
  (forall r, In r (rows c) -> is_turn (ro r) = false) /\
  (forall k, In k (movable c) ->
     0 < maxX (placement_of k) - minX (placement_of k) /\
     (exists n : nat, (0 < n)%nat /\ maxY (placement_of k) - minY (placement_of k) = Z.of_nat n * rh) /\
     (is_turn (c_o k) = false \/ c_pol k = pANY)).

Lemma rowhigh_is_std c rh : rowhigh_design c rh -> std_design c rh.
Proof.
  intros (H1 & H2 & H3 & H4 & H5). repeat split; try assumption; destruct (H5 k H) as (A & B & C); try assumption.
  exists 1%nat. split; lia.
Qed.

Theorem legalize_circuit_legal c order c' rh :
  std_design c rh -> legalize_circuit c order = LegOk c' -> legal c'.
Proof.
  intros (Hrh & Hheight & Hpd & Hturn & Hmov). unfold legalize_circuit.
  destruct (legalize (free_rows c) (leg_cells c) order) as [pl| |] eqn:Hleg; try discriminate.
  intros [= <-].
  assert (Hfh : forall s, In s (free_rows c) -> maxY (rr s) - minY (rr s) = rh).
  { intros s Hs. apply free_rows_In in Hs as (r & obs & Hr & Hs). apply freespace_rows_shape in Hs.
    specialize (Hheight r Hr). lia. }
  assert (Hcells : Forall (fun lc => 0 < cw lc /\ 0 < ch lc) (leg_cells c)).
  { apply Forall_forall. intros lc Hlc. unfold leg_cells in Hlc. apply in_map_iff in Hlc as (k & <- & Hk).
    destruct (Hmov k Hk) as (H1 & (n & Hn & H2) & _). unfold leg_cell_of. cbn [cw ch]. split; [exact H1|nia]. }
  assert (Hntc : no_turn_change (free_rows c) (leg_cells c)).
  { intros lc s Hlc Hs. unfold leg_cells in Hlc. apply in_map_iff in Hlc as (k & <- & Hk).
    apply free_rows_In in Hs as (r & obs & Hr & Hs). apply freespace_rows_shape in Hs.
    destruct Hs as (_ & _ & Hro & _). apply seg_orientation_turn.
    - rewrite Hro. apply Hturn. exact Hr.
    - cbn [leg_cell_of cor cpol]. apply (Hmov k Hk). }
  destruct (legalize_sound _ _ _ _ _ Hrh Hfh (free_rows_pd c Hpd) Hcells Hntc Hleg) as (Hlen & Hcell & Hdis).
  unfold leg_cells in Hlen. rewrite map_length in Hlen.
  set (c' := {| rows := rows c; cells := export_cells (cells c) pl |}).
  assert (Hmv : movable c' = map (fun kv => moved (fst kv) (snd kv)) (combine (movable c) pl)).
  { unfold movable, c'. cbn [cells]. apply export_movable. exact Hlen. }
  assert (Hone : forall ci k x y o, nth_error (movable c) ci = Some k -> nth_error pl ci = Some (x, y, o) ->
     placement_of (moved k (x, y, o)) = cellrect (leg_cell_of k) x y /\
     forall j, 0 <= j -> j * rh < ch (leg_cell_of k) ->
       exists s, In s (free_rows c) /\ minY (rr s) = y + j * rh /\ minX (rr s) <= x /\
                 x + cw (leg_cell_of k) <= maxX (rr s)).
  { intros ci k x y o Hk Hv.
    assert (Hlc : nth_error (leg_cells c) ci = Some (leg_cell_of k)) by (apply map_nth_error; exact Hk).
    destruct (Hcell ci _ x y o Hlc Hv) as (_ & Ht & _ & Hlev).
    split; [apply placement_moved; exact Ht|exact Hlev]. }
  unfold legal.
  assert (Hcase : rows c = [] \/ rows c <> []) by (destruct (rows c); [left; reflexivity|right; discriminate]).
  destruct Hcase as [Hrows|Hrows].
  { assert (Hfr : free_rows c = []) by (unfold free_rows, compute_rows; rewrite Hrows; reflexivity).
    rewrite Hfr in Hleg. destruct (legalize_norows [] _ _ _ eq_refl Hleg) as [-> Hnil].
    unfold row_height. cbn [rows c']. rewrite Hrows. rewrite Hmv.
    unfold leg_cells in Hnil. apply map_eq_nil in Hnil. rewrite Hnil. reflexivity. }
  assert (Hrhc : row_height c' = Some rh).
  { apply row_height_uniform; cbn [rows c']; [exact Hrows|exact Hheight]. }
  rewrite Hrhc. split; [exact Hrh|]. split.
  - intros k' Hk'. rewrite Hmv in Hk'. apply in_map_iff in Hk' as ([k [[x y] o]] & <- & Hin).
    apply In_nth_error in Hin as [ci Hci]. apply nth_error_combine_inv in Hci as [Hk Hv].
    destruct (Hone ci k x y o Hk Hv) as (Hp & Hlev).
    cbn [fst snd]. unfold cell_legal. cbv zeta. rewrite Hp.
    destruct (Hmov k (nth_error_In _ _ Hk)) as (Hw & (n & Hn & Hh) & _).
    unfold leg_cell_of in Hlev. cbn [cw ch] in Hlev.
    unfold cellrect. cbn [minX maxX minY maxY]. unfold leg_cell_of. cbn [cw ch].
    split; [lia|]. exists n. split; [exact Hn|]. split; [lia|]. split.
    + destruct (Hlev 0) as (s & Hs & L1 & _); [lia|nia|].
      destruct (free_rows_In _ _ Hs) as (r & obs & Hr & Hsr). apply freespace_rows_shape in Hsr.
      exists r. cbn [rows c']. split; [exact Hr|]. lia.
    + intros j Hj. destruct (Hlev (Z.of_nat j)) as (s & Hs & L1 & L2 & L3); [lia|nia|].
      unfold strip_in_segment. unfold c'. rewrite export_free_rows. exists s. cbn [minX maxX minY maxY].
      specialize (Hfh s Hs). repeat split; try assumption; lia.
  - apply pd_of_nth. intros i j a b Hij Ha Hb. rewrite Hmv, map_map in Ha, Hb.
    apply nth_error_map_inv in Ha as ([k [[x y] o]] & Ha & ->).
    apply nth_error_map_inv in Hb as ([k2 [[x2 y2] o2]] & Hb & ->).
    apply nth_error_combine_inv in Ha as [Hk Hv]. apply nth_error_combine_inv in Hb as [Hk2 Hv2].
    cbn [fst snd].
    destruct (Hone i k x y o Hk Hv) as (-> & _). destruct (Hone j k2 x2 y2 o2 Hk2 Hv2) as (-> & _).
    apply (Hdis i j _ _ x y o x2 y2 o2); try assumption; try lia; apply map_nth_error; assumption.
Qed.

Print Assumptions legalize_circuit_legal.

(* ================================================================== *)
(* C04 at the circuit level: orientations after a successful legalization *)

Lemma find_In_some {A} (f : A -> bool) (l : list A) x : In x l -> f x = true -> exists y, find f l = Some y.
Proof.
  induction l as [|a l IH]; intros Hin Hf; [destruct Hin|]. cbn [find].
  destruct (f a) eqn:E; [exists a; reflexivity|]. destruct Hin as [->|Hin]; [congruence|]. apply IH; assumption.
Qed.

Lemma export_cells_length cs : forall pl, length (export_cells cs pl) = length cs.
Proof.
  induction cs as [|k cs IH]; intros pl; cbn [export_cells]; [reflexivity|].
  destruct (c_fixed k); [cbn [length]; rewrite IH; reflexivity|].
  destruct pl as [|[[x y] o] pl]; cbn [length]; rewrite IH; reflexivity.
Qed.

(* what exportPlacement pairs every cell with *)
Lemma export_pairs cs : forall pl b a,
  length pl = length (filter (fun k => negb (c_fixed k)) cs) ->
  In (b, a) (combine cs (export_cells cs pl)) ->
  (c_fixed b = true /\ a = b) \/
  (exists ci v, nth_error (filter (fun k => negb (c_fixed k)) cs) ci = Some b /\ nth_error pl ci = Some v /\
                a = moved b v).
Proof.
  induction cs as [|k cs IH]; intros pl b a; cbn [export_cells filter combine]; [intros _ []|].
  destruct (c_fixed k) eqn:F; cbn [negb].
  - cbn [combine In]. intros Hl [[= <- <-]|Hin]; [left; split; [exact F|reflexivity]|]. apply (IH pl); assumption.
  - destruct pl as [|[[x y] o] pl]; cbn [length]; [discriminate|]. intros [= Hl]. cbn [combine In].
    intros [[= <- <-]|Hin].
    + right. exists O, (x, y, o). cbn [nth_error moved]. rewrite F. repeat split; reflexivity.
    + destruct (IH pl b a Hl Hin) as [H|(ci & v & H1 & H2 & H3)]; [left; exact H|].
      right. exists (S ci), v. cbn [nth_error]. repeat split; assumption.
Qed.

Lemma moved_orient_ok (c' : circuit) k x y o oR :
  (exists r2, In r2 (rows c') /\ minY (rr r2) = y /\ minX (rr r2) <= x < maxX (rr r2)) ->
  (forall r3, In r3 (rows c') -> minY (rr r3) = y -> minX (rr r3) <= x < maxX (rr r3) -> ro r3 = oR) ->
  oR <> oUNKNOWN ->
  o = (let t := cell_orientation_in_row (c_pol k) oR in if orient_eqb t oUNKNOWN then c_o k else t) ->
  o <> oINVALID ->
  cell_orient_ok c' k (moved k (x, y, o)).
Proof.
  intros (r2 & Hr2 & Hy2 & Hx2) Hsame HoR Ho Hinv. unfold cell_orient_ok, moved.
  cbn [c_fixed c_pol c_o]. intros _. split.
  - intros Hp. rewrite Hp in Ho. cbn in Ho. exact Ho.
  - intros Hp.
    assert (Hex : exists r3, row_under c' {| c_x := x; c_y := y; c_w := c_w k; c_h := c_h k; c_o := o;
                       c_pol := c_pol k; c_fixed := c_fixed k; c_obs := c_obs k |} = Some r3).
    { unfold row_under. cbn [c_x c_y]. eapply find_In_some; [exact Hr2|].
      apply andb_true_iff; split; [apply andb_true_iff; split|];
        [apply Z.eqb_eq|apply Z.leb_le|apply Z.ltb_lt]; lia. }
    destruct Hex as (r3 & Hr3). exists r3, o. split; [exact Hr3|].
    unfold row_under in Hr3. cbn [c_x c_y] in Hr3. apply find_some in Hr3 as [Hin3 Hp3].
    apply andb_true_iff in Hp3 as [Hp3 P3]. apply andb_true_iff in Hp3 as [P1 P2].
    apply Z.eqb_eq in P1. apply Z.leb_le in P2. apply Z.ltb_lt in P3.
    rewrite (Hsame r3 Hin3 P1 (conj P2 P3)).
    split; [|split; [reflexivity|exact Hinv]].
    apply prescribed_of_table; try assumption. cbv zeta in Ho.
    destruct (orient_eqb (cell_orientation_in_row (c_pol k) oR) oUNKNOWN) eqn:E; [|exact Ho].
    apply orient_eqb_eq in E. exfalso. destruct (c_pol k), oR; cbn in E; congruence.
Qed.

(* rows sharing a bottom edge have the same orientation (the orientation of a cell higher
   than a row is read from the FIRST segment at its bottom y: see the refutation below) *)
Definition row_orient_by_y (c : circuit) : Prop :=
  forall r r', In r (rows c) -> In r' (rows c) -> minY (rr r) = minY (rr r') -> ro r = ro r'.

Theorem legalize_circuit_orient_ok c order c' rh :
  std_design c rh -> (forall r, In r (rows c) -> ro r <> oUNKNOWN) -> row_orient_by_y c ->
  legalize_circuit c order = LegOk c' -> orient_ok c c'.
Proof.
  intros (Hrh & Hheight & Hpd & Hturn & Hmov) Hunk Hby. unfold legalize_circuit.
  destruct (legalize (free_rows c) (leg_cells c) order) as [pl| |] eqn:Hleg; try discriminate.
  intros [= <-].
  assert (Hfh : forall s, In s (free_rows c) -> maxY (rr s) - minY (rr s) = rh).
  { intros s Hs. apply free_rows_In in Hs as (r & obs & Hr & Hs). apply freespace_rows_shape in Hs.
    specialize (Hheight r Hr). lia. }
  assert (Hcells : Forall (fun lc => 0 < cw lc /\ 0 < ch lc) (leg_cells c)).
  { apply Forall_forall. intros lc Hlc. unfold leg_cells in Hlc. apply in_map_iff in Hlc as (k & <- & Hk).
    destruct (Hmov k Hk) as (H1 & (n & Hn & H2) & _). unfold leg_cell_of. cbn [cw ch]. split; [exact H1|nia]. }
  assert (Hntc : no_turn_change (free_rows c) (leg_cells c)).
  { intros lc s Hlc Hs. unfold leg_cells in Hlc. apply in_map_iff in Hlc as (k & <- & Hk).
    apply free_rows_In in Hs as (r & obs & Hr & Hs). apply freespace_rows_shape in Hs.
    destruct Hs as (_ & _ & Hro & _). apply seg_orientation_turn.
    - rewrite Hro. apply Hturn. exact Hr.
    - cbn [leg_cell_of cor cpol]. apply (Hmov k Hk). }
  destruct (legalize_sound _ _ _ _ _ Hrh Hfh (free_rows_pd c Hpd) Hcells Hntc Hleg) as (Hlen & Hcell & _).
  unfold leg_cells in Hlen. rewrite map_length in Hlen.
  unfold orient_ok. cbn [cells]. split.
  - symmetry. apply export_cells_length.
  - intros b a Hin. apply export_pairs in Hin as [[Hf ->]|(ci & [[x y] o] & Hk & Hv & ->)]; [| |exact Hlen].
    + unfold cell_orient_ok. intros Hf'. congruence.
    + assert (Hlc : nth_error (leg_cells c) ci = Some (leg_cell_of b)) by (apply map_nth_error; exact Hk).
      destruct (Hcell ci _ x y o Hlc Hv) as (Hinv & _ & (r' & Hr' & Ho & Hy') & Hlev).
      destruct (Hmov b (nth_error_In _ _ Hk)) as (Hw & (n & Hn & Hh) & _).
      destruct (Hlev 0) as (s & Hs & L1 & L2 & L3); [lia|unfold leg_cell_of; cbn [ch]; nia|].
      unfold leg_cell_of in L3. cbn [cw] in L3.
      destruct (free_rows_In _ _ Hs) as (r2 & obs & Hr2 & Hsr). apply freespace_rows_shape in Hsr.
      destruct (free_rows_In _ _ Hr') as (r4 & obs' & Hr4 & Hsr'). apply freespace_rows_shape in Hsr'.
      apply (moved_orient_ok _ b x y o (ro r4)).
      * exists r2. cbn [rows]. split; [exact Hr2|]. lia.
      * cbn [rows]. intros r3 Hr3 Hy3 _. apply Hby; [exact Hr3|exact Hr4|lia].
      * apply Hunk. exact Hr4.
      * rewrite Ho. unfold seg_orientation. cbn [leg_cell_of cpol cor].
        destruct Hsr' as (_ & _ & -> & _). reflexivity.
      * exact Hinv.
Qed.

(* row-high designs: no assumption on the orientations of side-by-side rows, the cell
   gets the orientation prescribed by the very row it sits on *)
Lemma rows_point_unique l rh x y r2 r3 :
  pairwise_disjoint (map rr l) -> 0 < rh -> (forall r, In r l -> maxY (rr r) - minY (rr r) = rh) ->
  In r2 l -> In r3 l -> minY (rr r2) = y -> minY (rr r3) = y ->
  minX (rr r2) <= x < maxX (rr r2) -> minX (rr r3) <= x < maxX (rr r3) -> r2 = r3.
Proof.
  intros Hpd Hrh Hh H2 H3 Y2 Y3 X2 X3.
  apply In_nth_error in H2 as [i Hi]. apply In_nth_error in H3 as [j Hj].
  destruct (Nat.eq_dec i j) as [->|Hne]; [congruence|]. exfalso.
  pose proof (pd_nth _ Hpd i j _ _ Hne (map_nth_error rr _ _ Hi) (map_nth_error rr _ _ Hj)) as D.
  pose proof (Hh r2 (nth_error_In _ _ Hi)). pose proof (Hh r3 (nth_error_In _ _ Hj)).
  unfold disjoint_rects in D. lia.
Qed.

Theorem legalize_circuit_rowhigh_orient_ok c order c' rh :
  rowhigh_design c rh -> (forall r, In r (rows c) -> ro r <> oUNKNOWN) ->
  legalize_circuit c order = LegOk c' -> orient_ok c c'.
Proof.
  intros (Hrh & Hheight & Hpd & Hturn & Hmov) Hunk. unfold legalize_circuit.
  destruct (legalize (free_rows c) (leg_cells c) order) as [pl| |] eqn:Hleg; try discriminate.
  intros [= <-].
  assert (Hfh : forall s, In s (free_rows c) -> maxY (rr s) - minY (rr s) = rh).
  { intros s Hs. apply free_rows_In in Hs as (r & obs & Hr & Hs). apply freespace_rows_shape in Hs.
    specialize (Hheight r Hr). lia. }
  assert (Hcells : Forall (fun lc => ch lc = rh /\ 0 < cw lc) (leg_cells c)).
  { apply Forall_forall. intros lc Hlc. unfold leg_cells in Hlc. apply in_map_iff in Hlc as (k & <- & Hk).
    destruct (Hmov k Hk) as (H1 & H2 & _). unfold leg_cell_of. cbn [cw ch]. split; [exact H2|exact H1]. }
  destruct (legalize_rowhigh_sound _ _ _ _ _ Hrh Hfh (free_rows_pd c Hpd) Hcells Hleg) as (Hlen & Hcell & _).
  unfold leg_cells in Hlen. rewrite map_length in Hlen.
  unfold orient_ok. cbn [cells]. split.
  - symmetry. apply export_cells_length.
  - intros b a Hin. apply export_pairs in Hin as [[Hf ->]|(ci & [[x y] o] & Hk & Hv & ->)]; [| |exact Hlen].
    + unfold cell_orient_ok. intros Hf'. congruence.
    + assert (Hlc : nth_error (leg_cells c) ci = Some (leg_cell_of b)) by (apply map_nth_error; exact Hk).
      destruct (Hcell ci _ x y o Hlc Hv) as (s & Hs & Hy & L2 & L3 & Hinv & Ho).
      destruct (Hmov b (nth_error_In _ _ Hk)) as (Hw & Hh & _).
      unfold leg_cell_of in L3. cbn [cw] in L3.
      destruct (free_rows_In _ _ Hs) as (r2 & obs & Hr2 & Hsr). apply freespace_rows_shape in Hsr.
      apply (moved_orient_ok _ b x y o (ro r2)).
      * exists r2. cbn [rows]. split; [exact Hr2|]. lia.
      * cbn [rows]. intros r3 Hr3 Hy3 Hx3. f_equal.
        apply (rows_point_unique (rows c) rh x y r3 r2 Hpd Hrh Hheight Hr3 Hr2); try assumption; lia.
      * apply Hunk. exact Hr2.
      * rewrite Ho. unfold seg_orientation. cbn [leg_cell_of cpol cor].
        destruct Hsr as (_ & _ & -> & _). reflexivity.
      * exact Hinv.
Qed.

Print Assumptions legalize_circuit_orient_ok.
Print Assumptions legalize_circuit_rowhigh_orient_ok.

(* ================================================================== *)
(* The two side conditions are necessary (witnesses; the C++ returns the same placements) *)

(* (1) a polarised, TURNED, row-high cell: the Abacus pass keeps the dimensions of the
   original orientation while the orientation it assigns is not turned (stored 2x4, E,
   polarity SAME, rows of height 2: exported as FS, i.e. 2 wide and 4 high, sticking out
   of the rows) *)
Definition w_turned : circuit :=
  {| rows := [ {| rr := {| minX := 0; maxX := 10; minY := 0; maxY := 2 |}; ro := oN |};
               {| rr := {| minX := 0; maxX := 10; minY := 2; maxY := 4 |}; ro := oFS |} ];
     cells := [ {| c_x := 3; c_y := 2; c_w := 2; c_h := 4; c_o := oE; c_pol := pSAME; c_fixed := false; c_obs := true |} ] |}.

Theorem turned_polarised_cell_refuted :
  exists c', legalize_circuit w_turned [0%nat] = LegOk c' /\ legalb c' = false /\
  (* everything std_design asks holds, except "not turned unless no polarity" *)
  row_height w_turned = Some 2 /\ pairwise_disjoint (map rr (rows w_turned)) /\
  (forall r, In r (rows w_turned) -> is_turn (ro r) = false) /\
  (forall k, In k (movable w_turned) ->
     0 < maxX (placement_of k) - minX (placement_of k) /\ maxY (placement_of k) - minY (placement_of k) = 2).
Proof.
  eexists. split; [vm_compute; reflexivity|]. split; [vm_compute; reflexivity|]. split; [reflexivity|].
  split; [apply pairwise_disjointb_spec; vm_compute; reflexivity|]. split.
  - intros r [<-|[<-|[]]]; reflexivity.
  - intros k Hk. vm_compute in Hk. destruct Hk as [<-|[]]. split; vm_compute; reflexivity.
Qed.

(* (2) two rows side by side with different orientations and a polarised cell two rows
   high: the Tetris pass reads the orientation from the first segment at the cell's bottom
   y (closestRow), not from the segment the cell is put on *)
Definition w_sidebyside : circuit :=
  {| rows := [ {| rr := {| minX := 0; maxX := 10; minY := 0; maxY := 2 |}; ro := oN |};
               {| rr := {| minX := 10; maxX := 20; minY := 0; maxY := 2 |}; ro := oS |};
               {| rr := {| minX := 0; maxX := 10; minY := 2; maxY := 4 |}; ro := oFS |};
               {| rr := {| minX := 10; maxX := 20; minY := 2; maxY := 4 |}; ro := oFN |} ];
     cells := [ {| c_x := 14; c_y := 0; c_w := 3; c_h := 4; c_o := oN; c_pol := pSAME; c_fixed := false; c_obs := true |} ] |}.

Lemma w_sidebyside_std : std_design w_sidebyside 2.
Proof.
  split; [lia|]. split; [|split; [|split]].
  - intros r [<-|[<-|[<-|[<-|[]]]]]; reflexivity.
  - apply pairwise_disjointb_spec. vm_compute. reflexivity.
  - intros r [<-|[<-|[<-|[<-|[]]]]]; reflexivity.
  - intros k Hk. vm_compute in Hk. destruct Hk as [<-|[]]. split; [vm_compute; reflexivity|].
    split; [exists 2%nat; split; [lia|vm_compute; reflexivity]|left; reflexivity].
Qed.

Theorem sidebyside_orientation_refuted :
  exists c', std_design w_sidebyside 2 /\ (forall r, In r (rows w_sidebyside) -> ro r <> oUNKNOWN) /\
             legalize_circuit w_sidebyside [0%nat] = LegOk c' /\ legal c' /\ orient_okb w_sidebyside c' = false.
Proof.
  eexists. split; [exact w_sidebyside_std|]. split.
  - intros r [<-|[<-|[<-|[<-|[]]]]]; discriminate.
  - split; [vm_compute; reflexivity|]. split; [apply legalb_correct; vm_compute; reflexivity|vm_compute; reflexivity].
Qed.

Print Assumptions turned_polarised_cell_refuted.
Print Assumptions sidebyside_orientation_refuted.
