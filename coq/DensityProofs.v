(* C16 -- proofs about the model in Density.v (density grid, hierarchy, cell-to-bin allocation).
   Statements that make up the property are collected in Properties_C16.v.  No axioms. *)
From Coq Require Import List ZArith Lia Bool Arith Permutation.
Import ListNotations.
Require Import CV.FreeSpace CV.Density.
Local Open Scope Z_scope.

(* ------------------------------------------------------------------ generic list facts *)

Fixpoint chainZ (l : list Z) : Prop :=
  match l with a :: ((b :: _) as t) => a <= b /\ chainZ t | _ => True end.
Fixpoint schainZ (l : list Z) : Prop :=
  match l with a :: ((b :: _) as t) => a < b /\ schainZ t | _ => True end.

Lemma chain_map_seq (f : nat -> Z) s k : (forall i, f i <= f (S i)) -> chainZ (map f (seq s k)).
Proof.
  intros Hf. revert s. induction k as [|k IH]; intros s; simpl; auto.
  destruct k; simpl; auto. split; [apply Hf | apply (IH (S s))].
Qed.
Lemma schain_map_seq (f : nat -> Z) s k : (forall i, f i < f (S i)) -> schainZ (map f (seq s k)).
Proof.
  intros Hf. revert s. induction k as [|k IH]; intros s; simpl; auto.
  destruct k; simpl; auto. split; [apply Hf | apply (IH (S s))].
Qed.
Lemma schain_chain l : schainZ l -> chainZ l.
Proof. induction l as [|a t IH]; simpl; auto. destruct t; auto. intros [H1 H2]. split; [lia | apply IH; auto]. Qed.

(* ------------------------------------------------------------------ computeSubdivisions *)

Lemma subdiv_length mn mx n : length (subdivisions mn mx n) = S (Z.to_nat n).
Proof. unfold subdivisions. now rewrite map_length, seq_length. Qed.

Lemma subdiv_nth mn mx n i : (i <= Z.to_nat n)%nat ->
  nth_error (subdivisions mn mx n) i = Some (mn + Z.quot (Z.of_nat i * (mx - mn)) n).
Proof.
  intros Hi. unfold subdivisions.
  rewrite nth_error_map, nth_error_nth' with (d := 0%nat) by (rewrite seq_length; lia).
  rewrite seq_nth by lia. reflexivity.
Qed.

Lemma subdiv_first mn mx n : nth_error (subdivisions mn mx n) 0 = Some mn.
Proof. rewrite subdiv_nth by lia. simpl. f_equal. unfold Z.quot. simpl. lia. Qed.

Lemma subdiv_last mn mx n : 1 <= n ->
  nth_error (subdivisions mn mx n) (Z.to_nat n) = Some mx.
Proof.
  intros Hn. rewrite subdiv_nth by lia. f_equal. rewrite Z2Nat.id by lia.
  rewrite Z.mul_comm, Z.quot_mul by lia. lia.
Qed.

Lemma quot_step_le w n i : 0 <= w -> 1 <= n ->
  Z.quot (Z.of_nat i * w) n <= Z.quot (Z.of_nat (S i) * w) n.
Proof. intros Hw Hn. apply Z.quot_le_mono; nia. Qed.

Lemma quot_step_lt w n i : n <= w -> 1 <= n ->
  Z.quot (Z.of_nat i * w) n < Z.quot (Z.of_nat (S i) * w) n.
Proof.
  intros Hw Hn. rewrite !Z.quot_div_nonneg by nia.
  replace (Z.of_nat (S i) * w) with (Z.of_nat i * w + w) by lia.
  assert (Z.of_nat i * w / n + 1 <= (Z.of_nat i * w + w) / n); [|lia].
  replace (Z.of_nat i * w / n + 1) with ((Z.of_nat i * w + 1 * n) / n) by (rewrite Z.div_add by lia; lia).
  apply Z.div_le_mono; lia.
Qed.

Lemma subdiv_chain mn mx n : mn <= mx -> 1 <= n -> chainZ (subdivisions mn mx n).
Proof.
  intros. unfold subdivisions. apply chain_map_seq. intros i.
  pose proof (quot_step_le (mx - mn) n i). lia.
Qed.

Lemma subdiv_schain mn mx n : 1 <= n -> n <= mx - mn -> schainZ (subdivisions mn mx n).
Proof.
  intros. unfold subdivisions. apply schain_map_seq. intros i.
  pose proof (quot_step_lt (mx - mn) n i). lia.
Qed.

(* first / last element of a non-empty list *)
Definition hdZ (l : list Z) := hd 0 l.
Definition lastZ (l : list Z) := last l 0.

Lemma subdiv_hd mn mx n : hdZ (subdivisions mn mx n) = mn.
Proof. pose proof (subdiv_first mn mx n) as H. unfold hdZ. destruct (subdivisions mn mx n); simpl in *; congruence. Qed.

Lemma last_nth_error {A} (l : list A) d : l <> [] -> nth_error l (length l - 1) = Some (last l d).
Proof.
  induction l as [|a t IH]; [congruence|]. intros _. destruct t as [|b t'].
  - reflexivity.
  - assert (E : (length (a :: b :: t') - 1 = S (length (b :: t') - 1))%nat) by (simpl; lia).
    rewrite E. change (nth_error (a :: b :: t') (S (length (b :: t') - 1))) with (nth_error (b :: t') (length (b :: t') - 1)).
    rewrite IH by congruence. reflexivity.
Qed.

Lemma subdiv_lastZ mn mx n : 1 <= n -> lastZ (subdivisions mn mx n) = mx.
Proof.
  intros Hn. pose proof (subdiv_last mn mx n Hn) as H.
  assert (Hne : subdivisions mn mx n <> []) by (intro E; apply (f_equal (@length Z)) in E; rewrite subdiv_length in E; discriminate).
  pose proof (last_nth_error (subdivisions mn mx n) 0 Hne) as H2. rewrite subdiv_length in H2.
  replace (S (Z.to_nat n) - 1)%nat with (Z.to_nat n) in H2 by lia. unfold lastZ. congruence.
Qed.

(* ------------------------------------------------------------------ capacity *)

Definition proper (r : rect) : Prop := minX r <= maxX r /\ minY r <= maxY r.

(* length of [a,b] /\ [p,q] *)
Definition ovl (a b p q : Z) : Z := Z.max 0 (Z.min b q - Z.max a p).

(* area of the intersection of two proper rectangles *)
Definition inter_area (r b : rect) : Z :=
  ovl (minX r) (maxX r) (minX b) (maxX b) * ovl (minY r) (maxY r) (minY b) (maxY b).

Lemma contrib_inter_area r b : proper r -> proper b -> contrib r b = inter_area r b.
Proof.
  intros [Hx Hy] [Bx By]. unfold contrib, inter_area, rintersects, rarea, rwidth, rheight, rintersection, ovl. simpl.
  destruct (Z.ltb_spec (minX r) (maxX b)); simpl;
    [destruct (Z.ltb_spec (minX b) (maxX r)); simpl;
      [destruct (Z.ltb_spec (minY r) (maxY b)); simpl;
        [destruct (Z.ltb_spec (minY b) (maxY r)); simpl|]|]|].
  - rewrite (Z.max_r 0 (Z.min (maxX r) (maxX b) - Z.max (minX r) (minX b))) by lia.
    rewrite (Z.max_r 0 (Z.min (maxY r) (maxY b) - Z.max (minY r) (minY b))) by lia. reflexivity.
  - rewrite (Z.max_l 0 (Z.min (maxY r) (maxY b) - Z.max (minY r) (minY b))) by lia. lia.
  - rewrite (Z.max_l 0 (Z.min (maxY r) (maxY b) - Z.max (minY r) (minY b))) by lia. lia.
  - rewrite (Z.max_l 0 (Z.min (maxX r) (maxX b) - Z.max (minX r) (minX b))) by lia. lia.
  - rewrite (Z.max_l 0 (Z.min (maxX r) (maxX b) - Z.max (minX r) (minX b))) by lia. lia.
Qed.

Lemma map_combine_map {A B C} (g : A * B -> C) (f : A -> B) l :
  map g (combine l (map f l)) = map (fun x => g (x, f x)) l.
Proof. induction l; simpl; congruence. Qed.

Definition capF (lx ly : list Z) (F : Z * Z -> Z * Z -> Z) : list (list Z) :=
  map (fun px => map (fun py => F px py) (pairs ly)) (pairs lx).

Lemma add_region_capF lx ly reg F :
  add_region lx ly reg (capF lx ly F) = capF lx ly (fun px py => F px py + contrib reg (bin_region px py)).
Proof.
  unfold add_region, capF. rewrite map_combine_map. apply map_ext. intros px. simpl.
  rewrite map_combine_map. reflexivity.
Qed.

Lemma capF_ext lx ly F G : (forall p q, F p q = G p q) -> capF lx ly F = capF lx ly G.
Proof. intros H. unfold capF. apply map_ext. intros. apply map_ext. intros. apply H. Qed.

Lemma bin_capacity_gen lx ly regs F :
  fold_left (fun capm reg => add_region lx ly reg capm) regs (capF lx ly F)
  = capF lx ly (fun px py => F px py + sumZ (map (fun r => contrib r (bin_region px py)) regs)).
Proof.
  revert F. induction regs as [|r rs IH]; intros F; simpl.
  - apply capF_ext. intros. lia.
  - rewrite add_region_capF, IH. apply capF_ext. intros. lia.
Qed.

Lemma bin_capacity_spec lx ly regs :
  bin_capacity lx ly regs = capF lx ly (fun px py => sumZ (map (fun r => contrib r (bin_region px py)) regs)).
Proof.
  unfold bin_capacity. change (zero_cap lx ly) with (capF lx ly (fun _ _ => 0)).
  rewrite bin_capacity_gen. apply capF_ext. intros. lia.
Qed.

Lemma nth_error2_capF lx ly F i j px py :
  nth_error (pairs lx) i = Some px -> nth_error (pairs ly) j = Some py ->
  nth_error2 (capF lx ly F) i j = Some (F px py).
Proof.
  intros Hx Hy. unfold nth_error2, capF. rewrite nth_error_map, Hx. simpl. rewrite nth_error_map, Hy. reflexivity.
Qed.

(* sums *)
Lemma sumZ_app a b : sumZ (a ++ b) = sumZ a + sumZ b.
Proof. induction a; simpl; lia. Qed.
Lemma sumZ_map_add {A} (f g : A -> Z) l : sumZ (map (fun x => f x + g x) l) = sumZ (map f l) + sumZ (map g l).
Proof. induction l; simpl; lia. Qed.
Lemma sumZ_map_ext {A} (f g : A -> Z) l : (forall x, In x l -> f x = g x) -> sumZ (map f l) = sumZ (map g l).
Proof.
  intros H. induction l as [|a l IH]; simpl; auto.
  rewrite (H a) by (simpl; auto). rewrite IH; auto. intros; apply H; simpl; auto.
Qed.
Lemma sumZ_map_const0 {A} (l : list A) : sumZ (map (fun _ => 0) l) = 0.
Proof. induction l; simpl; lia. Qed.
Lemma sumZ_swap {A B} (f : A -> B -> Z) xs rs :
  sumZ (map (fun x => sumZ (map (fun r => f x r) rs)) xs) = sumZ (map (fun r => sumZ (map (fun x => f x r) xs)) rs).
Proof.
  induction xs as [|x xs IH]; simpl.
  - now rewrite sumZ_map_const0.
  - rewrite IH. rewrite <- sumZ_map_add. reflexivity.
Qed.
Lemma sumZ_map_mul_l {A} (k : Z) (f : A -> Z) l : sumZ (map (fun x => k * f x) l) = k * sumZ (map f l).
Proof. induction l; simpl; lia. Qed.
Lemma sumZ_prod {A B} (f : A -> Z) (g : B -> Z) xs ys :
  sumZ (map (fun x => sumZ (map (fun y => f x * g y) ys)) xs) = sumZ (map f xs) * sumZ (map g ys).
Proof.
  induction xs as [|x xs IH]; simpl; [lia|]. rewrite IH, sumZ_map_mul_l. ring.
Qed.

(* pairs *)
Lemma pairs_cons2 {A} (p q : A) t : pairs (p :: q :: t) = (p, q) :: pairs (q :: t).
Proof. reflexivity. Qed.
Lemma pairs_length {A} (l : list A) : length (pairs l) = (length l - 1)%nat.
Proof. unfold pairs. rewrite combine_length. destruct l; simpl length; lia. Qed.
Lemma skipn_pairs {A} a (l : list A) : skipn a (pairs l) = pairs (skipn a l).
Proof.
  revert l. induction a as [|a IH]; intros l; [reflexivity|].
  destruct l as [|x t]; [reflexivity|]. destruct t as [|y t'].
  - simpl. destruct a; reflexivity.
  - rewrite pairs_cons2. simpl skipn. apply IH.
Qed.
Lemma nth_error_skipn {A} a (l : list A) k : nth_error (skipn a l) k = nth_error l (a + k).
Proof. revert l. induction a; intros l; simpl; auto. destruct l; simpl; auto. destruct k; reflexivity. Qed.
Lemma nth_error_pairs {A} (l : list A) i p q :
  nth_error (pairs l) i = Some (p, q) <-> nth_error l i = Some p /\ nth_error l (S i) = Some q.
Proof.
  revert l. induction i as [|i IH]; intros l.
  - destruct l as [|x t]; [simpl; split; [discriminate|intros [? ?]; discriminate]|].
    destruct t as [|y t]; simpl.
    + split; [discriminate|intros [? ?]; discriminate].
    + split; [intros H; inversion H; auto|intros [H1 H2]; congruence].
  - destruct l as [|x t]; [simpl; split; [discriminate|intros [? ?]; discriminate]|].
    destruct t as [|y t].
    + simpl. split; [discriminate|]. intros [_ H]. destruct i; discriminate.
    + rewrite pairs_cons2. simpl nth_error at 1. rewrite IH. simpl. reflexivity.
Qed.

(* 1-D tiling: consecutive bins of a chain cut [a,b] into pieces whose lengths add up *)
Lemma chain_hd_le l h j y : chainZ (h :: l) -> nth_error (h :: l) j = Some y -> h <= y.
Proof.
  revert h j y. induction l as [|h2 t IH]; intros h j y Hc Hj.
  - destruct j as [|[|j]]; simpl in Hj; inversion Hj; lia.
  - destruct j as [|j]; [simpl in Hj; inversion Hj; lia|].
    destruct Hc as [Hle Hc]. simpl in Hj. pose proof (IH h2 j y Hc Hj). lia.
Qed.
Lemma chain_nth_le l i j x y : chainZ l -> (i <= j)%nat -> nth_error l i = Some x -> nth_error l j = Some y -> x <= y.
Proof.
  revert i j x y. induction l as [|h t IH]; intros i j x y Hc Hij Hi Hj; [destruct i; discriminate|].
  destruct i as [|i].
  - simpl in Hi. inversion Hi; subst h. eapply chain_hd_le; eauto.
  - destruct j as [|j]; [lia|]. simpl in Hi, Hj.
    apply (IH i j x y); auto; [|lia]. destruct t; simpl in *; tauto.
Qed.

Lemma ovl_split a b p q r : a <= b -> p <= q -> q <= r -> ovl a b p q + ovl a b q r = ovl a b p r.
Proof. unfold ovl. lia. Qed.
Lemma ovl_same a b p : a <= b -> ovl a b p p = 0.
Proof. unfold ovl. lia. Qed.

Lemma ov_firstn a b l k x y : a <= b -> chainZ l -> nth_error l 0 = Some x -> nth_error l k = Some y ->
  sumZ (map (fun pq => ovl a b (fst pq) (snd pq)) (firstn k (pairs l))) = ovl a b x y.
Proof.
  intros Hab. revert l x. induction k as [|k IH]; intros l x Hc H0 Hk.
  - rewrite H0 in Hk. inversion Hk; subst. simpl. now rewrite ovl_same.
  - destruct l as [|h t]; [discriminate|]. simpl in H0. inversion H0; subst h. clear H0.
    destruct t as [|h2 t2]; [destruct k; discriminate|].
    rewrite pairs_cons2. simpl firstn. simpl map. simpl sumZ. simpl in Hk.
    destruct Hc as [Hle Hc].
    rewrite (IH (h2 :: t2) h2 Hc eq_refl Hk).
    apply ovl_split; auto. apply (chain_nth_le (h2 :: t2) 0 k h2 y); auto. lia.
Qed.

Lemma chain_skipn l a : chainZ l -> chainZ (skipn a l).
Proof.
  revert l. induction a as [|a IH]; intros l Hc; [exact Hc|]. destruct l as [|h t]; [exact I|].
  simpl. apply IH. destruct t; simpl in *; tauto.
Qed.

Lemma ov_block a b l s k x y : a <= b -> chainZ l -> nth_error l s = Some x -> nth_error l (s + k) = Some y ->
  sumZ (map (fun pq => ovl a b (fst pq) (snd pq)) (firstn k (skipn s (pairs l)))) = ovl a b x y.
Proof.
  intros Hab Hc Hs Hk. rewrite skipn_pairs. apply ov_firstn; auto.
  - now apply chain_skipn.
  - rewrite nth_error_skipn. now rewrite Nat.add_0_r.
  - now rewrite nth_error_skipn.
Qed.

Lemma In_firstn {A} k (l : list A) x : In x (firstn k l) -> In x l.
Proof. intros H. rewrite <- (firstn_skipn k l). apply in_or_app. auto. Qed.
Lemma In_skipn {A} k (l : list A) x : In x (skipn k l) -> In x l.
Proof. intros H. rewrite <- (firstn_skipn k l). apply in_or_app. auto. Qed.

Lemma pairs_chain_le l p q : chainZ l -> In (p, q) (pairs l) -> p <= q.
Proof.
  intros Hc Hin. apply In_nth_error in Hin. destruct Hin as [i Hi].
  apply nth_error_pairs in Hi. destruct Hi as [H1 H2]. apply (chain_nth_le l i (S i) p q); auto.
Qed.

Lemma block_cap_capF lx ly F a b c e :
  block_cap (capF lx ly F) a b c e =
  sumZ (map (fun px => sumZ (map (fun py => F px py) (firstn (e - c) (skipn c (pairs ly)))))
            (firstn (b - a) (skipn a (pairs lx)))).
Proof.
  unfold block_cap, capF. rewrite skipn_map, firstn_map, map_map.
  apply sumZ_map_ext. intros px _. rewrite skipn_map, firstn_map. reflexivity.
Qed.

Definition mkrect (xa xb yc ye : Z) : rect := {| minX := xa; maxX := xb; minY := yc; maxY := ye |}.

Theorem block_capacity lx ly regs a b c e xa xb yc ye :
  Forall proper regs -> chainZ lx -> chainZ ly ->
  nth_error lx a = Some xa -> nth_error lx (a + (b - a)) = Some xb ->
  nth_error ly c = Some yc -> nth_error ly (c + (e - c)) = Some ye ->
  block_cap (bin_capacity lx ly regs) a b c e = sumZ (map (fun r => inter_area r (mkrect xa xb yc ye)) regs).
Proof.
  intros Hp Hcx Hcy Ha Hb Hc He. rewrite bin_capacity_spec, block_cap_capF.
  set (PX := firstn (b - a) (skipn a (pairs lx))). set (PY := firstn (e - c) (skipn c (pairs ly))).
  transitivity (sumZ (map (fun px => sumZ (map (fun py => sumZ (map (fun r =>
       ovl (minX r) (maxX r) (fst px) (snd px) * ovl (minY r) (maxY r) (fst py) (snd py)) regs)) PY)) PX)).
  { apply sumZ_map_ext. intros [p q] Hpx. apply sumZ_map_ext. intros [p2 q2] Hpy.
    apply sumZ_map_ext. intros r Hr. rewrite contrib_inter_area.
    - reflexivity.
    - rewrite Forall_forall in Hp. auto.
    - split; simpl.
      + apply (pairs_chain_le lx); auto. eapply In_skipn, In_firstn, Hpx.
      + apply (pairs_chain_le ly); auto. eapply In_skipn, In_firstn, Hpy. }
  transitivity (sumZ (map (fun px => sumZ (map (fun r => sumZ (map (fun py =>
       ovl (minX r) (maxX r) (fst px) (snd px) * ovl (minY r) (maxY r) (fst py) (snd py)) PY)) regs)) PX)).
  { apply sumZ_map_ext. intros px _. apply sumZ_swap. }
  rewrite sumZ_swap. apply sumZ_map_ext. intros r Hr.
  rewrite sumZ_prod. unfold inter_area, mkrect. simpl.
  rewrite Forall_forall in Hp. destruct (Hp r Hr) as [Hx Hy].
  unfold PX, PY. rewrite (ov_block _ _ lx a (b - a) xa xb), (ov_block _ _ ly c (e - c) yc ye); auto.
Qed.

(* ------------------------------------------------------------------ hierarchy *)

Fixpoint sincr (l : list nat) : Prop :=
  match l with a :: ((b :: _) as t) => (a < b)%nat /\ sincr t | _ => True end.
Fixpoint gaps_le (B : nat) (l : list nat) : Prop :=
  match l with a :: ((b :: _) as t) => (b - a <= B)%nat /\ gaps_le B t | _ => True end.

(* ps = i (once or twice), i+1 (once or twice), ..., i+m-1 *)
Fixpoint runs (i m : nat) (ps : list nat) : Prop :=
  match m with
  | O => ps = []
  | S m' => exists ps', (ps = i :: ps' \/ ps = i :: i :: ps') /\ runs (S i) m' ps'
  end.

Lemma mid_bounds b e : (2 <= e - b)%nat -> (b < (e + b) / 2 < e)%nat.
Proof.
  intros H. split.
  - apply Nat.div_le_lower_bound; lia.
  - apply Nat.div_lt_upper_bound; lia.
Qed.

Lemma last_cons2 {A} (a b : A) t d : last (a :: b :: t) d = last (b :: t) d.
Proof. reflexivity. Qed.

Lemma refine_aux_facts rest : forall i b, sincr (b :: rest) ->
  let r := refine_aux i b rest in
  sincr (b :: fst r) /\ last (b :: fst r) 0%nat = last (b :: rest) 0%nat /\
  length (snd r) = length (fst r) /\ runs i (length rest) (snd r) /\
  (forall q, In q (snd r) -> (i <= q < i + length rest)%nat) /\
  (forall B, (1 <= B)%nat -> gaps_le (S B) (b :: rest) -> gaps_le B (b :: fst r)).
Proof.
  induction rest as [|e rest IH]; intros i b Hs.
  - simpl. repeat split; auto; try contradiction.
  - destruct Hs as [Hbe Hs]. specialize (IH (S i) e Hs). cbv zeta in IH.
    destruct IH as (I1 & I2 & I3 & I4 & I5 & I6).
    cbn [refine_aux]. destruct (Nat.leb_spec 2 (e - b)) as [Hg|Hg]; cbn [fst snd].
    + pose proof (mid_bounds b e Hg) as [Hm1 Hm2].
      split; [|split; [|split; [|split; [|split]]]].
      * cbn [sincr gaps_le length runs In fst snd]. split; [lia|]. split; [lia|]. exact I1.
      * rewrite !last_cons2. rewrite I2. reflexivity.
      * cbn [sincr gaps_le length runs In fst snd]. lia.
      * cbn [sincr gaps_le length runs In fst snd]. eexists. split; [right; reflexivity|]. exact I4.
      * intros q [Hq|[Hq|Hq]]; cbn [sincr gaps_le length runs In fst snd]; try lia. specialize (I5 q Hq). cbn [sincr gaps_le length runs In fst snd]. lia.
      * intros B HB [Hgap Hrest]. cbn [sincr gaps_le length runs In fst snd]. split; [|split].
        -- assert ((e + b) / 2 - b <= e - b - 1)%nat; lia.
        -- assert (b + 1 <= (e + b) / 2)%nat by lia. lia.
        -- apply I6; auto.
    + split; [|split; [|split; [|split; [|split]]]].
      * cbn [sincr gaps_le length runs In fst snd]. split; [lia|]. exact I1.
      * rewrite !last_cons2. rewrite I2. reflexivity.
      * cbn [sincr gaps_le length runs In fst snd]. lia.
      * cbn [sincr gaps_le length runs In fst snd]. eexists. split; [left; reflexivity|]. exact I4.
      * intros q [Hq|Hq]; cbn [sincr gaps_le length runs In fst snd]; try lia. specialize (I5 q Hq). cbn [sincr gaps_le length runs In fst snd]. lia.
      * intros B HB [Hgap Hrest]. cbn [sincr gaps_le length runs In fst snd]. split; [lia|]. apply I6; auto.
Qed.

Lemma gaps_le_1_no_refine l : gaps_le 1 l -> can_refine l = false.
Proof.
  induction l as [|a t IH]; [reflexivity|]. destruct t as [|b t']; [reflexivity|].
  intros [H1 H2]. change (can_refine (a :: b :: t')) with ((1 <? b - a)%nat || can_refine (b :: t')). rewrite IH by exact H2.
  destruct (Nat.ltb_spec 1 (b - a)); [lia|reflexivity].
Qed.

Inductive levels_ok (nb : nat) : list (list nat) -> list (list nat) -> Prop :=
| lo_top : levels_ok nb [[0%nat; nb]] [[0%nat]]
| lo_ref lc L P : levels_ok nb (lc :: L) P ->
    levels_ok nb (fst (refine_limits lc) :: lc :: L) (snd (refine_limits lc) :: P).

(* a well-formed list of bin-index limits: 0 = l0 < l1 < ... = nb *)
Definition limits_ok (nb : nat) (l : list nat) : Prop :=
  hd 1%nat l = 0%nat /\ last l 0%nat = nb /\ sincr l /\ (2 <= length l)%nat.

Lemma refine_limits_ok nb lc : limits_ok nb lc -> limits_ok nb (fst (refine_limits lc)).
Proof.
  intros (Hh & Hl & Hs & Hlen). destruct lc as [|b rest]; [simpl in Hlen; lia|].
  simpl in Hh. subst b. pose proof (refine_aux_facts rest 0 0 Hs) as (F1 & F2 & F3 & F4 & F5 & F6).
  unfold refine_limits. cbn [fst]. repeat split; auto.
  - rewrite F2. exact Hl.
  - destruct rest as [|e rest']; [simpl in Hlen; lia|]. cbn [refine_aux].
    destruct (2 <=? e - 0)%nat; simpl; lia.
Qed.

Lemma levels_ok_limits nb L P : (1 <= nb)%nat -> levels_ok nb L P -> Forall (limits_ok nb) L.
Proof.
  intros Hnb H. induction H.
  - constructor; [|constructor]. unfold limits_ok. simpl. repeat split; auto; lia.
  - constructor; auto. apply refine_limits_ok. inversion IHlevels_ok; auto.
Qed.

Lemma levels_ok_length nb L P : levels_ok nb L P -> length L = length P /\ (1 <= length L)%nat.
Proof. induction 1; simpl in *; lia. Qed.

Lemma levels_ok_top nb L P : levels_ok nb L P ->
  nth_error L (length L - 1) = Some [0%nat; nb] /\ nth_error P (length P - 1) = Some [0%nat].
Proof.
  induction 1 as [|lc L P H IH]; [simpl; auto|].
  destruct (levels_ok_length _ _ _ H) as [E1 E2].
  replace (length (fst (refine_limits lc) :: lc :: L) - 1)%nat with (S (length (lc :: L) - 1)) by (simpl in *; lia).
  replace (length (snd (refine_limits lc) :: P) - 1)%nat with (S (length P - 1)) by (simpl in *; lia).
  change (nth_error (fst (refine_limits lc) :: lc :: L) (S (length (lc :: L) - 1))) with (nth_error (lc :: L) (length (lc :: L) - 1)).
  change (nth_error (snd (refine_limits lc) :: P) (S (length P - 1))) with (nth_error P (length P - 1)). exact IH.
Qed.

Lemma levels_ok_step nb L P l lc : levels_ok nb L P -> nth_error L (S l) = Some lc ->
  nth_error L l = Some (fst (refine_limits lc)) /\ nth_error P l = Some (snd (refine_limits lc)).
Proof.
  intros H. revert l lc. induction H as [|lc0 L P H IH]; intros l lc Hn.
  - destruct l; simpl in Hn; discriminate.
  - destruct l as [|l].
    + simpl in Hn. inversion Hn; subst. simpl. auto.
    + simpl in Hn. simpl. apply (IH l lc). exact Hn.
Qed.

Lemma setup_loop_ok nb : forall fuel lims L0 P0,
  levels_ok nb (lims :: L0) P0 -> limits_ok nb lims -> gaps_le (S fuel) lims ->
  exists L P, setup_loop fuel lims (lims :: L0) P0 = Some (L, P) /\ levels_ok nb L P.
Proof.
  induction fuel as [|f IH]; intros lims L0 P0 Hok Hlim Hg.
  - simpl. rewrite gaps_le_1_no_refine by exact Hg. eauto.
  - simpl. destruct (can_refine lims) eqn:Hc; [|eauto].
    apply IH.
    + apply lo_ref. exact Hok.
    + apply refine_limits_ok. exact Hlim.
    + destruct Hlim as (Hh & Hl & Hs & Hlen). destruct lims as [|b rest]; [simpl in Hlen; lia|].
      simpl in Hh. subst b. unfold refine_limits. cbn [fst].
      pose proof (refine_aux_facts rest 0 0 Hs) as (_ & _ & _ & _ & _ & F6). apply F6; [lia|exact Hg].
Qed.

Theorem setup_hierarchy_ok nb : (1 <= nb)%nat ->
  exists L P, setup_hierarchy nb = Some (L, P) /\ levels_ok nb L P.
Proof.
  intros Hnb. unfold setup_hierarchy. apply setup_loop_ok.
  - constructor.
  - unfold limits_ok. simpl. repeat split; auto; lia.
  - simpl. split; [lia|exact I].
Qed.

(* what the refinement/coarsening steps need to know about two consecutive levels *)
Lemma level_pair nb L P l lc : (1 <= nb)%nat -> levels_ok nb L P -> nth_error L (S l) = Some lc ->
  exists lf ps, nth_error L l = Some lf /\ nth_error P l = Some ps /\
    length ps = (length lf - 1)%nat /\ runs 0 (length lc - 1) ps /\ (forall q, In q ps -> (q < length lc - 1)%nat).
Proof.
  intros Hnb Hok Hn. destruct (levels_ok_step _ _ _ _ _ Hok Hn) as [H1 H2].
  exists (fst (refine_limits lc)), (snd (refine_limits lc)). split; [exact H1|]. split; [exact H2|].
  pose proof (levels_ok_limits _ _ _ Hnb Hok) as Hall. rewrite Forall_forall in Hall.
  destruct (Hall lc (nth_error_In _ _ Hn)) as (Hh & Hl & Hs & Hlen).
  destruct lc as [|b rest]; [simpl in Hlen; lia|]. simpl in Hh. subst b.
  pose proof (refine_aux_facts rest 0 0 Hs) as (F1 & F2 & F3 & F4 & F5 & F6).
  unfold refine_limits. cbn [fst snd]. simpl length.
  replace (S (length rest) - 1)%nat with (length rest) by lia.
  split; [lia|]. split; [exact F4|]. intros q Hq. specialize (F5 q Hq). lia.
Qed.

(* ------------------------------------------------------------------ counting *)

Definition natsum (l : list nat) : nat := fold_right Nat.add 0%nat l.

Lemma natsum_app a b : natsum (a ++ b) = (natsum a + natsum b)%nat.
Proof. induction a; simpl; lia. Qed.
Lemma natsum_map_add {A} (f g : A -> nat) l : natsum (map (fun x => (f x + g x)%nat) l) = (natsum (map f l) + natsum (map g l))%nat.
Proof. induction l; simpl; lia. Qed.
Lemma natsum_map_ext {A} (f g : A -> nat) l : (forall x, In x l -> f x = g x) -> natsum (map f l) = natsum (map g l).
Proof.
  intros H. induction l as [|a l IH]; simpl; auto.
  rewrite (H a) by (simpl; auto). rewrite IH; auto. intros; apply H; simpl; auto.
Qed.
Lemma natsum_map_0 {A} (l : list A) : natsum (map (fun _ => 0%nat) l) = 0%nat.
Proof. induction l; simpl; lia. Qed.
Lemma natsum_swap {A B} (f : A -> B -> nat) xs rs :
  natsum (map (fun x => natsum (map (fun r => f x r) rs)) xs) = natsum (map (fun r => natsum (map (fun x => f x r) xs)) rs).
Proof.
  induction xs as [|x xs IH]; simpl.
  - now rewrite natsum_map_0.
  - rewrite IH. rewrite <- natsum_map_add. reflexivity.
Qed.

Lemma cnt_app a b c : cnt (a ++ b) c = (cnt a c + cnt b c)%nat.
Proof. apply count_occ_app. Qed.
Lemma cnt_concat ls c : cnt (concat ls) c = natsum (map (fun l => cnt l c) ls).
Proof. induction ls as [|l ls IH]; simpl; auto. rewrite cnt_app, IH. reflexivity. Qed.
Lemma allcells_cons col bc : allcells (col :: bc) = concat col ++ allcells bc.
Proof. unfold allcells. simpl. apply concat_app. Qed.
Lemma cnt_allcells bc c : cnt (allcells bc) c = natsum (map (fun col => cnt (concat col) c) bc).
Proof. induction bc as [|col bc IH]; [reflexivity|]. rewrite allcells_cons, cnt_app, IH. reflexivity. Qed.
Lemma cnt_pos_In l c : (0 < cnt l c)%nat <-> In c l.
Proof. unfold cnt. symmetry. apply count_occ_In. Qed.
Lemma cnt_0_notIn l c : cnt l c = 0%nat <-> ~ In c l.
Proof. unfold cnt. symmetry. apply count_occ_not_In. Qed.

Lemma natsum_seq_select q x s k :
  natsum (map (fun p => if (q =? p)%nat then x else 0%nat) (seq s k)) = if ((s <=? q) && (q <? s + k))%nat then x else 0%nat.
Proof.
  revert s. induction k as [|k IH]; intros s; simpl.
  - destruct (s <=? q)%nat eqn:E1; simpl; auto. destruct (Nat.ltb_spec q (s + 0)); auto. apply Nat.leb_le in E1. lia.
  - rewrite IH. destruct (Nat.eqb_spec q s); destruct (Nat.leb_spec s q); destruct (Nat.leb_spec (S s) q);
      destruct (Nat.ltb_spec q (S s + k)); destruct (Nat.ltb_spec q (s + S k)); simpl; try lia.
Qed.

Lemma map_snd_combine {A B} (a : list A) (b : list B) : length a = length b -> map snd (combine a b) = b.
Proof. revert b. induction a; destruct b; simpl; intros; try discriminate; auto. f_equal. auto. Qed.
Lemma map_fst_combine {A B} (a : list A) (b : list B) : length a = length b -> map fst (combine a b) = a.
Proof. revert b. induction a; destruct b; simpl; intros; try discriminate; auto. f_equal. auto. Qed.
Lemma in_combine_fst {A B} (a : list A) (b : list B) x : In x (combine a b) -> In (fst x) a.
Proof. destruct x. apply in_combine_l. Qed.
Lemma in_combine_snd {A B} (a : list A) (b : list B) x : In x (combine a b) -> In (snd x) b.
Proof. destruct x. apply in_combine_r. Qed.

(* ---- coarsening (gather by parent) preserves the count of every cell *)
Section Coarsen.
  Context {A : Type} (fl : A -> list nat) (W : A -> Prop) (merge : A -> A -> A) (empty : A).
  Hypothesis HmW : forall a b, W a -> W b -> W (merge a b).
  Hypothesis Hm : forall a b c, W a -> W b -> cnt (fl (merge a b)) c = (cnt (fl a) c + cnt (fl b) c)%nat.
  Hypothesis HeW : W empty.
  Hypothesis He : forall c, cnt (fl empty) c = 0%nat.

  Definition gatherp (p : nat) (L : list (nat * A)) : A :=
    fold_right (fun qa acc => if (fst qa =? p)%nat then merge (snd qa) acc else acc) empty L.

  Lemma gatherp_W p L : Forall (fun qa => W (snd qa)) L -> W (gatherp p L).
  Proof.
    induction 1 as [|qa L H1 H2 IH]; simpl; auto. destruct (fst qa =? p)%nat; auto.
  Qed.

  Lemma gatherp_cnt p L c : Forall (fun qa => W (snd qa)) L ->
    cnt (fl (gatherp p L)) c = natsum (map (fun qa => if (fst qa =? p)%nat then cnt (fl (snd qa)) c else 0%nat) L).
  Proof.
    induction 1 as [|qa L H1 H2 IH]; simpl; auto.
    destruct (fst qa =? p)%nat; simpl; [|exact IH].
    rewrite Hm; auto. apply gatherp_W; auto.
  Qed.

  Lemma coarsen_gen_eq ps np olds :
    coarsen_gen merge empty ps np olds = map (fun p => gatherp p (combine ps olds)) (seq 0 np).
  Proof. reflexivity. Qed.

  Lemma coarsen_length ps np olds : length (coarsen_gen merge empty ps np olds) = np.
  Proof. unfold coarsen_gen. now rewrite map_length, seq_length. Qed.

  Lemma coarsen_W ps np olds : Forall W olds -> Forall W (coarsen_gen merge empty ps np olds).
  Proof.
    intros H. rewrite coarsen_gen_eq. apply Forall_forall. intros a Ha. apply in_map_iff in Ha.
    destruct Ha as [p [<- _]]. apply gatherp_W. apply Forall_forall. intros qa Hq.
    rewrite Forall_forall in H. apply H. eapply in_combine_snd; eauto.
  Qed.

  Lemma coarsen_cnt ps np olds c : Forall W olds -> (forall q, In q ps -> (q < np)%nat) -> length ps = length olds ->
    natsum (map (fun a => cnt (fl a) c) (coarsen_gen merge empty ps np olds)) = natsum (map (fun a => cnt (fl a) c) olds).
  Proof.
    intros HW Hq Hlen. rewrite coarsen_gen_eq, map_map.
    assert (HWL : Forall (fun qa => W (snd qa)) (combine ps olds)).
    { apply Forall_forall. intros qa Hin. rewrite Forall_forall in HW. apply HW. eapply in_combine_snd; eauto. }
    rewrite (natsum_map_ext _ (fun p => natsum (map (fun qa => if (fst qa =? p)%nat then cnt (fl (snd qa)) c else 0%nat) (combine ps olds)))).
    2:{ intros p _. apply gatherp_cnt; auto. }
    rewrite natsum_swap.
    rewrite (natsum_map_ext _ (fun qa => cnt (fl (snd qa)) c)).
    2:{ intros qa Hin. rewrite natsum_seq_select. simpl.
        assert (fst qa < np)%nat by (apply Hq; eapply in_combine_fst; eauto).
        destruct (Nat.ltb_spec (fst qa) np); [reflexivity|lia]. }
    rewrite <- (map_map snd (fun a => cnt (fl a) c)). rewrite map_snd_combine by exact Hlen. reflexivity.
  Qed.
End Coarsen.

(* ---- refinement (first child receives the parent's entry) preserves the count of every cell *)
Lemma skipn_nth {A} (l : list A) i a : nth_error l i = Some a -> skipn i l = a :: skipn (S i) l.
Proof.
  revert l. induction i as [|i IH]; intros l H; destruct l; simpl in *; try discriminate.
  - inversion H. reflexivity.
  - apply IH. exact H.
Qed.

Section Refine.
  Context {A : Type} (fl : A -> list nat) (W : A -> Prop) (empty : A).
  Hypothesis HeW : W empty.
  Hypothesis He : forall c, cnt (fl empty) c = 0%nat.

  Lemma refine_gen_spec : forall m i prev ps olds,
    runs i m ps -> (forall q, prev = Some q -> (q < i)%nat) -> (i + m <= length olds)%nat -> Forall W olds ->
    exists res, refine_gen empty prev ps olds = Some res /\ length res = length ps /\ Forall W res /\
      forall c, natsum (map (fun a => cnt (fl a) c) res) = natsum (map (fun a => cnt (fl a) c) (firstn m (skipn i olds))).
  Proof.
    induction m as [|m IH]; intros i prev ps olds Hr Hp Hlen HW.
    - simpl in Hr. subst ps. exists []. simpl. auto.
    - destruct Hr as [ps' [Hps Hr]].
      destruct (nth_error olds i) as [a|] eqn:Ha; [|apply nth_error_None in Ha; lia].
      assert (Wa : W a) by (rewrite Forall_forall in HW; apply HW; eapply nth_error_In; eauto).
      assert (Hfirst : match prev with Some q => negb (q =? i)%nat | None => true end = true).
      { destruct prev as [q|]; auto. specialize (Hp q eq_refl). destruct (Nat.eqb_spec q i); auto. lia. }
      destruct (IH (S i) (Some i) ps' olds Hr) as (res & R1 & R2 & R3 & R4); auto.
      { intros q Hq. inversion Hq. lia. } { lia. }
      rewrite (skipn_nth olds i a Ha). cbn [firstn map natsum fold_right].
      destruct Hps as [-> | ->].
      + exists (a :: res). cbn [refine_gen]. rewrite Hfirst, Ha, R1. repeat split; auto.
        * simpl. lia.
        * intros c. simpl. rewrite R4. reflexivity.
      + exists (a :: empty :: res). cbn [refine_gen]. rewrite Hfirst, Ha, Nat.eqb_refl. cbn [negb]. rewrite R1.
        repeat split; auto.
        * simpl. lia.
        * intros c. simpl. rewrite He, R4. reflexivity.
  Qed.
End Refine.

Lemma all_some_Forall2 {A B} (f : A -> option B) l r : all_some (map f l) = Some r -> Forall2 (fun x y => f x = Some y) l r.
Proof.
  revert r. induction l as [|x l IH]; intros r H; simpl in H.
  - inversion H. constructor.
  - destruct (f x) as [y|] eqn:E; [|discriminate]. destruct (all_some (map f l)) as [r'|]; [|discriminate].
    inversion H. constructor; auto.
Qed.

(* ------------------------------------------------------------------ cell_bins / updateCellToBin *)

Lemma in_combine_seq {A} (l : list A) s i x :
  In (i, x) (combine (seq s (length l)) l) <-> (s <= i)%nat /\ nth_error l (i - s) = Some x.
Proof.
  revert s. induction l as [|a l IH]; intros s; simpl.
  - split; [tauto|]. intros [_ H]. destruct (i - s)%nat; discriminate.
  - rewrite IH. split.
    + intros [H|[H1 H2]].
      * inversion H; subst. split; [lia|]. rewrite Nat.sub_diag. reflexivity.
      * split; [lia|]. replace (i - s)%nat with (S (i - S s)) by lia. exact H2.
    + intros [H1 H2]. destruct (Nat.eq_dec i s) as [->|Hne].
      * rewrite Nat.sub_diag in H2. simpl in H2. inversion H2. auto.
      * right. split; [lia|]. replace (i - s)%nat with (S (i - S s)) in H2 by lia. exact H2.
Qed.

Lemma cell_bins_In bc c i j :
  In (c, (i, j)) (cell_bins bc) <-> exists l, nth_error2 bc i j = Some l /\ In c l.
Proof.
  unfold cell_bins, nth_error2. rewrite in_concat. split.
  - intros [x [Hx Hin]]. apply in_map_iff in Hx. destruct Hx as [[i' col] [<- Hic]].
    apply in_combine_seq in Hic. destruct Hic as [_ Hcol]. rewrite Nat.sub_0_r in Hcol. simpl in Hin.
    apply in_concat in Hin. destruct Hin as [y [Hy Hin]]. apply in_map_iff in Hy.
    destruct Hy as [[j' l] [<- Hjl]]. apply in_combine_seq in Hjl. destruct Hjl as [_ Hl]. rewrite Nat.sub_0_r in Hl.
    simpl in Hin. apply in_map_iff in Hin. destruct Hin as [c' [Heq Hc]]. inversion Heq; subst.
    exists l. rewrite Hcol. auto.
  - intros [l [Hl Hc]]. destruct (nth_error bc i) as [col|] eqn:Hcol; [|discriminate].
    eexists. split.
    + apply in_map_iff. exists (i, col). split; [reflexivity|]. apply in_combine_seq. rewrite Nat.sub_0_r. split; [lia|exact Hcol].
    + simpl. apply in_concat. eexists. split.
      * apply in_map_iff. exists (j, l). split; [reflexivity|]. apply in_combine_seq. rewrite Nat.sub_0_r. split; [lia|exact Hl].
      * simpl. apply in_map_iff. exists c. auto.
Qed.

Lemma col_keys {A} (i : A) (col : list (list nat)) s :
  map fst (concat (map (fun jl : nat * list nat => map (fun c => (c, (i, fst jl))) (snd jl)) (combine (seq s (length col)) col))) = concat col.
Proof.
  revert s. induction col as [|l col IH]; intros s; simpl; auto.
  rewrite map_app, IH, map_map. simpl. rewrite map_id. reflexivity.
Qed.

Lemma cell_bins_keys_gen bc s :
  map fst (concat (map (fun ic : nat * list (list nat) =>
                          concat (map (fun jl : nat * list nat => map (fun c => (c, (fst ic, fst jl))) (snd jl))
                                      (combine (seq 0 (length (snd ic))) (snd ic))))
                       (combine (seq s (length bc)) bc))) = allcells bc.
Proof.
  revert s. induction bc as [|col bc IH]; intros s; simpl; auto.
  rewrite map_app, IH, allcells_cons. f_equal. apply col_keys.
Qed.
Lemma cell_bins_keys bc : map fst (cell_bins bc) = allcells bc.
Proof. apply cell_bins_keys_gen. Qed.

Lemma upd_length {A} (l : list A) k v : length (upd l k v) = length l.
Proof. revert k. induction l; intros [|k]; simpl; auto. Qed.
Lemma upd_same {A} (l : list A) k v : (k < length l)%nat -> nth_error (upd l k v) k = Some v.
Proof. revert k. induction l; intros [|k] H; simpl in *; try lia; auto. apply IHl. lia. Qed.
Lemma upd_other {A} (l : list A) k k' v : k <> k' -> nth_error (upd l k v) k' = nth_error l k'.
Proof. revert k k'. induction l; intros [|k] [|k'] H; simpl; auto; try congruence. Qed.

Lemma count_le1_unique {V} (L : list (nat * V)) c v v' :
  (cnt (map fst L) c <= 1)%nat -> In (c, v) L -> In (c, v') L -> v = v'.
Proof.
  induction L as [|[c0 v0] L IH]; simpl; [tauto|]. unfold cnt in *. simpl.
  destruct (Nat.eq_dec c0 c) as [->|Hne].
  - intros Hle H1 H2.
    assert (Hn : ~ In c (map fst L)) by (apply count_occ_not_In with (eq_dec := Nat.eq_dec); lia).
    destruct H1 as [H1|H1]; [|exfalso; apply Hn; apply in_map_iff; exists (c, v); auto].
    destruct H2 as [H2|H2]; [|exfalso; apply Hn; apply in_map_iff; exists (c, v'); auto].
    congruence.
  - intros Hle [H1|H1] [H2|H2]; try congruence. auto.
Qed.

(* the two folds of updateCellToBin / setBinCells over (cell, (x, y)) triples *)
Definition cb_step (acc : list Z * list Z) (t : nat * (nat * nat)) : list Z * list Z :=
  (upd (fst acc) (fst t) (Z.of_nat (fst (snd t))), upd (snd acc) (fst t) (Z.of_nat (snd (snd t)))).

Lemma fold_cb_length L acc : length (fst (fold_left cb_step L acc)) = length (fst acc) /\ length (snd (fold_left cb_step L acc)) = length (snd acc).
Proof. revert acc. induction L as [|t L IH]; intros acc; simpl; auto. destruct (IH (cb_step acc t)) as [H1 H2]. rewrite H1, H2. simpl. now rewrite !upd_length. Qed.

Lemma fold_cb_untouched L acc c : ~ In c (map fst L) ->
  nth_error (fst (fold_left cb_step L acc)) c = nth_error (fst acc) c /\ nth_error (snd (fold_left cb_step L acc)) c = nth_error (snd acc) c.
Proof.
  revert acc. induction L as [|t L IH]; intros acc Hn; simpl; auto.
  simpl in Hn. destruct (IH (cb_step acc t)) as [H1 H2]; [tauto|]. rewrite H1, H2. simpl.
  rewrite !upd_other by tauto. auto.
Qed.

Lemma fold_cb_set L : forall acc c v, (forall v', In (c, v') L -> v' = v) -> In (c, v) L ->
  (c < length (fst acc))%nat -> (c < length (snd acc))%nat ->
  nth_error (fst (fold_left cb_step L acc)) c = Some (Z.of_nat (fst v)) /\ nth_error (snd (fold_left cb_step L acc)) c = Some (Z.of_nat (snd v)).
Proof.
  induction L as [|[c0 v0] L IH]; intros acc c v Hu Hin Hl1 Hl2; [destruct Hin|].
  simpl fold_left.
  destruct (in_dec Nat.eq_dec c (map fst L)) as [Hk|Hk].
  - apply in_map_iff in Hk. destruct Hk as [[c1 v1] [Hc1 Hin1]]. simpl in Hc1. subst c1.
    assert (v1 = v) by (apply Hu; simpl; auto). subst v1.
    apply IH; auto.
    + intros v' Hv'. apply Hu. simpl. auto.
    + unfold cb_step. simpl. now rewrite upd_length.
    + unfold cb_step. simpl. now rewrite upd_length.
  - destruct (fold_cb_untouched L (cb_step acc (c0, v0)) c Hk) as [H1 H2]. rewrite H1, H2.
    destruct Hin as [Heq|Hin]; [|exfalso; apply Hk; apply in_map_iff; exists (c, v); auto].
    inversion Heq; subst. unfold cb_step. simpl. rewrite !upd_same by auto. auto.
Qed.

Lemma update_cell_to_bin_eq n bc : update_cell_to_bin n bc = fold_left cb_step (cell_bins bc) (repeat (-1) n, repeat (-1) n).
Proof. reflexivity. Qed.

Lemma nth_error_repeat {A} (x : A) n k : (k < n)%nat -> nth_error (repeat x n) k = Some x.
Proof. revert k. induction n; intros [|k] H; simpl; try lia; auto. apply IHn. lia. Qed.

(* ------------------------------------------------------------------ the invariant *)

Record inv (h : hier) (d : list Z) (s : hstate) : Prop := {
  inv_nbx : nbx h s = Some (length (bcells s));
  inv_nby : exists ky, nby h s = Some ky /\ Forall (fun col => length col = ky) (bcells s);
  inv_rng : forall c, In c (allcells (bcells s)) -> (c < length d)%nat;
  inv_cnt : forall c v, nth_error d c = Some v -> cnt (allcells (bcells s)) c = if 0 <? v then 1%nat else 0%nat;
  inv_lenx : length (cbx s) = length d;
  inv_leny : length (cby s) = length d;
  inv_in : forall i j l c, nth_error2 (bcells s) i j = Some l -> In c l ->
             nth_error (cbx s) c = Some (Z.of_nat i) /\ nth_error (cby s) c = Some (Z.of_nat j);
  inv_out : forall c, (c < length d)%nat -> ~ In c (allcells (bcells s)) ->
             nth_error (cbx s) c = Some (-1) /\ nth_error (cby s) c = Some (-1) }.

Lemma cnt_le1 d bc : (forall c, In c (allcells bc) -> (c < length d)%nat) ->
  (forall c v, nth_error d c = Some v -> cnt (allcells bc) c = if 0 <? v then 1%nat else 0%nat) ->
  forall c, (cnt (allcells bc) c <= 1)%nat.
Proof.
  intros Hr Hc c. destruct (nth_error d c) as [v|] eqn:E.
  - rewrite (Hc c v E). destruct (0 <? v); lia.
  - assert (~ In c (allcells bc)). { intros Hin. apply Hr in Hin. apply nth_error_None in E. lia. }
    apply cnt_0_notIn in H. lia.
Qed.

(* recomputing the maps from a well-formed allocation establishes the invariant *)
Lemma with_cells_inv h d lx ly bc ky :
  nbins_at (xlim h) lx = Some (length bc) -> nbins_at (ylim h) ly = Some ky -> Forall (fun col => length col = ky) bc ->
  (forall c, In c (allcells bc) -> (c < length d)%nat) ->
  (forall c v, nth_error d c = Some v -> cnt (allcells bc) c = if 0 <? v then 1%nat else 0%nat) ->
  inv h d (with_cells (length d) lx ly bc).
Proof.
  intros Hx Hy Hdim Hr Hc. pose proof (cnt_le1 d bc Hr Hc) as Hle.
  unfold with_cells. rewrite update_cell_to_bin_eq.
  constructor; cbn [lvx lvy bcells cbx cby nbx nby]; auto.
  - eauto.
  - destruct (fold_cb_length (cell_bins bc) (repeat (-1) (length d), repeat (-1) (length d))) as [H _].
    rewrite H. simpl. apply repeat_length.
  - destruct (fold_cb_length (cell_bins bc) (repeat (-1) (length d), repeat (-1) (length d))) as [_ H].
    rewrite H. simpl. apply repeat_length.
  - intros i j l c Hl Hin.
    assert (Hcb : In (c, (i, j)) (cell_bins bc)) by (apply cell_bins_In; eauto).
    assert (Hn : (c < length d)%nat). { apply Hr. rewrite <- cell_bins_keys. apply in_map_iff. exists (c, (i, j)). auto. }
    apply (fold_cb_set (cell_bins bc) _ c (i, j)); auto; simpl; try (rewrite repeat_length; auto).
    intros v' Hv'. apply (count_le1_unique (cell_bins bc) c); auto. rewrite cell_bins_keys. apply Hle.
  - intros c Hn Hnot.
    destruct (fold_cb_untouched (cell_bins bc) (repeat (-1) (length d), repeat (-1) (length d)) c) as [H1 H2].
    { rewrite cell_bins_keys. exact Hnot. }
    rewrite H1, H2. simpl. rewrite !nth_error_repeat by auto. auto.
Qed.

(* ------------------------------------------------------------------ refine / coarsen steps preserve the invariant *)

Definition hier_wf (h : hier) : Prop :=
  exists nbX nbY, (1 <= nbX)%nat /\ (1 <= nbY)%nat /\
    levels_ok nbX (xlim h) (xpar h) /\ levels_ok nbY (ylim h) (ypar h).

Lemma zipapp_length a b : length a = length b -> length (zipapp a b) = length a.
Proof. revert b. induction a; destruct b; simpl; intros; try discriminate; auto. Qed.
Lemma zipapp_cnt a b c : length a = length b -> cnt (concat (zipapp a b)) c = (cnt (concat a) c + cnt (concat b) c)%nat.
Proof.
  revert b. induction a as [|x a IH]; destruct b as [|y b]; simpl; intros H; try discriminate; auto.
  rewrite !cnt_app, IH by lia. lia.
Qed.
Lemma concat_repeat_nil {A} n : concat (repeat (@nil A) n) = [].
Proof. induction n; simpl; auto. Qed.

Lemma nbins_at_Some lims lvl k : nbins_at lims lvl = Some k <-> exists l, nth_error lims lvl = Some l /\ k = (length l - 1)%nat.
Proof.
  unfold nbins_at. destruct (nth_error lims lvl) as [l|]; split.
  - intros H. inversion H. eauto.
  - intros [l' [H1 H2]]. inversion H1. subst. reflexivity.
  - discriminate.
  - intros [l' [H1 _]]. discriminate.
Qed.

Lemma in_allcells_cnt bc bc' : (forall c, cnt (allcells bc') c = cnt (allcells bc) c) ->
  forall c, In c (allcells bc') -> In c (allcells bc).
Proof. intros H c Hin. apply cnt_pos_In. rewrite <- H. apply cnt_pos_In. exact Hin. Qed.

Lemma coarsen_x_inv h d s s' : hier_wf h -> inv h d s -> coarsen_x h (length d) s = Some s' -> inv h d s'.
Proof.
  intros (nbX & nbY & HX & HY & LX & LY) I. unfold coarsen_x.
  destruct (nth_error (xpar h) (lvx s)) as [ps|] eqn:Eps; [|discriminate].
  destruct (nbins_at (xlim h) (S (lvx s))) as [np|] eqn:Enp; [|discriminate].
  destruct (nby h s) as [ny|] eqn:Eny; [|discriminate]. intros E. inversion E. subst s'. clear E.
  apply nbins_at_Some in Enp. destruct Enp as [lc [Hlc ->]].
  destruct (level_pair _ _ _ _ _ HX LX Hlc) as (lf & ps' & Hlf & Hps' & Hlen & Hruns & Hq).
  rewrite Eps in Hps'. inversion Hps'. subst ps'. clear Hps'.
  pose proof (inv_nbx _ _ _ I) as Hnbx. unfold nbx in Hnbx. apply nbins_at_Some in Hnbx.
  destruct Hnbx as [lf' [Hlf' Hk]]. rewrite Hlf in Hlf'. inversion Hlf'. subst lf'. clear Hlf'.
  destruct (inv_nby _ _ _ I) as [ky [Hky Hdim]]. rewrite Eny in Hky. inversion Hky. subst ky. clear Hky.
  set (W := fun col : list (list nat) => length col = ny).
  assert (HmW : forall a b, W a -> W b -> W (zipapp a b)).
  { unfold W. intros a b Ha Hb. rewrite zipapp_length; congruence. }
  assert (Hm : forall a b c, W a -> W b -> cnt (concat (zipapp a b)) c = (cnt (concat a) c + cnt (concat b) c)%nat).
  { unfold W. intros. apply zipapp_cnt. congruence. }
  assert (HeW : W (repeat [] ny)) by (unfold W; apply repeat_length).
  assert (He : forall c, cnt (concat (repeat (@nil nat) ny)) c = 0%nat) by (intros; rewrite concat_repeat_nil; reflexivity).
  assert (Hcnt : forall c, cnt (allcells (coarsen_gen zipapp (repeat [] ny) ps (length lc - 1) (bcells s))) c = cnt (allcells (bcells s)) c).
  { intros c. rewrite !cnt_allcells.
    apply (coarsen_cnt (@concat nat) W zipapp (repeat [] ny) HmW Hm HeW He); auto. lia. }
  apply with_cells_inv with (ky := ny).
  - apply nbins_at_Some. exists lc. split; auto. now rewrite coarsen_length.
  - exact Eny.
  - apply (coarsen_W W zipapp (repeat [] ny)); auto.
  - intros c Hin. apply (inv_rng _ _ _ I). eapply in_allcells_cnt; eauto.
  - intros c v Hv. rewrite Hcnt. apply (inv_cnt _ _ _ I). exact Hv.
Qed.

Lemma coarsen_y_inv h d s s' : hier_wf h -> inv h d s -> coarsen_y h (length d) s = Some s' -> inv h d s'.
Proof.
  intros (nbX & nbY & HX & HY & LX & LY) I. unfold coarsen_y.
  destruct (nth_error (ypar h) (lvy s)) as [ps|] eqn:Eps; [|discriminate].
  destruct (nbins_at (ylim h) (S (lvy s))) as [np|] eqn:Enp; [|discriminate].
  intros E. inversion E. subst s'. clear E.
  apply nbins_at_Some in Enp. destruct Enp as [lc [Hlc ->]].
  destruct (level_pair _ _ _ _ _ HY LY Hlc) as (lf & ps' & Hlf & Hps' & Hlen & Hruns & Hq).
  rewrite Eps in Hps'. inversion Hps'. subst ps'. clear Hps'.
  destruct (inv_nby _ _ _ I) as [ky [Hky Hdim]]. unfold nby in Hky. apply nbins_at_Some in Hky.
  destruct Hky as [lf' [Hlf' Hk]]. rewrite Hlf in Hlf'. inversion Hlf'. subst lf'. clear Hlf'.
  assert (Hcnt : forall c, cnt (allcells (map (coarsen_gen (@app nat) [] ps (length lc - 1)) (bcells s))) c = cnt (allcells (bcells s)) c).
  { intros c. rewrite !cnt_allcells, map_map. apply natsum_map_ext. intros col Hcol.
    rewrite !cnt_concat.
    apply (coarsen_cnt (fun l : list nat => l) (fun _ => True) (@app nat) []); auto.
    - intros. apply cnt_app.
    - apply Forall_forall. auto.
    - rewrite Forall_forall in Hdim. rewrite (Hdim col Hcol). lia. }
  apply with_cells_inv with (ky := (length lc - 1)%nat).
  - rewrite map_length. exact (inv_nbx _ _ _ I).
  - apply nbins_at_Some. eauto.
  - apply Forall_forall. intros col Hcol. apply in_map_iff in Hcol. destruct Hcol as [col0 [<- _]]. apply coarsen_length.
  - intros c Hin. apply (inv_rng _ _ _ I). eapply in_allcells_cnt; eauto.
  - intros c v Hv. rewrite Hcnt. apply (inv_cnt _ _ _ I). exact Hv.
Qed.

Lemma refine_x_inv h d s s' : hier_wf h -> inv h d s -> refine_x h (length d) s = Some s' -> inv h d s'.
Proof.
  intros (nbX & nbY & HX & HY & LX & LY) I. unfold refine_x.
  destruct (lvx s) as [|l] eqn:El; [discriminate|].
  destruct (nth_error (xpar h) l) as [ps|] eqn:Eps; [|discriminate].
  destruct (nby h s) as [ny|] eqn:Eny; [|discriminate].
  destruct (refine_gen (repeat [] ny) None ps (bcells s)) as [bc|] eqn:Ebc; [|discriminate].
  intros E. inversion E. subst s'. clear E.
  pose proof (inv_nbx _ _ _ I) as Hnbx. unfold nbx in Hnbx. rewrite El in Hnbx. apply nbins_at_Some in Hnbx.
  destruct Hnbx as [lc [Hlc Hk]].
  destruct (level_pair _ _ _ _ _ HX LX Hlc) as (lf & ps' & Hlf & Hps' & Hlen & Hruns & Hq).
  rewrite Eps in Hps'. inversion Hps'. subst ps'. clear Hps'.
  destruct (inv_nby _ _ _ I) as [ky [Hky Hdim]]. rewrite Eny in Hky. inversion Hky. subst ky. clear Hky.
  set (W := fun col : list (list nat) => length col = ny).
  destruct (refine_gen_spec (@concat nat) W (repeat [] ny)) with (m := (length lc - 1)%nat) (i := 0%nat) (prev := @None nat) (ps := ps) (olds := bcells s)
    as (res & R1 & R2 & R3 & R4); auto.
  { unfold W. apply repeat_length. } { intros; rewrite concat_repeat_nil; reflexivity. } { discriminate. } { lia. }
  rewrite Ebc in R1. inversion R1. subst res. clear R1.
  assert (Hcnt : forall c, cnt (allcells bc) c = cnt (allcells (bcells s)) c).
  { intros c. rewrite !cnt_allcells, R4. simpl skipn. rewrite firstn_all2 by lia. reflexivity. }
  apply with_cells_inv with (ky := ny).
  - apply nbins_at_Some. exists lf. split; auto. lia.
  - unfold nby in Eny. exact Eny.
  - exact R3.
  - intros c Hin. apply (inv_rng _ _ _ I). eapply in_allcells_cnt; eauto.
  - intros c v Hv. rewrite Hcnt. apply (inv_cnt _ _ _ I). exact Hv.
Qed.

Lemma Forall2_len {A B} (R : A -> B -> Prop) l l' : Forall2 R l l' -> length l = length l'.
Proof. induction 1; simpl; auto. Qed.

Lemma refine_y_inv h d s s' : hier_wf h -> inv h d s -> refine_y h (length d) s = Some s' -> inv h d s'.
Proof.
  intros (nbX & nbY & HX & HY & LX & LY) I. unfold refine_y.
  destruct (lvy s) as [|l] eqn:El; [discriminate|].
  destruct (nth_error (ypar h) l) as [ps|] eqn:Eps; [|discriminate].
  destruct (all_some (map (refine_gen [] None ps) (bcells s))) as [bc|] eqn:Ebc; [|discriminate].
  intros E. inversion E. subst s'. clear E.
  destruct (inv_nby _ _ _ I) as [ky [Hky Hdim]]. unfold nby in Hky. rewrite El in Hky. apply nbins_at_Some in Hky.
  destruct Hky as [lc [Hlc Hk]].
  destruct (level_pair _ _ _ _ _ HY LY Hlc) as (lf & ps' & Hlf & Hps' & Hlen & Hruns & Hq).
  rewrite Eps in Hps'. inversion Hps'. subst ps'. clear Hps'.
  apply all_some_Forall2 in Ebc.
  assert (Hcol : Forall2 (fun col col' => length col' = length ps /\ forall c, cnt (concat col') c = cnt (concat col) c) (bcells s) bc).
  { rewrite Forall_forall in Hdim. revert Ebc Hdim. generalize (bcells s). intros cols Ebc. induction Ebc as [|col col' cols bc' H1 H2 IH]; intros Hdim; constructor.
    - destruct (refine_gen_spec (fun l : list nat => l) (fun _ => True) []) with (m := (length lc - 1)%nat) (i := 0%nat) (prev := @None nat) (ps := ps) (olds := col)
        as (res & R1 & R2 & R3 & R4); auto.
      { discriminate. } { rewrite (Hdim col) by (simpl; auto). lia. } { apply Forall_forall. auto. }
      rewrite H1 in R1. inversion R1. subst res. split; auto.
      intros c. rewrite !cnt_concat, R4. simpl skipn. rewrite firstn_all2; auto. rewrite (Hdim col) by (simpl; auto). lia.
    - apply IH. intros x Hx. apply Hdim. simpl. auto. }
  assert (Hcnt : forall c, cnt (allcells bc) c = cnt (allcells (bcells s)) c).
  { intros c. rewrite !cnt_allcells. clear -Hcol. induction Hcol as [|col col' cols bc' [_ H1] H2 IH]; simpl; auto. }
  apply with_cells_inv with (ky := (length lf - 1)%nat).
  - rewrite <- (Forall2_len _ _ _ Hcol). exact (inv_nbx _ _ _ I).
  - apply nbins_at_Some. eauto.
  - clear -Hcol Hlen. induction Hcol as [|col col' cols bc' [H1 _] H2 IH]; constructor; auto. lia.
  - intros c Hin. apply (inv_rng _ _ _ I). eapply in_allcells_cnt; eauto.
  - intros c v Hv. rewrite Hcnt. apply (inv_cnt _ _ _ I). exact Hv.
Qed.

(* ------------------------------------------------------------------ the initial state *)

Lemma init_cnt_gen d : forall s c,
  cnt (map fst (filter (fun cv : nat * Z => 0 <? snd cv) (combine (seq s (length d)) d))) c =
  match (if (s <=? c)%nat then nth_error d (c - s) else None) with Some v => if 0 <? v then 1%nat else 0%nat | None => 0%nat end.
Proof.
  induction d as [|v0 d IH]; intros s c.
  - simpl. destruct (s <=? c)%nat; auto. destruct (c - s)%nat; auto.
  - simpl length. simpl seq. simpl combine. simpl filter. cbn [snd].
    assert (Hrest := IH (S s) c).
    destruct (Nat.leb_spec s c) as [Hle|Hlt].
    + destruct (Nat.eq_dec s c) as [->|Hne].
      * rewrite Nat.sub_diag. simpl nth_error.
        destruct (Nat.leb_spec (S c) c); [lia|].
        destruct (0 <? v0); simpl map; unfold cnt in *; simpl.
        -- destruct (Nat.eq_dec c c); [|congruence]. rewrite Hrest. reflexivity.
        -- rewrite Hrest. reflexivity.
      * destruct (Nat.leb_spec (S s) c); [|lia].
        replace (c - s)%nat with (S (c - S s)) by lia. simpl nth_error.
        destruct (0 <? v0); simpl map; unfold cnt in *; simpl.
        -- destruct (Nat.eq_dec s c); [congruence|]. exact Hrest.
        -- exact Hrest.
    + destruct (Nat.leb_spec (S s) c); [lia|].
      destruct (0 <? v0); simpl map; unfold cnt in *; simpl.
      * destruct (Nat.eq_dec s c); [lia|]. exact Hrest.
      * exact Hrest.
Qed.

Lemma init_inv h d : hier_wf h -> inv h d (init_state h d).
Proof.
  intros (nbX & nbY & HX & HY & LX & LY). unfold init_state.
  set (all := map fst (filter (fun cv : nat * Z => 0 <? snd cv) (combine (seq 0 (length d)) d))).
  assert (Hall : forall c, cnt (allcells [[all]]) c = match nth_error d c with Some v => if 0 <? v then 1%nat else 0%nat | None => 0%nat end).
  { intros c. unfold allcells. simpl. rewrite !app_nil_r. unfold all. rewrite init_cnt_gen. simpl. now rewrite Nat.sub_0_r. }
  destruct (levels_ok_top _ _ _ LX) as [TX _]. destruct (levels_ok_top _ _ _ LY) as [TY _].
  apply with_cells_inv with (ky := 1%nat).
  - apply nbins_at_Some. eexists. split; [exact TX|reflexivity].
  - apply nbins_at_Some. eexists. split; [exact TY|reflexivity].
  - constructor; auto.
  - intros c Hin. apply cnt_pos_In in Hin. rewrite Hall in Hin.
    destruct (nth_error d c) eqn:E; [|lia]. apply nth_error_Some. congruence.
  - intros c v Hv. rewrite Hall, Hv. reflexivity.
Qed.

(* ------------------------------------------------------------------ Redistribute preserves the invariant *)

Lemma natsum_map_upd {A} (f : A -> nat) ls k old v : nth_error ls k = Some old ->
  (natsum (map f (upd ls k v)) + f old = natsum (map f ls) + f v)%nat.
Proof.
  revert k. induction ls as [|x ls IH]; intros [|k] H; simpl in *; try discriminate.
  - inversion H. subst. lia.
  - specialize (IH k H). lia.
Qed.

Lemma upd2_cnt bc i j old v c : nth_error2 bc i j = Some old ->
  (cnt (allcells (upd2 bc i j v)) c + cnt old c = cnt (allcells bc) c + cnt v c)%nat.
Proof.
  unfold nth_error2, upd2. destruct (nth_error bc i) as [col|] eqn:Ecol; [|discriminate]. intros Hj.
  rewrite !cnt_allcells.
  pose proof (natsum_map_upd (fun col => cnt (concat col) c) bc i col (upd col j v) Ecol) as H1.
  pose proof (natsum_map_upd (fun l => cnt l c) col j old v Hj) as H2.
  rewrite <- !cnt_concat in H2. lia.
Qed.

Lemma upd2_length {A} (bc : list (list A)) i j v : length (upd2 bc i j v) = length bc.
Proof. unfold upd2. destruct (nth_error bc i); auto. apply upd_length. Qed.

Lemma upd_Forall {A} (P : A -> Prop) l k v : Forall P l -> P v -> Forall P (upd l k v).
Proof. intros H Hv. revert k. induction H; intros [|k]; simpl; constructor; auto. Qed.

Lemma upd2_dims {A} (bc : list (list A)) i j v ky : Forall (fun col => length col = ky) bc -> Forall (fun col => length col = ky) (upd2 bc i j v).
Proof.
  intros H. unfold upd2. destruct (nth_error bc i) as [col|] eqn:E; auto.
  apply upd_Forall; auto. rewrite upd_length. rewrite Forall_forall in H. apply H. eapply nth_error_In; eauto.
Qed.

Lemma nth_error2_upd2_same {A} (bc : list (list A)) i j old v : nth_error2 bc i j = Some old -> nth_error2 (upd2 bc i j v) i j = Some v.
Proof.
  unfold nth_error2, upd2. destruct (nth_error bc i) as [col|] eqn:E; [|discriminate]. intros Hj.
  rewrite upd_same by (apply nth_error_Some; congruence). apply upd_same. apply nth_error_Some. congruence.
Qed.

Lemma nth_error2_upd2_other {A} (bc : list (list A)) i j i' j' v : (i, j) <> (i', j') -> nth_error2 (upd2 bc i j v) i' j' = nth_error2 bc i' j'.
Proof.
  intros Hne. unfold nth_error2, upd2. destruct (nth_error bc i) as [col|] eqn:E; auto.
  destruct (Nat.eq_dec i i') as [<-|Hi].
  - rewrite upd_same by (apply nth_error_Some; congruence). rewrite E. apply upd_other. congruence.
  - rewrite upd_other by auto. reflexivity.
Qed.

Lemma pair_eqb_spec a b : pair_eqb a b = true <-> a = b.
Proof.
  unfold pair_eqb. destruct a as [a1 a2], b as [b1 b2]. simpl. rewrite andb_true_iff, !Nat.eqb_eq.
  split; [intros [-> ->]; auto|intros H; inversion H; auto].
Qed.

Lemma nodup_pairs_cons t T : nodup_pairs (t :: T) = true -> ~ In t T /\ nodup_pairs T = true.
Proof.
  simpl. rewrite andb_true_iff, negb_true_iff. intros [H1 H2]. split; auto.
  intros Hin. assert (existsb (pair_eqb t) T = true); [|congruence].
  apply existsb_exists. exists t. split; auto. now apply pair_eqb_spec.
Qed.

Fixpoint setb (bc : list (list (list nat))) (T : list (nat * nat)) (news : list (list nat)) : list (list (list nat)) :=
  match T, news with
  | t :: T', l :: news' => setb (upd2 bc (fst t) (snd t) l) T' news'
  | _, _ => bc
  end.
Fixpoint keys (T : list (nat * nat)) (news : list (list nat)) : list (nat * (nat * nat)) :=
  match T, news with
  | t :: T', l :: news' => map (fun c => (c, t)) l ++ keys T' news'
  | _, _ => []
  end.

Lemma fold_cb_pair l x y a b :
  fold_left cb_step (map (fun c => (c, (x, y))) l) (a, b) =
  (fold_left (fun a c => upd a c (Z.of_nat x)) l a, fold_left (fun a c => upd a c (Z.of_nat y)) l b).
Proof. revert a b. induction l as [|c l IH]; intros a b; simpl; auto. unfold cb_step at 2. simpl. apply IH. Qed.

Lemma set_bins_eq T : forall s news,
  lvx (set_bins s T news) = lvx s /\ lvy (set_bins s T news) = lvy s /\
  bcells (set_bins s T news) = setb (bcells s) T news /\
  (cbx (set_bins s T news), cby (set_bins s T news)) = fold_left cb_step (keys T news) (cbx s, cby s).
Proof.
  induction T as [|t T IH]; intros s news; [simpl; auto|].
  destruct news as [|l news]; [simpl; auto|].
  cbn [set_bins setb keys]. destruct (IH (set_bin_cells s (fst t) (snd t) l) news) as (H1 & H2 & H3 & H4).
  rewrite H1, H2, H3, H4. cbn [set_bin_cells lvx lvy bcells cbx cby]. repeat split; auto.
  rewrite fold_left_app. f_equal. destruct t as [x y]. cbn [fst snd]. now rewrite fold_cb_pair.
Qed.

Lemma keys_fst T : forall news, length T = length news -> map fst (keys T news) = concat news.
Proof.
  induction T as [|t T IH]; intros [|l news] H; simpl in *; try discriminate; auto.
  rewrite map_app, map_map, IH by lia. simpl. now rewrite map_id.
Qed.

Lemma keys_In T : forall news c t, In (c, t) (keys T news) -> exists k l, nth_error T k = Some t /\ nth_error news k = Some l /\ In c l.
Proof.
  induction T as [|t0 T IH]; intros [|l news] c t H; simpl in H; try contradiction.
  apply in_app_or in H. destruct H as [H|H].
  - apply in_map_iff in H. destruct H as [c' [Heq Hc]]. inversion Heq; subst. exists 0%nat, l. auto.
  - destruct (IH news c t H) as (k & l' & H1 & H2 & H3). exists (S k), l'. auto.
Qed.

Lemma keys_In_rev T : forall news k t l c, nth_error T k = Some t -> nth_error news k = Some l -> In c l -> In (c, t) (keys T news).
Proof.
  induction T as [|t0 T IH]; intros [|l0 news] k t l c H1 H2 H3; destruct k; simpl in *; try discriminate.
  - inversion H1; inversion H2; subst. apply in_or_app. left. apply in_map_iff. eauto.
  - apply in_or_app. right. eapply IH; eauto.
Qed.

Definition validT (bc : list (list (list nat))) (T : list (nat * nat)) : Prop :=
  forall t, In t T -> exists l, nth_error2 bc (fst t) (snd t) = Some l.

Lemma bins_valid_spec bc T : bins_valid bc T = true <-> validT bc T.
Proof.
  unfold bins_valid, validT. rewrite forallb_forall. split; intros H t Ht; specialize (H t Ht).
  - destruct (nth_error2 bc (fst t) (snd t)); [eauto|discriminate].
  - destruct H as [l ->]. reflexivity.
Qed.

Lemma gather_cons bc t T : gather bc (t :: T) = match nth_error2 bc (fst t) (snd t) with Some l => l | None => [] end ++ gather bc T.
Proof. reflexivity. Qed.

Lemma gather_upd2_other bc t l T : ~ In t T -> gather (upd2 bc (fst t) (snd t) l) T = gather bc T.
Proof.
  intros Hn. induction T as [|t' T IH]; [reflexivity|]. rewrite !gather_cons.
  rewrite nth_error2_upd2_other.
  - rewrite IH; auto. intros H. apply Hn. simpl. auto.
  - intros Heq. apply Hn. left. destruct t, t'. simpl in Heq. congruence.
Qed.

Lemma validT_upd2_other bc t l T : ~ In t T -> validT bc T -> validT (upd2 bc (fst t) (snd t) l) T.
Proof.
  intros Hn Hv t' Ht'. destruct (Hv t' Ht') as [l' Hl']. exists l'. rewrite nth_error2_upd2_other; auto.
  intros Heq. apply Hn. destruct t, t'. simpl in Heq. inversion Heq; subst. exact Ht'.
Qed.

Lemma setb_count T : forall bc news c, length T = length news -> nodup_pairs T = true -> validT bc T ->
  (cnt (allcells (setb bc T news)) c + cnt (gather bc T) c = cnt (allcells bc) c + cnt (concat news) c)%nat.
Proof.
  induction T as [|t T IH]; intros bc [|l news] c Hlen Hnd Hv; simpl in Hlen; try discriminate.
  - simpl. lia.
  - apply nodup_pairs_cons in Hnd. destruct Hnd as [Hnin Hnd].
    destruct (Hv t (or_introl eq_refl)) as [old Hold].
    cbn [setb]. rewrite gather_cons, Hold. simpl concat. rewrite !cnt_app.
    specialize (IH (upd2 bc (fst t) (snd t) l) news c). rewrite gather_upd2_other in IH by auto.
    pose proof (upd2_cnt bc (fst t) (snd t) old l c Hold).
    assert (validT (upd2 bc (fst t) (snd t) l) T).
    { apply validT_upd2_other; auto. intros t' Ht'. apply Hv. simpl. auto. }
    specialize (IH ltac:(lia) Hnd H0). lia.
Qed.

Lemma gather_le bc T c : nodup_pairs T = true -> validT bc T -> (cnt (gather bc T) c <= cnt (allcells bc) c)%nat.
Proof.
  intros Hnd Hv. pose proof (setb_count T bc (map (fun _ => []) T) c) as H.
  rewrite map_length in H. specialize (H eq_refl Hnd Hv).
  assert (concat (map (fun _ : nat * nat => @nil nat) T) = []) by (clear; induction T; simpl; auto).
  rewrite H0 in H. simpl in H. lia.
Qed.

Lemma setb_other T : forall bc news i j, ~ In (i, j) T -> nth_error2 (setb bc T news) i j = nth_error2 bc i j.
Proof.
  induction T as [|t T IH]; intros bc [|l news] i j Hn; simpl; auto.
  rewrite IH by (intros H; apply Hn; simpl; auto). apply nth_error2_upd2_other.
  intros Heq. apply Hn. left. destruct t. simpl in Heq. congruence.
Qed.

Lemma setb_at T : forall bc news k i j l, nodup_pairs T = true -> validT bc T ->
  nth_error T k = Some (i, j) -> nth_error news k = Some l -> nth_error2 (setb bc T news) i j = Some l.
Proof.
  induction T as [|t T IH]; intros bc [|l0 news] k i j l Hnd Hv H1 H2; destruct k; simpl in H1, H2; try discriminate.
  - inversion H1; inversion H2; subst. apply nodup_pairs_cons in Hnd. destruct Hnd as [Hnin _].
    cbn [setb fst snd]. rewrite setb_other by exact Hnin.
    destruct (Hv (i, j) (or_introl eq_refl)) as [old Hold]. simpl in Hold. eapply nth_error2_upd2_same; eauto.
  - apply nodup_pairs_cons in Hnd. destruct Hnd as [Hnin Hnd]. cbn [setb].
    eapply IH; eauto. apply validT_upd2_other; auto. intros t' Ht'. apply Hv. simpl. auto.
Qed.

Lemma setb_dims T : forall bc news ky, Forall (fun col => length col = ky) bc ->
  length (setb bc T news) = length bc /\ Forall (fun col => length col = ky) (setb bc T news).
Proof.
  induction T as [|t T IH]; intros bc [|l news] ky H; simpl; auto.
  destruct (IH (upd2 bc (fst t) (snd t) l) news ky) as [H1 H2]; [now apply upd2_dims|].
  rewrite H1, upd2_length. auto.
Qed.

Lemma perm_b_spec l l' : perm_b l l' = true <-> forall c, cnt l c = cnt l' c.
Proof.
  unfold perm_b. rewrite forallb_forall. split.
  - intros H c. destruct (in_dec Nat.eq_dec c (l ++ l')) as [Hin|Hnin].
    + apply Nat.eqb_eq. apply H. exact Hin.
    + assert (~ In c l /\ ~ In c l') as [H1 H2] by (split; intros Hc; apply Hnin; apply in_or_app; auto).
      apply cnt_0_notIn in H1. apply cnt_0_notIn in H2. congruence.
  - intros H c _. apply Nat.eqb_eq. apply H.
Qed.

Lemma perm_b_Permutation l l' : perm_b l l' = true <-> Permutation l l'.
Proof. rewrite perm_b_spec. unfold cnt. symmetry. apply Permutation_count_occ. Qed.

Lemma redistribute_inv h d s T news s' : inv h d s -> redistribute s T news = Some s' -> inv h d s'.
Proof.
  intros I. unfold redistribute.
  destruct ((length T =? length news)%nat && nodup_pairs T && bins_valid (bcells s) T && perm_b (gather (bcells s) T) (concat news)) eqn:G; [|discriminate].
  intros E. inversion E. subst s'. clear E.
  rewrite !andb_true_iff in G. destruct G as [[[Hlen Hnd] Hval] Hperm].
  apply Nat.eqb_eq in Hlen. apply bins_valid_spec in Hval. rewrite perm_b_spec in Hperm.
  destruct (set_bins_eq T s news) as (E1 & E2 & E3 & E4).
  assert (Hcnt : forall c, cnt (allcells (setb (bcells s) T news)) c = cnt (allcells (bcells s)) c).
  { intros c. pose proof (setb_count T (bcells s) news c Hlen Hnd Hval). rewrite (Hperm c) in H. lia. }
  pose proof (cnt_le1 d (bcells s) (inv_rng _ _ _ I) (inv_cnt _ _ _ I)) as Hle.
  assert (Hkeys : forall c, In c (map fst (keys T news)) -> (1 <= cnt (gather (bcells s) T) c)%nat).
  { intros c Hin. rewrite keys_fst in Hin by exact Hlen. rewrite (Hperm c). apply cnt_pos_In in Hin. lia. }
  destruct (inv_nby _ _ _ I) as [ky [Hky Hdim]].
  destruct (setb_dims T (bcells s) news ky Hdim) as [D1 D2].
  assert (Ex : cbx (set_bins s T news) = fst (fold_left cb_step (keys T news) (cbx s, cby s))) by (rewrite <- E4; reflexivity).
  assert (Ey : cby (set_bins s T news) = snd (fold_left cb_step (keys T news) (cbx s, cby s))) by (rewrite <- E4; reflexivity).
  destruct (fold_cb_length (keys T news) (cbx s, cby s)) as [L1 L2]. simpl in L1, L2.
  constructor.
  - unfold nbx. rewrite E1, E3, D1. exact (inv_nbx _ _ _ I).
  - exists ky. unfold nby. rewrite E2, E3. split; auto.
  - rewrite E3. intros c Hin. apply (inv_rng _ _ _ I). eapply in_allcells_cnt; eauto.
  - rewrite E3. intros c v Hv. rewrite Hcnt. apply (inv_cnt _ _ _ I). exact Hv.
  - rewrite Ex, L1. exact (inv_lenx _ _ _ I).
  - rewrite Ey, L2. exact (inv_leny _ _ _ I).
  - rewrite E3, Ex, Ey. intros i j l c Hl Hc.
    assert (Hcn : (c < length d)%nat).
    { apply (inv_rng _ _ _ I). apply (in_allcells_cnt _ _ Hcnt). rewrite <- cell_bins_keys. apply in_map_iff. exists (c, (i, j)). split; auto. apply cell_bins_In. eauto. }
    destruct (in_dec (fun a b : nat * nat => ltac:(decide equality; apply Nat.eq_dec)) (i, j) T) as [HinT|HninT].
    + apply In_nth_error in HinT. destruct HinT as [k Hk].
      destruct (nth_error news k) as [l'|] eqn:El'.
      2:{ apply nth_error_None in El'. assert (k < length T)%nat by (apply nth_error_Some; congruence). lia. }
      rewrite (setb_at T (bcells s) news k i j l' Hnd Hval Hk El') in Hl. inversion Hl. subst l'.
      apply (fold_cb_set (keys T news) (cbx s, cby s) c (i, j)).
      * intros v' Hv'. apply (count_le1_unique (keys T news) c); auto.
        2:{ eapply keys_In_rev; eauto. }
        rewrite keys_fst by exact Hlen. rewrite <- (Hperm c).
        pose proof (gather_le (bcells s) T c Hnd Hval). specialize (Hle c). lia.
      * eapply keys_In_rev; eauto.
      * simpl. rewrite (inv_lenx _ _ _ I). exact Hcn.
      * simpl. rewrite (inv_leny _ _ _ I). exact Hcn.
    + rewrite setb_other in Hl by exact HninT.
      destruct (fold_cb_untouched (keys T news) (cbx s, cby s) c) as [U1 U2].
      { intros Hin. specialize (Hkeys c Hin).
        assert (Hnd2 : nodup_pairs ((i, j) :: T) = true).
        { simpl. rewrite Hnd, andb_true_r, negb_true_iff. destruct (existsb (pair_eqb (i, j)) T) eqn:Ex2; auto.
          apply existsb_exists in Ex2. destruct Ex2 as [t [Ht Heq]]. apply pair_eqb_spec in Heq. subst t. contradiction. }
        assert (Hv2 : validT (bcells s) ((i, j) :: T)).
        { intros t [<-|Ht]; [simpl; eauto|apply Hval; auto]. }
        pose proof (gather_le (bcells s) ((i, j) :: T) c Hnd2 Hv2) as G2.
        rewrite gather_cons in G2. simpl fst in G2. simpl snd in G2. rewrite Hl, cnt_app in G2.
        apply cnt_pos_In in Hc. specialize (Hle c). lia. }
      rewrite U1, U2. simpl. exact (inv_in _ _ _ I i j l c Hl Hc).
  - rewrite E3, Ex, Ey. intros c Hcn Hnot.
    assert (Hnot0 : ~ In c (allcells (bcells s))).
    { apply cnt_0_notIn. rewrite <- Hcnt. apply cnt_0_notIn. exact Hnot. }
    destruct (fold_cb_untouched (keys T news) (cbx s, cby s) c) as [U1 U2].
    { intros Hin. specialize (Hkeys c Hin). pose proof (gather_le (bcells s) T c Hnd Hval).
      apply cnt_0_notIn in Hnot0. lia. }
    rewrite U1, U2. simpl. exact (inv_out _ _ _ I c Hcn Hnot0).
Qed.

(* ------------------------------------------------------------------ every history *)

Theorem step_inv h d s o s' : hier_wf h -> inv h d s -> step h (length d) s o = Some s' -> inv h d s'.
Proof.
  intros Hh I. destruct o; simpl.
  - apply refine_x_inv; auto.
  - apply refine_y_inv; auto.
  - apply coarsen_x_inv; auto.
  - apply coarsen_y_inv; auto.
  - apply redistribute_inv; auto.
Qed.

Theorem run_ops_inv h d ops : forall s s', hier_wf h -> inv h d s -> run_ops h (length d) s ops = Some s' -> inv h d s'.
Proof.
  induction ops as [|o ops IH]; intros s s' Hh I; simpl.
  - intros E. inversion E. subst. exact I.
  - destruct (step h (length d) s o) as [s1|] eqn:E1; [|discriminate].
    apply IH; auto. eapply step_inv; eauto.
Qed.

Theorem partition_invariant h d ops s' : hier_wf h ->
  run_ops h (length d) (init_state h d) ops = Some s' -> inv h d s'.
Proof. intros Hh. apply run_ops_inv; auto. apply init_inv; auto. Qed.

(* ------------------------------------------------------------------ the hierarchy of a grid is well formed *)

Theorem make_hier_wf g : (2 <= length (limX g))%nat -> (2 <= length (limY g))%nat ->
  exists h, make_hier g = Some h /\ hgrid h = g /\ hier_wf h.
Proof.
  intros Hx Hy. unfold make_hier.
  destruct (setup_hierarchy_ok (length (limX g) - 1)) as (XL & XP & EX & OX); [lia|].
  destruct (setup_hierarchy_ok (length (limY g) - 1)) as (YL & YP & EY & OY); [lia|].
  rewrite EX, EY. eexists. split; [reflexivity|]. split; [reflexivity|].
  exists (length (limX g) - 1)%nat, (length (limY g) - 1)%nat. simpl. repeat split; auto; lia.
Qed.

Lemma make_grid_lengths bs regs : (2 <= length (limX (make_grid bs regs)))%nat /\ (2 <= length (limY (make_grid bs regs)))%nat.
Proof.
  unfold make_grid. cbv zeta. cbn [limX limY]. rewrite !subdiv_length. unfold nb_bins. split.
  - assert (1 <= Z.to_nat (Z.max 1 (Z.quot (rwidth (placement_area regs)) bs)))%nat by lia. lia.
  - assert (1 <= Z.to_nat (Z.max 1 (Z.quot (rheight (placement_area regs)) bs)))%nat by lia. lia.
Qed.

(* ------------------------------------------------------------------ what the invariant says cell by cell *)

Theorem inv_positive_cell_in_exactly_one_bin h d s c v :
  inv h d s -> nth_error d c = Some v -> 0 < v ->
  exists i j l, nth_error2 (bcells s) i j = Some l /\ cnt l c = 1%nat /\
    (forall i' j' l', nth_error2 (bcells s) i' j' = Some l' -> In c l' -> (i', j') = (i, j)) /\
    nth_error (cbx s) c = Some (Z.of_nat i) /\ nth_error (cby s) c = Some (Z.of_nat j).
Proof.
  intros I Hv Hpos. pose proof (inv_cnt _ _ _ I c v Hv) as Hc.
  destruct (Z.ltb_spec 0 v); [|lia].
  assert (Hin : In c (allcells (bcells s))) by (apply cnt_pos_In; lia).
  rewrite <- cell_bins_keys in Hin. apply in_map_iff in Hin. destruct Hin as [[c' [i j]] [Hfst Hin]]. simpl in Hfst. subst c'.
  pose proof Hin as Hin'. apply cell_bins_In in Hin'. destruct Hin' as [l [Hl Hcl]].
  exists i, j, l. split; [exact Hl|]. split; [|split].
  - assert (Hnd : nodup_pairs [(i, j)] = true) by reflexivity.
    assert (Hv1 : validT (bcells s) [(i, j)]) by (intros t [<-|[]]; simpl; eauto).
    pose proof (gather_le (bcells s) [(i, j)] c Hnd Hv1) as G. rewrite gather_cons in G. simpl fst in G. simpl snd in G.
    rewrite Hl in G. simpl gather in G. rewrite app_nil_r in G. apply cnt_pos_In in Hcl. lia.
  - intros i' j' l' Hl' Hc'.
    assert (Hin2 : In (c, (i', j')) (cell_bins (bcells s))) by (apply cell_bins_In; eauto).
    apply (count_le1_unique (cell_bins (bcells s)) c); auto. rewrite cell_bins_keys. lia.
  - exact (inv_in _ _ _ I i j l c Hl Hcl).
Qed.

Theorem inv_nonpositive_cell_in_no_bin h d s c v :
  inv h d s -> nth_error d c = Some v -> v <= 0 ->
  (forall i j l, nth_error2 (bcells s) i j = Some l -> ~ In c l) /\
  nth_error (cbx s) c = Some (-1) /\ nth_error (cby s) c = Some (-1).
Proof.
  intros I Hv Hle. pose proof (inv_cnt _ _ _ I c v Hv) as Hc.
  destruct (Z.ltb_spec 0 v); [lia|]. apply cnt_0_notIn in Hc. split.
  - intros i j l Hl Hin. apply Hc. rewrite <- cell_bins_keys. apply in_map_iff. exists (c, (i, j)). split; auto.
    apply cell_bins_In. eauto.
  - apply (inv_out _ _ _ I); auto. apply nth_error_Some. congruence.
Qed.

(* ------------------------------------------------------------------ the boolean checker is the invariant *)

Lemma zeqb_opt_spec o v : zeqb_opt o v = true <-> o = Some v.
Proof. unfold zeqb_opt. destruct o as [w|]; [rewrite Z.eqb_eq|]; split; intros H; try discriminate; try congruence. Qed.

Theorem partition_okb_correct h d s : partition_okb h d s = true <-> inv h d s.
Proof.
  unfold partition_okb. split.
  - destruct (nbx h s) as [kx|] eqn:Ex; [|discriminate]. destruct (nby h s) as [ky|] eqn:Ey; [|discriminate].
    rewrite !andb_true_iff. intros [[[[[[[H1 H2] H3] H4] H5] H6] H7] H8].
    rewrite forallb_forall in H2, H3, H4, H7, H8.
    apply Nat.eqb_eq in H1, H5, H6.
    constructor; auto.
    + rewrite Ex, H1. reflexivity.
    + exists ky. split; auto. apply Forall_forall. intros col Hcol. apply Nat.eqb_eq. auto.
    + intros c Hin. apply Nat.ltb_lt. auto.
    + intros c v Hv. apply Nat.eqb_eq. apply (H4 (c, v)). apply in_combine_seq. rewrite Nat.sub_0_r. split; [lia|exact Hv].
    + intros i j l c Hl Hc. assert (Hin : In (c, (i, j)) (cell_bins (bcells s))) by (apply cell_bins_In; eauto).
      specialize (H7 _ Hin). simpl in H7. rewrite andb_true_iff, !zeqb_opt_spec in H7. exact H7.
    + intros c Hcn Hnot. assert (Hin : In c (seq 0 (length d))) by (apply in_seq; lia).
      specialize (H8 _ Hin). rewrite orb_true_iff, andb_true_iff, !zeqb_opt_spec, Nat.ltb_lt, cnt_pos_In in H8. tauto.
  - intros I. rewrite (inv_nbx _ _ _ I). destruct (inv_nby _ _ _ I) as [ky [-> Hd]].
    rewrite !andb_true_iff. repeat split.
    + apply Nat.eqb_refl.
    + apply forallb_forall. intros col Hcol. apply Nat.eqb_eq. rewrite Forall_forall in Hd. auto.
    + apply forallb_forall. intros c Hc. apply Nat.ltb_lt. exact (inv_rng _ _ _ I c Hc).
    + apply forallb_forall. intros [c v] Hin. apply in_combine_seq in Hin. rewrite Nat.sub_0_r in Hin. destruct Hin as [_ Hv].
      apply Nat.eqb_eq. simpl. exact (inv_cnt _ _ _ I c v Hv).
    + apply Nat.eqb_eq. exact (inv_lenx _ _ _ I).
    + apply Nat.eqb_eq. exact (inv_leny _ _ _ I).
    + apply forallb_forall. intros [c [i j]] Hin. apply cell_bins_In in Hin. destruct Hin as [l [Hl Hc]].
      simpl. rewrite andb_true_iff, !zeqb_opt_spec. exact (inv_in _ _ _ I i j l c Hl Hc).
    + apply forallb_forall. intros c Hin. apply in_seq in Hin.
      rewrite orb_true_iff, andb_true_iff, !zeqb_opt_spec, Nat.ltb_lt, cnt_pos_In.
      destruct (in_dec Nat.eq_dec c (allcells (bcells s))) as [Hc|Hc]; [left; exact Hc|right].
      apply (inv_out _ _ _ I); auto. lia.
Qed.

(* ------------------------------------------------------------------ rebisect / reoptimize are Redistribute steps *)

Theorem rebisect_is_redistribute d s x1 y1 x2 y2 b1 b2 sorted ideal capa1 capa2 n1 n2 :
  (x1, y1) <> (x2, y2) ->
  nth_error2 (bcells s) x1 y1 = Some b1 -> nth_error2 (bcells s) x2 y2 = Some b2 ->
  Permutation sorted (b1 ++ b2) ->
  rebisect_split d sorted ideal capa1 capa2 = Some (n1, n2) ->
  exists s', redistribute s [(x1, y1); (x2, y2)] [n1; n2] = Some s'.
Proof.
  intros Hne H1 H2 Hp Hr. unfold rebisect_split in Hr.
  destruct (demands_of d sorted); [|discriminate].
  destruct (find_constrained_split l ideal capa1 capa2) as [k|]; [|discriminate].
  inversion Hr. subst n1 n2. clear Hr.
  unfold redistribute.
  assert (G1 : nodup_pairs [(x1, y1); (x2, y2)] = true).
  { simpl. destruct (pair_eqb (x1, y1) (x2, y2)) eqn:E; auto. apply pair_eqb_spec in E. contradiction. }
  assert (G2 : bins_valid (bcells s) [(x1, y1); (x2, y2)] = true).
  { apply bins_valid_spec. intros t [<-|[<-|[]]]; simpl; eauto. }
  assert (G3 : perm_b (gather (bcells s) [(x1, y1); (x2, y2)]) (concat [firstn k sorted; skipn k sorted]) = true).
  { apply perm_b_Permutation. simpl. rewrite H1, H2, !app_nil_r, firstn_skipn. symmetry. exact Hp. }
  rewrite G1, G2, G3. simpl. eauto.
Qed.

Lemma cnt_map_fst_filter (f : nat * nat -> bool) L c :
  cnt (map fst (filter f L)) c = natsum (map (fun ca => if f ca then (if Nat.eq_dec (fst ca) c then 1%nat else 0%nat) else 0%nat) L).
Proof.
  induction L as [|ca L IH]; simpl; auto. destruct (f ca); simpl; [|exact IH].
  unfold cnt in *. simpl. destruct (Nat.eq_dec (fst ca) c); rewrite IH; reflexivity.
Qed.
Lemma cnt_as_sum l c : cnt l c = natsum (map (fun x => if Nat.eq_dec x c then 1%nat else 0%nat) l).
Proof. induction l as [|x l IH]; simpl; auto. unfold cnt in *. simpl. destruct (Nat.eq_dec x c); rewrite IH; reflexivity. Qed.

(* the reallocation loop hands back exactly the cells it was given when every assignment is a bin index *)
Theorem reallocate_preserves_cells nb cells assignment :
  length cells = length assignment -> (forall a, In a assignment -> (a < nb)%nat) ->
  perm_b cells (concat (reallocate nb cells assignment)) = true.
Proof.
  intros Hlen Hr. apply perm_b_spec. intros c. unfold reallocate. rewrite cnt_concat, map_map.
  rewrite (natsum_map_ext _ (fun b => natsum (map (fun ca : nat * nat => if (snd ca =? b)%nat then (if Nat.eq_dec (fst ca) c then 1%nat else 0%nat) else 0%nat) (combine cells assignment)))).
  2:{ intros b _. apply cnt_map_fst_filter. }
  rewrite natsum_swap.
  rewrite (natsum_map_ext _ (fun ca : nat * nat => if Nat.eq_dec (fst ca) c then 1%nat else 0%nat)).
  2:{ intros ca Hin. rewrite natsum_seq_select. simpl.
      assert (snd ca < nb)%nat by (apply Hr; eapply in_combine_snd; eauto).
      destruct (Nat.ltb_spec (snd ca) nb); [reflexivity|lia]. }
  rewrite <- (map_map fst (fun x => if Nat.eq_dec x c then 1%nat else 0%nat)). rewrite map_fst_combine by exact Hlen.
  apply cnt_as_sum.
Qed.

(* ------------------------------------------------------------------ grid geometry *)

Definition contains (a r : rect) : Prop :=
  minX a <= minX r /\ maxX r <= maxX a /\ minY a <= minY r /\ maxY r <= maxY a.

Definition bbox_step (a r : rect) : rect :=
  {| minX := Z.min (minX r) (minX a); maxX := Z.max (maxX r) (maxX a);
     minY := Z.min (minY r) (minY a); maxY := Z.max (maxY r) (maxY a) |}.

Lemma bbox_fold rs : forall acc,
  contains (fold_left bbox_step rs acc) acc /\ forall r, In r rs -> contains (fold_left bbox_step rs acc) r.
Proof.
  induction rs as [|r0 rs IH]; intros acc; simpl.
  - split; [unfold contains; lia|tauto].
  - destruct (IH (bbox_step acc r0)) as [H1 H2]. unfold contains, bbox_step in *. simpl in *. split.
    + lia.
    + intros r [<-|Hr]; [lia|]. apply H2. exact Hr.
Qed.

Lemma placement_area_contains regs r : In r regs -> contains (placement_area regs) r.
Proof.
  destruct regs as [|r0 rs]; [intros []|]. intros Hin. unfold placement_area.
  change (fold_left _ rs r0) with (fold_left bbox_step rs r0).
  destruct (bbox_fold rs r0) as [H1 H2]. destruct Hin as [<-|Hin]; auto.
Qed.

Lemma placement_area_proper regs : Forall proper regs -> proper (placement_area regs).
Proof.
  intros H. destruct regs as [|r0 rs]; [unfold proper; simpl; lia|].
  pose proof (placement_area_contains (r0 :: rs) r0 (or_introl eq_refl)) as Hc.
  inversion H as [|? ? [P1 P2] _]; subst. unfold contains, proper in *. lia.
Qed.

Lemma nb_bins_ge1 w bs : 1 <= nb_bins w bs.
Proof. unfold nb_bins. lia. Qed.
Lemma nb_bins_le w bs : 1 <= bs -> 1 <= w -> nb_bins w bs <= w.
Proof.
  intros Hb Hw. unfold nb_bins. assert (Z.quot w bs <= w); [|lia].
  rewrite Z.quot_div_nonneg by lia. apply Z.div_le_upper_bound; nia.
Qed.

(* the bin limits tile the placement area *)
Theorem grid_limits_tile bs regs : Forall proper regs ->
  let g := make_grid bs regs in let a := placement_area regs in
  (hdZ (limX g) = minX a /\ lastZ (limX g) = maxX a /\ chainZ (limX g) /\ (1 <= bs -> 1 <= rwidth a -> schainZ (limX g))) /\
  (hdZ (limY g) = minY a /\ lastZ (limY g) = maxY a /\ chainZ (limY g) /\ (1 <= bs -> 1 <= rheight a -> schainZ (limY g))).
Proof.
  intros Hp g a. destruct (placement_area_proper regs Hp) as [Px Py]. fold a in Px, Py.
  unfold g, make_grid. cbv zeta. cbn [limX limY]. fold a. split.
  - split; [apply subdiv_hd|]. split; [apply subdiv_lastZ, nb_bins_ge1|]. split; [apply subdiv_chain; auto; apply nb_bins_ge1|].
    intros Hb Hw. apply subdiv_schain; [apply nb_bins_ge1|]. apply nb_bins_le; auto.
  - split; [apply subdiv_hd|]. split; [apply subdiv_lastZ, nb_bins_ge1|]. split; [apply subdiv_chain; auto; apply nb_bins_ge1|].
    intros Hb Hw. apply subdiv_schain; [apply nb_bins_ge1|]. apply nb_bins_le; auto.
Qed.

Lemma grid_cap_eq bs regs : gcap (make_grid bs regs) = bin_capacity (limX (make_grid bs regs)) (limY (make_grid bs regs)) regs.
Proof. reflexivity. Qed.

(* the capacity of a bin is the total area of the regions inside it *)
Theorem bin_capacity_is_region_area bs regs i j px py : Forall proper regs ->
  let g := make_grid bs regs in
  nth_error (pairs (limX g)) i = Some px -> nth_error (pairs (limY g)) j = Some py ->
  nth_error2 (gcap g) i j = Some (sumZ (map (fun r => inter_area r (bin_region px py)) regs)).
Proof.
  intros Hp g Hx Hy. destruct (grid_limits_tile bs regs Hp) as [(_ & _ & Cx & _) (_ & _ & Cy & _)]. fold g in Cx, Cy.
  unfold g at 1. rewrite grid_cap_eq. fold g. rewrite bin_capacity_spec.
  rewrite (nth_error2_capF _ _ _ i j px py Hx Hy). f_equal. apply sumZ_map_ext. intros r Hr.
  apply contrib_inter_area.
  - rewrite Forall_forall in Hp. auto.
  - destruct px as [p q], py as [p2 q2]. split; simpl.
    + apply (pairs_chain_le (limX g)); auto. eapply nth_error_In; eauto.
    + apply (pairs_chain_le (limY g)); auto. eapply nth_error_In; eauto.
Qed.

Lemma total_capacity_capF lx ly F :
  sumZ (map sumZ (capF lx ly F)) = block_cap (capF lx ly F) 0 (length lx - 1) 0 (length ly - 1).
Proof.
  rewrite block_cap_capF. rewrite !Nat.sub_0_r. simpl skipn.
  rewrite !firstn_all2 by (rewrite pairs_length; lia).
  unfold capF. rewrite map_map. reflexivity.
Qed.

Lemma ovl_inside a b p q : p <= a -> a <= b -> b <= q -> ovl a b p q = b - a.
Proof. unfold ovl. lia. Qed.

Lemma nth_error_0_hd (l : list Z) : l <> [] -> nth_error l 0 = Some (hdZ l).
Proof. destruct l; [congruence|reflexivity]. Qed.

(* the bins together hold exactly the area of the regions *)
Theorem total_capacity_is_region_area bs regs : Forall proper regs ->
  total_capacity (make_grid bs regs) = sumZ (map rarea regs).
Proof.
  intros Hp. set (g := make_grid bs regs).
  destruct (grid_limits_tile bs regs Hp) as [(Hx1 & Hx2 & Cx & _) (Hy1 & Hy2 & Cy & _)]. fold g in Hx1, Hx2, Cx, Hy1, Hy2, Cy.
  destruct (make_grid_lengths bs regs) as [Lx Ly]. fold g in Lx, Ly.
  assert (Nx : limX g <> []) by (intro E; rewrite E in Lx; simpl in Lx; lia).
  assert (Ny : limY g <> []) by (intro E; rewrite E in Ly; simpl in Ly; lia).
  unfold total_capacity. unfold g at 1. rewrite grid_cap_eq. fold g. rewrite bin_capacity_spec, total_capacity_capF.
  rewrite <- bin_capacity_spec.
  rewrite (block_capacity (limX g) (limY g) regs 0 (length (limX g) - 1) 0 (length (limY g) - 1) (hdZ (limX g)) (lastZ (limX g)) (hdZ (limY g)) (lastZ (limY g))); auto;
    try (apply nth_error_0_hd; assumption);
    try (rewrite Nat.sub_0_r; simpl; apply last_nth_error; assumption).
  - apply sumZ_map_ext. intros r Hr. pose proof (placement_area_contains regs r Hr) as (C1 & C2 & C3 & C4).
  rewrite Forall_forall in Hp. destruct (Hp r Hr) as [P1 P2].
  rewrite Hx1, Hx2, Hy1, Hy2. unfold inter_area, mkrect, rarea, rwidth, rheight. cbn [minX maxX minY maxY].
  rewrite !ovl_inside by lia. reflexivity.
  - replace (0 + (length (limX g) - 1 - 0))%nat with (length (limX g) - 1)%nat by lia. apply last_nth_error; assumption.
  - replace (0 + (length (limY g) - 1 - 0))%nat with (length (limY g) - 1)%nat by lia. apply last_nth_error; assumption.
Qed.

(* ------------------------------------------------------------------ coarser views *)

Lemma sel_spec l idx : forall vs, sel l idx = Some vs ->
  length vs = length idx /\
  (forall k i, nth_error idx k = Some i -> exists v, nth_error l i = Some v /\ nth_error vs k = Some v) /\
  (forall k v, nth_error vs k = Some v -> exists i, nth_error idx k = Some i /\ nth_error l i = Some v).
Proof.
  induction idx as [|a idx IH]; intros vs H; simpl in H.
  - inversion H. subst. simpl. repeat split; auto; intros [|k] ? Hk; discriminate.
  - destruct (nth_error l a) as [va|] eqn:Ea; [|discriminate]. destruct (sel l idx) as [vs'|]; [|discriminate].
    inversion H. subst vs. clear H. destruct (IH vs' eq_refl) as (I1 & I2 & I3). simpl. split; [lia|]. split.
    + intros [|k] i Hk; simpl in Hk.
      * inversion Hk. subst. exists va. auto.
      * apply I2. exact Hk.
    + intros [|k] v Hk; simpl in Hk.
      * inversion Hk. subst. exists a. auto.
      * apply I3. exact Hk.
Qed.

Lemma sel_total l idx : (forall i, In i idx -> (i < length l)%nat) -> exists vs, sel l idx = Some vs.
Proof.
  induction idx as [|a idx IH]; intros H; simpl; [eauto|].
  destruct (nth_error l a) as [va|] eqn:Ea.
  - destruct IH as [vs ->]; [intros; apply H; simpl; auto|]. eauto.
  - apply nth_error_None in Ea. specialize (H a (or_introl eq_refl)). lia.
Qed.

Lemma sincr_nth_lt l : forall k a b, sincr l -> nth_error l k = Some a -> nth_error l (S k) = Some b -> (a < b)%nat.
Proof.
  induction l as [|x t IH]; intros k a b Hs Ha Hb; [destruct k; discriminate|].
  destruct t as [|y t']; [destruct k; simpl in Hb; try discriminate; destruct k; discriminate|].
  destruct Hs as [Hxy Hs]. destruct k as [|k].
  - simpl in Ha, Hb. inversion Ha; inversion Hb; subst. exact Hxy.
  - simpl in Ha. change (nth_error (x :: y :: t') (S (S k))) with (nth_error (y :: t') (S k)) in Hb. eapply IH; eauto.
Qed.

Lemma sincr_le_last l : sincr l -> forall x, In x l -> (x <= last l 0)%nat.
Proof.
  induction l as [|a t IH]; intros Hs x Hin; [destruct Hin|].
  destruct t as [|b t']; [destruct Hin as [<-|[]]; simpl; lia|].
  destruct Hs as [Hab Hs]. rewrite last_cons2. destruct Hin as [<-|Hin].
  - specialize (IH Hs b (or_introl eq_refl)). lia.
  - apply IH; auto.
Qed.

Lemma sel_chain l idx : chainZ l -> sincr idx -> forall vs, sel l idx = Some vs -> chainZ vs /\ (schainZ l -> schainZ vs).
Proof.
  intros Hc. induction idx as [|a idx IH]; intros Hs vs H; simpl in H.
  - inversion H. simpl. auto.
  - destruct (nth_error l a) as [va|] eqn:Ea; [|discriminate]. destruct (sel l idx) as [vs'|] eqn:Es; [|discriminate].
    inversion H. subst vs. clear H. destruct idx as [|b idx'].
    + simpl in Es. inversion Es. simpl. auto.
    + destruct Hs as [Hab Hs]. destruct (IH Hs vs' eq_refl) as [I1 I2].
      simpl in Es. destruct (nth_error l b) as [vb|] eqn:Eb; [|discriminate]. destruct (sel l idx') as [vs''|]; [|discriminate].
      inversion Es. subst vs'. split.
      * split; auto. apply (chain_nth_le l a b va vb); auto. lia.
      * intros Hsl. split; [|auto].
        (* strictly increasing fine limits: a < b gives va < vb *)
        clear -Hsl Hab Ea Eb. revert a b va vb Hab Ea Eb. induction l as [|x t IHl]; intros a b va vb Hab Ea Eb; [destruct a; discriminate|].
        destruct a as [|a].
        -- simpl in Ea. inversion Ea. subst x. destruct b as [|b]; [lia|]. simpl in Eb.
           destruct t as [|y t']; [destruct b; discriminate|]. destruct Hsl as [Hxy Hsl].
           assert (y <= vb); [|lia]. apply (chain_nth_le (y :: t') 0 b y vb); auto; [apply schain_chain; auto|lia].
        -- destruct b as [|b]; [lia|]. simpl in Ea, Eb. apply (IHl ltac:(destruct t; simpl in *; tauto) a b); auto. lia.
Qed.

Lemma sel_last l idx : forall vs, sel l idx = Some vs -> idx <> [] -> nth_error l (last idx 0%nat) = Some (lastZ vs).
Proof.
  induction idx as [|a idx IH]; intros vs H Hne; [congruence|]. simpl in H.
  destruct (nth_error l a) as [va|] eqn:Ea; [|discriminate]. destruct (sel l idx) as [vs'|] eqn:Es; [|discriminate].
  inversion H. subst vs. destruct idx as [|b idx'].
  - simpl in Es. inversion Es. simpl. exact Ea.
  - rewrite last_cons2. unfold lastZ. destruct vs' as [|vb vs'']; [simpl in Es; destruct (nth_error l b); [destruct (sel l idx')|]; discriminate|].
    rewrite last_cons2. change (last (vb :: vs'') 0) with (lastZ (vb :: vs'')). apply IH; auto. discriminate.
Qed.

(* every view's limits tile the placement area; they are defined (no index error) *)
Theorem level_limits_tile fine nb L P lvl : (1 <= nb)%nat -> levels_ok nb L P -> length fine = S nb -> chainZ fine ->
  (lvl < length L)%nat ->
  exists vs, level_limits fine L lvl = Some vs /\
    hdZ vs = hdZ fine /\ lastZ vs = lastZ fine /\ chainZ vs /\ (schainZ fine -> schainZ vs).
Proof.
  intros Hnb Hok Hlen Hc Hl. unfold level_limits.
  destruct (nth_error L lvl) as [idx|] eqn:Ei; [|apply nth_error_None in Ei; lia].
  pose proof (levels_ok_limits _ _ _ Hnb Hok) as Hall. rewrite Forall_forall in Hall.
  destruct (Hall idx (nth_error_In _ _ Ei)) as (Hh & Hla & Hs & Hlen2).
  destruct (sel_total fine idx) as [vs Hvs].
  { intros i Hi. pose proof (sincr_le_last idx Hs i Hi). lia. }
  exists vs. split; [exact Hvs|].
  destruct (sel_chain fine idx Hc Hs vs Hvs) as [C1 C2].
  assert (Hne : idx <> []) by (intro E; rewrite E in Hlen2; simpl in Hlen2; lia).
  pose proof (sel_last fine idx vs Hvs Hne) as HL. rewrite Hla in HL.
  assert (Hfne : fine <> []) by (intro E; rewrite E in Hlen; discriminate).
  pose proof (last_nth_error fine 0 Hfne) as HF. rewrite Hlen in HF. replace (S nb - 1)%nat with nb in HF by lia.
  repeat split; auto.
  - destruct idx as [|a idx']; [congruence|]. simpl in Hh. subst a. simpl in Hvs.
    destruct fine as [|f0 fine']; [congruence|]. simpl in Hvs. destruct (sel (f0 :: fine') idx'); [|discriminate].
    inversion Hvs. reflexivity.
  - unfold lastZ in *. congruence.
Qed.

Lemma refine_aux_keeps rest : forall i b x, In x rest -> In x (fst (refine_aux i b rest)).
Proof.
  induction rest as [|e rest IH]; intros i b x Hin; [destruct Hin|]. cbn [refine_aux].
  destruct (2 <=? e - b)%nat; cbn [fst]; destruct Hin as [<-|Hin]; simpl; auto.
Qed.

(* the limits of a view are among the limits of the next finer view *)
Theorem level_limits_nested fine nb L P lvl vc vf : (1 <= nb)%nat -> levels_ok nb L P ->
  level_limits fine L (S lvl) = Some vc -> level_limits fine L lvl = Some vf -> forall v, In v vc -> In v vf.
Proof.
  intros Hnb Hok Hc Hf v Hv. unfold level_limits in *.
  destruct (nth_error L (S lvl)) as [lc|] eqn:Elc; [|discriminate].
  destruct (levels_ok_step _ _ _ _ _ Hok Elc) as [Elf _]. rewrite Elf in Hf.
  destruct (sel_spec _ _ _ Hc) as (_ & _ & C3). destruct (sel_spec _ _ _ Hf) as (_ & F2 & _).
  apply In_nth_error in Hv. destruct Hv as [k Hk]. destruct (C3 k v Hk) as [i [Hi Hfi]].
  assert (Hin : In i (fst (refine_limits lc))).
  { apply nth_error_In in Hi. destruct lc as [|b rest]; [destruct Hi|]. unfold refine_limits. cbn [fst].
    pose proof (levels_ok_limits _ _ _ Hnb Hok) as Hall. rewrite Forall_forall in Hall.
    destruct (Hall _ (nth_error_In _ _ Elc)) as (Hh & _). simpl in Hh. subst b.
    destruct Hi as [<-|Hi]; [left; reflexivity|right; apply refine_aux_keeps; exact Hi]. }
  apply In_nth_error in Hin. destruct Hin as [k' Hk']. destruct (F2 k' i Hk') as [v' [Hv1 Hv2]].
  rewrite Hfi in Hv1. inversion Hv1. subst v'. eapply nth_error_In; eauto.
Qed.

(* capacity of a bin of any view = total area of the regions inside that bin *)
Theorem level_capacity_is_region_area bs regs h lx ly M LX LY x y px py : Forall proper regs ->
  let g := make_grid bs regs in
  make_hier g = Some h ->
  level_cap h lx ly = Some M -> level_limits (limX g) (xlim h) lx = Some LX -> level_limits (limY g) (ylim h) ly = Some LY ->
  nth_error (pairs LX) x = Some px -> nth_error (pairs LY) y = Some py ->
  nth_error2 M x y = Some (sumZ (map (fun r => inter_area r (bin_region px py)) regs)).
Proof.
  intros Hp g Hh HM HLX HLY Hx Hy.
  destruct (make_grid_lengths bs regs) as [Lx Ly]. fold g in Lx, Ly.
  destruct (make_hier_wf g Lx Ly) as (h' & Hh' & Hg & (nbX & nbY & HX & HY & OX & OY)). rewrite Hh in Hh'. inversion Hh'. subst h'. clear Hh'.
  destruct (grid_limits_tile bs regs Hp) as [(_ & _ & Cx & _) (_ & _ & Cy & _)]. fold g in Cx, Cy.
  unfold level_cap in HM. unfold level_limits in HLX, HLY.
  destruct (nth_error (xlim h) lx) as [xi|] eqn:Exi; [|discriminate]. destruct (nth_error (ylim h) ly) as [yi|] eqn:Eyi; [|discriminate].
  inversion HM. subst M. clear HM.
  destruct px as [p q], py as [p2 q2]. apply nth_error_pairs in Hx, Hy. destruct Hx as [Hx1 Hx2], Hy as [Hy1 Hy2].
  destruct (sel_spec _ _ _ HLX) as (_ & _ & SX). destruct (sel_spec _ _ _ HLY) as (_ & _ & SY).
  destruct (SX _ _ Hx1) as [a [Ha1 Ha2]]. destruct (SX _ _ Hx2) as [b [Hb1 Hb2]].
  destruct (SY _ _ Hy1) as [c [Hc1 Hc2]]. destruct (SY _ _ Hy2) as [e [He1 He2]].
  pose proof (levels_ok_limits _ _ _ HX OX) as HallX. rewrite Forall_forall in HallX.
  pose proof (levels_ok_limits _ _ _ HY OY) as HallY. rewrite Forall_forall in HallY.
  destruct (HallX xi (nth_error_In _ _ Exi)) as (_ & _ & SiX & _). destruct (HallY yi (nth_error_In _ _ Eyi)) as (_ & _ & SiY & _).
  pose proof (sincr_nth_lt xi x a b SiX Ha1 Hb1) as Hab. pose proof (sincr_nth_lt yi y c e SiY Hc1 He1) as Hce.
  unfold nth_error2. rewrite nth_error_map.
  assert (Hpx : nth_error (pairs xi) x = Some (a, b)) by (apply nth_error_pairs; auto).
  assert (Hpy : nth_error (pairs yi) y = Some (c, e)) by (apply nth_error_pairs; auto).
  rewrite Hpx. simpl. rewrite nth_error_map, Hpy. simpl. f_equal. rewrite Hg.
  unfold g at 1. rewrite grid_cap_eq. fold g.
  apply (block_capacity (limX g) (limY g) regs a b c e p q p2 q2); auto.
  - replace (a + (b - a))%nat with b by lia. exact Hb2.
  - replace (c + (e - c))%nat with e by lia. exact He2.
Qed.

(* ------------------------------------------------------------------ coarser views aggregate capacity exactly *)

Lemma firstn_add {A} k1 k2 (l : list A) : firstn (k1 + k2) l = firstn k1 l ++ firstn k2 (skipn k1 l).
Proof. revert l. induction k1 as [|k1 IH]; intros l; simpl; auto. destruct l; simpl; [now rewrite firstn_nil|]. f_equal. apply IH. Qed.
Lemma skipn_add {A} k1 k2 (l : list A) : skipn (k1 + k2) l = skipn k2 (skipn k1 l).
Proof. revert l. induction k1 as [|k1 IH]; intros l; simpl; auto. destruct l; simpl; [now rewrite skipn_nil|]. apply IH. Qed.
Lemma firstn_skipn_add {A} a m b (l : list A) : (a <= m)%nat -> (m <= b)%nat ->
  firstn (b - a) (skipn a l) = firstn (m - a) (skipn a l) ++ firstn (b - m) (skipn m l).
Proof.
  intros H1 H2. replace (b - a)%nat with ((m - a) + (b - m))%nat by lia. rewrite firstn_add. f_equal.
  rewrite <- skipn_add. replace (a + (m - a))%nat with m by lia. reflexivity.
Qed.

Lemma block_cap_add_x capm a m b c e : (a <= m)%nat -> (m <= b)%nat ->
  block_cap capm a m c e + block_cap capm m b c e = block_cap capm a b c e.
Proof. intros H1 H2. unfold block_cap. rewrite (firstn_skipn_add a m b) by auto. now rewrite map_app, sumZ_app. Qed.

Lemma block_cap_add_y capm a b c m e : (c <= m)%nat -> (m <= e)%nat ->
  block_cap capm a b c m + block_cap capm a b m e = block_cap capm a b c e.
Proof.
  intros H1 H2. unfold block_cap. rewrite <- sumZ_map_add. apply sumZ_map_ext. intros col _.
  rewrite (firstn_skipn_add c m e) by auto. now rewrite sumZ_app.
Qed.

Section Aggregate.
  Context {A : Type} (merge : A -> A -> A) (empty : A) (F : nat -> nat -> A).
  Hypothesis Hsplit : forall a m b, (a <= m)%nat -> (m <= b)%nat -> merge (F a m) (merge (F m b) empty) = F a b.
  Hypothesis Hunit : forall a b, merge (F a b) empty = F a b.

  Let Fp (ab : nat * nat) : A := F (fst ab) (snd ab).
  Let G (p : nat) (L : list (nat * A)) : A :=
    fold_right (fun qa acc => if (fst qa =? p)%nat then merge (snd qa) acc else acc) empty L.

  Lemma G_none p L : (forall qa, In qa L -> fst qa <> p) -> G p L = empty.
  Proof.
    induction L as [|qa L IH]; intros H; simpl; auto.
    destruct (Nat.eqb_spec (fst qa) p) as [E|E]; [exfalso; apply (H qa); simpl; auto|].
    apply IH. intros; apply H; simpl; auto.
  Qed.

  Lemma agg_refine_aux rest : forall i b, sincr (b :: rest) ->
    map (fun p => G p (combine (snd (refine_aux i b rest)) (map Fp (pairs (b :: fst (refine_aux i b rest))))))
        (seq i (length rest)) = map Fp (pairs (b :: rest)).
  Proof.
    induction rest as [|e rest IH]; intros i b Hs; [reflexivity|].
    destruct Hs as [Hbe Hs]. specialize (IH (S i) e Hs).
    pose proof (refine_aux_facts rest (S i) e Hs) as (_ & _ & _ & _ & F5 & _).
    assert (Hnone : G i (combine (snd (refine_aux (S i) e rest)) (map Fp (pairs (e :: fst (refine_aux (S i) e rest))))) = empty).
    { apply G_none. intros qa Hin. apply in_combine_fst in Hin. specialize (F5 _ Hin). lia. }
    cbn [refine_aux]. destruct (Nat.leb_spec 2 (e - b)) as [Hg|Hg]; cbn [fst snd].
    - pose proof (mid_bounds b e Hg) as [Hm1 Hm2].
      rewrite !pairs_cons2. cbn [map combine length seq]. f_equal.
      + unfold G at 1. cbn [fold_right fst snd]. rewrite Nat.eqb_refl. fold (G i (combine (snd (refine_aux (S i) e rest)) (map Fp (pairs (e :: fst (refine_aux (S i) e rest)))))).
        rewrite Hnone. unfold Fp. cbn [fst snd]. apply Hsplit; lia.
      + rewrite <- IH. apply map_ext_in. intros p Hp. apply in_seq in Hp.
        unfold G. cbn [fold_right fst snd]. destruct (Nat.eqb_spec i p); [lia|]. reflexivity.
    - rewrite !pairs_cons2. cbn [map combine length seq]. f_equal.
      + unfold G at 1. cbn [fold_right fst snd]. rewrite Nat.eqb_refl. fold (G i (combine (snd (refine_aux (S i) e rest)) (map Fp (pairs (e :: fst (refine_aux (S i) e rest)))))).
        rewrite Hnone. unfold Fp. cbn [fst snd]. apply Hunit.
      + rewrite <- IH. apply map_ext_in. intros p Hp. apply in_seq in Hp.
        unfold G. cbn [fold_right fst snd]. destruct (Nat.eqb_spec i p); [lia|]. reflexivity.
  Qed.

  (* gathering the fine entries by parent gives the coarse entries *)
  Lemma agg_refine_limits nb lc : limits_ok nb lc ->
    coarsen_gen merge empty (snd (refine_limits lc)) (length lc - 1) (map Fp (pairs (fst (refine_limits lc)))) = map Fp (pairs lc).
  Proof.
    intros (Hh & Hl & Hs & Hlen). destruct lc as [|b rest]; [simpl in Hlen; lia|]. simpl in Hh. subst b.
    unfold refine_limits. cbn [fst snd]. unfold coarsen_gen. simpl length. replace (S (length rest) - 1)%nat with (length rest) by lia.
    apply (agg_refine_aux rest 0 0 Hs).
  Qed.
End Aggregate.

Fixpoint zipadd (a b : list Z) : list Z :=
  match a, b with x :: a', y :: b' => (x + y) :: zipadd a' b' | _, _ => [] end.
Lemma zipadd_map {A} (f g : A -> Z) l : zipadd (map f l) (map g l) = map (fun x => f x + g x) l.
Proof. induction l; simpl; congruence. Qed.
Lemma repeat_map0 {A} (l : list A) : repeat 0 (length l) = map (fun _ => 0) l.
Proof. induction l; simpl; congruence. Qed.

(* x direction: the capacity matrix of the coarser view is the finer one gathered by parentX (entries added) *)
Theorem coarse_capacity_aggregates_x h lx ly M M' ps yi : hier_wf h ->
  level_cap h lx ly = Some M -> level_cap h (S lx) ly = Some M' ->
  nth_error (xpar h) lx = Some ps -> nth_error (ylim h) ly = Some yi ->
  coarsen_gen zipadd (repeat 0 (length yi - 1)) ps (length M') M = M'.
Proof.
  intros (nbX & nbY & HX & HY & OX & OY) HM HM' Hps Hyi. unfold level_cap in *. rewrite Hyi in HM, HM'.
  destruct (nth_error (xlim h) (S lx)) as [lc|] eqn:Elc; [|discriminate].
  destruct (levels_ok_step _ _ _ _ _ OX Elc) as [Elf Eps]. rewrite Elf in HM. rewrite Eps in Hps.
  inversion HM; inversion HM'; inversion Hps. subst. clear HM HM' Hps.
  pose proof (levels_ok_limits _ _ _ HX OX) as Hall. rewrite Forall_forall in Hall. pose proof (Hall lc (nth_error_In _ _ Elc)) as Hlim.
  rewrite map_length, pairs_length. rewrite <- (pairs_length yi).
  set (F := fun a b : nat => map (fun ce : nat * nat => block_cap (gcap (hgrid h)) a b (fst ce) (snd ce)) (pairs yi)).
  apply (agg_refine_limits zipadd (repeat 0 (length (pairs yi))) F) with (nb := nbX); auto.
  - intros a m b H1 H2. unfold F. rewrite repeat_map0, !zipadd_map. apply map_ext. intros ce.
    rewrite <- (block_cap_add_x _ a m b) by auto. lia.
  - intros a b. unfold F. rewrite repeat_map0, zipadd_map. apply map_ext. intros. lia.
Qed.

(* y direction: every row of the coarser view's matrix is the finer row gathered by parentY *)
Theorem coarse_capacity_aggregates_y h lx ly M M' ps : hier_wf h ->
  level_cap h lx ly = Some M -> level_cap h lx (S ly) = Some M' ->
  nth_error (ypar h) ly = Some ps ->
  forall np, nbins_at (ylim h) (S ly) = Some np -> map (coarsen_gen Z.add 0 ps np) M = M'.
Proof.
  intros (nbX & nbY & HX & HY & OX & OY) HM HM' Hps np Hnp. unfold level_cap in *.
  destruct (nth_error (xlim h) lx) as [xi|] eqn:Exi; [|discriminate].
  apply nbins_at_Some in Hnp. destruct Hnp as [lc [Elc ->]]. rewrite Elc in HM'.
  destruct (levels_ok_step _ _ _ _ _ OY Elc) as [Elf Eps]. rewrite Elf in HM. rewrite Eps in Hps.
  inversion HM; inversion HM'; inversion Hps. subst. clear HM HM' Hps.
  pose proof (levels_ok_limits _ _ _ HY OY) as Hall. rewrite Forall_forall in Hall. pose proof (Hall lc (nth_error_In _ _ Elc)) as Hlim.
  rewrite map_map. apply map_ext. intros ab.
  set (F := fun c e : nat => block_cap (gcap (hgrid h)) (fst ab) (snd ab) c e).
  apply (agg_refine_limits Z.add 0 F) with (nb := nbY); auto.
  - intros c m e H1 H2. unfold F. rewrite <- (block_cap_add_y _ _ _ c m e) by auto. lia.
  - intros. lia.
Qed.

(* ------------------------------------------------------------------ the bins of every view hold the whole capacity *)

Lemma pairs_sum_additive (G : nat -> nat -> Z) l :
  (forall a m b, (a <= m)%nat -> (m <= b)%nat -> G a m + G m b = G a b) -> sincr l -> l <> [] ->
  sumZ (map (fun ab => G (fst ab) (snd ab)) (pairs l)) = G (hd 0%nat l) (last l 0%nat).
Proof.
  intros Hadd. induction l as [|a t IH]; intros Hs Hne; [congruence|].
  destruct t as [|b t'].
  - simpl. pose proof (Hadd a a a ltac:(lia) ltac:(lia)). lia.
  - destruct Hs as [Hab Hs]. rewrite pairs_cons2, last_cons2. cbn [map sumZ fold_right fst snd hd].
    change (fold_right Z.add 0 (map (fun ab : nat * nat => G (fst ab) (snd ab)) (pairs (b :: t')))) with (sumZ (map (fun ab : nat * nat => G (fst ab) (snd ab)) (pairs (b :: t')))).
    rewrite IH by (auto; discriminate). cbn [hd].
    apply Hadd; [lia|]. apply (sincr_le_last (b :: t') Hs b). simpl. auto.
Qed.

Theorem level_total_capacity bs regs h lx ly M :
  let g := make_grid bs regs in
  make_hier g = Some h -> level_cap h lx ly = Some M -> sumZ (map sumZ M) = total_capacity g.
Proof.
  intros g Hh HM.
  destruct (make_grid_lengths bs regs) as [Lx Ly]. fold g in Lx, Ly.
  destruct (make_hier_wf g Lx Ly) as (h' & Hh' & Hg & (nbX & nbY & HX & HY & OX & OY)). rewrite Hh in Hh'. inversion Hh'. subst h'. clear Hh'.
  unfold level_cap in HM.
  destruct (nth_error (xlim h) lx) as [xi|] eqn:Exi; [|discriminate]. destruct (nth_error (ylim h) ly) as [yi|] eqn:Eyi; [|discriminate].
  inversion HM. subst M. clear HM. rewrite Hg.
  pose proof (levels_ok_limits _ _ _ HX OX) as HallX. rewrite Forall_forall in HallX.
  pose proof (levels_ok_limits _ _ _ HY OY) as HallY. rewrite Forall_forall in HallY.
  destruct (HallX xi (nth_error_In _ _ Exi)) as (Hx1 & Hx2 & SiX & Lx2). destruct (HallY yi (nth_error_In _ _ Eyi)) as (Hy1 & Hy2 & SiY & Ly2).
  assert (Nx : xi <> []) by (intro E; rewrite E in Lx2; simpl in Lx2; lia).
  assert (Ny : yi <> []) by (intro E; rewrite E in Ly2; simpl in Ly2; lia).
  rewrite map_map.
  rewrite (sumZ_map_ext _ (fun ab : nat * nat => block_cap (gcap g) (fst ab) (snd ab) 0 nbY)).
  2:{ intros ab _.
      rewrite (pairs_sum_additive (fun c e => block_cap (gcap g) (fst ab) (snd ab) c e) yi); auto.
      - destruct yi as [|y0 yi']; [congruence|]. simpl in Hy1. subst y0. cbn [hd]. rewrite Hy2. reflexivity.
      - intros. apply block_cap_add_y; auto. }
  rewrite (pairs_sum_additive (fun a b => block_cap (gcap g) a b 0 nbY) xi); auto.
  2:{ intros. apply block_cap_add_x; auto. }
  destruct xi as [|x0 xi']; [congruence|]. simpl in Hx1. subst x0. cbn [hd]. rewrite Hx2.
  (* nbX, nbY are the numbers of fine bins *)
  assert (EX : nbX = (length (limX g) - 1)%nat).
  { destruct (levels_ok_top _ _ _ OX) as [T _]. unfold make_hier in Hh.
    destruct (setup_hierarchy_ok (length (limX g) - 1)) as (XL & XP & EX & OX'); [lia|]. rewrite EX in Hh.
    destruct (setup_hierarchy (length (limY g) - 1)) as [[YL YP]|]; [|discriminate]. inversion Hh. subst h. simpl in *.
    destruct (levels_ok_top _ _ _ OX') as [T' _]. rewrite T in T'. inversion T'. reflexivity. }
  assert (EY : nbY = (length (limY g) - 1)%nat).
  { destruct (levels_ok_top _ _ _ OY) as [T _]. unfold make_hier in Hh.
    destruct (setup_hierarchy (length (limX g) - 1)) as [[XL XP]|]; [|discriminate].
    destruct (setup_hierarchy_ok (length (limY g) - 1)) as (YL & YP & EY & OY'); [lia|]. rewrite EY in Hh.
    inversion Hh. subst h. simpl in *.
    destruct (levels_ok_top _ _ _ OY') as [T' _]. rewrite T in T'. inversion T'. reflexivity. }
  rewrite EX, EY. unfold total_capacity. pose proof (grid_cap_eq bs regs) as GE. fold g in GE. rewrite GE.
  rewrite bin_capacity_spec. symmetry. apply total_capacity_capF.
Qed.

(* ------------------------------------------------------------------ findBinByX / findBinByY *)

Definition brackets (lims : list Z) (coord : Z) (mn mx : nat) : Prop :=
  (mn = 0%nat \/ exists v, nth_error lims mn = Some v /\ v <= coord) /\
  (mx = (length lims - 1)%nat \/ exists v, nth_error lims mx = Some v /\ coord < v).

Lemma find_bin_loop_spec lims coord : forall fuel mn mx,
  (mn < mx)%nat -> (mx <= length lims - 1)%nat -> (mx - mn <= fuel)%nat -> brackets lims coord mn mx ->
  exists r, find_bin_loop fuel lims coord mn mx = Some r /\ (r < length lims - 1)%nat /\ brackets lims coord r (S r).
Proof.
  induction fuel as [|f IH]; intros mn mx H1 H2 H3 HB.
  - lia.
  - cbn [find_bin_loop]. destruct (Nat.ltb_spec (mn + 1) mx) as [Hlt|Hge].
    + pose proof (mid_bounds mn mx ltac:(lia)) as [M1 M2].
      destruct (nth_error lims ((mx + mn) / 2)) as [v|] eqn:Ev; [|apply nth_error_None in Ev; lia].
      destruct (Z.ltb_spec coord v).
      * apply IH; try lia. destruct HB as [B1 B2]. split; auto. right. eauto.
      * apply IH; try lia. destruct HB as [B1 B2]. split; auto. right. eauto.
    + exists mn. split; [reflexivity|]. split; [lia|]. replace (S mn) with mx by lia. exact HB.
Qed.

(* the two assertions at the end of findBinByX/Y hold, the search terminates within its fuel and never
   indexes outside the limits *)
Theorem find_bin_spec lims coord : (2 <= length lims)%nat ->
  exists r, find_bin lims coord = Some r /\ (r < length lims - 1)%nat /\ brackets lims coord r (S r).
Proof.
  intros H. unfold find_bin. apply find_bin_loop_spec; try lia. unfold brackets. auto.
Qed.

(* for sorted limits: a coordinate inside the area is in the bin that is returned *)
Corollary find_bin_inside lims coord r lo hi : chainZ lims -> (2 <= length lims)%nat -> find_bin lims coord = Some r ->
  hdZ lims <= coord < lastZ lims -> nth_error lims r = Some lo -> nth_error lims (S r) = Some hi -> lo <= coord < hi.
Proof.
  intros Hc Hl Hf [Hlo Hhi] Er Es. destruct (find_bin_spec lims coord Hl) as (r' & Hr' & Hlt & [B1 B2]).
  rewrite Hf in Hr'. inversion Hr'. subst r'. split.
  - destruct B1 as [->|(v & Hv & Hle)]; [|congruence].
    destruct lims; [simpl in Hl; lia|]. simpl in Er. inversion Er. subst. exact Hlo.
  - destruct B2 as [E|(v & Hv & Hlt2)]; [|congruence].
    assert (Hne : lims <> []) by (intro E2; rewrite E2 in Hl; simpl in Hl; lia).
    pose proof (last_nth_error lims 0 Hne) as HL. rewrite <- E in HL. rewrite Es in HL. inversion HL. unfold lastZ in Hhi. lia.
Qed.

(* ------------------------------------------------------------------ findConstrainedSplitPos stays within the cell list *)

Lemma split_left_spec dem c1 c2 : forall fuel pos d1 d2, (pos <= length dem)%nat -> (pos < fuel)%nat ->
  exists p d1' d2', split_left fuel dem pos d1 d2 c1 c2 = Some (p, d1', d2') /\ (p <= pos)%nat.
Proof.
  induction fuel as [|f IH]; intros pos d1 d2 H1 H2; [lia|]. cbn [split_left].
  destruct ((0 <? pos)%nat && (0 <? d1 - c1) && (0 <? c2)) eqn:G; [|eauto 6].
  rewrite !andb_true_iff in G. destruct G as [[G1 _] _]. apply Nat.ltb_lt in G1.
  destruct (nth_error dem (pos - 1)) as [dm|] eqn:E; [|apply nth_error_None in E; lia].
  destruct ((0 <? c1) && (d1 - c1 <? d2 - c2 + dm)); [eauto 6|].
  destruct (IH (pos - 1)%nat (d1 - dm) (d2 + dm)) as (p & a & b & Hp & Hle); try lia. exists p, a, b. split; auto. lia.
Qed.

Lemma split_right_spec dem c1 c2 : forall fuel pos d1 d2, (pos <= length dem)%nat -> (length dem - pos < fuel)%nat ->
  exists p, split_right fuel dem pos d1 d2 c1 c2 = Some p /\ (p <= length dem)%nat.
Proof.
  induction fuel as [|f IH]; intros pos d1 d2 H1 H2; [lia|]. cbn [split_right].
  destruct ((pos <? length dem)%nat && (0 <? d2 - c2) && (0 <? c1)) eqn:G; [|eauto].
  rewrite !andb_true_iff in G. destruct G as [[G1 _] _]. apply Nat.ltb_lt in G1.
  destruct (nth_error dem pos) as [dm|] eqn:E; [|apply nth_error_None in E; lia].
  destruct ((0 <? c2) && (d2 - c2 <? d1 - c1 + dm)); [eauto|].
  apply IH; lia.
Qed.

Theorem find_constrained_split_range dem target c1 c2 : (target <= length dem)%nat ->
  exists k, find_constrained_split dem target c1 c2 = Some k /\ (k <= length dem)%nat.
Proof.
  intros H. unfold find_constrained_split.
  destruct (split_left_spec dem c1 c2 (S (length dem)) target (sumZ (firstn target dem)) (sumZ (skipn target dem))) as (p & a & b & Hp & Hle); try lia.
  rewrite Hp. apply split_right_spec; lia.
Qed.

(* ------------------------------------------------------------------ spreadCells (exact arithmetic) *)
From Coq Require Import QArith Lqa.
Local Open Scope Q_scope.

Lemma sumQ_nonneg l : (forall x, In x l -> 0 <= x) -> 0 <= sumQ l.
Proof.
  induction l as [|a l IH]; intros H; simpl; [lra|].
  assert (0 <= a) by (apply H; simpl; auto). assert (0 <= sumQ l) by (apply IH; intros; apply H; simpl; auto). lra.
Qed.

Lemma spread_loop_inside order : forall inv dem mn mx,
  0 < inv -> 0 <= dem -> (forall p, In p order -> 0 <= snd p) -> dem + sumQ (map snd order) * inv <= 1 -> mn < mx ->
  forall c x, In (c, x) (spread_loop order inv dem mn mx) -> mn < x /\ x < mx.
Proof.
  induction order as [|[c0 cur] rest IH]; intros inv dem mn mx Hinv Hdem Hpos Hsum Hlt c x Hin; [destruct Hin|].
  assert (Hcur : 0 <= cur) by (apply (Hpos (c0, cur)); simpl; auto).
  assert (Hrest : 0 <= sumQ (map snd rest)).
  { apply sumQ_nonneg. intros y Hy. apply in_map_iff in Hy. destruct Hy as [p [<- Hp]]. apply Hpos. simpl. auto. }
  simpl in Hsum. cbn [spread_loop] in Hin.
  destruct (Qle_bool cur 0) eqn:E.
  - apply (IH inv dem mn mx Hinv Hdem) with (c := c); auto.
    + intros p Hp. apply Hpos. simpl. auto.
    + nra.
  - assert (Hc : 0 < cur). { destruct (Qlt_le_dec 0 cur); auto. apply Qle_bool_iff in q. congruence. }
    destruct Hin as [Heq|Hin].
    + inversion Heq. subst. clear Heq.
      set (d1 := dem + (1 # 2) * cur * inv).
      assert (0 < d1) by (unfold d1; nra). assert (d1 < 1) by (unfold d1; nra).
      split; nra.
    + apply (IH inv (dem + (1 # 2) * cur * inv + (1 # 2) * cur * inv) mn mx Hinv) with (c := c); auto.
      * nra.
      * intros p Hp. apply Hpos. simpl. auto.
      * nra.
Qed.

(* every coordinate handed out by spreadCells lies strictly inside the bin interval *)
Theorem spread_inside order mn mx c x :
  (forall p, In p order -> 0 <= snd p) -> 0 < sumQ (map snd order) -> mn < mx ->
  In (c, x) (spread_cells order mn mx) -> mn < x /\ x < mx.
Proof.
  intros Hpos Htot Hlt Hin. unfold spread_cells in Hin.
  apply (spread_loop_inside order (/ sumQ (map snd order)) 0 mn mx) with (c := c); auto.
  - apply Qinv_lt_0_compat. exact Htot.
  - lra.
  - rewrite Qmult_inv_r by lra. lra.
Qed.

(* cells of positive demand all receive a coordinate, the others none *)
Lemma spread_loop_keys order : forall inv dem mn mx,
  map fst (spread_loop order inv dem mn mx) = map fst (filter (fun p => negb (Qle_bool (snd p) 0)) order).
Proof.
  induction order as [|[c0 cur] rest IH]; intros; [reflexivity|]. cbn [spread_loop filter snd].
  destruct (Qle_bool cur 0); simpl; [apply IH|f_equal; apply IH].
Qed.

(* ------------------------------------------------------------------ statements as used in Properties_C16.v *)
Local Open Scope Z_scope.

Theorem subdivisions_tile mn mx n : mn <= mx -> 1 <= n ->
  length (subdivisions mn mx n) = S (Z.to_nat n) /\ hdZ (subdivisions mn mx n) = mn /\ lastZ (subdivisions mn mx n) = mx /\
  chainZ (subdivisions mn mx n) /\ (n <= mx - mn -> schainZ (subdivisions mn mx n)).
Proof.
  intros H1 H2. split; [apply subdiv_length|]. split; [apply subdiv_hd|]. split; [apply subdiv_lastZ; auto|].
  split; [apply subdiv_chain; auto|]. intros. apply subdiv_schain; auto.
Qed.

Theorem grid_hierarchy_exists bs regs :
  exists h, make_hier (make_grid bs regs) = Some h /\ hgrid h = make_grid bs regs /\ hier_wf h.
Proof. destruct (make_grid_lengths bs regs). apply make_hier_wf; auto. Qed.

Theorem hierarchy_levels nb L P : (1 <= nb)%nat -> levels_ok nb L P ->
  Forall (limits_ok nb) L /\ length L = length P /\
  nth_error L (length L - 1) = Some [0%nat; nb] /\ nth_error P (length P - 1) = Some [0%nat] /\
  (forall l lc, nth_error L (S l) = Some lc ->
     nth_error L l = Some (fst (refine_limits lc)) /\ nth_error P l = Some (snd (refine_limits lc))) /\
  (forall l lc, nth_error L (S l) = Some lc -> exists lf ps, nth_error L l = Some lf /\ nth_error P l = Some ps /\
     length ps = (length lf - 1)%nat /\ runs 0 (length lc - 1) ps /\ (forall q, In q ps -> (q < length lc - 1)%nat)).
Proof.
  intros Hnb Hok. split; [eapply levels_ok_limits; eauto|]. destruct (levels_ok_length _ _ _ Hok) as [E _].
  destruct (levels_ok_top _ _ _ Hok) as [T1 T2].
  split; [exact E|]. split; [exact T1|]. split; [exact T2|]. split.
  - intros l lc H. eapply levels_ok_step; eauto.
  - intros l lc H. eapply level_pair; eauto.
Qed.

Theorem partition_invariant_grid bs regs d ops h s' :
  make_hier (make_grid bs regs) = Some h ->
  run_ops h (length d) (init_state h d) ops = Some s' -> inv h d s' /\ partition_okb h d s' = true.
Proof.
  intros Hh Hr. destruct (grid_hierarchy_exists bs regs) as (h' & E & _ & Hwf). rewrite Hh in E. inversion E. subst h'.
  assert (I : inv h d s') by (eapply partition_invariant; eauto). split; auto. apply partition_okb_correct. exact I.
Qed.

(* any two states of the same view that satisfy the invariant are one Redistribute (over all bins) apart:
   this is why the post-state of improve() only has to pass the partition checker *)
Lemma nth_error_ext {A} (l l' : list A) : (forall k, nth_error l k = nth_error l' k) -> l = l'.
Proof.
  revert l'. induction l as [|a l IH]; intros [|b l'] H; auto.
  - specialize (H 0%nat). discriminate.
  - specialize (H 0%nat). discriminate.
  - pose proof (H 0%nat) as H0. simpl in H0. inversion H0. f_equal. apply IH. intros k. exact (H (S k)).
Qed.

Theorem inv_determines_maps h d s s' : inv h d s -> inv h d s' -> bcells s = bcells s' -> cbx s = cbx s' /\ cby s = cby s'.
Proof.
  intros I I' E.
  assert (forall c, nth_error (cbx s) c = nth_error (cbx s') c /\ nth_error (cby s) c = nth_error (cby s') c).
  { intros c. destruct (Nat.lt_ge_cases c (length d)) as [Hc|Hc].
    - destruct (in_dec Nat.eq_dec c (allcells (bcells s))) as [Hin|Hnin].
      + rewrite <- cell_bins_keys in Hin. apply in_map_iff in Hin. destruct Hin as [[c' [i j]] [Hf Hin]]. simpl in Hf. subst c'.
        apply cell_bins_In in Hin. destruct Hin as [l [Hl Hcl]].
        destruct (inv_in _ _ _ I i j l c Hl Hcl) as [A1 A2]. rewrite E in Hl.
        destruct (inv_in _ _ _ I' i j l c Hl Hcl) as [B1 B2]. split; congruence.
      + destruct (inv_out _ _ _ I c Hc Hnin) as [A1 A2]. rewrite E in Hnin.
        destruct (inv_out _ _ _ I' c Hc Hnin) as [B1 B2]. split; congruence.
    - pose proof (inv_lenx _ _ _ I). pose proof (inv_leny _ _ _ I). pose proof (inv_lenx _ _ _ I'). pose proof (inv_leny _ _ _ I').
      split; transitivity (@None Z); try (apply nth_error_None; lia); symmetry; apply nth_error_None; lia. }
  split; apply nth_error_ext; intros k; apply H.
Qed.

(* ------------------------------------------------------------------ capacity = number of free unit sites *)

From Coq Require Import ZifyBool.
(* the unit square [x,x+1) x [y,y+1) lies in r *)
Definition inr (r : rect) (x y : Z) : bool := (minX r <=? x) && (x <? maxX r) && (minY r <=? y) && (y <? maxY r).
Definition covered (regs : list rect) (x y : Z) : bool := existsb (fun r => inr r x y) regs.
Definition zrange (a b : Z) : list Z := map (fun i => a + Z.of_nat i) (seq 0 (Z.to_nat (b - a))).
(* number of unit squares of b that satisfy f *)
Definition count_sites (f : Z -> Z -> bool) (b : rect) : Z :=
  sumZ (map (fun x => sumZ (map (fun y => if f x y then 1 else 0) (zrange (minY b) (maxY b)))) (zrange (minX b) (maxX b))).
Fixpoint disjoint_regions (regs : list rect) : Prop :=
  match regs with
  | [] => True
  | r :: rs => (forall r' x y, In r' rs -> inr r x y = true -> inr r' x y = true -> False) /\ disjoint_regions rs
  end.

Lemma count_1d_seq a b p n : a <= b ->
  sumZ (map (fun i => if (a <=? p + Z.of_nat i) && (p + Z.of_nat i <? b) then 1 else 0) (seq 0 n))
  = Z.max 0 (Z.min b (p + Z.of_nat n) - Z.max a p).
Proof.
  intros Hab. induction n as [|n IH].
  - simpl. lia.
  - rewrite seq_S, map_app, sumZ_app, IH. simpl sumZ.
    destruct (Z.leb_spec a (p + Z.of_nat n)); destruct (Z.ltb_spec (p + Z.of_nat n) b); simpl; lia.
Qed.

Lemma count_1d a b p q : a <= b ->
  sumZ (map (fun x => if (a <=? x) && (x <? b) then 1 else 0) (zrange p q)) = ovl a b p q.
Proof.
  intros Hab. unfold zrange, ovl. rewrite map_map. rewrite count_1d_seq by exact Hab.
  destruct (Z.le_gt_cases p q).
  - rewrite Z2Nat.id by lia. replace (p + (q - p)) with q by lia. reflexivity.
  - replace (Z.to_nat (q - p)) with 0%nat by lia. simpl. lia.
Qed.

Lemma count_sites_rect r b : proper r -> count_sites (inr r) b = inter_area r b.
Proof.
  intros [Hx Hy]. unfold count_sites, inter_area.
  rewrite <- (count_1d (minX r) (maxX r) (minX b) (maxX b) Hx), <- (count_1d (minY r) (maxY r) (minY b) (maxY b) Hy).
  rewrite <- sumZ_prod. apply sumZ_map_ext. intros x _. apply sumZ_map_ext. intros y _.
  unfold inr. destruct (minX r <=? x); destruct (x <? maxX r); destruct (minY r <=? y); destruct (y <? maxY r); reflexivity.
Qed.

Lemma count_sites_add (f g h : Z -> Z -> bool) b : (forall x y, (if h x y then 1 else 0) = (if f x y then 1 else 0) + (if g x y then 1 else 0)) ->
  count_sites h b = count_sites f b + count_sites g b.
Proof.
  intros H. unfold count_sites. rewrite <- sumZ_map_add. apply sumZ_map_ext. intros x _.
  rewrite <- sumZ_map_add. apply sumZ_map_ext. intros y _. apply H.
Qed.

(* for pairwise disjoint regions the accumulated intersection areas count every free unit site of the
   bin exactly once *)
Theorem region_area_counts_sites regs b : Forall proper regs -> disjoint_regions regs ->
  sumZ (map (fun r => inter_area r b) regs) = count_sites (covered regs) b.
Proof.
  induction regs as [|r rs IH]; intros Hp Hd.
  - simpl. unfold count_sites. symmetry.
    rewrite (sumZ_map_ext _ (fun _ => 0)); [apply sumZ_map_const0|]. intros x _. apply sumZ_map_const0.
  - inversion Hp as [|? ? Pr Prs]; subst. destruct Hd as [Hd1 Hd2]. simpl map. simpl sumZ.
    rewrite IH by auto. rewrite <- (count_sites_rect r b Pr). symmetry. apply count_sites_add.
    intros x y. unfold covered. simpl existsb. destruct (inr r x y) eqn:E1; simpl.
    + destruct (existsb (fun r0 => inr r0 x y) rs) eqn:E2; [|reflexivity].
      apply existsb_exists in E2. destruct E2 as [r' [Hin Hr']]. exfalso. eapply Hd1; eauto.
    + destruct (existsb (fun r0 => inr r0 x y) rs); reflexivity.
Qed.

Theorem bin_capacity_counts_free_sites bs regs i j px py : Forall proper regs -> disjoint_regions regs ->
  let g := make_grid bs regs in
  nth_error (pairs (limX g)) i = Some px -> nth_error (pairs (limY g)) j = Some py ->
  nth_error2 (gcap g) i j = Some (count_sites (covered regs) (bin_region px py)).
Proof.
  intros Hp Hd g Hx Hy. rewrite <- region_area_counts_sites by auto. apply bin_capacity_is_region_area; auto.
Qed.

(* the side margin: a site is in a clipped region iff it is in a row segment wider than two margins, at
   least `margin` away from both of its ends *)
Theorem clip_rows_sites margin rows x y :
  covered (clip_rows margin rows) x y = true <->
  exists r, In r rows /\ 2 * margin < rwidth r /\ minX r + margin <= x < maxX r - margin /\ minY r <= y < maxY r.
Proof.
  unfold covered, clip_rows. rewrite existsb_exists. split.
  - intros [c [Hc Hin]]. apply in_flat_map in Hc. destruct Hc as [r [Hr Hc]].
    destruct (Z.leb_spec (rwidth r) (2 * margin)); [destruct Hc|]. destruct Hc as [<-|[]].
    exists r. unfold inr in Hin. simpl in Hin. rewrite !andb_true_iff in Hin. split; [exact Hr|]. lia.
  - intros [r [Hr [Hw [Hx Hy]]]]. eexists. split.
    + apply in_flat_map. exists r. split; [exact Hr|]. destruct (Z.leb_spec (rwidth r) (2 * margin)); [lia|]. left. reflexivity.
    + unfold inr. simpl. rewrite !andb_true_iff. lia.
Qed.

Lemma clip_rows_proper margin rows : 0 <= margin -> Forall proper rows -> Forall proper (clip_rows margin rows).
Proof.
  intros Hm Hp. apply Forall_forall. intros c Hc. unfold clip_rows in Hc. apply in_flat_map in Hc. destruct Hc as [r [Hr Hc]].
  destruct (Z.leb_spec (rwidth r) (2 * margin)); [destruct Hc|]. destruct Hc as [<-|[]].
  rewrite Forall_forall in Hp. destruct (Hp r Hr). unfold proper, rwidth in *. simpl. lia.
Qed.

Lemma clip_rows_cons margin r rs :
  clip_rows margin (r :: rs) =
  (if rwidth r <=? 2 * margin then []
   else [{| minX := minX r + margin; maxX := maxX r - margin; minY := minY r; maxY := maxY r |}]) ++ clip_rows margin rs.
Proof. reflexivity. Qed.

Lemma clip_rows_disjoint margin rows : 0 <= margin -> disjoint_regions rows -> disjoint_regions (clip_rows margin rows).
Proof.
  intros Hm. induction rows as [|r rs IH]; intros Hd; [exact I|]. destruct Hd as [Hd1 Hd2].
  rewrite clip_rows_cons. destruct (Z.leb_spec (rwidth r) (2 * margin)); [apply IH; auto|].
  cbn [app]. split; [|apply IH; auto].
  intros c x y Hc H1 H2. unfold clip_rows in Hc. apply in_flat_map in Hc. destruct Hc as [r' [Hr' Hc]].
  destruct (Z.leb_spec (rwidth r') (2 * margin)); [destruct Hc|]. destruct Hc as [<-|[]].
  apply (Hd1 r' x y Hr'); unfold inr in *; cbn [minX maxX minY maxY] in *; rewrite !andb_true_iff in *; lia.
Qed.

(* ------------------------------------------------------------------ the regions of a circuit: free row segments (C15) *)
Require Import CV.FreeSpaceProofs.

Lemma disjoint_app l1 l2 : disjoint_regions l1 -> disjoint_regions l2 ->
  (forall r1 r2 x y, In r1 l1 -> In r2 l2 -> inr r1 x y = true -> inr r2 x y = true -> False) ->
  disjoint_regions (l1 ++ l2).
Proof.
  induction l1 as [|r l1 IH]; intros H1 H2 Hx; [exact H2|]. destruct H1 as [H1a H1b]. cbn [app disjoint_regions]. split.
  - intros r' x y Hin Hr Hr'. apply in_app_or in Hin. destruct Hin as [Hin|Hin].
    + eapply H1a; eauto.
    + eapply (Hx r r'); simpl; eauto.
  - apply IH; auto. intros r1 r2 x y I1 I2. apply Hx; simpl; auto.
Qed.

Lemma chain_segments_disjoint y0 y1 l : forall lo hi, chain lo hi l ->
  disjoint_regions (map (fun i : iv => {| minX := fst i; maxX := snd i; minY := y0; maxY := y1 |}) l).
Proof.
  induction l as [|[a b] r IH]; intros lo hi Hc; [exact I|]. destruct Hc as (H1 & H2 & H3 & H4).
  cbn [map disjoint_regions]. split; [|eapply IH; eauto].
  intros r' x y Hin Hr Hr'. apply in_map_iff in Hin. destruct Hin as [[c d] [<- Hin]].
  destruct (chain_In _ _ _ _ _ H4 Hin) as (G1 & G2 & G3).
  unfold inr in *. cbn [minX maxX minY maxY fst snd] in *. rewrite !andb_true_iff in *. lia.
Qed.

Lemma freespace_rows_nondegenerate r obs s : In s (freespace_rows r obs) -> minY (rr r) < maxY (rr r).
Proof.
  unfold freespace_rows, freespace_iv. destruct ((minX (rr r) <? maxX (rr r)) && (minY (rr r) <? maxY (rr r))) eqn:E.
  - intros _. apply andb_true_iff in E. lia.
  - intros [].
Qed.

Theorem free_rows_disjoint rows obs : disjoint_regions (map rr rows) ->
  disjoint_regions (map rr (flat_map (fun r => freespace_rows r obs) rows)) /\
  Forall proper (map rr (flat_map (fun r => freespace_rows r obs) rows)).
Proof.
  induction rows as [|r rs IH]; intros Hd; [split; [exact I|constructor]|]. destruct Hd as [Hd1 Hd2].
  destruct (IH Hd2) as [I1 I2]. cbn [flat_map]. rewrite map_app. split.
  - apply disjoint_app; auto.
    + unfold freespace_rows. rewrite map_map. cbn [rr]. eapply chain_segments_disjoint. apply freespace_chain.
    + intros r1 r2 x y H1 H2 Hr1 Hr2. apply in_map_iff in H1, H2. destruct H1 as [s1 [<- H1]]. destruct H2 as [s2 [<- H2]].
      apply in_flat_map in H2. destruct H2 as [r' [Hr' H2]].
      pose proof (freespace_rows_shape _ _ _ H1) as (A1 & A2 & _ & A4 & A5 & A6).
      pose proof (freespace_rows_shape _ _ _ H2) as (B1 & B2 & _ & B4 & B5 & B6).
      apply (Hd1 (rr r') x y); [apply in_map; exact Hr'| |]; unfold inr in *; rewrite !andb_true_iff in *; lia.
  - apply Forall_app. split; auto. apply Forall_forall. intros c Hc. apply in_map_iff in Hc. destruct Hc as [s [<- Hs]].
    pose proof (freespace_rows_shape _ _ _ Hs) as (A1 & A2 & _ & A4 & A5 & A6).
    pose proof (freespace_rows_nondegenerate _ _ _ Hs). unfold proper. lia.
Qed.

(* ------------------------------------------------------------------ the two cases of fromIspdCircuit (repair of finding F28) *)

Lemma grid_of_circuit_nonempty bs margin rows cells :
  clip_rows margin (map rr (compute_rows_circuit rows [] cells)) <> [] ->
  grid_of_circuit bs margin rows cells = make_grid bs (clip_rows margin (map rr (compute_rows_circuit rows [] cells))).
Proof.
  intros Hne. unfold grid_of_circuit. cbv zeta.
  destruct (clip_rows margin (map rr (compute_rows_circuit rows [] cells))) eqn:E; [congruence|].
  unfold grid_of_rows. rewrite E. reflexivity.
Qed.

Lemma grid_of_circuit_empty bs margin rows cells :
  clip_rows margin (map rr (compute_rows_circuit rows [] cells)) = [] ->
  grid_of_circuit bs margin rows cells = make_grid_area bs (placement_area (map rr rows)).
Proof. intros E. unfold grid_of_circuit. cbv zeta. rewrite E. reflexivity. Qed.

(* the grid over a rectangle with all capacities reset: the limits of make_grid bs [a], capacity 0 in every bin *)
Lemma make_grid_area_limits bs a :
  limX (make_grid_area bs a) = limX (make_grid bs [a]) /\ limY (make_grid_area bs a) = limY (make_grid bs [a]).
Proof. split; reflexivity. Qed.

Lemma make_grid_area_cap bs a i j px py :
  nth_error (pairs (limX (make_grid_area bs a))) i = Some px -> nth_error (pairs (limY (make_grid_area bs a))) j = Some py ->
  nth_error2 (gcap (make_grid_area bs a)) i j = Some 0.
Proof.
  intros Hx Hy. unfold make_grid_area, with_capacity in *. cbn [limX limY gcap] in *.
  rewrite bin_capacity_spec. rewrite (nth_error2_capF _ _ _ i j px py Hx Hy). reflexivity.
Qed.

Lemma make_grid_area_total bs a : total_capacity (make_grid_area bs a) = 0.
Proof.
  unfold total_capacity, make_grid_area, with_capacity. cbn [gcap]. rewrite bin_capacity_spec. unfold capF.
  rewrite map_map. cbn [map sumZ]. rewrite (sumZ_map_ext _ (fun _ => 0)); [apply sumZ_map_const0|].
  intros x _. cbv beta. apply sumZ_map_const0.
Qed.

Lemma count_sites_nil b : count_sites (covered []) b = 0.
Proof. rewrite <- (region_area_counts_sites [] b); [reflexivity|constructor|exact I]. Qed.

(* C16's first clause for a circuit: the capacity of a bin is the number of unit sites of the bin that lie
   in a free row segment (rows minus fixed obstructions, C15) at least `margin` away from its two ends *)
Theorem circuit_bin_capacity_counts_free_sites bs margin rows cells i j px py :
  0 <= margin -> disjoint_regions (map rr rows) ->
  let segs := map rr (compute_rows_circuit rows [] cells) in
  let g := grid_of_circuit bs margin rows cells in
  nth_error (pairs (limX g)) i = Some px -> nth_error (pairs (limY g)) j = Some py ->
  nth_error2 (gcap g) i j = Some (count_sites (covered (clip_rows margin segs)) (bin_region px py)).
Proof.
  intros Hm Hd segs g Hx Hy.
  destruct (clip_rows margin segs) as [|c0 t] eqn:E.
  - (* no free row segment survives the clipping (finding F28): every bin has capacity 0 = no free site *)
    unfold g in *. rewrite (grid_of_circuit_empty bs margin rows cells E) in *.
    rewrite (make_grid_area_cap bs _ i j px py Hx Hy). f_equal. symmetry. apply count_sites_nil.
  - assert (Hne : clip_rows margin segs <> []) by (rewrite E; discriminate).
    unfold g in *. rewrite (grid_of_circuit_nonempty bs margin rows cells Hne) in *. fold segs in Hx, Hy |- *.
    rewrite <- E.
    destruct (free_rows_disjoint rows (obstacles_of [] (map (fun c : Z * Z * Z * Z * Orient.orient * bool * bool =>
        match c with (x, y, w, h, o, fx, ob) => (cell_placement x y w h o, fx, ob) end) cells)) Hd) as [D P].
    apply bin_capacity_counts_free_sites; auto.
    + apply clip_rows_proper; auto.
    + apply clip_rows_disjoint; auto.
Qed.

(* ------------------------------------------------------------------ a circuit without free space (finding F28) *)

(* [F] repaired fromIspdCircuit: when no free row segment survives the clipping the grid has the limits of the grid over
   the bounding box R of the circuit's rows, and every bin has capacity 0 *)
Theorem circuit_grid_without_free_space bs margin rows cells :
  clip_rows margin (map rr (compute_rows_circuit rows [] cells)) = [] ->
  let g := grid_of_circuit bs margin rows cells in
  let R := placement_area (map rr rows) in
  limX g = limX (make_grid bs [R]) /\ limY g = limY (make_grid bs [R]) /\
  total_capacity g = 0 /\
  (forall i j px py, nth_error (pairs (limX g)) i = Some px -> nth_error (pairs (limY g)) j = Some py ->
     nth_error2 (gcap g) i j = Some 0).
Proof.
  intros E g R. unfold g. rewrite (grid_of_circuit_empty bs margin rows cells E). fold R.
  split; [reflexivity|]. split; [reflexivity|]. split; [apply make_grid_area_total|].
  intros i j px py Hx Hy. eapply make_grid_area_cap; eauto.
Qed.

(* [F] ... and these limits tile R: from min to max, sorted, strictly when the bin size is >= 1 and R has extent *)
Theorem circuit_grid_without_free_space_tile bs margin rows cells : Forall proper (map rr rows) ->
  clip_rows margin (map rr (compute_rows_circuit rows [] cells)) = [] ->
  let g := grid_of_circuit bs margin rows cells in
  let R := placement_area (map rr rows) in
  (hdZ (limX g) = minX R /\ lastZ (limX g) = maxX R /\ chainZ (limX g) /\ (1 <= bs -> 1 <= rwidth R -> schainZ (limX g))) /\
  (hdZ (limY g) = minY R /\ lastZ (limY g) = maxY R /\ chainZ (limY g) /\ (1 <= bs -> 1 <= rheight R -> schainZ (limY g))).
Proof.
  intros Hp E g R. destruct (circuit_grid_without_free_space bs margin rows cells E) as (Lx & Ly & _).
  fold g R in Lx, Ly. rewrite Lx, Ly.
  assert (PR : Forall proper [R]).
  { constructor; [|constructor]. destruct (placement_area_proper (map rr rows) Hp). split; assumption. }
  exact (grid_limits_tile bs [R] PR).
Qed.

(* [F] the hierarchy of views exists and is well formed for the grid of EVERY circuit (with or without free space),
   so that partition_invariant applies to it *)
Theorem circuit_grid_hierarchy_exists bs margin rows cells :
  exists h, make_hier (grid_of_circuit bs margin rows cells) = Some h /\
            hgrid h = grid_of_circuit bs margin rows cells /\ hier_wf h.
Proof.
  destruct (clip_rows margin (map rr (compute_rows_circuit rows [] cells))) as [|c0 t] eqn:E.
  - rewrite (grid_of_circuit_empty bs margin rows cells E).
    destruct (make_grid_lengths bs [placement_area (map rr rows)]) as [Lx Ly].
    apply make_hier_wf; assumption.
  - assert (Hne : clip_rows margin (map rr (compute_rows_circuit rows [] cells)) <> []) by (rewrite E; discriminate).
    rewrite (grid_of_circuit_nonempty bs margin rows cells Hne). apply grid_hierarchy_exists.
Qed.

(* [F] every history on the grid of every circuit (with or without free space) keeps the partition invariant *)
Theorem circuit_partition_invariant bs margin rows cells d ops h s' :
  make_hier (grid_of_circuit bs margin rows cells) = Some h ->
  run_ops h (length d) (init_state h d) ops = Some s' -> inv h d s' /\ partition_okb h d s' = true.
Proof.
  intros Hh Hr. destruct (circuit_grid_hierarchy_exists bs margin rows cells) as (h' & E & _ & Hwf).
  rewrite Hh in E. inversion E. subst h'.
  assert (I : inv h d s') by (eapply partition_invariant; eauto). split; auto. apply partition_okb_correct. exact I.
Qed.
