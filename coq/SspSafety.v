(* C13 -- safety of the raw algorithm: on every problem accepted by check() with non-negative costs below
   INT_MAX and total demand <= total capacity, the model of run() never fails an assertion and never
   calls top() on an empty queue; the only failure left is exhaustion of the fuel of updateTree / of a chain
   walk (non-termination of the C++ loops), which is not excluded here. *)
From Coq Require Import List ZArith Lia Bool Arith Permutation.
Import ListNotations.
Require Import CV.LpCert CV.Ssp CV.SspProofs.
Local Open Scope Z_scope.

Definition okf (e : Err) : Prop := match e with EFuel _ => True | _ => False end.
Definition safe {A : Type} (r : res A) (P : A -> Prop) : Prop :=
  match r with Ok a => P a | Fail e => okf e end.

Lemma safe_bind {A B : Type} (r : res A) (f : A -> res B) (P : A -> Prop) (Q : B -> Prop) :
  safe r P -> (forall a, P a -> safe (f a) Q) -> safe (bind r f) Q.
Proof. destruct r as [a|e]; cbn; auto. Qed.

Lemma safe_impl {A : Type} (r : res A) (P Q : A -> Prop) : safe r P -> (forall a, P a -> Q a) -> safe r Q.
Proof. destruct r; cbn; auto. Qed.

Lemma run_loop_safe {S A : Type} (I : S -> Prop) (P : A -> Prop) id p (body : S -> step S (res A)) s :
  I s ->
  (forall s, I s -> match body s with Continue s' => I s' | Done r => safe r P end) ->
  safe (run_loop id p body s) P.
Proof.
  intros Hs Hb. unfold run_loop.
  pose proof (loopP_inv I (fun r => safe r P) body Hb p s Hs) as H.
  destruct (loopP p body s) as [s'|r]; [exact Logic.I|exact H].
Qed.

Lemma foldM_safe {A S : Type} (I : S -> Prop) (f : S -> A -> res S) l :
  (forall s a, In a l -> I s -> safe (f s a) I) -> forall s, I s -> safe (foldM f l s) I.
Proof.
  induction l as [|a l IH]; intros Hf s Hs; cbn [foldM]; [exact Hs|].
  eapply safe_bind; [apply Hf; [left; reflexivity|exact Hs]|].
  intros s1 H1. apply IH; [|exact H1]. intros; apply Hf; [right|]; assumption.
Qed.

(* ---- queue facts *)
Lemma q_push_in e q x : In x (q_push e q) <-> x = e \/ In x q.
Proof.
  induction q as [|h t IH]; cbn [q_push]; [cbn; intuition|].
  destruct (fst e <? fst h); cbn [In]; [intuition|]. rewrite IH. intuition.
Qed.

Lemma q_push_nonempty e q : q_push e q <> [].
Proof. destruct q as [|h t]; cbn [q_push]; [discriminate|]. destruct (_ <? _); discriminate. Qed.

Lemma q_fold_in l acc x : In x (fold_left (fun q e => q_push e q) l acc) <-> In x l \/ In x acc.
Proof.
  revert acc; induction l as [|a l IH]; intros acc; cbn [fold_left In]; [intuition|].
  rewrite IH, q_push_in. intuition.
Qed.
Lemma q_of_list_in l x : In x (q_of_list l) <-> In x l.
Proof. unfold q_of_list. rewrite q_fold_in. cbn [In]. intuition. Qed.

Lemma drop_stale_in arow q x : In x q -> getZ arow (snd x) <> 0 -> In x (drop_stale arow q).
Proof.
  induction q as [|e t IH]; intros Hin Hnz; [destruct Hin|]. cbn [drop_stale].
  destruct (Z.eqb_spec (getZ arow (snd e)) 0) as [Hz|_]; [|exact Hin].
  destruct Hin as [->|Hin]; [contradiction|]. apply IH; assumption.
Qed.

Lemma drop_stale_top arow q e t : drop_stale arow q = e :: t -> getZ arow (snd e) <> 0.
Proof.
  induction q as [|h q IH]; cbn [drop_stale]; [discriminate|].
  destruct (Z.eqb_spec (getZ arow (snd h)) 0) as [_|Hnz]; [exact IH|]. intros [= <- _]. exact Hnz.
Qed.

Lemma zsum_pos_exists (f : nat -> Z) l : 0 < zsum f l -> exists a, In a l /\ 0 < f a.
Proof.
  induction l as [|h t IH]; cbn [zsum]; [lia|]. intros H.
  destruct (Z.lt_ge_cases 0 (f h)) as [Hp|Hn]; [exists h; split; [left; reflexivity|exact Hp]|].
  destruct (IH ltac:(lia)) as (a & Ha & Hpa). exists a. split; [right; exact Ha|exact Hpa].
Qed.

Lemma in_combine_seq {A} (l : list A) k d q dflt :
  In (d, q) (combine (seq k (length l)) l) -> (k <= d < k + length l)%nat /\ nth (d - k) l dflt = q.
Proof.
  revert k; induction l as [|h t IH]; intros k; cbn [length seq combine In]; [intros []|].
  intros [[= <- <-]|H].
  - split; [lia|]. rewrite Nat.sub_diag. reflexivity.
  - apply IH in H. destruct H as [H1 H2]. split; [lia|].
    replace (d - k)%nat with (S (d - S k)) by lia. exact H2.
Qed.

Section Safety.
Variable pb : Pb.
Let n := nsnk pb.
Let m := nsrc pb.

Definition Qrow (al : list (list Z)) (qs : list (list Queue)) (a : nat) : Prop :=
  length (nth a qs []) = n /\
  (forall b i, (b < n)%nat -> b <> a -> (i < m)%nat -> get2 al a i <> 0 -> exists c, In (c, i) (getq qs a b)) /\
  (forall b e t, (b < n)%nat -> b <> a -> getq qs a b = e :: t -> get2 al a (snd e) <> 0).

Definition Qinv (al : list (list Z)) (rm : list Z) (qs : list (list Queue)) : Prop :=
  forall a, (a < n)%nat -> getZ rm a = 0 -> Qrow al qs a.

Lemma Qrow_ext al qs al' qs' a :
  nth a al' [] = nth a al [] -> nth a qs' [] = nth a qs [] -> Qrow al qs a -> Qrow al' qs' a.
Proof.
  intros E1 E2 (H1 & H2 & H3). unfold Qrow, getq, get2 in *. rewrite E1, E2. auto.
Qed.

Lemma queue_nonempty al qs a b :
  Qrow al qs a -> (exists i, (i < m)%nat /\ get2 al a i <> 0) -> (b < n)%nat -> b <> a -> getq qs a b <> [].
Proof.
  intros (_ & H2 & _) (i & Hi & Hnz) Hb Hne E. destruct (H2 b i Hb Hne Hi Hnz) as (c & Hin).
  rewrite E in Hin. destruct Hin.
Qed.

Lemma row_positive al a : shape n m al -> 0 < rowsum m al a -> exists i, (i < m)%nat /\ get2 al a i <> 0.
Proof.
  intros _ H. unfold rowsum, load, plan_f in H. apply zsum_pos_exists in H. destruct H as (i & Hi & Hp).
  apply in_seq in Hi. exists i. split; [lia|lia].
Qed.

Lemma init_queues_rows al qs a j : j <> a -> nth j (init_queues pb al qs a) [] = nth j qs [].
Proof. intros H. unfold init_queues. apply row_upd_other, H. Qed.

Lemma init_queues_Qrow al qs a : (a < length qs)%nat -> Qrow al (init_queues pb al qs a) a.
Proof.
  intros Ha. unfold Qrow, getq, init_queues. rewrite nth_upd_eq by exact Ha. fold n m.
  split; [rewrite map_length, seq_length; reflexivity|]. split.
  - intros b i Hb Hne Hi Hnz.
    rewrite (@nth_map_in nat Queue _ _ b 0%nat []) by (rewrite seq_length; exact Hb). rewrite seq_nth by exact Hb. cbn [Nat.add].
    destruct (Nat.eqb_spec a b) as [->|_]; [contradiction|].
    eexists. apply q_of_list_in, in_map_iff. exists i. split; [reflexivity|].
    apply filter_In. split; [apply in_seq; lia|]. apply negb_true_iff, Z.eqb_neq, Hnz.
  - intros b e t Hb Hne.
    rewrite (@nth_map_in nat Queue _ _ b 0%nat []) by (rewrite seq_length; exact Hb). rewrite seq_nth by exact Hb. cbn [Nat.add].
    destruct (Nat.eqb_spec a b) as [->|_]; [contradiction|]. intros E.
    assert (Hin : In e (q_of_list (map (fun src => (pmoving pb src a b, src))
                     (filter (fun src => negb (get2 al a src =? 0)) (seq 0 m))))) by (rewrite E; left; reflexivity).
    apply q_of_list_in, in_map_iff in Hin. destruct Hin as (i & <- & Hin). cbn [snd].
    apply filter_In in Hin. destruct Hin as [_ Hin]. apply negb_true_iff, Z.eqb_neq in Hin. exact Hin.
Qed.

Lemma dest_queues_row al qs a src qs1 :
  update_dest_queues pb al qs a src = Ok qs1 -> (a < length qs)%nat ->
  nth a qs1 [] = if get2 al a src =? 0
                 then mapi_from 0 (fun dst q => if (dst =? a)%nat then q else q_push (pmoving pb src a dst, src) q)
                                (nth a qs [])
                 else nth a qs [].
Proof.
  unfold update_dest_queues. destruct (get2 al a src =? 0); cbn [negb].
  - destruct (existsb _ _); [discriminate|]. intros [= <-] Ha. apply nth_upd_eq, Ha.
  - intros [= <-] _. reflexivity.
Qed.

Lemma dest_queues_ok al qs a src :
  length (nth a qs []) = n -> (forall b, (b < n)%nat -> b <> a -> getq qs a b <> []) ->
  exists qs1, update_dest_queues pb al qs a src = Ok qs1.
Proof.
  intros Hl Hne. unfold update_dest_queues. destruct (negb _); [eexists; reflexivity|].
  destruct (existsb _ _) eqn:Ex; [|eexists; reflexivity]. exfalso.
  apply existsb_exists in Ex. destruct Ex as ([d q] & Hin & Hp). cbn [fst snd] in Hp.
  apply (in_combine_seq _ _ _ _ []) in Hin. destruct Hin as [Hd Hq]. rewrite Nat.sub_0_r in Hq.
  apply andb_true_iff in Hp. destruct Hp as [Hp1 Hp2]. apply negb_true_iff, Nat.eqb_neq in Hp1.
  destruct q; [|discriminate]. apply (Hne d); [unfold Queue in *; lia|exact Hp1|exact Hq].
Qed.

Lemma sink_queues_row al qs a src : (a < length qs)%nat ->
  nth a (update_sink_queues al qs a src) [] =
  if get2 al a src =? 0
  then mapi_from 0 (fun dst q => if (dst =? a)%nat then q else drop_stale (nth a al []) q) (nth a qs [])
  else nth a qs [].
Proof.
  intros Ha. unfold update_sink_queues. destruct (get2 al a src =? 0); cbn [negb]; [|reflexivity].
  apply nth_upd_eq, Ha.
Qed.

Lemma getq_dest al qs a src qs1 b :
  update_dest_queues pb al qs a src = Ok qs1 -> (a < length qs)%nat -> length (nth a qs []) = n ->
  (b < n)%nat -> b <> a ->
  getq qs1 a b = if get2 al a src =? 0 then q_push (pmoving pb src a b, src) (getq qs a b) else getq qs a b.
Proof.
  intros H Ha Hl Hb Hne. unfold getq. rewrite (dest_queues_row _ _ _ _ _ H Ha).
  destruct (get2 al a src =? 0); [|reflexivity].
  rewrite (@mapi_from_nth Queue Queue _ _ 0%nat b [] []) by (unfold Queue in *; lia). cbn [Nat.add].
  destruct (Nat.eqb_spec b a); [contradiction|reflexivity].
Qed.

Lemma getq_sink al qs a src b :
  (a < length qs)%nat -> length (nth a qs []) = n -> (b < n)%nat -> b <> a ->
  getq (update_sink_queues al qs a src) a b =
  if get2 al a src =? 0 then drop_stale (nth a al []) (getq qs a b) else getq qs a b.
Proof.
  intros Ha Hl Hb Hne. unfold getq. rewrite (sink_queues_row _ _ _ _ Ha).
  destruct (get2 al a src =? 0); [|reflexivity].
  rewrite (@mapi_from_nth Queue Queue _ _ 0%nat b [] []) by (unfold Queue in *; lia). cbn [Nat.add].
  destruct (Nat.eqb_spec b a); [contradiction|reflexivity].
Qed.

(* one step of the second chain walk keeps the queue invariant of the visited sink *)
Lemma Qrow_step al qs a wsrc mx qs1 e1 :
  shape n m al -> (forall j i, 0 <= get2 al j i) -> (a < n)%nat -> (a < length qs)%nat -> (wsrc < m)%nat -> 0 < mx ->
  Qrow al qs a -> update_dest_queues pb al qs a wsrc = Ok qs1 ->
  let al1 := upd2 al a wsrc (get2 al a wsrc + mx) in
  mx <= get2 al1 a e1 ->
  let al2 := upd2 al1 a e1 (get2 al1 a e1 - mx) in
  Qrow al2 (update_sink_queues al2 qs1 a e1) a.
Proof.
  intros Hsh Hpos Ha Haq Hw Hmx (Q1 & Q2 & Q3) Hd al1 HC al2.
  assert (Hsh1 : shape n m al1) by (apply upd2_shape, Hsh).
  destruct (get2_inrange n m al1 a e1 Hsh1 ltac:(lia)) as [_ He1].
  assert (Hsh2 : shape n m al2) by (apply upd2_shape, Hsh1).
  assert (Haq1 : (a < length qs1)%nat).
  { revert Hd. unfold update_dest_queues. destruct (negb _); [intros [= <-]; exact Haq|].
    destruct (existsb _ _); [discriminate|]. intros [= <-]. rewrite upd_length. exact Haq. }
  assert (Hl1 : length (nth a qs1 []) = n).
  { rewrite (dest_queues_row _ _ _ _ _ Hd Haq). destruct (_ =? 0); [rewrite mapi_from_length|]; exact Q1. }
  assert (G1 : forall i, get2 al1 a i = if (i =? wsrc)%nat then get2 al a wsrc + mx else get2 al a i).
  { intros i. unfold al1. rewrite (get2_upd2 n m) by assumption. rewrite Nat.eqb_refl. reflexivity. }
  assert (G2 : forall i, get2 al2 a i = if (i =? e1)%nat then get2 al1 a e1 - mx else get2 al1 a i).
  { intros i. unfold al2. rewrite (get2_upd2 n m) by assumption. rewrite Nat.eqb_refl. reflexivity. }
  (* membership in the queues of qs1 *)
  assert (M1 : forall b i, (b < n)%nat -> b <> a -> (i < m)%nat -> get2 al1 a i <> 0 -> exists c, In (c, i) (getq qs1 a b)).
  { intros b i Hb Hne Hi Hnz. rewrite (getq_dest _ _ _ _ _ _ Hd Haq Q1 Hb Hne).
    rewrite G1 in Hnz. destruct (Nat.eqb_spec i wsrc) as [->|Hiw].
    - destruct (Z.eqb_spec (get2 al a wsrc) 0) as [Hz|Hnz'].
      + eexists. apply q_push_in. left. reflexivity.
      + apply Q2; assumption.
    - destruct (Q2 b i Hb Hne Hi Hnz) as (c & Hc). exists c.
      destruct (get2 al a wsrc =? 0); [apply q_push_in; right|]; exact Hc. }
  assert (T1 : forall b e t, (b < n)%nat -> b <> a -> getq qs1 a b = e :: t -> get2 al1 a (snd e) <> 0).
  { intros b e t Hb Hne E. rewrite (getq_dest _ _ _ _ _ _ Hd Haq Q1 Hb Hne) in E. rewrite G1.
    destruct (Nat.eqb_spec (snd e) wsrc) as [_|Hew]; [specialize (Hpos a wsrc); lia|].
    destruct (get2 al a wsrc =? 0).
    - apply q_push_head in E. destruct E as [->|[t' E]]; [cbn [snd] in Hew; congruence|]. eapply Q3; eassumption.
    - eapply Q3; eassumption. }
  split; [|split].
  - rewrite (sink_queues_row _ _ _ _ Haq1). destruct (_ =? 0); [rewrite mapi_from_length|]; exact Hl1.
  - intros b i Hb Hne Hi Hnz. rewrite (getq_sink _ _ _ _ _ Haq1 Hl1 Hb Hne).
    assert (Hnz1 : get2 al1 a i <> 0).
    { rewrite G2 in Hnz. destruct (i =? e1)%nat eqn:E; [apply Nat.eqb_eq in E; subst i; lia|exact Hnz]. }
    destruct (M1 b i Hb Hne Hi Hnz1) as (c & Hc). exists c.
    destruct (get2 al2 a e1 =? 0); [|exact Hc]. apply drop_stale_in; [exact Hc|]. cbn [snd]. exact Hnz.
  - intros b e t Hb Hne E. rewrite (getq_sink _ _ _ _ _ Haq1 Hl1 Hb Hne) in E.
    destruct (Z.eqb_spec (get2 al2 a e1) 0) as [Hz|Hnz].
    + apply drop_stale_top in E. exact E.
    + pose proof (T1 b e t Hb Hne E) as H1. rewrite G2.
      destruct (Nat.eqb_spec (snd e) e1) as [_|_]; [rewrite G2, Nat.eqb_refl in Hnz; exact Hnz|exact H1].
Qed.
End Safety.

Section Safety2.
Variable pb : Pb.
Let n := nsnk pb.
Let m := nsrc pb.
Hypothesis Hcaps : forall j, (j < n)%nat -> 0 < cap_f pb j.
Hypothesis Hcost : forall j i, 0 <= cost pb j i < INT_MAX.

(* ---- the shortest-path tree *)
Definition Tinv (rm sc : list Z) (par : list (option nat)) : Prop :=
  (forall a b, nth a par None = Some b ->
     (a < n)%nat /\ (b < n)%nat /\ a <> b /\ getZ rm a = 0 /\ getZ sc b < INT_MAX) /\
  (forall a, (a < n)%nat -> getZ sc a < INT_MAX -> nth a par None = None -> 0 < getZ rm a) /\
  (forall a, (a < n)%nat -> 0 < getZ rm a -> getZ sc a = 0).

Lemma chain_root_free rm sc par sink l root :
  Tinv rm sc par -> Chain par sink l root -> (sink < n)%nat -> getZ sc sink < INT_MAX ->
  (root < n)%nat /\ 0 < getZ rm root.
Proof.
  intros (T1 & T2 & T3) Hc. induction Hc as [r Hr|a b l r Hab Hc IH]; intros Hs Hf.
  - split; [exact Hs|]. apply T2; assumption.
  - destruct (T1 a b Hab) as (_ & Hb & _ & _ & Hfb). apply IH; assumption.
Qed.

Lemma select_best_spec k (t : TreeSt) b :
  (k <= n)%nat -> select_best k t = Some b -> (b < n)%nat /\ getZ (t_sc t) b < INT_MAX.
Proof.
  unfold select_best. intros Hk.
  assert (H : forall st, (snd st <= INT_MAX /\ forall i, fst st = Some i -> (i < n)%nat /\ getZ (t_sc t) i < INT_MAX) ->
    let st' := fold_left (fun (st : option nat * Z) i =>
                 if nth i (t_tv t) false && (getZ (t_sc t) i <? snd st) then (Some i, getZ (t_sc t) i) else st)
               (seq 0 k) st in
    snd st' <= INT_MAX /\ forall i, fst st' = Some i -> (i < n)%nat /\ getZ (t_sc t) i < INT_MAX).
  { induction k as [|k IH]; intros st Hst; [exact Hst|].
    cbn zeta. rewrite seq_S, fold_left_app. cbn [fold_left Nat.add].
    specialize (IH ltac:(lia) st Hst). cbn zeta in IH.
    set (st1 := fold_left _ (seq 0 k) st) in *. destruct IH as [I1 I2].
    destruct (nth k (t_tv t) false && (getZ (t_sc t) k <? snd st1)) eqn:E; [|split; assumption].
    apply andb_true_iff in E. destruct E as [_ E]. apply Z.ltb_lt in E. cbn [fst snd].
    split; [lia|]. intros i [= <-]. split; lia. }
  specialize (H (None, INT_MAX)). cbn zeta in H.
  destruct H as [_ H]; [cbn [fst snd]; split; [lia|discriminate]|].
  intros E. apply H. exact E.
Qed.

Definition Uinv (rm : list Z) (t : TreeSt) : Prop :=
  length (t_sc t) = n /\ length (t_par t) = n /\ Tinv rm (t_sc t) (t_par t).

Lemma relax_safe al qs rm b t i :
  shape n m al -> (forall j, (j < n)%nat -> rowsum m al j + getZ rm j = cap_f pb j) -> (forall j, 0 <= getZ rm j) ->
  Qinv pb al rm qs ->
  (b < n)%nat -> (i < n)%nat -> Uinv rm t /\ getZ (t_sc t) b < INT_MAX ->
  safe (relax qs rm b t i) (fun t' => Uinv rm t' /\ getZ (t_sc t') b < INT_MAX).
Proof.
  intros Hsh Hrs Hrem HQ Hb Hi [(L1 & L2 & T1 & T2 & T3) Hfb]. unfold relax.
  destruct (Z.gtb_spec (getZ rm i) 0) as [Hfree|Hfull]; [exact (conj (conj L1 (conj L2 (conj T1 (conj T2 T3)))) Hfb)|].
  assert (Hri : getZ rm i = 0) by (specialize (Hrem i); lia).
  assert (Hmc : exists mc, moving_cost 502 qs i b = Ok mc).
  { unfold moving_cost. destruct (Nat.eqb_spec i b) as [_|Hne]; [eexists; reflexivity|].
    destruct (getq qs i b) as [|e t0] eqn:E; [|eexists; reflexivity]. exfalso.
    refine (queue_nonempty pb al qs i b (HQ i Hi Hri) _ Hb ltac:(congruence) E).
    apply (row_positive pb al i Hsh). pose proof (Hrs i Hi) as H1. pose proof (Hcaps i Hi) as H2.
    change m with (nsrc pb) in H1. lia. }
  destruct Hmc as (mc & Emc). rewrite Emc. cbn [bind].
  destruct (Z.ltb_spec (mc + getZ (t_sc t) b) (getZ (t_sc t) i)) as [Hlt|Hge]; [|exact (conj (conj L1 (conj L2 (conj T1 (conj T2 T3)))) Hfb)].
  assert (Hib : i <> b).
  { intros ->. unfold moving_cost in Emc. rewrite Nat.eqb_refl in Emc. injection Emc as <-. lia. }
  cbn [safe t_sc t_par]. unfold Uinv. cbn [t_sc t_par]. rewrite !upd_length.
  assert (Esc : forall a, getZ (upd (t_sc t) i (mc + getZ (t_sc t) b)) a
                          = if (a =? i)%nat then mc + getZ (t_sc t) b else getZ (t_sc t) a).
  { intros a. unfold getZ. destruct (Nat.eqb_spec a i) as [->|Hne]; [apply nth_upd_eq; lia|apply nth_upd_neq; congruence]. }
  assert (Epar : forall a, nth a (upd (t_par t) i (Some b)) None = if (a =? i)%nat then Some b else nth a (t_par t) None).
  { intros a. destruct (Nat.eqb_spec a i) as [->|Hne]; [apply nth_upd_eq; lia|apply nth_upd_neq; congruence]. }
  split; [|rewrite Esc; destruct (Nat.eqb_spec b i); [congruence|exact Hfb]].
  split; [exact L1|]. split; [exact L2|]. split; [|split].
  - intros a b' H. rewrite Epar in H. rewrite Esc. destruct (Nat.eqb_spec a i) as [->|Hne].
    + injection H as <-. destruct (Nat.eqb_spec b i); [congruence|]. repeat split; assumption.
    + destruct (T1 a b' H) as (Ha & Hb' & Hab & Hra & Hfb'). repeat split; try assumption.
      destruct (Nat.eqb_spec b' i) as [->|_]; lia.
  - intros a Ha Hf Hp. rewrite Epar in Hp. rewrite Esc in Hf.
    destruct (Nat.eqb_spec a i) as [->|Hne]; [discriminate|]. apply T2; assumption.
  - intros a Ha Hfree. rewrite Esc. destruct (Nat.eqb_spec a i) as [->|Hne]; [lia|]. apply T3; assumption.
Qed.

Lemma nth_map_const_none {A} (l : list A) a : nth a (map (fun _ => @None nat) l) None = None.
Proof. revert a; induction l as [|h t IH]; intros [|a]; cbn; auto. Qed.

Lemma update_tree_safe s :
  G pb s -> length (queues s) = n -> Qinv pb (alloc s) (rem s) (queues s) ->
  safe (update_tree s) (fun s' => alloc s' = alloc s /\ rem s' = rem s /\ queues s' = queues s /\
                                  Tinv (rem s) (scost s') (parent s')).
Proof.
  intros (Hsh & Hlr & Hpos & Hrs & Hrem) Hlq HQ. unfold update_tree.
  apply (safe_bind _ _ (fun t => Tinv (rem s) (t_sc t) (t_par t)));
    [|intros t Ht; cbn [safe alloc rem queues scost parent]; exact (conj eq_refl (conj eq_refl (conj eq_refl Ht)))].
  apply (run_loop_safe (Uinv (rem s)) (fun t => Tinv (rem s) (t_sc t) (t_par t))).
  - (* initial labels *)
    unfold Uinv. cbn [t_sc t_par]. rewrite !map_length. fold n in Hlr. split; [exact Hlr|]. split; [exact Hlr|].
    assert (Esc : forall a, (a < n)%nat ->
              getZ (map (fun r => if r >? 0 then 0 else INT_MAX) (rem s)) a = if getZ (rem s) a >? 0 then 0 else INT_MAX).
    { intros a Ha. unfold getZ. rewrite (nth_map_in _ _ a 0 0) by lia. reflexivity. }
    split; [|split].
    + intros a b H. rewrite nth_map_const_none in H. discriminate.
    + intros a Ha Hf _. rewrite Esc in Hf by exact Ha. destruct (Z.gtb_spec (getZ (rem s) a) 0); [lia|unfold INT_MAX in Hf; lia].
    + intros a Ha Hfree. rewrite Esc by exact Ha. destruct (Z.gtb_spec (getZ (rem s) a) 0); [reflexivity|lia].
  - intros t HU. unfold tree_body. rewrite Hlr. fold n.
    destruct (select_best n t) as [b|] eqn:Eb; [|cbn; apply HU].
    destruct (select_best_spec n t b (le_n _) Eb) as [Hb Hfb].
    pose proof (foldM_safe (fun t' => Uinv (rem s) t' /\ getZ (t_sc t') b < INT_MAX) (relax (queues s) (rem s) b) (seq 0 n)) as HF.
    specialize (HF ltac:(intros t1 i Hi Ht1; apply in_seq in Hi; eapply relax_safe; eauto; lia) t (conj HU Hfb)).
    destruct (foldM _ _ _) as [t'|e]; cbn [safe] in *; [|exact HF].
    destruct HF as [(L1 & L2 & HT) _]. unfold Uinv. cbn [t_sc t_par]. exact (conj L1 (conj L2 HT)).
Qed.
End Safety2.

Section Safety3.
Variable pb : Pb.
Let n := nsnk pb.
Let m := nsrc pb.
Hypothesis Hcaps : forall j, (j < n)%nat -> 0 < cap_f pb j.
Hypothesis Hcost : forall j i, 0 <= cost pb j i < INT_MAX.

Definition Inv (s : St) : Prop :=
  G pb s /\ length (queues s) = n /\ Qinv pb (alloc s) (rem s) (queues s) /\
  Tinv pb (rem s) (scost s) (parent s).

(* a full sink holds something, so its queues are not empty *)
Lemma full_queue_nonempty al rm qs a b :
  shape n m al -> (forall j, (j < n)%nat -> rowsum m al j + getZ rm j = cap_f pb j) -> Qinv pb al rm qs ->
  (a < n)%nat -> getZ rm a = 0 -> (b < n)%nat -> b <> a -> getq qs a b <> [].
Proof.
  intros Hsh Hrs HQ Ha Hra Hb Hne.
  apply (queue_nonempty pb al qs a b (HQ a Ha Hra)); [|exact Hb|exact Hne].
  apply (row_positive pb al a Hsh). pose proof (Hrs a Ha) as H1. pose proof (Hcaps a Ha) as H2.
  change m with (nsrc pb) in H1. lia.
Qed.

Lemma walk1_safe s sink q p :
  Inv s -> 0 < q -> safe (run_loop 519 p (walk1_body s) (sink, q)) (fun _ => True).
Proof.
  intros ((Hsh & Hlr & Hpos & Hrs & Hrem) & Hlq & HQ & (T1 & T2 & T3)) Hq.
  apply (run_loop_safe (fun w : nat * Z => 0 < snd w)); [exact Hq|].
  intros [cur mq] Hm. cbn [snd] in Hm. unfold walk1_body.
  destruct (nth cur (parent s) None) as [b|] eqn:Ep; [|exact Logic.I].
  destruct (T1 cur b Ep) as (Hc & Hb & Hcb & Hrc & _).
  unfold sent_source. destruct (getq (queues s) cur b) as [|e t] eqn:Eq.
  - exfalso. exact (full_queue_nonempty _ _ _ cur b Hsh Hrs HQ Hc Hrc Hb ltac:(congruence) Eq).
  - destruct (HQ cur Hc Hrc) as (_ & _ & Q3). pose proof (Q3 b e t Hb ltac:(congruence) Eq) as Hnz.
    specialize (Hpos cur (snd e)).
    destruct (Z.gtb_spec (Z.min mq (get2 (alloc s) cur (snd e))) 0) as [Hp|Hn]; [cbn [snd]; lia|lia].
Qed.

(* one step of the second walk: safe, and the queue invariant is kept (K is kept by walk2_step_K) *)
Lemma walk2_step_safe s src sink root l mx w b :
  Inv s -> Chain (parent s) sink l root -> 0 < mx -> (forall a, In a l -> good s mx a) -> (src < m)%nat ->
  K pb s src root l mx w -> length (w_qs w) = n -> Qinv pb (w_al w) (rem s) (w_qs w) ->
  nth (w_snk w) (parent s) None = Some b ->
  safe (walk2_step pb (rem s) mx w b)
       (fun w' => K pb s src root l mx w' /\ length (w_qs w') = n /\ Qinv pb (w_al w') (rem s) (w_qs w')).
Proof.
  intros HI Hchain Hmx Hgood Hsrc HK Hlq HQw Hp.
  pose proof HI as ((Hsh & Hlr & Hpos & Hrs & Hrem) & Hlq0 & HQ & (T1 & T2 & T3)).
  destruct (walk2_step pb (rem s) mx w b) as [w'|e] eqn:Es.
  - (* returned: K by walk2_step_K; the queue invariant by Qrow_step *)
    cbn [safe]. split; [exact (walk2_step_K pb s src sink root l mx Hsh Hchain Hmx Hgood Hsrc w b w' HK Hp Es)|].
    destruct w as [wal wqs a wsrc wupd]. cbn [w_al w_qs w_snk w_src w_upd] in *.
    destruct HK as (pre & post & El & Hc & Hshw & Hposw & Hrows & Hrsw & Hcsw & Hws).
    cbn [w_al w_qs w_snk w_src w_upd] in *.
    destruct (T1 a b Hp) as (Ha & Hb & Hab & Hra & _).
    unfold walk2_step in Es. cbn [w_al w_qs w_snk w_src w_upd] in Es.
    destruct (negb (getZ (rem s) a =? 0)); [discriminate|].
    destruct (moving_cost 535 wqs a b) as [oc|]; [|discriminate]. cbn [bind] in Es.
    destruct (update_dest_queues pb wal wqs a wsrc) as [qs1|] eqn:Ed; [|discriminate]. cbn [bind] in Es.
    unfold sent_source at 1 in Es. destruct (getq qs1 a b) as [|e1 t1] eqn:Eq1; [discriminate|]. cbn [bind] in Es.
    set (al1 := upd2 wal a wsrc (get2 wal a wsrc + mx)) in *.
    set (al2 := upd2 al1 a (snd e1) (get2 al1 a (snd e1) - mx)) in *.
    destruct (moving_cost 541 _ a b) as [nc|]; [|discriminate]. cbn [bind] in Es. injection Es as <-.
    cbn [w_al w_qs].
    assert (Haq : (a < length wqs)%nat) by lia.
    assert (HQa : Qrow pb wal wqs a) by (apply HQw; assumption).
    (* the bottleneck: mx <= al1[a][top] *)
    assert (HC : mx <= get2 al1 a (snd e1)).
    { assert (Hsh1 : shape n m al1) by (apply upd2_shape, Hshw).
      unfold al1. rewrite (get2_upd2 n m) by assumption. rewrite Nat.eqb_refl. cbn [andb].
      destruct (Nat.eqb_spec (snd e1) wsrc) as [_|Hd]; [specialize (Hposw a wsrc); lia|].
      destruct (dest_queues_spec _ _ _ _ _ _ Ed) as [_ Hd2].
      destruct (Hd2 b e1 t1 Eq1) as [E|[t' E]]; [contradiction|].
      (* the top was already the top of the untouched row a of s *)
      assert (Hnotin : ~ In a pre).
      { destruct (chain_nodup _ _ _ _ Hchain) as [Hnd _]. rewrite El in Hnd.
        inversion Hc as [? Hr|? b' post' ? Hab' Hc']; subst; [congruence|].
        apply NoDup_remove_2 in Hnd. intros Hin. apply Hnd, in_app_iff. left; exact Hin. }
      destruct (Hrows a Hnotin) as [Era Erq].
      assert (Hin : In a l).
      { rewrite El. inversion Hc as [? Hr|? b' post' ? Hab' Hc']; subst; [congruence|].
        apply in_app_iff. right. left. reflexivity. }
      assert (E' : getq (queues s) a b = e1 :: t') by (unfold getq in *; rewrite <- Erq; exact E).
      pose proof (Hgood a Hin b e1 t' Hp E') as Hm0. unfold get2 in *. rewrite Era. exact Hm0. }
    pose proof (Qrow_step pb wal wqs a wsrc mx qs1 (snd e1) Hshw Hposw Ha Haq Hws Hmx HQa Ed HC) as HQ2.
    cbn zeta in HQ2. fold al1 al2 in HQ2.
    split.
    + unfold update_sink_queues. destruct (negb _); [|rewrite upd_length].
      * revert Ed. unfold update_dest_queues. destruct (negb _); [intros [= <-]; exact Hlq|].
        destruct (existsb _ _); [discriminate|]. intros [= <-]. rewrite upd_length. exact Hlq.
      * revert Ed. unfold update_dest_queues. destruct (negb _); [intros [= <-]; exact Hlq|].
        destruct (existsb _ _); [discriminate|]. intros [= <-]. rewrite upd_length. exact Hlq.
    + intros j Hj Hrj. destruct (Nat.eq_dec j a) as [->|Hne]; [exact HQ2|].
      apply (Qrow_ext pb wal wqs); [| |apply HQw; assumption].
      * unfold al2, al1. rewrite !row_upd2_other by exact Hne. reflexivity.
      * rewrite sink_queues_rows by exact Hne.
        destruct (dest_queues_spec _ _ _ _ _ _ Ed) as [Hd1 _]. apply Hd1, Hne.
  - (* failure: only fuel -- but walk2_step has no loop, so every failure is excluded *)
    cbn [safe]. exfalso.
    destruct w as [wal wqs a wsrc wupd]. cbn [w_al w_qs w_snk w_src w_upd] in *.
    destruct HK as (pre & post & El & Hc & Hshw & Hposw & Hrows & Hrsw & Hcsw & Hws).
    cbn [w_al w_qs w_snk w_src w_upd] in *.
    destruct (T1 a b Hp) as (Ha & Hb & Hab & Hra & _).
    assert (Haq : (a < length wqs)%nat) by lia.
    assert (HQa : Qrow pb wal wqs a) by (apply HQw; assumption).
    assert (Hrsw' : forall j, (j < n)%nat -> rowsum m wal j + getZ (rem s) j = cap_f pb j).
    { intros j Hj. rewrite Hrsw by exact Hj. apply Hrs, Hj. }
    assert (Hne : forall d, (d < n)%nat -> d <> a -> getq wqs a d <> []).
    { intros d Hd Hda. exact (full_queue_nonempty wal (rem s) wqs a d Hshw Hrsw' HQw Ha Hra Hd Hda). }
    unfold walk2_step in Es. cbn [w_al w_qs w_snk w_src w_upd] in Es.
    rewrite Hra in Es. cbn [Z.eqb negb] in Es.
    unfold moving_cost at 1 in Es. destruct (Nat.eqb_spec a b) as [|_]; [contradiction|].
    destruct (getq wqs a b) as [|e0 t0] eqn:Eq0; [exact (Hne b Hb ltac:(congruence) Eq0)|]. cbn [bind] in Es.
    destruct HQa as (Q1 & Q2 & Q3).
    destruct (dest_queues_ok pb wal wqs a wsrc Q1 Hne) as (qs1 & Ed). rewrite Ed in Es. cbn [bind] in Es.
    assert (Eq1 : getq qs1 a b <> []).
    { rewrite (getq_dest pb wal wqs a wsrc qs1 b Ed Haq Q1 Hb ltac:(congruence)).
      destruct (_ =? 0); [apply q_push_nonempty|rewrite Eq0; discriminate]. }
    unfold sent_source at 1 in Es. destruct (getq qs1 a b) as [|e1 t1] eqn:Eq1'; [contradiction|]. cbn [bind] in Es.
    set (al1 := upd2 wal a wsrc (get2 wal a wsrc + mx)) in *.
    set (al2 := upd2 al1 a (snd e1) (get2 al1 a (snd e1) - mx)) in *.
    (* as above *)
    assert (Hsh1 : shape n m al1) by (apply upd2_shape, Hshw).
    assert (HC : mx <= get2 al1 a (snd e1)).
    { unfold al1. rewrite (get2_upd2 n m) by assumption. rewrite Nat.eqb_refl. cbn [andb].
      destruct (Nat.eqb_spec (snd e1) wsrc) as [_|Hd]; [specialize (Hposw a wsrc); lia|].
      destruct (dest_queues_spec _ _ _ _ _ _ Ed) as [_ Hd2].
      destruct (Hd2 b e1 t1 Eq1') as [E|[t' E]]; [contradiction|].
      assert (Hnotin : ~ In a pre).
      { destruct (chain_nodup _ _ _ _ Hchain) as [Hnd _]. rewrite El in Hnd.
        inversion Hc as [? Hr|? b' post' ? Hab' Hc']; subst; [congruence|].
        apply NoDup_remove_2 in Hnd. intros Hin. apply Hnd, in_app_iff. left; exact Hin. }
      destruct (Hrows a Hnotin) as [Era Erq].
      assert (Hin : In a l).
      { rewrite El. inversion Hc as [? Hr|? b' post' ? Hab' Hc']; subst; [congruence|].
        apply in_app_iff. right. left. reflexivity. }
      assert (E' : getq (queues s) a b = e1 :: t') by (unfold getq in *; rewrite <- Erq; exact E).
      pose proof (Hgood a Hin b e1 t' Hp E') as Hm0. unfold get2 in *. rewrite Era. exact Hm0. }
    pose proof (Qrow_step pb wal wqs a wsrc mx qs1 (snd e1) Hshw Hposw Ha Haq Hws Hmx (conj Q1 (conj Q2 Q3)) Ed HC) as HQ2.
    cbn zeta in HQ2. fold al1 al2 in HQ2.
    assert (Hsh2 : shape n m al2) by (apply upd2_shape, Hsh1).
    destruct (get2_inrange n m al1 a (snd e1) Hsh1 ltac:(lia)) as [_ He1].
    assert (Hrow2 : exists i, (i < m)%nat /\ get2 al2 a i <> 0).
    { apply (row_positive pb al2 a Hsh2). unfold al2. rewrite (rowsum_upd2 n m) by assumption.
      unfold al1 at 1. rewrite (rowsum_upd2 n m) by assumption. rewrite Nat.eqb_refl.
      pose proof (Hrsw' a Ha) as H1. pose proof (Hcaps a Ha) as H2.
      fold al1. lia. }
    pose proof (queue_nonempty pb al2 _ a b HQ2 Hrow2 Hb ltac:(congruence)) as Hne2.
    unfold moving_cost in Es. destruct (Nat.eqb_spec a b) as [|_]; [contradiction|].
    destruct (getq (update_sink_queues al2 qs1 a (snd e1)) a b); [contradiction|]. cbn [bind] in Es. discriminate.
Qed.
End Safety3.

Section Safety4.
Variable pb : Pb.
Let n := nsnk pb.
Let m := nsrc pb.
Hypothesis Hcaps : forall j, (j < n)%nat -> 0 < cap_f pb j.
Hypothesis Hcost : forall j i, 0 <= cost pb j i < INT_MAX.

Lemma walk2_safe s src sink root l mx p :
  Inv pb s -> Chain (parent s) sink l root -> 0 < mx -> (forall a, In a l -> good s mx a) -> (src < m)%nat ->
  safe (run_loop 532 p (walk2_body pb (parent s) (rem s) mx) (mkW2 (alloc s) (queues s) sink src false))
       (fun w => length (w_qs w) = n /\ Qinv pb (w_al w) (rem s) (w_qs w)).
Proof.
  intros HI Hchain Hmx Hgood Hsrc.
  pose proof HI as ((Hsh & Hlr & Hpos & Hrs & Hrem) & Hlq0 & HQ & HT).
  apply (run_loop_safe (fun w => K pb s src root l mx w /\ length (w_qs w) = n /\ Qinv pb (w_al w) (rem s) (w_qs w))).
  - split; [|split; [exact Hlq0|exact HQ]].
    exists [], l. cbn [w_al w_qs w_snk w_src].
    split; [reflexivity|]. split; [exact Hchain|]. split; [exact Hsh|]. split; [exact Hpos|].
    split; [intros; split; reflexivity|]. split; [reflexivity|]. split; [reflexivity|exact Hsrc].
  - intros w (HK & Hl & HQw). unfold walk2_body.
    destruct (nth (w_snk w) (parent s) None) as [b|] eqn:Ep; [|cbn [safe]; split; assumption].
    pose proof (walk2_step_safe pb Hcaps s src sink root l mx w b HI Hchain Hmx Hgood Hsrc HK Hl HQw Ep) as H.
    destruct (walk2_step pb (rem s) mx w b) as [w'|e]; cbn [safe] in *; exact H.
Qed.

Definition free_total (rm : list Z) : Z := zsum (getZ rm) (seq 0 n).

Lemma send_source3_safe s src sink q :
  Inv pb s -> (src < m)%nat -> 0 < q -> (sink < n)%nat -> getZ (scost s) sink < INT_MAX ->
  safe (send_source3 pb s src sink q)
       (fun r => Inv pb (fst r) /\ free_total (rem (fst r)) = free_total (rem s) - snd r).
Proof.
  intros HI Hsrc Hq Hsink Hfin.
  pose proof HI as ((Hsh & Hlr & Hpos & Hrs & Hrem) & Hlq0 & HQ & HT).
  unfold send_source3. destruct (Z.gtb_spec q 0) as [_|]; [|lia]. cbn [negb].
  pose proof (walk1_safe pb Hcaps s sink q (chain_fuel (nsnk pb)) HI Hq) as H1.
  destruct (run_loop 519 _ _ _) as [[root m1]|e1] eqn:E1; cbn [bind safe] in *; [|exact H1]. clear H1.
  destruct (walk1_spec _ _ _ _ _ _ Hq E1) as (l & Hch & Hm1 & Hgood).
  destruct (chain_root_free pb _ _ _ _ _ _ HT Hch Hsink Hfin) as [Hroot Hfree].
  set (mx := Z.min m1 (getZ (rem s) root)).
  assert (Hmx1 : mx <= m1) by apply Z.le_min_l.
  assert (Hmx2 : mx <= getZ (rem s) root) by apply Z.le_min_r.
  assert (Hmx : 0 < mx) by (unfold mx; lia).
  clearbody mx.
  destruct (Z.gtb_spec mx 0) as [_|]; [|lia]. cbn [negb].
  assert (Hgood' : forall a, In a l -> good s mx a).
  { intros a Ha b e t H1 H2. specialize (Hgood a Ha b e t H1 H2). lia. }
  pose proof (walk2_safe s src sink root l mx (chain_fuel (nsnk pb)) HI Hch Hmx Hgood' Hsrc) as H2.
  destruct (run_loop 532 _ _ _) as [w|e2] eqn:E2; cbn [bind safe] in *; [|exact H2].
  destruct H2 as [Hlqw HQw].
  destruct (walk2_spec pb s src sink root l mx Hsh Hpos Hch Hmx Hgood' Hsrc _ _ E2)
    as (Ew & Hshw & Hposw & Hrsw & Hcsw & Hws).
  rewrite Ew.
  set (al := upd2 (w_al w) root (w_src w) (get2 (w_al w) root (w_src w) + mx)).
  set (rm := upd (rem s) root (getZ (rem s) root - mx)).
  assert (Erm : forall j, getZ rm j = if (j =? root)%nat then getZ (rem s) root - mx else getZ (rem s) j).
  { intros j. unfold rm, getZ. destruct (Nat.eqb_spec j root) as [->|Hne]; [apply nth_upd_eq; lia|apply nth_upd_neq; congruence]. }
  remember (getZ rm root =? 0) as full eqn:Efull.
  set (qs := if full then init_queues pb al (w_qs w) root else w_qs w).
  (* the state before the tree update *)
  assert (HG1 : forall sc par, G pb (mkSt al rm sc par qs)).
  { intros sc par. unfold G. cbn [alloc rem].
    split; [apply upd2_shape, Hshw|]. split; [unfold rm; rewrite upd_length; exact Hlr|].
    split; [|split].
    - intros j i. unfold al. rewrite (get2_upd2 (nsnk pb) (nsrc pb)) by assumption.
      destruct ((j =? root)%nat && (i =? w_src w)%nat); [specialize (Hposw root (w_src w)); lia|apply Hposw].
    - intros j Hj. unfold al. rewrite (rowsum_upd2 (nsnk pb) (nsrc pb)) by assumption.
      rewrite Hrsw by exact Hj. specialize (Hrs j Hj). rewrite Erm.
      destruct (Nat.eqb_spec j root) as [->|Hne]; lia.
    - intros j. rewrite Erm. destruct (Nat.eqb_spec j root) as [->|Hne]; [lia|apply Hrem]. }
  assert (Hlq1 : length qs = n).
  { unfold qs. destruct full; [|exact Hlqw]. unfold init_queues. rewrite upd_length. exact Hlqw. }
  assert (HQ1 : Qinv pb al rm qs).
  { intros a Ha Hra. rewrite Erm in Hra. destruct (Nat.eqb_spec a root) as [->|Hne].
    - (* the root just became full: initQueues *)
      assert (Ef : full = true) by (rewrite Efull, Erm, Nat.eqb_refl; apply Z.eqb_eq, Hra).
      unfold qs. rewrite Ef. apply init_queues_Qrow. lia.
    - apply (Qrow_ext pb (w_al w) (w_qs w)); [| |apply HQw; assumption].
      + unfold al. apply row_upd2_other, Hne.
      + unfold qs. destruct full; [apply init_queues_rows, Hne|reflexivity]. }
  assert (Eft : free_total rm = free_total (rem s) - mx).
  { unfold free_total. rewrite (zsum_point (getZ rm) (getZ (rem s)) (seq 0 n) root).
    - rewrite Erm, Nat.eqb_refl. lia.
    - apply seq_NoDup.
    - apply in_seq. lia.
    - intros j _ Hj. rewrite Erm. destruct (Nat.eqb_spec j root); [contradiction|reflexivity]. }
  destruct (w_upd w || full) eqn:Eu.
  - (* updateTree *)
    pose proof (update_tree_safe pb Hcaps (mkSt al rm (scost s) (parent s) qs) (HG1 _ _) Hlq1 HQ1) as H3.
    destruct (update_tree _) as [s2|e3]; cbn [bind safe fst snd] in *; [|exact H3].
    destruct H3 as (Ea & Er & Eq & HT2). cbn [alloc rem queues] in *.
    split; [|rewrite Er; exact Eft].
    unfold Inv, G. rewrite Ea, Er, Eq. split; [exact (HG1 [] [])|]. split; [exact Hlq1|]. split; [exact HQ1|exact HT2].
  - (* the tree is kept: the root still has room *)
    cbn [bind safe fst snd alloc rem queues]. split; [|exact Eft].
    apply orb_false_iff in Eu. destruct Eu as [_ Ef]. rewrite Efull in Ef. apply Z.eqb_neq in Ef.
    rewrite Erm, Nat.eqb_refl in Ef.
    unfold Inv. cbn [alloc rem queues scost parent]. split; [exact (HG1 _ _)|]. split; [exact Hlq1|]. split; [exact HQ1|].
    destruct HT as (T1 & T2 & T3). split; [|split].
    + intros a b H. destruct (T1 a b H) as (Ha & Hb & Hab & Hra & Hfb). repeat split; try assumption.
      rewrite Erm. destruct (Nat.eqb_spec a root) as [->|_]; [lia|exact Hra].
    + intros a Ha Hf Hp. specialize (T2 a Ha Hf Hp). rewrite Erm.
      destruct (Nat.eqb_spec a root) as [->|_]; [lia|exact T2].
    + intros a Ha Hfr. rewrite Erm in Hfr. apply T3; [exact Ha|].
      destruct (Nat.eqb_spec a root) as [->|_]; [lia|exact Hfr].
Qed.
End Safety4.

Lemma zsum_nonneg (f : nat -> Z) l : (forall a, 0 <= f a) -> 0 <= zsum f l.
Proof. intros H. induction l as [|h t IH]; cbn [zsum]; [lia|]. specialize (H h). lia. Qed.

Lemma zsum_perm (f : nat -> Z) l l' : Permutation l l' -> zsum f l = zsum f l'.
Proof. induction 1; cbn [zsum]; lia. Qed.

Lemma zsum_seq_shift (f : nat -> Z) k len : zsum f (seq (S k) len) = zsum (fun i => f (S i)) (seq k len).
Proof. revert k; induction len as [|len IH]; intros k; cbn [seq zsum]; [reflexivity|]. rewrite IH. reflexivity. Qed.

Lemma zsuml_zsum l : zsuml l = zsum (getZ l) (seq 0 (length l)).
Proof.
  induction l as [|a l IH]; cbn [zsuml fold_right length seq zsum]; [reflexivity|].
  rewrite zsum_seq_shift. unfold zsuml in IH. rewrite IH. unfold getZ. cbn [nth]. reflexivity.
Qed.

Section Safety5.
Variable pb : Pb.
Let n := nsnk pb.
Let m := nsrc pb.
Hypothesis Hcaps : forall j, (j < n)%nat -> 0 < cap_f pb j.
Hypothesis Hcost : forall j i, 0 <= cost pb j i < INT_MAX.

Lemma best_sink_spec sc src :
  (exists j, (j < n)%nat /\ getZ sc j + cost pb j src < INT_MAX) ->
  (best_sink pb sc src < n)%nat /\ getZ sc (best_sink pb sc src) + cost pb (best_sink pb sc src) src < INT_MAX.
Proof.
  intros (j & Hj & Hfin). unfold best_sink. fold n.
  set (f := fun (st : nat * Z) i => let c := getZ sc i + cost pb i src in if c <? snd st then (i, c) else st).
  assert (H : forall k, (k <= n)%nat ->
    let st := fold_left f (seq 0 k) (0%nat, INT_MAX) in
    snd st <= INT_MAX /\ (forall i, (i < k)%nat -> snd st <= getZ sc i + cost pb i src) /\
    (snd st < INT_MAX -> (fst st < n)%nat /\ getZ sc (fst st) + cost pb (fst st) src = snd st)).
  { induction k as [|k IH]; intros Hk.
    - cbn. split; [lia|]. split; [intros; lia|intros; lia].
    - cbn zeta. rewrite seq_S, fold_left_app. cbn [fold_left Nat.add].
      specialize (IH ltac:(lia)). cbn zeta in IH. set (st := fold_left f (seq 0 k) (0%nat, INT_MAX)) in *.
      destruct IH as (I1 & I2 & I3).
      destruct (Z.ltb_spec (getZ sc k + cost pb k src) (snd st)) as [Hlt|Hge].
      + assert (Ef : f st k = (k, getZ sc k + cost pb k src)).
        { unfold f. cbn zeta. apply Z.ltb_lt in Hlt. rewrite Hlt. reflexivity. }
        rewrite Ef. cbn [fst snd].
        split; [lia|]. split; [|intros _; split; [lia|reflexivity]].
        intros i Hi. destruct (Nat.eq_dec i k) as [->|]; [lia|]. specialize (I2 i ltac:(lia)). lia.
      + assert (Ef : f st k = st).
        { unfold f. cbn zeta. apply Z.ltb_ge in Hge. rewrite Hge. reflexivity. }
        rewrite Ef.
        split; [exact I1|]. split; [|exact I3].
        intros i Hi. destruct (Nat.eq_dec i k) as [->|]; [lia|]. apply I2. lia. }
  specialize (H n (le_n _)). cbn zeta in H. destruct H as (_ & H2 & H3).
  specialize (H2 j Hj). destruct (H3 ltac:(lia)) as [H4 H5]. split; [exact H4|]. rewrite H5. lia.
Qed.

Lemma send_source_safe s src later :
  Inv pb s -> (src < m)%nat -> 0 <= dem_f pb src -> 0 <= later -> dem_f pb src + later <= free_total pb (rem s) ->
  safe (send_source pb s src) (fun s' => Inv pb s' /\ later <= free_total pb (rem s')).
Proof.
  intros HI Hsrc Hd Hl Hft. unfold send_source. fold (dem_f pb src).
  apply (run_loop_safe (fun sr : St * Z => Inv pb (fst sr) /\ 0 <= snd sr /\ snd sr + later <= free_total pb (rem (fst sr)))).
  - cbn [fst snd]. split; [exact HI|]. split; [exact Hd|exact Hft].
  - intros [s1 r] (HI1 & Hr & Hft1). cbn [fst snd] in *. unfold send_body.
    destruct (Z.gtb_spec r 0) as [Hr0|Hr0]; cbn [negb]; [|cbn [safe]; split; [exact HI1|lia]].
    pose proof HI1 as (HG1 & _ & _ & (_ & _ & T3)).
    (* some sink still has room *)
    assert (Hex : exists j, (j < n)%nat /\ getZ (scost s1) j + cost pb j src < INT_MAX).
    { destruct (zsum_pos_exists (getZ (rem s1)) (seq 0 n)) as (j & Hj & Hp); [unfold free_total in Hft1; fold n in Hft1; lia|].
      apply in_seq in Hj. exists j. split; [lia|]. rewrite (T3 j ltac:(lia) Hp). specialize (Hcost j src). lia. }
    destruct (best_sink_spec (scost s1) src Hex) as [Hk Hfin].
    set (k := best_sink pb (scost s1) src) in *.
    assert (Hfin' : getZ (scost s1) k < INT_MAX) by (specialize (Hcost k src); lia).
    pose proof (send_source3_safe pb Hcaps s1 src k r HI1 Hsrc Hr0 Hk Hfin') as H3.
    destruct (send_source3 pb s1 src k r) as [[s2 sent]|e] eqn:E3; cbn [safe fst snd] in *; [|exact H3].
    destruct H3 as [HI2 Hft2].
    destruct (send_source3_spec _ _ _ _ _ _ _ HG1 Hsrc E3) as (_ & Hs & _).
    destruct (Z.gtb_spec sent 0); [|lia]. cbn [negb fst snd].
    split; [exact HI2|]. split; [lia|]. rewrite Hft2. lia.
Qed.

Lemma run_safe L :
  (forall a, In a L -> (a < m)%nat) -> (forall i, 0 <= dem_f pb i) ->
  forall s, Inv pb s -> zsum (dem_f pb) L <= free_total pb (rem s) -> safe (foldM (send_source pb) L s) (Inv pb).
Proof.
  intros Hin Hd. induction L as [|a L IH]; intros s HI Hft; cbn [foldM]; [exact HI|].
  cbn [zsum] in Hft.
  pose proof (send_source_safe s a (zsum (dem_f pb) L) HI (Hin a (or_introl eq_refl)) (Hd a)
                (zsum_nonneg _ _ Hd) Hft) as H1.
  destruct (send_source pb s a) as [s1|e]; cbn [bind safe] in *; [|exact H1].
  destruct H1 as [HI1 Hft1]. apply IH; [intros; apply Hin; right; assumption|exact HI1|exact Hft1].
Qed.
End Safety5.

Lemma Inv_init pb : (forall j, (j < nsnk pb)%nat -> 0 < cap_f pb j) -> Inv pb (init_st pb).
Proof.
  intros Hc. unfold Inv. split; [|split; [|split]].
  - apply G_init. intros j. destruct (Nat.lt_ge_cases j (nsnk pb)) as [Hj|Hj]; [specialize (Hc j Hj); lia|].
    unfold cap_f, getZ. rewrite nth_overflow by exact Hj. lia.
  - cbn [init_st queues]. apply repeat_length.
  - intros a Ha Hra. cbn [init_st rem] in Hra. specialize (Hc a Ha). unfold cap_f in Hc. lia.
  - cbn [init_st rem scost parent]. split; [|split].
    + intros a b H. exfalso. revert H. generalize (nsnk pb). intros k. revert a.
      induction k as [|k IH]; intros [|a]; cbn; try discriminate. apply IH.
    + intros a Ha _ _. apply Hc, Ha.
    + intros a Ha _. unfold getZ. revert a Ha. generalize (nsnk pb). intros k.
      induction k as [|k IH]; intros [|a] Ha; cbn; try lia. apply IH. lia.
Qed.

(* the raw algorithm, on every problem of C13's domain: a feasible plan, or fuel exhaustion (non-termination
   of updateTree / a chain walk); never an assertion failure, never top() of an empty queue *)
Lemma ssp_safe pb :
  check_pb pb = true -> (forall j i, 0 <= cost pb j i < INT_MAX) -> total_demand pb <= total_capacity pb ->
  safe (ssp pb) (fun x => pb_feasible pb (plan_f x)).
Proof.
  intros Hchk Hcost Hbal.
  assert (Hcaps : forall j, (j < nsnk pb)%nat -> 0 < cap_f pb j).
  { unfold check_pb in Hchk. rewrite !andb_true_iff, !forallb_forall in Hchk. destruct Hchk as [[[_ Hc] _] _].
    intros j Hj. unfold cap_f, getZ. specialize (Hc _ (nth_In _ 0 Hj)). apply Z.ltb_lt in Hc. exact Hc. }
  destruct (check_pb_nonneg pb Hchk) as [_ Hd].
  destruct (ssp pb) as [x|e] eqn:E; cbn [safe]; [exact (ssp_feasible_checked pb x Hchk E)|].
  pose proof (sorted_sources_perm pb) as Hperm.
  assert (Hin : forall a, In a (sorted_sources pb) -> (a < nsrc pb)%nat).
  { intros a Ha. eapply Permutation_in in Ha; [|exact Hperm]. apply in_seq in Ha. lia. }
  pose proof (run_safe pb Hcaps Hcost (sorted_sources pb) Hin Hd (init_st pb) (Inv_init pb Hcaps)) as H.
  assert (Hft : zsum (dem_f pb) (sorted_sources pb) <= free_total pb (rem (init_st pb))).
  { rewrite (zsum_perm _ _ _ Hperm). unfold free_total. cbn [init_st rem].
    unfold total_demand, total_capacity in Hbal. rewrite !zsuml_zsum in Hbal. exact Hbal. }
  specialize (H Hft). unfold ssp, ssp_run in E.
  destruct (foldM _ _ _) as [s|e']; cbn [bind safe] in *; [discriminate|]. injection E as <-. exact H.
Qed.
