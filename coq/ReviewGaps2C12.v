(* Review gap (C12): histories containing clear() / lastAvailablePos().  After a clear() the state IS the
   initial state of the same segment, so every theorem of Properties_C12 applies to the operations after
   the last clear().  Model: ReviewGaps2C12Model.v over RowLeg.v. *)
From Coq Require Import List ZArith Lia Bool.
Import ListNotations.
Require Import CV.RowLeg CV.RowLegProofs CV.RowLegCert CV.RowLegChecked CV.RowLegOptProofs
               CV.ReviewGaps2C12Model.
Local Open Scope Z_scope.

Theorem clear_is_init s : clear s = rl_init (rbegin s) (rend s).
Proof. reflexivity. Qed.

Lemma stepc_op s o : fst (stepc s (COp o)) = fst (step s o).
Proof. cbn [stepc]. destruct (step s o). reflexivity. Qed.

Lemma stepc_bounds s o : rbegin (fst (stepc s o)) = rbegin s /\ rend (fst (stepc s o)) = rend s.
Proof. destruct o as [o| |]; [rewrite stepc_op; apply step_bounds|split; reflexivity|split; reflexivity]. Qed.

Theorem run_statec_bounds h : forall s, rbegin (run_statec s h) = rbegin s /\ rend (run_statec s h) = rend s.
Proof.
  induction h as [|o r IH]; intros s; cbn [run_statec fold_left]; [tauto|].
  destruct (IH (fst (stepc s o))) as [H1 H2]. unfold run_statec in H1, H2. rewrite H1, H2. apply stepc_bounds.
Qed.

(* whatever happened before, after clear() the legalizer is in the initial state of its segment *)
Theorem after_clear_initial b e h : run_statec (rl_init b e) (h ++ [CClear]) = rl_init b e.
Proof.
  unfold run_statec. rewrite fold_left_app. cbn [fold_left stepc fst]. rewrite clear_is_init.
  destruct (run_statec_bounds h (rl_init b e)) as [H1 H2]. unfold run_statec in H1, H2. rewrite H1, H2. reflexivity.
Qed.

Lemma run_statec_app s h1 h2 : run_statec s (h1 ++ h2) = run_statec (run_statec s h1) h2.
Proof. apply fold_left_app. Qed.
Lemma outputsc_app h1 : forall s h2, outputsc s (h1 ++ h2) = outputsc s h1 ++ outputsc (run_statec s h1) h2.
Proof. induction h1 as [|o r IH]; intros s h2; cbn [app outputsc]; [reflexivity|]. rewrite IH. reflexivity. Qed.

(* state and outputs after a clear() do not depend on the history before it *)
Theorem clear_forgets b e h1 h2 :
  run_statec (rl_init b e) (h1 ++ CClear :: h2) = run_statec (rl_init b e) h2 /\
  outputsc (rl_init b e) (h1 ++ CClear :: h2) =
    outputsc (rl_init b e) h1 ++ OCleared :: outputsc (rl_init b e) h2.
Proof.
  replace (h1 ++ CClear :: h2) with ((h1 ++ [CClear]) ++ h2) by (rewrite <- app_assoc; reflexivity).
  rewrite run_statec_app, outputsc_app, after_clear_initial. split; [reflexivity|].
  rewrite outputsc_app. cbn [outputsc stepc snd]. rewrite <- app_assoc. reflexivity.
Qed.

Lemma run_state_snoc s l o : run_state s (l ++ [o]) = fst (step (run_state s l) o).
Proof. unfold run_state. rewrite fold_left_app. reflexivity. Qed.

(* the final state of any history = the state reached from the initial state by the operations after
   the last clear() *)
Lemma run_statec_segment : forall h acc s,
  s = run_state (rl_init (rbegin s) (rend s)) (rev acc) ->
  run_statec s h = run_state (rl_init (rbegin s) (rend s)) (last_segment_aux acc h).
Proof.
  induction h as [|o r IH]; intros acc s Hs; cbn [run_statec fold_left last_segment_aux]; [exact Hs|].
  destruct (stepc_bounds s o) as [Hb He].
  destruct o as [o'| |]; cbn [last_segment_aux].
  - fold (run_statec (fst (stepc s (COp o'))) r). rewrite (IH (o' :: acc)); [rewrite Hb, He; reflexivity|].
    rewrite Hb, He. cbn [rev]. rewrite run_state_snoc, <- Hs. apply stepc_op.
  - fold (run_statec (fst (stepc s CClear)) r). rewrite (IH []); [rewrite Hb, He; reflexivity|].
    rewrite Hb, He. reflexivity.
  - fold (run_statec (fst (stepc s CLast)) r). cbn [stepc fst]. apply IH. exact Hs.
Qed.

Theorem history_state b e h :
  run_statec (rl_init b e) h = run_state (rl_init b e) (last_segment h).
Proof. exact (run_statec_segment h [] (rl_init b e) eq_refl). Qed.

(* ------------------------------------------------------------------ fits through a history *)
Lemma fits_app l1 : forall s l2, fits s (l1 ++ l2) <-> fits s l1 /\ fits (run_state s l1) l2.
Proof.
  induction l1 as [|o r IH]; intros s l2; cbn [app fits run_state fold_left]; [tauto|].
  rewrite IH. unfold run_state. tauto.
Qed.

Lemma fitsc_segment : forall h acc s,
  s = run_state (rl_init (rbegin s) (rend s)) (rev acc) ->
  fits (rl_init (rbegin s) (rend s)) (rev acc) -> fitsc s h ->
  fits (rl_init (rbegin s) (rend s)) (last_segment_aux acc h).
Proof.
  induction h as [|o r IH]; intros acc s Hs Hf Hc; cbn [last_segment_aux]; [exact Hf|].
  destruct (stepc_bounds s o) as [Hb He]. destruct Hc as [Ho Hr].
  destruct o as [o'| |].
  - specialize (IH (o' :: acc) (fst (stepc s (COp o')))). rewrite Hb, He in IH. apply IH; [| |exact Hr].
    + cbn [rev]. rewrite run_state_snoc, <- Hs. apply stepc_op.
    + cbn [rev]. apply fits_app. split; [exact Hf|]. rewrite <- Hs. cbn [fits]. split; [|exact I].
      destruct o'; [exact Ho|exact I].
  - specialize (IH [] (fst (stepc s CClear))). rewrite Hb, He in IH. apply IH; [reflexivity|exact I|exact Hr].
  - apply IH; [exact Hs|exact Hf|exact Hr].
Qed.

Theorem history_fits b e h : fitsc (rl_init b e) h -> fits (rl_init b e) (last_segment h).
Proof. intros H. exact (fitsc_segment h [] (rl_init b e) eq_refl I H). Qed.

Lemma run_fst b e ops : fst (run b e ops) = placement (run_state (rl_init b e) ops).
Proof. unfold run. rewrite <- run_ops_state. destruct (run_ops b e ops). reflexivity. Qed.

(* C12 main clause for histories with clear() and lastAvailablePos(): the placement returned by
   getPlacement() after ANY such history whose pushes fit is legal and optimal for the cells inserted
   since the last clear() *)
Theorem history_placement_optimal b e h :
  b <= e -> fitsc (rl_init b e) h ->
  let pl := placement (run_statec (rl_init b e) h) in
  let cs := mk_cells (push_list (last_segment h)) pl in
  length pl = length (push_list (last_segment h)) /\
  legal_from b e cs pl /\
  (forall zs, legal_from b e cs zs -> cost_of cs pl <= cost_of cs zs).
Proof.
  intros Hbe Hf. cbv zeta. rewrite history_state, <- run_fst.
  exact (rowleg_placement_optimal b e (last_segment h) Hbe (history_fits b e h Hf)).
Qed.

(* prediction stays pure and exact in every state reached by such a history *)
Theorem history_query_pure b e h w t :
  b <= e -> fitsc (rl_init b e) h ->
  let s := run_statec (rl_init b e) h in
  fst (get_cost s w t) = s /\ snd (get_cost s w t) = snd (push s w t).
Proof.
  intros Hbe Hf. cbv zeta. rewrite history_state, <- run_ops_state.
  exact (reachable_query_pure b e (last_segment h) w t Hbe (history_fits b e h Hf)).
Qed.

(* ------------------------------------------------------------------ lastAvailablePos() *)
Theorem last_available_none s : last_available_pos s = None <-> cpos s = [].
Proof. unfold last_available_pos. destruct (cpos s); split; congruence. Qed.

(* in a reachable state with at least one cell: the right end of the newest cell in getPlacement(),
   inside the segment; with no cell the C++ calls back() on an empty vector (None) *)
Theorem last_available_spec b e h :
  b <= e -> fitsc (rl_init b e) h ->
  let s := run_statec (rl_init b e) h in
  match placement_aux (cpos s) (widths s) (used s) None, widths s with
  | x :: _, w :: _ => last_available_pos s = Some (x + w) /\ b + w <= x + w <= e
  | [], [] => last_available_pos s = None
  | _, _ => False
  end.
Proof.
  intros Hbe Hf. cbv zeta. rewrite history_state.
  pose proof (run_state_inv _ _ (init_inv b e Hbe) (history_fits b e h Hf)) as (Hcp & _).
  destruct (run_state_bounds (last_segment h) (rl_init b e)) as [Hb He]. cbn [rl_init rbegin rend] in Hb, He.
  rewrite Hb, He in Hcp. unfold last_available_pos.
  destruct (cpos _) as [|c cp], (widths _) as [|w ws]; cbn [cp_ok placement_aux] in *; try tauto.
  destruct Hcp as (H1 & H2 & H3 & _). split; [f_equal; lia|lia].
Qed.

(* non-vacuity: pushes, a query, clear(), lastAvailablePos() on the empty state, pushes again *)
Example history_nonvacuous :
  let h := [COp (Push 2 5); CLast; CClear; CLast; COp (Push 2 5); COp (Query 1 (-3)); COp (Push 1 (-3)); CLast] in
  fitsc (rl_init 0 6) h /\
  last_segment h = [Push 2 5; Query 1 (-3); Push 1 (-3)] /\
  outputsc (rl_init 0 6) h =
    [OCost 2; OLast (Some 6); OCleared; OLast None; OCost 2; OCost 10; OCost 10; OLast (Some 6)] /\
  placement (run_statec (rl_init 0 6) h) = [3; 5].
Proof. cbv zeta. split; [vm_compute; intuition discriminate|]. repeat split; vm_compute; reflexivity. Qed.

(* ------------------------------------------------------------------ reported costs after a clear() *)
Fixpoint costs_from (s : rl) (ops : list op) : list Z :=
  match ops with [] => [] | o :: r => snd (step s o) :: costs_from (fst (step s o)) r end.

Lemma run_ops_costs b e ops : snd (run_ops b e ops) = costs_from (rl_init b e) ops.
Proof.
  unfold run_ops.
  assert (G : forall s cs, snd (let '(s', cs') := fold_left (fun '(s, cs) o => let '(s', c) := step s o in (s', c :: cs)) ops (s, cs) in (s', rev cs'))
                          = rev cs ++ costs_from s ops).
  { induction ops as [|o r IH]; intros s cs; cbn [fold_left costs_from]; [cbn; rewrite app_nil_r; reflexivity|].
    destruct (step s o) as [s' c] eqn:E. rewrite IH. cbn [fst snd rev]. rewrite <- app_assoc. reflexivity. }
  apply G.
Qed.

Lemma outputsc_ops ops : forall s, outputsc s (map COp ops) = map OCost (costs_from s ops).
Proof.
  induction ops as [|o r IH]; intros s; cbn [map outputsc costs_from]; [reflexivity|].
  rewrite stepc_op, IH. cbn [stepc]. destruct (step s o). reflexivity.
Qed.

(* a history that ends with clear() followed by pushes/queries: the outputs of that tail are the costs of
   the plain run of the tail, and the push costs sum to the minimum for the cells of the tail *)
Theorem history_costs_after_clear b e h1 ops :
  b <= e -> fits (rl_init b e) ops ->
  let costs := snd (run b e ops) in
  outputsc (rl_init b e) (h1 ++ CClear :: map COp ops) =
    outputsc (rl_init b e) h1 ++ OCleared :: map OCost costs /\
  let pl := placement (run_statec (rl_init b e) (h1 ++ CClear :: map COp ops)) in
  let cs := mk_cells (push_list ops) pl in
  pl = fst (run b e ops) /\
  push_cost_sum ops costs = cost_of cs pl /\
  (forall zs, legal_from b e cs zs -> push_cost_sum ops costs <= cost_of cs zs).
Proof.
  intros Hbe Hf. cbv zeta.
  assert (Ec : snd (run b e ops) = costs_from (rl_init b e) ops).
  { unfold run. rewrite <- run_ops_costs. destruct (run_ops b e ops). reflexivity. }
  destruct (clear_forgets b e h1 (map COp ops)) as [Es Eo].
  split; [rewrite Eo, outputsc_ops, Ec; reflexivity|].
  assert (Ep : placement (run_statec (rl_init b e) (h1 ++ CClear :: map COp ops)) = fst (run b e ops)).
  { rewrite Es, run_fst. f_equal. clear. generalize (rl_init b e).
    induction ops as [|o r IH]; intros s; [reflexivity|].
    cbn [map run_statec fold_left run_state]. rewrite stepc_op. apply IH. }
  rewrite Ep. split; [reflexivity|]. exact (rowleg_costs_sum_to_minimum b e ops Hbe Hf).
Qed.
