(* C18 -- exact model over Q of the cell-expansion functions of src/coloquinte.cpp:
     Circuit::computeRowPlacementArea   -> row_placement_area
     Circuit::expandCellsToDensity      -> expand_to_density
     Circuit::expandCellsByFactor       -> expand_by_factor
     Circuit::computeCellExpansion      -> compute_expansion
   Conventions.  double/float values are exact rationals (Q): every floating-point
   +,-,*,/ is modelled by the exact operation (the round-to-nearest of IEEE arithmetic
   is NOT modelled); every conversion of a floating value to int / long long is modelled
   exactly as the truncation toward zero [Qtrunc].  int / long long are ideal integers (Z).
   No proofs in this file. *)
From Coq Require Import List ZArith QArith Qround Bool.
Import ListNotations.
Require Import CV.Orient CV.FreeSpace.
Local Open Scope Z_scope.

(* the part of a Circuit the four functions read: rows_, cellX_/cellY_/cellWidth_/cellHeight_/
   cellOrientation_/cellIsFixed_/cellIsObstruction_ *)
Record ecell := { e_x : Z; e_y : Z; e_w : Z; e_h : Z; e_o : orient; e_fixed : bool; e_obs : bool }.
Record ecircuit := { e_rows : list row; e_cells : list ecell }.

Definition iq (z : Z) : Q := inject_Z z.

(* (int)x, (long long)x for a double/float x: truncation toward zero *)
Definition Qtrunc (q : Q) : Z := if Qle_bool 0 q then Qfloor q else Qceiling q.

Definition zsum (l : list Z) : Z := fold_right Z.add 0 l.

Definition set_w (k : ecell) (w : Z) : ecell :=
  {| e_x := e_x k; e_y := e_y k; e_w := w; e_h := e_h k; e_o := e_o k; e_fixed := e_fixed k; e_obs := e_obs k |}.

(* Circuit::placement(i) and Circuit::computeRows() through the C15 model (FreeSpace.v) *)
Definition e_placement (k : ecell) : rect := cell_placement (e_x k) (e_y k) (e_w k) (e_h k) (e_o k).
Definition e_free_rows (c : ecircuit) : list row :=
  compute_rows (e_rows c) [] (map (fun k => (e_placement k, e_fixed k, e_obs k)) (e_cells c)).

Definition rect_w (r : rect) : Z := maxX r - minX r.
Definition rect_h (r : rect) : Z := maxY r - minY r.

(* ---- computeRowPlacementArea (coloquinte.cpp:614-627) ----
   long long h = r.height(), w = r.width();  w -= 2 * rowSideMargin * h;   [w = (long long)((double)w - (2*m)*h)]
   if (w > 0) rowArea += w * h; *)
Definition margin_row_area (m : Q) (r : row) : Z :=
  let h := rect_h (rr r) in
  let w := rect_w (rr r) in
  let w' := Qtrunc (iq w - (2 * m) * iq h)%Q in
  if 0 <? w' then w' * h else 0.

Definition row_placement_area (m : Q) (c : ecircuit) : Z :=
  zsum (map (margin_row_area m) (e_free_rows c)).

(* area(i) summed over the non-fixed cells (coloquinte.cpp:632-637 and 702-707) *)
Definition cell_area (k : ecell) : Z := e_w k * e_h k.
Definition movable_area (cells : list ecell) : Z :=
  zsum (map (fun k => if e_fixed k then 0 else cell_area k) cells).

(* maxRowWidth over rows_ (NOT over the free rows), starting from 0 (coloquinte.cpp:652-655) *)
Definition max_row_width (rows : list row) : Z :=
  fold_left (fun a r => Z.max a (rect_w (rr r))) rows 0.

(* ---- expandCellsToDensity (coloquinte.cpp:629-685) ---- *)

(* while (missingArea >= h) { ++newW; missingArea -= h; }   -- explicit fuel, None = out of fuel *)
Fixpoint carry_loop (fuel : nat) (h : Z) (newW : Z) (missing : Q) : option (Z * Q) :=
  if Qle_bool (iq h) missing then
    match fuel with
    | O => None
    | S f => carry_loop f h (newW + 1) (missing - iq h)%Q
    end
  else Some (newW, missing).

(* the cells the loop body acts on: !cellIsFixed_[i] and not (h <= 0 || w <= 0) *)
Definition processed (k : ecell) : bool := negb (e_fixed k) && (0 <? e_h k) && (0 <? e_w k).

(* fracW = w * expansionFactor; if (fracW > maxCellWidth) fracW = maxCellWidth; *)
Definition frac_width (f cap : Q) (k : ecell) : Q :=
  let fw := (iq (e_w k) * f)%Q in if Qle_bool fw cap then fw else cap.

(* one iteration of the loop at coloquinte.cpp:662-684: returns the cell and the new missingArea.
   (Qred only normalises the representation of the rational.) *)
Definition expand_cell (f cap : Q) (k : ecell) (missing : Q) : option (ecell * Q) :=
  if processed k then
    let h := e_h k in
    let fw := frac_width f cap k in
    let newW := Qtrunc fw in
    let m1 := Qred (missing + iq h * (fw - iq newW))%Q in
    match carry_loop (Z.to_nat (Qfloor (m1 / iq h)%Q)) h newW m1 with
    | Some (w', m2) => Some (set_w k w', m2)
    | None => None
    end
  else Some (k, missing).

Fixpoint expand_cells (f cap : Q) (cells : list ecell) (missing : Q) : option (list ecell * Q) :=
  match cells with
  | [] => Some ([], missing)
  | k :: r =>
    match expand_cell f cap k missing with
    | None => None
    | Some (k', m') =>
      match expand_cells f cap r m' with
      | None => None
      | Some (r', m'') => Some (k' :: r', m'')
      end
    end
  end.

(* which branch was taken (reported to the correspondence check) *)
Inductive branch := BrNoArea | BrDense | BrExpand.

(* t = targetDensity, m = rowSideMargin, mew = maxExpandedWidth.  None only when the fuel of the
   carry loop runs out (excluded by ExpandProofs.expand_to_density_total) *)
Definition expand_to_density_br (t m mew : Q) (c : ecircuit) : option (ecircuit * branch) :=
  let ca := movable_area (e_cells c) in
  let ra := row_placement_area m c in
  if (ca =? 0) || (ra =? 0) then Some (c, BrNoArea) else
  let d := (iq ca / iq ra)%Q in
  if Qle_bool t d then Some (c, BrDense) else
  let cap := (iq (max_row_width (e_rows c)) * mew)%Q in
  let f := (t / d)%Q in
  match expand_cells f cap (e_cells c) 0 with
  | None => None
  | Some (cs, _) => Some ({| e_rows := e_rows c; e_cells := cs |}, BrExpand)
  end.

Definition expand_to_density (t m mew : Q) (c : ecircuit) : option ecircuit :=
  option_map fst (expand_to_density_br t m mew c).

(* ---- expandCellsByFactor (coloquinte.cpp:687-744) ---- *)

(* the float literal 0.999f = 16760439 / 2^24 *)
Definition flt_0_999 : Q := 16760439 # 16777216.

(* expandedArea += expansionFactor[i] * area(i): float arithmetic stored back into a long long,
   i.e. expandedArea = (long long)((float)expandedArea + e * (float)area) -- one truncation per movable cell *)
Fixpoint expanded_area (cells : list ecell) (es : list Q) (acc : Z) : Z :=
  match cells, es with
  | k :: cr, e :: er =>
    expanded_area cr er (if e_fixed k then acc else Qtrunc (iq acc + e * iq (cell_area k))%Q)
  | _, _ => acc
  end.

(* cellWidth_[i] *= expansion[i]  (int *= float: truncation) for the non-fixed cells *)
Definition apply_factor (ke : ecell * Q) : ecell :=
  let (k, e) := ke in if e_fixed k then k else set_w k (Qtrunc (iq (e_w k) * e)%Q).

(* None = the function throws.  Result: the circuit and the returned double. *)
Definition expand_by_factor_br (es : list Q) (maxD m : Q) (c : ecircuit) : option (ecircuit * Q * branch) :=
  if negb (Nat.eqb (length es) (length (e_cells c))) then None else
  if existsb (fun e => negb (Qle_bool flt_0_999 e)) es then None else
  let ca := movable_area (e_cells c) in
  let ea := expanded_area (e_cells c) es 0 in
  let ra := row_placement_area m c in
  if (ca =? 0) || (ra =? 0) then Some (c, 1%Q, BrNoArea) else
  let d := (iq ca / iq ra)%Q in
  if Qle_bool maxD d then Some (c, 1%Q, BrDense) else
  let ed := (iq ea / iq ra)%Q in
  let es' := if Qle_bool ed maxD then es
             else let ratio := ((maxD - d) / (ed - d))%Q in map (fun e => Qred (1 + (e - 1) * ratio)%Q) es in
  Some ({| e_rows := e_rows c; e_cells := map apply_factor (combine (e_cells c) es') |}, Qred (ed / d)%Q, BrExpand).

Definition expand_by_factor (es : list Q) (maxD m : Q) (c : ecircuit) : option (ecircuit * Q) :=
  option_map fst (expand_by_factor_br es maxD m c).

(* ---- computeCellExpansion (coloquinte.cpp:746-789) ---- *)

Definition rect_intersects (a b : rect) : bool :=   (* Rectangle::intersects *)
  (minX a <? maxX b) && (minX b <? maxX a) && (minY a <? maxY b) && (minY b <? maxY a).

(* (c - 1.0f) * penaltyFactor + fixedPenalty + 1.0 *)
Definition region_factor (fp pf c : Q) : Q := ((c - 1) * pf + fp + 1)%Q.

(* expansionMap: the regions with c > 1.0f.  The std::sort that follows in the C++ only reorders the
   map; the result below (a maximum) does not depend on the order *)
Definition expansion_map (fp pf : Q) (cmap : list (rect * Q)) : list (rect * Q) :=
  flat_map (fun rc => if Qle_bool (snd rc) 1 then [] else [(fst rc, region_factor fp pf (snd rc))]) cmap.

(* std::max(expansion, e) = (expansion < e) ? e : expansion *)
Definition qmax (a b : Q) : Q := if Qle_bool b a then a else b.

Definition cell_expansion (emap : list (rect * Q)) (k : ecell) : Q :=
  if e_fixed k then 1%Q
  else fold_left (fun acc re => if rect_intersects (fst re) (e_placement k) then qmax acc (snd re) else acc) emap 1%Q.

(* None = throws (fixedPenalty < 0 || penaltyFactor < 1) *)
Definition compute_expansion (cmap : list (rect * Q)) (fp pf : Q) (c : ecircuit) : option (list Q) :=
  if negb (Qle_bool 0 fp) || negb (Qle_bool 1 pf) then None
  else Some (map (cell_expansion (expansion_map fp pf cmap)) (e_cells c)).
