From Coq Require Import List ZArith Lia Bool.
Import ListNotations.
Require Import CV.RowLeg CV.RowLegProofs CV.RowLegMachine.
Local Open Scope Z_scope.

Definition wsum (q : list bound) : Z := fold_right (fun b a => bw b + a) 0 q.
Definition bok (rb re : Z) (b : bound) : Prop := rb <= bpos b <= re /\ 0 < bw b.

(* magnitude invariant: segment inside [-2^22, 2^22]; bounds inside the segment with positive
   weights whose sum is at most twice the used width *)
Definition MInv (s : rl) : Prop :=
  -4194304 <= rbegin s /\ rend s <= 4194304 /\ rbegin s <= rend s - used s /\ 0 <= used s /\
  sorted_q (bounds s) /\ Forall (bok (rbegin s) (rend s)) (bounds s) /\ wsum (bounds s) <= 2 * used s.

Lemma wsum_app a b : wsum (a ++ b) = wsum a + wsum b.
Proof. induction a as [|x a IH]; cbn; [reflexivity|]. fold (wsum (a ++ b)). fold (wsum a). rewrite IH. lia. Qed.

Lemma wsum_nonneg rb re q : Forall (bok rb re) q -> 0 <= wsum q.
Proof. induction 1 as [|x q [_ H] _ IH]; cbn; [lia|]. fold (wsum q). lia. Qed.

Lemma wsum_insert b q : wsum (pq_insert b q) = bw b + wsum q.
Proof.
  induction q as [|x q IH]; cbn [pq_insert]; [reflexivity|].
  destruct (bound_lt x b); [reflexivity|]. cbn. fold (wsum (pq_insert b q)). fold (wsum q). rewrite IH. lia.
Qed.

Lemma Forall_insert (P : bound -> Prop) b q : P b -> Forall P q -> Forall P (pq_insert b q).
Proof.
  intros Hb. induction q as [|x q IH]; intros Hq; cbn [pq_insert]; [constructor; [exact Hb|constructor]|].
  inversion Hq as [|? ? Hx Hq']; subst.
  destruct (bound_lt x b); [constructor; [exact Hb|exact Hq]|constructor; [exact Hx|apply IH; exact Hq']].
Qed.

Lemma bound_lt_false_pos x y : bound_lt x y = false -> bpos y <= bpos x.
Proof. unfold bound_lt. rewrite orb_false_iff, Z.ltb_ge. tauto. Qed.

Lemma fits32 v : -2147483648 <= v < 2147483648 -> fits (I32, v).
Proof. intros H. exact H. Qed.
Lemma fits64 v : -9223372036854775808 <= v < 9223372036854775808 -> fits (I64, v).
Proof. intros H. exact H. Qed.

(* the loop: every intermediate fits, and what it leaves behind *)
Lemma pop_loop_facts rb re M w ta lim : forall q passed slope cur cost q' passed' slope' cur' cost',
  -4194304 <= rb -> re <= 4194304 -> 0 < w <= 8388608 -> 0 <= M <= 25165824 ->
  sorted_q q -> Forall (bok rb re) q -> Forall (fun b => bpos b <= cur) q ->
  rb <= cur <= re -> 0 <= slope + w -> slope + w + wsum q <= M -> 0 <= cost <= (re - cur) * M ->
  pop_loop q ta lim w passed slope cur cost = (q', passed', slope', cur', cost') ->
  Forall fits (pop_vals q ta lim w slope cur cost) /\
  sorted_q q' /\ Forall (bok rb re) q' /\ Forall (fun b => bpos b <= cur') q' /\
  rb <= cur' <= re /\ 0 <= slope' + w /\ slope' + wsum q' = slope + wsum q /\ 0 <= cost' <= (re - cur') * M.
Proof.
  induction q as [|t q IH]; intros passed slope cur cost q' passed' slope' cur' cost' Hrb Hre Hw HM Hs Hb Hc Hcur Hsl Hsum Hcost E;
    cbn [pop_loop pop_vals] in *.
  - inversion E; subst. split; [constructor|]. split; [exact Hs|]. split; [exact Hb|]. split; [exact Hc|]. split; [exact Hcur|]. split; [exact Hsl|]. split; [reflexivity|exact Hcost].
  - destruct (((slope <? 0) && (ta <? bpos t)) || (lim <? bpos t)).
    + inversion Hb as [|? ? [Ht1 Ht2] Hb']; subst. inversion Hc as [|? ? Hct Hc']; subst.
      cbn [wsum fold_right] in Hsum. fold (wsum q) in Hsum.
      pose proof (wsum_nonneg _ _ _ Hb') as Hq0.
      assert (Hd : 0 <= cur - bpos t <= 8388608) by lia.
      assert (Hsw : 0 <= slope + w <= M) by lia.
      assert (Hp1 : 0 <= (cur - bpos t) * (slope + w)) by nia.
      assert (Hp2 : (cur - bpos t) * (slope + w) <= (cur - bpos t) * M) by nia.
      assert (Hp3 : (cur - bpos t) * M <= 8388608 * 25165824) by nia.
      assert (Hp4 : (re - cur) * M + (cur - bpos t) * M = (re - bpos t) * M) by ring.
      assert (Hp5 : (re - bpos t) * M <= 8388608 * 25165824) by nia.
      assert (Hle : Forall (fun b => bpos b <= bpos t) q).
      { pose proof (sorted_q_all_le _ _ Hs) as A. eapply Forall_impl; [|exact A]. cbn. intros y Hy. apply bound_lt_false_pos. exact Hy. }
      assert (O1 : 0 <= slope + bw t + w) by lia.
      assert (O2 : slope + bw t + w + wsum q <= M) by lia.
      assert (O3 : 0 <= cost + (cur - bpos t) * (slope + w) <= (re - bpos t) * M) by lia.
      specialize (IH (passed ++ [t]) (slope + bw t) (bpos t) (cost + (cur - bpos t) * (slope + w)) q' passed' slope' cur' cost'
                     Hrb Hre Hw HM (sorted_q_tail _ _ Hs) Hb' Hle Ht1 O1 O2 O3 E).
      destruct IH as (F & A1 & A2 & A3 & A4 & A5 & A6 & A7).
      split; [repeat (constructor; [first [apply fits32; lia | apply fits64; lia]|]); exact F|].
      split; [exact A1|]. split; [exact A2|]. split; [exact A3|]. split; [exact A4|]. split; [exact A5|].
      split; [cbn [wsum fold_right]; fold (wsum q); lia|exact A7].
    + inversion E; subst. split; [constructor|]. split; [exact Hs|]. split; [exact Hb|]. split; [exact Hc|]. split; [exact Hcur|]. split; [exact Hsl|]. split; [reflexivity|exact Hcost].
Qed.

Lemma all_le_rend s : MInv s -> Forall (fun b => bpos b <= rend s) (bounds s).
Proof. intros (_ & _ & _ & _ & _ & H & _). eapply Forall_impl; [|exact H]. intros b [Hb _]. lia. Qed.

(* one call of getDisplacement (push or query): every intermediate fits *)
Theorem gd_no_overflow s w t :
  MInv s -> 0 < w <= remaining_space s -> -8388608 <= t <= 8388608 -> Forall fits (gd_vals s w t).
Proof.
  intros HI Hw Ht. pose proof (all_le_rend s HI) as Hle.
  destruct HI as (Hrb & Hre & Hfit & Hu & Hs & Hb & Hsum). unfold remaining_space in Hw. unfold gd_vals.
  destruct (pop_loop (bounds s) (t - used s) (rend s - used s - w) w [] (- w) (rend s) 0)
    as [[[[q passed] slope] cur] cost] eqn:E.
  assert (HM : 0 <= w + 2 * used s <= 25165824) by lia.
  assert (Hw' : 0 < w <= 8388608) by lia.
  assert (G1 : rbegin s <= rend s <= rend s) by lia.
  assert (G2 : 0 <= - w + w) by lia.
  assert (G3 : - w + w + wsum (bounds s) <= w + 2 * used s) by lia.
  assert (G4 : 0 <= 0 <= (rend s - rend s) * (w + 2 * used s)) by lia.
  destruct (pop_loop_facts (rbegin s) (rend s) (w + 2 * used s) w (t - used s) (rend s - used s - w)
              (bounds s) [] (- w) (rend s) 0 q passed slope cur cost Hrb Hre Hw' HM Hs Hb Hle G1 G2 G3 G4 E) as (F & A1 & A2 & A3 & A4 & A5 & A6 & A7).
  pose proof (wsum_nonneg _ _ _ A2) as Hq0.
  set (final := Z.min (rend s - used s - w) (Z.max (rbegin s) (if 0 <=? slope then cur else t - used s))).
  assert (Hf : rbegin s <= final <= rend s - used s - w) by (unfold final; lia).
  assert (Hsw : 0 <= slope + w <= 25165824) by lia.
  assert (Hcf : -8388608 <= cur - final <= 8388608) by lia.
  assert (Hp : -(8388608 * 25165824) <= (cur - final) * (slope + w) <= 8388608 * 25165824) by nia.
  assert (Hc0 : 0 <= cost <= 8388608 * 25165824) by nia.
  assert (Hab : 0 <= Z.abs (final - (t - used s)) <= 33554432) by lia.
  assert (Hwa : 0 <= w * Z.abs (final - (t - used s)) <= 8388608 * 33554432) by nia.
  apply Forall_app. split; [repeat (constructor; [apply fits32; lia|]); constructor|].
  apply Forall_app. split; [exact F|].
  repeat (constructor; [first [apply fits32; lia | apply fits64; lia]|]). constructor.
Qed.

(* a push keeps the magnitude invariant *)
Theorem push_minv s w t :
  MInv s -> 0 < w <= remaining_space s -> MInv (fst (push s w t)).
Proof.
  intros HI Hw. pose proof (all_le_rend s HI) as Hle.
  destruct HI as (Hrb & Hre & Hfit & Hu & Hs & Hb & Hsum). unfold remaining_space in Hw. unfold push, get_displacement.
  destruct (pop_loop (bounds s) (t - used s) (rend s - used s - w) w [] (- w) (rend s) 0)
    as [[[[q passed] slope] cur] cost] eqn:E.
  assert (Hw' : 0 < w <= 8388608) by lia.
  assert (HM : 0 <= w + 2 * used s <= 25165824) by lia.
  assert (G1 : rbegin s <= rend s <= rend s) by lia.
  assert (G2 : 0 <= - w + w) by lia.
  assert (G3 : - w + w + wsum (bounds s) <= w + 2 * used s) by lia.
  assert (G4 : 0 <= 0 <= (rend s - rend s) * (w + 2 * used s)) by lia.
  destruct (pop_loop_facts (rbegin s) (rend s) (w + 2 * used s) w (t - used s) (rend s - used s - w)
              (bounds s) [] (- w) (rend s) 0 q passed slope cur cost Hrb Hre Hw' HM Hs Hb Hle G1 G2 G3 G4 E) as (_ & A1 & A2 & A3 & A4 & A5 & A6 & A7).
  cbn [fst]. unfold MInv. cbn [rbegin rend used bounds].
  set (final := Z.min (rend s - used s - w) (Z.max (rbegin s) (if 0 <=? slope then cur else t - used s))).
  assert (Hf : rbegin s <= final <= rend s - used s - w) by (unfold final; lia).
  split; [exact Hrb|]. split; [exact Hre|]. split; [lia|]. split; [lia|].
  assert (B1 : 0 < slope -> bok (rbegin s) (rend s) {| bpos := Z.min cur final; bw := slope |}) by (intros; unfold bok; cbn [bpos bw]; lia).
  assert (B2 : rbegin s < t - used s -> bok (rbegin s) (rend s) {| bpos := Z.min (t - used s) final; bw := 2 * w + Z.min slope 0 |})
    by (intros; unfold bok; cbn [bpos bw]; lia).
  destruct (Z.ltb_spec 0 slope) as [Hs0|Hs0]; destruct (Z.ltb_spec (rbegin s) (t - used s)) as [Ht0|Ht0].
  - split; [repeat apply pq_insert_sorted; exact A1|]. split; [repeat apply Forall_insert; auto|].
    rewrite !wsum_insert. cbn [bw]. lia.
  - split; [apply pq_insert_sorted; exact A1|]. split; [apply Forall_insert; auto|].
    rewrite wsum_insert. cbn [bw]. lia.
  - split; [apply pq_insert_sorted; exact A1|]. split; [apply Forall_insert; auto|].
    rewrite wsum_insert. cbn [bw]. lia.
  - split; [exact A1|]. split; [exact A2|]. pose proof (wsum_nonneg _ _ _ A2). lia.
Qed.

Lemma minv_sorted s : MInv s -> sorted_q (bounds s).
Proof. intros (_ & _ & _ & _ & H & _). exact H. Qed.

(* every history of fitting operations from an empty segment inside the magnitude range *)
Theorem history_no_overflow ops : forall s, MInv s -> ops_ok s ops -> Forall fits (run_vals s ops).
Proof.
  induction ops as [|o ops IH]; intros s HI Hok; cbn [run_vals]; [constructor|].
  destruct Hok as [Ho Hok]. destruct o as [w t|w t]; cbn [op_ok step] in *; destruct Ho as [Hw Ht].
  - apply Forall_app. split; [apply gd_no_overflow; assumption|]. apply IH; [apply push_minv; assumption|exact Hok].
  - apply Forall_app. split; [apply gd_no_overflow; assumption|].
    rewrite (query_restores_state s w t (minv_sorted s HI)) in *. apply IH; assumption.
Qed.

Lemma init_minv b e : -4194304 <= b -> b <= e -> e <= 4194304 -> MInv (rl_init b e).
Proof. intros. unfold MInv, rl_init; cbn. repeat split; try lia; constructor. Qed.
