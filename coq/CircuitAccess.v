(* C03, static part -- which functions of the placement algorithms can write to a Circuit, and what.
   The table [circuit_uses] (coq/CircuitAccess_gen.v) is GENERATED on every run by tools/circuit_access.py from
   clang's AST of the tree under check: one entry per use of a MUTABLE `Circuit &` outside the member functions
   of Circuit itself.  This file defines what such a table must look like for the abstraction of coq/Api.v
   ("a placement stage touches the circuit only through the three export functions, which are modelled line
   by line") to be justified; definitions only, proofs in CircuitAccessProofs.v. *)
From Coq Require Import List Ascii String Bool ZArith.
Import ListNotations.
Local Open Scope string_scope.

Inductive ukind := UWrite | URead | UOther | UCallNC | UPass | UStore | UParam | UUnknown.

Record cuse := mkU { u_fn : string; u_kind : ukind; u_name : string; u_line : nat }.

Definition ukind_eqb (a b : ukind) : bool :=
  match a, b with
  | UWrite, UWrite | URead, URead | UOther, UOther | UCallNC, UCallNC | UPass, UPass | UStore, UStore
  | UParam, UParam | UUnknown, UUnknown => true
  | _, _ => false
  end.

(* ---- the three stages' entry points (static functions taking the circuit by non-const reference) *)
Definition entry_global : string := "GlobalPlacer::place".
Definition entries_detailed : list string := ["DetailedPlacer::place"; "DetailedPlacer::legalize"].
Definition entries : list string := entry_global :: entries_detailed.

(* fields of Circuit that C03's frame speaks about and that a stage may change (for movable cells only) *)
Definition placement_fields : list string := ["cellX_"; "cellY_"; "cellOrientation_"].
(* bookkeeping flags of the Circuit: PUBLIC data members (coloquinte.hpp, with isInUse_), not returned by the getters the
   frame is stated on; frame_ok deliberately excludes them (an explicit exclusion, not a proof that they are unobservable) *)
Definition flag_fields : list string := ["hasCellSizeUpdate_"; "hasNetUpdate_"].

(* the writes that coq/Api.v models (export_glob, export_leg, export_det) *)
Definition modelled_writes : list (string * string) :=
  [("GlobalPlacer::exportPlacement", "cellX_"); ("GlobalPlacer::exportPlacement", "cellY_");
   ("Legalizer::exportPlacement", "cellX_"); ("Legalizer::exportPlacement", "cellY_");
   ("Legalizer::exportPlacement", "cellOrientation_");
   ("DetailedPlacement::exportPlacement", "cellX_"); ("DetailedPlacement::exportPlacement", "cellY_");
   ("DetailedPlacement::exportPlacement", "cellOrientation_")].

(* functions of the library that write placement fields but that no stage can reach (nothing hands them a circuit):
   the only writers tolerated outside [modelled_writes], and only while they stay unreachable *)
Definition dead_writers : list string :=
  ["NetModel::exportPlacementX"; "NetModel::exportPlacementY"; "IncrNetModel::exportPlacementX"; "IncrNetModel::exportPlacementY"].

Definition mem (s : string) (l : list string) : bool := existsb (String.eqb s) l.
Definition mem2 (p : string * string) (l : list (string * string)) : bool :=
  existsb (fun q => String.eqb (fst p) (fst q) && String.eqb (snd p) (snd q)) l.

(* class of "K::m" = "K"; of a name without "::" the empty string *)
Fixpoint class_of_aux (acc : string) (s : string) : string :=
  match s with
  | EmptyString => ""
  | String c r =>
      match r with
      | String c2 _ =>
          if (Ascii.eqb c ":"%char && Ascii.eqb c2 ":"%char)%bool then acc
          else class_of_aux (acc ++ String c EmptyString) r
      | EmptyString => ""
      end
  end.
Definition class_of (s : string) : string := class_of_aux "" s.

(* ---- reachability of a mutable circuit: from g to h when g passes it to h (UPass), and from a constructor
   K::K that stores it in a reference member (UStore) to every function of class K *)
Definition succs (uses : list cuse) (g : string) : list string :=
  flat_map (fun u =>
    if String.eqb (u_fn u) g then
      match u_kind u with
      | UPass => [u_name u]
      | UStore => map u_fn (filter (fun v => String.eqb (class_of (u_fn v)) (class_of g)) uses)
      | _ => []
      end
    else []) uses.

Definition add_new (l acc : list string) : list string :=
  fold_left (fun a s => if mem s a then a else (a ++ [s])%list) l acc.

Fixpoint reach_iter (fuel : nat) (uses : list cuse) (seen : list string) : list string :=
  match fuel with
  | O => seen
  | S f => reach_iter f uses (add_new (flat_map (succs uses) seen) seen)
  end.

(* every function name of the table, plus every callee: an upper bound of the number of rounds needed *)
Definition reach (uses : list cuse) (from : list string) : list string :=
  reach_iter (S (2 * List.length uses)) uses from.

(* closedness of a set under succs: what makes [reach] a real closure, checked on the generated table *)
Definition closedb (uses : list cuse) (s : list string) : bool :=
  forallb (fun g => forallb (fun h => mem h s) (succs uses g)) s.

(* ---- the rule *)
Definition use_okb (uses : list cuse) (r_all r_glob : list string) (u : cuse) : bool :=
  match u_kind u with
  | URead => true
  | UParam => true
  (* the callee of a hand-over is a function of the table (it has at least its UParam / UStore entry): the circuit
     never escapes to code the table does not describe *)
  | UPass => existsb (fun v => String.eqb (u_fn v) (u_name u)) uses
  | UStore => true
  | UWrite =>
      mem (u_name u) flag_fields
      || (mem (u_name u) placement_fields
          && (mem2 (u_fn u, u_name u) modelled_writes || (mem (u_fn u) dead_writers && negb (mem (u_fn u) r_all)))
          && negb (String.eqb (u_name u) "cellOrientation_" && mem (u_fn u) r_glob))
  | UOther | UCallNC | UUnknown => false
  end.

Definition circuit_uses_okb (uses : list cuse) : bool :=
  let r_all := reach uses entries in
  let r_glob := reach uses [entry_global] in
  closedb uses r_all && closedb uses r_glob
  && forallb (fun e => mem e r_all) entries && mem entry_global r_glob
  && forallb (use_okb uses r_all r_glob) uses
  (* non-degenerate: each of the three modelled export functions is reached and does write *)
  && forallb (fun p => mem (fst p) r_all && existsb (fun u => String.eqb (u_fn u) (fst p) && ukind_eqb (u_kind u) UWrite
                                                     && String.eqb (u_name u) (snd p)) uses) modelled_writes.

(* ---- Prop-level reading *)
Definition closed (uses : list cuse) (s : list string) : Prop :=
  forall g h, In g s -> In h (succs uses g) -> In h s.

(* what the table must guarantee: there is a set R of functions, containing the three entry points and closed
   under "hands the mutable circuit on", such that every use of a mutable circuit inside R is a read, a
   hand-over, a write of a bookkeeping flag, or one of the eight writes modelled in Api.v; nothing
   unclassified exists anywhere; and the functions that global placement can reach never write an orientation *)
Definition uses_ok (uses : list cuse) : Prop :=
  exists R Rg,
    closed uses R /\ closed uses Rg /\ (forall e, In e entries -> In e R) /\ In entry_global Rg /\
    (forall u, In u uses ->
       match u_kind u with
       | URead | UStore | UParam => True
       | UPass => exists v, In v uses /\ u_fn v = u_name u
       | UWrite =>
           In (u_name u) flag_fields \/
           (In (u_name u) placement_fields /\
            (In (u_fn u, u_name u) modelled_writes \/ (In (u_fn u) dead_writers /\ ~ In (u_fn u) R)) /\
            ~ (u_name u = "cellOrientation_" /\ In (u_fn u) Rg))
       | UOther | UCallNC | UUnknown => False
       end).

(* ================================================================================================
   C10, static part -- member functions of Circuit itself (table [circuit_methods], same generator):
   which ones can change a field, and whether checkNotInUse() comes first.  *)
Record cmethod := mkM { m_name : string; m_public : bool; m_const : bool; m_guard : nat;
                        m_writes : list (string * nat); m_calls : list string }.

(* what C10 calls the structure of the circuit: nets, pins, rows, fixed / obstruction flags, polarities *)
Definition structural_fields : list string :=
  ["netLimits_"; "pinCells_"; "pinXOffsets_"; "pinYOffsets_"; "rows_"; "cellIsFixed_"; "cellIsObstruction_";
   "cellRowPolarity_"].

(* the fourteen setters of coq/Api.v with [Api.guarded] (tied to Api.v by ApiAccessProofs.setter_table_matches_model) *)
Definition modelled_setters : list (string * bool) :=
  [("addNet", true); ("setNets", true); ("setRows", true); ("setupRows", true); ("setCellIsFixed", true);
   ("setCellIsObstruction", true); ("setCellRowPolarity", true);
   ("setCellX", false); ("setCellY", false); ("setCellOrientation", false); ("setCellWidth", false);
   ("setCellHeight", false); ("setNetWeights", false); ("setSolution", false)].

(* the other member functions that may change something: the placement entry points (modelled by Api.call: they
   only take the in-use flag THROUGH ITS SCOPE GUARD and hand *this to the algorithms, or -- the inline effort overloads and
   place(effort) of coloquinte.hpp -- only call other entry points) and the two expansion functions (C18: widths) *)
Definition entry_methods : list string := ["placeGlobal"; "legalize"; "placeDetailed"; "place"].
Definition expansion_methods : list string := ["expandCellsToDensity"; "expandCellsByFactor"].

(* the table lists a hand-over of *this as a non-const reference as the pseudo-field "@pass:<callee>" *)
Definition is_pass (f : string) : bool := String.prefix "@pass:" f.
(* the table lists the in-use flag HANDED TO ITS SCOPE GUARD as the pseudo-field "@raii:isInUse_": an automatic variable, declared as a
   statement of the function body, of a class that the generator recognises by its shape (constructor saves the flag and sets it, destructor
   gives the saved value back, not copyable) -- the flag is set for exactly the rest of the function and restored on EVERY exit, return or
   exception.  A direct assignment `isInUse_ = ...` is listed as a write of the plain field "isInUse_", which no rule below tolerates: a
   hand-written "set before, clear after" has no exception path (seeded defect C10-10: inline Circuit::place(effort)) *)
Definition raii_flag : string := "@raii:isInUse_".
(* an entry point takes the in-use flag (constructs the guard object on isInUse_) BEFORE it hands the circuit on *)
Definition guard_before_pass (ws : list (string * nat)) : bool :=
  forallb (fun w => negb (is_pass (fst w)) ||
                    existsb (fun g => String.eqb (fst g) raii_flag && Nat.ltb (snd g) (snd w)) ws) ws.

Definition lookup_guarded (n : string) : option bool :=
  match filter (fun p => String.eqb (fst p) n) modelled_setters with
  | p :: _ => Some (snd p)
  | [] => None
  end.

Definition method_okb (m : cmethod) : bool :=
  if m_const m then true
  else
    let touches_struct := existsb (fun w => mem (fst w) structural_fields) (m_writes m) in
    let guarded_first := negb (Nat.eqb (m_guard m) 0) && forallb (fun w => Nat.ltb (m_guard m) (snd w)) (m_writes m) in
    (* R1: a member function that can change the structure calls checkNotInUse() before its first write *)
    (negb touches_struct || guarded_first)
    (* R2 + R3: it is one of the functions the models know, with the guard the model says *)
    && match lookup_guarded (m_name m) with
       | Some g => Bool.eqb g (negb (Nat.eqb (m_guard m) 0)) && (negb g || guarded_first)
       | None =>
           Nat.eqb (m_guard m) 0
           && (if mem (m_name m) entry_methods
               then forallb (fun w => String.eqb (fst w) raii_flag || is_pass (fst w)) (m_writes m) && guard_before_pass (m_writes m)
                    && forallb (fun c => mem c entry_methods) (m_calls m)
               else if mem (m_name m) expansion_methods then forallb (fun w => String.eqb (fst w) "cellWidth_") (m_writes m)
               else match m_writes m with [] => true | _ => false end)
       end.

Definition circuit_methods_okb (ms : list cmethod) : bool :=
  forallb method_okb ms
  (* non-degenerate: every modelled setter exists as a public non-const member function *)
  && forallb (fun p => existsb (fun m => String.eqb (m_name m) (fst p) && m_public m && negb (m_const m)) ms) modelled_setters
  (* ... and so does every placement entry point, place(effort) included: the member functions DEFINED INLINE in coloquinte.hpp are in the table *)
  && forallb (fun n => existsb (fun m => String.eqb (m_name m) n && m_public m && negb (m_const m)) ms) entry_methods.

Definition methods_ok (ms : list cmethod) : Prop :=
  (forall m, In m ms -> m_const m = false ->
     (* R1 *) ((exists w, In w (m_writes m) /\ In (fst w) structural_fields) ->
               m_guard m <> O /\ forall w, In w (m_writes m) -> (m_guard m < snd w)%nat) /\
     (* R2 *) (forall g, In (m_name m, g) modelled_setters -> NoDup (map fst modelled_setters) ->
               (g = true <-> m_guard m <> O)) /\
     (* R3 *) ((exists w, In w (m_writes m)) ->
               In (m_name m) (map fst modelled_setters) \/ In (m_name m) entry_methods \/ In (m_name m) expansion_methods) /\
     (* R4 *) (In (m_name m) entry_methods -> ~ In (m_name m) (map fst modelled_setters) ->
               forall w, In w (m_writes m) -> is_pass (fst w) = true ->
               exists g, In g (m_writes m) /\ fst g = raii_flag /\ (snd g < snd w)%nat) /\
     (* R5 *) (In (m_name m) entry_methods -> ~ In (m_name m) (map fst modelled_setters) ->
               forall w, In w (m_writes m) -> fst w = raii_flag \/ is_pass (fst w) = true) /\
     (* R6 *) (In (m_name m) entry_methods -> ~ In (m_name m) (map fst modelled_setters) ->
               forall c, In c (m_calls m) -> In c entry_methods)) /\
  (forall p, In p modelled_setters -> exists m, In m ms /\ m_name m = fst p /\ m_public m = true /\ m_const m = false) /\
  (forall n, In n entry_methods -> exists m, In m ms /\ m_name m = n /\ m_public m = true /\ m_const m = false).
