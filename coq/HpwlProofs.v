From Coq Require Import List ZArith Lia Bool.
Import ListNotations.
Require Import CV.Orient CV.Hpwl.
Local Open Scope Z_scope.

(* ---------- pin offsets are the DEF transforms ---------- *)
Theorem pin_offset_is_transform o w h px py pw ph x' y' :
  def_transform o (w, h, px, py) = Some (pw, ph, x', y') ->
  pw = placed_width o w h /\ ph = placed_height o w h /\
  x' = pin_x_offset o w h px py /\ y' = pin_y_offset o w h px py.
Proof.
  destruct o; cbn; intros [= <- <- <- <-]; repeat split; lia.
Qed.

Theorem def_transform_defined o : o <> oINVALID -> o <> oUNKNOWN -> forall g, def_transform o g <> None.
Proof. destruct o; cbn; intros; congruence. Qed.

(* ---------- sentinel folds are true minima / maxima on bounded data ---------- *)
Lemma fold_min_le l d : fold_left Z.min l d <= d /\ (forall x, In x l -> fold_left Z.min l d <= x) /\
                        (fold_left Z.min l d = d \/ In (fold_left Z.min l d) l).
Proof.
  revert d. induction l as [|a l IH]; intros d; cbn [fold_left In].
  - split; [lia|]. split; [tauto|]. left; reflexivity.
  - destruct (IH (Z.min d a)) as (H1 & H2 & H3). split; [lia|]. split.
    + intros x [<-|Hx]; [lia|apply H2; exact Hx].
    + destruct H3 as [H3|H3]; [|right; right; exact H3].
      destruct (Z.min_spec d a) as [[_ E]|[_ E]]; [left; rewrite H3; exact E|right; left; rewrite H3; symmetry; exact E].
Qed.

Lemma fold_max_ge l d : d <= fold_left Z.max l d /\ (forall x, In x l -> x <= fold_left Z.max l d) /\
                        (fold_left Z.max l d = d \/ In (fold_left Z.max l d) l).
Proof.
  revert d. induction l as [|a l IH]; intros d; cbn [fold_left In].
  - split; [lia|]. split; [tauto|]. left; reflexivity.
  - destruct (IH (Z.max d a)) as (H1 & H2 & H3). split; [lia|]. split.
    + intros x [<-|Hx]; [lia|apply H2; exact Hx].
    + destruct H3 as [H3|H3]; [|right; right; exact H3].
      destruct (Z.max_spec d a) as [[_ E]|[_ E]]; [right; left; rewrite H3; symmetry; exact E|left; rewrite H3; exact E].
Qed.

Definition bounded (l : list Z) : Prop := forall x, In x l -> INT_MIN <= x <= INT_MAX.
Definition is_min (m : Z) (l : list Z) : Prop := In m l /\ forall x, In x l -> m <= x.
Definition is_max (m : Z) (l : list Z) : Prop := In m l /\ forall x, In x l -> x <= m.

Lemma fmin_is_min l : l <> [] -> bounded l -> is_min (fmin l) l.
Proof.
  intros Hne Hb. unfold fmin. destruct (fold_min_le l INT_MAX) as (H1 & H2 & H3). split; [|exact H2].
  destruct H3 as [H3|H3]; [|exact H3]. destruct l as [|a l]; [congruence|].
  assert (fold_left Z.min (a :: l) INT_MAX = a).
  { specialize (H2 a (or_introl eq_refl)). specialize (Hb a (or_introl eq_refl)). lia. }
  rewrite H. left; reflexivity.
Qed.

Lemma fmax_is_max l : l <> [] -> bounded l -> is_max (fmax l) l.
Proof.
  intros Hne Hb. unfold fmax. destruct (fold_max_ge l INT_MIN) as (H1 & H2 & H3). split; [|exact H2].
  destruct H3 as [H3|H3]; [|exact H3]. destruct l as [|a l]; [congruence|].
  assert (fold_left Z.max (a :: l) INT_MIN = a).
  { specialize (H2 a (or_introl eq_refl)). specialize (Hb a (or_introl eq_refl)). lia. }
  rewrite H. left; reflexivity.
Qed.

(* the half-perimeter of a non-empty net is (max-min) in x plus (max-min) in y of the
   transformed pin positions *)
Theorem net_hpwl_is_bbox cells net :
  net <> [] -> bounded (map (pin_px cells) net) -> bounded (map (pin_py cells) net) ->
  exists lox hix loy hiy,
    is_min lox (map (pin_px cells) net) /\ is_max hix (map (pin_px cells) net) /\
    is_min loy (map (pin_py cells) net) /\ is_max hiy (map (pin_py cells) net) /\
    net_hpwl cells net = (hix - lox) + (hiy - loy).
Proof.
  intros Hne Hbx Hby.
  assert (Nx : map (pin_px cells) net <> []) by (destruct net; [congruence|discriminate]).
  assert (Ny : map (pin_py cells) net <> []) by (destruct net; [congruence|discriminate]).
  exists (fmin (map (pin_px cells) net)), (fmax (map (pin_px cells) net)),
         (fmin (map (pin_py cells) net)), (fmax (map (pin_py cells) net)).
  repeat split; try (apply fmin_is_min; assumption); try (apply fmax_is_max; assumption).
  all: try (apply (fmin_is_min _ Nx Hbx)); try (apply (fmax_is_max _ Nx Hbx));
       try (apply (fmin_is_min _ Ny Hby)); try (apply (fmax_is_max _ Ny Hby)).
  destruct net; [congruence|]. reflexivity.
Qed.

Lemma hpwl_is_sum cells nets : hpwl cells nets = fold_right (fun net a => net_hpwl cells net + a) 0 nets.
Proof.
  unfold hpwl.
  assert (G : forall acc, fold_left (fun acc net => acc + net_hpwl cells net) nets acc =
                          acc + fold_right (fun net a => net_hpwl cells net + a) 0 nets).
  { induction nets as [|n nets IH]; intros acc; cbn [fold_left fold_right]; [lia|]. rewrite IH. lia. }
  rewrite G. lia.
Qed.

(* ---------- incremental model ---------- *)
Definition IInv (s : incr) : Prop :=
  iminmax s = map (net_minmax (ipos s)) (inets s) /\ ivalue s = sum_widths (iminmax s).

Lemma build_inv pos nets : IInv (incr_build pos nets).
Proof. unfold IInv, incr_build; cbn. tauto. Qed.

Lemma nth_error_upd {A} (l : list A) i a j :
  nth_error (upd l i a) j = if Nat.eqb j i then (match nth_error l i with Some _ => Some a | None => None end) else nth_error l j.
Proof.
  revert i j. induction l as [|x l IH]; intros i j; cbn [upd].
  - destruct (Nat.eqb j i); destruct i, j; reflexivity.
  - destruct i as [|i], j as [|j]; cbn [upd nth_error Nat.eqb]; try reflexivity. apply IH.
Qed.

Lemma length_upd {A} (l : list A) i a : length (upd l i a) = length l.
Proof. revert i. induction l as [|x l IH]; intros [|i]; cbn; try reflexivity. rewrite IH. reflexivity. Qed.

Lemma nth_upd_other (l : list Z) i a j d : j <> i -> nth j (upd l i a) d = nth j l d.
Proof.
  revert i j. induction l as [|x l IH]; intros [|i] [|j] H; cbn; try reflexivity; try congruence.
  apply IH. congruence.
Qed.

Lemma sum_widths_upd mm i old nw :
  nth_error mm i = Some old ->
  sum_widths (upd mm i nw) = sum_widths mm + ((snd nw - fst nw) - (snd old - fst old)).
Proof.
  revert i. induction mm as [|m mm IH]; intros [|i]; cbn [nth_error upd sum_widths fold_right]; try discriminate.
  - intros [= ->]. lia.
  - intros H. fold (sum_widths (upd mm i nw)). fold (sum_widths mm). rewrite (IH _ H). lia.
Qed.

Lemma list_ext_nth_error {A} (l1 l2 : list A) : (forall j, nth_error l1 j = nth_error l2 j) -> l1 = l2.
Proof.
  revert l2. induction l1 as [|a l1 IH]; intros [|b l2] H.
  - reflexivity.
  - specialize (H O); discriminate.
  - specialize (H O); discriminate.
  - pose proof (H O) as H0. cbn in H0. inversion H0; subst. f_equal. apply IH. intros j. exact (H (S j)).
Qed.

(* effect of the recompute loop *)
Lemma recompute_loop ids : forall s,
  length (iminmax s) = length (inets s) -> ivalue s = sum_widths (iminmax s) ->
  let s' := fold_left recompute_net ids s in
  ipos s' = ipos s /\ inets s' = inets s /\ length (iminmax s') = length (inets s) /\
  ivalue s' = sum_widths (iminmax s') /\
  forall j, nth_error (iminmax s') j =
            if existsb (Nat.eqb j) ids
            then (match nth_error (inets s) j with Some net => Some (net_minmax (ipos s) net) | None => None end)
            else nth_error (iminmax s) j.
Proof.
  induction ids as [|i ids IH]; intros s Hlen Hval; cbn [fold_left existsb].
  - cbn zeta. repeat split; try assumption. 
  - set (s1 := recompute_net s i).
    assert (H1 : ipos s1 = ipos s /\ inets s1 = inets s /\ length (iminmax s1) = length (inets s) /\
                 ivalue s1 = sum_widths (iminmax s1) /\
                 forall j, nth_error (iminmax s1) j =
                   if Nat.eqb j i then (match nth_error (inets s) j with Some net => Some (net_minmax (ipos s) net) | None => None end)
                   else nth_error (iminmax s) j).
    { subst s1. unfold recompute_net.
      destruct (nth_error (inets s) i) as [pins|] eqn:E1.
      - destruct (nth_error (iminmax s) i) as [old|] eqn:E2.
        + cbn [ipos inets iminmax ivalue]. repeat split; try reflexivity.
          * rewrite length_upd. exact Hlen.
          * rewrite (sum_widths_upd _ _ _ _ E2). lia.
          * intros j. rewrite nth_error_upd. destruct (Nat.eqb_spec j i) as [->|]; [|reflexivity].
            rewrite E1, E2. reflexivity.
        + exfalso. apply nth_error_None in E2. assert (nth_error (inets s) i <> None) by congruence.
          apply nth_error_Some in H. lia.
      - repeat split; try assumption. intros j. destruct (Nat.eqb_spec j i) as [->|]; [|reflexivity].
        rewrite E1. apply nth_error_None in E1. apply nth_error_None. lia. }
    destruct H1 as (P1 & P2 & P3 & P4 & P5).
    assert (Hlen1 : length (iminmax s1) = length (inets s1)) by (rewrite P2; exact P3).
    destruct (IH s1 Hlen1 P4) as (Q1 & Q2 & Q3 & Q4 & Q5). cbn zeta in *.
    rewrite Q1, Q2, Q3, P1, P2. repeat split; try reflexivity; try assumption.
    intros j. rewrite Q5, P1, P2, P5. destruct (existsb (Nat.eqb j) ids) eqn:Ex.
    + rewrite orb_true_r. reflexivity.
    + rewrite orb_false_r. reflexivity.
Qed.

Fixpoint ids_from (i : nat) (nets : list (list ipin)) (c : nat) : list nat :=
  match nets with
  | [] => []
  | net :: r => map (fun _ => i) (filter (fun p => Nat.eqb (fst p) c) net) ++ ids_from (S i) r c
  end.

Lemma cell_net_ids_from nets c : cell_net_ids nets c = ids_from 0 nets c.
Proof.
  unfold cell_net_ids. generalize 0%nat as i. induction nets as [|net r IH]; intros i; cbn; [reflexivity|].
  rewrite IH. reflexivity.
Qed.

Lemma ids_from_complete nets c : forall i j net q,
  nth_error nets j = Some net -> In q net -> fst q = c -> In (i + j)%nat (ids_from i nets c).
Proof.
  induction nets as [|n r IH]; intros i [|j] net q Hn Hq Hc; cbn [nth_error] in Hn; try discriminate; cbn [ids_from].
  - inversion Hn; subst n. apply in_or_app. left. rewrite Nat.add_0_r.
    assert (In q (filter (fun p => Nat.eqb (fst p) c) net)).
    { apply filter_In. split; [exact Hq|]. apply Nat.eqb_eq. exact Hc. }
    destruct (filter _ net) as [|x l]; [destruct H|]. left; reflexivity.
  - apply in_or_app. right. replace (i + S j)%nat with (S i + j)%nat by lia. eapply IH; eassumption.
Qed.

Lemma net_minmax_indep pos c p net :
  (forall q, In q net -> fst q <> c) -> net_minmax (upd pos c p) net = net_minmax pos net.
Proof.
  intros H. unfold net_minmax.
  assert (E : map (ipin_pos (upd pos c p)) net = map (ipin_pos pos) net).
  { apply map_ext_in. intros q Hq. unfold ipin_pos. rewrite nth_upd_other; [reflexivity|apply H; exact Hq]. }
  rewrite E. reflexivity.
Qed.

Theorem update_inv s c p :
  IInv s -> let s' := update_cell_pos s c p in
  IInv s' /\ ipos s' = upd (ipos s) c p /\ inets s' = inets s.
Proof.
  intros [Hmm Hv]. cbn zeta. unfold update_cell_pos.
  set (s1 := {| ipos := upd (ipos s) c p; inets := inets s; iminmax := iminmax s; ivalue := ivalue s |}).
  assert (Hlen : length (iminmax s1) = length (inets s1)) by (cbn; rewrite Hmm, map_length; reflexivity).
  destruct (recompute_loop (cell_net_ids (inets s) c) s1 Hlen Hv) as (Q1 & Q2 & Q3 & Q4 & Q5).
  cbn zeta in *. subst s1. cbn [ipos inets iminmax ivalue] in *.
  split; [|split; [exact Q1|exact Q2]].
  split; [|exact Q4]. rewrite Q1, Q2. apply list_ext_nth_error. intros j. rewrite Q5.
  rewrite nth_error_map.
  destruct (nth_error (inets s) j) as [net|] eqn:En; cbn [option_map].
  - destruct (existsb (Nat.eqb j) (cell_net_ids (inets s) c)) eqn:Ex; [reflexivity|].
    rewrite Hmm, nth_error_map, En. cbn [option_map]. f_equal. symmetry. apply net_minmax_indep.
    intros q Hq Hc. assert (In j (cell_net_ids (inets s) c)).
    { rewrite cell_net_ids_from. apply (ids_from_complete (inets s) c 0 j net q En Hq Hc). }
    assert (existsb (Nat.eqb j) (cell_net_ids (inets s) c) = true).
    { apply existsb_exists. exists j. split; [exact H|apply Nat.eqb_refl]. }
    congruence.
  - destruct (existsb _ _); [reflexivity|]. rewrite Hmm, nth_error_map, En. reflexivity.
Qed.

(* every reachable state: the maintained value is the from-scratch value of the
   current positions *)
Definition apply_updates (s : incr) (ups : list (nat * Z)) : incr :=
  fold_left (fun s u => update_cell_pos s (fst u) (snd u)) ups s.

Theorem updates_exact ups : forall s, IInv s ->
  let s' := apply_updates s ups in
  IInv s' /\ inets s' = inets s /\ ivalue s' = ivalue (incr_build (ipos s') (inets s)).
Proof.
  induction ups as [|[c p] ups IH]; intros s Hs; cbn [apply_updates fold_left fst snd].
  - cbn zeta. split; [exact Hs|]. split; [reflexivity|]. destruct Hs as [H1 H2]. cbn. rewrite H2, H1. reflexivity.
  - destruct (update_inv s c p Hs) as (A & B & C). destruct (IH _ A) as (D & E & F). cbn zeta in *.
    change (fold_left (fun s0 u => update_cell_pos s0 (fst u) (snd u)) ups (update_cell_pos s c p))
      with (apply_updates (update_cell_pos s c p) ups).
    split; [exact D|]. split; [rewrite E; exact C|]. rewrite F, C. reflexivity.
Qed.

(* from-scratch value = sum of the true extents of the nets *)
Lemma sum_widths_map pos nets :
  sum_widths (map (net_minmax pos) nets) = fold_right (fun net a => extent (map (ipin_pos pos) net) + a) 0 nets.
Proof. induction nets as [|n r IH]; cbn; [reflexivity|]. fold (sum_widths (map (net_minmax pos) r)). rewrite IH. unfold extent. lia. Qed.
