(* C11 -- binary32 model (Flocq, IEEE-754 round-to-nearest-even) of LegalizerBase::computeCellOrder
   (/repo/src/place_detailed/legalizer.cpp:123-142) as called from Legalizer::run (legalizer.cpp:290-293):

     std::vector<int> LegalizerBase::computeCellOrder(float weightX, float weightWidth, float weightY, float weightHeight) const
       for i in 0..nbCells-1:
         float val = weightX * cellTargetX_[i] + weightWidth * cellWidth_[i] + weightY * cellTargetY_[i] + weightHeight * cellHeight_[i];
         sortedCells.emplace_back(val, i);
       std::stable_sort(sortedCells.begin(), sortedCells.end());     (std::pair<float,int>::operator<)
       return the second components

     Legalizer::run:  computeCellOrder(1.0, params.legalization.orderingWidth, params.legalization.orderingY,
                                       params.legalization.orderingHeight)      (the three fields are `double`)

   C++ semantics followed here, one rounding per operator (x86-64 SSE scalar arithmetic, FLT_EVAL_METHOD = 0, no
   -ffast-math, no -mfma: no contraction -- the flags of the harness and library build, see design/C06.md):
     - the arguments: the `double` literal 1.0 and the three `double` fields are converted to `float` at the call
       (f_of_d: correctly rounded binary64 -> binary32 conversion);
     - `float * int`: the int is converted to float (f_of_Z: correctly rounded; exact for |z| <= 2^24), the product
       is a binary32 product;
     - `a + b + c + d` is ((a + b) + c) + d, each sum a binary32 sum.
   The exact model over Q is CV.CellOrder (cell_key, compute_cell_order); this file follows the same lines with
   the binary32 operations of CV.SpreadFloat (fadd, fmul, f_of_Z) and the std::pair order fkey_ltb / the stable
   insertion sort fsort_keys defined there (the same sort as CellOrder.sort_pairs, over float keys).

   NaN / infinities.  Bltb is false whenever an operand is NaN, so a NaN key is "equivalent" to every other key for
   fkey_ltb (the index then decides) although the other keys may be different from each other: std::pair's operator<
   is then NOT a strict weak order and std::stable_sort has undefined behaviour in C++; the insertion sort below still
   returns some permutation (CellOrderFloatProofs.compute_cell_order_f_perm needs no finiteness).  Infinite keys are
   ordered correctly by Bltb but equal to each other.  LegalizationParameters::check accepts NaN for the three
   ordering fields (its comparisons are all false on NaN) and any orderingHeight at all, so non-finite keys are
   reachable in the C++; on the domain of the theorems (order_params_ok, coords_small) every key is FINITE
   (CellOrderFloatProofs.cell_key_f_correct), and everything said about the sort is said there.
   Definitions only; proofs in CellOrderFloatProofs.v. *)
From Coq Require Import List ZArith Bool Reals.
From Flocq Require Import Core BinarySingleNaN.
Import ListNotations.
Require Import CV.Orient CV.FreeSpace CV.RowLeg CV.Circuit CV.Legalizer CV.SpreadFloat.
Local Open Scope Z_scope.

(* (float)x for a double x: correctly rounded narrowing conversion (signed zeros, infinities and NaN kept) *)
Definition f_of_d (x : f64) : f32 :=
  match x with
  | B754_zero s => B754_zero s
  | B754_infinity s => B754_infinity s
  | B754_nan => B754_nan
  | B754_finite s m e _ =>
      @binary_normalize 24 128 p24 p24_128 mode_NE (cond_Zopp s (Zpos m)) e s
  end.

Definition d_one : f64 := @Bone 53 1024 p53 p53_1024.                      (* the literal 1.0 *)
(* (double)n / (double)d : how the harness (harness/order.cpp) builds a parameter from a fraction *)
Definition ddiv : f64 -> f64 -> f64 := @Bdiv 53 1024 p53 p53_1024 mode_NE.
Definition d_of_frac (n d : Z) : f64 := ddiv (d_of_Z n) (d_of_Z d).

(* legalizer.cpp:130-131, the key of one legalizer cell *)
Definition cell_key_f (wx ww wy wh : f32) (c : cell) : f32 :=
  fadd (fadd (fadd (fmul wx (f_of_Z (ctx c))) (fmul ww (f_of_Z (cw c))))
             (fmul wy (f_of_Z (cty c))))
       (fmul wh (f_of_Z (ch c))).

(* sortedCells before the sort *)
Definition keyed_f (wx ww wy wh : f32) (cells : list cell) : list fkey :=
  combine (map (cell_key_f wx ww wy wh) cells) (seq 0 (length cells)).

(* LegalizerBase::computeCellOrder *)
Definition compute_cell_order_f (wx ww wy wh : f32) (cells : list cell) : list nat :=
  map snd (fsort_keys (keyed_f wx ww wy wh cells)).

(* LegalizationParameters: orderingWidth, orderingY, orderingHeight (double fields) *)
Record order_params_d := { opd_w : f64; opd_y : f64; opd_h : f64 }.

(* the order Legalizer::run computes, on the legalizer built by Legalizer::fromIspdCircuit *)
Definition cell_order_f (p : order_params_d) (c : circuit) : list nat :=
  compute_cell_order_f (f_of_d d_one) (f_of_d (opd_w p)) (f_of_d (opd_y p)) (f_of_d (opd_h p)) (leg_cells c).

(* DetailedPlacer::legalize / Circuit::legalize with the binary32 order: closed model, float key *)
Definition legalize_float (p : order_params_d) (c : circuit) : leg_result :=
  legalize_circuit c (cell_order_f p c).

(* ------------------------------------------------------------------ the key over the reals *)
Local Open Scope R_scope.
(* one rnd32 per C++ operator; ww = the float ordering width, t3 = the float product weightY * y,
   t4 = the float product weightHeight * h (both the same for two cells of one row of a row-high design) *)
Definition key_R (ww t3 t4 : R) (x w : Z) : R :=
  rnd32 (rnd32 (rnd32 (IZR x + rnd32 (ww * IZR w)) + t3) + t4).
(* the reference the float key is compared with: the same expression without the four roundings *)
Definition key_ref (ww t3 t4 : R) (x w : Z) : R := IZR x + ww * IZR w + t3 + t4.
(* the bound proved on |key_R - key_ref|: 2^-5 + 2^-4 + 2^-3 + 2^-2 = 15/32 < 1/2 *)
Definition key_eps : R := 15 / 32.

(* the domain of the theorems.  Parameters: finite doubles, 0 <= orderingWidth <= 1 (F10 outside), |orderingY| <= 2
   (LegalizationParameters::check accepts [-0.2, 0.2]), |orderingHeight| <= 4 (check accepts everything: this bound
   is a hypothesis the proof forces, see legalize_float_order_refuted: a tie at orderingHeight = 8) *)
Definition order_params_ok (p : order_params_d) : Prop :=
  is_finite (opd_w p) = true /\ is_finite (opd_y p) = true /\ is_finite (opd_h p) = true /\
  0 <= B2R (opd_w p) <= 1 /\ Rabs (B2R (opd_y p)) <= 2 /\ Rabs (B2R (opd_h p)) <= 4.
Local Close Scope R_scope.

(* coordinates and placed sizes of the movable cells at most 2^20 in magnitude (C11's quantifier: |v| < 2^20) *)
Definition small_cell (c : cell) : Prop :=
  Z.abs (ctx c) <= 2 ^ 20 /\ Z.abs (cty c) <= 2 ^ 20 /\ Z.abs (cw c) <= 2 ^ 20 /\ Z.abs (ch c) <= 2 ^ 20.
Definition coords_small (c : circuit) : Prop :=
  forall k, In k (movable c) -> small_cell (leg_cell_of k).

(* ------------------------------------------------------------------ witnesses (statements in the proof files) *)
(* orderingHeight = 8 with a row 2^20 - 1 high, orderingWidth 1/2, two unit-width cells at x = 10 (index 0) and x = 9
   (index 1): 10.5 + 8388600 and 9.5 + 8388600 are both halfway between two binary32 numbers (ulp 1 from 2^23 on) and
   both round to the even 8388610: the keys TIE, the index decides, the right cell comes first *)
Definition tie_rows : list row := [ {| rr := {| minX := 0; maxX := 16; minY := 0; maxY := 1048575 |}; ro := oN |} ].
Definition tie_cell (x : Z) : ccell :=
  {| c_x := x; c_y := 0; c_w := 1; c_h := 1048575; c_o := oN; c_pol := pANY; c_fixed := false; c_obs := true |}.
Definition w_tie : circuit := {| rows := tie_rows; cells := [tie_cell 10; tie_cell 9] |}.
Definition p_tie : order_params_d := {| opd_w := dhalf; opd_y := d_of_Z 0; opd_h := d_of_Z 8 |}.
(* the default parameters (orderingWidth 0.2 -- not dyadic --, orderingY 0, orderingHeight -1) *)
Definition pd_default : order_params_d :=
  {| opd_w := d_of_frac 1 5; opd_y := d_of_frac 0 1; opd_h := d_of_frac (-1) 1 |}.
