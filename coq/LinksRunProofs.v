(* C05/C02 link: the lemon answers that the closed shift driver of DetailedRun.v consumes are a PREFIX of the recorded
   list, and every consumed answer was accepted by the proved certificate checker (in call order).  DetailedRun.v,
   run_passes_c: "It is not proved that the consumed answers form a prefix of the input list" -- proved here. *)
From Coq Require Import List ZArith Lia Bool.
Import ListNotations.
Require Import CV.Optimiser CV.ShiftLp CV.DetailedInit CV.DetailedValue CV.DetailedRun CV.LinksRun.
Local Open Scope Z_scope.

(* the property of a step on (state, remaining answers): what is left is a suffix, what was taken was accepted *)
Definition consumes {S : Type} (st : S * list shift_answer) (st' : S * list shift_answer) : Prop :=
  exists used, snd st = used ++ snd st' /\ Forall answer_accepted used.

Lemma consumes_refl : forall {S} (a b : S) ans, consumes (a, ans) (b, ans).
Proof. intros. exists []. split; [reflexivity|constructor]. Qed.

Lemma consumes_trans : forall {S} (a b c : S * list shift_answer), consumes a b -> consumes b c -> consumes a c.
Proof.
  intros S a b c (u1 & E1 & F1) (u2 & E2 & F2). exists (u1 ++ u2). split.
  - rewrite E1, E2. apply app_assoc.
  - apply Forall_app. split; assumption.
Qed.

Lemma shift_on_cells_consumes : forall st sel st', shift_on_cells st sel = ROk st' -> consumes st st'.
Proof.
  intros [s ans] sel st' H. unfold shift_on_cells in H. destruct ans as [|a rest]; [discriminate|].
  destruct (list_nat_eqb sel (sa_cells a)) eqn:El; cbn [negb] in H; [|discriminate].
  destruct (match_flows _ (sa_flows a)) as [f|] eqn:Ef; [|discriminate].
  destruct (shift_cert_ok _ (sa_pi a) f) eqn:Ec; [|discriminate].
  inversion H; subst st'. exists [a]. cbn [snd]. split; [reflexivity|].
  constructor; [|constructor]. exists s, sel. split; [exact El|]. exists f. split; assumption.
Qed.

Lemma rfold_consumes : forall {A S} (f : S * list shift_answer -> A -> rres (S * list shift_answer)),
  (forall st a st', f st a = ROk st' -> consumes st st') ->
  forall l st st', rfold f l st = ROk st' -> consumes st st'.
Proof.
  intros A S f Hf. induction l as [|a t IH]; intros st st' H; cbn [rfold] in H.
  - inversion H; subst. destruct st' as [s ans]. apply consumes_refl.
  - destruct (f st a) as [st1|] eqn:E; cbn [rbind] in H; [|discriminate].
    eapply consumes_trans; [eapply Hf; exact E|apply IH; exact H].
Qed.

Lemma run_shifts_on_rows_consumes : forall st rows mx st', run_shifts_on_rows st rows mx = ROk st' -> consumes st st'.
Proof.
  intros st rows mx st' H. unfold run_shifts_on_rows in H.
  destruct (rows_cells (ps_d (fst st)) rows) as [|c0 cs].
  - inversion H; subst. destruct st'. apply consumes_refl.
  - destruct (_ <=? 0); [discriminate|].
    eapply rfold_consumes; [|exact H]. intros; eapply shift_on_cells_consumes; eassumption.
Qed.

Lemma run_shifts_consumes : forall st nbRows mx st', run_shifts st nbRows mx = ROk st' -> consumes st st'.
Proof.
  intros st nbRows mx st' H. unfold run_shifts in H. destruct (nbRows <? 2).
  - inversion H; subst. destruct st'. apply consumes_refl.
  - eapply rfold_consumes; [|exact H]. cbv beta. intros; eapply run_shifts_on_rows_consumes; eassumption.
Qed.

(* on triples (state, exposures, answers) *)
Definition consumes3 (a b : pstate * list pstate * list shift_answer) : Prop :=
  exists used, snd a = used ++ snd b /\ Forall answer_accepted used.

Lemma run_pass_c_consumes : forall p acc acc', run_pass_c p acc = ROk acc' -> consumes3 acc acc'.
Proof.
  intros p [[s ex] ans] acc' H. unfold run_pass_c in H.
  destruct (run_swaps s _ _) as [s1|] eqn:E1; cbn [rbind] in H; [|discriminate].
  destruct (2 <=? dp_shiftMaxNbCells p).
  - destruct (run_shifts (s1, ans) _ _) as [[s2 ans2]|] eqn:E2; cbn [rbind fst snd] in H; [|discriminate].
    destruct (run_shifts_consumes _ _ _ _ E2) as (used & Eu & Fu). cbn [snd] in Eu.
    destruct (2 <=? dp_reorderingMaxNbCells p).
    + destruct (run_reordering s2 _ _) as [s3|]; cbn [rbind] in H; [|discriminate].
      inversion H; subst acc'. exists used. split; assumption.
    + inversion H; subst acc'. exists used. split; assumption.
  - cbn [rbind] in H. destruct (2 <=? dp_reorderingMaxNbCells p).
    + destruct (run_reordering s1 _ _) as [s3|]; cbn [rbind] in H; [|discriminate].
      inversion H; subst acc'. exists []. split; [reflexivity|constructor].
    + inversion H; subst acc'. exists []. split; [reflexivity|constructor].
Qed.

Lemma run_passes_c_from_consumes : forall n p acc acc', run_passes_c_from n p acc = ROk acc' -> consumes3 acc acc'.
Proof.
  induction n as [|n IH]; intros p acc acc' H; cbn [run_passes_c_from] in H.
  - inversion H; subst. exists []. split; [reflexivity|constructor].
  - destruct (run_pass_c p acc) as [acc1|] eqn:E; cbn [rbind] in H; [|discriminate].
    destruct (run_pass_c_consumes _ _ _ E) as (u1 & E1 & F1). destruct (IH _ _ _ H) as (u2 & E2 & F2).
    exists (u1 ++ u2). split; [rewrite E1, E2; apply app_assoc|apply Forall_app; split; assumption].
Qed.

(* [F] the statement asked for *)
Theorem run_passes_c_prefix : forall p answers s s' ex rest,
  run_passes_c p answers s = ROk (s', ex, rest) ->
  exists used, answers = used ++ rest /\ Forall answer_accepted used.
Proof.
  intros p answers s s' ex rest H. unfold run_passes_c in H.
  destruct (run_passes_c_from _ p (s, [], answers)) as [[[s1 ex1] rest1]|] eqn:E; [|discriminate].
  inversion H; subst. exact (run_passes_c_from_consumes _ _ _ _ E).
Qed.

(* hence "no records left over" (what the tie requires) means that EVERY recorded answer was consumed and accepted *)
Corollary run_passes_c_all_accepted : forall p answers s s' ex,
  run_passes_c p answers s = ROk (s', ex, []) -> Forall answer_accepted answers.
Proof.
  intros p answers s s' ex H. destruct (run_passes_c_prefix _ _ _ _ _ _ H) as (used & E & F).
  rewrite app_nil_r in E. subst. exact F.
Qed.

Theorem place_detailed_model_c_prefix : forall c nets p answers c' ex rest,
  place_detailed_model_c c nets p answers = ROk (c', ex, rest) ->
  exists used, answers = used ++ rest /\ Forall answer_accepted used.
Proof.
  intros c nets p answers c' ex rest H. unfold place_detailed_model_c in H.
  destruct (DetailedInit.from_circuit c) as [d0|]; [|discriminate].
  destruct (run_passes_c p answers _) as [[[s ex1] rest1]|] eqn:E; [|discriminate].
  inversion H; subst. exact (run_passes_c_prefix _ _ _ _ _ _ E).
Qed.
