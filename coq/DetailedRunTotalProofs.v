(* C02 / C05 / C04 -- the closed passes RETURN and are histories of accepted steps:
   run_swaps_total, run_reordering_total, run_passes_total (refinement + fuel_suffices + no throw, together). *)
From Coq Require Import List ZArith Lia Bool Arith Permutation.
Import ListNotations.
Require Import CV.Orient CV.FreeSpace CV.Circuit CV.Hpwl CV.HpwlProofs CV.Moves CV.MovesProofs CV.MovesOrientProofs.
Require Import CV.Optimiser CV.OptimiserProofs CV.ShiftLp CV.ShiftLpProofs.
Require Import CV.LegalizerSoundProofs CV.DetailedInit CV.DetailedInitProofs CV.DetailedExport CV.DetailedExportProofs.
Require Import CV.DetailedValue CV.DetailedValueProofs CV.DetailedValueStepProofs.
Require Import CV.RowNeigh CV.RowNeighProofs CV.Reorder CV.ReorderGeomProofs CV.ReorderProofs.
Require Import CV.DetailedRun CV.DetailedRunProofs CV.DetailedRunStructProofs CV.DetailedRunTermProofs.
Local Open Scope Z_scope.

(* ---------- the cell list of a set of rows, the windows ---------- *)
Lemma in_row_place d r x : In x (row_ids d r) ->
  exists rw a p b, nth_error (d_rows d) r = Some rw /\ dr_cells rw = a ++ p :: b /\ p_id p = x.
Proof.
  unfold row_ids. destruct (nth_error (d_rows d) r) as [rw|]; [|intros []]. intros H.
  apply in_map_iff in H as (p & E & Hp). apply in_split in Hp as (a & b & Hc). exists rw, a, p, b. tauto.
Qed.

Lemma in_two_rows d r r' x : NoDup (map p_id (cells_of d)) -> In x (row_ids d r) -> In x (row_ids d r') -> r = r'.
Proof.
  intros ND H1 H2. destruct (in_row_place d r x H1) as (rw & a & p & b & N & C & E).
  destruct (in_row_place d r' x H2) as (rw' & a' & p' & b' & N' & C' & E').
  pose proof (find_row_at (d_rows d) 0 r rw a p b (nodup_rows d ND) N C) as F.
  pose proof (find_row_at (d_rows d) 0 r' rw' a' p' b' (nodup_rows d ND) N' C') as F'.
  rewrite E in F. rewrite E' in F'. rewrite F in F'. injection F' as -> _ _ _ _. reflexivity.
Qed.

Lemma row_ids_nodup d r : NoDup (map p_id (cells_of d)) -> NoDup (row_ids d r).
Proof.
  intros ND. unfold row_ids. destruct (nth_error (d_rows d) r) as [rw|] eqn:N; [|constructor].
  exact (row_nodup d r rw ND N).
Qed.

Lemma flat_rows_nodup d : NoDup (map p_id (cells_of d)) -> forall rows, NoDup rows -> NoDup (flat_map (row_ids d) rows).
Proof.
  intros ND. induction rows as [|r t IH]; intros Hn; cbn [flat_map]; [constructor|].
  inversion Hn as [|? ? Hr Ht]; subst. apply NoDup_app_intro; [apply row_ids_nodup; exact ND|exact (IH Ht)|].
  intros x H1 H2. apply in_flat_map in H2 as (r' & Hr' & H2). apply Hr.
  rewrite (in_two_rows d r r' x ND H1 H2). exact Hr'.
Qed.

Lemma rows_cells_perm d rows : Permutation (rows_cells d rows) (flat_map (row_ids d) rows).
Proof.
  unfold rows_cells. eapply Permutation_trans; [apply Permutation_map, isort_perm|].
  induction rows as [|r t IH]; cbn [flat_map]; [constructor|]. rewrite map_app. apply Permutation_app; [|exact IH].
  unfold row_ids. destruct (nth_error (d_rows d) r) as [rw|]; [|constructor]. rewrite map_map. cbn [snd]. apply Permutation_refl.
Qed.

Lemma rows_cells_nodup d rows : NoDup (map p_id (cells_of d)) -> NoDup rows -> NoDup (rows_cells d rows).
Proof.
  intros ND Hn. eapply Permutation_NoDup; [apply Permutation_sym, rows_cells_perm|]. exact (flat_rows_nodup d ND rows Hn).
Qed.

Lemma rows_cells_held d rows x : In x (rows_cells d rows) -> held d x = true.
Proof.
  intros H. apply (Permutation_in _ (rows_cells_perm d rows)) in H. apply in_flat_map in H as (r & _ & H).
  exact (in_row_held d r x H).
Qed.

Lemma windows_in size_w step : forall l skip w, In w (windows size_w step l skip) -> exists n, w = firstn size_w (skipn n l).
Proof.
  induction l as [|x t IH]; intros skip w; cbn [windows]; [intros []|].
  destruct skip as [|k].
  - intros [<-|H]; [exists O; reflexivity|]. destruct (IH _ _ H) as (n & ->). exists (S n). reflexivity.
  - intros H. destruct (IH _ _ H) as (n & ->). exists (S n). reflexivity.
Qed.

Lemma window_sub size_w step l skip w : In w (windows size_w step l skip) -> NoDup l -> NoDup w /\ forall x, In x w -> In x l.
Proof.
  intros H ND. destruct (windows_in _ _ _ _ _ H) as (n & ->). split.
  - apply NoDup_firstn. rewrite <- (firstn_skipn n l) in ND. apply NoDup_app_elim in ND as (_ & H2 & _). exact H2.
  - intros x Hx.
    rewrite <- (firstn_skipn n l). apply in_or_app. right.
    rewrite <- (firstn_skipn size_w (skipn n l)). apply in_or_app. left. exact Hx.
Qed.

Ltac Zify.zify_post_hook ::= Z.div_mod_to_equations.

Section Total.
  Variables (c : circuit) (rh : Z) (nets : list (list hpin)).
  Hypothesis SD : std_design c rh.
  (* an additional property of states kept by every bestSwap and by every closed reordering of a window
     (True, or the orientation invariant OInvM for C04) *)
  Variable J : pstate -> Prop.
  Hypothesis JB : forall s cc cands, J s -> J (pbest s (swap_cands cc cands)).
  Hypothesis JR : forall s w s' n, PInv c rh nets s -> J s -> NoDup w -> (forall x, In x w -> held (ps_d s) x = true) ->
                    Reorder.run s w = Some (s', n) -> J s'.

  Definition returns (f : pstate -> rres pstate) (s : pstate) : Prop := exists s', f s = ROk s' /\ steps_to s s' /\ J s'.

  (* a fold of operations that return and are histories returns and is a history *)
  Lemma rfold_total {A} (f : pstate -> A -> rres pstate) (P : A -> Prop) :
    (forall s a, P a -> PInv c rh nets s -> J s -> returns (fun s => f s a) s) ->
    forall l s, Forall P l -> PInv c rh nets s -> J s -> returns (rfold f l) s.
  Proof.
    intros Hf. induction l as [|a t IH]; intros s HP HI HJ; unfold returns; cbn [rfold].
    - exists s. split; [reflexivity|]. split; [apply steps_refl|exact HJ].
    - inversion HP as [|? ? Pa Pt]; subst. destruct (Hf s a Pa HI HJ) as (s1 & -> & S1 & J1). cbn [rbind].
      destruct (steps_inv c rh nets s s1 SD HI S1) as [HI1 _].
      destruct (IH s1 Pt HI1 J1) as (s' & -> & S2 & J2). exists s'. split; [reflexivity|]. split; [exact (steps_trans _ _ _ S1 S2)|exact J2].
  Qed.

  Lemma rfold_total_all {A} (f : pstate -> A -> rres pstate) :
    (forall s a, PInv c rh nets s -> J s -> returns (fun s => f s a) s) ->
    forall l s, PInv c rh nets s -> J s -> returns (rfold f l) s.
  Proof.
    intros Hf l s HI HJ. apply (rfold_total f (fun _ => True)); [intros s0 a _; apply Hf| |exact HI|exact HJ].
    apply Forall_forall. intros; exact I.
  Qed.

  Lemma rbind_total (f g : pstate -> rres pstate) s :
    (forall s, PInv c rh nets s -> J s -> returns f s) -> (forall s, PInv c rh nets s -> J s -> returns g s) ->
    PInv c rh nets s -> J s -> returns (fun s => rbind (f s) g) s.
  Proof.
    intros Hf Hg HI HJ. destruct (Hf s HI HJ) as (s1 & E1 & S1 & J1). unfold returns. rewrite E1. cbn [rbind].
    destruct (steps_inv c rh nets s s1 SD HI S1) as [HI1 _]. destruct (Hg s1 HI1 J1) as (s2 & -> & S2 & J2).
    exists s2. split; [reflexivity|]. split; [exact (steps_trans _ _ _ S1 S2)|exact J2].
  Qed.

  (* ---------- runSwaps ---------- *)
  Lemma one_row_total s row nb : 0 <= nb -> J s -> returns (fun s => run_swaps_one_row s row nb) s.
  Proof.
    intros Hnb HJ. unfold returns. destruct (run_swaps_one_row s row nb) as [s'|e] eqn:E.
    - exists s'. split; [reflexivity|]. split; [exact (run_swaps_one_row_steps s row nb s' E)|exact (run_swaps_one_row_keeps J JB s row nb s' E HJ)].
    - exfalso. revert E. unfold run_swaps_one_row. destruct (row_ids (ps_d s) row); [discriminate|].
      destruct (Z.ltb_spec nb 0); [lia|discriminate].
  Qed.

  Lemma amplify_total_steps s r1 r2 nb : PInv c rh nets s -> J s -> returns (fun s => run_swaps_two_rows_amplify s r1 r2 nb) s.
  Proof.
    intros HI HJ. destruct (amplify_total c rh nets SD s r1 r2 nb HI) as (s' & E). exists s'. split; [exact E|].
    split; [exact (amplify_steps s r1 r2 nb s' E)|exact (amplify_keeps J JB s r1 r2 nb s' E HJ)].
  Qed.

  Lemma amplify_all_total nb i js s : PInv c rh nets s -> J s -> returns (fun s => amplify_all nb i s js) s.
  Proof. intros HI HJ. unfold amplify_all. apply rfold_total_all; [|exact HI|exact HJ]. intros s0 j H0 J0. apply amplify_total_steps; assumption. Qed.

  Theorem run_swaps_returns s nbRows nbNeighbours : PInv c rh nets s -> J s -> 0 <= nbNeighbours ->
    returns (fun s => run_swaps s nbRows nbNeighbours) s.
  Proof.
    intros HI HJ Hnb. unfold run_swaps.
    set (n := length (d_rows (ps_d s))). set (rects := rects_of (ps_d s)).
    apply (rbind_total (fun s => rfold (fun st i => run_swaps_one_row st i nbNeighbours) (seq 0 n) s)); [| |exact HI|exact HJ].
    - intros s0 H0 J0. apply rfold_total_all; [|exact H0|exact J0]. intros s1 i _ J1. apply one_row_total; assumption.
    - intros s1 H1 J1. apply (rbind_total (fun s => rfold _ (seq 0 n) s)); [| |exact H1|exact J1].
      + intros s0 H0 J0. apply rfold_total_all; [|exact H0|exact J0]. intros s2 i H2 J2.
        apply (rbind_total (fun st => amplify_all nbNeighbours i st (rows_above rects nbRows i))
                           (fun st' => amplify_all nbNeighbours i st' (rows_right rects nbRows i))); [| |exact H2|exact J2];
          intros s3 H3 J3; apply amplify_all_total; assumption.
      + intros s0 H0 J0. apply rfold_total_all; [|exact H0|exact J0]. intros s2 i H2 J2.
        apply (rbind_total (fun st => amplify_all nbNeighbours i st (rows_below rects nbRows i))
                           (fun st' => amplify_all nbNeighbours i st' (rows_left rects nbRows i))); [| |exact H2|exact J2];
          intros s3 H3 J3; apply amplify_all_total; assumption.
  Qed.

  (* ---------- runReordering ---------- *)
  Definition window_ok (w : list nat) : Prop := NoDup w /\ forall x, In x w -> exists k, nth_error (cells c) x = Some k /\ kept rh k.

  Lemma reorder_window_total s w : window_ok w -> PInv c rh nets s -> J s -> returns (fun s => reorder_window s w) s.
  Proof.
    intros [NDw Hw] HI HJ.
    assert (Hh : forall x, In x w -> held (ps_d s) x = true) by (intros x Hx; apply (held_kept c rh nets s x SD HI); exact (Hw x Hx)).
    destruct (run_is_preorder c rh nets s w HI NDw Hh) as (rgs & _ & Hok & Hrun). cbn zeta in Hok, Hrun.
    unfold returns, reorder_window. rewrite Hrun. eexists. split; [reflexivity|].
    split; [exact (steps_one s (PReorder _ _) Hok)|exact (JR s w _ _ HI HJ NDw Hh Hrun)].
  Qed.

  Lemma on_rows_total s rows m : PInv c rh nets s -> J s -> NoDup rows -> 2 <= m -> returns (fun s => run_reordering_on_rows s rows m) s.
  Proof.
    intros HI HJ Hn Hm. unfold returns, run_reordering_on_rows.
    pose proof HI as (_ & _ & _ & ND & _).
    pose proof (rows_cells_nodup (ps_d s) rows ND Hn) as NDc.
    assert (Hk : forall x, In x (rows_cells (ps_d s) rows) -> exists k, nth_error (cells c) x = Some k /\ kept rh k).
    { intros x Hx. apply (held_kept c rh nets s x SD HI). exact (rows_cells_held _ _ _ Hx). }
    destruct (rows_cells (ps_d s) rows) as [|x0 t0] eqn:E; [exists s; split; [reflexivity|split; [apply steps_refl|exact HJ]]|].
    assert (Hstep : (m - Z.min (Z.quot m 2) 10 <=? 0) = false).
    { apply Z.leb_gt. rewrite Z.quot_div_nonneg by lia. lia. }
    rewrite Hstep. apply (rfold_total reorder_window window_ok); [intros s0 w Hw H0 J0; exact (reorder_window_total s0 w Hw H0 J0)| |exact HI|exact HJ].
    apply Forall_forall. intros w Hw. destruct (window_sub _ _ _ _ _ Hw NDc) as [N1 N2]. split; [exact N1|].
    intros x Hx. apply Hk. exact (N2 x Hx).
  Qed.

  Theorem run_reordering_returns s maxNbRows maxNbCells : PInv c rh nets s -> J s ->
    returns (fun s => run_reordering s maxNbRows maxNbCells) s.
  Proof.
    intros HI HJ. unfold returns, run_reordering.
    destruct (Z.ltb_spec maxNbCells 2) as [|Hm]; [exists s; split; [reflexivity|split; [apply steps_refl|exact HJ]]|].
    apply rfold_total_all; [|exact HI|exact HJ]. intros s0 row H0 J0. apply on_rows_total; [exact H0|exact J0| |exact Hm].
    constructor; [|apply above_NoDup]. intros Hin. destruct (above_safe _ _ _ _ Hin) as (_ & _ & Hne & _). apply Hne. reflexivity.
  Qed.
End Total.

(* ---------- DetailedPlacer::run() ---------- *)
(* s, then the exposed states in order, then s': each reached from the previous one by accepted steps *)
Fixpoint chain (s : pstate) (l : list pstate) (s' : pstate) : Prop :=
  match l with [] => steps_to s s' | e :: t => steps_to s e /\ chain e t s' end.

Lemma chain_snoc l : forall s s1 e, chain s l s1 -> steps_to s1 e -> chain s (l ++ [e]) e.
Proof.
  induction l as [|x t IH]; intros s s1 e; cbn [chain app].
  - intros H1 H2. split; [exact (steps_trans _ _ _ H1 H2)|apply steps_refl].
  - intros [H1 H2] H3. split; [exact H1|exact (IH _ _ _ H2 H3)].
Qed.

Lemma chain_end l : forall s s', chain s l s' -> steps_to s s'.
Proof.
  induction l as [|e t IH]; intros s s'; cbn [chain]; [tauto|]. intros [H1 H2]. exact (steps_trans _ _ _ H1 (IH _ _ H2)).
Qed.

(* every exposed state lies between the start and the end *)
Lemma chain_in l : forall s s' e, chain s l s' -> In e l -> steps_to s e /\ steps_to e s'.
Proof.
  induction l as [|x t IH]; intros s s' e; cbn [chain In]; [tauto|]. intros [H1 H2] [<-|Hin].
  - split; [exact H1|exact (chain_end _ _ _ H2)].
  - destruct (IH _ _ _ H2 Hin) as [A B]. split; [exact (steps_trans _ _ _ H1 A)|exact B].
Qed.

(* two exposed states, the earlier one first *)
Lemma chain_order l1 e1 l2 e2 l3 : forall s s', chain s (l1 ++ e1 :: l2 ++ e2 :: l3) s' -> steps_to e1 e2.
Proof.
  induction l1 as [|x t IH]; intros s s'; cbn [app chain].
  - intros [_ H]. apply (chain_in _ _ _ e2 H). apply in_or_app. right. left. reflexivity.
  - intros [_ H]. exact (IH _ _ H).
Qed.

(* the oracle of the shift pass: in every pass, the recorded calls are accepted steps (cells in rows, certificate
   accepted: DetailedValue.pstep_ok) at the state the swap pass left *)
Definition pass_oracle_ok (p : dparams) (calls : list shift_call) (s : pstate) : Prop :=
  forall s1, run_swaps s (dp_localSearchNbNeighbours p) (dp_localSearchNbRows p) = ROk s1 ->
             2 <= dp_shiftMaxNbCells p -> phist_ok s1 (shift_steps calls).
Fixpoint oracle_ok (n : nat) (p : dparams) (shifts : list (list shift_call)) (s : pstate) : Prop :=
  match n with
  | O => True
  | S n' => pass_oracle_ok p (hd [] shifts) s /\
            forall ex s' ex', run_pass p (hd [] shifts) (s, ex) = ROk (s', ex') -> oracle_ok n' p (tl shifts) s'
  end.

Lemma oracle_ok_nil n p : forall s, oracle_ok n p [] s.
Proof. induction n as [|n IH]; intros s; cbn [oracle_ok hd tl]; [exact I|]. split; [intros s1 _ _; exact I|intros; apply IH]. Qed.

Lemma oracle_ok_noshift n p : dp_shiftMaxNbCells p < 2 -> forall shifts s, oracle_ok n p shifts s.
Proof.
  intros H. induction n as [|n IH]; intros shifts s; cbn [oracle_ok]; [exact I|].
  split; [intros s1 _ H2; lia|intros; apply IH].
Qed.

Section Passes.
  Variables (c : circuit) (rh : Z) (nets : list (list hpin)).
  Hypothesis SD : std_design c rh.
  Variable J : pstate -> Prop.
  Hypothesis JB : forall s cc cands, J s -> J (pbest s (swap_cands cc cands)).
  Hypothesis JR : forall s w s' n, PInv c rh nets s -> J s -> NoDup w -> (forall x, In x w -> held (ps_d s) x = true) ->
                    Reorder.run s w = Some (s', n) -> J s'.
  Hypothesis JS : forall s sel pi, J s -> J (pshift s sel pi).

  Lemma shifts_keep calls : forall s, J s -> J (run_shifts_oracle s calls).
  Proof.
    unfold run_shifts_oracle, psteps_run. induction calls as [|[[sel pi] f] t IH]; intros s H; cbn [shift_steps map fold_left]; [exact H|].
    apply IH. cbn [pstep_run]. apply JS, H.
  Qed.

  Definition acc_ok (s0 : pstate) (acc : pstate * list pstate) : Prop :=
    PInv c rh nets (fst acc) /\ J (fst acc) /\ chain s0 (rev (snd acc)) (fst acc) /\ Forall J (snd acc).

  Lemma run_pass_total p calls s0 s ex : params_ok p = true -> acc_ok s0 (s, ex) -> pass_oracle_ok p calls s ->
    exists acc', run_pass p calls (s, ex) = ROk acc' /\ acc_ok s0 acc'.
  Proof.
    intros Hp (HI & HJ & Hc & HF) Ho. cbn [fst snd] in *. unfold params_ok in Hp. repeat (apply andb_prop in Hp as [Hp ?]).
    unfold run_pass.
    destruct (run_swaps_returns c rh nets SD J JB JR s (dp_localSearchNbNeighbours p) (dp_localSearchNbRows p) HI HJ) as (s1 & E1 & S1 & J1); [lia|].
    rewrite E1. cbn [rbind]. destruct (steps_inv c rh nets s s1 SD HI S1) as [HI1 _].
    pose proof (chain_snoc _ _ _ s1 Hc S1) as C1. change (rev ex ++ [s1]) with (rev (s1 :: ex)) in C1.
    assert (Sh : exists acc2, (if 2 <=? dp_shiftMaxNbCells p then (run_shifts_oracle s1 calls, run_shifts_oracle s1 calls :: s1 :: ex) else (s1, s1 :: ex)) = acc2 /\
                   acc_ok s0 acc2).
    { destruct (Z.leb_spec 2 (dp_shiftMaxNbCells p)) as [Hs2|Hs2].
      - pose proof (steps_hist s1 _ (Ho s1 E1 Hs2)) as S2. fold (run_shifts_oracle s1 calls) in S2.
        eexists. split; [reflexivity|]. unfold acc_ok. cbn [fst snd rev].
        split; [exact (proj1 (steps_inv c rh nets s1 _ SD HI1 S2))|]. split; [exact (shifts_keep calls s1 J1)|].
        split; [exact (chain_snoc _ _ _ _ C1 S2)|]. constructor; [exact (shifts_keep calls s1 J1)|]. constructor; assumption.
      - eexists. split; [reflexivity|]. unfold acc_ok. cbn [fst snd]. split; [exact HI1|]. split; [exact J1|]. split; [exact C1|].
        constructor; assumption. }
    destruct Sh as ([s2 ex2] & -> & HI2 & J2 & C2 & F2). cbn [fst snd] in *.
    destruct (Z.leb_spec 2 (dp_reorderingMaxNbCells p)) as [Hr3|Hr3].
    - destruct (run_reordering_returns c rh nets SD J JB JR s2 (dp_reorderingNbRows p) (dp_reorderingMaxNbCells p) HI2 J2) as (s3 & -> & S3 & J3).
      cbn [rbind]. eexists. split; [reflexivity|]. unfold acc_ok. cbn [fst snd rev].
      split; [exact (proj1 (steps_inv c rh nets s2 _ SD HI2 S3))|]. split; [exact J3|].
      split; [exact (chain_snoc _ _ _ _ C2 S3)|]. constructor; assumption.
    - eexists. split; [reflexivity|]. unfold acc_ok. cbn [fst snd]. tauto.
  Qed.

  Lemma run_passes_from_total p : params_ok p = true -> forall n shifts s0 acc,
    acc_ok s0 acc -> oracle_ok n p shifts (fst acc) ->
    exists acc', run_passes_from n p shifts acc = ROk acc' /\ acc_ok s0 acc'.
  Proof.
    intros Hp. induction n as [|n IH]; intros shifts s0 [s ex] HA Ho; cbn [run_passes_from].
    - exists (s, ex). split; [reflexivity|exact HA].
    - destruct Ho as [Ho1 Ho2]. cbn [fst] in Ho1, Ho2.
      destruct (run_pass_total p (hd [] shifts) s0 s ex Hp HA Ho1) as ([s1 ex1] & E & HA1).
      rewrite E. cbn [rbind]. exact (IH (tl shifts) s0 (s1, ex1) HA1 (Ho2 ex s1 ex1 E)).
  Qed.

  (* MAIN: run() returns; the exposed states and the final state form a chain of accepted histories *)
  Theorem run_passes_returns p shifts s : params_ok p = true -> PInv c rh nets s -> J s ->
    oracle_ok (Z.to_nat (dp_nbPasses p)) p shifts s ->
    exists s' ex, run_passes p shifts s = ROk (s', ex) /\ chain s ex s' /\ PInv c rh nets s' /\ J s' /\ Forall J ex.
  Proof.
    intros Hp HI HJ Ho. unfold run_passes.
    destruct (run_passes_from_total p Hp _ shifts s (s, []) (conj HI (conj HJ (conj (steps_refl s) (Forall_nil J)))) Ho)
      as ([s' ex'] & -> & HI' & J' & C' & F'). cbn [fst snd] in *.
    exists s', (rev ex'). split; [reflexivity|]. split; [exact C'|]. split; [exact HI'|]. split; [exact J'|].
    apply Forall_rev. exact F'.
  Qed.
End Passes.
