(* Review gap (C14 memory clause, review_C11-C15.md): machine-level (option-valued) versions of the parts of
   transportation_1d.cpp that Transp1d.v reads through `nth`/`zn` defaults:
     - Transportation1dSorter constructor (cpp:12-58): s[i], u[i], d[i], v[i], snkSort[k-1], snkSort[k],
       snkSort[k].second, the write idleSink[i];
     - Transportation1dSorter::convert (cpp:60-77): pb.u[i], pb.s[i], pb.v[i], pb.d[i];
     - Transportation1dSolver::flushPositions (cpp:184-191): S[p.size()], p[i] read and write, and
       totalDemand() (cpp:155-161): d[i].
   Every read is `nth_error`, every write `upd`; `None` = an access outside the vector (or a size_t
   underflow of `--k`).  Definitions only; ReviewGaps2C14Mem.v proves that None never happens and that the
   results are those of the default-valued model.  NOT covered here: run()/push() (the sweep). *)
From Coq Require Import List ZArith Bool.
Import ListNotations.
Require Import CV.Transp1d.
Local Open Scope Z_scope.

(* cpp:18-22 / 26-30: `for i < u.size(): if (s[i] > 0) srcSort.emplace_back(u[i], i)` *)
Fixpoint pairs_loop (pos amt : list Z) (is_ : list nat) : option (list (Z * nat)) :=
  match is_ with
  | [] => Some []
  | i :: r =>
    match nth_error amt i with
    | None => None
    | Some a =>
      match (if 0 <? a then match nth_error pos i with Some p => Some [(p, i)] | None => None end
             else Some []) with
      | None => None
      | Some hd => match pairs_loop pos amt r with Some t => Some (hd ++ t) | None => None end
      end
    end
  end.
Definition pos_pairs_m (pos amt : list Z) : option (list (Z * nat)) :=
  pairs_loop pos amt (seq 0 (length pos)).

(* cpp:49-56, with the C++ short-circuit evaluation:
   `if (k == size || (k > 0 && u[i] - snkSort[k-1].first <= snkSort[k].first - u[i])) --k;`
   then `snkSort[k].second` *)
Definition idle_pick_m (snkSort : list (Z * nat)) (ui : Z) : option nat :=
  let k := lower_bound_pairs snkSort ui in
  let k' :=
    if Nat.eqb k (length snkSort) then
      match k with O => None (* size_t underflow of --k *) | S k1 => Some k1 end
    else if Nat.ltb 0 k then
      match nth_error snkSort (k - 1), nth_error snkSort k with
      | Some a, Some b => Some (if ui - fst a <=? fst b - ui then (k - 1)%nat else k)
      | _, _ => None
      end
    else Some k in
  match k' with
  | None => None
  | Some k'' => match nth_error snkSort k'' with Some c => Some (snd c) | None => None end
  end.

(* cpp:44-57: the loop over the sources; `ret` is idleSink *)
Fixpoint idle_loop (snkSort : list (Z * nat)) (us ss_ : list Z) (is_ : list nat) (ret : list nat)
  : option (list nat) :=
  match is_ with
  | [] => Some ret
  | i :: r =>
    match nth_error ss_ i with
    | None => None
    | Some si =>
      if (0 <? si) || Nat.eqb (length snkSort) 0 then idle_loop snkSort us ss_ r ret
      else
        match nth_error us i with
        | None => None
        | Some ui =>
          match idle_pick_m snkSort ui with
          | None => None
          | Some t => match upd ret i t with
                      | None => None
                      | Some ret' => idle_loop snkSort us ss_ r ret'
                      end
          end
        end
    end
  end.

Definition mk_sorter_m (pb : prob) : option sorter :=
  match pos_pairs_m (pb_u pb) (pb_s pb), pos_pairs_m (pb_v pb) (pb_d pb) with
  | Some sp, Some kp =>
    let srcSort := sort_pairs sp in
    let snkSort := sort_pairs kp in
    match idle_loop snkSort (pb_u pb) (pb_s pb) (seq 0 (length (pb_u pb))) (repeat O (length (pb_u pb))) with
    | Some idle => Some {| srcOrder := map snd srcSort; snkOrder := map snd snkSort; idleSink := idle |}
    | None => None
    end
  | _, _ => None
  end.

(* cpp:66-73: `for (int i : srcOrder) { su.push_back(pb.u[i]); ss.push_back(pb.s[i]); }` *)
Fixpoint gather_m (l : list Z) (order : list nat) : option (list Z) :=
  match order with
  | [] => Some []
  | i :: r => match nth_error l i, gather_m l r with
              | Some x, Some t => Some (x :: t)
              | _, _ => None
              end
  end.
Definition convert_m (so : sorter) (pb : prob) : option sprob :=
  match gather_m (pb_u pb) (srcOrder so), gather_m (pb_s pb) (srcOrder so),
        gather_m (pb_v pb) (snkOrder so), gather_m (pb_d pb) (snkOrder so) with
  | Some su', Some ss', Some sv', Some sd' =>
    Some {| su := su'; sv := sv'; ss := ss'; sd := sd'; sS := psums 0 ss'; sD := psums 0 sd' |}
  | _, _, _, _ => None
  end.

(* flushPositions cpp:184-191: `maxPos = totalDemand() - S[p.size()]`;
   `for (i = p.size()-1; i >= 0; --i) { maxPos = min(p[i], maxPos); p[i] = maxPos; }`
   is_ = the indices in the order of the loop (descending) *)
Fixpoint flush_loop (is_ : list nat) (mx : Z) (p : list Z) : option (list Z) :=
  match is_ with
  | [] => Some p
  | i :: r =>
    match nth_error p i with
    | None => None
    | Some x => match upd p i (Z.min x mx) with
                | None => None
                | Some p' => flush_loop r (Z.min x mx) p'
                end
    end
  end.
(* totalDemand(): `for i < nbSinks(): ret += d[i]` with nbSinks() = v.size() *)
Fixpoint total_loop (d : list Z) (is_ : list nat) (acc : Z) : option Z :=
  match is_ with
  | [] => Some acc
  | i :: r => match nth_error d i with Some x => total_loop d r (acc + x) | None => None end
  end.
Definition flush_m (P : sprob) (p : list Z) : option (list Z) :=
  match total_loop (sd P) (seq 0 (n_snk P)) 0, nth_error (sS P) (length p) with
  | Some td, Some Sn => flush_loop (rev (seq 0 (length p))) (td - Sn) p
  | _, _ => None
  end.
