(* C05 / C02 -- the row-reordering pass of detailed placement, ENUMERATION INCLUDED.  Definitions only
   (proofs: ReorderGeomProofs.v, ReorderProofs.v).

   Model of  struct ReorderingRegion, class RowReordering  and  DetailedPlacer::runReorderingOnCells
   (src/place_detailed/place_detailed.cpp 606-823, 883-887) over the paired state of DetailedValue.v
   (row structure Moves.dstate + the two incremental net models Optimiser.ostate):

     regions_of          addCells + addRow (:687-728): one region per maximal run of window cells in a row, in
                         the order in which the FIRST cell of the run appears in the window argument; its
                         bounds are boundaryAfter(row, cellPred) / boundaryBefore(row, cellNext), that is
                         (detailed_placement.cpp 270-300): minPos = the x of the FIRST cell of the run (the row's
                         minX when the run starts the row), maxPos = the END of the LAST cell of the run (the
                         row's maxX when the run ends the row) -- the span the run occupies now, NOT the whole
                         free interval between cellPred and cellNext
     sort_asc            run() sorts cells_ with std::greater (:741) and runRegionChoice walks it from the back:
                         the cells are assigned in ASCENDING order of their index, so that order_[i] is sorted
                         when runOrdering starts
     region_choice       runRegionChoice (:746-770): the cell goes to every region in turn; the recursion
                         continues when  allocatedWidth(i) <= regions_[i].width()  and the row of the region is
                         allowed for the polarity of the cell (commit cffa2e7); ytopo_ receives the y of the row
     lex_perms           the sequence of arrangements std::next_permutation goes through from a sorted range
                         (all permutations, lexicographic order)
     run_ordering        runOrdering (:772-797):  while (std::next_permutation(order_[rowInd]))  -- the test comes
                         FIRST, so the sorted arrangement the loop starts from is skipped (`tl`), and a region
                         that received fewer than two cells has NO arrangement at all: such an assignment
                         evaluates no leaf.  Positions are packed from minPos; xtopo_ receives them
     eval_leaf           the leaf case: value < bestVal_ (strict), bestOrder_/bestPositions_ := the current ones
     run                 run() + writeback() (:738-744, 799-823)

   The search threads the two net models exactly as the C++ does (single updateCellPos calls, nothing is
   restored between leaves).  C++ ints are Z here (allocatedWidth and width() are `int` in the code). *)
From Coq Require Import List ZArith Lia Bool.
Import ListNotations.
Require Import CV.Orient CV.Hpwl CV.Moves CV.Optimiser CV.ShiftLp CV.DetailedValue.
Local Open Scope Z_scope.

(* ---------- regions (addCells / addRow) ---------- *)
Record region := { rg_row : nat; rg_min : Z; rg_max : Z; rg_pred : option nat; rg_next : option nat }.
Definition rg_width (g : region) : Z := rg_max g - rg_min g.

Definition opt_mem (p : option nat) (cs : list nat) : bool := match p with Some c => mem c cs | None => false end.

(* while (cell_set.count(cellNext)) cellNext = cellNext(cellNext): the run of window cells at the head of l *)
Fixpoint run_of (cs : list nat) (l : list pcell) : list pcell * list pcell :=
  match l with
  | [] => ([], [])
  | c :: t => if mem (p_id c) cs then (c :: fst (run_of cs t), snd (run_of cs t)) else ([], l)
  end.

Definition head_id (l : list pcell) : option nat := match l with [] => None | c :: _ => Some (p_id c) end.

(* one iteration of the loop of addCells for the window cell c: nothing when its predecessor is in the window,
   otherwise addRow(cellRow(c), cellPred(c), first cell after the run).  None: c is not in a row (the C++ then
   indexes rows_[-1]; runReorderingOnRows only passes cells taken from the rows) *)
Definition add_cell (d : dstate) (cs : list nat) (c : nat) : option (list (region * list pcell)) :=
  match find_row (d_rows d) c 0 with
  | Some (i, r, a, m, b) =>
      if opt_mem (pred_of a) cs then Some []
      else let rn := run_of cs (m :: b) in
           Some [({| rg_row := i;
                     rg_min := match a with [] => dr_min r | _ :: _ => p_x m end;
                     rg_max := match snd rn with [] => dr_max r | _ :: _ => site_begin (p_x m) (fst rn) end;
                     rg_pred := pred_of a; rg_next := head_id (snd rn) |}, fst rn)]
  | None => None
  end.

Fixpoint regions_of (d : dstate) (cs : list nat) (todo : list nat) : option (list (region * list pcell)) :=
  match todo with
  | [] => Some []
  | c :: t => match add_cell d cs c, regions_of d cs t with
              | Some a, Some b => Some (a ++ b)
              | _, _ => None
              end
  end.

(* cells_ : the cells registered by addRow, region after region *)
Definition registered (rgs : list (region * list pcell)) : list pcell := flat_map snd rgs.

(* ---------- std::sort ---------- *)
Fixpoint insert_asc (c : nat) (l : list nat) : list nat :=
  match l with [] => [c] | a :: t => if (a <? c)%nat then a :: insert_asc c t else c :: l end.
Definition sort_asc (l : list nat) : list nat := fold_right insert_asc [] l.

(* ---------- std::next_permutation from a sorted range ---------- *)
Fixpoint selects (l : list nat) : list (nat * list nat) :=
  match l with [] => [] | x :: t => (x, t) :: map (fun p => (fst p, x :: snd p)) (selects t) end.
Fixpoint lex_perms (n : nat) (l : list nat) : list (list nat) :=
  match n with
  | O => [[]]
  | S n' => match l with
            | [] => [[]]
            | _ => flat_map (fun p => map (cons (fst p)) (lex_perms n' (snd p))) (selects l)
            end
  end.
(* the arrangements for which the body of  while (std::next_permutation(...))  runs *)
Definition loop_perms (l : list nat) : list (list nat) := tl (lex_perms (length l) l).

(* ---------- static data of the cells, read off the row structure ---------- *)
Definition cell_of (d : dstate) (c : nat) : option pcell :=
  match find_row (d_rows d) c 0 with Some (_, _, _, m, _) => Some m | None => None end.
Definition width_of (d : dstate) (c : nat) : Z := match cell_of d c with Some m => p_w m | None => 0 end.
Definition pol_of (d : dstate) (c : nat) : polarity := match cell_of d c with Some m => p_pol m | None => pANY end.

(* ---------- the search state ---------- *)
Record sstate := { ss_o : ostate; ss_best : Z; ss_leaf : option (list placement); ss_n : nat }.
Definition with_o (st : sstate) (o : ostate) : sstate :=
  {| ss_o := o; ss_best := ss_best st; ss_leaf := ss_leaf st; ss_n := ss_n st |}.
Definition set_y (o : ostate) (c : nat) (y : Z) : ostate := {| ox := ox o; oy := update_cell_pos (oy o) c y |}.

(* positions_[rowInd]: predPos = minPos; for c in order: push predPos; predPos += width *)
Fixpoint pack (w : nat -> Z) (x : Z) (l : list nat) : list (nat * Z) :=
  match l with [] => [] | c :: t => (c, x) :: pack w (x + w c) t end.

(* what writeback() does with bestOrder_[i] / bestPositions_[i]: place(c, row, pred, x); pred = c *)
Fixpoint chain_places (rowi : nat) (pred : option nat) (ps : list (nat * Z)) : list placement :=
  match ps with [] => [] | (c, x) :: t => (c, rowi, pred, x) :: chain_places rowi (Some c) t end.
Definition leaf_of (chosen : list (region * list (nat * Z))) : list placement :=
  flat_map (fun p => chain_places (rg_row (fst p)) (rg_pred (fst p)) (snd p)) chosen.

(* the leaf case of runOrdering; ss_n counts the evaluations *)
Definition eval_leaf (st : sstate) (leaf : list placement) : sstate :=
  let v := ovalue (ss_o st) in
  if v <? ss_best st then {| ss_o := ss_o st; ss_best := v; ss_leaf := Some leaf; ss_n := S (ss_n st) |}
  else {| ss_o := ss_o st; ss_best := ss_best st; ss_leaf := ss_leaf st; ss_n := S (ss_n st) |}.

(* runOrdering(rowInd): `regs` = the regions rowInd, rowInd-1, ..., 0 with their order_; `chosen` = the arrangements
   and positions of the regions above (the loops we are inside of), region rowInd+1 first *)
Fixpoint run_ordering (w : nat -> Z) (regs : list (region * list nat)) (chosen : list (region * list (nat * Z)))
                      (st : sstate) : sstate :=
  match regs with
  | [] => eval_leaf st (leaf_of chosen)
  | (g, ord) :: rest =>
      fold_left (fun st p =>
                   let ps := pack w (rg_min g) p in
                   run_ordering w rest ((g, ps) :: chosen) (with_o st (oshift (ss_o st) ps)))
                (loop_perms ord) st
  end.

(* order_[i].push_back(c) *)
Fixpoint push_at (ord : list (list nat)) (i : nat) (c : nat) : list (list nat) :=
  match ord, i with
  | [], _ => []
  | l :: t, O => (l ++ [c]) :: t
  | l :: t, S i' => l :: push_at t i' c
  end.
Definition alloc_width (w : nat -> Z) (l : list nat) : Z := fold_right (fun c a => w c + a) 0 l.

(* the test of runRegionChoice for region i after the push *)
Definition choice_ok (d : dstate) (g : region) (l : list nat) (c : nat) : bool :=
  (alloc_width (width_of d) l <=? rg_width g) &&
  match nth_error (d_rows d) (rg_row g) with Some r => row_allowed (pol_of d c) r | None => false end.

(* runRegionChoice(cellInd): `rem` = cells_[cellInd], cells_[cellInd-1], ..., cells_[0] (ascending indices) *)
Fixpoint region_choice (d : dstate) (rgs : list region) (rem : list nat) (ord : list (list nat)) (st : sstate) : sstate :=
  match rem with
  | [] => run_ordering (width_of d) (rev (combine rgs ord)) [] st
  | c :: rem' =>
      fold_left (fun st i =>
                   let ord' := push_at ord i c in
                   match nth_error rgs i with
                   | Some g =>
                       if choice_ok d g (nth i ord' []) c
                       then region_choice d rgs rem' ord' (with_o st (set_y (ss_o st) c (row_y d (rg_row g))))
                       else st
                   | None => st
                   end)
                (seq 0 (length rgs)) st
  end.

(* ---------- run() + writeback() ----------
   None: DetailedPlacement::place has thrown "Cannot place the cell" (or a window cell is in no row).  The result
   carries the number of leaves evaluated. *)
Definition search (d : dstate) (o : ostate) (rgs : list (region * list pcell)) : sstate :=
  let cells := sort_asc (map p_id (registered rgs)) in
  region_choice d (map fst rgs) cells (map (fun _ => []) rgs)
                {| ss_o := o; ss_best := ovalue o; ss_leaf := None; ss_n := 0 |}.

Definition run (s : pstate) (cs : list nat) : option (pstate * nat) :=
  let d := ps_d s in
  match regions_of d cs cs with
  | None => None
  | Some rgs =>
      let cells := rev (sort_asc (map p_id (registered rgs))) in      (* cells_, sorted with std::greater *)
      let st := search d (ps_o s) rgs in
      match ss_leaf st with
      | Some leaf =>
          match wb d cells leaf with
          | Some d' => Some ({| ps_d := d'; ps_o := set_many (ss_o st) (leaf_moves d leaf) |}, ss_n st)
          | None => None
          end
      | None =>
          match moves_at d cells with
          | Some ms => Some ({| ps_d := d; ps_o := set_many (ss_o st) ms |}, ss_n st)
          | None => None
          end
      end
  end.

(* ---------- the same enumeration as a LIST of leaves (what PReorder receives) ---------- *)
Fixpoint order_leaves (w : nat -> Z) (regs : list (region * list nat)) (chosen : list (region * list (nat * Z)))
  : list (list placement) :=
  match regs with
  | [] => [leaf_of chosen]
  | (g, ord) :: rest =>
      flat_map (fun p => order_leaves w rest ((g, pack w (rg_min g) p) :: chosen)) (loop_perms ord)
  end.

Fixpoint choice_leaves (d : dstate) (rgs : list region) (rem : list nat) (ord : list (list nat)) : list (list placement) :=
  match rem with
  | [] => order_leaves (width_of d) (rev (combine rgs ord)) []
  | c :: rem' =>
      flat_map (fun i =>
                  let ord' := push_at ord i c in
                  match nth_error rgs i with
                  | Some g => if choice_ok d g (nth i ord' []) c then choice_leaves d rgs rem' ord' else []
                  | None => []
                  end)
               (seq 0 (length rgs))
  end.

Definition leaves_of (d : dstate) (rgs : list (region * list pcell)) : list (list placement) :=
  choice_leaves d (map fst rgs) (sort_asc (map p_id (registered rgs))) (map (fun _ => []) rgs).
