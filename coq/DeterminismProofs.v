From Coq Require Import List String Bool.
Import ListNotations.
Require Import CV.Determinism.
Local Open Scope string_scope.

Theorem nondet_okb_correct : forall l, nondet_okb l = true <-> nondet_ok l.
Proof.
  intros l. unfold nondet_okb, nondet_ok. rewrite forallb_forall. split.
  - intros H f Hf. specialize (H f Hf). destruct (n_kind f); try discriminate H; tauto.
  - intros H f Hf. destruct (H f Hf) as [E | [E | E]]; rewrite E; reflexivity.
Qed.

Example nondet_rule_discriminates :
  nondet_okb [mkN "GlobalPlacer::place" NClockVar "clock value -> variable startTime" 45;
              mkN "GlobalPlacer::place" NClockPrint "clock-derived variable duration printed" 52;
              mkN "engine" NRng "engine seeded: seed rgen_ seed params_" 0] = true /\
  nondet_okb [mkN "GlobalPlacer::run" NClockOther "clock value used in BinaryOperator" 200] = false /\
  nondet_okb [mkN "src/place_global/place_global.cpp" NSource "std::random_device" 66] = false.
Proof. vm_compute. repeat split. Qed.
