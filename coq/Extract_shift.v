(* Extraction of the shift-pass LP model (ShiftLp.v) for the correspondence runs of C05 / C02.
   ExtrOcamlBasic only; Z, positive, nat stay the extracted Coq datatypes.  No Extract Constant. *)
From Coq Require Import Extraction ExtrOcamlBasic ZArith List.
Require Import CV.Orient CV.Hpwl CV.Moves CV.Optimiser CV.ShiftLp.
Extraction Language OCaml.
Extraction "model_shift.ml"
  ShiftLp.shift_net ShiftLp.shift_cert_ok ShiftLp.dual_feasible ShiftLp.flow_ok ShiftLp.conserve ShiftLp.range_ok
  ShiftLp.positions_of ShiftLp.xvalue ShiftLp.write_updates ShiftLp.arc_code
  Moves.shift_ok Moves.apply_shift Hpwl.incr_build Hpwl.ivalue.
