(* C07: the integer side of the density grid and of the area sums of coloquinte.cpp (DensityMachine.v): on the
   magnitude domain (coordinates within [-2^22, 2^22], cell areas below 2^31, sums of areas at most 2^62) every listed
   int / long long intermediate fits its type. *)
From Coq Require Import List ZArith Lia Bool Arith.
Import ListNotations.
Require Import CV.FreeSpace CV.Density CV.DensityProofs CV.RowLegMachine CV.Transp1dMachine CV.DensityMachine.
Local Open Scope Z_scope.

Lemma d32 v : -2147483648 <= v < 2147483648 -> fits (I32, v).
Proof. intros H. exact H. Qed.
Lemma d64 v : -9223372036854775808 <= v < 9223372036854775808 -> fits (I64, v).
Proof. intros H. exact H. Qed.
Ltac dfit := first [apply d32; unfold zi, COORD, SUMB in *; lia | apply d64; unfold zi, COORD, SUMB in *; lia
                   | apply d32; unfold zi, COORD, SUMB in *; nia | apply d64; unfold zi, COORD, SUMB in *; nia].
Ltac dfits := repeat (apply Forall_cons; [dfit|]); try apply Forall_nil.

Lemma Fapp {A} (Q : A -> Prop) l1 l2 : Forall Q l1 -> Forall Q l2 -> Forall Q (l1 ++ l2).
Proof. intros H1 H2. apply Forall_app. split; assumption. Qed.
Lemma Fflat {A B} (Q : B -> Prop) (f : A -> list B) l : (forall a, In a l -> Forall Q (f a)) -> Forall Q (flat_map f l).
Proof.
  intros H. apply Forall_forall. intros x Hx. apply in_flat_map in Hx. destruct Hx as (a & Ha & Hx).
  specialize (H a Ha). rewrite Forall_forall in H. apply H. exact Hx.
Qed.
Lemma Fmap {A B} (Q : B -> Prop) (f : A -> B) l : (forall a, In a l -> Q (f a)) -> Forall Q (map f l).
Proof. intros H. apply Forall_forall. intros x Hx. apply in_map_iff in Hx. destruct Hx as (a & <- & Ha). apply H. exact Ha. Qed.

Lemma in_pairs {A} (l : list A) p q : In (p, q) (pairs l) -> In p l /\ In q l.
Proof.
  unfold pairs. intros H. split; [eapply in_combine_l; exact H|].
  apply in_combine_r in H. destruct l; [contradiction|right; exact H].
Qed.

(* running sums of non-negative entries *)
Lemma acc_fit l : forall acc, 0 <= acc -> (forall x, In x l -> 0 <= x) -> acc + sumZ l <= SUMB -> Forall fits (acc_vals acc l).
Proof.
  induction l as [|x r IH]; intros acc Ha Hl Ht; cbn [acc_vals]; [constructor|]. cbn [sumZ fold_right] in Ht. fold (sumZ r) in Ht.
  assert (Hx : 0 <= x) by (apply Hl; left; reflexivity).
  assert (Hr : 0 <= sumZ r).
  { clear -Hl. induction r as [|y t IH]; [cbn; lia|]. cbn [sumZ fold_right]. fold (sumZ t).
    assert (0 <= y) by (apply Hl; right; left; reflexivity).
    assert (0 <= sumZ t) by (apply IH; intros z [Hz|Hz]; apply Hl; [left|right; right]; assumption). lia. }
  constructor; [dfit|]. apply IH; [lia|intros y Hy; apply Hl; right; exact Hy|lia].
Qed.

Lemma sumZ_nonneg l : (forall x, In x l -> 0 <= x) -> 0 <= sumZ l.
Proof.
  induction l as [|y t IH]; intros H; [cbn; lia|]. cbn [sumZ fold_right]. fold (sumZ t).
  assert (0 <= y) by (apply H; left; reflexivity). assert (0 <= sumZ t) by (apply IH; intros z Hz; apply H; right; exact Hz). lia.
Qed.

Lemma sumZ_le_count l M : 0 <= M -> (forall x, In x l -> x <= M) -> sumZ l <= Z.of_nat (length l) * M.
Proof.
  intros HM. induction l as [|y t IH]; intros H; [cbn; lia|]. cbn [sumZ fold_right length]. fold (sumZ t).
  assert (y <= M) by (apply H; left; reflexivity). assert (sumZ t <= Z.of_nat (length t) * M) by (apply IH; intros z Hz; apply H; right; exact Hz). lia.
Qed.

(* [F] any sum of non-negative long long entries whose total is at most 2^62 *)
Theorem sum_vals_fit l : (forall x, In x l -> 0 <= x) -> sumZ l <= SUMB -> Forall fits (sum_vals l).
Proof. intros H1 H2. apply acc_fit; [lia|exact H1|lia]. Qed.

(* ---------------------------------------------------------------- rectangles *)
Lemma area_vals_fit r : - 2 * COORD <= maxX r - minX r <= 2 * COORD -> - 2 * COORD <= maxY r - minY r <= 2 * COORD ->
  Forall fits (area_vals r).
Proof. intros H1 H2. unfold area_vals. dfits. Qed.

Lemma rbox_area r : rbox r -> 0 <= rarea r <= 2 * COORD * (2 * COORD).
Proof.
  intros (A & B & C & D & E & F). unfold rarea, rwidth, rheight, COORD in *.
  split; [apply Z.mul_nonneg_nonneg; lia|apply Z.mul_le_mono_nonneg; lia].
Qed.

(* the intersection with a proper bin, when the rectangles intersect, is inside the region *)
Lemma inter_facts reg b : rbox reg -> proper b -> rintersects reg b = true ->
  let i := rintersection reg b in
  0 <= maxX i - minX i <= maxX reg - minX reg /\ 0 <= maxY i - minY i <= maxY reg - minY reg /\ 0 <= rarea i <= rarea reg.
Proof.
  intros (A & B & C & D & E & F) [Bx By] H. unfold rintersects in H.
  apply andb_prop in H. destruct H as [H H4]. apply andb_prop in H. destruct H as [H H3]. apply andb_prop in H. destruct H as [H1 H2].
  apply Z.ltb_lt in H1, H2, H3, H4. cbn zeta. unfold rintersection, rarea, rwidth, rheight. cbn [minX maxX minY maxY].
  split; [lia|]. split; [lia|]. split; [apply Z.mul_nonneg_nonneg; lia|apply Z.mul_le_mono_nonneg; lia].
Qed.

Lemma contrib_le reg b : rbox reg -> proper b -> 0 <= contrib reg b <= rarea reg.
Proof.
  intros R Pb. unfold contrib. destruct (rintersects reg b) eqn:E.
  - pose proof (inter_facts reg b R Pb E) as Q. cbn zeta in Q. lia.
  - pose proof (rbox_area reg R). lia.
Qed.

(* [F] fromIspdCircuit: clipping the rows by the margin *)
Theorem clip_vals_fit margin rows : Forall rbox rows -> 0 <= margin < 1073741824 -> Forall fits (clip_vals margin rows).
Proof.
  intros HR Hm. unfold clip_vals. apply Fflat. intros r Hr. rewrite Forall_forall in HR. destruct (HR r Hr) as (A & B & C & D & E & F).
  apply Fapp; [dfits|]. unfold rwidth. destruct (Z.leb_spec (maxX r - minX r) (2 * margin)); [constructor|]. dfits.
Qed.

(* [F] updateBinsToSize: no division by zero (maxSize >= 1), no INT_MIN / -1 *)
Theorem nb_bins_vals_fit a maxSize : rbox a -> 1 <= maxSize -> Forall fits (nb_bins_vals a maxSize).
Proof.
  intros (A & B & C & D & E & F) Hm. unfold nb_bins_vals.
  assert (Qx : 0 <= Z.quot (maxX a - minX a) maxSize <= maxX a - minX a).
  { split; [apply Z.quot_pos; lia|]. apply Z.quot_le_upper_bound; [lia|]. nia. }
  assert (Qy : 0 <= Z.quot (maxY a - minY a) maxSize <= maxY a - minY a).
  { split; [apply Z.quot_pos; lia|]. apply Z.quot_le_upper_bound; [lia|]. nia. }
  dfits.
Qed.

(* [F] updateBinCenters: the int sum of two consecutive limits *)
Theorem centers_vals_fit lims : Forall inbox lims -> zi (length lims) < 2147483647 -> Forall fits (centers_vals lims).
Proof.
  intros H Hn. rewrite Forall_forall in H. unfold centers_vals. constructor; [dfit|]. apply Fapp.
  - apply Fmap. intros [p q] Hpq. apply in_pairs in Hpq. destruct Hpq as [Hp Hq]. pose proof (H p Hp). pose proof (H q Hq).
    unfold inbox in *. cbn [fst snd]. dfit.
  - apply Fmap. intros i Hi. apply in_seq in Hi. dfit.
Qed.

(* [F] updateBinCapacity(): w * h in long long *)
Theorem cap0_vals_fit lx ly : Forall inbox lx -> Forall inbox ly -> Forall fits (cap0_vals lx ly).
Proof.
  intros Hx Hy. rewrite Forall_forall in Hx, Hy. unfold cap0_vals. apply Fflat. intros [p q] Hpq. apply Fflat. intros [p' q'] Hpq'.
  apply in_pairs in Hpq, Hpq'. destruct Hpq as [Hp Hq]. destruct Hpq' as [Hp' Hq'].
  pose proof (Hx p Hp). pose proof (Hx q Hq). pose proof (Hy p' Hp'). pose proof (Hy q' Hq'). unfold inbox in *. cbn [fst snd].
  dfits.
Qed.

(* [F] updateBinCapacity(regions): the running capacity of every bin (bin limits non-decreasing) *)
Lemma bin_acc_vals_fit b : proper b -> forall regs acc, Forall rbox regs -> 0 <= acc -> acc + sumZ (map rarea regs) <= SUMB ->
  Forall fits (bin_acc_vals b regs acc).
Proof.
  intros Pb. induction regs as [|reg r IH]; intros acc HR Ha Hs; cbn [bin_acc_vals]; [constructor|].
  inversion HR as [|? ? Hreg Hr]; subst. cbn [map sumZ fold_right] in Hs. fold (sumZ (map rarea r)) in Hs.
  pose proof (contrib_le reg b Hreg Pb) as Hc.
  assert (Hrs : 0 <= sumZ (map rarea r)).
  { apply sumZ_nonneg. intros x Hx. apply in_map_iff in Hx. destruct Hx as (y & <- & Hy). rewrite Forall_forall in Hr. apply rbox_area, Hr, Hy. }
  apply Fapp.
  - destruct (rintersects reg b) eqn:E; [|constructor].
    pose proof (inter_facts reg b Hreg Pb E) as Q. cbn zeta in Q. destruct Q as (Q1 & Q2 & Q3).
    destruct Hreg as (A & B & C & D & E' & F).
    apply Fapp; [apply area_vals_fit; unfold COORD in *; lia|]. dfits.
  - apply IH; [exact Hr|lia|lia].
Qed.

Theorem capacity_vals_fit lx ly regs : chainZ lx -> chainZ ly -> Forall rbox regs -> sumZ (map rarea regs) <= SUMB ->
  Forall fits (capacity_vals lx ly regs).
Proof.
  intros Cx Cy HR Hs. unfold capacity_vals. apply Fflat. intros [p q] Hx. apply Fflat. intros [p' q'] Hy.
  apply bin_acc_vals_fit; [|exact HR|lia|lia].
  unfold proper, bin_region. cbn [minX maxX minY maxY fst snd]. split; [exact (pairs_chain_le lx p q Cx Hx)|exact (pairs_chain_le ly p' q' Cy Hy)].
Qed.

(* the sum hypothesis holds for up to 2^16 regions of the magnitude range (and for any number of pairwise disjoint ones,
   whose areas sum to at most 2^46 -- not proved here) *)
Lemma regions_count_sum regs : Forall rbox regs -> Z.of_nat (length regs) <= 65536 -> sumZ (map rarea regs) <= SUMB.
Proof.
  intros HR Hn. pose proof (sumZ_le_count (map rarea regs) (2 * COORD * (2 * COORD)) ltac:(unfold COORD; lia)) as Q.
  rewrite map_length in Q. etransitivity; [apply Q|].
  - intros x Hx. apply in_map_iff in Hx. destruct Hx as (y & <- & Hy). rewrite Forall_forall in HR. apply rbox_area, HR, Hy.
  - unfold COORD, SUMB. nia.
Qed.

(* [F] totalOverflow *)
Theorem overflow_vals_fit uc : Forall (fun p => 0 <= fst p <= SUMB /\ 0 <= snd p <= SUMB) uc -> sumZ (map fst uc) <= SUMB ->
  Forall fits (overflow_vals uc).
Proof.
  intros H Hs. rewrite Forall_forall in H. unfold overflow_vals. apply Fapp.
  - apply Fmap. intros p Hp. destruct (H p Hp). dfit.
  - apply acc_fit; [lia| |].
    + intros x Hx. apply in_map_iff in Hx. destruct Hx as (p & <- & _). lia.
    + assert (sumZ (map (fun p : Z * Z => Z.max (fst p - snd p) 0) uc) <= sumZ (map fst uc)); [|lia].
      clear Hs. induction uc as [|p r IH]; [cbn; lia|]. cbn [map sumZ fold_right].
      fold (sumZ (map (fun p : Z * Z => Z.max (fst p - snd p) 0) r)). fold (sumZ (map fst r)).
      destruct (H p (or_introl eq_refl)). specialize (IH (fun q Hq => H q (or_intror Hq))). lia.
Qed.

(* [F] cell demands: the area product and its narrowing to int -- this is where "each cell area below 2^31" is needed *)
Theorem demand_vals_fit wh : Forall (fun p => - 2 * COORD <= fst p <= 2 * COORD /\ - 2 * COORD <= snd p <= 2 * COORD /\
                                              0 <= fst p * snd p < 2147483648) wh -> Forall fits (demand_vals wh).
Proof.
  intros H. rewrite Forall_forall in H. unfold demand_vals. apply Fflat. intros p Hp. destruct (H p Hp) as (A & B & C).
  set (a := fst p * snd p) in *. clearbody a. dfits.
Qed.
(* necessity: a movable cell of area 2^31 (65536 x 32768) is inside the coordinate range and its demand does not fit int *)
Example demand_needs_area_bound : exists v, In v (demand_vals [(65536, 32768)]) /\ ~ fits v.
Proof. exists (I32, 2147483648). split; [cbn; tauto|unfold fits; cbn; lia]. Qed.

(* [F] Circuit::area(i) and the sum over the movable cells (expandCellsToDensity / expandCellsByFactor) *)
Theorem cell_area_vals_fit wh :
  Forall (fun p => - 2 * COORD <= fst p <= 2 * COORD /\ - 2 * COORD <= snd p <= 2 * COORD /\ 0 <= fst p * snd p < 2147483648) wh ->
  Z.of_nat (length wh) <= 2147483647 -> Forall fits (cell_area_vals wh).
Proof.
  intros H Hn. rewrite Forall_forall in H. unfold cell_area_vals. apply Fapp.
  - apply Fflat. intros p Hp. destruct (H p Hp) as (A & B & C). set (a := fst p * snd p) in *. clearbody a. dfits.
  - apply acc_fit; [lia| |].
    + intros x Hx. apply in_map_iff in Hx. destruct Hx as (p & <- & Hp). destruct (H p Hp) as (_ & _ & C). lia.
    + pose proof (sumZ_le_count (map (fun p : Z * Z => fst p * snd p) wh) 2147483647 ltac:(lia)) as Q. rewrite map_length in Q.
      etransitivity; [apply Z.add_le_mono_l, Q|unfold SUMB; nia].
      intros x Hx. apply in_map_iff in Hx. destruct Hx as (p & <- & Hp). destruct (H p Hp) as (_ & _ & C). lia.
Qed.

(* [F] computeRowPlacementArea: the width after the margin is at most the row width; up to 2^16 free row segments *)
Theorem row_area_vals_fit rows :
  Forall (fun rw => rbox (fst rw) /\ - 2 * COORD <= snd rw <= maxX (fst rw) - minX (fst rw)) rows ->
  Z.of_nat (length rows) <= 65536 -> Forall fits (row_area_vals rows).
Proof.
  intros H Hn. rewrite Forall_forall in H. unfold row_area_vals. apply Fapp.
  - apply Fflat. intros rw Hrw. destruct (H rw Hrw) as ((A & B & C & D & E & F) & G1 & G2). dfits.
  - apply acc_fit; [lia| |].
    + intros x Hx. apply in_map_iff in Hx. destruct Hx as (rw & <- & Hrw). destruct (H rw Hrw) as ((A & B & C & D & E & F) & G1 & G2).
      destruct (Z.ltb_spec 0 (snd rw)); [nia|lia].
    + pose proof (sumZ_le_count (map (fun rw : rect * Z => if 0 <? snd rw then snd rw * (maxY (fst rw) - minY (fst rw)) else 0) rows)
                    (2 * COORD * (2 * COORD)) ltac:(unfold COORD; lia)) as Q. rewrite map_length in Q.
      etransitivity; [apply Z.add_le_mono_l, Q|unfold SUMB, COORD; nia].
      intros x Hx. apply in_map_iff in Hx. destruct Hx as (rw & <- & Hrw). destruct (H rw Hrw) as ((A & B & C & D & E & F) & G1 & G2).
      unfold COORD in *. destruct (Z.ltb_spec 0 (snd rw)); [nia|lia].
Qed.

(* ---------------------------------------------------------------- examples *)
Definition ex_regs : list rect :=
  [{| minX := -4194304; maxX := 4194304; minY := -4194304; maxY := 0 |};
   {| minX := -4194304; maxX := 4194304; minY := 0; maxY := 4194304 |}].
Example density_nonvacuous :
  Forall rbox ex_regs /\ sumZ (map rarea ex_regs) <= SUMB /\
  In (I64, 70368744177664) (capacity_vals [-4194304; 4194304] [-4194304; 4194304] ex_regs).
Proof.
  split; [repeat constructor; unfold rbox, COORD; cbn; lia|]. split; [vm_compute; discriminate|]. vm_compute. tauto.
Qed.
(* the long long is needed: one bin of 2^16 x 2^16 units already has capacity 2^32 *)
Example density_int_would_overflow :
  Forall inbox [0; 65536] /\ exists v, In (I64, v) (cap0_vals [0; 65536] [0; 65536]) /\ ~ fits (I32, v).
Proof.
  split; [repeat constructor; unfold inbox, COORD; lia|]. exists 4294967296. split; [vm_compute; tauto|unfold fits; cbn; lia].
Qed.

(* ---------------------------------------------------------------- the constructor DensityGrid(binSize, regions) *)
Require Import CV.SubdivMachine CV.SubdivMachineProofs.

Lemma placement_area_rbox regions : Forall rbox regions -> regions <> [] -> rbox (placement_area regions).
Proof.
  intros H Hne. destruct regions as [|r rs]; [congruence|]. inversion H as [|? ? Hr Hrs]; subst. cbn [placement_area].
  clear H Hne. revert r Hr. induction rs as [|x xs IH]; intros r Hr; cbn [fold_left]; [exact Hr|].
  inversion Hrs as [|? ? Hx Hxs]; subst. apply IH; [exact Hxs|].
  destruct Hr as (A & B & C & D & E & F). destruct Hx as (A' & B' & C' & D' & E' & F').
  unfold rbox. cbn [minX maxX minY maxY]. lia.
Qed.

Lemma subdiv_in mn mx n x : mn <= mx -> 1 <= n -> In x (subdivisions mn mx n) -> mn <= x <= mx.
Proof.
  intros Hm Hn H. unfold subdivisions in H. apply in_map_iff in H. destruct H as (i & <- & Hi). apply in_seq in Hi.
  destruct (iter_bounds mn mx n i Hm Hn ltac:(lia)) as [_ B]. lia.
Qed.

Lemma nb_bins_range len maxSize : 0 <= len -> 1 <= maxSize -> 1 <= nb_bins len maxSize <= Z.max 1 len.
Proof.
  intros Hl Hm. unfold nb_bins.
  assert (0 <= Z.quot len maxSize <= len). { split; [apply Z.quot_pos; lia|]. apply Z.quot_le_upper_bound; [lia|]. nia. }
  lia.
Qed.

(* [F] the whole constructor, for every non-empty list of regions of the magnitude range *)
Theorem grid_vals_fit binSize regions : Forall rbox regions -> regions <> [] -> sumZ (map rarea regions) <= SUMB ->
  1 <= binSize -> Forall fits (grid_vals binSize regions).
Proof.
  intros HR Hne Hs Hb. unfold grid_vals. pose proof (placement_area_rbox regions HR Hne) as Ha.
  set (a := placement_area regions) in *. pose proof Ha as (A & B & C & D & E & F).
  pose proof (nb_bins_range (rwidth a) binSize ltac:(unfold rwidth; lia) Hb) as Nx.
  pose proof (nb_bins_range (rheight a) binSize ltac:(unfold rheight; lia) Hb) as Ny.
  set (nx := nb_bins (rwidth a) binSize) in *. set (ny := nb_bins (rheight a) binSize) in *.
  assert (Hnx : nx <= 2 * COORD) by (unfold rwidth, COORD in *; lia).
  assert (Hny : ny <= 2 * COORD) by (unfold rheight, COORD in *; lia).
  assert (Ix : Forall inbox (subdivisions (minX a) (maxX a) nx)).
  { apply Forall_forall. intros x Hx. apply subdiv_in in Hx; [|lia|lia]. unfold inbox. lia. }
  assert (Iy : Forall inbox (subdivisions (minY a) (maxY a) ny)).
  { apply Forall_forall. intros x Hx. apply subdiv_in in Hx; [|lia|lia]. unfold inbox. lia. }
  assert (Lx : zi (length (subdivisions (minX a) (maxX a) nx)) < 2147483647).
  { rewrite subdiv_length. unfold zi, COORD in *. lia. }
  assert (Ly : zi (length (subdivisions (minY a) (maxY a) ny)) < 2147483647).
  { rewrite subdiv_length. unfold zi, COORD in *. lia. }
  apply Fapp; [apply nb_bins_vals_fit; assumption|].
  apply Fapp; [apply subdiv_no_overflow; unfold subdiv_dom, COORD in *; lia|].
  apply Fapp; [apply subdiv_no_overflow; unfold subdiv_dom, COORD in *; lia|].
  apply Fapp; [apply centers_vals_fit; assumption|].
  apply Fapp; [apply centers_vals_fit; assumption|].
  apply Fapp; [apply cap0_vals_fit; assumption|].
  apply capacity_vals_fit; try assumption; apply subdiv_chain; lia.
Qed.

Example grid_nonvacuous :
  Forall rbox ex_regs /\ ex_regs <> [] /\ sumZ (map rarea ex_regs) <= SUMB /\
  length (grid_vals 2097152 ex_regs) = 280%nat /\ In (I64, 4398046511104) (grid_vals 2097152 ex_regs).
Proof.
  split; [repeat constructor; unfold rbox, COORD; cbn; lia|]. split; [discriminate|]. split; [vm_compute; discriminate|].
  split; [vm_compute; reflexivity|]. vm_compute. tauto.
Qed.
