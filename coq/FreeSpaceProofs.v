From Coq Require Import List ZArith Lia Bool Permutation.
Import ListNotations.
Require Import CV.Orient CV.FreeSpace.
Local Open Scope Z_scope.

Definition in_iv (x : Z) (i : iv) := fst i <= x < snd i.
Definition in_ivs (x : Z) (l : list iv) := exists i, In i l /\ in_iv x i.

Lemma subtract_spec a b l x : a < b ->
  in_ivs x (subtract a b l) <-> in_ivs x l /\ ~ (a <= x < b).
Proof.
  intros Hab. induction l as [|[lo hi] l IH]; cbn [subtract].
  - unfold in_ivs; split; [intros (i & [] & _)|intros [(i & [] & _) _]].
  - unfold in_ivs in *. split.
    + intros (i & Hin & Hx). rewrite !in_app_iff in Hin. destruct Hin as [Hin|[Hin|Hin]].
      * destruct (lo <? Z.min hi a) eqn:E; [|destruct Hin]. destruct Hin as [<-|[]].
        unfold in_iv in *; cbn [fst snd] in *. split; [exists (lo,hi); split; [left; reflexivity|unfold in_iv; cbn; lia]|lia].
      * destruct (Z.max lo b <? hi) eqn:E; [|destruct Hin]. destruct Hin as [<-|[]].
        unfold in_iv in *; cbn [fst snd] in *. split; [exists (lo,hi); split; [left; reflexivity|unfold in_iv; cbn; lia]|lia].
      * destruct (proj1 IH (ex_intro _ i (conj Hin Hx))) as [(j & Hj & Hxj) Hn].
        split; [exists j; split; [right; assumption|assumption]|assumption].
    + intros [(i & [<-|Hin] & Hx) Hn].
      * unfold in_iv in Hx; cbn [fst snd] in Hx.
        destruct (Z_lt_ge_dec x a) as [Hxa|Hxa].
        -- exists (lo, Z.min hi a). split; [|unfold in_iv; cbn; lia].
           rewrite in_app_iff; left. destruct (lo <? Z.min hi a) eqn:E; [left; reflexivity|lia].
        -- exists (Z.max lo b, hi). split; [|unfold in_iv; cbn; lia].
           rewrite !in_app_iff; right; left. destruct (Z.max lo b <? hi) eqn:E; [left; reflexivity|lia].
      * destruct (proj2 IH (conj (ex_intro _ i (conj Hin Hx)) Hn)) as (j & Hj & Hxj).
        exists j. split; [|assumption]. rewrite !in_app_iff; right; right; assumption.
Qed.

Theorem freespace_exact rw obs x :
  in_ivs x (freespace_iv rw obs) <->
  (minX rw <= x < maxX rw /\ minY rw < maxY rw /\
   forall o, In o obs -> blocks rw o = true -> ~ (minX o <= x < maxX o)).
Proof.
  unfold freespace_iv.
  destruct ((minX rw <? maxX rw) && (minY rw <? maxY rw)) eqn:E.
  2:{ split; [intros (i & [] & _)|]. intros (H1 & H2 & _). lia. }
  assert (Hgen : forall l,
    in_ivs x (fold_left (fun l o => if blocks rw o then subtract (minX o) (maxX o) l else l) obs l) <->
    in_ivs x l /\ forall o, In o obs -> blocks rw o = true -> ~ (minX o <= x < maxX o)).
  { induction obs as [|o obs IH]; intros l; cbn [fold_left].
    - split; [intros H; split; [assumption|intros o []]|intros [H _]; assumption].
    - rewrite IH. destruct (blocks rw o) eqn:B.
      + assert (minX o < maxX o) by (unfold blocks in B; lia).
        rewrite subtract_spec by assumption. split.
        * intros [[Hl Hn] Hall]. split; [assumption|]. intros o' [<-|Hin] Hb; [assumption|apply Hall; assumption].
        * intros [Hl Hall]. split; [split; [assumption|apply Hall; [left; reflexivity|assumption]]|].
          intros o' Hin Hb; apply Hall; [right; assumption|assumption].
      + split.
        * intros [Hl Hall]. split; [assumption|]. intros o' [<-|Hin] Hb; [congruence|apply Hall; assumption].
        * intros [Hl Hall]. split; [assumption|]. intros o' Hin Hb; apply Hall; [right; assumption|assumption]. }
  rewrite Hgen. unfold in_ivs, in_iv. split.
  - intros [(i & [<-|[]] & Hx) Hall]. cbn [fst snd] in Hx. repeat split; try lia; assumption.
  - intros (Hx & Hy & Hall). split; [exists (minX rw, maxX rw); split; [left; reflexivity|cbn; lia]|assumption].
Qed.

(* structure: sorted by x, non-empty, pairwise disjoint, inside [lo, hi) *)
Fixpoint chain (lo hi : Z) (l : list iv) : Prop :=
  match l with
  | [] => True
  | (a, b) :: r => lo <= a /\ a < b /\ b <= hi /\ chain b hi r
  end.

Lemma chain_weaken lo lo' hi l : lo' <= lo -> chain lo hi l -> chain lo' hi l.
Proof. destruct l as [|[a b] r]; cbn [chain]; [tauto|]. intros H (H1 & H2 & H3 & H4). repeat split; try lia; assumption. Qed.

Lemma subtract_chain a b l : a < b -> forall lo hi, chain lo hi l -> chain lo hi (subtract a b l).
Proof.
  intros Hab. induction l as [|[x y] r IH]; intros lo hi; cbn [subtract chain]; [tauto|].
  intros (H1 & H2 & H3 & H4). specialize (IH y hi H4).
  destruct (x <? Z.min y a) eqn:E1; destruct (Z.max x b <? y) eqn:E2; cbn [app chain].
  - repeat split; try lia. exact IH.
  - repeat split; try lia. eapply chain_weaken; [|exact IH]. lia.
  - repeat split; try lia. exact IH.
  - eapply chain_weaken; [|exact IH]. lia.
Qed.

Theorem freespace_chain rw obs : chain (minX rw) (maxX rw) (freespace_iv rw obs).
Proof.
  unfold freespace_iv. destruct (_ && _) eqn:E; [|exact I].
  apply andb_true_iff in E as [E1 _]. apply Z.ltb_lt in E1.
  assert (G : forall l, chain (minX rw) (maxX rw) l ->
     chain (minX rw) (maxX rw) (fold_left (fun l o => if blocks rw o then subtract (minX o) (maxX o) l else l) obs l)).
  { induction obs as [|o obs IH]; intros l Hl; cbn [fold_left]; [exact Hl|]. apply IH.
    destruct (blocks rw o) eqn:B; [|exact Hl]. apply subtract_chain; [unfold blocks in B; lia|exact Hl]. }
  apply G. cbn [chain]. lia.
Qed.

(* pairwise reading of chain *)
Lemma chain_In lo hi l a b : chain lo hi l -> In (a, b) l -> lo <= a /\ a < b /\ b <= hi.
Proof.
  revert lo. induction l as [|[x y] r IH]; intros lo; cbn [chain In]; [tauto|].
  intros (H1 & H2 & H3 & H4) [[= -> ->]|Hin]; [lia|]. specialize (IH y H4 Hin). lia.
Qed.

Lemma chain_disjoint lo hi l i j a b c d :
  chain lo hi l -> (i < j)%nat -> nth_error l i = Some (a, b) -> nth_error l j = Some (c, d) -> b <= c.
Proof.
  revert lo i j. induction l as [|[x y] r IH]; intros lo [|i] [|j] Hc Hij; cbn [nth_error]; try lia; try discriminate.
  - intros [= -> ->] Hj. destruct Hc as (_ & _ & _ & Hc). apply nth_error_In in Hj.
    destruct (chain_In _ _ _ _ _ Hc Hj). lia.
  - destruct Hc as (_ & _ & _ & Hc). apply (IH y i j Hc). lia.
Qed.

(* the result does not depend on the order of the obstacles (as a set of columns) *)
Theorem freespace_perm rw obs obs' x :
  Permutation obs obs' -> in_ivs x (freespace_iv rw obs) <-> in_ivs x (freespace_iv rw obs').
Proof.
  intros P. rewrite !freespace_exact.
  split; intros (A & B & C); (split; [exact A|split; [exact B|]]); intros o Ho Hb; apply C; try exact Hb.
  - eapply Permutation_in; [apply Permutation_sym; exact P|exact Ho].
  - eapply Permutation_in; [exact P|exact Ho].
Qed.

(* rows produced: full height, row's orientation *)
Theorem freespace_rows_shape r obs s :
  In s (freespace_rows r obs) ->
  minY (rr s) = minY (rr r) /\ maxY (rr s) = maxY (rr r) /\ ro s = ro r /\
  minX (rr r) <= minX (rr s) /\ minX (rr s) < maxX (rr s) /\ maxX (rr s) <= maxX (rr r).
Proof.
  unfold freespace_rows. rewrite in_map_iff. intros ([a b] & <- & Hin). cbn.
  pose proof (chain_In _ _ _ _ _ (freespace_chain (rr r) obs) Hin). tauto.
Qed.

(* movable cells and fixed cells flagged non-obstruction are ignored *)
Theorem compute_rows_ignores rows extra cells :
  compute_rows rows extra cells =
  compute_rows rows extra (filter (fun c => match c with (_, fx, ob) => fx && ob end) cells).
Proof.
  unfold compute_rows, obstacles_of. f_equal.
  assert (E : flat_map (fun c => match c with (p, fx, ob) => if fx && ob then [p] else [] end) cells =
              flat_map (fun c => match c with (p, fx, ob) => if fx && ob then [p] else [] end)
                       (filter (fun c => match c with (_, fx, ob) => fx && ob end) cells)).
  { induction cells as [|[[p fx] ob] cells IH]; cbn [flat_map filter]; [reflexivity|].
    destruct (fx && ob) eqn:E; cbn [flat_map app]; [rewrite E; cbn; f_equal; exact IH|exact IH]. }
  rewrite E. reflexivity.
Qed.
