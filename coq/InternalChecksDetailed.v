(* C02 -- the internal consistency tests of the detailed placer (continuation of InternalChecks.v; error type and combinators there):
     DetailedPlacement::check   detailed_placement.cpp:474-585   (constructor :222; runShifts, place_detailed.cpp:442; DetailedPlacer::check)
     IncrNetModel::check        incr_net_model.cpp:260-313
     DetailedPlacer::check      place_detailed.cpp:927-941       (DetailedPlacer::place :87 and :89, runReordering :895)
   on the states of the closed model of DetailedPlacer::run (DetailedRun.v: DetailedValue.pstate = Moves.dstate + the two
   Hpwl.incr), and DetailedPlacement::check once more LINE BY LINE on the index arrays (MovesConcrete.cstate), which is the
   version the tie evaluates on the arrays the C++ holds and on corrupted copies of them.
   In the list models the CSR / pointer bookkeeping of the C++ is the list structure itself; the tests that only concern this
   bookkeeping (vector sizes, first/last/pred/next consistency, netLimits_ / cellLimits_ / cellNets_) cannot fail on a list and
   appear only in the concrete version.  Definitions only; proofs: InternalChecksDetailedProofs.v. *)
From Coq Require Import List ZArith Lia Bool.
Import ListNotations.
Require Import CV.Orient CV.Hpwl CV.Moves CV.MovesConcrete CV.Optimiser CV.DetailedInit CV.DetailedValue CV.InternalChecks.
Local Open Scope Z_scope.

(* ====================================================================================================== *)
(* DetailedPlacement::check on the row lists *)

(* :541-570 for the cells of one row, in row order.  lo = rows_[row].minX for the first cell (first = true), the end of the
   predecessor otherwise; hi = rows_[row].maxX *)
Fixpoint dp_row_check (first : bool) (lo hi : Z) (l : list pcell) : chk_res :=
  match l with
  | [] => CPass
  | c :: t =>
      cseq (throw_if (p_x c <? lo) (if first then EDpOutOfRow else EDpPredOverlap))
     (cseq (match t with
            | [] => throw_if (hi <? p_x c + p_w c) EDpOutOfRow
            | n :: _ => throw_if (p_x n <? p_x c + p_w c) EDpNextOverlap
            end)
           (dp_row_check false (p_x c + p_w c) hi t))
  end.

(* :573-584 *)
Definition dp_orient_check (rowo : orient) (c : pcell) : chk_res :=
  throw_if (negb (check_orient rowo c)) EDpOrientation.

Definition dp_check (d : dstate) : chk_res :=
  cseq (call (fun r => dp_row_check true (dr_min r) (dr_max r) (dr_cells r)) (d_rows d))
       (call (fun r => call (dp_orient_check (dr_o r)) (dr_cells r)) (d_rows d)).

(* ====================================================================================================== *)
(* IncrNetModel::check on Hpwl.incr: nets = list of pin lists (cell, offset), cellPos_ = ipos, netMinMaxPos_ = iminmax,
   value_ = ivalue *)
Definition pair_eqb (a b : Z * Z) : bool := (fst a =? fst b) && (snd a =? snd b).

(* :305-309  minMaxPos[i] != netMinMaxPos_[i] for i < nbNets(); netMinMaxPos_ shorter than the nets: out-of-bounds read *)
Fixpoint bounds_check (pos : list Z) (nets : list (list ipin)) (mm : list (Z * Z)) : chk_res :=
  match nets with
  | [] => CPass
  | net :: nets' => match mm with
                    | [] => CUB
                    | m :: mm' => cseq (throw_if (negb (pair_eqb (net_minmax pos net) m)) EInBound) (bounds_check pos nets' mm')
                    end
  end.

Definition incr_check (s : incr) : chk_res :=
  (* :270-274 for (c : netCells_) c < -1 || c >= nbCells() *)
  cseq (call (fun net => call (fun p : ipin => throw_if (negb (fst p <? length (ipos s))%nat) EInCell) net) (inets s))
  (* :275-280 netLimits_[i] + 1 > netLimits_[i + 1] *)
 (cseq (call (fun net : list ipin => throw_if (length net <? 1)%nat EInNetPins) (inets s))
 (cseq (bounds_check (ipos s) (inets s) (iminmax s))
  (* :310-312 computeValue() != value(): the sum runs over net < nbNets() *)
       (throw_if (negb (sum_widths (firstn (length (inets s)) (iminmax s)) =? ivalue s)) EInValue))).

(* ====================================================================================================== *)
(* DetailedPlacer::check on the paired state: for (c < nbCells()) if (isPlaced(c)) cellPos of both models = the placement's *)
Definition placed_cells (d : dstate) : list (pcell * Z) :=
  flat_map (fun r => map (fun c => (c, dr_y r)) (dr_cells r)) (d_rows d).

Definition coupling_check (s : pstate) : chk_res :=
  call (fun cy : pcell * Z =>
          let id := p_id (fst cy) in
          match nth_error (ipos (ox (ps_o s))) id with
          | None => CUB
          | Some x => cseq (throw_if (negb (x =? p_x (fst cy))) EPlX)
                           (match nth_error (ipos (oy (ps_o s))) id with
                            | None => CUB
                            | Some y => throw_if (negb (y =? snd cy)) EPlY
                            end)
          end) (placed_cells (ps_d s)).

Definition placer_check (s : pstate) : chk_res :=
  cseq (dp_check (ps_d s)) (cseq (incr_check (ox (ps_o s))) (cseq (incr_check (oy (ps_o s))) (coupling_check s))).

(* ====================================================================================================== *)
(* DetailedPlacement::check LINE BY LINE on the index arrays (MovesConcrete.cstate; cellIndex_ is not part of cstate: its size
   is the argument nindex).  Every read goes through getZ: out of range = CUB.  rowCells(i) (:574) follows cellNext_ from
   rowFirstCell(i) until -1 and returns before any orientation of the row is tested: a cycle means that it never returns;
   the walk has fuel nbCells() + 1 (a chain without repetition has at most nbCells() cells) and its exhaustion is CUB as well
   ("no defined result") *)
Definition ub {A} (o : option A) (k : A -> chk_res) : chk_res := match o with Some a => k a | None => CUB end.
Definition zseq (n : nat) : list Z := map Z.of_nat (seq 0 n).

(* :475-504 *)
Definition cdp_sizes (cs : cstate) (nindex : nat) : chk_res :=
  let nr := nb_rows cs in
  let nc := nb_cells cs in
  first_err [ (neq_len (c_rows cs) nr, EDpRowSize); (neq_len (c_first cs) nr, EDpRowSize); (neq_len (c_last cs) nr, EDpRowSize);
              (neq_len (c_width cs) nc, EDpCellSize); (neq_len (c_pred cs) nc, EDpCellSize); (neq_len (c_next cs) nc, EDpCellSize);
              (neq_len (c_row cs) nc, EDpCellSize); (neq_len (MovesConcrete.c_x cs) nc, EDpCellSize);
              (neq_len (MovesConcrete.c_y cs) nc, EDpCellSize); (negb (Nat.eqb nindex nc), EDpCellSize) ].

(* :505-526, row i *)
Definition cdp_row (cs : cstate) (i : Z) : chk_res :=
  ub (rowFirstCell cs i) (fun fc => ub (rowLastCell cs i) (fun lc =>
  if negb (Bool.eqb (lc =? -1) (fc =? -1)) then CFail EDpFirstLast else
  if fc =? -1 then CPass else
  ub (cellRow cs fc) (fun r1 => if negb (r1 =? i) then CFail EDpFirstRow else
  ub (cellPred cs fc) (fun p => if negb (p =? -1) then CFail EDpFirstRow else
  ub (cellRow cs lc) (fun r2 => if negb (r2 =? i) then CFail EDpLastRow else
  ub (cellNext cs lc) (fun n => throw_if (negb (n =? -1)) EDpLastRow)))))).

(* :527-571, cell i *)
Definition cdp_cell (cs : cstate) (i : Z) : chk_res :=
  ub (cellPred cs i) (fun pc => ub (cellNext cs i) (fun nc => ub (cellRow cs i) (fun row =>
  if (row <? -1) || (Z.of_nat (nb_rows cs) <=? row) then CFail EDpRowNumber else
  if row =? -1 then throw_if (negb (pc =? -1) || negb (nc =? -1)) EDpLoose else
  cseq (if negb (pc =? -1) then
          ub (cellRow cs pc) (fun rp => if negb (rp =? row) then CFail EDpPredRow else
          ub (cellX cs pc) (fun xp => ub (cellWidth cs pc) (fun wp => ub (cellX cs i) (fun xi =>
          throw_if (xi <? xp + wp) EDpPredOverlap))))
        else
          ub (rowFirstCell cs row) (fun f => if negb (f =? i) then CFail EDpFirstCell else
          ub (cellX cs i) (fun xi => ub (getZ (c_rows cs) row) (fun g => throw_if (xi <? cr_min g) EDpOutOfRow))))
       (if negb (nc =? -1) then
          ub (cellRow cs nc) (fun rn => if negb (rn =? row) then CFail EDpNextRow else
          ub (cellX cs i) (fun xi => ub (cellWidth cs i) (fun wi => ub (cellX cs nc) (fun xn =>
          throw_if (xn <? xi + wi) EDpNextOverlap))))
        else
          ub (rowLastCell cs row) (fun l => if negb (l =? i) then CFail EDpLastCell else
          ub (cellX cs i) (fun xi => ub (cellWidth cs i) (fun wi => ub (getZ (c_rows cs) row) (fun g =>
          throw_if (cr_max g <? xi + wi) EDpOutOfRow)))))))).

(* rowCells(row): for (c = rowFirstCell(row); c != -1; c = cellNext(c)) *)
Fixpoint walk_next (cs : cstate) (fuel : nat) (c : Z) : option (list Z) :=
  if c =? -1 then Some [] else
  match fuel with
  | O => None
  | S f => match cellNext cs c with
           | None => None
           | Some nx => match walk_next cs f nx with Some rest => Some (c :: rest) | None => None end
           end
  end.

(* :573-584, row i *)
Definition cdp_orient_row (cs : cstate) (i : Z) : chk_res :=
  ub (rowFirstCell cs i) (fun f => ub (walk_next cs (S (nb_cells cs)) f) (fun l =>
  call (fun c => ub (getZ (c_orient cs) c) (fun o => ub (getZ (MovesConcrete.c_pol cs) c) (fun pol => ub (getZ (c_rows cs) i) (fun g =>
          let e := cell_orientation_in_row pol (cr_o g) in
          throw_if (negb (orient_eqb e oUNKNOWN) && negb (orient_eqb o e)) EDpOrientation)))) l)).

Definition cdp_check (cs : cstate) (nindex : nat) : chk_res :=
  cseq (cdp_sizes cs nindex)
 (cseq (call (cdp_row cs) (zseq (nb_rows cs)))
 (cseq (call (cdp_cell cs) (zseq (nb_cells cs)))
       (call (cdp_orient_row cs) (zseq (nb_rows cs))))).

(* DetailedPlacer::check :931-940 on the arrays *)
Definition ccoupling_check (cs : cstate) (xpos ypos : list Z) : chk_res :=
  call (fun c => ub (isPlaced cs c) (fun pl =>
          if negb pl then CPass else
          ub (getZ xpos c) (fun x => ub (cellX cs c) (fun px => if negb (x =? px) then CFail EPlX else
          ub (getZ ypos c) (fun y => ub (getZ (MovesConcrete.c_y cs) c) (fun py => throw_if (negb (y =? py)) EPlY))))))
       (zseq (nb_cells cs)).

Definition cplacer_check (cs : cstate) (nindex : nat) (xm ym : incr) : chk_res :=
  cseq (cdp_check cs nindex) (cseq (incr_check xm) (cseq (incr_check ym) (ccoupling_check cs (ipos xm) (ipos ym)))).

(* helper of the correspondence driver *)
Definition incr_make (pos : list Z) (nets : list (list ipin)) (mm : list (Z * Z)) (v : Z) : incr :=
  {| ipos := pos; inets := nets; iminmax := mm; ivalue := v |}.
