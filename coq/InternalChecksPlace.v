(* C02 -- DetailedPlacer::place (place_detailed.cpp:75-96) as Circuit::placeDetailed reaches it, with EVERY test on the way:
     legalize(circuit, params, callback)     InternalChecksEntry.legalize_entry   (params.check(), Legalizer + its tests, export)
     params.check()                          the same (copied) parameters: passes when the first one did
     DetailedPlacer pl(circuit, params)      DetailedInit.from_circuit (fromIspdCircuit + constructor + its check()),
                                             DetailedValue.init_models (IncrNetModel::xTopology / yTopology)
     pl.check(); pl.run(); pl.check()        InternalChecksDetailed.placer_check on the initial state, DetailedRun.run_passes_c
                                             (shift driver closed, lemon's answers an oracle checked by the proved certificate
                                             checker), placer_check on every exposed state and on the final one -- the C++ tests
                                             inside run() (placement_.check() after runShifts, check() after runReordering) are on
                                             states that are exposed at the next callback, so this is a superset
     pl.exportPlacement(circuit)             DetailedExport.write_back
   The user callback (C10: it may throw, or modify the circuit and trigger "Updating the size of circuit elements is not
   supported") is outside: the model records the circuits the callbacks would see.  Definitions only. *)
From Coq Require Import List ZArith QArith Bool.
Import ListNotations.
Require Import CV.Params CV.CellOrder.
Require Import CV.Circuit CV.Hpwl CV.Legalizer CV.DetailedInit CV.DetailedExport CV.DetailedValue CV.DetailedRun.
Require Import CV.InternalChecks CV.InternalChecksEntry CV.InternalChecksDetailed.
Local Open Scope Z_scope.

(* DetailedPlacerParameters as the closed model of run() reads them *)
Definition dparams_of (P : ColoquinteParams) : dparams :=
  let d := cp_detailed P in
  {| DetailedRun.dp_nbPasses := Params.dp_nbPasses d;
     DetailedRun.dp_localSearchNbNeighbours := Params.dp_localSearchNbNeighbours d;
     DetailedRun.dp_localSearchNbRows := Params.dp_localSearchNbRows d;
     DetailedRun.dp_shiftNbRows := Params.dp_shiftNbRows d;
     DetailedRun.dp_shiftMaxNbCells := Params.dp_shiftMaxNbCells d;
     DetailedRun.dp_reorderingNbRows := Params.dp_reorderingNbRows d;
     DetailedRun.dp_reorderingMaxNbCells := Params.dp_reorderingMaxNbCells d |}.

Inductive place_result :=
| PlParams (m : Msg)                     (* params.check() throws *)
| PlLegalize (r : leg_result_chk)        (* legalization does not return a circuit *)
| PlConstruct (e : dp_error)             (* fromIspdCircuit / the DetailedPlacement constructor throws *)
| PlCheck (e : chk_err)                  (* an internal check() throws *)
| PlUB                                   (* an internal check() reads out of bounds *)
| PlRun (e : rerr)                       (* run() stops *)
| PlOk (c' : circuit) (exposed : list circuit) (unused : list shift_answer).

Definition place_entry (P : ColoquinteParams) (c0 : circuit) (nets : list (list hpin)) (answers : list shift_answer) : place_result :=
  match legalize_entry P c0 with
  | EnParams m => PlParams m
  | EnRes (LcOk c) =>
      match from_circuit c with
      | DErr e => PlConstruct e
      | DOk d0 =>
          let s0 := {| ps_d := d0; ps_o := init_models c nets |} in
          match placer_check s0 with
          | CFail e => PlCheck e
          | CUB => PlUB
          | CPass =>
              match run_passes_c (dparams_of P) answers s0 with
              | RErr e => PlRun e
              | ROk (s', ex, rest) =>
                  match call placer_check (ex ++ [s']) with
                  | CFail e => PlCheck e
                  | CUB => PlUB
                  | CPass => PlOk (write_back c (ps_d s')) (map (fun st => write_back c (ps_d st)) ex) rest
                  end
              end
          end
      end
  | EnRes r => PlLegalize r
  end.
