(* Unbounded optimality of the row legalizer (cascading descent).

   Absolute coordinate of a cell = position minus the width of the older cells.
   The queue of bounds of a state s represents the function
       Phi_s(a) = C + R (bounds s) a,      R q a = sum_{x in q} bw x * max 0 (bpos x - a)
   (C = sum of the costs reported so far).  Invariant: Phi_s(a) is
     (P1) the cost of the clamped placement  a_i = min (a, min_{j>=i} cpos_j), and
     (P2) a lower bound of the cost of every legal placement whose newest cell
          has absolute position <= a  (a <= rend - used).
   Hence C is the cost of [placement s] and the minimum cost. *)
From Coq Require Import List ZArith Lia Bool.
Import ListNotations.
Require Import CV.RowLeg CV.RowLegProofs CV.RowLegCert CV.RowLegChecked.
Local Open Scope Z_scope.

(* ------------------------------------------------------------------ *)
(* the piecewise-linear function represented by a queue *)
Definition bterm (a : Z) (x : bound) : Z := bw x * Z.max 0 (bpos x - a).
Fixpoint R (q : list bound) (a : Z) : Z :=
  match q with [] => 0 | x :: q' => bterm a x + R q' a end.
Fixpoint wsum (q : list bound) : Z :=
  match q with [] => 0 | x :: q' => bw x + wsum q' end.

Lemma R_app l1 l2 a : R (l1 ++ l2) a = R l1 a + R l2 a.
Proof. induction l1 as [|x l1 IH]; cbn [app R]; [reflexivity|]. rewrite IH. ring. Qed.

Lemma wsum_app l1 l2 : wsum (l1 ++ l2) = wsum l1 + wsum l2.
Proof. induction l1 as [|x l1 IH]; cbn [app wsum]; [reflexivity|]. rewrite IH. ring. Qed.

Lemma R_insert x q a : R (pq_insert x q) a = bterm a x + R q a.
Proof.
  induction q as [|y q IH]; cbn [pq_insert R]; [reflexivity|].
  destruct (bound_lt y x); cbn [R]; [reflexivity|]. rewrite IH. ring.
Qed.

Lemma bterm_nonneg a x : 0 < bw x -> 0 <= bterm a x.
Proof. unfold bterm. intros. apply Z.mul_nonneg_nonneg; lia. Qed.

Lemma R_nonneg q a : Forall (fun x => 0 < bw x) q -> 0 <= R q a.
Proof.
  induction 1 as [|x q Hx _ IH]; cbn [R]; [lia|]. pose proof (bterm_nonneg a x Hx). lia.
Qed.

Lemma R_mono q a a' : Forall (fun x => 0 < bw x) q -> a <= a' -> R q a' <= R q a.
Proof.
  intros H Ha. induction H as [|x q Hx _ IH]; cbn [R]; [lia|].
  assert (bterm a' x <= bterm a x); [|lia].
  unfold bterm. apply Z.mul_le_mono_nonneg_l; lia.
Qed.

Lemma R_zero q a : Forall (fun x => bpos x <= a) q -> R q a = 0.
Proof.
  induction 1 as [|x q Hx _ IH]; cbn [R]; [reflexivity|]. rewrite IH. unfold bterm.
  rewrite Z.max_l by lia. ring.
Qed.

(* left of every bound the function is affine *)
Lemma R_above q a a' :
  Forall (fun x => a' <= bpos x) q -> a <= a' -> R q a = R q a' + (a' - a) * wsum q.
Proof.
  intros H Ha. induction H as [|x q Hx _ IH]; cbn [R wsum]; [ring|]. rewrite IH. unfold bterm.
  rewrite !Z.max_r by lia. ring.
Qed.

(* Lipschitz with the total weight *)
Lemma R_lip q a a' :
  Forall (fun x => 0 < bw x) q -> a <= a' -> R q a - R q a' <= (a' - a) * wsum q.
Proof.
  intros H Ha. induction H as [|x q Hx _ IH]; cbn [R wsum]; [lia|].
  assert (bterm a x - bterm a' x <= (a' - a) * bw x); [|lia].
  unfold bterm. 
  assert (Z.max 0 (bpos x - a) - Z.max 0 (bpos x - a') <= a' - a) by lia.
  nia.
Qed.

Lemma bound_lt_false_pos x y : bound_lt x y = false -> bpos y <= bpos x.
Proof. unfold bound_lt. intros H. apply orb_false_iff in H as [H _]. apply Z.ltb_ge in H. exact H. Qed.

Lemma sorted_head_max x q : sorted_q (x :: q) -> Forall (fun y => bpos y <= bpos x) q.
Proof.
  intros H. apply sorted_q_all_le in H. eapply Forall_impl; [|exact H].
  intros y Hy. apply bound_lt_false_pos. exact Hy.
Qed.

(* ------------------------------------------------------------------ *)
(* the while loop of getDisplacement *)

(* when the loop has come back inside the limit, the last bound was passed
   while descending: right of cur_pos the old function decreases slower than
   the new cell's cost increases *)
Definition J (ta lim w : Z) (passed : list bound) (cp : Z) : Prop :=
  cp <= lim -> ta < cp /\ forall a, cp <= a -> R passed cp - R passed a <= w * (a - cp).

Ltac splits := repeat match goal with |- _ /\ _ => split end.

Lemma pop_loop_spec lo ta lim w : forall q passed sl cp c q' passed' sl' cp' c',
  pop_loop q ta lim w passed sl cp c = (q', passed', sl', cp', c') ->
  sorted_q q -> Forall (fun x => bpos x <= cp) q -> Forall (fun x => 0 < bw x) q ->
  Forall (fun x => lo <= bpos x) q -> lo <= cp ->
  Forall (fun x => cp <= bpos x) passed -> Forall (fun x => 0 < bw x) passed ->
  sl + w = wsum passed -> c = R passed cp -> J ta lim w passed cp ->
  passed ++ q = passed' ++ q' /\
  Forall (fun x => cp' <= bpos x) passed' /\ Forall (fun x => 0 < bw x) passed' /\
  sl' + w = wsum passed' /\ c' = R passed' cp' /\ J ta lim w passed' cp' /\ lo <= cp' /\
  Forall (fun x => bpos x <= cp') q' /\ Forall (fun x => bpos x <= lim) q' /\
  (sl' < 0 -> Forall (fun x => bpos x <= ta) q') /\
  Forall (fun x => 0 < bw x) q' /\ Forall (fun x => lo <= bpos x) q'.
Proof.
  induction q as [|t q IH]; intros passed sl cp c q' passed' sl' cp' c'; cbn [pop_loop].
  - intros [= <- <- <- <- <-]. intros. splits; try assumption; try constructor.
  - destruct (_ || _) eqn:Cond.
    + intros Hl Hs Hle Hw Hlo Hlocp Hp Hpw Hsl Hc HJ.
      inversion Hle as [|? ? Ht Hle']; subst. inversion Hw as [|? ? Htw Hw']; subst.
      inversion Hlo as [|? ? Htlo Hlo']; subst.
      assert (HR : R passed (bpos t) = R passed cp + (cp - bpos t) * wsum passed).
      { apply R_above; [exact Hp|exact Ht]. }
      apply IH in Hl.
      * rewrite <- app_assoc in Hl. cbn [app] in Hl. exact Hl.
      * exact (sorted_q_tail _ _ Hs).
      * apply sorted_head_max. exact Hs.
      * exact Hw'.
      * exact Hlo'.
      * exact Htlo.
      * apply Forall_app. split; [|constructor; [lia|constructor]].
        eapply Forall_impl; [|exact Hp]. cbn. intros; lia.
      * apply Forall_app. split; [exact Hpw|constructor; [exact Htw|constructor]].
      * rewrite wsum_app. cbn [wsum]. lia.
      * rewrite R_app. cbn [R]. unfold bterm. rewrite Z.sub_diag, Z.max_id.
        rewrite HR, <- Hsl. ring.
      * intros Hin. apply orb_true_iff in Cond as [Cond|Cond]; [|apply Z.ltb_lt in Cond; lia].
        apply andb_true_iff in Cond as [C1 C2]. apply Z.ltb_lt in C1, C2. split; [exact C2|].
        intros a Ha. rewrite !R_app. cbn [R]. unfold bterm. rewrite Z.sub_diag.
        rewrite (Z.max_l 0 (bpos t - a)) by lia. rewrite Z.max_id.
        pose proof (R_lip passed (bpos t) a Hpw Ha) as HL.
        assert ((a - bpos t) * wsum passed <= w * (a - bpos t)) by nia. lia.
    + intros [= <- <- <- <- <-]. intros Hs Hle Hw Hlo Hlocp Hp Hpw Hsl Hc HJ.
      apply orb_false_iff in Cond as [C1 C2]. apply Z.ltb_ge in C2.
      pose proof (sorted_head_max _ _ Hs) as Hmax.
      splits; try assumption; try reflexivity.
      * constructor; [exact C2|]. eapply Forall_impl; [|exact Hmax]. cbn. intros; lia.
      * intros Hneg. apply andb_false_iff in C1 as [C1|C1]; [apply Z.ltb_ge in C1; lia|].
        apply Z.ltb_ge in C1. constructor; [exact C1|].
        eapply Forall_impl; [|exact Hmax]. cbn. intros; lia.
Qed.

(* ------------------------------------------------------------------ *)
(* one push *)
Ltac lin_minmax := repeat match goal with
  | |- context [Z.max ?x ?y] =>
      first [replace (Z.max x y) with x by lia | replace (Z.max x y) with y by lia]
  | |- context [Z.min ?x ?y] =>
      first [replace (Z.min x y) with x by lia | replace (Z.min x y) with y by lia]
  | |- context [Z.abs ?x] =>
      first [replace (Z.abs x) with x by lia | replace (Z.abs x) with (- x) by lia]
  end.

Definition qinv (s : rl) : Prop :=
  Forall (fun x => rbegin s <= bpos x <= rend s - used s) (bounds s) /\
  Forall (fun x => 0 < bw x) (bounds s).

Lemma push_spec s w t :
  sorted_q (bounds s) -> qinv s -> 0 <= used s -> 0 < w -> w <= remaining_space s ->
  let s' := fst (push s w t) in
  let ret := snd (push s w t) in
  let tau := t - used s in
  let limit := rend s - used s - w in
  exists final,
    rbegin s' = rbegin s /\ rend s' = rend s /\ cpos s' = final :: cpos s /\
    widths s' = w :: widths s /\ used s' = used s + w /\
    rbegin s <= final <= limit /\
    (forall a, rbegin s <= a ->
       ret + R (bounds s') a = R (bounds s) (Z.min a final) + w * Z.abs (Z.min a final - tau)) /\
    (forall a, final <= a <= limit ->
       R (bounds s) final + w * Z.abs (final - tau) <= R (bounds s) a + w * Z.abs (a - tau)) /\
    qinv s'.
Proof.
  intros Hs [Hrange Hwpos] Hu Hw Hfit. unfold remaining_space in Hfit.
  cbv zeta. unfold push, get_displacement.
  set (tau := t - used s). set (limit := rend s - used s - w).
  destruct (pop_loop _ _ _ _ _ _ _ _) as [[[[q' popped] slope] cur] cost] eqn:E.
  apply (pop_loop_spec (rbegin s)) in E; try assumption; try (constructor; fail); try lia.
  2:{ eapply Forall_impl; [|exact Hrange]. cbn. intros; lia. }
  2:{ eapply Forall_impl; [|exact Hrange]. cbn. intros; lia. }
  2:{ cbn. lia. }
  2:{ intros H. unfold limit in H. lia. }
  destruct E as (Hq & Hpge & Hpw & Hsl & Hc & HJ & Hlocur & Hqcur & Hqlim & Hqta & Hqw & Hqlo).
  cbn [app] in Hq.
  set (final := Z.min limit (Z.max (rbegin s) (if 0 <=? slope then cur else tau))).
  exists final. cbn [fst snd rbegin rend cpos widths used bounds].
  (* position facts *)
  assert (Hfc : final <= cur).
  { unfold final. destruct (Z.leb_spec 0 slope) as [Hs0|Hs0]; [lia|].
    destruct (Z.le_gt_cases cur limit) as [Hcl|Hcl]; [|lia].
    destruct (HJ Hcl) as [Hta _]. lia. }
  assert (Hfr : rbegin s <= final <= limit) by (unfold final, limit; lia).
  assert (Hqf : Forall (fun x => bpos x <= final) q').
  { unfold final. destruct (Z.leb_spec 0 slope) as [Hs0|Hs0].
    - apply Forall_forall. intros x Hx. rewrite Forall_forall in Hqcur, Hqlim.
      specialize (Hqcur x Hx). specialize (Hqlim x Hx). cbn in *. lia.
    - specialize (Hqta Hs0). apply Forall_forall. intros x Hx. rewrite Forall_forall in Hqta, Hqlim.
      specialize (Hqta x Hx). specialize (Hqlim x Hx). cbn in *. lia. }
  assert (Hpf : Forall (fun x => final <= bpos x) popped).
  { eapply Forall_impl; [|exact Hpge]. cbn. intros; lia. }
  assert (Hcost : cost + (cur - final) * (slope + w) = R popped final).
  { rewrite (R_above popped final cur Hpge Hfc), Hsl, Hc. ring. }
  rewrite Hcost.
  assert (HRq : forall a, a <= final -> R (bounds s) a = R popped final + (final - a) * (slope + w) + R q' a).
  { intros a Ha. rewrite Hq, R_app, (R_above popped a final Hpf Ha), Hsl. ring. }
  match goal with |- context [R ?q2 _] => match q2 with (if _ then _ else _) => set (q2' := q2) end end.
  assert (HR2 : forall a, R q2' a =
      (if rbegin s <? tau then bterm a {| bpos := Z.min tau final; bw := 2 * w + Z.min slope 0 |} else 0)
      + (if 0 <? slope then bterm a {| bpos := Z.min cur final; bw := slope |} else 0) + R q' a).
  { intros a. unfold q2'. destruct (rbegin s <? tau); destruct (0 <? slope); rewrite ?R_insert; ring. }
  assert (Hfpos : 0 <= slope -> final = Z.min limit cur) by (unfold final; destruct (Z.leb_spec 0 slope); lia).
  assert (Hfneg : slope < 0 -> final = Z.min limit (Z.max (rbegin s) tau))
    by (unfold final; destruct (Z.leb_spec 0 slope); lia).
  assert (Hsw : - w <= slope).
  { pose proof (R_nonneg popped (cur - 1) Hpw). 
    assert (0 <= wsum popped); [|lia]. clear - Hpw. induction Hpw; cbn [wsum]; lia. }
  assert (Hq2 : Forall (fun x => rbegin s <= bpos x <= final) q2' /\ Forall (fun x => 0 < bw x) q2').
  { assert (Hins : forall x q, (rbegin s <= bpos x <= final) -> 0 < bw x ->
               Forall (fun x => rbegin s <= bpos x <= final) q /\ Forall (fun x => 0 < bw x) q ->
               Forall (fun x => rbegin s <= bpos x <= final) (pq_insert x q) /\ Forall (fun x => 0 < bw x) (pq_insert x q)).
    { intros x q Hx1 Hx2. induction q as [|y q IH]; cbn [pq_insert]; intros [H1 H2].
      - split; constructor; auto.
      - destruct (bound_lt y x); [split; constructor; auto|].
        inversion H1; inversion H2; subst. destruct IH as [I1 I2]; [split; assumption|].
        split; constructor; assumption. }
    assert (H0 : Forall (fun x => rbegin s <= bpos x <= final) q' /\ Forall (fun x => 0 < bw x) q').
    { split; [|exact Hqw]. apply Forall_forall. intros x Hx. rewrite Forall_forall in Hqf, Hqlo.
      specialize (Hqf x Hx). specialize (Hqlo x Hx). cbn in *. lia. }
    unfold q2'. destruct (Z.ltb_spec (rbegin s) tau); destruct (Z.ltb_spec 0 slope);
      repeat (apply Hins; cbn [bpos bw]; try lia); exact H0. }
  clearbody final q2'. clear Hcost.
  splits; try reflexivity; try lia.
  - (* K1 *)
    intros a Ha. rewrite HR2. destruct (Z.le_gt_cases final a) as [Hfa|Hfa].
    + rewrite (Z.min_r a final) by lia. rewrite (HRq final) by lia.
      rewrite (R_zero q' a), (R_zero q' final); [| exact Hqf | eapply Forall_impl; [|exact Hqf]; cbn; intros; lia].
      unfold bterm; cbn [bpos bw].
      destruct (rbegin s <? tau); destruct (0 <? slope); lin_minmax; ring.
    + rewrite (Z.min_l a final) by lia. rewrite (HRq a) by lia.
      unfold bterm; cbn [bpos bw].
      destruct (Z.ltb_spec (rbegin s) tau) as [Hbt|Hbt]; destruct (Z.ltb_spec 0 slope) as [Hs0|Hs0].
      * destruct (Z.le_gt_cases tau a); [|destruct (Z.le_gt_cases tau final)]; lin_minmax; ring.
      * destruct (Z.eq_dec slope 0) as [->|Hne].
        -- destruct (Z.le_gt_cases tau a); [|destruct (Z.le_gt_cases tau final)]; lin_minmax; ring.
        -- specialize (Hfneg ltac:(lia)). lin_minmax; ring.
      * lin_minmax; ring.
      * destruct (Z.eq_dec slope 0) as [->|Hne]; [lin_minmax; ring|]. specialize (Hfneg ltac:(lia)). lia.
  - (* K2 *)
    intros a [Hfa Hal]. destruct (Z.eq_dec final limit) as [Hfl|Hfl].
    { assert (a = final) by lia. subst a. lia. }
    rewrite Hq, !R_app. rewrite (R_zero q' a), (R_zero q' final);
      [| exact Hqf | eapply Forall_impl; [|exact Hqf]; cbn; intros; lia].
    destruct (Z.le_gt_cases 0 slope) as [Hs0|Hs0].
    + specialize (Hfpos Hs0). assert (Hfcur : final = cur) by lia.
      assert (Hcl : cur <= limit) by lia. destruct (HJ Hcl) as [Hta HL].
      specialize (HL a ltac:(lia)). rewrite <- Hfcur in HL. lin_minmax. lia.
    + specialize (Hfneg Hs0). pose proof (R_lip popped final a Hpw Hfa) as HL.
      rewrite <- Hsl in HL. lin_minmax. nia.
  - (* queue invariant *)
    destruct Hq2 as [H1 H2]. split; cbn [rbegin rend used bounds]; [|exact H2].
    eapply Forall_impl; [|exact H1]. cbn. unfold limit in Hfr. intros; lia.
Qed.

(* ------------------------------------------------------------------ *)
(* placements and costs, newest cell first (the orientation of the state) *)
Fixpoint cost_nf (h : list (Z * Z)) (xs : list Z) : Z :=
  match h, xs with
  | (w, t) :: h', x :: xs' => w * Z.abs (x - t) + cost_nf h' xs'
  | _, _ => 0
  end.

(* every cell ends before [hi] = the start of the next newer cell (or the segment end) *)
Fixpoint legal_nf (b hi : Z) (h : list (Z * Z)) (xs : list Z) : Prop :=
  match h, xs with
  | (w, _) :: h', x :: xs' => x + w <= hi /\ legal_nf b x h' xs'
  | [], [] => b <= hi
  | _, _ => False
  end.

Definition tw (ws : list Z) : Z := fold_right Z.add 0 ws.

Lemma legal_nf_lower b : forall h xs hi, legal_nf b hi h xs -> b + tw (map fst h) <= hi.
Proof.
  induction h as [|[w t] h IH]; intros [|x xs] hi; cbn [legal_nf map fst tw fold_right]; try tauto; [lia|].
  intros [H1 H2]. apply IH in H2. unfold tw in H2. lia.
Qed.

Lemma cp_ok_used b e : forall cp ws u, cp_ok b e cp ws u -> u = tw ws.
Proof.
  induction cp as [|c cp IH]; intros [|w ws] u; cbn [cp_ok tw fold_right]; try tauto.
  intros (_ & _ & _ & H). apply IH in H. unfold tw in H. lia.
Qed.

(* the invariant: C = sum of the reported costs, h = history of (width, target) *)
Definition Good (s : rl) (h : list (Z * Z)) (C : Z) : Prop :=
  Inv s /\ qinv s /\ widths s = map fst h /\
  (forall a, rbegin s <= a ->
     C + R (bounds s) a = cost_nf h (placement_aux (cpos s) (widths s) (used s) (Some a))) /\
  (forall hi xs, legal_nf (rbegin s) hi h xs -> hi <= rend s ->
     C + R (bounds s) (hi - used s) <= cost_nf h xs).

Lemma good_init b e : b <= e -> Good (rl_init b e) [] 0.
Proof.
  intros H. unfold Good. splits.
  - apply init_inv; exact H.
  - split; constructor.
  - reflexivity.
  - intros a _. reflexivity.
  - intros hi [|x xs]; cbn; [lia|tauto].
Qed.

Lemma good_push s h C w t :
  Good s h C -> 0 < w -> w <= remaining_space s ->
  Good (fst (push s w t)) ((w, t) :: h) (C + snd (push s w t)).
Proof.
  intros (HI & HQ & Hws & P1 & P2) Hw Hfit.
  pose proof (push_inv s w t HI Hw Hfit) as HI'.
  destruct HI as (Hcp & Hbe & Hu & Hsorted).
  destruct (push_spec s w t Hsorted HQ Hu Hw Hfit) as (final & Eb & Ee & Ecp & Ews & Eu & Hfr & K1 & K2 & HQ').
  cbv zeta in *. unfold Good. rewrite Eb, Ee, Ecp, Ews, Eu. splits.
  - exact HI'.
  - exact HQ'.
  - cbn [map fst]. rewrite Hws. reflexivity.
  - intros a Ha. cbn [placement_aux cost_nf]. replace (used s + w - w) with (used s) by lia.
    rewrite <- P1 by lia. specialize (K1 a Ha).
    replace (Z.min a final + used s - t) with (Z.min a final - (t - used s)) by lia. lia.
  - intros hi [|x xs]; cbn [legal_nf cost_nf]; [tauto|]. intros [Hx Hleg] Hhi.
    pose proof (legal_nf_lower _ _ _ _ Hleg) as Hlow. rewrite <- Hws in Hlow.
    rewrite <- (cp_ok_used _ _ _ _ _ Hcp) in Hlow.
    specialize (P2 x xs Hleg ltac:(lia)).
    set (ak := x - used s) in *.
    assert (Hak : rbegin s <= ak <= rend s - used s - w) by (unfold ak; lia).
    specialize (K1 ak ltac:(lia)).
    assert (Hstep : snd (push s w t) + R (bounds (fst (push s w t))) ak
                    <= R (bounds s) ak + w * Z.abs (ak - (t - used s))).
    { destruct (Z.le_gt_cases ak final) as [Hc|Hc].
      - rewrite Z.min_l in K1 by lia. lia.
      - rewrite Z.min_r in K1 by lia. specialize (K2 ak ltac:(lia)). lia. }
    destruct HQ' as [_ HQw].
    pose proof (R_mono _ ak (hi - (used s + w)) HQw ltac:(unfold ak; lia)) as Hm.
    replace (x - t) with (ak - (t - used s)) by (unfold ak; lia). lia.
Qed.

(* ------------------------------------------------------------------ *)
(* histories *)
Fixpoint costs_fwd (s : rl) (ops : list op) : list Z :=
  match ops with [] => [] | o :: r => snd (step s o) :: costs_fwd (fst (step s o)) r end.

Lemma run_ops_eq b e ops :
  run_ops b e ops = (run_state (rl_init b e) ops, costs_fwd (rl_init b e) ops).
Proof.
  unfold run_ops.
  assert (G : forall s acc,
    fold_left (fun '(s, cs) o => let '(s', c) := step s o in (s', c :: cs)) ops (s, acc)
    = (run_state s ops, rev (costs_fwd s ops) ++ acc)).
  { induction ops as [|o r IH]; intros s acc; cbn [fold_left costs_fwd run_state rev app]; [reflexivity|].
    destruct (step s o) as [s' c] eqn:E. rewrite IH. cbn [fst snd]. unfold run_state. 
    rewrite <- app_assoc. reflexivity. }
  rewrite G. rewrite app_nil_r, rev_involutive. reflexivity.
Qed.

Lemma good_run ops : forall s h C,
  Good s h C -> fits s ops ->
  Good (run_state s ops) (rev (push_list ops) ++ h) (C + push_cost_sum ops (costs_fwd s ops)).
Proof.
  induction ops as [|o r IH]; intros s h C HG Hf; cbn [run_state fold_left push_list rev app costs_fwd push_cost_sum].
  - rewrite Z.add_0_r. exact HG.
  - destruct Hf as [Ho Hr]. destruct o as [w t|w t]; cbn [step] in *.
    + cbn [rev]. rewrite <- app_assoc. cbn [app]. rewrite Z.add_assoc. apply IH; [|exact Hr].
      apply good_push; [exact HG|lia|lia].
    + assert (E : fst (get_cost s w t) = s).
      { apply query_restores_state. destruct HG as ((_ & _ & _ & H) & _). exact H. }
      rewrite E in *. apply IH; assumption.
Qed.

(* ------------------------------------------------------------------ *)
(* bridge to the oldest-first statement of RowLegCert *)
Lemma legal_from_length : forall cs zs lo e, legal_from lo e cs zs -> length zs = length cs.
Proof.
  induction cs as [|c cs IH]; intros [|z zs] lo e; cbn [legal_from length]; try tauto.
  intros [_ H]. f_equal. eapply IH; exact H.
Qed.

Lemma legal_nf_snoc b w t x : forall h xs hi, length h = length xs ->
  (legal_nf b hi (h ++ [(w, t)]) (xs ++ [x]) <-> b <= x /\ legal_nf (x + w) hi h xs).
Proof.
  induction h as [|[w' t'] h IH]; intros [|x' xs] hi; cbn [length app legal_nf]; try discriminate.
  - intros _. tauto.
  - intros [= Hl]. rewrite (IH xs x' Hl). tauto.
Qed.

Lemma cost_nf_snoc w t x : forall h xs, length h = length xs ->
  cost_nf (h ++ [(w, t)]) (xs ++ [x]) = cost_nf h xs + w * Z.abs (x - t).
Proof.
  induction h as [|[w' t'] h IH]; intros [|x' xs]; cbn [length app cost_nf]; try discriminate.
  - intros _. ring.
  - intros [= Hl]. rewrite (IH xs Hl). ring.
Qed.

Lemma bridge_legal e : forall ps pl zs lo,
  length pl = length ps -> length zs = length ps ->
  (legal_from lo e (mk_cells ps pl) zs <-> legal_nf lo e (rev ps) (rev zs)).
Proof.
  induction ps as [|[w t] ps IH]; intros [|x pl] [|z zs] lo; cbn [length mk_cells legal_from rev]; try discriminate.
  - intros _ _. cbn. tauto.
  - intros [= H1] [= H2]. cbn [cw]. rewrite legal_nf_snoc by (rewrite !rev_length; lia).
    rewrite (IH pl zs (z + w) H1 H2). tauto.
Qed.

Lemma bridge_cost : forall ps pl zs,
  length pl = length ps -> length zs = length ps ->
  cost_of (mk_cells ps pl) zs = cost_nf (rev ps) (rev zs).
Proof.
  induction ps as [|[w t] ps IH]; intros [|x pl] [|z zs]; cbn [length mk_cells cost_of rev]; try discriminate.
  - reflexivity.
  - intros [= H1] [= H2]. rewrite cost_nf_snoc by (rewrite !rev_length; lia).
    rewrite (IH pl zs H1 H2). unfold cost_at. cbn [cw ct]. ring.
Qed.

Lemma mk_cells_length ps pl : length pl = length ps -> length (mk_cells ps pl) = length ps.
Proof.
  revert pl. induction ps as [|[w t] ps IH]; intros [|x pl]; cbn; try discriminate; try reflexivity.
  intros [= H]. f_equal. apply IH; exact H.
Qed.

Lemma legal_rev_nf b : forall h pl hi,
  legal_rev b hi pl (map fst h) -> b <= hi -> legal_nf b hi h pl.
Proof.
  induction h as [|[w t] h IH]; intros [|x pl] hi; cbn [map fst legal_rev legal_nf]; try tauto.
  intros (H1 & H2 & H3) _. split; [exact H1|]. apply IH; assumption.
Qed.

Lemma placement_aux_some_none c cp ws u a :
  c <= a -> placement_aux (c :: cp) ws u (Some a) = placement_aux (c :: cp) ws u None.
Proof. intros H. destruct ws as [|w ws]; cbn [placement_aux]; [reflexivity|]. rewrite Z.min_r by lia. reflexivity. Qed.

Lemma placement_aux_length b e : forall cp ws u m,
  cp_ok b e cp ws u -> length (placement_aux cp ws u m) = length ws.
Proof.
  induction cp as [|c cp IH]; intros [|w ws] u m; cbn [cp_ok placement_aux length]; try tauto.
  intros (_ & _ & _ & H). f_equal. apply IH; exact H.
Qed.

(* ------------------------------------------------------------------ *)
(* main theorem *)
Theorem rowleg_optimal b e ops :
  b <= e -> fits (rl_init b e) ops ->
  let pl := fst (run b e ops) in
  let costs := snd (run b e ops) in
  let cs := mk_cells (push_list ops) pl in
  length pl = length (push_list ops) /\
  legal_from b e cs pl /\
  (forall zs, legal_from b e cs zs -> cost_of cs pl <= cost_of cs zs) /\
  push_cost_sum ops costs = cost_of cs pl.
Proof.
  intros Hbe Hf. cbv zeta. unfold run. rewrite run_ops_eq. cbn [fst snd].
  pose proof (good_run ops _ _ _ (good_init b e Hbe) Hf) as HG.
  rewrite app_nil_r, Z.add_0_l in HG.
  set (s := run_state (rl_init b e) ops) in *. set (ps := push_list ops) in *.
  set (C := push_cost_sum ops (costs_fwd (rl_init b e) ops)) in *.
  destruct (run_state_bounds ops (rl_init b e)) as [Hb He]. fold s in Hb, He. cbn [rl_init rbegin rend] in Hb, He.
  destruct HG as (HI & HQ & Hws & P1 & P2). rewrite Hb in P1, P2. rewrite He in P2.
  pose proof (placement_legal_rev s HI) as HL. rewrite Hb, He in HL.
  destruct HI as (Hcp & Hbe' & Hu & Hsorted). rewrite Hb, He in Hcp, Hbe'.
  set (pa := placement_aux (cpos s) (widths s) (used s) None) in *.
  assert (Hlen : length pa = length ps).
  { unfold pa. rewrite (placement_aux_length _ _ _ _ _ _ Hcp), Hws, map_length, rev_length. reflexivity. }
  unfold placement. fold pa.
  assert (Hlen' : length (rev pa) = length ps) by (rewrite rev_length; exact Hlen).
  (* the reported costs sum to the cost of the placement *)
  assert (HC : C = cost_nf (rev ps) pa).
  { specialize (P1 e Hbe). rewrite R_zero in P1.
    - rewrite Z.add_0_r in P1. rewrite P1. f_equal. unfold pa.
      destruct (cpos s) as [|c cp] eqn:Ec; [reflexivity|]. apply placement_aux_some_none.
      destruct (widths s) as [|w ws]; cbn [cp_ok] in Hcp; [tauto|]. lia.
    - destruct HQ as [HQ _]. eapply Forall_impl; [|exact HQ]. cbn. rewrite He. intros; lia. }
  rewrite Hws in HL.
  pose proof (legal_rev_nf b _ _ _ HL Hbe) as HLnf.
  splits.
  - exact Hlen'.
  - apply (bridge_legal e ps (rev pa) (rev pa) b Hlen' Hlen'). rewrite rev_involutive. exact HLnf.
  - intros zs Hz. pose proof (legal_from_length _ _ _ _ Hz) as Hzl.
    rewrite mk_cells_length in Hzl by exact Hlen'.
    rewrite (bridge_cost ps (rev pa) (rev pa) Hlen' Hlen'), (bridge_cost ps (rev pa) zs Hlen' Hzl).
    rewrite rev_involutive, <- HC.
    apply (bridge_legal e ps (rev pa) zs b Hlen' Hzl) in Hz.
    specialize (P2 e (rev zs) Hz (Z.le_refl e)).
    destruct HQ as [_ HQw]. pose proof (R_nonneg (bounds s) (e - used s) HQw). lia.
  - rewrite (bridge_cost ps (rev pa) (rev pa) Hlen' Hlen'), rev_involutive. exact HC.
Qed.

(* (A) the placement is legal and of minimum cost among all legal placements *)
Corollary rowleg_placement_optimal b e ops :
  b <= e -> fits (rl_init b e) ops ->
  let pl := fst (run b e ops) in
  let cs := mk_cells (push_list ops) pl in
  length pl = length (push_list ops) /\
  legal_from b e cs pl /\
  (forall zs, legal_from b e cs zs -> cost_of cs pl <= cost_of cs zs).
Proof. intros Hbe Hf. destruct (rowleg_optimal b e ops Hbe Hf) as (H1 & H2 & H3 & _). cbv zeta. tauto. Qed.

(* (B) the costs reported by the pushes sum to the cost of the placement, which
   is the minimum *)
Corollary rowleg_costs_sum_to_minimum b e ops :
  b <= e -> fits (rl_init b e) ops ->
  let pl := fst (run b e ops) in
  let costs := snd (run b e ops) in
  let cs := mk_cells (push_list ops) pl in
  push_cost_sum ops costs = cost_of cs pl /\
  (forall zs, legal_from b e cs zs -> push_cost_sum ops costs <= cost_of cs zs).
Proof.
  intros Hbe Hf. destruct (rowleg_optimal b e ops Hbe Hf) as (_ & _ & H3 & H4). cbv zeta in *.
  split; [exact H4|]. intros zs Hz. rewrite H4. apply H3. exact Hz.
Qed.

Print Assumptions rowleg_optimal.
Print Assumptions rowleg_placement_optimal.
Print Assumptions rowleg_costs_sum_to_minimum.
