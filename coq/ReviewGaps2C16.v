(* Review gap (C16): reoptimize / improveXTransport / improveYTransport are genuine Redistribute steps
   (guard of Density.redistribute proved: lengths, nodup, bins_valid, partition of the gathered cells),
   including the cleared zero-capacity candidates of reoptimize.  Model: ReviewGaps2C16Model.v. *)
From Coq Require Import List ZArith Lia Bool Arith Permutation.
Import ListNotations.
Require Import CV.FreeSpace CV.Density CV.DensityProofs CV.ReviewGaps2C16Model.

Lemma reopt_news_length pos : forall alloc, length (reopt_news pos alloc) = length pos.
Proof.
  induction pos as [|[|] r IH]; intros alloc; cbn [reopt_news length]; [reflexivity| |rewrite IH; reflexivity].
  destruct alloc; cbn [length]; rewrite IH; reflexivity.
Qed.

Lemma reopt_news_concat pos : forall alloc, length alloc = nb_pos pos -> concat (reopt_news pos alloc) = concat alloc.
Proof.
  unfold nb_pos. induction pos as [|[|] r IH]; intros alloc H; cbn [reopt_news filter length concat] in *.
  - destruct alloc; [reflexivity|discriminate].
  - destruct alloc as [|a al]; [discriminate|]. cbn [concat]. rewrite IH by (cbn in H; lia). reflexivity.
  - cbn [app]. apply IH. exact H.
Qed.

Lemma reallocate_length nb cells assignment : length (reallocate nb cells assignment) = nb.
Proof. unfold reallocate. rewrite map_length, seq_length. reflexivity. Qed.

(* which candidate receives what: zero-capacity candidates [], the b-th positive one alloc[b] *)
Lemma reopt_news_nth pos : forall alloc k, length alloc = nb_pos pos -> (k < length pos)%nat ->
  nth_error (reopt_news pos alloc) k =
  Some (if nth k pos false then nth (nb_pos (firstn k pos)) alloc [] else []).
Proof.
  unfold nb_pos. induction pos as [|b r IH]; intros alloc k H Hk; cbn [length] in Hk; [lia|].
  destruct b; cbn [reopt_news filter length] in *.
  - destruct alloc as [|a al]; [discriminate|]. destruct k as [|k]; [reflexivity|].
    cbn [nth_error nth firstn filter length]. rewrite IH by (cbn in H; lia). reflexivity.
  - destruct k as [|k]; [reflexivity|]. cbn [nth_error nth firstn filter]. apply IH; [exact H|lia].
Qed.

(* reoptimize (more than two candidates, or any number): a Redistribute step on the candidates, for EVERY
   assignment into the positive-capacity bins (the solver's, or the initial "last non-empty bin" one) *)
Theorem reoptimize_is_redistribute s T pos assignment :
  length pos = length T -> nodup_pairs T = true -> bins_valid (bcells s) T = true ->
  length assignment = length (gather (bcells s) T) ->
  (forall a, In a assignment -> (a < nb_pos pos)%nat) ->
  reoptimize_step s T pos assignment =
    Some (set_bins s T (reopt_news pos (reallocate (nb_pos pos) (gather (bcells s) T) assignment))).
Proof.
  intros Hl Hnd Hv Ha Hr. unfold reoptimize_step, redistribute.
  rewrite reopt_news_length, Hl, Nat.eqb_refl, Hnd, Hv. cbn [andb].
  rewrite reopt_news_concat by apply reallocate_length.
  rewrite reallocate_preserves_cells by (auto; lia). reflexivity.
Qed.

(* after the step: a zero-capacity candidate is empty, the b-th positive-capacity candidate holds the cells
   assigned to b, every other bin is untouched *)
Theorem reoptimize_result s T pos assignment s' k x y :
  length pos = length T -> nodup_pairs T = true -> bins_valid (bcells s) T = true ->
  length assignment = length (gather (bcells s) T) ->
  (forall a, In a assignment -> (a < nb_pos pos)%nat) ->
  reoptimize_step s T pos assignment = Some s' ->
  nth_error T k = Some (x, y) ->
  nth_error2 (bcells s') x y =
    Some (if nth k pos false
          then nth (nb_pos (firstn k pos)) (reallocate (nb_pos pos) (gather (bcells s) T) assignment) []
          else []).
Proof.
  intros Hl Hnd Hv Ha Hr Hs Hk.
  rewrite (reoptimize_is_redistribute s T pos assignment Hl Hnd Hv Ha Hr) in Hs. inversion Hs; subst s'.
  destruct (set_bins_eq T s (reopt_news pos (reallocate (nb_pos pos) (gather (bcells s) T) assignment)))
    as (_ & _ & E & _). rewrite E.
  eapply setb_at; [exact Hnd|apply bins_valid_spec; exact Hv|exact Hk|].
  apply reopt_news_nth; [apply reallocate_length|]. rewrite Hl. apply nth_error_Some. congruence.
Qed.

Theorem reoptimize_other_bins s T pos assignment s' i j :
  reoptimize_step s T pos assignment = Some s' -> ~ In (i, j) T ->
  nth_error2 (bcells s') i j = nth_error2 (bcells s) i j.
Proof.
  unfold reoptimize_step, redistribute. intros Hs Hn.
  destruct (_ && _); [|discriminate]. inversion Hs; subst s'.
  destruct (set_bins_eq T s (reopt_news pos (reallocate (nb_pos pos) (gather (bcells s) T) assignment)))
    as (_ & _ & E & _). rewrite E. apply setb_other. exact Hn.
Qed.

(* hence the partition invariant through reoptimize, from the generic step theorem *)
Theorem reoptimize_keeps_invariant h d s T pos assignment s' :
  inv h d s -> reoptimize_step s T pos assignment = Some s' -> inv h d s'.
Proof. intros Hi Hs. exact (redistribute_inv h d s T _ s' Hi Hs). Qed.

(* ------------------------------------------------------------------ improveXTransport / improveYTransport *)
Lemma existsb_row_false j b : forall n a, (b < a)%nat ->
  existsb (pair_eqb (b, j)) (map (fun i => (i, j)) (seq a n)) = false.
Proof.
  induction n as [|n IH]; intros a H; cbn [seq map existsb]; [reflexivity|].
  rewrite IH by lia. unfold pair_eqb. cbn [fst snd].
  destruct (Nat.eqb_spec b a); [lia|reflexivity].
Qed.
Lemma nodup_row j : forall n a, nodup_pairs (map (fun i => (i, j)) (seq a n)) = true.
Proof.
  induction n as [|n IH]; intros a; cbn [seq map nodup_pairs]; [reflexivity|].
  rewrite existsb_row_false by lia. rewrite IH. reflexivity.
Qed.
Lemma existsb_col_false i b : forall n a, (b < a)%nat ->
  existsb (pair_eqb (i, b)) (map (fun j => (i, j)) (seq a n)) = false.
Proof.
  induction n as [|n IH]; intros a H; cbn [seq map existsb]; [reflexivity|].
  rewrite IH by lia. unfold pair_eqb. cbn [fst snd].
  destruct (Nat.eqb_spec b a); [lia|]. rewrite andb_false_r. reflexivity.
Qed.
Lemma nodup_col i : forall n a, nodup_pairs (map (fun j => (i, j)) (seq a n)) = true.
Proof.
  induction n as [|n IH]; intros a; cbn [seq map nodup_pairs]; [reflexivity|].
  rewrite existsb_col_false by lia. rewrite IH. reflexivity.
Qed.

Lemma rect_valid (bc : list (list (list nat))) ky i j :
  Forall (fun col => length col = ky) bc -> (i < length bc)%nat -> (j < ky)%nat ->
  exists l, nth_error2 bc i j = Some l.
Proof.
  intros Hr Hi Hj. unfold nth_error2.
  destruct (nth_error bc i) as [col|] eqn:E; [|apply nth_error_None in E; lia].
  assert (Hc : length col = ky) by (rewrite Forall_forall in Hr; apply Hr; eapply nth_error_In; exact E).
  destruct (nth_error col j) as [l|] eqn:E2; [eauto|apply nth_error_None in E2; lia].
Qed.

(* improveXTransport, row j of a rectangular allocation: a Redistribute step on the bins of the row, for
   EVERY assignment whose entries are bin indices of the row (ReviewGaps2C14.assign_range gives this for
   the vector returned by Transportation1d::assign) *)
Theorem xtransport_is_redistribute s ky j assignment :
  Forall (fun col => length col = ky) (bcells s) -> (j < ky)%nat ->
  length assignment = length (gather (bcells s) (row_bins (length (bcells s)) j)) ->
  (forall a, In a assignment -> (a < length (bcells s))%nat) ->
  exists s', xtransport_step s j assignment = Some s'.
Proof.
  intros Hr Hj Ha Hrange. unfold xtransport_step, redistribute, row_bins.
  rewrite map_length, seq_length, reallocate_length, Nat.eqb_refl, nodup_row. cbn [andb].
  assert (Hv : bins_valid (bcells s) (map (fun i => (i, j)) (seq 0 (length (bcells s)))) = true).
  { apply bins_valid_spec. intros t Ht. apply in_map_iff in Ht. destruct Ht as (i & <- & Hi).
    apply in_seq in Hi. cbn [fst snd]. apply (rect_valid _ ky); [exact Hr|lia|exact Hj]. }
  rewrite Hv. cbn [andb].
  rewrite reallocate_preserves_cells by (auto; unfold row_bins in Ha; lia). eauto.
Qed.

Theorem ytransport_is_redistribute s ky i assignment :
  Forall (fun col => length col = ky) (bcells s) -> (i < length (bcells s))%nat ->
  length assignment = length (gather (bcells s) (col_bins i ky)) ->
  (forall a, In a assignment -> (a < ky)%nat) ->
  exists s', ytransport_step s i ky assignment = Some s'.
Proof.
  intros Hr Hi Ha Hrange. unfold ytransport_step, redistribute, col_bins.
  rewrite map_length, seq_length, reallocate_length, Nat.eqb_refl, nodup_col. cbn [andb].
  assert (Hv : bins_valid (bcells s) (map (fun j => (i, j)) (seq 0 ky)) = true).
  { apply bins_valid_spec. intros t Ht. apply in_map_iff in Ht. destruct Ht as (j & <- & Hj).
    apply in_seq in Hj. cbn [fst snd]. apply (rect_valid _ ky); [exact Hr|exact Hi|lia]. }
  rewrite Hv. cbn [andb].
  rewrite reallocate_preserves_cells by (auto; unfold col_bins in Ha; lia). eauto.
Qed.

Theorem transport_keeps_invariant h d s j i ky assignment s' :
  inv h d s ->
  (xtransport_step s j assignment = Some s' \/ ytransport_step s i ky assignment = Some s') -> inv h d s'.
Proof. intros Hi [Hs|Hs]; exact (redistribute_inv h d s _ _ s' Hi Hs). Qed.

(* non-vacuity: three candidates, the middle one of zero capacity (cleared), on a 3 x 1 allocation *)
Example reoptimize_nonvacuous :
  let s := {| lvx := 0; lvy := 0; bcells := [[[0; 1]]; [[2]]; [[3; 4]]]; cbx := [0; 0; 1; 2; 2]%Z; cby := [0; 0; 0; 0; 0]%Z |} in
  option_map bcells (reoptimize_step s [(0, 0); (1, 0); (2, 0)] [true; false; true] [1; 0; 0; 1; 0])
    = Some [[[1; 2; 4]]; [[]]; [[0; 3]]] /\
  option_map bcells (xtransport_step s 0 [2; 2; 0; 1; 1]) = Some [[[2]]; [[3; 4]]; [[0; 1]]] /\
  reoptimize_step s [(0, 0); (1, 0); (0, 0)] [true; false; true] [1; 0; 0; 1; 0] = None.
Proof. cbv zeta. repeat split; vm_compute; reflexivity. Qed.

(* ------------------------------------------------------------------ binSize = 0 *)
Require Import CV.DensityUpdate CV.DensityUpdateProofs.
Local Open Scope Z_scope.

Theorem make_grid_m_spec bs regs g : make_grid_m bs regs = Some g <-> bs <> 0 /\ g = make_grid bs regs.
Proof.
  unfold make_grid_m, nb_bins_m. destruct (Z.eqb_spec bs 0) as [E|E].
  - split; [discriminate|intros [H _]; contradiction].
  - split; [intros H; inversion H; auto|intros [_ ->]; reflexivity].
Qed.

(* the witness of the review: with binSize = 0 the total model answers a one-bin grid where the C++ divides
   by zero; so the theorems about make_grid say something about the code only for binSize <> 0 *)
Theorem make_grid_zero_binsize :
  let regs := [ {| minX := 0; maxX := 7; minY := 0; maxY := 4 |} ] in
  make_grid_m 0 regs = None /\ limX (make_grid 0 regs) = [0; 7] /\ limY (make_grid 0 regs) = [0; 4].
Proof. cbv zeta. repeat split; vm_compute; reflexivity. Qed.

(* negative binSize is defined in the C++ (quotient <= 0, std::max(1, .) = 1) and the model agrees *)
Theorem make_grid_negative_binsize bs regs : bs < 0 -> Forall proper regs ->
  make_grid_m bs regs = Some (make_grid bs regs) /\
  nb_bins (rwidth (placement_area regs)) bs = 1 /\ nb_bins (rheight (placement_area regs)) bs = 1.
Proof.
  intros Hb Hp. split; [apply make_grid_m_spec; split; [lia|reflexivity]|].
  destruct (placement_area_proper regs Hp) as [Hw Hh]. unfold nb_bins.
  assert (Q : forall a, 0 <= a -> Z.quot a bs <= 0).
  { intros a Ha. rewrite <- (Z.opp_involutive bs), Z.quot_opp_r by lia.
    pose proof (Z.quot_pos a (- bs) Ha ltac:(lia)). lia. }
  assert (Qw := Q (rwidth (placement_area regs)) ltac:(unfold rwidth; lia)).
  assert (Qh := Q (rheight (placement_area regs)) ltac:(unfold rheight; lia)). lia.
Qed.

(* the grid theorems with the hypothesis `1 <= bs` explicit and the machine-level constructor: on this
   domain the C++ constructor is defined and the statements are about its result *)
Theorem grid_theorems_binsize_ge_1 bs regs g : 1 <= bs -> Forall proper regs -> make_grid_m bs regs = Some g ->
  let a := placement_area regs in
  (hdZ (limX g) = minX a /\ lastZ (limX g) = maxX a /\ chainZ (limX g) /\ (1 <= rwidth a -> schainZ (limX g))) /\
  (hdZ (limY g) = minY a /\ lastZ (limY g) = maxY a /\ chainZ (limY g) /\ (1 <= rheight a -> schainZ (limY g))) /\
  (forall i j px py, nth_error (pairs (limX g)) i = Some px -> nth_error (pairs (limY g)) j = Some py ->
     nth_error2 (gcap g) i j = Some (sumZ (map (fun r => inter_area r (bin_region px py)) regs))) /\
  (disjoint_regions regs -> forall i j px py,
     nth_error (pairs (limX g)) i = Some px -> nth_error (pairs (limY g)) j = Some py ->
     nth_error2 (gcap g) i j = Some (count_sites (covered regs) (bin_region px py))) /\
  total_capacity g = sumZ (map rarea regs).
Proof.
  intros Hb Hp Hg. apply make_grid_m_spec in Hg. destruct Hg as [_ ->]. cbv zeta.
  destruct (grid_limits_tile bs regs Hp) as [(X1 & X2 & X3 & X4) (Y1 & Y2 & Y3 & Y4)].
  split; [repeat split; auto|]. split; [repeat split; auto|].
  split; [intros i j px py; exact (bin_capacity_is_region_area bs regs i j px py Hp)|].
  split; [intros Hd i j px py; exact (bin_capacity_counts_free_sites bs regs i j px py Hp Hd)|].
  exact (total_capacity_is_region_area bs regs Hp).
Qed.
Theorem make_grid_m_defined bs regs : 1 <= bs -> make_grid_m bs regs = Some (make_grid bs regs).
Proof. intros H. apply make_grid_m_spec. split; [lia|reflexivity]. Qed.

(* ------------------------------------------------------------------ updateCellDemand with sizes that differ *)
Definition status_eq (p : Z * Z) : bool := Bool.eqb (fst p =? 0) (snd p =? 0).

Lemma guard_loop_spec : forall d d' pre pre', length pre = length pre' ->
  guard_loop (pre ++ d) (pre' ++ d') (seq (length pre) (length d)) =
  if forallb status_eq (combine d d')
  then (if (length d <=? length d')%nat then Some true else None) else Some false.
Proof.
  induction d as [|v d IH]; intros d' pre pre' Hl; cbn [length seq guard_loop combine forallb]; [reflexivity|].
  assert (E1 : nth_error (pre ++ v :: d) (length pre) = Some v)
    by (rewrite nth_error_app2, Nat.sub_diag by lia; reflexivity).
  assert (E2 : forall x, nth_error (pre' ++ x) (length pre) = nth_error x 0)
    by (intros x; rewrite Hl, nth_error_app2, Nat.sub_diag by lia; reflexivity).
  rewrite E1, E2. destruct d' as [|v' d']; [reflexivity|].
  cbn [nth_error combine forallb length].
  unfold status_eq at 1. cbn [fst snd]. destruct (Bool.eqb (v =? 0) (v' =? 0)); cbn [andb]; [|reflexivity].
  replace (pre ++ v :: d) with ((pre ++ [v]) ++ d) by (rewrite <- app_assoc; reflexivity).
  replace (pre' ++ v' :: d') with ((pre' ++ [v']) ++ d') by (rewrite <- app_assoc; reflexivity).
  replace (S (length pre)) with (length (pre ++ [v])) by (rewrite app_length; cbn; lia).
  rewrite IH by (rewrite !app_length; cbn; lia). reflexivity.
Qed.

(* equal sizes (the assert of the C++ holds): the NDEBUG code does what the model says *)
Theorem update_ndebug_same_length d d' : length d = length d' ->
  update_ndebug d d' = if same_zero_status d d' then UAccepted d' else URefused.
Proof.
  intros Hl. unfold update_ndebug, same_zero_status.
  pose proof (guard_loop_spec d d' [] [] eq_refl) as G; cbn [app length] in G; rewrite G; clear G. rewrite Hl, Nat.eqb_refl, Nat.leb_refl. cbn [andb].
  change (fun p : Z * Z => Bool.eqb (fst p =? 0) (snd p =? 0)) with status_eq.
  destruct (forallb status_eq (combine d d')); reflexivity.
Qed.

(* sizes differ (assert violated; outside updateCellDemand's contract): the model answers "refused, nothing
   changes", the NDEBUG code never does unless a status differs on the common prefix: it reads out of
   bounds (circuit smaller) or installs a demand vector of the wrong size (circuit larger) *)
Theorem update_ndebug_length_mismatch d d' : length d <> length d' ->
  same_zero_status d d' = false /\ update_demand d d' = d /\
  update_ndebug d d' =
    if forallb status_eq (combine d d')
    then (if (length d <? length d')%nat then UAccepted d' else UOob) else URefused.
Proof.
  intros Hl. assert (E : same_zero_status d d' = false).
  { unfold same_zero_status. destruct (Nat.eqb_spec (length d) (length d')); [contradiction|reflexivity]. }
  split; [exact E|]. split; [unfold update_demand; rewrite E; reflexivity|].
  unfold update_ndebug. pose proof (guard_loop_spec d d' [] [] eq_refl) as G; cbn [app length] in G; rewrite G; clear G.
  destruct (forallb status_eq (combine d d')); [|reflexivity].
  destruct (Nat.leb_spec (length d) (length d')), (Nat.ltb_spec (length d) (length d')); try reflexivity; lia.
Qed.

Example update_length_mismatch_witness :
  update_demand [1] [1; 2] = [1] /\ update_ndebug [1] [1; 2] = UAccepted [1; 2] /\
  update_demand [1; 2] [1] = [1; 2] /\ update_ndebug [1; 2] [1] = UOob.
Proof. repeat split; vm_compute; reflexivity. Qed.

(* the circuit-level call never has differing sizes when the circuit is the one the placement was built
   from: |circuit_demands cells| = number of cells *)
Theorem circuit_demands_length cells : length (circuit_demands cells) = length cells.
Proof. apply map_length. Qed.
