(* C07: computeSubdivisions (SubdivMachine.v).  The text now on /repo main (long long product) is safe on the
   whole supported range.  The text before the repair (int product, helpers.hpp:15 of that tree) is REFUTED on
   that range, and safe only where number * (max - min) < 2^31. *)
From Coq Require Import List ZArith Lia Bool.
Import ListNotations.
Require Import CV.Density CV.RowLegMachine CV.SubdivMachine.
Local Open Scope Z_scope.

Lemma s32 v : -2147483648 <= v < 2147483648 -> fits (I32, v).
Proof. intros H. exact H. Qed.
Lemma s64 v : -9223372036854775808 <= v < 9223372036854775808 -> fits (I64, v).
Proof. intros H. exact H. Qed.

Lemma pushed_is_model mn mx n : pushed mn mx n = subdivisions mn mx n.
Proof. reflexivity. Qed.

Lemma iter_bounds mn mx n i : mn <= mx -> 1 <= n -> (i <= Z.to_nat n)%nat ->
  0 <= Z.of_nat i * (mx - mn) <= n * (mx - mn) /\
  0 <= Z.quot (Z.of_nat i * (mx - mn)) n <= mx - mn.
Proof.
  intros Hm Hn Hi. assert (Hk : 0 <= Z.of_nat i <= n) by lia. set (k := Z.of_nat i) in *. clearbody k.
  set (L := mx - mn). assert (HL : 0 <= L) by (unfold L; lia). clearbody L.
  assert (H1 : 0 <= k * L) by (apply Z.mul_nonneg_nonneg; lia).
  assert (H2 : k * L <= n * L) by (apply Z.mul_le_mono_nonneg_r; lia).
  split; [lia|]. split; [apply Z.quot_pos; lia|apply Z.quot_le_upper_bound; lia].
Qed.

(* [F] the code as it stands: every intermediate fits on the whole supported range *)
Theorem subdiv_no_overflow mn mx n : subdiv_dom mn mx n -> Forall fits (subdiv_vals mn mx n).
Proof.
  intros (H1 & H2 & H3 & Hn & Hn2). unfold subdiv_vals. apply Forall_forall. intros v Hv.
  apply in_flat_map in Hv as (i & Hi & Hv). apply in_seq in Hi.
  destruct (iter_bounds mn mx n i H2 Hn ltac:(lia)) as [B1 B2].
  assert (Hk : 0 <= Z.of_nat i <= n) by lia.
  assert (Hnl : n * (mx - mn) <= 2147483647 * 8388608) by (apply Z.mul_le_mono_nonneg; lia).
  set (p := Z.of_nat i * (mx - mn)) in *. unfold subdiv_iter_vals in Hv. fold p in Hv.
  set (q := Z.quot p n) in *. clearbody q. clearbody p.
  cbn [In] in Hv. destruct Hv as [<-|[<-|[<-|[<-|[<-|[<-|[<-|[<-|[]]]]]]]]]; first [apply s32; lia | apply s64; lia].
Qed.

(* non-vacuity at the upper end of the range: extent 2^23 cut into 2^20 bins *)
Example subdiv_nonvacuous :
  subdiv_dom (-4194304) 4194304 1048576 /\
  In (I64, 1048576 * 8388608) (subdiv_vals (-4194304) 4194304 1048576) /\
  In (I32, 4194304) (subdiv_vals (-4194304) 4194304 1048576).
Proof.
  split; [unfold subdiv_dom; lia|]. split.
  - unfold subdiv_vals. apply in_flat_map. exists (Z.to_nat 1048576). split; [apply in_seq; lia|].
    unfold subdiv_iter_vals. rewrite Z2Nat.id by lia. do 3 right. left. reflexivity.
  - unfold subdiv_vals. apply in_flat_map. exists (Z.to_nat 1048576). split; [apply in_seq; lia|].
    unfold subdiv_iter_vals. rewrite Z2Nat.id by lia. do 6 right. left. vm_compute. reflexivity.
Qed.

(* sanity: the long long is needed -- the product of this in-domain call does not fit int *)
Example subdiv_int_would_overflow :
  subdiv_dom (-2500000) 2500000 500 /\
  exists v, In (I64, v) (subdiv_vals (-2500000) 2500000 500) /\ ~ fits (I32, v).
Proof.
  split; [unfold subdiv_dom; lia|]. exists 2150000000. split.
  - unfold subdiv_vals. apply in_flat_map. exists 430%nat. split; [apply in_seq; cbn; lia|].
    vm_compute. do 3 right. left. reflexivity.
  - unfold fits; cbn [fst snd]. lia.
Qed.

(* [R on the tree before the repair of helpers.hpp] the int product overflowed inside the supported range:
   placement area [-2 500 000, 2 500 000] (extent 5*10^6), 500 bins: at i = 430 it is 2 150 000 000 > INT_MAX *)
Theorem subdiv_pre_refuted :
  exists mn mx n, subdiv_dom mn mx n /\ exists v, In v (subdiv_vals_pre mn mx n) /\ ~ fits v.
Proof.
  exists (-2500000), 2500000, 500. split; [unfold subdiv_dom; lia|].
  exists (I32, 2150000000). split.
  - unfold subdiv_vals_pre. apply in_flat_map. exists 430%nat. split; [apply in_seq; cbn; lia|].
    vm_compute. right. right. left. reflexivity.
  - unfold fits; cbn [fst snd]. lia.
Qed.

(* the smallest square shape that overflowed: extent L = number = 46341 (bin size 1) *)
Theorem subdiv_pre_refuted_small :
  subdiv_dom 0 46341 46341 /\ In (I32, 46341 * 46341) (subdiv_vals_pre 0 46341 46341) /\ ~ fits (I32, 46341 * 46341).
Proof.
  split; [unfold subdiv_dom; lia|]. split.
  - unfold subdiv_vals_pre. apply in_flat_map. exists (Z.to_nat 46341). split; [apply in_seq; lia|].
    unfold subdiv_iter_vals_pre. rewrite Z2Nat.id by lia. right. right. left. reflexivity.
  - unfold fits; cbn [fst snd]. lia.
Qed.

(* where the text before the repair WAS safe: number * (max - min) fits int *)
Theorem subdiv_pre_no_overflow mn mx n :
  subdiv_dom mn mx n -> n * (mx - mn) < 2147483648 -> Forall fits (subdiv_vals_pre mn mx n).
Proof.
  intros (H1 & H2 & H3 & Hn & Hn2) Hp. unfold subdiv_vals_pre. apply Forall_forall. intros v Hv.
  apply in_flat_map in Hv as (i & Hi & Hv). apply in_seq in Hi.
  destruct (iter_bounds mn mx n i H2 Hn ltac:(lia)) as [B1 B2].
  assert (Hk : 0 <= Z.of_nat i <= n) by lia.
  set (p := Z.of_nat i * (mx - mn)) in *. unfold subdiv_iter_vals_pre in Hv. fold p in Hv.
  set (q := Z.quot p n) in *. clearbody q. clearbody p.
  cbn [In] in Hv. destruct Hv as [<-|[<-|[<-|[<-|[<-|[<-|[]]]]]]]; apply s32; lia.
Qed.
