(* C14 optimality, part A5: one push(i) carries the value-function invariant from Vp (sources 0..i-1) to
   Vnext (sources 0..i):  Vnext a = min_{0<=x<=a} (Vp x + fc i x). *)
From Coq Require Import List ZArith Lia Bool Arith.
Import ListNotations.
Require Import CV.LpCert CV.Transp1d CV.Transp1dProofs CV.Transp1dTerm CV.Transp1dCert CV.Transp1dOpt
               CV.Transp1dOptA1 CV.Transp1dOptA2 CV.Transp1dOptA3 CV.Transp1dOptA4.
Local Open Scope Z_scope.

Definition Vnext (P : sprob) (i : nat) (Vp : Z -> Z) (a : Z) : Z := minupto (Wf P i Vp) (Z.to_nat a).

(* the state of push(i) when its loop starts *)
Definition pre_push (P : sprob) (i : nat) (s : st) : st :=
  let s1 := {| ev := ev s; lp := lp s; lo := lo s; os := upd_opt P i (n_snk P) (os s); pp := pp s |} in
  let s2 := push_new_source_events P i s1 in
  let s3 := {| ev := ev s2; lp := Z.max (lp s2) (Dx P (os s2) - Sx P i); lo := lo s2; os := os s2; pp := pp s2 |} in
  push_new_sink_events P i (os s3) s3.

Lemma push_unfold P i s : push P i s =
  match push_loop P i (loop_fuel P (pre_push P i s)) (pre_push P i s) with
  | None => None
  | Some s5 => Some {| ev := ev s5; lp := lp s5; lo := lo s5; os := os s5; pp := pp s5 ++ [lp s5] |}
  end.
Proof. reflexivity. Qed.

Section Push.
Variable P : sprob.
Hypothesis W : wf_sprob P.
Hypothesis So : sorted_sprob P.
Notation n := (n_src P).
Notation m := (n_snk P).
Notation D := (Dx P).
Notation c := (cost P).

(* between two pushes: i sources (0..i-1) have been pushed, Vp is their value function *)
Record Pinv (i : nat) (Vp : Z -> Z) (s : st) : Prop := {
  p_lp : 0 <= lp s;
  p_ev : EvOK (lp s) (ev s);
  p_lo : (lo s < m)%nat;
  p_os : (os s < m)%nat;
  p_osl : (i < n)%nat -> forall j, (j < os s)%nat -> c i (j + 1) <= c i j;
  p_oslo : (os s <= lo s)%nat;
  p_dlo : D (lo s) <= Sx P i + lp s;
  p_beg : Sx P i + lp s <= D (lo s + 1);
  p_conv : conv (ev s);
  p_I1 : forall a, 0 <= a < lp s ->
         Vp a - Vp (a + 1) = sl (ev s) a - (gc P (i - 1) (Sx P i + a) - c (i - 1) (lo s));
  p_I2 : forall a, lp s <= a -> a <= D m - Sx P i -> Vp a = Vp (lp s);
  p_I3 : forall x, 0 <= x -> x + 1 <= D m - Sx P i -> Vp (x + 1) <= Vp x;
  p_i0 : i = O -> lp s = 0 }.

Lemma pinv_init : (0 < m)%nat -> Pinv 0 (fun _ => 0) init_st.
Proof.
  intros Hm. pose proof (Dx_0 P W) as D0. pose proof (Sx_0 P W) as S0.
  assert (D 0 <= D (0 + 1)) by (apply D_le; [exact W|lia|lia]).
  constructor; cbn [init_st lp ev lo os pp].
  - lia.
  - split; [exact I|intros e []].
  - lia.
  - lia.
  - intros _ j Hj. lia.
  - lia.
  - lia.
  - lia.
  - intros x. cbn. lia.
  - intros a Ha. lia.
  - intros a _ _. reflexivity.
  - intros x _ _. lia.
  - intros _. reflexivity.
Qed.

Lemma pre_push_linv i Vp s : (i < n)%nat -> Pinv i Vp s -> Linv P i Vp (pre_push P i s).
Proof.
  intros Hi I. unfold pre_push.
  set (o1 := upd_opt P i m (os s)).
  destruct (upd_opt_OS P i (os s) Hi (p_os _ _ _ I) (p_osl _ _ _ I Hi)) as [Ho1 Hos1]. fold o1 in Ho1, Hos1.
  set (s1 := {| ev := ev s; lp := lp s; lo := lo s; os := o1; pp := pp s |}).
  set (s2 := push_new_source_events P i s1).
  pose proof (p_lp _ _ _ I) as Hlp. pose proof (p_lo _ _ _ I) as Hlo.
  pose proof (p_dlo _ _ _ I) as Hdlo. pose proof (p_beg _ _ _ I) as Hbeg.
  assert (S2 : lp s2 = lp s /\ lo s2 = lo s /\ os s2 = o1 /\ EvOK (lp s) (ev s2) /\ conv (ev s2) /\
    forall x lb, 0 <= x < lp s -> (lb < m)%nat -> D lb <= Sx P i + x < D (lb + 1) ->
      sl (ev s2) x = Vp x - Vp (x + 1) + c i lb - c i (lo s)).
  { pose proof (pnse_proj P i s1) as Q. cbv zeta in Q. fold s2 in Q. destruct Q as (Q1 & Q2 & Q3 & _).
    split; [exact Q1|]. split; [exact Q2|]. split; [exact Q3|].
    subst s2. destruct i as [|i1].
    - cbn [push_new_source_events s1 ev]. split; [apply I|]. split; [apply I|].
      intros x lb Hx. pose proof (p_i0 _ _ _ I eq_refl). lia.
    - destruct (src_events P W So i1 s1 Hi Hlp (p_ev _ _ _ I) Hlo (p_conv _ _ _ I) Hdlo Hbeg) as (A1 & A2 & A3).
      split; [exact A1|]. split; [exact A2|].
      intros x lb Hx Hlb Hy. rewrite (A3 x lb Hx Hlb Hy). cbn [s1 ev lo].
      pose proof (p_I1 _ _ _ I x Hx) as I1. replace (S i1 - 1)%nat with i1 in I1 by lia.
      rewrite (gc_in_sink P W i1 lb _ Hlb Hy) in I1. lia. }
  destruct S2 as (E1 & E2 & E3 & OK2 & Cv2 & SE). clearbody s2. cbv zeta. cbn [os lp lo ev].
  set (lp3 := Z.max (lp s2) (D (os s2) - Sx P i)).
  set (s3 := {| ev := ev s2; lp := lp3; lo := lo s2; os := os s2; pp := pp s2 |}).
  assert (OK3 : EvOK lp3 (ev s2)) by (eapply EvOK_mono; [exact OK2|subst lp3; lia]).
  rewrite E3.
  destruct (snk_events P W i s3 o1 Hi ltac:(subst lp3; cbn; lia) OK3 ltac:(cbn; lia) Cv2 Ho1) as (K1 & K2 & K3 & K4 & K5 & K6).
  cbn [s3 lp lo os ev] in K1, K2, K3, K4, K5, K6. rewrite E2 in K2, K6.
  set (s4 := push_new_sink_events P i o1 s3) in *. clearbody s4.
  assert (Hlp3 : lp3 = Z.max (lp s) (D o1 - Sx P i)) by (subst lp3; rewrite E1, E3; reflexivity).
  clearbody lp3. clear s3.
  pose proof Ho1 as (Ho1m & _).
  set (lo4 := Nat.max (lo s) o1) in *.
  assert (Hlo4 : (lo4 < m)%nat) by (subst lo4; lia).
  pose proof (Sx_step P W i Hi) as Sst.
  assert (Hend : D lo4 < Sx P (i + 1) + lp3).
  { subst lo4. destruct (Nat.max_spec (lo s) o1) as [[_ ->]|[_ ->]]; lia. }
  assert (Hbg : Sx P i + lp3 <= D (lo4 + 1)).
  { assert (D (lo s + 1) <= D (lo4 + 1)) by (apply D_le; [exact W|subst lo4; lia|lia]).
    assert (D o1 <= D (lo4 + 1)) by (apply D_le; [exact W|subst lo4; lia|lia]). lia. }
  assert (HDm : D (lo4 + 1) <= D m) by (apply D_le; [exact W|lia|lia]).
  pose proof (Sx_nonneg P W i Hi i ltac:(lia)) as S0.
  rewrite E3 in K3. constructor; rewrite ?K1, ?K2, ?K3.
  - lia.
  - exact K4.
  - exact Hlo4.
  - exact Ho1.
  - subst lo4. lia.
  - exact Hend.
  - exact Hbg.
  - exact K5.
  - (* T1 *)
    intros x Hx.
    destruct (sink_of_cell P W (Sx P i + x) ltac:(lia)) as (lb & Hlb & Hy).
    assert (Hlb4 : (lb <= lo4)%nat) by (apply (cell_lt_iff P W (Sx P i + x) lb lo4 Hlb Hlo4 Hy); lia).
    rewrite (K6 x lb Hx Hlb Hy Hlb4). unfold Wf. pose proof (fc_step P i x) as F.
    rewrite (gc_in_sink P W i lb _ Hlb Hy) in F.
    destruct (Z.lt_ge_cases x (lp s)) as [Hl|Hr].
    + rewrite (SE x lb ltac:(lia) Hlb Hy).
      assert ((lb <= lo s)%nat) by (apply (cell_lt_iff P W (Sx P i + x) lb (lo s) Hlb Hlo Hy); lia).
      replace (Nat.max (lo s) lb) with (lo s) by lia. lia.
    + assert (E0 : sl (ev s2) x = 0).
      { apply sl_above. intros e He. destruct OK2 as [_ O2]. specialize (O2 e He). lia. }
      assert ((lo s <= lb)%nat).
      { destruct (Nat.lt_ge_cases lb (lo s)) as [Hlt|Hge]; [|exact Hge].
        assert (D (lb + 1) <= D (lo s)) by (apply D_le; [exact W|lia|lia]). lia. }
      replace (Nat.max (lo s) lb) with lb by lia.
      pose proof (p_I2 _ _ _ I x Hr ltac:(lia)) as Ia. pose proof (p_I2 _ _ _ I (x + 1) ltac:(lia) ltac:(lia)) as Ib.
      lia.
  - (* T2 *)
    intros x Hx Ht. unfold topx in Ht. unfold Wf. pose proof (fc_step P i x) as F.
    pose proof (p_I2 _ _ _ I x ltac:(lia) ltac:(lia)) as Ia. pose proof (p_I2 _ _ _ I (x + 1) ltac:(lia) ltac:(lia)) as Ib.
    pose proof (gc_mono_right P W So i Hi o1 (Sx P i + x) (Sx P (i + 1) + x) Ho1 ltac:(lia) ltac:(lia) ltac:(lia)) as G.
    lia.
Qed.

Lemma Vnext_step i Vp x : 0 <= x -> Vnext P i Vp (x + 1) <= Vnext P i Vp x.
Proof.
  intros Hx. unfold Vnext. replace (Z.to_nat (x + 1)) with (S (Z.to_nat x)) by lia. cbn [minupto]. lia.
Qed.

Lemma push_pinv i Vp s s' : (i < n)%nat -> Pinv i Vp s -> push P i s = Some s' ->
  Pinv (i + 1) (Vnext P i Vp) s' /\ pp s' = pp s ++ [lp s'] /\ lp s' <= topx P i /\
  (forall a, 0 <= a <= topx P i -> Vnext P i Vp a = Vp (Z.min a (lp s')) + fc P i (Z.min a (lp s'))).
Proof.
  intros Hi I E.
  destruct (push_proj P i s s' (p_lp _ _ _ I) E) as [_ Hpp].
  rewrite push_unfold in E.
  destruct (push_loop P i (loop_fuel P (pre_push P i s)) (pre_push P i s)) as [s5|] eqn:E5; [|discriminate].
  destruct (push_loop_linv P W So i Hi Vp _ _ _ (pre_push_linv i Vp s Hi I) E5) as [L Hx].
  inversion E; subst s'; clear E. cbn [lp pp] in Hpp. cbn [lp].
  pose proof (l_lo _ _ _ _ L) as Hlo. pose proof (l_lp _ _ _ _ L) as Hlp.
  assert (HDm : D (lo s5 + 1) <= D m) by (apply D_le; [exact W|lia|lia]).
  assert (Htop : lp s5 <= topx P i) by (unfold topx; lia).
  pose proof (exit_T3 P W So i Hi Vp s5 L Hx (p_I3 _ _ _ I)) as T3.
  assert (V : forall a, 0 <= a <= topx P i -> Vnext P i Vp a = Wf P i Vp (Z.min a (lp s5))).
  { intros a Ha. unfold Vnext.
    rewrite (minupto_valley (Wf P i Vp) (lp s5) (topx P i) Hlp T3 (l_T2 _ _ _ _ L)) by lia.
    replace (Z.of_nat (Z.to_nat a)) with a by lia. reflexivity. }
  split; [|split; [exact Hpp|split; [exact Htop|exact V]]].
  constructor; cbn [lp ev lo os pp].
  - exact Hlp.
  - apply L.
  - exact Hlo.
  - destruct (l_os _ _ _ _ L) as [H _]. exact H.
  - intros Hi1 j Hj. apply (OS_next_left P So i (os s5) Hi1 (l_os _ _ _ _ L) j Hj).
  - apply L.
  - pose proof (l_end _ _ _ _ L). lia.
  - lia.
  - apply L.
  - intros a Ha. replace (i + 1 - 1)%nat with i by lia.
    rewrite (V a ltac:(lia)), (V (a + 1) ltac:(lia)).
    replace (Z.min a (lp s5)) with a by lia. replace (Z.min (a + 1) (lp s5)) with (a + 1) by lia.
    apply (l_T1 _ _ _ _ L). exact Ha.
  - intros a Ha Ht. rewrite (V a ltac:(unfold topx; lia)), (V (lp s5) ltac:(lia)).
    replace (Z.min a (lp s5)) with (lp s5) by lia. replace (Z.min (lp s5) (lp s5)) with (lp s5) by lia. reflexivity.
  - intros x Hx0 _. apply Vnext_step. exact Hx0.
  - intros H. lia.
Qed.
End Push.
