(* Model of Row::freespace / Circuit::computeRows (src/coloquinte.cpp): the row
   minus every column range touched by an obstacle.  boost::polygon is not
   modelled; this is its contract, tied by the C15 correspondence. *)
From Coq Require Import List ZArith Lia Bool.
Import ListNotations.
Require Import CV.Orient.
Local Open Scope Z_scope.

Record rect := { minX : Z; maxX : Z; minY : Z; maxY : Z }.
Record row := { rr : rect; ro : orient }.

Definition iv := (Z * Z)%type.

(* remove [a,b) from a sorted list of disjoint intervals *)
Fixpoint subtract (a b : Z) (l : list iv) : list iv :=
  match l with
  | [] => []
  | (lo, hi) :: l' =>
      (if lo <? Z.min hi a then [(lo, Z.min hi a)] else []) ++
      (if Z.max lo b <? hi then [(Z.max lo b, hi)] else []) ++ subtract a b l'
  end.

(* an obstacle matters iff it has positive area and its y-range meets the row's *)
Definition blocks (rw o : rect) : bool :=
  (minX o <? maxX o) && (minY o <? maxY o) && (minY o <? maxY rw) && (minY rw <? maxY o).

Definition freespace_iv (rw : rect) (obs : list rect) : list iv :=
  if (minX rw <? maxX rw) && (minY rw <? maxY rw) then
    fold_left (fun l o => if blocks rw o then subtract (minX o) (maxX o) l else l) obs [(minX rw, maxX rw)]
  else [].

(* Row::freespace *)
Definition freespace_rows (r : row) (obs : list rect) : list row :=
  map (fun i => {| rr := {| minX := fst i; maxX := snd i; minY := minY (rr r); maxY := maxY (rr r) |}; ro := ro r |})
      (freespace_iv (rr r) obs).

(* Circuit::computeRows(additionalObstacles): cells are (placement, isFixed, isObstruction) *)
Definition obstacles_of (extra : list rect) (cells : list (rect * bool * bool)) : list rect :=
  extra ++ flat_map (fun c => match c with (p, fx, ob) => if fx && ob then [p] else [] end) cells.

Definition compute_rows (rows : list row) (extra : list rect) (cells : list (rect * bool * bool)) : list row :=
  flat_map (fun r => freespace_rows r (obstacles_of extra cells)) rows.

(* Circuit::placement(cell): x, y, stored width/height, orientation *)
Definition cell_placement (x y w h : Z) (o : orient) : rect :=
  let pw := if is_turn o then h else w in
  let ph := if is_turn o then w else h in
  {| minX := x; maxX := x + pw; minY := y; maxY := y + ph |}.

Definition compute_rows_circuit (rows : list row) (extra : list rect)
           (cells : list (Z * Z * Z * Z * orient * bool * bool)) : list row :=
  compute_rows rows extra
    (map (fun c => match c with (x, y, w, h, o, fx, ob) => (cell_placement x y w h o, fx, ob) end) cells).
