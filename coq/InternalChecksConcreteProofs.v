(* C02 -- DetailedPlacement::check LINE BY LINE on the index arrays (InternalChecksDetailed.cdp_check) passes on every
   well-formed concrete state (MovesConcreteProofs: Sizes + a representation Rep cs ls of the five pointer arrays by row lists)
   whose rows satisfy the geometric row invariant and the orientation test: the link between the version of the test the tie
   evaluates on the arrays of the C++ and the list-level version dp_check of the theorems. *)
From Coq Require Import List ZArith Lia Bool Arith.
Import ListNotations.
Require Import CV.Orient CV.Moves CV.MovesProofs CV.MovesConcrete CV.MovesConcreteProofs CV.DetailedInit.
Require Import CV.InternalChecks CV.InternalChecksDetailed.
Local Open Scope Z_scope.

Lemma ccall_pass {A} (f : A -> chk_res) l : (forall a, In a l -> f a = CPass) -> call f l = CPass.
Proof.
  induction l as [|a t IH]; intros H; cbn [call]; [reflexivity|].
  rewrite (H a (or_introl eq_refl)). cbn [cseq]. apply IH. intros b Hb. apply H. right. exact Hb.
Qed.

Lemma zseq_in n z : In z (zseq n) -> exists i, z = Z.of_nat i /\ (i < n)%nat.
Proof. unfold zseq. intros H. apply in_map_iff in H as (i & <- & Hi). apply in_seq in Hi. exists i. split; [reflexivity|lia]. Qed.

Lemma neq_len_eq {A} (l : list A) n : length l = n -> neq_len l n = false.
Proof. intros <-. unfold neq_len. rewrite Nat.eqb_refl. reflexivity. Qed.

Lemma of_nat_m1 n : (Z.of_nat n =? -1) = false.
Proof. apply Z.eqb_neq. lia. Qed.

(* rowCells(i) on a representation *)
Lemma walk_next_rep cs l : forall fuel, next_chain (c_next cs) l None -> (length l <= fuel)%nat ->
  walk_next cs fuel (enc (hd_or l None)) = Some (map Z.of_nat l).
Proof.
  induction l as [|c r IH]; intros fuel HN HL.
  - destruct fuel; reflexivity.
  - cbn [length] in HL. destruct fuel as [|f]; [lia|]. cbn [hd_or enc walk_next]. rewrite of_nat_m1.
    destruct HN as [HN1 HN2]. unfold cellNext. rewrite getZ_nat, HN1. rewrite IH by (try assumption; lia). reflexivity.
Qed.

Section Concrete.
Variable cs : cstate.
Variable ls : list (list nat).
Hypothesis SZ : Sizes cs.
Hypothesis R : Rep cs ls.
(* the rows of the abstraction satisfy the row invariant and the orientation test *)
Hypothesis G : forall i g l, nth_error (c_rows cs) i = Some g -> nth_error ls i = Some l ->
  MovesProofs.chain (cr_min g) (cr_max g) (map (cell_d cs) l).
Hypothesis O : forall i g l c, nth_error (c_rows cs) i = Some g -> nth_error ls i = Some l -> In c l ->
  check_orient (cr_o g) (cell_d cs c) = true.

Lemma rd_x c : (c < nb_cells cs)%nat -> cellX cs (Z.of_nat c) = Some (p_x (cell_d cs c)).
Proof. intros H. destruct SZ as (_ & _ & _ & Sx & _). unfold cellX. rewrite getZ_nat. apply nth_error_nth_d. lia. Qed.
Lemma rd_w c : (c < nb_cells cs)%nat -> cellWidth cs (Z.of_nat c) = Some (p_w (cell_d cs c)).
Proof. intros H. unfold cellWidth. rewrite getZ_nat. apply nth_error_nth_d. exact H. Qed.

Lemma rows_of i : (i < nb_rows cs)%nat -> exists g l, nth_error (c_rows cs) i = Some g /\ nth_error ls i = Some l.
Proof.
  intros Hi. destruct R as (HL & _). destruct (nth_error (c_rows cs) i) as [g|] eqn:Eg; [|apply nth_error_None in Eg; unfold nb_rows in Hi; lia].
  destruct (nth_error ls i) as [l|] eqn:El; [|apply nth_error_None in El; lia]. exists g, l. split; reflexivity.
Qed.

(* :505-526 *)
Lemma cdp_row_pass i : (i < nb_rows cs)%nat -> cdp_row cs (Z.of_nat i) = CPass.
Proof.
  intros Hi. destruct (rows_of i Hi) as (g & l & Eg & El). pose proof R as (_ & HR & _).
  destruct (HR _ _ El) as (RR & RP & RN & RF & RLa). unfold cdp_row, rowFirstCell, rowLastCell. rewrite !getZ_nat, RF, RLa. cbn [ub].
  destruct l as [|fc l']; [reflexivity|].
  destruct (last_or_cases None (fc :: l')) as [[E _]|(a & lc & E & E')]; [discriminate|]. rewrite E'. cbn [hd_or enc].
  rewrite !of_nat_m1. cbn [Bool.eqb negb].
  rewrite Forall_forall in RR. unfold cellRow, cellPred, cellNext. rewrite !getZ_nat.
  rewrite (RR fc (or_introl eq_refl)). cbn [ub]. rewrite Z.eqb_refl. cbn [negb].
  cbn [pred_chain] in RP. rewrite (proj1 RP). cbn [ub enc]. cbn [Z.eqb negb].
  assert (Hlc : In lc (fc :: l')) by (rewrite E; apply in_or_app; right; left; reflexivity).
  rewrite (RR lc Hlc). cbn [ub]. rewrite Z.eqb_refl. cbn [negb].
  rewrite E in RN. apply next_chain_app in RN as [_ RN]. cbn [next_chain hd_or] in RN. rewrite (proj1 RN). reflexivity.
Qed.

(* :527-571 *)
Lemma cdp_cell_pass c : (c < nb_cells cs)%nat -> cdp_cell cs (Z.of_nat c) = CPass.
Proof.
  intros Hc. pose proof SZ as (Sp & Sn & Sr & _). pose proof R as (HL & HR & HC).
  destruct (nth_error (c_row cs) c) as [r|] eqn:Er; [|apply nth_error_None in Er; lia].
  unfold cdp_cell, cellPred, cellNext, cellRow. rewrite !getZ_nat, Er.
  destruct (HC _ _ Er) as [(-> & Ep & En)|(i & l & -> & El & Hin)].
  - rewrite Ep, En. cbn [ub]. change (-1 <? -1) with false. cbn [orb].
    destruct (Z.leb_spec (Z.of_nat (nb_rows cs)) (-1)); [lia|]. reflexivity.
  - apply in_split in Hin as (a & b & ->).
    destruct (rep_cell_facts _ _ _ _ _ _ SZ R El) as (Hi & ND & Hcells & HP & HN).
    destruct (rows_of i Hi) as (g & l0 & Eg & El0). rewrite El in El0. injection El0 as <-.
    pose proof (G i g _ Eg El) as Hch. destruct (HR _ _ El) as (_ & _ & _ & RF & RLa).
    rewrite HP, HN. cbn [ub].
    destruct (Z.ltb_spec (Z.of_nat i) (-1)); [lia|]. destruct (Z.leb_spec (Z.of_nat (nb_rows cs)) (Z.of_nat i)); [lia|]. cbn [orb].
    rewrite of_nat_m1.
    assert (Hcx := rd_x c Hc). assert (Hcw := rd_w c Hc).
    assert (Hgz : getZ (c_rows cs) (Z.of_nat i) = Some g) by (rewrite getZ_nat; exact Eg).
    (* predecessor side *)
    assert (P1 : (if negb (enc (last_or None a) =? -1)
                  then ub (getZ (c_row cs) (enc (last_or None a))) (fun rp => if negb (rp =? Z.of_nat i) then CFail EDpPredRow else
                       ub (cellX cs (enc (last_or None a))) (fun xp => ub (cellWidth cs (enc (last_or None a))) (fun wp => ub (cellX cs (Z.of_nat c)) (fun xi =>
                       throw_if (xi <? xp + wp) EDpPredOverlap))))
                  else ub (rowFirstCell cs (Z.of_nat i)) (fun f => if negb (f =? Z.of_nat c) then CFail EDpFirstCell else
                       ub (cellX cs (Z.of_nat c)) (fun xi => ub (getZ (c_rows cs) (Z.of_nat i)) (fun g0 => throw_if (xi <? cr_min g0) EDpOutOfRow)))) = CPass).
    { destruct (last_or_cases None a) as [[-> E]|(a0 & p & -> & E)]; rewrite E; cbn [enc].
      - cbn [Z.eqb negb]. unfold rowFirstCell. rewrite getZ_nat, RF. cbn [app hd_or enc ub]. rewrite Z.eqb_refl. cbn [negb].
        rewrite Hcx, Hgz. cbn [ub]. cbn [app map MovesProofs.chain] in Hch. unfold throw_if.
        destruct (Z.ltb_spec (p_x (cell_d cs c)) (cr_min g)); [lia|reflexivity].
      - rewrite of_nat_m1. cbn [negb].
        assert (Hp : In p ((a0 ++ [p]) ++ c :: b)) by (apply in_or_app; left; apply in_or_app; right; left; reflexivity).
        destruct (Hcells p Hp) as (Hpn & Hpr). rewrite getZ_nat, Hpr. cbn [ub]. rewrite Z.eqb_refl. cbn [negb].
        rewrite (rd_x p Hpn), (rd_w p Hpn), Hcx. cbn [ub].
        assert (Hord : p_x (cell_d cs p) + p_w (cell_d cs p) <= p_x (cell_d cs c)).
        { apply (chain_ordered _ _ _ (length a0) (S (length a0)) _ _ Hch); [lia| |];
            rewrite <- app_assoc; cbn [app]; rewrite map_app; cbn [map].
          - rewrite nth_error_app2 by (rewrite map_length; lia). rewrite map_length, Nat.sub_diag. reflexivity.
          - rewrite nth_error_app2 by (rewrite map_length; lia). rewrite map_length.
            replace (S (length a0) - length a0)%nat with 1%nat by lia. reflexivity. }
        unfold throw_if. destruct (Z.ltb_spec (p_x (cell_d cs c)) (p_x (cell_d cs p) + p_w (cell_d cs p))); [lia|reflexivity]. }
    (* successor side *)
    assert (P2 : (if negb (enc (hd_or b None) =? -1)
                  then ub (getZ (c_row cs) (enc (hd_or b None))) (fun rn => if negb (rn =? Z.of_nat i) then CFail EDpNextRow else
                       ub (cellX cs (Z.of_nat c)) (fun xi => ub (cellWidth cs (Z.of_nat c)) (fun wi => ub (cellX cs (enc (hd_or b None))) (fun xn =>
                       throw_if (xn <? xi + wi) EDpNextOverlap))))
                  else ub (rowLastCell cs (Z.of_nat i)) (fun l0 => if negb (l0 =? Z.of_nat c) then CFail EDpLastCell else
                       ub (cellX cs (Z.of_nat c)) (fun xi => ub (cellWidth cs (Z.of_nat c)) (fun wi => ub (getZ (c_rows cs) (Z.of_nat i)) (fun g0 =>
                       throw_if (cr_max g0 <? xi + wi) EDpOutOfRow))))) = CPass).
    { destruct b as [|q b']; cbn [hd_or enc].
      - cbn [Z.eqb negb]. unfold rowLastCell. rewrite getZ_nat, RLa, last_or_snoc. cbn [enc ub]. rewrite Z.eqb_refl. cbn [negb].
        rewrite Hcx, Hcw, Hgz. cbn [ub].
        assert (Hin : In (cell_d cs c) (map (cell_d cs) (a ++ [c]))) by (apply in_map, in_or_app; right; left; reflexivity).
        destruct (chain_In _ _ _ _ Hch Hin) as (_ & Hhi & _). unfold throw_if.
        destruct (Z.ltb_spec (cr_max g) (p_x (cell_d cs c) + p_w (cell_d cs c))); [lia|reflexivity].
      - rewrite of_nat_m1. cbn [negb].
        assert (Hq : In q (a ++ c :: q :: b')) by (apply in_or_app; right; right; left; reflexivity).
        destruct (Hcells q Hq) as (Hqn & Hqr). rewrite getZ_nat, Hqr. cbn [ub]. rewrite Z.eqb_refl. cbn [negb].
        rewrite Hcx, Hcw, (rd_x q Hqn). cbn [ub].
        assert (Hord : p_x (cell_d cs c) + p_w (cell_d cs c) <= p_x (cell_d cs q)).
        { apply (chain_ordered _ _ _ (length a) (S (length a)) _ _ Hch); [lia| |]; rewrite map_app; cbn [map].
          - rewrite nth_error_app2 by (rewrite map_length; lia). rewrite map_length, Nat.sub_diag. reflexivity.
          - rewrite nth_error_app2 by (rewrite map_length; lia). rewrite map_length.
            replace (S (length a) - length a)%nat with 1%nat by lia. reflexivity. }
        unfold throw_if. destruct (Z.ltb_spec (p_x (cell_d cs q)) (p_x (cell_d cs c) + p_w (cell_d cs c))); [lia|reflexivity]. }
    unfold cellRow in P1, P2. rewrite P1, P2. reflexivity.
Qed.

(* :573-584 *)
Lemma cdp_orient_row_pass i : (i < nb_rows cs)%nat -> cdp_orient_row cs (Z.of_nat i) = CPass.
Proof.
  intros Hi. destruct (rows_of i Hi) as (g & l & Eg & El). pose proof R as (_ & HR & _).
  destruct (HR _ _ El) as (RR & RP & RN & RF & RLa). unfold cdp_orient_row, rowFirstCell. rewrite getZ_nat, RF. cbn [ub].
  assert (Hlt : forall c, In c l -> (c < nb_cells cs)%nat) by (intros c Hc; eapply row_rep_lt; [exact SZ|exact (HR _ _ El)|exact Hc]).
  rewrite walk_next_rep; [cbn [ub]|exact RN|].
  2:{ pose proof (nodup_bounded_length l (nb_cells cs) (row_rep_nodup _ _ _ (HR _ _ El)) Hlt). lia. }
  apply ccall_pass. intros z Hz. apply in_map_iff in Hz as (c & <- & Hc).
  pose proof SZ as (_ & _ & _ & _ & _ & So & Sp & _). specialize (Hlt c Hc).
  rewrite !getZ_nat, Eg. rewrite (nth_error_nth_d (c_orient cs) c oN) by lia. rewrite (nth_error_nth_d (MovesConcrete.c_pol cs) c pANY) by lia.
  cbn [ub]. pose proof (O i g l c Eg El Hc) as Ho. unfold check_orient, cell_d in Ho. cbn [p_pol p_o] in Ho.
  unfold throw_if. destruct (orient_eqb (cell_orientation_in_row (nth c (MovesConcrete.c_pol cs) pANY) (cr_o g)) oUNKNOWN); [reflexivity|].
  cbn [orb negb andb] in *. rewrite Ho. reflexivity.
Qed.

Theorem cdp_check_pass : cdp_check cs (nb_cells cs) = CPass.
Proof.
  unfold cdp_check.
  assert (Hs : cdp_sizes cs (nb_cells cs) = CPass).
  { pose proof SZ as (Sp & Sn & Sr & Sx & Sy & _ & _ & Sf & Sl). unfold cdp_sizes. cbn [first_err].
    rewrite !neq_len_eq by (first [assumption|reflexivity]). rewrite Nat.eqb_refl. reflexivity. }
  rewrite Hs. cbn [cseq].
  rewrite ccall_pass; [cbn [cseq]|intros z Hz; apply zseq_in in Hz as (i & -> & Hi); apply cdp_row_pass; exact Hi].
  rewrite ccall_pass; [cbn [cseq]|intros z Hz; apply zseq_in in Hz as (i & -> & Hi); apply cdp_cell_pass; exact Hi].
  apply ccall_pass. intros z Hz. apply zseq_in in Hz as (i & -> & Hi). apply cdp_orient_row_pass. exact Hi.
Qed.
End Concrete.

(* stated on the abstraction: a concrete state that is well formed (WF) and whose abstraction d = abs cs has rows satisfying the
   row invariant and the orientation test passes DetailedPlacement::check (cellIndex_ of the right size).  (Inv d itself is not
   assumed: abs puts the IGNORED cells -- width -1, in no row -- into d_loose, where Inv wants widths >= 0.) *)
Theorem cdp_check_of_abs cs d : WF cs -> abs cs = Some d ->
  Forall row_ok (d_rows d) -> Forall (fun r => Forall (fun c => check_orient (dr_o r) c = true) (dr_cells r)) (d_rows d) ->
  cdp_check cs (nb_cells cs) = CPass.
Proof.
  intros HW Ha HG HO. destruct (WF_abs_d cs d HW Ha) as (SZ & ls & R & ->). cbn [abs_d d_rows] in HG, HO.
  apply (cdp_check_pass cs ls SZ R).
  - intros i g l Eg El. pose proof (nth_error_mkrows (cell_d cs) _ _ i g l Eg El) as Hn.
    rewrite Forall_forall in HG. specialize (HG _ (nth_error_In _ _ Hn)). exact HG.
  - intros i g l c Eg El Hc. pose proof (nth_error_mkrows (cell_d cs) _ _ i g l Eg El) as Hn.
    rewrite Forall_forall in HO. specialize (HO _ (nth_error_In _ _ Hn)). cbn [mkrow dr_o dr_cells] in HO.
    rewrite Forall_forall in HO. apply HO. apply in_map. exact Hc.
Qed.
