(* Legality of the Tetris pass of the legalizer model (Legalizer.tetris_run):
   every placed multi-row cell lies, strip by strip, inside row segments, and
   two placed cells never overlap.  The proof follows the per-row frontier
   rowFreePos: a cell is only placed to the right of the frontier of every row
   it occupies, and instanciate moves exactly those frontiers past the cell. *)
From Coq Require Import List ZArith Lia Bool ZifyBool.
Import ListNotations.
Require Import CV.Orient CV.FreeSpace CV.RowLeg CV.Circuit CV.Legalizer CV.LegalizerAbacusProofs.
Local Open Scope Z_scope.

Ltac splits := repeat match goal with |- _ /\ _ => split end.

(* ---------- list helpers ---------- *)
Lemma nth_error_skipn_add {A} (l : list A) n k : nth_error (skipn n l) k = nth_error l (n + k).
Proof.
  revert l. induction n as [|n IH]; intros l; [reflexivity|].
  destruct l as [|a l]; cbn [skipn plus nth_error]; [destruct k; reflexivity|apply IH].
Qed.

Lemma nth_error_firstn_Some {A} (l : list A) n k v : nth_error (firstn n l) k = Some v -> nth_error l k = Some v.
Proof.
  revert l k. induction n as [|n IH]; intros l k; cbn [firstn]; [destruct k; discriminate|].
  destruct l as [|a l]; [destruct k; discriminate|]. destruct k as [|k]; cbn [nth_error]; [tauto|apply IH].
Qed.

Lemma nth_error_combine_Some {A B} (l : list A) (l' : list B) k a b :
  nth_error l k = Some a -> nth_error l' k = Some b -> nth_error (combine l l') k = Some (a, b).
Proof.
  revert l' k. induction l as [|x l IH]; intros [|y l'] [|k]; cbn [combine nth_error]; try discriminate.
  - intros [= ->] [= ->]. reflexivity.
  - apply IH.
Qed.

Lemma filter_length_le_impl {A} (f g : A -> bool) (l : list A) :
  (forall x, g x = true -> f x = true) -> (length (filter g l) <= length (filter f l))%nat.
Proof.
  intros H. induction l as [|a l IH]; cbn [filter]; [lia|].
  destruct (g a) eqn:Eg.
  - rewrite (H a Eg). cbn [length]. lia.
  - destruct (f a); cbn [length]; lia.
Qed.

Lemma filter_length_lt_impl {A} (f g : A -> bool) (l : list A) a :
  (forall x, g x = true -> f x = true) -> In a l -> f a = true -> g a = false ->
  (length (filter g l) < length (filter f l))%nat.
Proof.
  intros H. induction l as [|b l IH]; cbn [In filter]; [tauto|].
  intros [->|Hin] Hf Hg.
  - rewrite Hf, Hg. cbn [length]. pose proof (filter_length_le_impl f g l H). lia.
  - specialize (IH Hin Hf Hg). destruct (g b) eqn:Eg.
    + rewrite (H b Eg). cbn [length]. lia.
    + destruct (f b); cbn [length]; lia.
Qed.

Lemma filter_length_le_all {A} (f : A -> bool) (l : list A) : (length (filter f l) <= length l)%nat.
Proof. induction l as [|a l IH]; cbn [filter length]; [lia|]. destruct (f a); cbn [length]; lia. Qed.

(* placed dimensions of cell c under orientation o, as t_place/attempt compute them *)
Definition t_dims (c : cell) (o : orient) : Z * Z :=
  if xorb (is_turn o) (is_turn (cor c)) then (ch c, cw c) else (cw c, ch c).

Definition rows_uniform (rh : Z) (rows : list row) : Prop :=
  0 < rh /\ Forall (fun r => maxY (rr r) - minY (rr r) = rh) rows.
Definition rows_disjoint (rows : list row) : Prop :=
  forall i j ri rj, i <> j -> nth_error rows i = Some ri -> nth_error rows j = Some rj ->
                    disjoint_rects (rr ri) (rr rj).

(* ---------- 1. the walk shared by level_intervals and inst_level ---------- *)
(* run_at rs y k: rows 0..k of rs all have minY = y (and k < length rs) *)
Fixpoint run_at (rs : list row) (y : Z) (k : nat) : bool :=
  match rs with
  | [] => false
  | r :: rs' => (minY (rr r) =? y) && match k with O => true | S k' => run_at rs' y k' end
  end.

Lemma run_at_minY rs y : forall k r, run_at rs y k = true -> nth_error rs k = Some r -> minY (rr r) = y.
Proof.
  induction rs as [|a rs IH]; intros k r; cbn [run_at]; [discriminate|].
  intros H. apply andb_true_iff in H as [H1 H2]. apply Z.eqb_eq in H1.
  destruct k as [|k]; cbn [nth_error].
  - intros [= <-]. exact H1.
  - apply IH. exact H2.
Qed.

Lemma level_intervals_spec rs : forall fp y w b e,
  In (b, e) (level_intervals rs fp y w) ->
  exists k r f, nth_error rs k = Some r /\ nth_error fp k = Some f /\ run_at rs y k = true /\
                b = f /\ e = maxX (rr r) - w /\ f <= e.
Proof.
  induction rs as [|r rs IH]; intros fp y w b e; cbn [level_intervals]; [cbn [In]; tauto|].
  destruct fp as [|f fp]; [cbn [In]; tauto|].
  destruct (minY (rr r) =? y) eqn:Ey; [|cbn [In]; tauto].
  intros H. apply in_app_or in H as [H|H].
  - destruct (f <=? maxX (rr r) - w) eqn:El; [|destruct H].
    destruct H as [[= <- <-]|[]]. apply Z.leb_le in El.
    exists O, r, f. cbn [nth_error run_at]. rewrite Ey. cbn [andb]. repeat split; try reflexivity. exact El.
  - apply IH in H as (k & r' & f' & H1 & H2 & H3 & H4).
    exists (S k), r', f'. cbn [nth_error run_at]. rewrite Ey, H3. cbn [andb]. repeat split; tauto.
Qed.

Lemma inst_level_length rs : forall fp x y w, length (inst_level rs fp x y w) = length fp.
Proof.
  induction rs as [|r rs IH]; intros fp x y w; cbn [inst_level]; [reflexivity|].
  destruct fp as [|f fp]; [reflexivity|]. destruct (minY (rr r) =? y); [|reflexivity].
  cbn [length]. rewrite IH. reflexivity.
Qed.

Lemma inst_level_hit rs : forall fp x y w k r,
  run_at rs y k = true -> nth_error rs k = Some r -> (k < length fp)%nat ->
  x < maxX (rr r) -> minX (rr r) < x + w ->
  nth_error (inst_level rs fp x y w) k = Some (x + w).
Proof.
  induction rs as [|a rs IH]; intros fp x y w k r; cbn [run_at]; [discriminate|].
  intros H. apply andb_true_iff in H as [H1 H2].
  destruct fp as [|f fp]; cbn [length]; [lia|]. cbn [inst_level]. rewrite H1.
  destruct k as [|k]; cbn [nth_error].
  - intros [= ->] _ Hx1 Hx2.
    apply Z.ltb_lt in Hx1, Hx2. rewrite Hx1, Hx2. reflexivity.
  - intros Hr Hk. apply IH; [exact H2|exact Hr|lia].
Qed.

Lemma inst_level_inv rs : forall fp x y w k v,
  nth_error (inst_level rs fp x y w) k = Some v ->
  nth_error fp k = Some v \/
  (v = x + w /\ exists r, nth_error rs k = Some r /\ minY (rr r) = y /\ x < maxX (rr r) /\ minX (rr r) < x + w).
Proof.
  induction rs as [|a rs IH]; intros fp x y w k v; cbn [inst_level]; [tauto|].
  destruct fp as [|f fp]; [tauto|].
  destruct (minY (rr a) =? y) eqn:Ey; [|tauto].
  destruct k as [|k]; cbn [nth_error].
  - destruct ((x <? maxX (rr a)) && (minX (rr a) <? x + w)) eqn:Eh; [|tauto].
    intros [= <-]. right. apply andb_true_iff in Eh as [E1 E2]. apply Z.ltb_lt in E1, E2. apply Z.eqb_eq in Ey.
    split; [reflexivity|]. exists a. repeat split; assumption.
  - apply IH.
Qed.

Section TetrisProofs.
Variable rows : list row.
Variable rh : Z.
Hypothesis Hrh : 0 < rh.

(* row k is reached by the walk that starts at closest_row rows y *)
Definition in_run (y : Z) (k : nat) : Prop :=
  0 <= closest_row rows y /\
  exists k', k = (Z.to_nat (closest_row rows y) + k')%nat /\
             run_at (skipn (Z.to_nat (closest_row rows y)) rows) y k' = true.

(* the run starts at closest_row rows y, so that row exists and sits at y *)
Lemma run_at_head rs y k : run_at rs y k = true -> exists r, nth_error rs 0 = Some r /\ minY (rr r) = y.
Proof.
  destruct rs as [|r rs]; cbn [run_at]; [discriminate|]. intros H. apply andb_true_iff in H as [H _].
  apply Z.eqb_eq in H. exists r. split; [reflexivity|exact H].
Qed.

Lemma in_run_anchor y k : in_run y k -> exists r0, nthZ rows (closest_row rows y) = Some r0 /\ minY (rr r0) = y.
Proof.
  intros (Hi & k' & _ & Hrun). apply run_at_head in Hrun as (r & Hr & Hy).
  rewrite nth_error_skipn_add, Nat.add_0_r in Hr. exists r. split; [|exact Hy].
  unfold nthZ. destruct (closest_row rows y <? 0) eqn:E; [lia|exact Hr].
Qed.

Lemma level_spec fp y w b e :
  In (b, e) (level rows fp y w) ->
  exists k r f, nth_error rows k = Some r /\ nth_error fp k = Some f /\ in_run y k /\ minY (rr r) = y /\
                b = f /\ e = maxX (rr r) - w /\ f <= e.
Proof.
  unfold level. destruct (closest_row rows y <? 0) eqn:Ei; [cbn [In]; tauto|]. apply Z.ltb_ge in Ei.
  intros H. apply level_intervals_spec in H as (k & r & f & H1 & H2 & H3 & H4 & H5 & H6).
  pose proof (run_at_minY _ _ _ _ H3 H1) as Hy.
  rewrite nth_error_skipn_add in H1. rewrite nth_error_skipn_add in H2.
  exists (Z.to_nat (closest_row rows y) + k)%nat, r, f. repeat split; try assumption.
  exists k. split; [reflexivity|exact H3].
Qed.

(* one level of instanciate *)
Definition inst1 (fp : list Z) (x y w : Z) : list Z :=
  let i := closest_row rows y in
  if i <? 0 then fp else
  firstn (Z.to_nat i) fp ++ inst_level (skipn (Z.to_nat i) rows) (skipn (Z.to_nat i) fp) x y w.

Lemma inst1_length fp x y w : length (inst1 fp x y w) = length fp.
Proof.
  unfold inst1. destruct (closest_row rows y <? 0); [reflexivity|].
  rewrite app_length, inst_level_length, <- app_length, firstn_skipn. reflexivity.
Qed.

Lemma inst1_hit fp x y w k r :
  in_run y k -> nth_error rows k = Some r -> (k < length fp)%nat ->
  x < maxX (rr r) -> minX (rr r) < x + w ->
  nth_error (inst1 fp x y w) k = Some (x + w).
Proof.
  intros (Hi & k' & -> & Hrun) Hr Hk Hx1 Hx2. unfold inst1.
  destruct (closest_row rows y <? 0) eqn:Ei; [apply Z.ltb_lt in Ei; lia|].
  set (n := Z.to_nat (closest_row rows y)) in *.
  assert (Hl : length (firstn n fp) = n) by (apply firstn_length_le; lia).
  rewrite nth_error_app2 by lia. rewrite Hl. replace (n + k' - n)%nat with k' by lia.
  apply inst_level_hit with (r := r); try assumption.
  - rewrite nth_error_skipn_add. exact Hr.
  - rewrite skipn_length. lia.
Qed.

Lemma inst1_inv fp x y w k v :
  nth_error (inst1 fp x y w) k = Some v ->
  nth_error fp k = Some v \/
  (v = x + w /\ exists r, nth_error rows k = Some r /\ minY (rr r) = y /\ x < maxX (rr r) /\ minX (rr r) < x + w).
Proof.
  unfold inst1. destruct (closest_row rows y <? 0) eqn:Ei; [tauto|].
  set (n := Z.to_nat (closest_row rows y)).
  destruct (Nat.le_gt_cases n (length fp)) as [Hn|Hn].
  - pose proof (firstn_length_le fp Hn) as Hl.
    destruct (Nat.lt_ge_cases k n) as [Hk|Hk].
    + rewrite nth_error_app1 by lia. intros H. left. eapply nth_error_firstn_Some. exact H.
    + rewrite nth_error_app2 by lia. rewrite Hl. intros H.
      apply inst_level_inv in H as [H|(-> & r & H1 & H2)].
      * left. rewrite nth_error_skipn_add in H. replace (n + (k - n))%nat with k in H by lia. exact H.
      * right. split; [reflexivity|]. exists r. rewrite nth_error_skipn_add in H1.
        replace (n + (k - n))%nat with k in H1 by lia. split; assumption.
  - rewrite (skipn_all2 fp) by lia. rewrite (firstn_all2 fp) by lia.
    replace (inst_level (skipn n rows) [] x y w) with (@nil Z) by (destruct (skipn n rows); reflexivity).
    rewrite app_nil_r. tauto.
Qed.


(* ---------- 2. fuel and possible_intervals ---------- *)
Definition cnt (y : Z) : nat := length (filter (fun r => y <=? minY (rr r)) rows).

Lemma cnt_le y : (cnt y <= length rows)%nat.
Proof. apply filter_length_le_all. Qed.

Lemma cnt_step y r : In r rows -> minY (rr r) = y -> (cnt (y + rh) < cnt y)%nat.
Proof.
  intros Hin Hy. unfold cnt. apply filter_length_lt_impl with (a := r).
  - intros x H. lia.
  - exact Hin.
  - lia.
  - lia.
Qed.

(* level j of a cell of width w whose x lies in [b,e]: a row of the run at y + j*rh whose frontier
   is at most b and whose end is at least e + w *)
Definition strip_ok (fp : list Z) (y j b e w : Z) : Prop :=
  exists ri r f, nth_error rows ri = Some r /\ nth_error fp ri = Some f /\ minY (rr r) = y + j * rh /\
                 in_run (y + j * rh) ri /\ f <= b /\ e + w <= maxX (rr r).

Lemma level_case fp y w b e :
  In (b, e) (level rows fp y w) ->
  b <= e /\ strip_ok fp y 0 b e w /\ exists r, In r rows /\ minY (rr r) = y.
Proof.
  intros H. apply level_spec in H as (k & r & f & H1 & H2 & H3 & H4 & -> & -> & H5).
  split; [exact H5|]. split.
  - exists k, r, f. replace (y + 0 * rh) with y by ring. splits; try assumption; lia.
  - exists r. split; [eapply nth_error_In; exact H1|exact H4].
Qed.

Lemma possible_intervals_spec fuel : forall fp w h y b e,
  (cnt y <= fuel)%nat -> In (b, e) (possible_intervals rows rh fuel fp w h y) ->
  b <= e /\ forall j, 0 <= j -> j * rh < h -> strip_ok fp y j b e w.
Proof.
  induction fuel as [|fuel IH]; intros fp w h y b e Hc H; cbn [possible_intervals] in H.
  - apply level_case in H as (_ & _ & r & Hin & Hy). pose proof (cnt_step y r Hin Hy). lia.
  - destruct ((h <=? rh) || match level rows fp y w with [] => true | _ :: _ => false end) eqn:E.
    + apply orb_true_iff in E as [E|E].
      * apply level_case in H as (Hle & Hs & _). split; [exact Hle|].
        intros j Hj Hjh. assert (j = 0) as -> by nia. exact Hs.
      * destruct (level rows fp y w); [destruct H|discriminate].
    + apply orb_false_iff in E as [E1 E2].
      apply in_flat_map in H as ([b1 e1] & Hin1 & H).
      apply in_flat_map in H as ([b2 e2] & Hin2 & H).
      destruct ((b1 <=? e2) && (b2 <=? e1)) eqn:Ec; [|destruct H].
      destruct H as [[= <- <-]|[]].
      apply level_case in Hin1 as (Hle1 & Hs0 & r & Hin & Hy).
      pose proof (cnt_step y r Hin Hy) as Hcs.
      apply IH in Hin2 as (Hle2 & Hs); [|lia].
      split; [lia|].
      intros j Hj Hjh. destruct (Z.eq_dec j 0) as [->|Hj0].
      * destruct Hs0 as (ri & r0 & f & A1 & A2 & A3 & A4 & A5 & A6).
        exists ri, r0, f. splits; try assumption; lia.
      * destruct (Hs (j - 1)) as (ri & r0 & f & A1 & A2 & A3 & A4 & A5 & A6); [lia|lia|].
        replace (y + rh + (j - 1) * rh) with (y + j * rh) in A3, A4 by ring.
        exists ri, r0, f. splits; try assumption; lia.
Qed.

(* ---------- 3. attempt ---------- *)
Lemma clamp_in x b e : b <= e -> b <= clamp x b e <= e.
Proof. unfold clamp. destruct (x <? b) eqn:E1; [lia|]. destruct (e <? x) eqn:E2; lia. Qed.

Lemma att_fold (Q : Z -> Prop) x l : forall d,
  Q d -> (forall b e, In (b, e) l -> Q (clamp x b e)) ->
  Q (fst (fold_left (fun '(dest, found) '(b, e) =>
          let pos := clamp x b e in
          if negb found || (Z.abs (pos - x) <? Z.abs (dest - x)) then (pos, true) else (dest, found)) l (d, true))).
Proof.
  induction l as [|[b e] l IH]; intros d Hd Hl; cbn [fold_left]; [exact Hd|].
  cbn [negb orb]. destruct (Z.abs (clamp x b e - x) <? Z.abs (d - x)).
  - apply IH; [apply Hl; left; reflexivity|]. intros b' e' H. apply Hl. right. exact H.
  - apply IH; [exact Hd|]. intros b' e' H. apply Hl. right. exact H.
Qed.

Lemma attempt_spec fuel fp c y x :
  (length rows <= fuel)%nat -> attempt rows rh fuel fp c y = Some x ->
  exists o, get_orientation rows c (closest_row rows y) = Some o /\ o <> oINVALID /\
    forall j, 0 <= j -> j * rh < snd (t_dims c o) -> strip_ok fp y j x x (fst (t_dims c o)).
Proof.
  intros Hfuel. unfold attempt. destruct (get_orientation rows c (closest_row rows y)) as [o|]; [|discriminate].
  destruct (orient_eqb o oINVALID) eqn:Eo; [discriminate|].
  intros H. exists o. split; [reflexivity|]. split; [intros ->; discriminate Eo|].
  unfold t_dims. destruct (if xorb (is_turn o) (is_turn (cor c)) then (ch c, cw c) else (cw c, ch c)) as [w h].
  cbn [fst snd].
  destruct (possible_intervals rows rh fuel fp w h y) as [|[b0 e0] p'] eqn:Ep; [discriminate|].
  assert (Hp : forall b e, In (b, e) ((b0, e0) :: p') ->
               b <= e /\ forall j, 0 <= j -> j * rh < h -> strip_ok fp y j b e w).
  { intros b e Hin. rewrite <- Ep in Hin. apply possible_intervals_spec in Hin; [exact Hin|].
    pose proof (cnt_le y). lia. }
  set (Q := fun d => forall j, 0 <= j -> j * rh < h -> strip_ok fp y j d d w).
  assert (HQ : forall b e, In (b, e) ((b0, e0) :: p') -> Q (clamp (ctx c) b e)).
  { intros b e Hin. destruct (Hp b e Hin) as (Hle & Hs). pose proof (clamp_in (ctx c) b e Hle) as Hcl.
    intros j Hj Hjh. destruct (Hs j Hj Hjh) as (ri & r0 & f & A1 & A2 & A3 & A4 & A5 & A6).
    exists ri, r0, f. splits; try assumption; lia. }
  cbn [fold_left] in H. cbn [negb orb] in H.
  match type of H with context [fold_left _ ?l (?d, true)] =>
    pose proof (att_fold Q (ctx c) l d) as HF end.
  revert H HF. destruct (fold_left _ _ _) as [dest fnd]. cbn [fst]. intros [= <-] HF.
  apply HF.
  - apply HQ. left. reflexivity.
  - intros b e Hin. apply HQ. right. exact Hin.
Qed.

(* ---------- 4. t_scan and t_place ---------- *)
Definition scan_ok (fuel : nat) (fp : list Z) (c : cell) (st : bool * Z * Z * Z) : Prop :=
  let '(found, _, bx, by_) := st in found = true -> attempt rows rh fuel fp c by_ = Some bx.

Lemma t_scan_ok fuel fp c idx : forall st,
  scan_ok fuel fp c st -> scan_ok fuel fp c (t_scan rows rh fuel fp c idx st).
Proof.
  induction idx as [|i idx IH]; intros [[[found bd] bx] by_] H; cbn [t_scan]; [exact H|].
  destruct (nthZ rows i) as [r|]; [|exact H].
  destruct (found && (bd <=? Z.abs (cty c - minY (rr r)))); [exact H|].
  destruct (attempt rows rh fuel fp c (minY (rr r))) as [x|] eqn:Ea; [|apply IH; exact H].
  destruct (negb found || (Z.abs (ctx c - x) + Z.abs (cty c - minY (rr r)) <? bd)); apply IH; [|exact H].
  intros _. exact Ea.
Qed.

Lemma t_place_spec fuel fp c fp' p :
  t_place rows rh fuel fp c = (fp', p) ->
  match p with
  | None => fp' = fp
  | Some (x, y, o) =>
      attempt rows rh fuel fp c y = Some x /\ get_orientation rows c (closest_row rows y) = Some o /\
      fp' = instanciate rows rh fuel fp x y (fst (t_dims c o)) (snd (t_dims c o))
  end.
Proof.
  unfold t_place.
  destruct (t_scan rows rh fuel fp c (rev (zrange 0 (closest_row rows (cty c))))
              (t_scan rows rh fuel fp c (zrange (closest_row rows (cty c)) (Z.of_nat (length rows)))
                      (false, 2147483647, 0, 0))) as [[[found bd] bx] by_] eqn:Es.
  assert (Hok : scan_ok fuel fp c (found, bd, bx, by_)).
  { rewrite <- Es. apply t_scan_ok, t_scan_ok. intros [=]. }
  destruct found; cbn [negb]; [|intros [= <- <-]; reflexivity].
  destruct (get_orientation rows c (closest_row rows by_)) as [o|] eqn:Eg; [|intros [= <- <-]; reflexivity].
  unfold t_dims. destruct (xorb (is_turn o) (is_turn (cor c))) eqn:Ex; intros [= <- <-]; rewrite Ex; cbn [fst snd];
    (split; [apply Hok; reflexivity|split; [exact Eg|reflexivity]]).
Qed.

(* ---------- 5. instanciate ---------- *)
Definition touched (x w y h : Z) (k : nat) : Prop :=
  exists j r, 0 <= j /\ j * rh < h /\ nth_error rows k = Some r /\ minY (rr r) = y + j * rh /\
              x < maxX (rr r) /\ minX (rr r) < x + w.

Lemma instanciate_unfold fuel fp x y w h :
  instanciate rows rh fuel fp x y w h =
  if (h <=? 0) || (w <=? 0) then fp else
  match fuel with
  | O => inst1 fp x y w
  | S fuel' => if h <=? rh then inst1 fp x y w
               else instanciate rows rh fuel' (inst1 fp x y w) x (y + rh) w (h - rh)
  end.
Proof. destruct fuel; reflexivity. Qed.

Lemma instanciate_length fuel : forall fp x y w h, length (instanciate rows rh fuel fp x y w h) = length fp.
Proof.
  induction fuel as [|fuel IH]; intros fp x y w h; rewrite instanciate_unfold;
    destruct ((h <=? 0) || (w <=? 0)); try reflexivity; try apply inst1_length.
  destruct (h <=? rh); [apply inst1_length|]. rewrite IH. apply inst1_length.
Qed.

Lemma instanciate_inv fuel : forall fp x y w h k v,
  nth_error (instanciate rows rh fuel fp x y w h) k = Some v ->
  nth_error fp k = Some v \/ (v = x + w /\ touched x w y h k).
Proof.
  assert (H0 : forall fp x y w h k v, 0 < h -> nth_error (inst1 fp x y w) k = Some v ->
               nth_error fp k = Some v \/ (v = x + w /\ touched x w y h k)).
  { intros fp x y w h k v Hh H. apply inst1_inv in H as [H|(-> & r & H1 & H2 & H3 & H4)]; [left; exact H|].
    right. split; [reflexivity|]. exists 0, r. splits; try assumption; lia. }
  induction fuel as [|fuel IH]; intros fp x y w h k v; rewrite instanciate_unfold;
    destruct ((h <=? 0) || (w <=? 0)) eqn:E; try tauto; apply orb_false_iff in E as [E1 E2].
  - apply H0. lia.
  - destruct (h <=? rh) eqn:E3; [apply H0; lia|].
    intros H. apply IH in H as [H|(-> & j & r & A1 & A2 & A3 & A4 & A5 & A6)].
    + apply H0; [lia|exact H].
    + right. split; [reflexivity|]. exists (j + 1), r. splits; try assumption; lia.
Qed.

Lemma instanciate_hit fuel : forall fp x y w h,
  0 < w -> (cnt y <= fuel)%nat ->
  (forall j, 0 <= j -> j * rh < h -> exists r, In r rows /\ minY (rr r) = y + j * rh) ->
  forall j ri r, 0 <= j -> j * rh < h -> nth_error rows ri = Some r -> in_run (y + j * rh) ri ->
    x < maxX (rr r) -> minX (rr r) < x + w -> (ri < length fp)%nat ->
    nth_error (instanciate rows rh fuel fp x y w h) ri = Some (x + w).
Proof.
  induction fuel as [|fuel IH]; intros fp x y w h Hw Hc Hlev j ri r Hj Hjh Hr Hrun Hx1 Hx2 Hri;
    rewrite instanciate_unfold.
  - destruct (Hlev 0) as (r0 & Hin & Hy); [lia|nia|].
    replace (y + 0 * rh) with y in Hy by ring. pose proof (cnt_step y r0 Hin Hy). lia.
  - assert (Hh : 0 < h) by nia.
    destruct ((h <=? 0) || (w <=? 0)) eqn:E; [lia|].
    destruct (h <=? rh) eqn:E3.
    + assert (j = 0) as -> by nia. replace (y + 0 * rh) with y in Hrun by ring.
      eapply inst1_hit; eassumption.
    + destruct (Hlev 0) as (r0 & Hin & Hy); [lia|lia|].
      replace (y + 0 * rh) with y in Hy by ring. pose proof (cnt_step y r0 Hin Hy) as Hcs.
      destruct (Z.eq_dec j 0) as [->|Hj0].
      * replace (y + 0 * rh) with y in Hrun by ring.
        pose proof (inst1_hit fp x y w ri r Hrun Hr Hri Hx1 Hx2) as H1.
        destruct (nth_error (instanciate rows rh fuel (inst1 fp x y w) x (y + rh) w (h - rh)) ri) as [v|] eqn:Ev.
        -- apply instanciate_inv in Ev as [Ev|[-> _]]; [|reflexivity]. rewrite H1 in Ev. symmetry. exact Ev.
        -- apply nth_error_None in Ev. rewrite instanciate_length, inst1_length in Ev. lia.
      * apply IH with (j := j - 1) (r := r); try assumption; try lia.
        -- intros j' Hj' Hjh'. destruct (Hlev (j' + 1)) as (r1 & Hin1 & Hy1); [lia|lia|].
           exists r1. split; [exact Hin1|]. rewrite Hy1. ring.
        -- replace (y + rh + (j - 1) * rh) with (y + j * rh) by ring. exact Hrun.
        -- rewrite inst1_length. exact Hri.
Qed.

(* ---------- 6. the loop invariant ---------- *)
Hypothesis Huni : Forall (fun r => maxY (rr r) - minY (rr r) = rh) rows.
Hypothesis Hdisj : rows_disjoint rows.

(* two rows that share a y and whose x-ranges cross are the same row *)
Lemma rows_meet i i' r r' t :
  nth_error rows i = Some r -> nth_error rows i' = Some r' ->
  minY (rr r) <= t < minY (rr r) + rh -> minY (rr r') <= t < minY (rr r') + rh ->
  minX (rr r) < maxX (rr r') -> minX (rr r') < maxX (rr r) -> i = i'.
Proof.
  intros Hr Hr' Ht Ht' Hx Hx'. destruct (Nat.eq_dec i i') as [E|E]; [exact E|exfalso].
  pose proof (Hdisj i i' r r' E Hr Hr') as Hd.
  pose proof (proj1 (Forall_forall _ _) Huni) as Hu.
  pose proof (Hu r (nth_error_In _ _ Hr)) as U1. pose proof (Hu r' (nth_error_In _ _ Hr')) as U2.
  cbv beta in U1, U2. unfold disjoint_rects in Hd. lia.
Qed.

(* every frontier is at or after the start of its row *)
Definition fp_lb (fp : list Z) : Prop :=
  forall ri r f, nth_error rows ri = Some r -> nth_error fp ri = Some f -> minX (rr r) <= f.

(* the cell (x,y,w,h) lies strip by strip inside rows whose frontier is past the cell *)
Definition covered (fp : list Z) (x y w h : Z) : Prop :=
  forall j, 0 <= j -> j * rh < h ->
  exists ri r f, nth_error rows ri = Some r /\ nth_error fp ri = Some f /\
    minY (rr r) = y + j * rh /\ minX (rr r) <= x /\ x + w <= maxX (rr r) /\ x + w <= f.

Lemma place_step fuel fp x y w h :
  (length rows <= fuel)%nat -> 0 < w -> 0 < h -> length fp = length rows -> fp_lb fp ->
  (forall j, 0 <= j -> j * rh < h -> strip_ok fp y j x x w) ->
  length (instanciate rows rh fuel fp x y w h) = length rows /\
  fp_lb (instanciate rows rh fuel fp x y w h) /\
  (forall k f, nth_error fp k = Some f ->
     exists v, nth_error (instanciate rows rh fuel fp x y w h) k = Some v /\ f <= v) /\
  covered (instanciate rows rh fuel fp x y w h) x y w h.
Proof.
  intros Hfuel Hw Hh Hlen Hlb Hs. set (fp' := instanciate rows rh fuel fp x y w h).
  assert (Hb : forall k v, nth_error fp' k = Some v ->
            nth_error fp k = Some v \/
            (v = x + w /\ exists r f, nth_error rows k = Some r /\ nth_error fp k = Some f /\
                                      minX (rr r) <= f /\ f <= x)).
  { intros k v H. apply instanciate_inv in H as [H|(-> & j & rk & T1 & T2 & T3 & T4 & T5 & T6)]; [left; exact H|right].
    split; [reflexivity|].
    destruct (Hs j T1 T2) as (ri & r & f & A1 & A2 & A3 & A4 & A5 & A6).
    pose proof (Hlb ri r f A1 A2) as Hf.
    assert (k = ri) as -> by (apply (rows_meet k ri rk r (y + j * rh)); try assumption; lia).
    exists r, f. splits; try assumption. }
  assert (Hl' : length fp' = length fp) by apply instanciate_length.
  splits.
  - lia.
  - intros ri r v Hr Hv. apply Hb in Hv as [Hv|(-> & r0 & f & B1 & B2 & B3 & B4)].
    + eapply Hlb; eassumption.
    + rewrite Hr in B1. injection B1 as <-. lia.
  - intros k f Hk. destruct (nth_error fp' k) as [v|] eqn:Ev.
    + exists v. split; [reflexivity|]. apply Hb in Ev as [Ev|(-> & r0 & f0 & B1 & B2 & B3 & B4)].
      * rewrite Hk in Ev. injection Ev as <-. lia.
      * rewrite Hk in B2. injection B2 as <-. lia.
    + apply nth_error_None in Ev. assert (k < length fp)%nat by (apply nth_error_Some; congruence). lia.
  - intros j Hj Hjh. destruct (Hs j Hj Hjh) as (ri & r & f & A1 & A2 & A3 & A4 & A5 & A6).
    pose proof (Hlb ri r f A1 A2) as Hf.
    exists ri, r, (x + w). splits; try assumption; try lia.
    apply instanciate_hit with (j := j) (r := r); try assumption; try lia.
    + pose proof (cnt_le y). lia.
    + intros j' Hj' Hjh'. destruct (Hs j' Hj' Hjh') as (ri' & r' & f' & C1 & C2 & C3 & _).
      exists r'. split; [eapply nth_error_In; exact C1|exact C3].
    + apply nth_error_Some. congruence.
Qed.

(* a cell placed right of the frontiers of its strips does not meet a cell left of the frontiers of its own *)
Lemma strips_disjoint fp x y w h x' y' w' h' :
  0 < w -> 0 < h -> 0 < w' -> 0 < h' -> fp_lb fp -> covered fp x y w h ->
  (forall j, 0 <= j -> j * rh < h' -> strip_ok fp y' j x' x' w') ->
  disjoint_rects {| minX := x; maxX := x + w; minY := y; maxY := y + h |}
                 {| minX := x'; maxX := x' + w'; minY := y'; maxY := y' + h' |}.
Proof.
  intros Hw Hh Hw' Hh' Hlb Hcov Hs. unfold disjoint_rects. cbn [minX maxX minY maxY].
  destruct (Z_le_gt_dec (x + w) x'); [tauto|]. destruct (Z_le_gt_dec (x' + w') x); [tauto|].
  destruct (Z_le_gt_dec (y + h) y'); [tauto|]. destruct (Z_le_gt_dec (y' + h') y); [tauto|]. exfalso.
  set (t := Z.max y y').
  assert (Ht : y <= t < y + h /\ y' <= t < y' + h') by lia.
  assert (Hne : rh <> 0) by lia.
  pose proof (Z.div_mod (t - y) rh Hne) as D1. pose proof (Z.mod_pos_bound (t - y) rh Hrh) as M1.
  assert (P1 : 0 <= (t - y) / rh) by (apply Z.div_pos; lia).
  pose proof (Z.div_mod (t - y') rh Hne) as D2. pose proof (Z.mod_pos_bound (t - y') rh Hrh) as M2.
  assert (P2 : 0 <= (t - y') / rh) by (apply Z.div_pos; lia).
  set (q := (t - y) / rh) in *. set (m := (t - y) mod rh) in *.
  set (q' := (t - y') / rh) in *. set (m' := (t - y') mod rh) in *.
  destruct (Hcov q) as (ri & r & f & A1 & A2 & A3 & A4 & A5 & A6); [lia|lia|].
  destruct (Hs q') as (ri' & r' & f' & B1 & B2 & B3 & B4 & B5 & B6); [lia|lia|].
  pose proof (Hlb ri' r' f' B1 B2) as Hf'.
  assert (ri = ri') as <- by (apply (rows_meet ri ri' r r' t); try assumption; lia).
  rewrite A1 in B1. injection B1 as <-. rewrite A2 in B2. injection B2 as <-. lia.
Qed.

Definition cell_rect (c : cell) (x y : Z) (o : orient) : rect :=
  {| minX := x; maxX := x + fst (t_dims c o); minY := y; maxY := y + snd (t_dims c o) |}.

Definition pdisj (a b : cell * placed) : Prop :=
  match snd a, snd b with
  | Some (x, y, o), Some (x', y', o') => disjoint_rects (cell_rect (fst a) x y o) (cell_rect (fst b) x' y' o')
  | _, _ => True
  end.

Fixpoint all_disj (L : list (cell * placed)) : Prop :=
  match L with [] => True | a :: L' => (forall b, In b L' -> pdisj a b) /\ all_disj L' end.

Definition valid_o (c : cell) (y : Z) (o : orient) : Prop :=
  get_orientation rows c (closest_row rows y) = Some o /\ o <> oINVALID /\
  exists r0, nthZ rows (closest_row rows y) = Some r0 /\ minY (rr r0) = y.

Definition Inv (fp : list Z) (L : list (cell * placed)) : Prop :=
  length fp = length rows /\ fp_lb fp /\
  (forall c x y o, In (c, Some (x, y, o)) L ->
     valid_o c y o /\ 0 < fst (t_dims c o) /\ 0 < snd (t_dims c o) /\
     covered fp x y (fst (t_dims c o)) (snd (t_dims c o))) /\
  all_disj L.

Lemma t_dims_pos c o : 0 < cw c -> 0 < ch c -> 0 < fst (t_dims c o) /\ 0 < snd (t_dims c o).
Proof. intros H1 H2. unfold t_dims. destruct (xorb (is_turn o) (is_turn (cor c))); cbn [fst snd]; lia. Qed.

Lemma t_place_inv fuel fp L c fp' p :
  (length rows <= fuel)%nat -> 0 < cw c -> 0 < ch c -> Inv fp L ->
  t_place rows rh fuel fp c = (fp', p) -> Inv fp' ((c, p) :: L).
Proof.
  intros Hfuel Hcw Hch (Hlen & Hlb & Hcells & Hdj) Hp. apply t_place_spec in Hp.
  destruct p as [[[x y] o]|].
  - destruct Hp as (Hatt & Hgo & ->).
    apply attempt_spec in Hatt as (o' & Hgo' & Hinv & Hs); [|exact Hfuel].
    rewrite Hgo in Hgo'. injection Hgo' as <-.
    destruct (t_dims_pos c o Hcw Hch) as (Hw & Hh).
    assert (Hanch : exists r0, nthZ rows (closest_row rows y) = Some r0 /\ minY (rr r0) = y).
    { destruct (Hs 0) as (ri & r & f & _ & _ & _ & A4 & _); [lia|lia|].
      replace (y + 0 * rh) with y in A4 by ring. eapply in_run_anchor. exact A4. }
    destruct (place_step fuel fp x y _ _ Hfuel Hw Hh Hlen Hlb Hs) as (Hlen' & Hlb' & Hmono & Hcov).
    unfold Inv. splits; try assumption.
    + intros c0 x0 y0 o0 [[= <- <- <- <-]|Hin].
      * splits; try assumption. unfold valid_o. splits; assumption.
      * destruct (Hcells c0 x0 y0 o0 Hin) as (Hv & Hw0 & Hh0 & Hc0). splits; try assumption.
        intros j Hj Hjh. destruct (Hc0 j Hj Hjh) as (ri & r & f & A1 & A2 & A3 & A4 & A5 & A6).
        destruct (Hmono ri f A2) as (v & Hv1 & Hv2).
        exists ri, r, v. splits; try assumption. lia.
    + cbn [all_disj]. split; [|exact Hdj].
      intros [c0 [[[x0 y0] o0]|]] Hin; unfold pdisj; cbn [fst snd]; [|exact I].
      destruct (Hcells c0 x0 y0 o0 Hin) as (Hv & Hw0 & Hh0 & Hc0).
      pose proof (strips_disjoint fp x0 y0 _ _ x y _ _ Hw0 Hh0 Hw Hh Hlb Hc0 Hs) as Hd.
      unfold cell_rect, disjoint_rects in *. cbn [minX maxX minY maxY] in *. lia.
  - subst fp'. unfold Inv. splits; try assumption.
    + intros c0 x0 y0 o0 [[=]|Hin]. apply Hcells. exact Hin.
    + cbn [all_disj]. split; [|exact Hdj]. intros b _. unfold pdisj. cbn [fst snd]. exact I.
Qed.

Lemma t_fold_inv fuel cs : forall fp acc pre,
  (length rows <= fuel)%nat -> Forall (fun c => 0 < cw c /\ 0 < ch c) cs -> length acc = length pre ->
  Inv fp (combine pre acc) ->
  forall fp' acc', fold_left (t_step rows rh fuel) cs (fp, acc) = (fp', acc') ->
  Inv fp' (combine (rev cs ++ pre) acc') /\ length acc' = (length cs + length acc)%nat.
Proof.
  induction cs as [|c cs IH]; intros fp acc pre Hfuel Hpos Hlen HI fp' acc'; cbn [fold_left].
  - intros [= <- <-]. split; [exact HI|reflexivity].
  - inversion Hpos as [|? ? [Hcw Hch] Hpos']; subst.
    unfold t_step at 2. destruct (t_place rows rh fuel fp c) as [fp1 p] eqn:Ep.
    intros H. apply (IH fp1 (p :: acc) (c :: pre)) in H; try assumption.
    + cbn [rev length] in *. rewrite <- app_assoc. cbn [app]. split; [tauto|lia].
    + cbn [length]. lia.
    + cbn [combine]. eapply t_place_inv; eassumption.
Qed.

Lemma all_disj_nth L : all_disj L -> forall i j a b, i <> j ->
  nth_error L i = Some a -> nth_error L j = Some b -> pdisj a b.
Proof.
  induction L as [|a0 L IH]; intros HL i j a b Hij Ha Hb; [destruct i; discriminate|].
  destruct HL as [H0 HL]. destruct i as [|i], j as [|j]; cbn [nth_error] in Ha, Hb.
  - congruence.
  - injection Ha as <-. apply H0. eapply nth_error_In. exact Hb.
  - injection Hb as <-. apply nth_error_In in Ha. specialize (H0 a Ha). unfold pdisj in *.
    destruct (snd a) as [[[x y] o]|], (snd a0) as [[[x' y'] o']|]; try exact I.
    unfold disjoint_rects in *. tauto.
  - apply (IH HL i j a b); [lia|exact Ha|exact Hb].
Qed.

Lemma nth_error_rev_fwd {A} (l : list A) k x :
  nth_error l k = Some x -> nth_error (rev l) (length l - 1 - k) = Some x.
Proof.
  intros H. rewrite <- (rev_involutive l) in H. apply nth_error_rev_inv in H as [_ H].
  rewrite rev_length in H. exact H.
Qed.

Theorem tetris_fold_legal cells fuel :
  (length rows <= fuel)%nat -> Forall (fun c => 0 < cw c /\ 0 < ch c) cells ->
  let res := rev (snd (fold_left (t_step rows rh fuel) cells (map (fun r => minX (rr r)) rows, []))) in
  length res = length cells /\
  (forall ci c x y o, nth_error cells ci = Some c -> nth_error res ci = Some (Some (x, y, o)) ->
     get_orientation rows c (closest_row rows y) = Some o /\ o <> oINVALID /\
     (exists r0, nthZ rows (closest_row rows y) = Some r0 /\ minY (rr r0) = y) /\
     forall j, 0 <= j -> j * rh < snd (t_dims c o) ->
       exists r, In r rows /\ minY (rr r) = y + j * rh /\ minX (rr r) <= x /\ x + fst (t_dims c o) <= maxX (rr r)) /\
  (forall ci cj c c' x y o x' y' o', ci <> cj ->
     nth_error cells ci = Some c -> nth_error cells cj = Some c' ->
     nth_error res ci = Some (Some (x, y, o)) -> nth_error res cj = Some (Some (x', y', o')) ->
     disjoint_rects (cell_rect c x y o) (cell_rect c' x' y' o')).
Proof.
  intros Hfuel Hpos.
  destruct (fold_left (t_step rows rh fuel) cells (map (fun r => minX (rr r)) rows, [])) as [fp' acc'] eqn:Ef.
  cbn [snd]. cbv zeta.
  assert (HI0 : Inv (map (fun r => minX (rr r)) rows) (combine (@nil cell) (@nil placed))).
  { unfold Inv. splits.
    - apply map_length.
    - intros ri r f Hr Hf. erewrite map_nth_error in Hf by exact Hr. injection Hf as <-. lia.
    - intros c x y o [].
    - exact I. }
  destruct (t_fold_inv fuel cells _ [] [] Hfuel Hpos eq_refl HI0 fp' acc' Ef) as ((_ & _ & Hcells & Hdj) & Hlen).
  rewrite app_nil_r in *. cbn [length] in Hlen. rewrite Nat.add_0_r in Hlen.
  assert (Hidx : forall ci c p, nth_error cells ci = Some c -> nth_error (rev acc') ci = Some p ->
            nth_error (combine (rev cells) acc') (length cells - 1 - ci) = Some (c, p)).
  { intros ci c p Hc Hp. apply nth_error_rev_inv in Hp as [_ Hp]. rewrite Hlen in Hp.
    apply nth_error_combine_Some; [apply nth_error_rev_fwd; exact Hc|exact Hp]. }
  splits.
  - rewrite rev_length. exact Hlen.
  - intros ci c x y o Hc Hr. pose proof (Hidx _ _ _ Hc Hr) as Hin. apply nth_error_In in Hin.
    destruct (Hcells c x y o Hin) as ((Hgo & Hinv & Hanch) & _ & _ & Hcov). splits; try assumption.
    intros j Hj Hjh. destruct (Hcov j Hj Hjh) as (ri & r & f & A1 & A2 & A3 & A4 & A5 & A6).
    exists r. splits; try assumption. eapply nth_error_In. exact A1.
  - intros ci cj c c' x y o x' y' o' Hne Hc Hc' Hr Hr'.
    assert (ci < length cells)%nat by (apply nth_error_Some; congruence).
    assert (cj < length cells)%nat by (apply nth_error_Some; congruence).
    pose proof (all_disj_nth _ Hdj (length cells - 1 - ci)%nat (length cells - 1 - cj)%nat _ _
                  ltac:(lia) (Hidx _ _ _ Hc Hr) (Hidx _ _ _ Hc' Hr')) as Hd.
    exact Hd.
Qed.

End TetrisProofs.

(* ---------- the raw model tetris_run ---------- *)
Lemma t_place_nil rh fuel fp c : t_place [] rh fuel fp c = (fp, None).
Proof. reflexivity. Qed.

Lemma tetris_fold_nil rh rh' fuel cells : forall st,
  fold_left (t_step [] rh fuel) cells st = fold_left (t_step [] rh' fuel) cells st.
Proof.
  induction cells as [|c cells IH]; intros [fp acc]; cbn [fold_left]; [reflexivity|].
  unfold t_step at 2 4. rewrite !t_place_nil. apply IH.
Qed.

(* tetris_run takes rh from the first sorted row; under rows_uniform this is the common row height *)
Lemma tetris_run_eq rows0 cells rh :
  rows_uniform rh (sort_rows rows0) ->
  tetris_run rows0 cells =
  rev (snd (fold_left (t_step (sort_rows rows0) rh (length (sort_rows rows0))) cells
                      (map (fun r => minX (rr r)) (sort_rows rows0), []))).
Proof.
  intros [Hrh Hu]. unfold tetris_run. destruct (sort_rows rows0) as [|r rs].
  - rewrite (tetris_fold_nil 0 rh). reflexivity.
  - inversion Hu as [|? ? H1 H2]; subst. reflexivity.
Qed.

Theorem tetris_rows_legal rows0 cells rh :
  let rows := sort_rows rows0 in
  rows_uniform rh rows -> rows_disjoint rows ->
  Forall (fun c => 0 < cw c /\ 0 < ch c) cells ->
  let res := tetris_run rows0 cells in
  length res = length cells /\
  (* every placed cell: valid orientation, and every row-high strip of it lies inside one row segment *)
  (forall ci c x y o, nth_error cells ci = Some c -> nth_error res ci = Some (Some (x, y, o)) ->
     get_orientation rows c (closest_row rows y) = Some o /\ o <> oINVALID /\
     (exists r0, nthZ rows (closest_row rows y) = Some r0 /\ minY (rr r0) = y) /\
     forall j, 0 <= j -> j * rh < snd (t_dims c o) ->
       exists r, In r rows /\ minY (rr r) = y + j * rh /\ minX (rr r) <= x /\ x + fst (t_dims c o) <= maxX (rr r)) /\
  (* two different placed cells do not overlap *)
  (forall ci cj c c' x y o x' y' o', ci <> cj ->
     nth_error cells ci = Some c -> nth_error cells cj = Some c' ->
     nth_error res ci = Some (Some (x, y, o)) -> nth_error res cj = Some (Some (x', y', o')) ->
     disjoint_rects {| minX := x; maxX := x + fst (t_dims c o); minY := y; maxY := y + snd (t_dims c o) |}
                    {| minX := x'; maxX := x' + fst (t_dims c' o'); minY := y'; maxY := y' + snd (t_dims c' o') |}).
Proof.
  intros rows Huni Hdisj Hpos res. subst res. rewrite (tetris_run_eq rows0 cells rh Huni).
  destruct Huni as [Hrh Hu].
  exact (tetris_fold_legal rows rh Hrh Hu Hdisj cells (length rows) (le_n _) Hpos).
Qed.

Print Assumptions tetris_fold_legal.
Print Assumptions tetris_rows_legal.
