(* Extraction of the C06 models (family `global`) to OCaml for the correspondence runs.
   ExtrOcamlBasic only: bool/option/list/prod/unit/sumbool map to OCaml's; Z,
   positive, nat, Q stay the extracted Coq datatypes.  No Extract Constant. *)
From Coq Require Import Extraction ExtrOcamlBasic ZArith QArith Qreduction List.
Require Import CV.Orient CV.FreeSpace CV.Spread.
Extraction Language OCaml.
Extraction "model_global.ml"
  Spread.spread_cells Spread.spread_coord Spread.spread_coord_orig Spread.grid_of_circuit Spread.export_global
  Spread.clip_rows Spread.grid_area Qreduction.Qred.
