(* C07: every C++-typed intermediate of the Abacus legalizer's cost arithmetic (AbacusMachine.v) fits its
   type on the supported magnitude range, for one tryPlace, one placeCell and the whole run. *)
From Coq Require Import List ZArith Lia Bool.
Import ListNotations.
Require Import CV.Orient CV.FreeSpace CV.RowLeg CV.RowLegProofs CV.Legalizer CV.RowLegMachine CV.RowLegMachineProofs
               CV.AbacusMachine.
Local Open Scope Z_scope.

Lemma nthZ_In {A} (l : list A) i x : nthZ l i = Some x -> In x l.
Proof. unfold nthZ. destruct (i <? 0); [discriminate|]. apply nth_error_In. Qed.

Lemma nthZ_range {A} (l : list A) i x : nthZ l i = Some x -> 0 <= i < Z.of_nat (length l).
Proof.
  unfold nthZ. destruct (Z.ltb_spec i 0); [discriminate|]. intros E.
  assert (nth_error l (Z.to_nat i) <> None) by congruence. apply nth_error_Some in H0. lia.
Qed.

Lemma Forall_In {A} (P : A -> Prop) l x : Forall P l -> In x l -> P x.
Proof. intros H. rewrite Forall_forall in H. apply H. Qed.

(* the value returned by getCost / push on the magnitude range (from the loop facts of RowLegMachineProofs) *)
Lemma get_cost_bound s w t :
  MInv s -> 0 < w <= remaining_space s -> -8388608 <= t <= 8388608 ->
  - (8388608 * 25165824) <= snd (get_cost s w t) <= 8388608 * 25165824 + 8388608 * 33554432.
Proof.
  intros HI Hw Ht. pose proof (all_le_rend s HI) as Hle.
  destruct HI as (Hrb & Hre & Hfit & Hu & Hs & Hb & Hsum). unfold remaining_space in Hw. unfold get_cost, get_displacement.
  destruct (pop_loop (bounds s) (t - used s) (rend s - used s - w) w [] (- w) (rend s) 0)
    as [[[[q passed] slope] cur] cost] eqn:E.
  assert (HM : 0 <= w + 2 * used s <= 25165824) by lia.
  assert (Hw' : 0 < w <= 8388608) by lia.
  assert (G1 : rbegin s <= rend s <= rend s) by lia.
  assert (G2 : 0 <= - w + w) by lia.
  assert (G3 : - w + w + wsum (bounds s) <= w + 2 * used s) by lia.
  assert (G4 : 0 <= 0 <= (rend s - rend s) * (w + 2 * used s)) by lia.
  destruct (pop_loop_facts (rbegin s) (rend s) (w + 2 * used s) w (t - used s) (rend s - used s - w)
              (bounds s) [] (- w) (rend s) 0 q passed slope cur cost Hrb Hre Hw' HM Hs Hb Hle G1 G2 G3 G4 E) as (F & A1 & A2 & A3 & A4 & A5 & A6 & A7).
  pose proof (wsum_nonneg _ _ _ A2) as Hq0.
  cbn [snd].
  set (final := Z.min (rend s - used s - w) (Z.max (rbegin s) (if 0 <=? slope then cur else t - used s))).
  assert (Hf : rbegin s <= final <= rend s - used s - w) by (unfold final; lia).
  clearbody final.
  set (M := w + 2 * used s) in *. clearbody M.
  assert (Hsw : 0 <= slope + w <= M) by lia.
  assert (Hab : 0 <= Z.abs (final - (t - used s)) <= 33554432) by lia.
  assert (Hwa : 0 <= w * Z.abs (final - (t - used s)) <= 8388608 * 33554432) by nia.
  assert (Hc0 : 0 <= cost <= 8388608 * 25165824) by nia.
  assert (Hp : -(8388608 * 25165824) <= (cur - final) * (slope + w)) by nia.
  assert (Hq : cost + (cur - final) * (slope + w) <= 8388608 * 25165824).
  { destruct (Z.le_gt_cases final cur) as [Hc|Hc].
    - assert ((cur - final) * (slope + w) <= (cur - final) * M) by (apply Z.mul_le_mono_nonneg_l; lia).
      assert ((rend s - cur) * M + (cur - final) * M = (rend s - final) * M) by ring.
      assert ((rend s - final) * M <= 8388608 * 25165824) by (apply Z.mul_le_mono_nonneg; lia). lia.
    - assert ((cur - final) * (slope + w) <= 0) by (apply Z.mul_nonpos_nonneg; lia). lia. }
  lia.
Qed.

(* ---------- closestRow ---------- *)
Lemma lower_bound_range rows y : forall i, i <= lower_bound rows y i <= i + Z.of_nat (length rows).
Proof.
  induction rows as [|r rs IH]; intros i; cbn [lower_bound length]; [lia|].
  destruct (minY (rr r) <? y); [specialize (IH (i + 1))|]; lia.
Qed.

Lemma closest_row_no_overflow rows y :
  rows_dom rows -> -8388608 <= y <= 8388608 -> Forall fits (closest_row_vals rows y).
Proof.
  intros [Hr Hn] Hy. unfold closest_row_vals. pose proof (lower_bound_range rows y 0) as Hlb.
  destruct (_ =? Z.of_nat (length rows)); [repeat (constructor; [apply fits32; lia|]); constructor|].
  destruct (_ =? 0); [constructor|]. constructor; [apply fits32; lia|].
  destruct (nthZ rows (lower_bound rows y 0)) as [r|] eqn:E1; [|constructor].
  destruct (nthZ rows (lower_bound rows y 0 - 1)) as [rp|] eqn:E2; [|constructor].
  pose proof (Forall_In _ _ _ Hr (nthZ_In _ _ _ E1)) as (_ & _ & _ & D1 & _).
  pose proof (Forall_In _ _ _ Hr (nthZ_In _ _ _ E2)) as (_ & _ & _ & D2 & _).
  repeat (constructor; [apply fits32; lia|]). constructor.
Qed.

Lemma closest_row_range rows y : rows <> [] -> 0 <= closest_row rows y < Z.of_nat (length rows).
Proof.
  intros Hne. unfold closest_row. pose proof (lower_bound_range rows y 0) as Hlb.
  assert (0 < Z.of_nat (length rows)) by (destruct rows; [congruence|cbn [length]; lia]).
  destruct (Z.eqb_spec (lower_bound rows y 0) (Z.of_nat (length rows))); [lia|].
  destruct (Z.eqb_spec (lower_bound rows y 0) 0); [lia|].
  destruct (nthZ rows (lower_bound rows y 0)); [|lia]. destruct (nthZ rows (lower_bound rows y 0 - 1)); [|lia].
  destruct (_ <? _); lia.
Qed.

(* ---------- tryPlace ---------- *)
(* what the scan carries: bestDist is a long long; bestRow is -1 or a row whose legalizer has room *)
Definition st_ok (legs : list rl) (c : cell) (st : Z * Z) : Prop :=
  -9223372036854775808 <= snd st < 9223372036854775808 /\
  (fst st = -1 \/ exists lg, nthZ legs (fst st) = Some lg /\ cw c <= remaining_space lg).

Lemma a_try_facts rows legs c i st :
  Forall row_dom rows -> Forall MInv legs -> cell_dom c -> st_ok legs c st ->
  Forall fits (a_try_vals rows legs c i st) /\ st_ok legs c (snd (a_try rows legs c i st)).
Proof.
  intros Hr Hl (Hw & Hx & Hy) Hst. unfold a_try_vals, a_try. destruct st as [bestRow bestDist].
  destruct Hst as [Hbd Hbr]. cbn [fst snd] in Hbd, Hbr.
  assert (Hst : st_ok legs c (bestRow, bestDist)) by (split; assumption).
  destruct (nthZ rows i) as [r|] eqn:Er; [|split; [constructor|exact Hst]].
  destruct (nthZ legs i) as [lg|] eqn:El; [|split; [constructor|exact Hst]].
  pose proof (Forall_In _ _ _ Hr (nthZ_In _ _ _ Er)) as (R1 & R2 & R3 & R4 & R5).
  pose proof (Forall_In _ _ _ Hl (nthZ_In _ _ _ El)) as HI.
  assert (HI' := HI). destruct HI' as (Hrb & Hre & Hfit & Hu & _).
  destruct (negb (maxY (rr r) - minY (rr r) =? ch c)).
  { split; [constructor; [apply fits32; lia|constructor]|exact Hst]. }
  set (dy := minY (rr r) - Legalizer.cty c). assert (Hdy : -12582912 <= dy <= 12582912) by (unfold dy; lia).
  clearbody dy.
  assert (Hyd : 0 <= cw c * Z.abs dy <= 8388608 * 12582912) by nia.
  set (yDist := cw c * Z.abs dy) in *. clearbody yDist.
  assert (F0 : fits (I32, maxY (rr r) - minY (rr r))) by (apply fits32; lia).
  assert (F1 : Forall fits [(I32, dy); (I64, Z.abs 0); (I64, Z.abs dy); (I64, Z.abs 0 + Z.abs dy); (I64, yDist); (I64, bestDist)]).
  { repeat (constructor; [first [apply fits32; lia | apply fits64; lia]|]). constructor. }
  destruct (negb (bestRow =? -1) && (bestDist <? yDist)).
  { split; [constructor; [exact F0|]; apply Forall_app; split; [exact F1|constructor]|exact Hst]. }
  assert (F2 : Forall fits [(I32, rend lg - rbegin lg); (I32, remaining_space lg)]).
  { unfold remaining_space. repeat (constructor; [apply fits32; lia|]). constructor. }
  assert (F3 : Forall fits [(I64, 0 + yDist)]) by (constructor; [apply fits64; lia|constructor]).
  assert (Skip : Forall fits ((I32, maxY (rr r) - minY (rr r)) ::
            [(I32, dy); (I64, Z.abs 0); (I64, Z.abs dy); (I64, Z.abs 0 + Z.abs dy); (I64, yDist); (I64, bestDist)] ++
            [(I32, rend lg - rbegin lg); (I32, remaining_space lg)] ++ [(I64, 0 + yDist)])).
  { constructor; [exact F0|]. apply Forall_app; split; [exact F1|]. apply Forall_app; split; [exact F2|exact F3]. }
  destruct (Z.ltb_spec (remaining_space lg) (cw c)) as [Hrs|Hrs]; [split; [exact Skip|exact Hst]|].
  destruct (get_orientation rows c i) as [o|]; [|split; [exact Skip|exact Hst]].
  destruct (orient_eqb o oINVALID); [split; [exact Skip|exact Hst]|].
  assert (Hw2 : 0 < cw c <= remaining_space lg) by lia.
  pose proof (get_cost_bound lg (cw c) (ctx c) HI Hw2 Hx) as Hxd.
  pose proof (gd_no_overflow lg (cw c) (ctx c) HI Hw2 Hx) as Fgd.
  set (xDist := snd (get_cost lg (cw c) (ctx c))) in *. clearbody xDist.
  split.
  - constructor; [exact F0|]. apply Forall_app; split; [exact F1|]. apply Forall_app; split; [exact F2|].
    apply Forall_app; split; [exact Fgd|]. repeat (constructor; [apply fits64; lia|]). constructor.
  - destruct ((bestRow =? -1) || (xDist + yDist <? bestDist)); cbn [snd]; [|exact Hst].
    split; cbn [fst snd]; [lia|]. right. exists lg. split; [exact El|lia].
Qed.

(* ---------- the scans ---------- *)
Lemma a_scan_facts rows legs c step : forall idx st,
  Forall row_dom rows -> Forall MInv legs -> cell_dom c -> st_ok legs c st ->
  -1 <= step <= 1 -> Forall (fun i => 0 <= i < 2147483647) idx ->
  Forall fits (a_scan_vals rows legs c step idx st) /\ st_ok legs c (a_scan rows legs c idx st).
Proof.
  induction idx as [|i idx IH]; intros st Hr Hl Hc Hst Hstep Hidx; cbn [a_scan_vals a_scan]; [split; [constructor|exact Hst]|].
  inversion Hidx as [|? ? Hi Hidx']; subst.
  destruct (a_try_facts rows legs c i st Hr Hl Hc Hst) as [F S].
  destruct (a_try rows legs c i st) as [stop st'] eqn:E. cbn [snd] in S.
  destruct stop.
  - split; [apply Forall_app; split; [exact F|constructor]|exact S].
  - destruct (IH st' Hr Hl Hc S Hstep Hidx') as [F' S'].
    split; [apply Forall_app; split; [exact F|constructor; [apply fits32; lia|exact F']]|exact S'].
Qed.

Lemma zrange_In a b i : In i (zrange a b) -> a <= i < b.
Proof.
  unfold zrange. intros H. apply in_map_iff in H as (k & <- & Hk). apply in_seq in Hk. lia.
Qed.

Lemma zrange_Forall a b : 0 <= a -> b <= 2147483647 -> Forall (fun i => 0 <= i < 2147483647) (zrange a b).
Proof. intros Ha Hb. apply Forall_forall. intros i Hi. apply zrange_In in Hi. lia. Qed.

(* ---------- placeCell ---------- *)
Lemma st0_ok legs c : st_ok legs c (-1, 9223372036854775807).
Proof. split; cbn [fst snd]; [lia|left; reflexivity]. Qed.

Theorem a_place_no_overflow rows legs c :
  rows_dom rows -> rows <> [] -> Forall MInv legs -> cell_dom c -> Forall fits (a_place_vals rows legs c).
Proof.
  intros Hrd Hne Hl Hc. assert (Hrd' := Hrd). destruct Hrd' as [Hr Hn]. unfold a_place_vals.
  pose proof (closest_row_range rows (Legalizer.cty c) Hne) as Hinit.
  set (n := Z.of_nat (length rows)) in *. set (init := closest_row rows (Legalizer.cty c)) in *.
  assert (Hc' := Hc). destruct Hc' as (Hw & Hx & Hy).
  destruct (a_scan_facts rows legs c 1 (zrange init n) (-1, 9223372036854775807) Hr Hl Hc (st0_ok legs c)) as [F1 S1];
    [lia|apply zrange_Forall; lia|].
  destruct (a_scan_facts rows legs c (-1) (rev (zrange 0 init)) _ Hr Hl Hc S1) as [F2 S2];
    [lia|apply Forall_rev; apply zrange_Forall; lia|].
  apply Forall_app; split; [constructor; [apply fits32; lia|constructor]|].
  apply Forall_app; split; [apply closest_row_no_overflow; assumption|].
  apply Forall_app; split; [exact F1|].
  apply Forall_app; split; [constructor; [apply fits32; lia|constructor]|].
  apply Forall_app; split; [exact F2|].
  destruct S2 as [_ [S2|(lg & E & Hsp)]].
  - rewrite S2. cbn. constructor.
  - destruct (_ =? -1); [constructor|]. rewrite E.
    apply gd_no_overflow; [exact (Forall_In _ _ _ Hl (nthZ_In _ _ _ E))|lia|exact Hx].
Qed.

(* one tryPlace, stated alone *)
Theorem a_try_no_overflow rows legs c i st :
  Forall row_dom rows -> Forall MInv legs -> cell_dom c ->
  -9223372036854775808 <= snd st < 9223372036854775808 ->
  Forall fits (a_try_vals rows legs c i st).
Proof.
  intros Hr Hl Hc Hb. destruct st as [bestRow bestDist]. cbn [snd] in Hb.
  unfold a_try_vals.
  (* the row part of st_ok is only used for the state, not for the values: rerun the value half *)
  destruct Hc as (Hw & Hx & Hy).
  destruct (nthZ rows i) as [r|] eqn:Er; [|constructor].
  destruct (nthZ legs i) as [lg|] eqn:El; [|constructor].
  pose proof (Forall_In _ _ _ Hr (nthZ_In _ _ _ Er)) as (R1 & R2 & R3 & R4 & R5).
  pose proof (Forall_In _ _ _ Hl (nthZ_In _ _ _ El)) as HI.
  assert (HI' := HI). destruct HI' as (Hrb & Hre & Hfit & Hu & _).
  constructor; [apply fits32; lia|].
  destruct (negb (maxY (rr r) - minY (rr r) =? ch c)); [constructor|].
  set (dy := minY (rr r) - Legalizer.cty c). assert (Hdy : -12582912 <= dy <= 12582912) by (unfold dy; lia).
  clearbody dy.
  assert (Hyd : 0 <= cw c * Z.abs dy <= 8388608 * 12582912) by nia.
  set (yDist := cw c * Z.abs dy) in *. clearbody yDist.
  apply Forall_app; split; [repeat (constructor; [first [apply fits32; lia | apply fits64; lia]|]); constructor|].
  destruct (negb (bestRow =? -1) && (bestDist <? yDist)); [constructor|].
  apply Forall_app; split; [unfold remaining_space; repeat (constructor; [apply fits32; lia|]); constructor|].
  assert (F3 : Forall fits [(I64, 0 + yDist)]) by (constructor; [apply fits64; lia|constructor]).
  destruct (Z.ltb_spec (remaining_space lg) (cw c)) as [Hrs|Hrs]; [exact F3|].
  destruct (get_orientation rows c i) as [o|]; [|exact F3].
  destruct (orient_eqb o oINVALID); [exact F3|].
  assert (Hw2 : 0 < cw c <= remaining_space lg) by lia.
  pose proof (get_cost_bound lg (cw c) (ctx c) HI Hw2 Hx) as Hxd.
  apply Forall_app; split; [apply gd_no_overflow; assumption|].
  set (xDist := snd (get_cost lg (cw c) (ctx c))) in *. clearbody xDist.
  repeat (constructor; [apply fits64; lia|]). constructor.
Qed.

(* ---------- the whole run ---------- *)
Lemma Forall_upd {A} (P : A -> Prop) l i a : Forall P l -> P a -> Forall P (upd l i a).
Proof.
  revert i. induction l as [|x l IH]; intros i Hl Ha; cbn [upd]; [constructor|].
  inversion Hl; subst. destruct i; constructor; try assumption. apply IH; assumption.
Qed.

Lemma a_place_minv rows legs rcs ci c :
  Forall row_dom rows -> Forall MInv legs -> cell_dom c ->
  Forall MInv (fst (fst (a_place rows legs rcs ci c))).
Proof.
  intros Hr Hl Hc. unfold a_place.
  set (n := Z.of_nat (length rows)). set (init := closest_row rows (Legalizer.cty c)).
  pose proof (lower_bound_range rows (Legalizer.cty c) 0) as Hlb.
  assert (Hinit : -1 <= init <= n).
  { unfold init, closest_row. fold n.
    destruct (Z.eqb_spec (lower_bound rows (Legalizer.cty c) 0) n); [lia|].
    destruct (Z.eqb_spec (lower_bound rows (Legalizer.cty c) 0) 0); [lia|].
    destruct (nthZ rows (lower_bound rows (Legalizer.cty c) 0)); [|lia].
    destruct (nthZ rows (lower_bound rows (Legalizer.cty c) 0 - 1)); [|lia]. destruct (_ <? _); lia. }
  (* the state facts do not need the index bounds: use step 0 and the trivial bound via st_ok only *)
  assert (S2 : st_ok legs c (a_scan rows legs c (rev (zrange 0 init))
                 (a_scan rows legs c (zrange init n) (-1, 9223372036854775807)))).
  { assert (G : forall idx st, st_ok legs c st -> st_ok legs c (a_scan rows legs c idx st)).
    { induction idx as [|i idx IH]; intros st Hst; cbn [a_scan]; [exact Hst|].
      destruct (a_try_facts rows legs c i st Hr Hl Hc Hst) as [_ S].
      destruct (a_try rows legs c i st) as [stop st']. cbn [snd] in S. destruct stop; [exact S|apply IH; exact S]. }
    apply G. apply G. apply st0_ok. }
  destruct (a_scan rows legs c (rev (zrange 0 init)) _) as [bestRow bd].
  destruct S2 as [_ S2]. cbn [fst] in S2.
  destruct (Z.eqb_spec bestRow (-1)); [exact Hl|].
  destruct S2 as [S2|(lg & E & Hsp)]; [congruence|]. rewrite E.
  destruct (nthZ rcs bestRow); [|exact Hl]. cbn [fst].
  apply Forall_upd; [exact Hl|]. destruct Hc as (Hw & _).
  apply push_minv; [exact (Forall_In _ _ _ Hl (nthZ_In _ _ _ E))|lia].
Qed.

Lemma abacus_vals_no_overflow rows : forall cells st,
  rows_dom rows -> Forall MInv (fst (fst st)) -> Forall cell_dom cells ->
  Forall fits (abacus_vals rows cells st).
Proof.
  induction cells as [|c cells IH]; intros st Hrd Hl Hc; cbn [abacus_vals]; [constructor|].
  inversion Hc as [|? ? Hc1 Hc2]; subst. apply Forall_app; split.
  - destruct (Nat.eqb_spec (length rows) 0); [constructor|].
    apply a_place_no_overflow; try assumption. destruct rows; [cbn in *; congruence|discriminate].
  - apply IH; [exact Hrd| |exact Hc2].
    destruct st as [[legs rcs] ci]. cbn [a_step fst] in *.
    pose proof (a_place_minv rows legs rcs ci c (proj1 Hrd) Hl Hc1) as H.
    destruct (a_place rows legs rcs ci c) as [[legs' rcs'] b]. exact H.
Qed.

(* AbacusLegalizer::run on rows inside [-2^22, 2^22]^2 and cells of the domain: every intermediate of
   every tryPlace / getCost / push of the whole run fits its C++ type *)
Theorem abacus_run_no_overflow rows cells :
  rows_dom rows -> Forall cell_dom cells -> Forall fits (abacus_run_vals rows cells).
Proof.
  intros Hrd Hc. unfold abacus_run_vals. apply abacus_vals_no_overflow; [exact Hrd| |exact Hc].
  cbn [fst]. destruct Hrd as [Hr _]. induction Hr as [|r rows (R1 & R2 & R3 & _) _ IH]; cbn [map]; constructor; [|exact IH].
  apply init_minv; lia.
Qed.

(* ---------- non-vacuity and sanity ---------- *)
Definition ex_rows : list row :=
  [ {| rr := {| minX := -4194304; maxX := 4194304; minY := -4194304; maxY := -4194294 |}; ro := oN |};
    {| rr := {| minX := -4194304; maxX := 4194304; minY := 4194294; maxY := 4194304 |}; ro := oN |} ].
Definition ex_cells : list cell :=
  [ {| cw := 4194304; ch := 10; cpol := pANY; ctx := 8388608; Legalizer.cty := 8388608; cor := oN |};
    {| cw := 4194304; ch := 10; cpol := pANY; ctx := -8388608; Legalizer.cty := 8388608; cor := oN |};
    {| cw := 8388608; ch := 10; cpol := pANY; ctx := 8388608; Legalizer.cty := 8388608; cor := oN |};
    {| cw := 1; ch := 10; cpol := pANY; ctx := 0; Legalizer.cty := -8388608; cor := oN |} ].

(* the domain is inhabited at its upper end (rows spanning [-2^22, 2^22], a cell as wide as a row, targets at
   +-2^23), the listing is not empty there, and it contains values that need the wide type *)
Example abacus_nonvacuous :
  rows_dom ex_rows /\ Forall cell_dom ex_cells /\
  length (abacus_run_vals ex_rows ex_cells) = 228%nat /\
  In (I64, 105553116266496) (abacus_run_vals ex_rows ex_cells).
Proof.
  split; [split; [repeat constructor; cbn; lia|cbn; lia]|].
  split; [repeat constructor; cbn; lia|].
  split; [vm_compute; reflexivity|]. vm_compute. tauto.
Qed.

(* sanity: the list is sensitive to the types -- a long long entry of an in-domain run does not fit `int`
   (this is the product cellWidth * |rowY - targetY| which the C++ evaluates in long long, norm() returning
   long long; evaluated in int it would overflow) *)
Example abacus_int_would_overflow :
  rows_dom ex_rows /\ Forall cell_dom ex_cells /\
  exists v, In (I64, v) (abacus_run_vals ex_rows ex_cells) /\ ~ fits (I32, v).
Proof.
  split; [split; [repeat constructor; cbn; lia|cbn; lia]|].
  split; [repeat constructor; cbn; lia|].
  exists 105553116266496. split; [vm_compute; tauto|]. unfold fits; cbn [fst snd]. lia.
Qed.
