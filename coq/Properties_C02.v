(* C02 -- detailed placement keeps the placement legal at every exposed state.
   Models: Moves.v (the row data structure of DetailedPlacement: per-row ordered cell lists,
   unplace/place with the canPlace guard, canInsert/insert, canSwap/swap with the C++ position
   formulas), tied to /repo by ./check C02: EXACT comparison of the whole structure after every
   operation of random and exhaustively enumerated swap/insert/unplace/place sequences
   (harness/dplace.cpp), the proved legality checker legalb (Circuit.v) on every state
   Circuit::placeDetailed exposes and after every directly driven optimiser pass. *)
From Coq Require Import List ZArith Lia Bool.
Import ListNotations.
Require Import CV.Orient CV.Moves CV.MovesProofs.
Local Open Scope Z_scope.

(* [F] legality of the rows is an invariant of EVERY history of swap / insert / unplace / place
   operations (performed when their guard holds, refused otherwise), from every legal state *)
Theorem c02_moves_keep_rows_legal : forall ops s, Inv s -> Inv (run_mops s ops).
Proof. exact run_mops_inv. Qed.

(* [F] what the invariant says, cell by cell: every cell of a row lies inside the row segment,
   and cells of one row appear in x order without overlap *)
Theorem c02_inv_reads : forall s r, Inv s -> In r (d_rows s) ->
  (forall c, In c (dr_cells r) -> dr_min r <= p_x c /\ p_x c + p_w c <= dr_max r /\ 0 <= p_w c) /\
  (forall i j ci cj, (i < j)%nat -> nth_error (dr_cells r) i = Some ci -> nth_error (dr_cells r) j = Some cj ->
                     p_x ci + p_w ci <= p_x cj).
Proof.
  intros s r [HR _] Hr. rewrite Forall_forall in HR. specialize (HR r Hr). unfold row_ok in HR. split.
  - intros c Hc. exact (chain_In _ _ _ _ HR Hc).
  - intros i j ci cj Hij Hi Hj. exact (chain_ordered _ _ _ _ _ _ _ HR Hij Hi Hj).
Qed.

(* [F] an operation whose guard fails changes nothing *)
Theorem c02_refused_move_is_noop : forall s o, apply_mop s o = None -> step_mop s o = s.
Proof. intros s o H. unfold step_mop. rewrite H. reflexivity. Qed.

(* [F] (with C04) a placed cell takes the orientation the table prescribes for the destination
   row, or keeps its own when the table says UNKNOWN (no polarity) *)
Theorem c02_place_orientation : forall s id rowi pred x s',
  place s id rowi pred x = Some s' ->
  exists r c', nth_error (d_rows s) rowi = Some r /\
    (exists r', nth_error (d_rows s') rowi = Some r' /\ In c' (dr_cells r') /\ dr_o r' = dr_o r) /\
    p_id c' = id /\ p_x c' = x /\
    (cell_orientation_in_row (p_pol c') (dr_o r) = oUNKNOWN \/ p_o c' = cell_orientation_in_row (p_pol c') (dr_o r)).
Proof. exact place_orientation. Qed.

(* [V] "never fails on a circuit legalization accepts" (F6, repaired in /repo) and "multi-row
   cells stay where legalization put them" are checked on every run of the correspondence. *)

(* non-vacuity: two rows, a swap across rows and an insert, from a legal state *)
Definition ex_state : dstate :=
  {| d_rows := [ {| dr_min := 0; dr_max := 10; dr_y := 0; dr_o := oN;
                    dr_cells := [ {| p_id := 0; p_x := 0; p_w := 3; p_pol := pANY; p_o := oN |};
                                  {| p_id := 1; p_x := 4; p_w := 2; p_pol := pSAME; p_o := oN |} ] |};
                 {| dr_min := 0; dr_max := 8; dr_y := 1; dr_o := oFS;
                    dr_cells := [ {| p_id := 2; p_x := 1; p_w := 3; p_pol := pSAME; p_o := oFS |} ] |} ];
     d_loose := [] |}.
Example c02_nonvacuous :
  Inv ex_state /\ apply_mop ex_state (MSwap 1 2) <> None /\ apply_mop ex_state (MInsert 0 1 (Some 2%nat)) <> None /\
  run_mops ex_state [MSwap 1 2; MInsert 0 1 (Some 2%nat)] <> ex_state.
Proof.
  split; [unfold Inv, ex_state, row_ok; cbn; repeat constructor; cbn; lia|].
  vm_compute. repeat split; discriminate.
Qed.

(* [F] the shift pass: ANY vector of new positions for ANY set of selected cells that satisfies the
   positional constraints the C++ hands to the network simplex (next selected: x_next >= x_c + w_c;
   predecessor not selected: x_c >= boundaryBefore(c); successor not selected: x_c + w_c <=
   boundaryAfter(c)) keeps every row legal.  The solver itself (lemon) is not modelled: that its
   output satisfies these constraints is re-checked with `shift_ok` on every driven shift pass. *)
Theorem c02_shift_guard_sound : forall s xs, Inv s -> shift_ok s xs = true -> Inv (apply_shift s xs).
Proof. exact shift_inv. Qed.

Example c02_shift_nonvacuous :
  shift_ok ex_state [(0%nat, 1); (1%nat, 8)] = true /\ shift_ok ex_state [(0%nat, 3)] = false /\
  apply_shift ex_state [(0%nat, 1); (1%nat, 8)] <> ex_state.
Proof. vm_compute. repeat split; discriminate. Qed.

Print Assumptions c02_moves_keep_rows_legal.
Print Assumptions c02_inv_reads.
Print Assumptions c02_refused_move_is_noop.
Print Assumptions c02_place_orientation.
Print Assumptions c02_shift_guard_sound.
