(* C02 -- detailed placement keeps the placement legal at every exposed state.
   Models: Moves.v (the row data structure of DetailedPlacement: per-row ordered cell lists,
   unplace/place with the canPlace guard, canInsert/insert, canSwap/swap with the C++ position
   formulas), tied to /repo by ./check C02: EXACT comparison of the whole structure after every
   operation of random and exhaustively enumerated swap/insert/unplace/place sequences
   (harness/dplace.cpp), the proved legality checker legalb (Circuit.v) on every state
   Circuit::placeDetailed exposes and after every directly driven optimiser pass. *)
From Coq Require Import List ZArith Lia Bool.
Import ListNotations.
Require Import CV.Orient CV.Moves CV.MovesProofs.
Local Open Scope Z_scope.

(* [F] legality of the rows is an invariant of EVERY history of swap / insert / unplace / place
   operations (performed when their guard holds, refused otherwise), from every legal state *)
Theorem c02_moves_keep_rows_legal : forall ops s, Inv s -> Inv (run_mops s ops).
Proof. exact run_mops_inv. Qed.

(* [F] what the invariant says, cell by cell: every cell of a row lies inside the row segment,
   and cells of one row appear in x order without overlap *)
Theorem c02_inv_reads : forall s r, Inv s -> In r (d_rows s) ->
  (forall c, In c (dr_cells r) -> dr_min r <= p_x c /\ p_x c + p_w c <= dr_max r /\ 0 <= p_w c) /\
  (forall i j ci cj, (i < j)%nat -> nth_error (dr_cells r) i = Some ci -> nth_error (dr_cells r) j = Some cj ->
                     p_x ci + p_w ci <= p_x cj).
Proof.
  intros s r [HR _] Hr. rewrite Forall_forall in HR. specialize (HR r Hr). unfold row_ok in HR. split.
  - intros c Hc. exact (chain_In _ _ _ _ HR Hc).
  - intros i j ci cj Hij Hi Hj. exact (chain_ordered _ _ _ _ _ _ _ HR Hij Hi Hj).
Qed.

(* [F] an operation whose guard fails changes nothing *)
Theorem c02_refused_move_is_noop : forall s o, apply_mop s o = None -> step_mop s o = s.
Proof. intros s o H. unfold step_mop. rewrite H. reflexivity. Qed.

(* [F] (with C04) a placed cell takes the orientation the table prescribes for the destination
   row, or keeps its own when the table says UNKNOWN (no polarity) *)
Theorem c02_place_orientation : forall s id rowi pred x s',
  place s id rowi pred x = Some s' ->
  exists r c', nth_error (d_rows s) rowi = Some r /\
    (exists r', nth_error (d_rows s') rowi = Some r' /\ In c' (dr_cells r') /\ dr_o r' = dr_o r) /\
    p_id c' = id /\ p_x c' = x /\
    (cell_orientation_in_row (p_pol c') (dr_o r) = oUNKNOWN \/ p_o c' = cell_orientation_in_row (p_pol c') (dr_o r)).
Proof. exact place_orientation. Qed.

(* [V] "never fails on a circuit legalization accepts" (F6, repaired in /repo) and "multi-row
   cells stay where legalization put them" are checked on every run of the correspondence. *)

(* non-vacuity: two rows, a swap across rows and an insert, from a legal state *)
Definition ex_state : dstate :=
  {| d_rows := [ {| dr_min := 0; dr_max := 10; dr_y := 0; dr_o := oN;
                    dr_cells := [ {| p_id := 0; p_x := 0; p_w := 3; p_pol := pANY; p_o := oN |};
                                  {| p_id := 1; p_x := 4; p_w := 2; p_pol := pSAME; p_o := oN |} ] |};
                 {| dr_min := 0; dr_max := 8; dr_y := 1; dr_o := oFS;
                    dr_cells := [ {| p_id := 2; p_x := 1; p_w := 3; p_pol := pSAME; p_o := oFS |} ] |} ];
     d_loose := [] |}.
Example c02_nonvacuous :
  Inv ex_state /\ apply_mop ex_state (MSwap 1 2) <> None /\ apply_mop ex_state (MInsert 0 1 (Some 2%nat)) <> None /\
  run_mops ex_state [MSwap 1 2; MInsert 0 1 (Some 2%nat)] <> ex_state.
Proof.
  split; [unfold Inv, ex_state, row_ok; cbn; repeat constructor; cbn; lia|].
  vm_compute. repeat split; discriminate.
Qed.

(* [F] the shift pass: ANY vector of new positions for ANY set of selected cells that satisfies the
   positional constraints the C++ hands to the network simplex (next selected: x_next >= x_c + w_c;
   predecessor not selected: x_c >= boundaryBefore(c); successor not selected: x_c + w_c <=
   boundaryAfter(c)) keeps every row legal.  The solver itself (lemon) is not modelled: that its
   output satisfies these constraints is re-checked with `shift_ok` on every driven shift pass, and follows
   from dual feasibility of its potentials (c02_shift_dual_feasible_legal below), which the proved
   certificate checker of C05 (ShiftLp.shift_cert_ok) re-checks on every driven shift pass. *)
Theorem c02_shift_guard_sound : forall s xs, Inv s -> shift_ok s xs = true -> Inv (apply_shift s xs).
Proof. exact shift_inv. Qed.

Example c02_shift_nonvacuous :
  shift_ok ex_state [(0%nat, 1); (1%nat, 8)] = true /\ shift_ok ex_state [(0%nat, 3)] = false /\
  apply_shift ex_state [(0%nat, 1); (1%nat, 8)] <> ex_state.
Proof. vm_compute. repeat split; discriminate. Qed.

(* [F] the ordering/boundary constraints ARE the positional arcs of the flow problem: for every row structure,
   every set of selected cells and every vector of node potentials, all reduced costs
   cost + pi(src) - pi(tgt) of the positional arcs runShiftsOnCells builds (ShiftLp.pos_arcs: next selected ->
   arc next->c of cost -w_c; predecessor not selected -> arc c->fixed of cost -boundaryBefore(c); successor not
   selected -> arc fixed->c of cost boundaryAfter(c) - w_c) are >= 0  IF AND ONLY IF  the positions
   potential(c) - potential(fixed) pass the guard shift_ok.  ./check C02 compares the arcs the C++ built with
   ShiftLp.shift_net on the same state for every driven shift pass *)
Require Import CV.Hpwl CV.ShiftLp CV.ShiftLpProofs.
Theorem c02_shift_constraints_are_dual_feasibility : forall d sel pi,
  dual_feasible (pos_arcs d sel) pi = true <-> shift_ok d (positions_of sel pi) = true.
Proof. exact pos_arcs_feasible_iff. Qed.

(* [F] hence legality after the shift pass follows from DUAL FEASIBILITY of the solver's potentials alone (no
   optimality needed), for all states: any potentials whose reduced costs on the network of the pass are >= 0
   give positions that keep every row legal *)
Theorem c02_shift_dual_feasible_legal : forall d xm sel pi,
  Inv d -> dual_feasible (n_arcs (shift_net d xm sel)) pi = true -> Inv (apply_shift d (positions_of sel pi)).
Proof. exact shift_dual_feasible_inv. Qed.

(* non-vacuity: ex_state with cells 0 and 1 of row 0 selected and a net joining them: potentials placing them
   at 1 and 8 are dual feasible, potentials that push cell 1 over the row end are not *)
Example c02_shift_lp_nonvacuous :
  let xm := incr_build [0; 4; 1; 0] [[(0%nat, 0); (1%nat, 1)]] in
  let pi1 := fun n => match n with NCell 0 => 1 | NCell 1 => 8 | NL _ => 1 | NU _ => 9 | _ => 0 end in
  let pi2 := fun n => match n with NCell 0 => 1 | NCell 1 => 9 | NL _ => 1 | NU _ => 10 | _ => 0 end in
  pos_arcs ex_state [0%nat; 1%nat] = [(NCell 1, NCell 0, -3); (NCell 0, NFixed, 0); (NFixed, NCell 1, 8)] /\
  dual_feasible (n_arcs (shift_net ex_state xm [0%nat; 1%nat])) pi1 = true /\
  positions_of [0%nat; 1%nat] pi1 = [(0%nat, 1); (1%nat, 8)] /\
  dual_feasible (n_arcs (shift_net ex_state xm [0%nat; 1%nat])) pi2 = false /\
  shift_ok ex_state (positions_of [0%nat; 1%nat] pi2) = false.
Proof. vm_compute. repeat split; reflexivity. Qed.

Print Assumptions c02_moves_keep_rows_legal.
Print Assumptions c02_inv_reads.
Print Assumptions c02_refused_move_is_noop.
Print Assumptions c02_place_orientation.
Print Assumptions c02_shift_guard_sound.
Print Assumptions c02_shift_constraints_are_dual_feasibility.
Print Assumptions c02_shift_dual_feasible_legal.

(* ====================================================================================== *)
(* The CONCRETE model (DESIGN.md section 4, C02 item 2, `concrete_refines_abstract`).
   MovesConcrete.v models DetailedPlacement with its index arrays cellPred_/cellNext_/cellRow_/
   rowFirstCell_/rowLastCell_ (lists of C++ ints, -1 = none; every access through getZ/setZ, which
   fail on an out-of-range index) and follows place/unplace/insert/swap/canPlace/canInsert/canSwap/
   boundaryBefore/boundaryAfter/siteBegin/siteEnd line by line.  MovesConcreteProofs.v proves that
   it refines the abstract list model Moves.v used above:
     abs : cstate -> option dstate   walks every row from rowFirstCell_ along cellNext_ (fuel =
                                     number of cells, fails on a cycle / a cell of another row /
                                     an index out of range); the unplaced cells in index order;
     WF  : cstate -> Prop            array sizes consistent + the arrays represent some family of
                                     row lists (Rep); equivalent to the pointwise predicate WFp
                                     (what check() verifies about the pointers + pred/next mutually
                                     inverse + every placed cell reaches a cell without predecessor);
     deq s s'                        d_rows s = d_rows s' and, for every id, the unplaced cells
                                     with this id are the same lists.  (The abstract model keeps
                                     unplaced cells in order of unplacing, a history artefact the
                                     arrays do not have; take_loose only observes this quotient.
                                     The ROWS are equal on the nose.)
     predOk cs row pred              pred == -1 || cellRow(pred) == row: the C++ never checks that
                                     `pred` belongs to `row` (caller obligation; the harness and
                                     the abstract model do). *)
Require CV.MovesConcrete.
Require Import CV.MovesConcreteProofs.
Module MC := CV.MovesConcrete.

(* [F] 1. a well-formed concrete state has an abstraction (no cycle, no dangling index) *)
Theorem c02c_wf_has_abstraction : forall cs, WF cs -> exists s, MC.abs cs = Some s.
Proof. exact WF_abs. Qed.

(* [F] 1'. WF is the pointwise predicate WFp: sizes; per row first/last consistent; per cell: row in
   range, unplaced cells have no pred/next, pred/next in the same row and mutually inverse, a cell
   without pred (next) is the first (last) of its row; every placed cell reaches the head of its row *)
Theorem c02c_wf_pointwise : forall cs, WF cs <-> WFp cs.
Proof. exact WF_iff_WFp. Qed.

(* [F] 2a. unplace commutes with abs: for EVERY well-formed state and every cell index, the concrete
   unplace succeeds iff the abstract one does, the result is well formed and its abstraction is the
   abstract result *)
Theorem c02c_unplace_commutes : forall cs s c, WF cs -> MC.abs cs = Some s ->
  match MC.unplace cs (Z.of_nat c), Moves.unplace s c with
  | Some cs', Some s' => WF cs' /\ exists s'', MC.abs cs' = Some s'' /\ deq s'' s'
  | None, None => True
  | _, _ => False
  end.
Proof. exact unplace_commutes. Qed.

(* [F] 2b. place commutes with abs (under the caller obligation predOk; without it the abstract
   model refuses: c02c_place_refused_without_predOk) *)
Theorem c02c_place_commutes : forall cs s c i pred x, WF cs -> MC.abs cs = Some s ->
  MC.predOk cs (Z.of_nat i) (MC.enc pred) = true ->
  match MC.place cs (Z.of_nat c) (Z.of_nat i) (MC.enc pred) x, Moves.place s c i pred x with
  | Some cs', Some s' => WF cs' /\ exists s'', MC.abs cs' = Some s'' /\ deq s'' s'
  | None, None => True
  | _, _ => False
  end.
Proof. exact place_commutes. Qed.

Theorem c02c_place_refused_without_predOk : forall cs s c i pred x, WF cs -> MC.abs cs = Some s ->
  MC.predOk cs (Z.of_nat i) (MC.enc pred) = false -> Moves.place s c i pred x = None.
Proof. exact place_refused_without_predOk. Qed.

(* [F] 2c. insert and swap (the C++ compositions of canInsert/positionOnInsert/unplace/place and
   canSwap/positionsOnSwap/unplace/unplace/place/place) simulate the abstract ones *)
Theorem c02c_insert_commutes : forall cs s c i pred, WF cs -> MC.abs cs = Some s ->
  MC.predOk cs (Z.of_nat i) (MC.enc pred) = true ->
  match MC.insert cs (Z.of_nat c) (Z.of_nat i) (MC.enc pred), Moves.insert s c i pred with
  | Some cs', Some s' => WF cs' /\ exists s'', MC.abs cs' = Some s'' /\ deq s'' s'
  | None, None => True
  | _, _ => False
  end.
Proof. exact insert_commutes. Qed.

Theorem c02c_swap_commutes : forall cs s c1 c2, WF cs -> MC.abs cs = Some s ->
  match MC.swap cs (Z.of_nat c1) (Z.of_nat c2), Moves.swap s c1 c2 with
  | Some cs', Some s' => WF cs' /\ exists s'', MC.abs cs' = Some s'' /\ deq s'' s'
  | None, None => True
  | _, _ => False
  end.
Proof. exact swap_commutes. Qed.

(* [F] the abstract operations respect deq (so the simulations compose) *)
Theorem c02c_abstract_ops_respect_deq : forall s1 s2 o, deq s1 s2 ->
  match apply_mop s1 o, apply_mop s2 o with
  | Some a, Some b => deq a b | None, None => True | _, _ => False end.
Proof. exact apply_mop_compat. Qed.

(* [F] 2d. concrete_refines_abstract: every history of concrete operations (run_cops: an operation is
   performed when the caller obligation holds and the C++ does not throw) is simulated by the same
   history of abstract operations *)
Theorem c02c_concrete_refines_abstract : forall ops cs s, WF cs -> MC.abs cs = Some s ->
  WF (MC.run_cops cs ops) /\ exists s', MC.abs (MC.run_cops cs ops) = Some s' /\ deq s' (run_mops s ops).
Proof. exact concrete_refines_abstract. Qed.

(* [F] 2e. legality of the rows rebuilt from the pointers is preserved by every history of
   concrete operations (corollary of c02_moves_keep_rows_legal) *)
Theorem c02c_concrete_histories_legal : forall ops cs s, WF cs -> MC.abs cs = Some s -> Inv s ->
  WF (MC.run_cops cs ops) /\
  exists s', MC.abs (MC.run_cops cs ops) = Some s' /\ Inv s' /\ deq s' (run_mops s ops).
Proof. exact run_cops_legal. Qed.

(* [F] 3. the guards computed on the arrays are the abstract ones *)
Theorem c02c_site_begin_end : forall cs s i r pred a b, WF cs -> MC.abs cs = Some s ->
  nth_error (d_rows s) i = Some r -> split_site pred (dr_cells r) = Some (a, b) ->
  MC.siteBegin cs (Z.of_nat i) (MC.enc pred) = Some (site_begin (dr_min r) a) /\
  MC.siteEnd cs (Z.of_nat i) (MC.enc pred) = Some (site_end (dr_max r) b).
Proof. exact site_abs. Qed.

Theorem c02c_canPlace : forall cs s c m loose' i r pred a b x, WF cs -> MC.abs cs = Some s ->
  take_loose c (d_loose s) = Some (m, loose') ->
  nth_error (d_rows s) i = Some r -> split_site pred (dr_cells r) = Some (a, b) ->
  MC.canPlace cs (Z.of_nat c) (Z.of_nat i) (MC.enc pred) x =
  Some ((site_begin (dr_min r) a <=? x) && (x + p_w m <=? site_end (dr_max r) b)).
Proof. exact canPlace_abs_site. Qed.

Theorem c02c_boundaries : forall cs s c i r a m b, WF cs -> MC.abs cs = Some s ->
  find_row (d_rows s) c 0 = Some (i, r, a, m, b) ->
  MC.boundaryBefore cs (Z.of_nat c) = Some (fst (bounds_of r a b)) /\
  MC.boundaryAfter cs (Z.of_nat c) = Some (snd (bounds_of r a b)).
Proof. exact boundaries_abs. Qed.

Theorem c02c_canInsert : forall cs s c i pred, WF cs -> MC.abs cs = Some s ->
  MC.predOk cs (Z.of_nat i) (MC.enc pred) = true ->
  MC.canInsert cs (Z.of_nat c) (Z.of_nat i) (MC.enc pred) = can_insert s c i pred.
Proof. exact canInsert_abs. Qed.

Theorem c02c_canSwap : forall cs s c1 c2, WF cs -> MC.abs cs = Some s ->
  MC.canSwap cs (Z.of_nat c1) (Z.of_nat c2) = can_swap s c1 c2.
Proof. exact canSwap_abs. Qed.

(* non-vacuity: the arrays of ex_state (2 rows, 3 cells); unplace(0) then place(0, row 1, pred 2, x 4)
   computed on the arrays; abs before / after each step is the abstract state / the abstract result;
   a swap + insert history through run_cops *)
Definition ex_cstate : MC.cstate := {|
  MC.c_rows := [ {| MC.cr_min := 0; MC.cr_max := 10; MC.cr_y := 0; MC.cr_o := oN |};
                 {| MC.cr_min := 0; MC.cr_max := 8; MC.cr_y := 1; MC.cr_o := oFS |} ];
  MC.c_first := [0; 2]; MC.c_last := [1; 2];
  MC.c_width := [3; 2; 3]; MC.c_pred := [-1; 0; -1]; MC.c_next := [1; -1; -1]; MC.c_row := [0; 0; 1];
  MC.c_x := [0; 4; 1]; MC.c_y := [0; 0; 1]; MC.c_orient := [oN; oN; oFS]; MC.c_pol := [pANY; pSAME; pSAME] |}.

Example c02c_nonvacuous :
  WF ex_cstate /\ MC.abs ex_cstate = Some ex_state /\
  (exists cs1 cs2,
     MC.unplace ex_cstate 0 = Some cs1 /\ MC.place cs1 0 1 2 4 = Some cs2 /\
     MC.c_pred cs1 = [-1; -1; -1] /\ MC.c_next cs1 = [-1; -1; -1] /\ MC.c_row cs1 = [-1; 0; 1] /\
     MC.c_first cs1 = [1; 2] /\ MC.c_last cs1 = [1; 2] /\
     MC.c_pred cs2 = [2; -1; -1] /\ MC.c_next cs2 = [-1; -1; 0] /\ MC.c_row cs2 = [1; 0; 1] /\
     MC.c_first cs2 = [1; 2] /\ MC.c_last cs2 = [1; 0] /\
     MC.abs cs1 = Moves.unplace ex_state 0 /\ MC.abs cs1 <> None /\
     MC.abs cs2 = (match Moves.unplace ex_state 0 with Some s1 => Moves.place s1 0 1 (Some 2%nat) 4 | None => None end) /\
     MC.abs cs2 <> None) /\
  MC.abs (MC.run_cops ex_cstate [MSwap 1 2; MInsert 0 1 (Some 2%nat)]) =
    Some (run_mops ex_state [MSwap 1 2; MInsert 0 1 (Some 2%nat)]) /\
  MC.run_cops ex_cstate [MSwap 1 2; MInsert 0 1 (Some 2%nat)] <> ex_cstate.
Proof.
  split; [|split; [vm_compute; reflexivity|split]].
  - split; [unfold Sizes; repeat split; reflexivity|]. exists [[0%nat; 1%nat]; [2%nat]]. split; [reflexivity|]. split.
    + intros [|[|[|i]]] l H; cbn in H; try discriminate; injection H as <-; unfold row_rep; cbn; repeat split; repeat constructor.
    + intros [|[|[|c]]] r H; cbn in H.
      * injection H as <-. right. exists 0%nat, [0%nat; 1%nat]. cbn. tauto.
      * injection H as <-. right. exists 0%nat, [0%nat; 1%nat]. cbn. tauto.
      * injection H as <-. right. exists 1%nat, [2%nat]. cbn. tauto.
      * destruct c; discriminate.
  - eexists. eexists. split; [vm_compute; reflexivity|]. split; [vm_compute; reflexivity|].
    vm_compute. repeat split; try reflexivity; discriminate.
  - split; [vm_compute; reflexivity|vm_compute; discriminate].
Qed.

Print Assumptions c02c_wf_has_abstraction.
Print Assumptions c02c_wf_pointwise.
Print Assumptions c02c_unplace_commutes.
Print Assumptions c02c_place_commutes.
Print Assumptions c02c_place_refused_without_predOk.
Print Assumptions c02c_insert_commutes.
Print Assumptions c02c_swap_commutes.
Print Assumptions c02c_abstract_ops_respect_deq.
Print Assumptions c02c_concrete_refines_abstract.
Print Assumptions c02c_concrete_histories_legal.
Print Assumptions c02c_site_begin_end.
Print Assumptions c02c_canPlace.
Print Assumptions c02c_boundaries.
Print Assumptions c02c_canInsert.
Print Assumptions c02c_canSwap.

(* ====================================================================================== *)
(* "It never fails on a circuit that legalization alone accepts": the construction of the row
   structure, DetailedPlacement::fromIspdCircuit + the DetailedPlacement constructor + check(),
   modelled line by line in DetailedInit.v with every C++ exception as an error
   (from_circuit : circuit -> result dstate follows the CURRENT code, i.e. with the repair da3fc07 of
   finding F20; from_circuit_orig is the code before it); proofs in DetailedInitProofs.v; tied to the
   C++ by ./check C02 (tag FC: structure or exception of the real fromIspdCircuit against the model).
     std_design c rh   the C01 domain (LegalizerSoundProofs): rows of one positive height rh, pairwise
                       disjoint, not turned; movable cells of positive placed width, placed height a
                       positive multiple of rh, not turned unless without polarity;
     kept rh k         k is movable and exactly one row high (the cells detailed placement optimises);
     orient_pre c rh   every kept cell has the orientation the table gives for the row under its
                       bottom-left corner when the table gives one (what check() insists on; it
                       follows from Circuit.orient_ok, the conclusion of C04 for legalization);
     cell_image i k    the cell of the structure standing for circuit cell i: id i, x, placed width,
                       polarity, orientation;
     dp_rows c rh      computeRows(obstacles): the rows minus the fixed obstructions and minus the
                       movable cells that are not one row high. *)
Require Import CV.FreeSpace CV.Circuit CV.Legalizer CV.LegalizerSoundProofs.
Require Import CV.DetailedInit CV.DetailedInitProofs CV.MovesOrientProofs.

(* [F on the stated domain] for every circuit of the C01 domain that is legal and carries the
   orientations check() insists on, fromIspdCircuit throws nothing, the structure satisfies the row
   invariant (the base case of c02_moves_keep_rows_legal), its rows are the free segments sorted by
   (y, x), and its cells are exactly the movable row-high cells, each at its x in a row at its y.
   Multi-row cells and fixed cells are not in the structure (they cannot be moved by it: "stay
   exactly where legalization put them").  Circuits WITHOUT ROWS are included since /repo commit
   da3fc07 (repair of finding F20: rowHeight = nbRows() > 0 ? rowHeight() : 0): a legal circuit
   without rows has no movable cell and the structure is empty *)
Theorem c02_from_circuit_accepts_legal : forall c rh,
  std_design c rh -> legal c -> orient_pre c rh ->
  exists s, from_circuit c = DOk s /\ Inv s /\ d_loose s = [] /\
    map row_geom (d_rows s) = map seg_geom (sort_rows (dp_rows c rh)) /\
    (forall i k, nth_error (cells c) i = Some k -> kept rh k ->
       exists dr, In dr (d_rows s) /\ dr_y dr = c_y k /\ In (cell_image i k) (dr_cells dr)) /\
    (forall dr p, In dr (d_rows s) -> In p (dr_cells dr) ->
       exists k, nth_error (cells c) (p_id p) = Some k /\ kept rh k /\ p = cell_image (p_id p) k /\ dr_y dr = c_y k).
Proof. exact from_circuit_accepts_legal. Qed.

(* [F on the stated domain] the form used by Circuit::placeDetailed, which legalizes first: with the
   orientations legalization leaves (orient_ok before c: c04_legalize_circuit_orient_ok) nothing is
   thrown and the structure satisfies both the row invariant and the orientation invariant (the base
   case of c04_moves_keep_orientation) *)
Theorem c02_from_circuit_after_legalization : forall before c rh,
  std_design c rh -> legal c -> orient_ok before c ->
  exists s, from_circuit c = DOk s /\ Inv s /\ OInvM s.
Proof. exact from_circuit_after_legalization. Qed.

(* [R about the code BEFORE /repo commit da3fc07; finding F20, repaired] the original
   fromIspdCircuit (from_circuit_orig: `int rowHeight = circuit.rowHeight();` unconditionally) threw
   "Cannot compute row height as no row has been defined" on a circuit without rows and without
   movable cells, which is legal and which legalization accepts (it has nothing to place).
   Reproduced on the C++ before the repair (Circuit c(1), one fixed cell, no rows: legalize()
   returns, placeDetailed() throws; same for Circuit c(0)).  The current code (from_circuit) builds
   the empty structure: last conjunct, and c02_from_circuit_accepts_legal has no hypothesis on rows *)
Theorem c02_from_circuit_norows_orig_refuted :
  std_design w_norows 2 /\ legal w_norows /\ orient_pre w_norows 2 /\
  legalize_circuit w_norows [] = LegOk w_norows /\
  from_circuit_orig w_norows = DErr ENoRows /\
  from_circuit w_norows = DOk {| d_rows := []; d_loose := [] |}.
Proof. exact from_circuit_norows_orig_refuted. Qed.

(* [R] `orient_pre` cannot be dropped (legality does not mention orientations): check() throws on a
   legal circuit whose SAME cell is oriented FS on an N row.  Not reachable through placeDetailed
   (c02_from_circuit_after_legalization) *)
Theorem c02_from_circuit_orientation_refuted :
  std_design w_badorient 2 /\ rows w_badorient <> [] /\ legal w_badorient /\
  from_circuit w_badorient = DErr ECheckOrientation.
Proof. exact from_circuit_orientation_refuted. Qed.

(* [R] pairwise disjoint rows (part of the domain) cannot be dropped: the constructor's search
   (std::upper_bound on the rows sorted by (y, x), then ONE candidate row) takes the last row that
   starts at or before the cell; with overlapping rows that may be a row too short for the cell *)
Theorem c02_from_circuit_overlapping_rows_refuted :
  legal w_overlaprows /\ orient_pre w_overlaprows 2 /\ ~ pairwise_disjoint (map rr (rows w_overlaprows)) /\
  from_circuit w_overlaprows = DErr (ERowEndsBefore 0).
Proof. exact from_circuit_overlapping_rows_refuted. Qed.

(* non-vacuity: the circuit ex_dinit of DetailedInitProofs.v (two rows N / FS, a fixed obstruction, a
   fixed non-obstruction under a movable cell, a two-row movable cell that splits both rows, cells
   exactly on segment ends, a turned cell) satisfies every hypothesis; the structure is computed *)
Example c02_from_circuit_nonvacuous :
  std_design ex_dinit 2 /\ rows ex_dinit <> [] /\ legal ex_dinit /\ orient_pre ex_dinit 2 /\
  exists s, from_circuit ex_dinit = DOk s /\
    map (fun dr => (dr_min dr, dr_max dr, dr_y dr, map (fun p => (p_id p, p_x p, p_w p)) (dr_cells dr))) (d_rows s) =
    [ (0, 8, 0, [(1%nat, 0, 3); (2%nat, 5, 3)]); (10, 16, 0, [(3%nat, 10, 6)]); (18, 20, 0, []);
      (0, 16, 2, [(7%nat, 0, 3); (5%nat, 12, 3)]); (18, 20, 2, [(8%nat, 18, 2)]) ].
Proof. exact from_circuit_nonvacuous. Qed.

Print Assumptions c02_from_circuit_accepts_legal.
Print Assumptions c02_from_circuit_after_legalization.
Print Assumptions c02_from_circuit_norows_orig_refuted.
Print Assumptions c02_from_circuit_orientation_refuted.
Print Assumptions c02_from_circuit_overlapping_rows_refuted.

(* ======================================================================================== *)
(* C02 / C04 -- the composition: the CIRCUIT that detailed placement exposes (not only the row structure)
   is legal, leaves the cells it does not optimise exactly where they were, and carries the prescribed
   orientations.

   Models: DetailedInit.from_circuit (DetailedPlacement::fromIspdCircuit + constructor + check()),
   Moves.v (the row structure and its operations; histories dop / run_dops of MovesOrientProofs.v: the
   four operations swap / insert / unplace / place, performed when their guard holds and refused
   otherwise, and shift passes DShift xs), DetailedExport.write_back (DetailedPlacement::exportPlacement,
   what DetailedPlacer::callback does before every Detailed-step callback and what the caller receives on
   return).  Proofs: DetailedExportProofs.v.

     std_design c rh    the C01 domain (rows of one positive height rh, pairwise disjoint, not turned;
                        movable cells of positive placed width, placed height a positive multiple of rh,
                        not turned unless without polarity);
     from_circuit c = DOk s   the constructor and check() accepted the circuit (they do whenever the
                        circuit is legal and carries the orientations legalization leaves:
                        c02_from_circuit_accepts_legal / c02_from_circuit_after_legalization); the C02
                        theorems below need NO hypothesis on the orientations beyond this;
     dshifts_ok s ops   every shift pass DShift xs of the history satisfies, in the state it is applied
                        to, the guard Moves.shift_ok (the positional constraints handed to the network
                        simplex; they follow from dual feasibility: c02_shift_dual_feasible_legal);
     closed_dop         the optimiser's own moves: swap, insert, shift with ARBITRARY arguments (no raw
                        unplace / place);
     d_loose s' = []    no cell is between an unplace and its place (the C++ only exports between
                        complete passes; c02_write_back_unplaced_refuted shows it cannot be dropped). *)
From Coq Require Import List ZArith Lia Bool.
Import ListNotations.
Require Import CV.Orient CV.FreeSpace CV.Circuit CV.OrientProofs CV.Moves CV.MovesProofs CV.MovesOrientProofs.
Require Import CV.Legalizer CV.LegalizerProofs CV.LegalizerSoundProofs.
Require Import CV.DetailedInit CV.DetailedInitProofs CV.DetailedExport CV.DetailedExportProofs.


(* [F on the stated domain] C02, main clause.  For every legal circuit of the C01 domain, the structure
   s that fromIspdCircuit builds from it, and EVERY history of moves and shift passes (shift passes
   satisfying their constraints) after which no cell is unplaced: the circuit obtained by
   exportPlacement satisfies `legal`, the legality specification of C01 -- bottom edges on row
   boundaries, every row-high strip inside one free segment of the C15 model, movable cells pairwise
   disjoint (kept cells against each other AND against the movable cells the structure does not hold) *)
Theorem c02_write_back_legal : forall c rh s ops,
  std_design c rh -> legal c -> from_circuit c = DOk s ->
  dshifts_ok s ops -> d_loose (run_dops s ops) = [] ->
  legal (write_back c (run_dops s ops)).
Proof. exact write_back_legal. Qed.

(* [F on the stated domain] the same for histories made of the optimiser's own moves (swap, insert,
   shift) with arbitrary arguments: they never leave a cell unplaced *)
Theorem c02_write_back_legal_optimiser_moves : forall c rh s ops,
  std_design c rh -> legal c -> from_circuit c = DOk s ->
  forallb closed_dop ops = true -> dshifts_ok s ops ->
  legal (write_back c (run_dops s ops)).
Proof. exact write_back_legal_closed. Qed.

(* [F on the stated domain] C02, "cells it does not optimise stay exactly where legalization put them":
   for EVERY history (no hypothesis on the shifts or on unplaced cells) the rows are the same, every
   cell keeps its size, polarity and flags, and every cell that is fixed or not exactly one row high
   (multi-row cells, movable macros) is IDENTICAL -- position and orientation included -- in the
   exposed circuit *)
Theorem c02_write_back_frame : forall c rh s ops,
  std_design c rh -> legal c -> from_circuit c = DOk s ->
  rows (write_back c (run_dops s ops)) = rows c /\
  Forall2 same_frame (cells c) (cells (write_back c (run_dops s ops))) /\
  (forall i k, nth_error (cells c) i = Some k -> (c_fixed k = true \/ placed_h k <> rh) ->
               nth_error (cells (write_back c (run_dops s ops))) i = Some k).
Proof. exact write_back_frame. Qed.

(* [F on the stated domain] "at each callback": the C++ exports into the same circuit again and again;
   exporting the current state into a circuit that already received an earlier state of the run gives
   exactly write_back of the ORIGINAL circuit (so the theorems above speak about every callback) *)
Theorem c02_write_back_twice : forall c rh s ops1 ops2,
  std_design c rh -> legal c -> from_circuit c = DOk s -> d_loose (run_dops s ops2) = [] ->
  write_back (write_back c (run_dops s ops1)) (run_dops s ops2) = write_back c (run_dops s ops2).
Proof. exact write_back_twice. Qed.

(* [R, about states the C++ never exposes] with a cell unplaced the structure does not describe a
   placement: unplace(1) then insert(5, row 0) puts cell 5 where the (stale) position of cell 1 is *)
Theorem c02_write_back_unplaced_refuted :
  exists s, from_circuit ex_dinit = DOk s /\
    d_loose (run_dops s [DMop (MUnplace 1); DMop (MInsert 5 0 None)]) <> [] /\
    legalb (write_back ex_dinit (run_dops s [DMop (MUnplace 1); DMop (MInsert 5 0 None)])) = false.
Proof. exact write_back_unplaced_refuted. Qed.


(* [F on the stated domain] C02 + C04 in one statement, in the form of the property: after legalization
   (legal c, orient_ok before c) fromIspdCircuit + constructor + check() do not fail (the CONSTRUCTOR part of
   "never fails on a circuit that legalization accepts"; the throws of the passes themselves -- runShiftsOnCells,
   DetailedPlacer::check, RowReordering::check, IncrNetModel constructors -- are not modelled and are validated
   absent per run), and for every HISTORY of swaps, inserts and shift passes
   (arbitrary arguments; shift passes satisfying their constraints; a refused operation is a no-op) the circuit it exposes is legal,
   has the cells it does not optimise exactly where legalization put them, and -- when the rows have a
   known orientation -- carries the prescribed orientations.  This is a statement about every history, not about
   DetailedPlacer::run (not modelled).  `std_design c rh` is assumed of the LEGALIZED circuit (no lemma shows that
   legalize_circuit preserves std_design); `orient_ok before c` is supplied by C04 only under row_orient_by_y or for
   row-high designs.  Histories containing a reorder pass: separate theorem c02_closed_reordering_exposes_legal. *)
Theorem c02_detailed_placement_exposes_legal_circuits : forall before c rh,
  std_design c rh -> legal c -> orient_ok before c ->
  exists s, from_circuit c = DOk s /\
    forall ops, forallb closed_dop ops = true -> dshifts_ok s ops ->
      legal (write_back c (run_dops s ops)) /\
      (forall i k, nth_error (cells c) i = Some k -> (c_fixed k = true \/ placed_h k <> rh) ->
                   nth_error (cells (write_back c (run_dops s ops))) i = Some k) /\
      ((forall r, In r (rows c) -> ro r <> oUNKNOWN) -> orient_ok before (write_back c (run_dops s ops))).
Proof. exact detailed_exposes_legal. Qed.

(* non-vacuity: ex_dinit (two rows N / FS; a fixed obstruction; a fixed non-obstruction; cell 4 two rows
   high; cell 7 turned; row-high cells 1 2 3 5 8 with polarities SAME NW ANY OPPOSITE SAME).  History:
   swap(1,5) across the rows (both change orientation), insert(3, row 3) refused (no room), a shift of
   cell 2, insert(8, row 2) from the FS row to the N row, insert(2, row 3) refused (NW on an FS row).
   Every hypothesis holds; the exposed circuit is computed: cells 1, 5, 8 changed row, 2 moved, the
   fixed cells 0 and 6, the two-row cell 4 and the refused cell 3 are where they were *)
Definition ex_compose_ops : list dop :=
  [DMop (MSwap 1 5); DMop (MInsert 3 3 (Some 7%nat)); DShift [(2%nat, 4)]; DMop (MInsert 8 2 None);
   DMop (MInsert 2 3 None)].

Example c02_compose_nonvacuous :
  std_design ex_dinit 2 /\ legal ex_dinit /\ orient_ok ex_dinit ex_dinit /\
  (forall r, In r (rows ex_dinit) -> ro r <> oUNKNOWN) /\
  exists s, from_circuit ex_dinit = DOk s /\ forallb closed_dop ex_compose_ops = true /\ dshifts_ok s ex_compose_ops /\
    map (fun k => (c_x k, c_y k, c_o k)) (cells ex_dinit) =
      [(8, 0, oN); (0, 0, oN); (5, 0, oN); (10, 0, oN); (16, 0, oN); (12, 2, oN); (1, 0, oN); (0, 2, oE); (18, 2, oFS)] /\
    map (fun k => (c_x k, c_y k, c_o k)) (cells (write_back ex_dinit (run_dops s ex_compose_ops))) =
      [(8, 0, oN); (8, 2, oFS); (4, 0, oN); (10, 0, oN); (16, 0, oN); (1, 0, oFS); (1, 0, oN); (0, 2, oE); (18, 0, oN)] /\
    legalb (write_back ex_dinit (run_dops s ex_compose_ops)) = true /\
    orient_okb ex_dinit (write_back ex_dinit (run_dops s ex_compose_ops)) = true.
Proof.
  split; [exact ex_dinit_std|]. split; [apply CircuitProofs.legalb_correct; vm_compute; reflexivity|].
  split; [apply orient_okb_correct; vm_compute; reflexivity|].
  split; [intros r [<-|[<-|[]]]; discriminate|].
  eexists. split; [vm_compute; reflexivity|]. split; [reflexivity|]. split; [vm_compute; repeat split; reflexivity|].
  vm_compute. repeat split; reflexivity.
Qed.

Print Assumptions c02_write_back_legal.
Print Assumptions c02_detailed_placement_exposes_legal_circuits.
Print Assumptions c02_write_back_legal_optimiser_moves.
Print Assumptions c02_write_back_frame.
Print Assumptions c02_write_back_twice.
Print Assumptions c02_write_back_unplaced_refuted.

(* ======================================================================================== *)
(* C02 (and the C04 clause of detailed placement) for the CLOSED reordering pass: RowReordering with its enumeration
   (coq/Reorder.v: regions of the window, region choice with the width test and the polarity test, every arrangement
   `while (std::next_permutation(...))` visits, positions packed from minPos, writeback() = unplace every registered cell,
   place() region by region along the predecessor chain).  Proofs: ReorderGeomProofs.v (row lists: unplacing = filtering,
   slots, filling the regions), ReorderEnumProofs.v (what a leaf is), ReorderSearchProofs.v (the threaded search evaluates
   exactly these leaves), ReorderProofs.v.  Tie: ./check C05 / C02 (checks/c05_reorder.py). *)
Require Import CV.Hpwl CV.Optimiser CV.ShiftLp CV.DetailedValue CV.DetailedValueProofs CV.DetailedValueStepProofs.
Require Import CV.Reorder CV.ReorderGeomProofs CV.ReorderEnumProofs CV.ReorderProofs.
From Coq Require Import Permutation.

(* [F] the row structure alone: for every legal row structure with unique cell indices and no unplaced cell, every window
   of distinct cells, and ANY arrangement gps of the registered cells over the regions of the window (each cell once,
   every non-empty arrangement within the width of its region): unplacing the registered cells and placing the
   arrangement, packed from minPos along the predecessor chain, is accepted by every place() -- canPlace holds, nothing
   throws -- and leaves no cell unplaced *)
Theorem c02_reordering_write_back_accepted : forall d cs rgs gps,
  Inv d -> NoDup (map p_id (cells_of d)) -> d_loose d = [] -> NoDup cs ->
  regions_of d cs cs = Some rgs ->
  map fst gps = map fst rgs ->
  Permutation (concat (map snd gps)) (map p_id (registered rgs)) ->
  Forall (fun gp => snd gp = [] \/ alloc_width (width_of d) (snd gp) <= rg_width (fst gp)) gps ->
  exists d', wb d (rev (sort_asc (map p_id (registered rgs)))) (leaf_of (chosen_of (width_of d) gps)) = Some d' /\ d_loose d' = [].
Proof. exact wb_accepts. Qed.

(* [F] C02 for the closed pass, every state of the coupling invariant and every window of distinct cells of the rows:
   the pass returns (writeback() never throws), the rows stay legal, no cell is unplaced, the structure still stands for
   the circuit, and the circuit it exposes is legal *)
Theorem c02_closed_reordering_exposes_legal : forall c rh nets s cs,
  std_design c rh -> legal c -> PInv c rh nets s -> NoDup cs -> (forall x, In x cs -> held (ps_d s) x = true) ->
  exists s' n, run s cs = Some (s', n) /\ Inv (ps_d s') /\ d_loose (ps_d s') = [] /\ Rel c rh (ps_d s') /\
               legal (write_back c (ps_d s')).
Proof. exact run_exposes_legal. Qed.

(* [F] C04 clause: the closed pass keeps the orientation invariant OInvM (every polarised cell has the orientation its
   row prescribes, no cell on a forbidden row) -- the raw place() calls of writeback() satisfy the hypothesis
   `hist_allowed` of c04_moves_keep_orientation because runRegionChoice tests the polarity (commit cffa2e7, finding F7) *)
Theorem c02_closed_reordering_keeps_orientation : forall c rh nets s cs,
  PInv c rh nets s -> OInvM (ps_d s) -> NoDup cs -> (forall x, In x cs -> held (ps_d s) x = true) ->
  exists s' n, run s cs = Some (s', n) /\ OInvM (ps_d s').
Proof. exact run_keeps_orientation. Qed.

(* non-vacuity: rows [0,10]x[0,2] (N) and [0,10]x[2,4] (FS); cells 0 (0,0) and 1 (3,0) in the lower row, 2 (1,2) and 3 (6,2,
   width 3) in the upper row; pins 4 at (9,3) and 5 at (0,0); nets {0, 4}, {3, 5}.  The window [2; 0; 3; 1] gives two regions
   (the upper row first: cell 2 comes first in the window), the search evaluates 6 leaves (the 2+2 splits, one arrangement
   each), the best one moves cells 0, 1 to the upper row and 3, 2 to the lower row: value 20 -> 8; the exposed circuit is
   legal *)
Definition ex2r : circuit :=
  {| rows := [mkrow 0 10 0 2 oN; mkrow 0 10 2 4 oFS];
     cells := [mkcell 0 0 2 2 oN pANY false true; mkcell 3 0 2 2 oN pANY false true; mkcell 1 2 2 2 oN pANY false true;
               mkcell 6 2 3 2 oN pANY false true; mkcell 9 3 0 0 oN pANY true false; mkcell 0 0 0 0 oN pANY true false] |}.
Definition ex2r_nets : list (list hpin) :=
  [[{| pc := 0%nat; pxo := 0; pyo := 0 |}; {| pc := 4%nat; pxo := 0; pyo := 0 |}];
   [{| pc := 3%nat; pxo := 0; pyo := 0 |}; {| pc := 5%nat; pxo := 0; pyo := 0 |}]].
Definition ex2r_window : list nat := [2%nat; 0%nat; 3%nat; 1%nat].

Example ex2r_std : std_design ex2r 2.
Proof.
  split; [lia|]. split; [intros r [<-|[<-|[]]]; reflexivity|].
  split; [apply CircuitProofs.pairwise_disjointb_spec; vm_compute; reflexivity|].
  split; [intros r [<-|[<-|[]]]; reflexivity|].
  intros k Hk. vm_compute in Hk.
  repeat (destruct Hk as [<-|Hk];
          [split; [vm_compute; reflexivity|]; split; [exists 1%nat; split; [lia|vm_compute; reflexivity]|left; reflexivity]|]).
  destruct Hk.
Qed.

Example c02_closed_reordering_nonvacuous :
  std_design ex2r 2 /\ legal ex2r /\
  exists d0, from_circuit ex2r = DOk d0 /\
    let s0 := {| ps_d := d0; ps_o := init_models ex2r ex2r_nets |} in
    PInv ex2r 2 ex2r_nets s0 /\ OInvM d0 /\ NoDup ex2r_window /\ (forall x, In x ex2r_window -> held d0 x = true) /\
    option_map (map (fun e => rg_row (fst e))) (regions_of d0 ex2r_window ex2r_window) = Some [1%nat; 0%nat] /\
    exists s', run s0 ex2r_window = Some (s', 6%nat) /\ ovalue (ps_o s0) = 20 /\ ovalue (ps_o s') = 8 /\
      map (fun r => map (fun c => (p_id c, p_x c)) (dr_cells r)) (d_rows (ps_d s')) = [[(3%nat, 0); (2%nat, 3)]; [(1%nat, 0); (0%nat, 2)]] /\
      map (fun k => (c_x k, c_y k)) (cells (write_back ex2r (ps_d s'))) = [(2, 2); (0, 2); (3, 0); (0, 0); (9, 3); (0, 0)] /\
      legalb (write_back ex2r (ps_d s')) = true.
Proof.
  split; [exact ex2r_std|]. assert (HL : legal ex2r) by (apply CircuitProofs.legalb_correct; vm_compute; reflexivity). split; [exact HL|].
  eexists. split; [vm_compute; reflexivity|]. cbn zeta.
  split; [apply init_PInv; [exact ex2r_std|exact HL|vm_compute; reflexivity]|].
  split; [apply oinvb_spec; vm_compute; reflexivity|].
  split; [repeat constructor; cbn; intuition discriminate|].
  split; [intros x [<-|[<-|[<-|[<-|[]]]]]; vm_compute; reflexivity|].
  split; [vm_compute; reflexivity|].
  eexists. split; [vm_compute; reflexivity|]. vm_compute. repeat split; reflexivity.
Qed.

Print Assumptions c02_reordering_write_back_accepted.
Print Assumptions c02_closed_reordering_exposes_legal.
Print Assumptions c02_closed_reordering_keeps_orientation.
