(* C10 / C03 -- the Circuit object as seen through its public fields (src/coloquinte.hpp,
   "class Circuit": the fourteen vectors + isInUse_ + hasCellSizeUpdate_ + hasNetUpdate_),
   its setters (src/coloquinte.cpp), the three export functions
     GlobalPlacer::exportPlacement(Circuit&, xplace, yplace)      place_global/place_global.cpp
     Legalizer::exportPlacement(Circuit&)                          place_detailed/legalizer.cpp
     DetailedPlacement::exportPlacement(Circuit&)                  place_detailed/detailed_placement.cpp
   and the control flow of the three placement entry points
     Circuit::placeGlobal / legalize / placeDetailed               coloquinte.cpp (with the scope guard of the F9 repair)
     GlobalPlacer::place / callback                                place_global.cpp
     DetailedPlacer::legalize / place / callback                   place_detailed/place_detailed.cpp
   What the algorithms compute (the vectors they export, whether legalization succeeds, whether a
   constructor throws) is an ORACLE: every theorem holds for all oracles.  No proofs in this file. *)
From Coq Require Import List ZArith Bool.
Import ListNotations.
Require Import CV.Orient CV.FreeSpace.
Local Open Scope Z_scope.

(* ------------------------------------------------------------------ the object *)
(* weights are floats in the code; the model keeps them as opaque integers (the tie uses k/2, stored as k) *)
Record acirc := mkC {
  netLimits : list Z; netWeights : list Z; pinCells : list Z; pinXOffs : list Z; pinYOffs : list Z;
  cellW : list Z; cellH : list Z; cellFixed : list bool; cellObs : list bool; cellPol : list polarity;
  cellX : list Z; cellY : list Z; cellO : list orient; crows : list row;
  inUse : bool; sizeUpd : bool; netUpd : bool }.

Definition set_nets (c : acirc) nl nw pc px py :=
  mkC nl nw pc px py (cellW c) (cellH c) (cellFixed c) (cellObs c) (cellPol c) (cellX c) (cellY c) (cellO c) (crows c)
      (inUse c) (sizeUpd c) (netUpd c).
Definition set_netWeights (c : acirc) nw :=
  mkC (netLimits c) nw (pinCells c) (pinXOffs c) (pinYOffs c) (cellW c) (cellH c) (cellFixed c) (cellObs c) (cellPol c)
      (cellX c) (cellY c) (cellO c) (crows c) (inUse c) (sizeUpd c) (netUpd c).
Definition set_cellW (c : acirc) v :=
  mkC (netLimits c) (netWeights c) (pinCells c) (pinXOffs c) (pinYOffs c) v (cellH c) (cellFixed c) (cellObs c) (cellPol c)
      (cellX c) (cellY c) (cellO c) (crows c) (inUse c) (sizeUpd c) (netUpd c).
Definition set_cellH (c : acirc) v :=
  mkC (netLimits c) (netWeights c) (pinCells c) (pinXOffs c) (pinYOffs c) (cellW c) v (cellFixed c) (cellObs c) (cellPol c)
      (cellX c) (cellY c) (cellO c) (crows c) (inUse c) (sizeUpd c) (netUpd c).
Definition set_cellFixed (c : acirc) v :=
  mkC (netLimits c) (netWeights c) (pinCells c) (pinXOffs c) (pinYOffs c) (cellW c) (cellH c) v (cellObs c) (cellPol c)
      (cellX c) (cellY c) (cellO c) (crows c) (inUse c) (sizeUpd c) (netUpd c).
Definition set_cellObs (c : acirc) v :=
  mkC (netLimits c) (netWeights c) (pinCells c) (pinXOffs c) (pinYOffs c) (cellW c) (cellH c) (cellFixed c) v (cellPol c)
      (cellX c) (cellY c) (cellO c) (crows c) (inUse c) (sizeUpd c) (netUpd c).
Definition set_cellPol (c : acirc) v :=
  mkC (netLimits c) (netWeights c) (pinCells c) (pinXOffs c) (pinYOffs c) (cellW c) (cellH c) (cellFixed c) (cellObs c) v
      (cellX c) (cellY c) (cellO c) (crows c) (inUse c) (sizeUpd c) (netUpd c).
Definition set_cellX (c : acirc) v :=
  mkC (netLimits c) (netWeights c) (pinCells c) (pinXOffs c) (pinYOffs c) (cellW c) (cellH c) (cellFixed c) (cellObs c) (cellPol c)
      v (cellY c) (cellO c) (crows c) (inUse c) (sizeUpd c) (netUpd c).
Definition set_cellY (c : acirc) v :=
  mkC (netLimits c) (netWeights c) (pinCells c) (pinXOffs c) (pinYOffs c) (cellW c) (cellH c) (cellFixed c) (cellObs c) (cellPol c)
      (cellX c) v (cellO c) (crows c) (inUse c) (sizeUpd c) (netUpd c).
Definition set_cellO (c : acirc) v :=
  mkC (netLimits c) (netWeights c) (pinCells c) (pinXOffs c) (pinYOffs c) (cellW c) (cellH c) (cellFixed c) (cellObs c) (cellPol c)
      (cellX c) (cellY c) v (crows c) (inUse c) (sizeUpd c) (netUpd c).
Definition set_rows (c : acirc) v :=
  mkC (netLimits c) (netWeights c) (pinCells c) (pinXOffs c) (pinYOffs c) (cellW c) (cellH c) (cellFixed c) (cellObs c) (cellPol c)
      (cellX c) (cellY c) (cellO c) v (inUse c) (sizeUpd c) (netUpd c).
Definition set_inUse (c : acirc) v :=
  mkC (netLimits c) (netWeights c) (pinCells c) (pinXOffs c) (pinYOffs c) (cellW c) (cellH c) (cellFixed c) (cellObs c) (cellPol c)
      (cellX c) (cellY c) (cellO c) (crows c) v (sizeUpd c) (netUpd c).
Definition set_sizeUpd (c : acirc) v :=
  mkC (netLimits c) (netWeights c) (pinCells c) (pinXOffs c) (pinYOffs c) (cellW c) (cellH c) (cellFixed c) (cellObs c) (cellPol c)
      (cellX c) (cellY c) (cellO c) (crows c) (inUse c) v (netUpd c).
Definition set_netUpd (c : acirc) v :=
  mkC (netLimits c) (netWeights c) (pinCells c) (pinXOffs c) (pinYOffs c) (cellW c) (cellH c) (cellFixed c) (cellObs c) (cellPol c)
      (cellX c) (cellY c) (cellO c) (crows c) (inUse c) (sizeUpd c) v.

(* int nbCells() const { return cellWidth_.size(); }   nbNets() = netLimits_.size() - 1   nbPins() = netLimits_.back() *)
Definition nb_cells (c : acirc) : nat := length (cellW c).
Definition nb_nets (c : acirc) : Z := Z.of_nat (length (netLimits c)) - 1.
Definition nb_pins (c : acirc) : Z := last (netLimits c) 0.

(* Circuit::Circuit(int nbCells) *)
Definition new_circuit (n : nat) : acirc :=
  mkC [0] [] [] [] [] (repeat 0 n) (repeat 0 n) (repeat false n) (repeat true n) (repeat pANY n)
      (repeat 0 n) (repeat 0 n) (repeat oN n) [] false false false.

(* ------------------------------------------------------------------ setters (coloquinte.cpp:38-190, 311-330) *)
Inductive exn :=
| EParams          (* ColoquinteParameters::check() threw *)
| ELegalizer       (* Legalizer::run threw: infeasible legalization *)
| EInternal        (* any other exception of the algorithm (constructor of a placer, ...) *)
| EExport          (* Legalizer::exportPlacement: "Circuit does not match legalizer for export" *)
| ECallback (k : nat)  (* the user's callback threw at its k-th invocation (0-based) *)
| EUpdating.       (* "Updating the size of circuit elements is not supported during ..." *)

Inductive res :=
| Accepted
| RefusedInUse     (* checkNotInUse(): "This operation is not allowed when the circuit is being placed" *)
| RejectedArgs     (* the setter's own argument test threw *)
| CallDone (e : option exn).   (* a placement call: returned / threw e *)

Inductive setter :=
| SAddNet (cells xo yo : list Z) (w : Z)
| SSetNets (limits cells xo yo weights : list Z)
| SSetRows (r : list row)
| SSetupRows (area : rect) (rh : Z) (alternating initial : bool)
| SSetCellIsFixed (f : list bool)
| SSetCellIsObstruction (f : list bool)
| SSetCellRowPolarity (p : list polarity)
| SSetCellX (v : list Z)
| SSetCellY (v : list Z)
| SSetCellOrientation (v : list orient)
| SSetCellWidth (v : list Z)
| SSetCellHeight (v : list Z)
| SSetNetWeights (v : list Z)
| SSetSolution (v : list (Z * Z * orient)).

(* the seven setters that call checkNotInUse() *)
Definition guarded (s : setter) : bool :=
  match s with
  | SAddNet _ _ _ _ | SSetNets _ _ _ _ _ | SSetRows _ | SSetupRows _ _ _ _
  | SSetCellIsFixed _ | SSetCellIsObstruction _ | SSetCellRowPolarity _ => true
  | _ => false
  end.

Definition len_is {A} (l : list A) (n : nat) : bool := Nat.eqb (length l) n.

(* for (int y = area.minY; y + rowHeight <= area.maxY; y += rowHeight) : coloquinte.cpp:318-329 *)
Fixpoint setup_rows_loop (fuel : nat) (area : rect) (y rh : Z) (alt orient : bool) : list row :=
  match fuel with
  | O => []
  | S f => if y + rh <=? maxY area then
             {| rr := {| minX := minX area; maxX := maxX area; minY := y; maxY := y + rh |};
                ro := if orient then oN else oFS |}
             :: setup_rows_loop f area (y + rh) rh alt (if alt then negb orient else orient)
           else []
  end.
Definition setup_rows (area : rect) (rh : Z) (alt init : bool) : list row :=
  setup_rows_loop (Z.to_nat ((maxY area - minY area) / rh)) area (minY area) rh alt init.

(* every pin names an existing cell: the loops "if (c < 0 || c >= nbCells()) throw" of addNet / setNets *)
Definition cells_in_range (n : nat) (cells : list Z) : bool :=
  forallb (fun x => (0 <=? x) && (x <? Z.of_nat n)) cells.
Fixpoint sortedb (l : list Z) : bool :=
  match l with
  | a :: r => match r with b :: _ => (a <=? b) && sortedb r | [] => true end
  | [] => true
  end.
(* the argument tests of setNets (each throws std::runtime_error): limits start with 0, are sorted, end at the number
   of pins of the three pin vectors, one weight per net or none, pins name existing cells *)
Definition set_nets_ok (n : nat) (limits cells xo yo weights : list Z) : bool :=
  match limits with
  | [] => false
  | l0 :: _ =>
    (l0 =? 0) && sortedb limits && (last limits 0 =? Z.of_nat (length cells)) && (last limits 0 =? Z.of_nat (length xo))
    && (last limits 0 =? Z.of_nat (length yo))
    && (Nat.eqb (length limits) (length weights + 1) || Nat.eqb (length weights) 0)
    && cells_in_range n cells
  end.

(* netWeights_.resize(n, 1.0f): 1.0f is 2 in the model's half units *)
Definition resize_weights (w : list Z) (n : nat) : list Z := firstn n w ++ repeat 2 (n - length w).

Definition apply_setter (c : acirc) (s : setter) : res * acirc :=
  match s with
  | SAddNet cells xo yo w =>                                   (* Circuit::addNet *)
    if negb (Nat.eqb (length cells) (length xo) && Nat.eqb (length cells) (length yo)) then (RejectedArgs, c)
    else if inUse c then (RefusedInUse, c)
    else if negb (cells_in_range (nb_cells c) cells) then (RejectedArgs, c)
    else match cells with
         | [] => (Accepted, c)
         | _ => (Accepted, set_nets c (netLimits c ++ [last (netLimits c) 0 + Z.of_nat (length cells)])
                                      (netWeights c ++ [w]) (pinCells c ++ cells) (pinXOffs c ++ xo) (pinYOffs c ++ yo))
         end
  | SSetNets limits cells xo yo weights =>                     (* Circuit::setNets: the flag first, then its argument tests *)
    if inUse c then (RefusedInUse, c)
    else if negb (set_nets_ok (nb_cells c) limits cells xo yo weights) then (RejectedArgs, c)
    else (Accepted, set_netUpd (set_nets c limits (resize_weights weights (length limits - 1)) cells xo yo) true)
  | SSetNetWeights w =>                                        (* coloquinte.cpp:77-85 *)
    if negb (Z.of_nat (length w) =? nb_nets c) then (RejectedArgs, c)
    else (Accepted, set_netUpd (set_netWeights c w) true)
  | SSetCellX v => if negb (len_is v (nb_cells c)) then (RejectedArgs, c) else (Accepted, set_cellX c v)
  | SSetCellY v => if negb (len_is v (nb_cells c)) then (RejectedArgs, c) else (Accepted, set_cellY c v)
  | SSetRows r => if inUse c then (RefusedInUse, c) else (Accepted, set_rows c r)       (* :105-108 *)
  | SSetCellIsFixed f =>                                       (* size test first, then checkNotInUse *)
    if negb (len_is f (nb_cells c)) then (RejectedArgs, c)
    else if inUse c then (RefusedInUse, c) else (Accepted, set_cellFixed c f)
  | SSetCellIsObstruction f =>
    if negb (len_is f (nb_cells c)) then (RejectedArgs, c)
    else if inUse c then (RefusedInUse, c) else (Accepted, set_cellObs c f)
  | SSetCellOrientation v => if negb (len_is v (nb_cells c)) then (RejectedArgs, c) else (Accepted, set_cellO c v)
  | SSetCellRowPolarity p =>
    if negb (len_is p (nb_cells c)) then (RejectedArgs, c)
    else if inUse c then (RefusedInUse, c) else (Accepted, set_cellPol c p)
  | SSetCellWidth v =>
    if negb (len_is v (nb_cells c)) then (RejectedArgs, c) else (Accepted, set_cellW (set_sizeUpd c true) v)
  | SSetCellHeight v =>
    if negb (len_is v (nb_cells c)) then (RejectedArgs, c) else (Accepted, set_cellH (set_sizeUpd c true) v)
  | SSetSolution v =>                                          (* coloquinte.cpp:170-184 *)
    if negb (len_is v (nb_cells c)) then (RejectedArgs, c)
    else (Accepted, set_cellO (set_cellY (set_cellX c (map (fun p => fst (fst p)) v)) (map (fun p => snd (fst p)) v))
                              (map snd v))
  | SSetupRows area rh alt init =>                             (* coloquinte.cpp:311-330 *)
    if rh <=? 0 then (RejectedArgs, c)
    else if inUse c then (RefusedInUse, c) else (Accepted, set_rows c (setup_rows area rh alt init))
  end.

(* the argument tests alone: what a caller must respect for the setter to be accepted on an idle circuit *)
Definition args_ok (c : acirc) (s : setter) : bool :=
  match s with
  | SAddNet cells xo yo _ =>
    Nat.eqb (length cells) (length xo) && Nat.eqb (length cells) (length yo) && cells_in_range (nb_cells c) cells
  | SSetNets limits cells xo yo weights => set_nets_ok (nb_cells c) limits cells xo yo weights
  | SSetNetWeights w => Z.of_nat (length w) =? nb_nets c
  | SSetRows _ => true
  | SSetupRows _ rh _ _ => 0 <? rh
  | SSetCellIsFixed f | SSetCellIsObstruction f => len_is f (nb_cells c)
  | SSetCellRowPolarity p => len_is p (nb_cells c)
  | SSetCellX v | SSetCellY v | SSetCellWidth v | SSetCellHeight v => len_is v (nb_cells c)
  | SSetCellOrientation v => len_is v (nb_cells c)
  | SSetSolution v => len_is v (nb_cells c)
  end.

(* ------------------------------------------------------------------ Circuit::check() (coloquinte.cpp:339-378) *)
Definition check_ok (c : acirc) : bool :=
  len_is (cellH c) (nb_cells c) && len_is (cellFixed c) (nb_cells c) && len_is (cellObs c) (nb_cells c)
  && len_is (cellX c) (nb_cells c) && len_is (cellY c) (nb_cells c) && len_is (cellO c) (nb_cells c)
  && negb (Nat.eqb (length (netLimits c)) 0) && (hd 1 (netLimits c) =? 0)
  && (Z.of_nat (length (netWeights c)) =? nb_nets c)
  && (Z.of_nat (length (pinCells c)) =? nb_pins c) && (Z.of_nat (length (pinXOffs c)) =? nb_pins c)
  && (Z.of_nat (length (pinYOffs c)) =? nb_pins c).
(* check() forgets cellRowPolarity_; the invariant that is proved includes it *)
Definition consistent (c : acirc) : bool := check_ok c && len_is (cellPol c) (nb_cells c).

(* ------------------------------------------------------------------ the three export functions *)
Fixpoint upd {A} (l : list A) (i : nat) (v : A) : list A :=
  match l, i with
  | [], _ => []
  | _ :: r, O => v :: r
  | a :: r, S j => a :: upd r j v
  end.

Definition is_fixed (c : acirc) (i : nat) : bool := nth i (cellFixed c) false.
(* Circuit::placedWidth / placedHeight: coloquinte.cpp:186-194 *)
Definition placed_w (c : acirc) (i : nat) : Z := if is_turn (nth i (cellO c) oN) then nth i (cellH c) 0 else nth i (cellW c) 0.
Definition placed_h (c : acirc) (i : nat) : Z := if is_turn (nth i (cellO c) oN) then nth i (cellW c) 0 else nth i (cellH c) 0.

(* std::round(v/2) for an integer v (halves away from zero) *)
Definition round_half (v : Z) : Z := Z.quot (v + Z.sgn v) 2.

(* GlobalPlacer::exportPlacement(circuit, xplace, yplace): place_global.cpp:101-114.  xplace/yplace are given in
   half units (x2 = 2*xplace, exactly representable), so that xplace - 0.5*placedWidth is (x2 - pw)/2 *)
Fixpoint export_glob_loop (idx : list nat) (x2 y2 : list Z) (c : acirc) : acirc :=
  match idx with
  | [] => c
  | i :: r =>
    if is_fixed c i then export_glob_loop r x2 y2 c
    else
      let c1 := set_cellX c (upd (cellX c) i (round_half (nth i x2 0 - placed_w c i))) in
      let c2 := set_cellY c1 (upd (cellY c1) i (round_half (nth i y2 0 - placed_h c1 i))) in
      export_glob_loop r x2 y2 c2
  end.
Definition export_glob (x2 y2 : list Z) (c : acirc) : acirc := export_glob_loop (seq 0 (nb_cells c)) x2 y2 c.

(* Legalizer::exportPlacement: legalizer.cpp:186-204.  The legalizer's vectors cellIsPlaced_/cellToX_/cellToY_/
   cellToOrientation_ as one list of records; j walks it in parallel with the movable cells; returns
   (circuit, true) when "Circuit does not match legalizer for export" is thrown (writes made so far stay) *)
Record legcell := { lc_placed : bool; lc_x : Z; lc_y : Z; lc_o : orient }.
Fixpoint export_leg_loop (idx : list nat) (l : list legcell) (c : acirc) : acirc * bool :=
  match idx with
  | [] => (c, false)
  | i :: r =>
    if is_fixed c i then export_leg_loop r l c
    else match l with
         | [] => (c, true)
         | k :: l' =>
           export_leg_loop r l'
             (if lc_placed k then set_cellO (set_cellY (set_cellX c (upd (cellX c) i (lc_x k))) (upd (cellY c) i (lc_y k)))
                                            (upd (cellO c) i (lc_o k))
              else c)
         end
  end.
Definition export_leg (l : list legcell) (c : acirc) : acirc * bool := export_leg_loop (seq 0 (nb_cells c)) l c.

(* DetailedPlacement::exportPlacement: detailed_placement.cpp:102-114.  One record per internal cell:
   cellIndex_[i], cellX_[i], cellY_[i], cellOrientation_[i].  An index >= nbCells() is outside the domain
   (assert / undefined behaviour in the code); the model skips it. *)
Record detcell := { dc_index : Z; dc_x : Z; dc_y : Z; dc_o : orient }.
Fixpoint export_det (l : list detcell) (c : acirc) : acirc :=
  match l with
  | [] => c
  | k :: r =>
    if dc_index k <? 0 then export_det r c
    else let cell := Z.to_nat (dc_index k) in
         if is_fixed c cell then export_det r c
         else export_det r (set_cellO (set_cellY (set_cellX c (upd (cellX c) cell (dc_x k))) (upd (cellY c) cell (dc_y k)))
                                      (upd (cellO c) cell (dc_o k)))
  end.

(* ------------------------------------------------------------------ C03: the frame *)
Definition fixed_same {A} (f : list bool) (la lb : list A) : Prop :=
  length la = length lb /\ forall i, nth_error f i = Some true -> nth_error la i = nth_error lb i.

Record frame_ok (a b : acirc) : Prop := {
  fr_w : cellW a = cellW b; fr_h : cellH a = cellH b; fr_fixed : cellFixed a = cellFixed b; fr_obs : cellObs a = cellObs b;
  fr_pol : cellPol a = cellPol b; fr_limits : netLimits a = netLimits b; fr_pins : pinCells a = pinCells b;
  fr_pinx : pinXOffs a = pinXOffs b; fr_piny : pinYOffs a = pinYOffs b; fr_weights : netWeights a = netWeights b;
  fr_rows : crows a = crows b;
  fr_x : fixed_same (cellFixed a) (cellX a) (cellX b); fr_y : fixed_same (cellFixed a) (cellY a) (cellY b);
  fr_o : fixed_same (cellFixed a) (cellO a) (cellO b) }.

Fixpoint list_eqb {A} (eqb : A -> A -> bool) (a b : list A) : bool :=
  match a, b with
  | [], [] => true
  | x :: a', y :: b' => eqb x y && list_eqb eqb a' b'
  | _, _ => false
  end.
Definition rect_eqb (a b : rect) : bool :=
  (minX a =? minX b) && (maxX a =? maxX b) && (minY a =? minY b) && (maxY a =? maxY b).
Definition row_eqb (a b : row) : bool := rect_eqb (rr a) (rr b) && orient_eqb (ro a) (ro b).
Definition opt_eqb {A} (eqb : A -> A -> bool) (a b : option A) : bool :=
  match a, b with Some x, Some y => eqb x y | None, None => true | _, _ => false end.
Definition fixed_sameb {A} (eqb : A -> A -> bool) (f : list bool) (la lb : list A) : bool :=
  Nat.eqb (length la) (length lb) &&
  forallb (fun i => if nth i f false then opt_eqb eqb (nth_error la i) (nth_error lb i) else true) (seq 0 (length f)).

Definition frame_okb (a b : acirc) : bool :=
  list_eqb Z.eqb (cellW a) (cellW b) && list_eqb Z.eqb (cellH a) (cellH b) && list_eqb Bool.eqb (cellFixed a) (cellFixed b)
  && list_eqb Bool.eqb (cellObs a) (cellObs b) && list_eqb polarity_eqb (cellPol a) (cellPol b)
  && list_eqb Z.eqb (netLimits a) (netLimits b) && list_eqb Z.eqb (pinCells a) (pinCells b)
  && list_eqb Z.eqb (pinXOffs a) (pinXOffs b) && list_eqb Z.eqb (pinYOffs a) (pinYOffs b)
  && list_eqb Z.eqb (netWeights a) (netWeights b) && list_eqb row_eqb (crows a) (crows b)
  && fixed_sameb Z.eqb (cellFixed a) (cellX a) (cellX b) && fixed_sameb Z.eqb (cellFixed a) (cellY a) (cellY b)
  && fixed_sameb orient_eqb (cellFixed a) (cellO a) (cellO b).
(* global placement: every orientation kept *)
Definition orient_keptb (a b : acirc) : bool := list_eqb orient_eqb (cellO a) (cellO b).

(* a stage as C03 sees it: any sequence of exports of arbitrary internal vectors (callbacks + final); a run cut short
   by an exception is a shorter sequence (the only exception raised INSIDE an export is the legalizer's, which the
   model covers by returning the partially written circuit) *)
Inductive export_action :=
| XGlob (x2 y2 : list Z)
| XLeg (l : list legcell)
| XDet (l : list detcell).
Definition apply_export (c : acirc) (a : export_action) : acirc :=
  match a with
  | XGlob x2 y2 => export_glob x2 y2 c
  | XLeg l => fst (export_leg l c)
  | XDet l => export_det l c
  end.
Definition run_exports (c : acirc) (l : list export_action) : acirc := fold_left apply_export l c.
Definition is_glob (a : export_action) : bool := match a with XGlob _ _ => true | _ => false end.

(* ------------------------------------------------------------------ C10: placement calls *)
Inductive stage := StGlobal | StLegalize | StDetailed.

(* what the algorithms do, as functions of the circuit they see (arbitrary) *)
Record oracle := {
  o_params_ok : bool;                               (* params.check() passes *)
  o_leg : acirc -> option (list legcell);           (* Legalizer::fromIspdCircuit + run: None = it throws *)
  o_setup_ok : acirc -> bool;                       (* GlobalPlacer / DetailedPlacer constructor does not throw *)
  o_gevents : list (acirc -> bool * (list Z * list Z));   (* the vectors handed to GlobalPlacer::callback, in order; the
                                                       flag says the callback is runUB's (PlacementStep::UpperBound) *)
  o_gfinal : acirc -> option (list Z * list Z);     (* the blend exported at the end; None = run() throws after the events *)
  o_devents : list (acirc -> list detcell);         (* the placement at each DetailedPlacer::callback *)
  o_dfinal : acirc -> option (list detcell) }.

Section Calls.
  (* the operations a callback may issue, and how one is executed *)
  Variable A : Type.
  Variable runop : acirc -> A -> res * acirc.

  Record callback := { cb_ops : list (list A);      (* operations issued at invocation 0, 1, ... *)
                       cb_throw : option nat }.     (* the invocation at which it throws (after its operations) *)

  (* one log entry per operation issued by a callback: the operation, isInUse_ when it was issued, its outcome, the
     circuit after it *)
  Record entry := { e_op : A; e_busy : bool; e_res : res; e_after : acirc }.
  Record cstate := { cs_c : acirc; cs_n : nat; cs_log : list entry }.

  Fixpoint run_ops (ops : list A) (c : acirc) (log : list entry) : acirc * list entry :=
    match ops with
    | [] => (c, log)
    | a :: r => let (rs, c') := runop c a in
                run_ops r c' (log ++ [{| e_op := a; e_busy := inUse c; e_res := rs; e_after := c' |}])
    end.

  (* the user's callback; chk = the hasCellSizeUpdate_/hasNetUpdate_ test that follows it in DetailedPlacer *)
  Definition invoke (chk : bool) (cb : callback) (st : cstate) : cstate * option exn :=
    let k := cs_n st in
    let (c', log') := run_ops (nth k (cb_ops cb) []) (cs_c st) (cs_log st) in
    let st' := {| cs_c := c'; cs_n := S k; cs_log := log' |} in
    match cb_throw cb with
    | Some t => if Nat.eqb t k then (st', Some (ECallback k))
                else if chk && (sizeUpd c' || netUpd c') then (st', Some EUpdating) else (st', None)
    | None => if chk && (sizeUpd c' || netUpd c') then (st', Some EUpdating) else (st', None)
    end.

  Definition with_c (st : cstate) (c : acirc) : cstate := {| cs_c := c; cs_n := cs_n st; cs_log := cs_log st |}.

  (* GlobalPlacer::callback / DetailedPlacer::callback: nothing without a callback, else export then call *)
  Fixpoint run_events {I} (exp : I -> acirc -> acirc) (chk : bool) (cb : option callback)
           (evs : list (acirc -> I)) (st : cstate) : cstate * option exn :=
    match cb with
    | None => (st, None)
    | Some f =>
      match evs with
      | [] => (st, None)
      | ev :: r =>
        match invoke chk f (with_c st (exp (ev (cs_c st)) (cs_c st))) with
        | (st', Some e) => (st', Some e)
        | (st', None) => run_events exp chk cb r st'
        end
      end
    end.

  (* GlobalPlacer::runUB starts with updateCellSizes(), which resets hasCellSizeUpdate_ (place_global.cpp:258, 280-287);
     then GlobalPlacer::callback exports the vectors *)
  Definition exp_g (v : bool * (list Z * list Z)) (c : acirc) : acirc :=
    export_glob (fst (snd v)) (snd (snd v)) (if fst v then set_sizeUpd c false else c).

  (* GlobalPlacer::place: place_global.cpp:41-54 (constructor :56-89 clears the two update flags) *)
  Definition stage_global (o : oracle) (cb : option callback) (st : cstate) : cstate * option exn :=
    if negb (o_params_ok o) then (st, Some EParams)
    else if negb (o_setup_ok o (cs_c st)) then (st, Some EInternal)
    else
      let st1 := with_c st (set_netUpd (set_sizeUpd (cs_c st) false) false) in
      match run_events exp_g false cb (o_gevents o) st1 with
      | (st2, Some e) => (st2, Some e)
      | (st2, None) =>
        match o_gfinal o (cs_c st2) with
        | None => (st2, Some EInternal)
        | Some v => (with_c st2 (exp_g (false, v) (cs_c st2)), None)
        end
      end.

  (* DetailedPlacer::legalize: place_detailed.cpp:18-45 (params.check() first, then the two update flags are reset) *)
  Definition stage_legalize (o : oracle) (cb : option callback) (st : cstate) : cstate * option exn :=
    if negb (o_params_ok o) then (st, Some EParams)
    else
    let st1 := with_c st (set_netUpd (set_sizeUpd (cs_c st) false) false) in
    match o_leg o (cs_c st1) with
         | None => (st1, Some ELegalizer)
         | Some l =>
           let (c2, threw) := export_leg l (cs_c st1) in
           if threw then (with_c st1 c2, Some EExport)
           else match cb with
                | None => (with_c st1 c2, None)
                | Some f => invoke true f (with_c st1 c2)
                end
         end.

  (* DetailedPlacer::place: place_detailed.cpp:47-64 *)
  Definition stage_detailed (o : oracle) (cb : option callback) (st : cstate) : cstate * option exn :=
    match stage_legalize o cb st with
    | (st1, Some e) => (st1, Some e)
    | (st1, None) =>
      if negb (o_setup_ok o (cs_c st1)) then (st1, Some EInternal)
      else match run_events export_det true cb (o_devents o) st1 with
           | (st2, Some e) => (st2, Some e)
           | (st2, None) =>
             match o_dfinal o (cs_c st2) with
             | None => (st2, Some EInternal)
             | Some l => (with_c st2 (export_det l (cs_c st2)), None)
             end
           end
    end.

  Definition run_stage (s : stage) := match s with StGlobal => stage_global | StLegalize => stage_legalize | StDetailed => stage_detailed end.

  (* Circuit::placeGlobal / legalize / placeDetailed after the F9 repair: InUseGuard sets the flag and gives it its
     previous value back on every exit path *)
  Definition call (s : stage) (o : oracle) (cb : option callback) (c : acirc) : acirc * list entry * option exn :=
    let previous := inUse c in
    let (st, e) := run_stage s o cb {| cs_c := set_inUse c true; cs_n := 0; cs_log := [] |} in
    (set_inUse (cs_c st) previous, cs_log st, e).

  (* the entry points as they were before the repair (coloquinte.cpp:593-612 of the snapshot): flag cleared only on
     the normal path *)
  Definition call_orig (s : stage) (o : oracle) (cb : option callback) (c : acirc) : acirc * list entry * option exn :=
    let (st, e) := run_stage s o cb {| cs_c := set_inUse c true; cs_n := 0; cs_log := [] |} in
    match e with
    | None => (set_inUse (cs_c st) false, cs_log st, e)
    | Some _ => (cs_c st, cs_log st, e)
    end.
End Calls.

Arguments cb_ops {A}. Arguments cb_throw {A}. Arguments cs_c {A}. Arguments cs_n {A}. Arguments cs_log {A}.
Arguments e_op {A}. Arguments e_busy {A}. Arguments e_res {A}. Arguments e_after {A}.

(* level 0: a callback that issues setters *)
Definition call0 := call setter apply_setter.
(* level 1: a callback that issues setters and placement calls (whose own callbacks issue setters) *)
Inductive cbop :=
| CSet (s : setter)
| CCall (s : stage) (o : oracle) (cb : option (callback setter)).
Definition apply_cbop (c : acirc) (a : cbop) : res * acirc :=
  match a with
  | CSet s => apply_setter c s
  | CCall s o cb => let '(c', _, e) := call0 s o cb c in (CallDone e, c')
  end.
Definition call1 := call cbop apply_cbop.
Definition call1_orig := call_orig cbop apply_cbop.
Definition cbop_guarded (a : cbop) : bool := match a with CSet s => guarded s | CCall _ _ _ => false end.

(* histories of top-level operations on a circuit *)
Inductive hop :=
| HSet (s : setter)
| HCall (s : stage) (o : oracle) (cb : option (callback cbop)).
Definition apply_hop (c : acirc) (h : hop) : acirc :=
  match h with
  | HSet s => snd (apply_setter c s)
  | HCall s o cb => fst (fst (call1 s o cb c))
  end.
Definition run_history (c : acirc) (h : list hop) : acirc := fold_left apply_hop h c.

(* ------------------------------------------------------------------ oracle adapters used by the correspondence run:
   the internal vectors whose export is exactly an observed placement (x, y, orientation per circuit cell) *)
Definition obs_placement := list (Z * Z * orient).
Definition adapt_glob (p : obs_placement) (c : acirc) : list Z * list Z :=   (* c: the circuit the export writes to *)
  (map (fun ip => 2 * fst (fst (snd ip)) + placed_w c (fst ip)) (combine (seq 0 (length p)) p),
   map (fun ip => 2 * snd (fst (snd ip)) + placed_h c (fst ip)) (combine (seq 0 (length p)) p)).
Definition adapt_leg (p : obs_placement) (c : acirc) : list legcell :=
  flat_map (fun ip => if is_fixed c (fst ip) then []
                      else [{| lc_placed := true; lc_x := fst (fst (snd ip)); lc_y := snd (fst (snd ip)); lc_o := snd (snd ip) |}])
           (combine (seq 0 (length p)) p).
Definition adapt_det (p : obs_placement) (c : acirc) : list detcell :=
  map (fun ip => {| dc_index := Z.of_nat (fst ip); dc_x := fst (fst (snd ip)); dc_y := snd (fst (snd ip)); dc_o := snd (snd ip) |})
      (combine (seq 0 (length p)) p).
