(* C07: the C++-typed intermediate values of the Abacus legalizer's cost arithmetic
   (src/place_detailed/abacus_legalizer.cpp: placeCell / tryPlace lambda / evaluatePlacement, and
   LegalizerBase::closestRow of legalizer.cpp) in evaluation order, over the ideal model Legalizer.v
   (a_try / a_scan / a_place / abacus_state).  `int` = I32, `long long` = I64 (RowLegMachine.v).
   The values of the nested calls RowLegalizer::getCost / push are the list gd_vals of RowLegMachine.v.
   The type annotations are transcribed BY HAND from the C++ text (modelled, not verified): each entry
   says in a comment which C++ expression it is.  Where the C++ short-circuits (&&, ||, early return) the
   list contains the value only on the path that evaluates it. *)
From Coq Require Import List ZArith Lia Bool.
Import ListNotations.
Require Import CV.Orient CV.FreeSpace CV.RowLeg CV.Legalizer CV.RowLegMachine.
Local Open Scope Z_scope.

(* NB: Legalizer.cty is the target-y field of a cell; RowLegMachine.cty the C type tag. *)
Notation ctag := RowLegMachine.cty.

(* LegalizerBase::closestRow(y), legalizer.cpp:144-158 *)
Definition closest_row_vals (rows : list row) (y : Z) : list (ctag * Z) :=
  let n := Z.of_nat (length rows) in
  let it := lower_bound rows y 0 in
  if it =? n then [(I32, n); (I32, n - 1)]                       (* nbRows() (int)rows_.size(); nbRows() - 1 *)
  else if it =? 0 then [] else
  (I32, it) ::                                                    (* int row = it - rows_.begin() *)
  match nthZ rows it, nthZ rows (it - 1) with
  | Some r, Some rp => [(I32, it - 1);                            (* row - 1 *)
                        (I32, minY (rr r) - y);                   (* rows_[row].minY - y *)
                        (I32, y - minY (rr rp))]                  (* y - rows_[row - 1].minY *)
  | _, _ => [] end.

(* the lambda tryPlace(row) of placeCell, abacus_legalizer.cpp:67-92, with evaluatePlacement (40-51) inlined *)
Definition a_try_vals (rows : list row) (legs : list rl) (c : cell) (i : Z) (st : Z * Z) : list (ctag * Z) :=
  let '(bestRow, bestDist) := st in
  match nthZ rows i, nthZ legs i with
  | Some r, Some lg =>
    (I32, maxY (rr r) - minY (rr r)) ::                           (* rows_[row].height() = maxY - minY *)
    (if negb (maxY (rr r) - minY (rr r) =? ch c) then [] else
     let dy := minY (rr r) - Legalizer.cty c in
     let yDist := cw c * Z.abs dy in
     [(I32, dy);                                                  (* rows_[row].minY - targetY        (int)       *)
      (I64, Z.abs 0); (I64, Z.abs dy);                            (* std::abs(x), std::abs(y) in computeNorm<long long> *)
      (I64, Z.abs 0 + Z.abs dy);                                  (* std::abs(x) + std::abs(y)        (long long) *)
      (I64, yDist);                                               (* cellWidth_[cell] * norm(...)     (int * long long -> long long) *)
      (I64, bestDist)] ++                                         (* the long long it is compared with *)
     (if negb (bestRow =? -1) && (bestDist <? yDist) then [] else
      [(I32, rend lg - rbegin lg);                                (* end_ - begin_                    (int) *)
       (I32, remaining_space lg)] ++                              (* end_ - begin_ - usedSpace()      (int) *)
      (if remaining_space lg <? cw c then [(I64, 0 + yDist)]      (* !ok: xDist = 0; dist = xDist + yDist is still evaluated *)
       else match get_orientation rows c i with
       | None => [(I64, 0 + yDist)]
       | Some o =>
         if orient_eqb o oINVALID then [(I64, 0 + yDist)] else
         let xDist := snd (get_cost lg (cw c) (ctx c)) in
         gd_vals lg (cw c) (ctx c) ++                             (* rowLegalizers_[row].getCost(width, targetX) *)
         [(I64, xDist);                                           (* long long dist (evaluatePlacement) / xDist *)
          (I64, xDist + yDist)]                                   (* long long dist = xDist + yDist *)
       end)))
  | _, _ => []
  end.

(* the two for loops of placeCell: `step` is +1 (++row) or -1 (--row) *)
Fixpoint a_scan_vals (rows : list row) (legs : list rl) (c : cell) (step : Z) (idx : list Z) (st : Z * Z) : list (ctag * Z) :=
  match idx with
  | [] => []
  | i :: idx' =>
    a_try_vals rows legs c i st ++
    (let '(stop, st') := a_try rows legs c i st in
     if stop then [] else (I32, i + step) :: a_scan_vals rows legs c step idx' st')   (* ++row / --row *)
  end.

(* placeCell(cell), abacus_legalizer.cpp:53-115 *)
Definition a_place_vals (rows : list row) (legs : list rl) (c : cell) : list (ctag * Z) :=
  let n := Z.of_nat (length rows) in
  let init := closest_row rows (Legalizer.cty c) in
  let st0 := (-1, 9223372036854775807) in
  let st1 := a_scan rows legs c (zrange init n) st0 in
  let st2 := a_scan rows legs c (rev (zrange 0 init)) st1 in
  [(I32, n)] ++ closest_row_vals rows (Legalizer.cty c) ++
  a_scan_vals rows legs c 1 (zrange init n) st0 ++
  [(I32, init - 1)] ++                                            (* int row = initialRow - 1 *)
  a_scan_vals rows legs c (-1) (rev (zrange 0 init)) st1 ++
  (if fst st2 =? -1 then [] else
   match nthZ legs (fst st2) with
   | Some lg => gd_vals lg (cw c) (ctx c)                         (* rowLegalizers_[bestRow].push(width, targetX) *)
   | None => [] end).

(* AbacusLegalizer::run(): the loop over the cells (the read-back loop copies values only) *)
Fixpoint abacus_vals (rows : list row) (cells : list cell) (st : list rl * list (list nat) * nat) : list (ctag * Z) :=
  match cells with
  | [] => []
  | c :: cells' =>
    (if (length rows =? 0)%nat then [] else a_place_vals rows (fst (fst st)) c)   (* if (nbRows() == 0) return; *)
    ++ abacus_vals rows cells' (a_step rows st c)
  end.

Definition abacus_run_vals (rows : list row) (cells : list cell) : list (ctag * Z) :=
  abacus_vals rows cells
    (map (fun r => rl_init (minX (rr r)) (maxX (rr r))) rows, map (fun _ => @nil nat) rows, O).

(* ---------- the domain ---------- *)
(* a row inside [-2^22, 2^22]^2 *)
Definition row_dom (r : row) : Prop :=
  -4194304 <= minX (rr r) /\ minX (rr r) <= maxX (rr r) /\ maxX (rr r) <= 4194304 /\
  -4194304 <= minY (rr r) <= 4194304 /\ -4194304 <= maxY (rr r) <= 4194304.
(* a cell of positive width at most 2^23 with its target within [-2^23, 2^23]^2 *)
Definition cell_dom (c : cell) : Prop :=
  0 < cw c <= 8388608 /\ -8388608 <= ctx c <= 8388608 /\ -8388608 <= Legalizer.cty c <= 8388608.
Definition rows_dom (rows : list row) : Prop := Forall row_dom rows /\ Z.of_nat (length rows) < 2147483648.
