(* Model of the row data structure of detailed placement
   (src/place_detailed/detailed_placement.cpp): each row an ordered list of cells;
   the primitives unplace/place with the guard canPlace; swap, insert and the
   reordering write-back as the compositions of primitives the C++ performs.
   The five index arrays (cellPred_/cellNext_/cellRow_/rowFirstCell_/rowLastCell_) are
   abstracted by the lists; the correspondence compares rowCells() with the lists. *)
From Coq Require Import List ZArith Lia Bool.
Import ListNotations.
Require Import CV.Orient.
Local Open Scope Z_scope.

Record pcell := { p_id : nat; p_x : Z; p_w : Z; p_pol : polarity; p_o : orient }.
Record drow := { dr_min : Z; dr_max : Z; dr_y : Z; dr_o : orient; dr_cells : list pcell }.
Record dstate := { d_rows : list drow; d_loose : list pcell (* unplaced cells *) }.

Definition set_cells (r : drow) (l : list pcell) : drow :=
  {| dr_min := dr_min r; dr_max := dr_max r; dr_y := dr_y r; dr_o := dr_o r; dr_cells := l |}.

Fixpoint upd_row (rows : list drow) (i : nat) (r : drow) : list drow :=
  match rows, i with [], _ => [] | _ :: t, O => r :: t | x :: t, S i' => x :: upd_row t i' r end.

(* split a cell list around the cell with the given id *)
Fixpoint split_at (id : nat) (l : list pcell) : option (list pcell * pcell * list pcell) :=
  match l with
  | [] => None
  | c :: r => if Nat.eqb (p_id c) id then Some ([], c, r)
              else match split_at id r with
                   | Some (a, m, b) => Some (c :: a, m, b)
                   | None => None end
  end.

(* find the row holding a cell *)
Fixpoint find_row (rows : list drow) (id : nat) (i : nat) : option (nat * drow * list pcell * pcell * list pcell) :=
  match rows with
  | [] => None
  | r :: t => match split_at id (dr_cells r) with
              | Some (a, m, b) => Some (i, r, a, m, b)
              | None => find_row t id (S i) end
  end.

(* site after `pred` (None = before the first cell): cells before, cells after *)
Definition split_site (pred : option nat) (l : list pcell) : option (list pcell * list pcell) :=
  match pred with
  | None => Some ([], l)
  | Some p => match split_at p l with Some (a, m, b) => Some (a ++ [m], b) | None => None end
  end.

Fixpoint site_begin (lo : Z) (before : list pcell) : Z :=
  match before with [] => lo | c :: r => site_begin (p_x c + p_w c) r end.
Definition site_end (hi : Z) (after : list pcell) : Z :=
  match after with [] => hi | c :: _ => p_x c end.

Definition row_allowed (pol : polarity) (r : drow) : bool :=
  negb (orient_eqb (cell_orientation_in_row pol (dr_o r)) oINVALID).

(* ---------- primitives ---------- *)
Definition unplace (s : dstate) (id : nat) : option dstate :=
  match find_row (d_rows s) id 0 with
  | Some (i, r, a, m, b) =>
      Some {| d_rows := upd_row (d_rows s) i (set_cells r (a ++ b)); d_loose := m :: d_loose s |}
  | None => None
  end.

Fixpoint take_loose (id : nat) (l : list pcell) : option (pcell * list pcell) :=
  match l with
  | [] => None
  | c :: r => if Nat.eqb (p_id c) id then Some (c, r)
              else match take_loose id r with Some (m, r') => Some (m, c :: r') | None => None end
  end.

(* place(c, row, pred, x): the guard is canPlace; the orientation is recomputed from the row *)
Definition place (s : dstate) (id : nat) (rowi : nat) (pred : option nat) (x : Z) : option dstate :=
  match take_loose id (d_loose s), nth_error (d_rows s) rowi with
  | Some (c, loose'), Some r =>
    match split_site pred (dr_cells r) with
    | Some (a, b) =>
      if (site_begin (dr_min r) a <=? x) && (x + p_w c <=? site_end (dr_max r) b) then
        let o := cell_orientation_in_row (p_pol c) (dr_o r) in
        let c' := {| p_id := p_id c; p_x := x; p_w := p_w c; p_pol := p_pol c;
                     p_o := if orient_eqb o oUNKNOWN then p_o c else o |} in
        Some {| d_rows := upd_row (d_rows s) rowi (set_cells r (a ++ c' :: b)); d_loose := loose' |}
      else None
    | None => None
    end
  | _, _ => None
  end.

(* ---------- queries of the placed structure ---------- *)
Definition pred_of (a : list pcell) : option nat := match rev a with [] => None | c :: _ => Some (p_id c) end.
Definition opt_nat_eqb (a b : option nat) : bool :=
  match a, b with None, None => true | Some x, Some y => Nat.eqb x y | _, _ => false end.

(* canInsert *)
Definition can_insert (s : dstate) (id : nat) (rowi : nat) (pred : option nat) : option bool :=
  match find_row (d_rows s) id 0, nth_error (d_rows s) rowi with
  | Some (ri, _, a, c, _), Some r =>
    if opt_nat_eqb (Some id) pred then Some false
    else if Nat.eqb ri rowi && opt_nat_eqb (pred_of a) pred then Some false
    else if negb (row_allowed (p_pol c) r) then Some false
    else match split_site pred (dr_cells r) with
         | Some (sa, sb) => Some (p_w c <=? site_end (dr_max r) sb - site_begin (dr_min r) sa)
         | None => None end
  | _, _ => None
  end.

(* insert = positionOnInsert (before unplacing), unplace, place; C++ int division truncates *)
Definition insert (s : dstate) (id : nat) (rowi : nat) (pred : option nat) : option dstate :=
  match can_insert s id rowi pred with
  | Some true =>
    match find_row (d_rows s) id 0, nth_error (d_rows s) rowi with
    | Some (_, _, _, c, _), Some r =>
      match split_site pred (dr_cells r) with
      | Some (sa, sb) =>
        let x := Z.quot (site_end (dr_max r) sb - p_w c + site_begin (dr_min r) sa) 2 in
        match unplace s id with Some s1 => place s1 id rowi pred x | None => None end
      | None => None end
    | _, _ => None end
  | _ => None
  end.

(* boundaryBefore / boundaryAfter of a placed cell *)
Definition bounds_of (r : drow) (a b : list pcell) : Z * Z := (site_begin (dr_min r) a, site_end (dr_max r) b).

(* canSwap *)
Definition can_swap (s : dstate) (c1 c2 : nat) : option bool :=
  match find_row (d_rows s) c1 0, find_row (d_rows s) c2 0 with
  | Some (_, r1, a1, m1, b1), Some (_, r2, a2, m2, b2) =>
    if Nat.eqb c1 c2 then Some false
    else if negb (row_allowed (p_pol m1) r2) || negb (row_allowed (p_pol m2) r1) then Some false
    else if opt_nat_eqb (pred_of a1) (Some c2) || opt_nat_eqb (pred_of a2) (Some c1) then Some true
    else let '(bb1, ba1) := bounds_of r1 a1 b1 in
         let '(bb2, ba2) := bounds_of r2 a2 b2 in
         Some ((p_w m1 <=? ba2 - bb2) && (p_w m2 <=? ba1 - bb1))
  | _, _ => None
  end.

(* swap: positionsOnSwap, then the three unplace/place sequences of the C++ *)
Definition swap (s : dstate) (c1 c2 : nat) : option dstate :=
  match can_swap s c1 c2 with
  | Some true =>
    match find_row (d_rows s) c1 0, find_row (d_rows s) c2 0 with
    | Some (i1, r1, a1, m1, b1), Some (i2, r2, a2, m2, b2) =>
      let p1 := pred_of a1 in let p2 := pred_of a2 in
      let '(bb1, ba1) := bounds_of r1 a1 b1 in
      let '(bb2, ba2) := bounds_of r2 a2 b2 in
      let '(x1, x2) :=
          if opt_nat_eqb p1 (Some c2) then (p_x m2, p_x m2 + p_w m1)
          else if opt_nat_eqb p2 (Some c1) then (p_x m1 + p_w m2, p_x m1)
          else (Z.quot (bb2 + ba2 - p_w m1) 2, Z.quot (bb1 + ba1 - p_w m2) 2) in
      match unplace s c1 with
      | Some s1 =>
        match unplace s1 c2 with
        | Some s2 =>
          if opt_nat_eqb p1 (Some c2) then
            match place s2 c1 i2 p2 x1 with Some s3 => place s3 c2 i1 (Some c1) x2 | None => None end
          else if opt_nat_eqb p2 (Some c1) then
            match place s2 c2 i1 p1 x2 with Some s3 => place s3 c1 i2 (Some c2) x1 | None => None end
          else
            match place s2 c1 i2 p2 x1 with Some s3 => place s3 c2 i1 p1 x2 | None => None end
        | None => None end
      | None => None end
    | _, _ => None end
  | _ => None
  end.

(* ---------- histories ---------- *)
Inductive mop :=
| MSwap (c1 c2 : nat) | MInsert (c rowi : nat) (pred : option nat)
| MUnplace (c : nat) | MPlace (c rowi : nat) (pred : option nat) (x : Z).

Definition apply_mop (s : dstate) (o : mop) : option dstate :=
  match o with
  | MSwap c1 c2 => swap s c1 c2
  | MInsert c r p => insert s c r p
  | MUnplace c => unplace s c
  | MPlace c r p x => place s c r p x
  end.

(* an operation that is refused (guard false / C++ throws before modifying) leaves the state *)
Definition step_mop (s : dstate) (o : mop) : dstate :=
  match apply_mop s o with Some s' => s' | None => s end.

Definition run_mops (s : dstate) (ops : list mop) : dstate := fold_left step_mop ops s.

(* ---------- the shift pass (DetailedPlacer::runShiftsOnCells) ----------
   The new x of the selected cells are the dual values of a min-cost flow solved by lemon's network
   simplex (not modelled).  What IS modelled is the constraint system the C++ builds from the row
   structure: for a selected cell c
     - successor selected too:   x_next >= x_c + width_c            (arc next -> c, cost -width_c)
     - predecessor not selected: x_c >= boundaryBefore(c)           (arc c -> fixed, cost -boundary)
     - successor not selected:   x_c <= boundaryAfter(c) - width_c  (arc fixed -> c)
   `shift_ok` says that a vector of new positions satisfies these constraints (dual feasibility of the
   positional arcs); `apply_shift` writes the positions (placement_.cellX_[c] = pos). *)
Definition in_shift (xs : list (nat * Z)) (c : pcell) : bool := existsb (fun p => Nat.eqb (fst p) (p_id c)) xs.
Definition new_x (xs : list (nat * Z)) (c : pcell) : Z :=
  match find (fun p => Nat.eqb (fst p) (p_id c)) xs with Some p => snd p | None => p_x c end.
Definition move_cell (xs : list (nat * Z)) (c : pcell) : pcell :=
  {| p_id := p_id c; p_x := new_x xs c; p_w := p_w c; p_pol := p_pol c; p_o := p_o c |}.
Definition apply_shift (s : dstate) (xs : list (nat * Z)) : dstate :=
  {| d_rows := map (fun r => set_cells r (map (move_cell xs) (dr_cells r))) (d_rows s); d_loose := d_loose s |}.

Fixpoint row_shift_ok (xs : list (nat * Z)) (prev_sel : bool) (prev_old_end prev_new_end hi : Z) (l : list pcell) : bool :=
  match l with
  | [] => true
  | c :: r =>
    let sel := in_shift xs c in
    (if sel then (if prev_sel then prev_new_end <=? new_x xs c else prev_old_end <=? new_x xs c) else true) &&
    (if sel then match r with
                 | [] => new_x xs c + p_w c <=? hi
                 | n :: _ => if in_shift xs n then true else new_x xs c + p_w c <=? p_x n
                 end
     else true) &&
    row_shift_ok xs sel (p_x c + p_w c) (new_x xs c + p_w c) hi r
  end.
Definition shift_ok (s : dstate) (xs : list (nat * Z)) : bool :=
  forallb (fun r => row_shift_ok xs false (dr_min r) (dr_min r) (dr_max r) (dr_cells r)) (d_rows s).
