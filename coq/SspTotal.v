(* C13 -- Part D: sendSource(src), run(), solve() of the fuel-parametrised model SspF.v:
   a plan is returned unless the fuel given to updateTree is smaller than big_fuel; every returned plan is
   feasible and of minimum cost (LP certificate built from the final potentials). *)
From Coq Require Import List ZArith Lia Bool Arith Permutation.
Import ListNotations.
Require Import CV.LpCert CV.Ssp CV.SspProofs CV.SspSafety CV.SspF CV.SspTree CV.SspOpt.
Local Open Scope Z_scope.

Lemma fold_min_le (f : nat -> Z) z l k :
  In k l -> fold_right (fun k acc => Z.min (f k) acc) z l <= f k.
Proof.
  induction l as [|h t IH]; intros Hk; [destruct Hk|]. cbn [fold_right].
  destruct Hk as [->|Hk]; [lia|]. specialize (IH Hk). lia.
Qed.

Lemma fold_min_att (f : nat -> Z) z l :
  fold_right (fun k acc => Z.min (f k) acc) z l = z \/
  exists k, In k l /\ fold_right (fun k acc => Z.min (f k) acc) z l = f k.
Proof.
  induction l as [|h t IH]; [left; reflexivity|]. cbn [fold_right].
  destruct (Z.min_spec (f h) (fold_right (fun k acc => Z.min (f k) acc) z t)) as [[_ ->]|[_ ->]].
  - right. exists h. split; [left; reflexivity|reflexivity].
  - destruct IH as [->|(k & Hk & ->)]; [left; reflexivity|right; exists k; split; [right; exact Hk|reflexivity]].
Qed.

Lemma nth_repeat_none (k a : nat) : nth a (repeat (@None nat) k) None = None.
Proof. revert a; induction k as [|k IH]; intros [|a]; cbn; auto. Qed.

Section Run.
Variable pb : Pb.
Let n := nsnk pb.
Let m := nsrc pb.
Hypothesis Hcaps : forall j, (j < n)%nat -> 0 < cap_f pb j.
Hypothesis Hcost : forall j i, 0 <= cost pb j i < INT_MAX.
Variable tf : nat -> positive.

(* outcome: a value with P, or updateTree ran out of a fuel smaller than big_fuel *)
Definition outF {A : Type} (r : res A) (P : A -> Prop) : Prop :=
  match r with Ok a => P a | Fail e => e = EFuel 483%nat /\ ~ (big_fuel n <= tf n)%positive end.

Lemma best_sink_spec2 sc src :
  (exists j, (j < n)%nat /\ getZ sc j + cost pb j src < INT_MAX) ->
  (best_sink pb sc src < n)%nat /\ getZ sc (best_sink pb sc src) + cost pb (best_sink pb sc src) src < INT_MAX /\
  forall k, (k < n)%nat -> getZ sc (best_sink pb sc src) + cost pb (best_sink pb sc src) src <= getZ sc k + cost pb k src.
Proof.
  intros (j & Hj & Hfin). unfold best_sink. fold n.
  set (f := fun (st : nat * Z) i => let c := getZ sc i + cost pb i src in if c <? snd st then (i, c) else st).
  assert (H : forall k, (k <= n)%nat ->
    let st := fold_left f (seq 0 k) (0%nat, INT_MAX) in
    snd st <= INT_MAX /\ (forall i, (i < k)%nat -> snd st <= getZ sc i + cost pb i src) /\
    (snd st < INT_MAX -> (fst st < n)%nat /\ getZ sc (fst st) + cost pb (fst st) src = snd st)).
  { induction k as [|k IH]; intros Hk.
    - cbn. split; [lia|]. split; [intros; lia|intros; lia].
    - cbn zeta. rewrite seq_S, fold_left_app. cbn [fold_left Nat.add].
      specialize (IH ltac:(lia)). cbn zeta in IH. set (st := fold_left f (seq 0 k) (0%nat, INT_MAX)) in *.
      destruct IH as (I1 & I2 & I3).
      destruct (Z.ltb_spec (getZ sc k + cost pb k src) (snd st)) as [Hlt|Hge].
      + assert (Ef : f st k = (k, getZ sc k + cost pb k src)).
        { unfold f. cbn zeta. apply Z.ltb_lt in Hlt. rewrite Hlt. reflexivity. }
        rewrite Ef. cbn [fst snd].
        split; [lia|]. split; [|intros _; split; [lia|reflexivity]].
        intros i Hi. destruct (Nat.eq_dec i k) as [->|]; [lia|]. specialize (I2 i ltac:(lia)). lia.
      + assert (Ef : f st k = st).
        { unfold f. cbn zeta. apply Z.ltb_ge in Hge. rewrite Hge. reflexivity. }
        rewrite Ef.
        split; [exact I1|]. split; [|exact I3].
        intros i Hi. destruct (Nat.eq_dec i k) as [->|]; [lia|]. apply I2. lia. }
  specialize (H n (le_n _)). cbn zeta in H. destruct H as (_ & H2 & H3).
  pose proof (H2 j Hj) as H2j. destruct (H3 ltac:(lia)) as [H4 H5]. split; [exact H4|]. rewrite H5.
  split; [lia|]. intros k Hk. apply H2, Hk.
Qed.

Lemma send_loopF_terminates s src :
  exists r, loopP (Z.to_pos (getZ (dems pb) src + 1)) (send_bodyF tf pb src) (s, getZ (dems pb) src) = Done r.
Proof.
  set (d := getZ (dems pb) src).
  destruct (loopP _ _ _) as [[s' r']|r] eqn:E; [|exists r; reflexivity].
  exfalso. apply (loopP_measure (fun sr : St * Z => Z.to_nat (snd sr))) in E.
  - cbn [snd] in E. pose proof (Pos2Nat.is_pos (Z.to_pos (d + 1))).
    destruct (Z.leb_spec d 0); [|rewrite <- Z2Nat.inj_pos, Z2Pos.id in E by lia]; lia.
  - intros [s1 r1] s2. unfold send_bodyF. destruct (Z.gtb_spec r1 0); cbn [negb]; [|discriminate].
    destruct (send_source3F _ _ _ _ _ _) as [[s3 sent]|]; [|discriminate].
    destruct (Z.gtb_spec sent 0); cbn [negb]; [|discriminate]. intros [= <-]. cbn [snd]. lia.
Qed.

Lemma send_sourceF_spec s src later :
  Inv pb s -> Jinv pb s -> (src < m)%nat -> 0 <= dem_f pb src -> 0 <= later ->
  dem_f pb src + later <= free_total pb (rem s) ->
  outF (send_sourceF tf pb s src)
       (fun s' => Inv pb s' /\ Jinv pb s' /\ later <= free_total pb (rem s') /\
                  forall i, (i < nsrc pb)%nat ->
                    colsum (nsnk pb) (alloc s') i = colsum (nsnk pb) (alloc s) i + delta i src * dem_f pb src).
Proof.
  intros HI HJ Hsrc Hd Hl Hft. unfold send_sourceF, outF. fold (dem_f pb src).
  apply (run_loop_rule
    (fun sr : St * Z => Inv pb (fst sr) /\ Jinv pb (fst sr) /\ 0 <= snd sr /\
       snd sr + later <= free_total pb (rem (fst sr)) /\
       forall i, (i < nsrc pb)%nat ->
         colsum (nsnk pb) (alloc (fst sr)) i = colsum (nsnk pb) (alloc s) i + delta i src * (dem_f pb src - snd sr))).
  - cbn [fst snd]. split; [exact HI|]. split; [exact HJ|]. split; [exact Hd|]. split; [exact Hft|].
    intros i Hi. rewrite Z.sub_diag. lia.
  - intros [s1 r] (HI1 & HJ1 & Hr & Hft1 & Hc). cbn [fst snd] in *. unfold send_bodyF.
    destruct (Z.gtb_spec r 0) as [Hr0|Hr0]; cbn [negb].
    2:{ split; [exact HI1|]. split; [exact HJ1|]. split; [lia|]. intros i Hi. rewrite Hc by exact Hi.
        assert (r = 0) by lia. subst r. rewrite Z.sub_0_r. reflexivity. }
    pose proof HI1 as (HG1 & _ & _ & (_ & _ & T3)).
    assert (Hfree : anyfree pb (rem s1)).
    { destruct (zsum_pos_exists (getZ (rem s1)) (seq 0 n)) as (j & Hj & Hp); [unfold free_total in Hft1; fold n in Hft1; lia|].
      apply in_seq in Hj. exists j. split; [lia|exact Hp]. }
    assert (Hex : exists j, (j < n)%nat /\ getZ (scost s1) j + cost pb j src < INT_MAX).
    { destruct Hfree as (j & Hj & Hp). exists j. split; [exact Hj|]. rewrite (T3 j Hj Hp). specialize (Hcost j src). lia. }
    destruct (best_sink_spec2 (scost s1) src Hex) as (Hk & Hfin & Hmin).
    set (k := best_sink pb (scost s1) src) in *.
    assert (Hfin' : getZ (scost s1) k < INT_MAX) by (specialize (Hcost k src); lia).
    pose proof (send3F pb Hcaps Hcost tf s1 src k r HI1 HJ1 Hsrc Hr0 Hk Hfin' (Jinv_pot pb s1 HJ1 Hfree) Hmin) as H3.
    destruct (send_source3F tf pb s1 src k r) as [[s2 sent]|e] eqn:E3; [|exact H3].
    destruct H3 as (HI2 & HJ2 & Hft2 & Hs & Hc2).
    destruct (Z.gtb_spec sent 0); [|lia]. cbn [negb fst snd].
    split; [exact HI2|]. split; [exact HJ2|]. split; [lia|]. split; [rewrite Hft2; lia|].
    intros i Hi. rewrite Hc2, Hc by exact Hi. unfold delta. destruct (i =? src)%nat; lia.
  - apply send_loopF_terminates.
Qed.

Lemma runF_spec L :
  NoDup L -> (forall a, In a L -> (a < m)%nat) -> (forall i, 0 <= dem_f pb i) ->
  forall s, Inv pb s -> Jinv pb s -> zsum (dem_f pb) L <= free_total pb (rem s) ->
  outF (foldM (send_sourceF tf pb) L s)
       (fun s' => Inv pb s' /\ Jinv pb s' /\
                  forall i, (i < nsrc pb)%nat ->
                    colsum (nsnk pb) (alloc s') i = colsum (nsnk pb) (alloc s) i + ind i L * dem_f pb i).
Proof.
  intros Hnd Hin Hd. induction L as [|a L IH]; intros s HI HJ Hft; cbn [foldM].
  - cbn [outF]. split; [exact HI|]. split; [exact HJ|]. intros i _. unfold ind. cbn. lia.
  - inversion Hnd as [|? ? Hna Hnd']; subst. cbn [zsum] in Hft.
    pose proof (send_sourceF_spec s a (zsum (dem_f pb) L) HI HJ (Hin a (or_introl eq_refl)) (Hd a)
                  (zsum_nonneg _ _ Hd) Hft) as H1.
    destruct (send_sourceF tf pb s a) as [s1|e]; cbn [bind outF] in *; [|exact H1].
    destruct H1 as (HI1 & HJ1 & Hft1 & Hc1).
    specialize (IH Hnd' (fun b Hb => Hin b (or_intror Hb)) s1 HI1 HJ1 Hft1).
    destruct (foldM (send_sourceF tf pb) L s1) as [s'|e]; cbn [outF] in *; [|exact IH].
    destruct IH as (HI' & HJ' & Hc'). split; [exact HI'|]. split; [exact HJ'|].
    intros i Hi. rewrite Hc', Hc1 by exact Hi.
    unfold ind, delta. cbn [existsb]. destruct (Nat.eqb_spec i a) as [->|Hne]; cbn [orb]; [|lia].
    destruct (existsb (Nat.eqb a) L) eqn:Ex; [|lia].
    apply existsb_exists in Ex. destruct Ex as (b & Hb & Eb). apply Nat.eqb_eq in Eb. subst b. contradiction.
Qed.

Lemma Jinv_init : Jinv pb (init_st pb).
Proof.
  constructor; cbn [init_st alloc rem scost parent queues].
  - intros a Ha Hra. specialize (Hcaps a Ha). unfold cap_f in Hcaps. lia.
  - intros a _. exists [], a. constructor. apply nth_repeat_none.
  - intros a b H. rewrite nth_repeat_none in H. discriminate.
  - exists (fun _ => 0). split.
    + split; [intros; lia|]. split; [intros; reflexivity|]. intros j k i _ _ _ H. rewrite get2_zero_alloc in H. lia.
    + intros _ j Hj. unfold getZ. rewrite nth_repeat. reflexivity.
Qed.

(* the final potentials certify the plan *)
Definition umin (d : nat -> Z) (i : nat) : Z :=
  fold_right (fun k acc => Z.min (cost pb k i + d k) acc) (cost pb 0 i + d 0%nat) (seq 0 n).

Lemma pot_optimal s d :
  G pb s -> pb_feasible pb (plan_f (alloc s)) -> Pot pb (alloc s) (rem s) d -> pb_optimal pb (plan_f (alloc s)).
Proof.
  intros (Hsh & Hlr & Hpos & Hrs & Hrem) Hfeas (P1 & P2 & P3). split; [exact Hfeas|]. intros x' Hx'. unfold pb_cost.
  apply (lp_cert_sound (srcs_of pb) (snks_of pb) (dem_f pb) (cap_f pb) (cost pb) (plan_f (alloc s)) (umin d) d x');
    [exact Hfeas| | |exact Hx'].
  - split.
    + intros j Hj. apply in_seq in Hj. apply P1. lia.
    + intros i j _ Hj. unfold umin.
      pose proof (fold_min_le (fun k => cost pb k i + d k) (cost pb 0 i + d 0%nat) (seq 0 n) j Hj) as Hle.
      cbv beta in Hle. lia.
  - split.
    + intros i j Hi Hj Hx. unfold plan_f in Hx. apply in_seq in Hi, Hj.
      assert (Hjn : (j < n)%nat) by (unfold n; lia). assert (Him : (i < m)%nat) by (unfold m; lia).
      pose proof (fold_min_le (fun k => cost pb k i + d k) (cost pb 0 i + d 0%nat) (seq 0 n) j ltac:(apply in_seq; lia)) as Hle.
      cbv beta in Hle.
      destruct (fold_min_att (fun k => cost pb k i + d k) (cost pb 0 i + d 0%nat) (seq 0 n)) as [E|(k & Hk & E)];
        cbv beta in E; unfold umin; rewrite E in *.
      * pose proof (P3 j 0%nat i Hjn ltac:(lia) Him Hx). lia.
      * apply in_seq in Hk. pose proof (P3 j k i Hjn ltac:(lia) Him Hx). lia.
    + intros j Hj Hv. apply in_seq in Hj. assert (Hjn : (j < n)%nat) by (unfold n; lia).
      specialize (Hrs j Hjn). unfold rowsum in Hrs. unfold srcs_of.
      destruct (Z.lt_ge_cases 0 (getZ (rem s) j)) as [Hf|Hf]; [rewrite (P2 j Hjn Hf) in Hv; lia|].
      specialize (Hrem j). lia.
Qed.
End Run.

(* ================================================================== the solver *)

Lemma sspF_spec pb tf :
  check_pb pb = true -> (forall j i, 0 <= cost pb j i < INT_MAX) -> total_demand pb <= total_capacity pb ->
  match sspF tf pb with
  | Ok x => pb_optimal pb (plan_f x)
  | Fail e => e = EFuel 483%nat /\ ~ (big_fuel (nsnk pb) <= tf (nsnk pb))%positive
  end.
Proof.
  intros Hchk Hcost Hbal.
  assert (Hcaps : forall j, (j < nsnk pb)%nat -> 0 < cap_f pb j).
  { unfold check_pb in Hchk. rewrite !andb_true_iff, !forallb_forall in Hchk. destruct Hchk as [[[_ Hc] _] _].
    intros j Hj. unfold cap_f, getZ. specialize (Hc _ (nth_In _ 0 Hj)). apply Z.ltb_lt in Hc. exact Hc. }
  destruct (check_pb_nonneg pb Hchk) as [Hc0 Hd].
  pose proof (sorted_sources_perm pb) as Hperm.
  assert (Hnd : NoDup (sorted_sources pb)) by (eapply Permutation_NoDup; [symmetry; exact Hperm|apply seq_NoDup]).
  assert (Hin : forall a, In a (sorted_sources pb) -> (a < nsrc pb)%nat).
  { intros a Ha. eapply Permutation_in in Ha; [|exact Hperm]. apply in_seq in Ha. lia. }
  assert (Hft : zsum (dem_f pb) (sorted_sources pb) <= free_total pb (rem (init_st pb))).
  { rewrite (zsum_perm _ _ _ Hperm). unfold free_total. cbn [init_st rem].
    unfold total_demand, total_capacity in Hbal. rewrite !zsuml_zsum in Hbal. exact Hbal. }
  pose proof (runF_spec pb Hcaps Hcost tf (sorted_sources pb) Hnd Hin Hd (init_st pb) (Inv_init pb Hcaps)
                (Jinv_init pb Hcaps) Hft) as H.
  unfold sspF, ssp_runF. destruct (foldM _ _ _) as [s|e]; cbn [bind outF] in *; [|exact H].
  destruct H as (HI & HJ & Hcs). pose proof HI as (HG & _).
  destruct (j_pot pb s HJ) as (d & Hpot & _).
  apply (pot_optimal pb s d HG); [|exact Hpot].
  destruct HG as (Hsh & Hlr & Hpos & Hrs & Hrem).
  unfold pb_feasible, feasible, srcs_of, snks_of. split; [|split].
  - intros i Hi. apply in_seq in Hi. specialize (Hcs i ltac:(lia)). unfold colsum in Hcs. rewrite Hcs.
    cbn [alloc init_st]. unfold sent, plan_f.
    rewrite (zsum_ext _ (fun _ => 0)) by (intros; apply get2_zero_alloc). rewrite zsum_zero.
    unfold ind. assert (Ex : existsb (Nat.eqb i) (sorted_sources pb) = true).
    { apply existsb_exists. exists i. split; [|apply Nat.eqb_refl].
      eapply Permutation_in; [symmetry; exact Hperm|]. apply in_seq. lia. }
    rewrite Ex. lia.
  - intros j Hj. apply in_seq in Hj. specialize (Hrs j ltac:(lia)). specialize (Hrem j).
    unfold rowsum in Hrs. lia.
  - intros i j _ _. apply Hpos.
Qed.

(* [F] every plan returned by the line-by-line model ssp has minimum cost *)
Lemma ssp_optimal pb x :
  check_pb pb = true -> (forall j i, 0 <= cost pb j i < INT_MAX) -> total_demand pb <= total_capacity pb ->
  ssp pb = Ok x -> pb_optimal pb (plan_f x).
Proof.
  intros Hchk Hcost Hbal E. pose proof (sspF_spec pb tree_fuel Hchk Hcost Hbal) as H.
  rewrite ssp_is_sspF, E in H. exact H.
Qed.

(* [F] ssp returns an optimal plan, or the rounds that Ssp.v gives updateTree were not enough (whatever tree_fuel is);
   the chain walks never run out of fuel, no assertion fails, no empty queue is read.  Subsumed by ssp_returns. *)
Lemma ssp_returns_or_tree_fuel pb :
  check_pb pb = true -> (forall j i, 0 <= cost pb j i < INT_MAX) -> total_demand pb <= total_capacity pb ->
  (exists x, ssp pb = Ok x /\ pb_optimal pb (plan_f x)) \/ ssp pb = Fail (EFuel 483).
Proof.
  intros Hchk Hcost Hbal. pose proof (sspF_spec pb tree_fuel Hchk Hcost Hbal) as H.
  rewrite ssp_is_sspF in H. destruct (ssp pb) as [x|e]; [left; exists x; split; [reflexivity|exact H]|].
  right. destruct H as [-> _]. reflexivity.
Qed.

(* [F] total correctness with enough fuel for updateTree: a plan is returned, and it is optimal *)
Lemma sspF_total pb tf :
  check_pb pb = true -> (forall j i, 0 <= cost pb j i < INT_MAX) -> total_demand pb <= total_capacity pb ->
  (big_fuel (nsnk pb) <= tf (nsnk pb))%positive ->
  exists x, sspF tf pb = Ok x /\ pb_optimal pb (plan_f x).
Proof.
  intros Hchk Hcost Hbal Hbig. pose proof (sspF_spec pb tf Hchk Hcost Hbal) as H.
  destruct (sspF tf pb) as [x|e]; [exists x; split; [reflexivity|exact H]|]. destruct H as [_ H]. contradiction.
Qed.

(* a feasible plan exists only when total demand <= total capacity, so that hypothesis is implied by [ssp pb = Ok x] *)
Lemma feasible_balanced pb x : pb_feasible pb x -> total_demand pb <= total_capacity pb.
Proof.
  intros (Hs & Hl & _). unfold total_demand, total_capacity. rewrite !zsuml_zsum.
  fold (nsrc pb) (nsnk pb). fold (srcs_of pb) (snks_of pb).
  change (zsum (dem_f pb) (srcs_of pb) <= zsum (cap_f pb) (snks_of pb)).
  rewrite (zsum_ext (dem_f pb) (sent (snks_of pb) x)) by (intros i Hi; symmetry; apply Hs, Hi).
  unfold sent. rewrite zsum_swap.
  apply zsum_le. intros j Hj. apply (Hl j Hj).
Qed.

Lemma ssp_optimal_checked pb x :
  check_pb pb = true -> (forall j i, 0 <= cost pb j i < INT_MAX) -> ssp pb = Ok x -> pb_optimal pb (plan_f x).
Proof.
  intros Hchk Hcost E. apply ssp_optimal; try assumption.
  exact (feasible_balanced pb _ (ssp_feasible_checked pb x Hchk E)).
Qed.

(* [F] total correctness of ssp itself: tree_fuel is (at least) big_fuel *)
Lemma tree_fuel_big n : (big_fuel n <= tree_fuel n)%positive.
Proof. apply Pos.le_refl. Qed.

Lemma ssp_returns pb :
  check_pb pb = true -> (forall j i, 0 <= cost pb j i < INT_MAX) -> total_demand pb <= total_capacity pb ->
  exists x, ssp pb = Ok x /\ pb_optimal pb (plan_f x).
Proof.
  intros H1 H2 H3. rewrite <- ssp_is_sspF. apply sspF_total; try assumption. apply tree_fuel_big.
Qed.
