(* C15 part of the review-gap statements (umbrella: Properties_gaps2.v); every proof is `exact <lemma>`.
   To be merged by the lead into Properties_C15.v.  Labels: [F] all inputs.  Notes: design/review/gaps2.md. *)
From Coq Require Import List ZArith Lia Bool.
Import ListNotations.
Require Import CV.Orient CV.FreeSpace CV.FreeSpaceProofs CV.ReviewGaps2C15.
Local Open Scope Z_scope.

(* ================================================================ C15: compute_rows_circuit *)

(* [F] concatenation over the rows, in row order *)
Theorem c15_circuit_rows_concat : forall rows extra cells,
  compute_rows_circuit rows extra cells =
  flat_map (fun r => freespace_rows r (circuit_obstacles extra cells)) rows.
Proof. exact compute_rows_circuit_concat. Qed.
Theorem c15_circuit_rows_app : forall rows1 rows2 extra cells,
  compute_rows_circuit (rows1 ++ rows2) extra cells =
  compute_rows_circuit rows1 extra cells ++ compute_rows_circuit rows2 extra cells.
Proof. exact compute_rows_circuit_app. Qed.

(* [F] exactness for every circuit: column x is in a segment returned for row r iff it is a column of the
   non-degenerate row and neither an extra obstacle nor the PLACED outline (cell_placement: w/h swapped when
   the orientation is turned) of a cell with isFixed && isObstruction obstructs it.  The right-hand side does
   not mention movable cells or fixed non-obstructions: they are ignored. *)
Theorem c15_circuit_row_exact : forall r extra cells x,
  in_rows x (freespace_rows r (circuit_obstacles extra cells)) <->
  (minX (rr r) <= x < maxX (rr r) /\ minY (rr r) < maxY (rr r) /\
   (forall o, In o extra -> ~ rect_obstructs (rr r) x o) /\
   (forall c, In c cells -> ~ cell_obstructs (rr r) x c)).
Proof. exact circuit_row_exact. Qed.

(* [F] a segment of the result belongs to a row of the circuit; full height, orientation, inside the row *)
Theorem c15_circuit_segment_shape : forall rows extra cells s,
  In s (compute_rows_circuit rows extra cells) ->
  exists r, In r rows /\
    minY (rr s) = minY (rr r) /\ maxY (rr s) = maxY (rr r) /\ ro s = ro r /\
    minX (rr r) <= minX (rr s) /\ minX (rr s) < maxX (rr s) /\ maxX (rr s) <= maxX (rr r).
Proof. exact compute_rows_circuit_shape. Qed.

(* [F] "ignored cells" as a theorem: inserting/removing/changing a cell that is movable or flagged
   non-obstruction, anywhere in the cell list, leaves the result unchanged *)
Theorem c15_circuit_ignores_cell : forall rows extra cs1 cs2 (c : ccell),
  (match c with (_, _, _, _, _, fx, ob) => fx && ob end) = false ->
  compute_rows_circuit rows extra (cs1 ++ c :: cs2) = compute_rows_circuit rows extra (cs1 ++ cs2).
Proof. exact compute_rows_circuit_ignores. Qed.
Theorem c15_circuit_only_fixed_obstructions : forall rows extra cells,
  compute_rows_circuit rows extra cells =
  compute_rows_circuit rows extra
    (filter (fun c : ccell => match c with (_, _, _, _, _, fx, ob) => fx && ob end) cells).
Proof. exact compute_rows_circuit_only_fixed_obstructions. Qed.

(* [F] "turned outline": what cell_obstructs means for turned / unturned fixed obstructions *)
Theorem c15_turned_outline : forall rw x cx cy w h o, is_turn o = true ->
  (cell_obstructs rw x (cx, cy, w, h, o, true, true) <->
   0 < h /\ 0 < w /\ cy < maxY rw /\ minY rw < cy + w /\ cx <= x < cx + h).
Proof. exact cell_obstructs_turned. Qed.
Theorem c15_unturned_outline : forall rw x cx cy w h o, is_turn o = false ->
  (cell_obstructs rw x (cx, cy, w, h, o, true, true) <->
   0 < w /\ 0 < h /\ cy < maxY rw /\ minY rw < cy + h /\ cx <= x < cx + w).
Proof. exact cell_obstructs_unturned. Qed.

Example c15_circuit_nonvacuous :
  map (fun s => (minX (rr s), maxX (rr s), minY (rr s)))
   (compute_rows_circuit
     [ {| rr := {| minX := 0; maxX := 10; minY := 0; maxY := 2 |}; ro := oN |};
       {| rr := {| minX := 0; maxX := 10; minY := 2; maxY := 4 |}; ro := oFS |} ]
     [ {| minX := 8; maxX := 9; minY := 3; maxY := 5 |} ]
     [ (2, 0, 1, 4, oE, true, true); (5, 0, 2, 2, oN, false, true); (6, 0, 2, 2, oN, true, false) ])
  = [(0, 2, 0); (6, 10, 0); (0, 8, 2); (9, 10, 2)].
Proof. exact compute_rows_circuit_nonvacuous. Qed.

Print Assumptions c15_circuit_rows_concat.
Print Assumptions c15_circuit_rows_app.
Print Assumptions c15_circuit_row_exact.
Print Assumptions c15_circuit_segment_shape.
Print Assumptions c15_circuit_ignores_cell.
Print Assumptions c15_circuit_only_fixed_obstructions.
Print Assumptions c15_turned_outline.
Print Assumptions c15_unturned_outline.
