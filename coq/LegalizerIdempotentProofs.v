(* C11: the RAW legalizer model does not move an already legal placement of row-high cells.
   When the cells are handed to the Abacus pass so that, within each segment, they come
   left to right (what Legalizer::computeCellOrder does for an ordering width in [0,1]:
   RowLegFixProofs.order_key_preserved), every cell is put back on its own segment at
   cost 0 and read back at its own coordinates. *)
From Coq Require Import List ZArith Lia Bool Arith.
Import ListNotations.
Require Import CV.Orient CV.FreeSpace CV.FreeSpaceProofs CV.RowLeg CV.RowLegProofs CV.RowLegFixProofs
               CV.Circuit CV.CircuitProofs CV.Legalizer CV.LegalizerProofs CV.LegalizerAbacusProofs
               CV.LegalizerSoundProofs CV.LegalizerTrivialProofs.
Require CV.RowLegOptProofs.
Local Open Scope Z_scope.

(* ------------------------------------------------------------------ *)
(* the single-row legalizer: a quoted cost is never negative, and it is 0 only when the
   target itself fits between the cells already there and the end of the segment *)
Lemma cost_lower s w t :
  sorted_q (bounds s) -> RowLegOptProofs.qinv s -> 0 <= used s -> 0 < w -> w <= remaining_space s ->
  0 <= snd (get_cost s w t) /\
  (snd (get_cost s w t) = 0 -> rbegin s + used s <= t /\ t + w <= rend s).
Proof.
  intros Hs Hq Hu Hw Hfit. rewrite query_predicts_push.
  pose proof (RowLegOptProofs.push_spec s w t Hs Hq Hu Hw Hfit) as H. cbv zeta in H.
  destruct H as (final & Eb & Ee & _ & _ & Eu & Hfr & K1 & _ & [Hq1 _]).
  specialize (K1 (rend s - used s - w) ltac:(lia)).
  rewrite Z.min_r in K1 by lia.
  rewrite RowLegOptProofs.R_zero in K1.
  2:{ eapply Forall_impl; [|exact Hq1]. cbn beta. intros x Hx. rewrite Ee, Eu in Hx. lia. }
  pose proof (RowLegOptProofs.R_nonneg (bounds s) final (proj2 Hq)) as Hn.
  set (ret := snd (push s w t)) in *. set (R0 := RowLegOptProofs.R (bounds s) final) in *. clearbody ret R0.
  split; [nia|]. intros ->.
  assert (final = t - used s) by nia. lia.
Qed.

Lemma push_qinv s w t :
  sorted_q (bounds s) -> RowLegOptProofs.qinv s -> 0 <= used s -> 0 < w -> w <= remaining_space s ->
  RowLegOptProofs.qinv (fst (push s w t)).
Proof.
  intros Hs Hq Hu Hw Hfit.
  pose proof (RowLegOptProofs.push_spec s w t Hs Hq Hu Hw Hfit) as H. cbv zeta in H.
  destruct H as (final & _ & _ & _ & _ & _ & _ & _ & _ & H). exact H.
Qed.

(* one conflict-free insertion: the state stays "explicitly described" *)
Lemma reach_push b e s done_ T w t :
  reach b e s done_ -> J s T -> 0 < w -> T <= t - used s -> t + w <= e ->
  reach b e (fst (push s w t)) (done_ ++ [(w, t)]).
Proof.
  intros [Rb Re Rw Ru Rlen Rpl Rdec] HJ Hw HT He.
  assert (He' : t + w <= rend s) by (rewrite Re; exact He).
  destruct (push_fix s T w t HJ Hw HT He') as (C0 & Ccp & Cw & Cu & Cb & Ce & CJ). cbn zeta in *.
  set (s1 := fst (push s w t)) in *.
  destruct HJ as (_ & _ & HJc).
  constructor.
  - congruence.
  - congruence.
  - rewrite Cw, Rw, map_app, rev_app_distr. reflexivity.
  - rewrite Cu, Ru, map_app, sum_app. cbn. lia.
  - rewrite Ccp, app_length. cbn. lia.
  - unfold placement in *. rewrite Ccp, Cw, Cu.
    assert (Hlen : length (cpos s) = length (widths s)) by (rewrite Rw, rev_length, map_length; exact Rlen).
    rewrite (placement_aux_fix ((t - used s) :: cpos s) (w :: widths s) (used s + w) None I).
    + rewrite pos_explicit_snoc by exact Hlen.
      rewrite <- (placement_aux_fix (cpos s) (widths s) (used s) None I Rdec Hlen).
      rewrite Rpl, map_app. cbn. f_equal. f_equal. lia.
    + split; [|exact Rdec]. eapply Forall_impl; [|exact HJc]. cbn. intros c Hc. lia.
    + cbn. lia.
  - rewrite Ccp. split; [|exact Rdec].
    eapply Forall_impl; [|exact HJc]. cbn. intros c Hc. lia.
Qed.

(* ------------------------------------------------------------------ *)
(* sort_rows sorts by minY; closestRow of the y of a row is the first segment at that y *)

Fixpoint sortedY (l : list row) : Prop :=
  match l with [] => True | x :: l' => Forall (fun y => minY (rr x) <= minY (rr y)) l' /\ sortedY l' end.

Lemma insert_row_sortedY r l : sortedY l -> sortedY (insert_row r l).
Proof.
  induction l as [|x l IH]; cbn [insert_row sortedY]; [intros _; split; [constructor|exact I]|].
  intros [Hx Hl]. destruct (_ || _) eqn:E.
  - cbn [sortedY]. split; [|split; assumption].
    assert (Hrx : minY (rr r) <= minY (rr x)).
    { apply orb_true_iff in E as [E|E]; [apply Z.ltb_lt in E; lia|].
      apply andb_true_iff in E as [E _]. apply Z.eqb_eq in E. lia. }
    constructor; [exact Hrx|]. eapply Forall_impl; [|exact Hx]. cbn beta. intros y Hy. lia.
  - cbn [sortedY]. split; [|apply IH; exact Hl].
    apply orb_false_iff in E as [E1 E2]. apply Z.ltb_ge in E1.
    apply Forall_forall. intros y Hy. apply insert_row_In in Hy as [->|Hy]; [exact E1|].
    rewrite Forall_forall in Hx. apply Hx. exact Hy.
Qed.

Lemma sort_rows_sortedY l : sortedY (sort_rows l).
Proof.
  induction l as [|x l IH]; cbn [sort_rows fold_right]; [exact I|]. fold (sort_rows l).
  apply insert_row_sortedY. exact IH.
Qed.

Lemma sortedY_nth l : sortedY l -> forall i j ri rj, (i <= j)%nat ->
  nth_error l i = Some ri -> nth_error l j = Some rj -> minY (rr ri) <= minY (rr rj).
Proof.
  induction l as [|x l IH]; intros Hs i j ri rj Hij Hi Hj; [destruct i; discriminate|].
  destruct Hs as [Hx Hl]. destruct i as [|i], j as [|j]; cbn [nth_error] in Hi, Hj; try lia.
  - injection Hi as <-. injection Hj as <-. lia.
  - injection Hi as <-. rewrite Forall_forall in Hx. apply Hx. eapply nth_error_In; exact Hj.
  - apply (IH Hl i j); try assumption. lia.
Qed.

Lemma lower_bound_spec y : forall rows i0, exists k : nat,
  lower_bound rows y i0 = i0 + Z.of_nat k /\ (k <= length rows)%nat /\
  (forall j r, (j < k)%nat -> nth_error rows j = Some r -> minY (rr r) < y) /\
  (forall r, nth_error rows k = Some r -> y <= minY (rr r)).
Proof.
  induction rows as [|x rows IH]; intros i0; cbn [lower_bound].
  - exists O. split; [lia|]. split; [cbn; lia|]. split; [intros j r Hj; lia|intros r H; discriminate].
  - destruct (minY (rr x) <? y) eqn:E.
    + destruct (IH (i0 + 1)) as (k & H1 & H2 & H3 & H4). exists (S k). split; [lia|]. split; [cbn; lia|]. split.
      * intros [|j] r Hj; cbn [nth_error]; [intros [= <-]; apply Z.ltb_lt; exact E|]. apply H3. lia.
      * cbn [nth_error]. exact H4.
    + exists O. split; [lia|]. split; [cbn; lia|]. split; [intros j r Hj; lia|].
      cbn [nth_error]. intros r [= <-]. apply Z.ltb_ge. exact E.
Qed.

Lemma closest_row_own rows y o r :
  sortedY rows -> nth_error rows o = Some r -> minY (rr r) = y ->
  exists k : nat, closest_row rows y = Z.of_nat k /\ (k <= o)%nat /\
    forall i ri, (k <= i <= o)%nat -> nth_error rows i = Some ri -> minY (rr ri) = y.
Proof.
  intros Hs Ho Hy. destruct (lower_bound_spec y rows 0) as (k & Hk & Hkl & Hlt & Hge).
  assert (Hko : (k <= o)%nat).
  { destruct (le_lt_dec k o) as [H|H]; [exact H|]. specialize (Hlt o r H Ho). lia. }
  assert (Hon : (o < length rows)%nat) by (apply nth_error_Some; congruence).
  destruct (nth_error rows k) as [rk|] eqn:Ek; [|apply nth_error_None in Ek; lia].
  assert (Hyk : minY (rr rk) = y).
  { pose proof (Hge rk eq_refl). pose proof (sortedY_nth rows Hs k o rk r Hko Ek Ho). lia. }
  exists k. split; [|split; [exact Hko|]].
  - unfold closest_row. rewrite Hk. cbn [Z.add].
    replace (Z.of_nat k =? Z.of_nat (length rows)) with false by (symmetry; apply Z.eqb_neq; lia).
    destruct (Z.of_nat k =? 0) eqn:E0; [apply Z.eqb_eq in E0; lia|]. apply Z.eqb_neq in E0.
    rewrite nthZ_of_nat, Ek. replace (Z.of_nat k - 1) with (Z.of_nat (k - 1)) by lia.
    rewrite nthZ_of_nat. destruct (nth_error rows (k - 1)) as [rp|] eqn:Ep; [|reflexivity].
    assert (minY (rr rp) < y) by (apply (Hlt (k - 1)%nat rp); [lia|exact Ep]).
    replace (y - minY (rr rp) <? minY (rr rk) - y) with false by (symmetry; apply Z.ltb_ge; lia).
    lia.
  - intros i ri [Hi1 Hi2] Hi.
    pose proof (sortedY_nth rows Hs k i rk ri Hi1 Ek Hi). pose proof (sortedY_nth rows Hs i o ri r Hi2 Hi Ho). lia.
Qed.

Lemma zrange_cons a b : a < b -> zrange a b = a :: zrange (a + 1) b.
Proof.
  intros H. unfold zrange. replace (Z.to_nat (b - a)) with (S (Z.to_nat (b - (a + 1)))) by lia.
  cbn [seq map]. f_equal; [lia|]. rewrite <- seq_shift, map_map. apply map_ext. intros k. lia.
Qed.

Lemma nth_error_combine_In {A B} (l : list A) (l' : list B) k a b :
  nth_error l k = Some a -> nth_error l' k = Some b -> In (a, b) (combine l l').
Proof.
  revert l' k. induction l as [|x l IH]; intros [|y l'] [|k]; cbn [nth_error combine In]; try discriminate.
  - intros [= ->] [= ->]. left. reflexivity.
  - intros H1 H2. right. eapply IH; eassumption.
Qed.

(* ------------------------------------------------------------------ *)
(* the Abacus loop on cells that already sit, left to right, inside the segments *)

(* cell c, at its target, lies inside segment r *)
Definition sits (c : cell) (r : row) : Prop :=
  minY (rr r) = cty c /\ minX (rr r) <= ctx c /\ ctx c + cw c <= maxX (rr r).

Definition dcell : cell := {| cw := 0; ch := 0; cpol := pANY; ctx := 0; cty := 0; cor := oN |}.

Section Fix.
Variable rows : list row.
Variable cells : list cell.
Variable rh : Z.
Hypothesis Hrh : 0 < rh.
Hypothesis Hsorted : sortedY rows.
Hypothesis Hheight : forall r, In r rows -> maxY (rr r) - minY (rr r) = rh.
Hypothesis Hne : forall r, In r rows -> minX (rr r) <= maxX (rr r).
Hypothesis Hpd : pairwise_disjoint (map rr rows).
Hypothesis Hcells : forall m c, nth_error cells m = Some c ->
  0 < cw c /\ ch c = rh /\ exists r, In r rows /\ sits c r /\ seg_orientation c r <> oINVALID.
(* within a segment the cells come left to right *)
Hypothesis Horder : forall m m' c c' r, (m < m')%nat ->
  nth_error cells m = Some c -> nth_error cells m' = Some c' ->
  In r rows -> sits c r -> sits c' r -> ctx c + cw c <= ctx c'.

Definition cellat (ci : nat) : cell := nth ci cells dcell.
Definition wt (ci : nat) : Z * Z := (cw (cellat ci), ctx (cellat ci)).

Lemma cellat_nth ci c : nth_error cells ci = Some c -> cellat ci = c.
Proof. intros H. unfold cellat. apply nth_error_nth. exact H. Qed.

(* state of one segment after the first n cells: the cells recorded are exactly at their
   targets (reach), the next conflict-free target is to the right of the frontier F *)
Definition frow (n : nat) (r : row) (lg : rl) (rc : list nat) : Prop :=
  Inv lg /\ RowLegOptProofs.qinv lg /\
  reach (minX (rr r)) (maxX (rr r)) lg (map wt rc) /\
  (exists F, J lg (F - used lg) /\
     forall m c', (n <= m)%nat -> nth_error cells m = Some c' -> sits c' r -> F <= ctx c') /\
  (forall ci, In ci rc -> (ci < n)%nat /\ sits (cellat ci) r).

Record FInv (legs : list rl) (rcs : list (list nat)) (n : nat) : Prop := {
  fi_len1 : length legs = length rows;
  fi_len2 : length rcs = length rows;
  fi_row : forall i r lg rc, nth_error rows i = Some r -> nth_error legs i = Some lg ->
                             nth_error rcs i = Some rc -> frow n r lg rc;
  fi_all : forall ci, (ci < n)%nat -> exists i rc, nth_error rcs i = Some rc /\ In ci rc }.

Lemma f_init : FInv (map (fun r => rl_init (minX (rr r)) (maxX (rr r))) rows) (map (fun _ => @nil nat) rows) 0.
Proof.
  clear Hrh Hsorted Hheight Hpd Hcells Horder. constructor.
  - apply map_length.
  - apply map_length.
  - intros i r lg rc Hr Hl Hrc.
    rewrite (map_nth_error _ _ _ Hr) in Hl. injection Hl as <-.
    rewrite (map_nth_error _ _ _ Hr) in Hrc. injection Hrc as <-.
    pose proof (Hne r (nth_error_In _ _ Hr)) as Hbe.
    split; [apply init_inv; exact Hbe|]. split; [split; constructor|]. split; [|split].
    + constructor; reflexivity || exact I.
    + exists (minX (rr r)). split.
      * unfold J, rl_init. cbn. split; [lia|split; constructor].
      * intros m c' _ _ (_ & H & _). exact H.
    + intros ci [].
  - intros ci H. lia.
Qed.

Lemma frow_weaken n r lg rc : frow n r lg rc -> frow (S n) r lg rc.
Proof.
  intros (H1 & H2 & H3 & (F & HJ & HF) & H5). split; [exact H1|]. split; [exact H2|]. split; [exact H3|]. split.
  - exists F. split; [exact HJ|]. intros m c' Hm. apply HF. lia.
  - intros ci Hci. destruct (H5 ci Hci). split; [lia|assumption].
Qed.

(* what the scan needs to know about any segment *)
Lemma leg_facts legs rcs n i r lg :
  FInv legs rcs n -> nthZ rows i = Some r -> nthZ legs i = Some lg ->
  sorted_q (bounds lg) /\ RowLegOptProofs.qinv lg /\ 0 <= used lg /\
  rbegin lg = minX (rr r) /\ rend lg = maxX (rr r).
Proof.
  intros HI Hr Hl. apply nthZ_Some in Hr as [_ Hr]. apply nthZ_Some in Hl as [_ Hl].
  assert (Hil : (Z.to_nat i < length rcs)%nat).
  { rewrite (fi_len2 _ _ _ HI), <- (fi_len1 _ _ _ HI). apply nth_error_Some. congruence. }
  destruct (nth_error rcs (Z.to_nat i)) as [rc|] eqn:Erc; [|apply nth_error_None in Erc; lia].
  destruct (fi_row _ _ _ HI _ _ _ _ Hr Hl Erc) as ((_ & _ & Hu & Hs) & Hq & [Rb Re _ _ _ _ _] & _).
  repeat split; try assumption. apply Hq. apply Hq.
Qed.

Section OneCell.
Variables (legs : list rl) (rcs : list (list nat)) (n : nat) (c : cell) (o : nat) (ro : row).
Hypothesis HI : FInv legs rcs n.
Hypothesis Hc : nth_error cells n = Some c.
Hypothesis Ho : nth_error rows o = Some ro.
Hypothesis Hsit : sits c ro.
Hypothesis Hor : seg_orientation c ro <> oINVALID.

Let Hw : 0 < cw c. Proof. apply (Hcells n c Hc). Qed.
Let Hch : ch c = rh. Proof. apply (Hcells n c Hc). Qed.

(* once the own segment has been taken at cost 0 nothing replaces it *)
Lemma a_try_fixed i : snd (a_try rows legs c i (Z.of_nat o, 0)) = (Z.of_nat o, 0).
Proof.
  unfold a_try.
  destruct (nthZ rows i) as [r|] eqn:Er; [|reflexivity].
  destruct (nthZ legs i) as [lg|] eqn:El; [|reflexivity].
  destruct (negb (maxY (rr r) - minY (rr r) =? ch c)); [reflexivity|].
  destruct (negb (Z.of_nat o =? -1) && (0 <? cw c * Z.abs (minY (rr r) - cty c))); [reflexivity|].
  destruct (remaining_space lg <? cw c) eqn:Es; [reflexivity|]. apply Z.ltb_ge in Es.
  destruct (get_orientation rows c i) as [oo|]; [|reflexivity].
  destruct (orient_eqb oo oINVALID); [reflexivity|].
  destruct (leg_facts _ _ _ _ _ _ HI Er El) as (Hs & Hq & Hu & _).
  destruct (cost_lower lg (cw c) (ctx c) Hs Hq Hu Hw Es) as [Hnn _].
  replace (Z.of_nat o =? -1) with false by (symmetry; apply Z.eqb_neq; lia). cbn [orb].
  assert (0 <= cw c * Z.abs (minY (rr r) - cty c)) by nia.
  replace (_ <? 0) with false by (symmetry; apply Z.ltb_ge; lia). reflexivity.
Qed.

Lemma a_scan_fixed idx : a_scan rows legs c idx (Z.of_nat o, 0) = (Z.of_nat o, 0).
Proof.
  induction idx as [|i idx IH]; cbn [a_scan]; [reflexivity|].
  pose proof (a_try_fixed i) as H. destruct (a_try rows legs c i (Z.of_nat o, 0)) as [stop st']. cbn [snd] in H.
  subst st'. destruct stop; [reflexivity|exact IH].
Qed.

(* no candidate yet, or a candidate of positive cost *)
Definition openst (st : Z * Z) : Prop := fst st = -1 \/ 0 < snd st.

(* another segment at the same y: never stops the sweep, and if taken it costs > 0 *)
Lemma a_try_sameY i ri st :
  nth_error rows i = Some ri -> i <> o -> minY (rr ri) = cty c -> openst st ->
  exists st', a_try rows legs c (Z.of_nat i) st = (false, st') /\ openst st'.
Proof.
  intros Hi Hio Hy Hst. destruct st as [bestRow bestDist]. unfold a_try. rewrite nthZ_of_nat, Hi.
  destruct (nthZ legs (Z.of_nat i)) as [lg|] eqn:El; [|eexists; split; [reflexivity|exact Hst]].
  destruct (negb (maxY (rr ri) - minY (rr ri) =? ch c)); [eexists; split; [reflexivity|exact Hst]|].
  replace (cw c * Z.abs (minY (rr ri) - cty c)) with 0 by (rewrite Hy, Z.sub_diag; cbn; lia).
  replace (negb (bestRow =? -1) && (bestDist <? 0)) with false.
  2:{ symmetry. destruct Hst as [H|H]; cbn [fst snd] in H.
      - subst bestRow. reflexivity.
      - apply andb_false_iff. right. apply Z.ltb_ge. lia. }
  destruct (remaining_space lg <? cw c) eqn:Es; [eexists; split; [reflexivity|exact Hst]|]. apply Z.ltb_ge in Es.
  destruct (get_orientation rows c (Z.of_nat i)) as [oo|]; [|eexists; split; [reflexivity|exact Hst]].
  destruct (orient_eqb oo oINVALID); [eexists; split; [reflexivity|exact Hst]|].
  destruct ((bestRow =? -1) || (_ <? bestDist)); [|eexists; split; [reflexivity|exact Hst]].
  eexists. split; [reflexivity|]. right. cbn [snd].
  assert (Hri : nthZ rows (Z.of_nat i) = Some ri) by (rewrite nthZ_of_nat; exact Hi).
  destruct (leg_facts _ _ _ _ _ _ HI Hri El) as (Hs & Hq & Hu & Hb & He).
  destruct (cost_lower lg (cw c) (ctx c) Hs Hq Hu Hw Es) as [Hnn Hz].
  destruct (Z.eq_dec (snd (get_cost lg (cw c) (ctx c))) 0) as [E0|E0]; [exfalso|lia].
  destruct (Hz E0) as [Z1 Z2]. rewrite Hb in Z1. rewrite He in Z2.
  pose proof (pd_nth _ Hpd i o (rr ri) (rr ro) Hio (map_nth_error rr _ _ Hi) (map_nth_error rr _ _ Ho)) as D.
  pose proof (Hheight ri (nth_error_In _ _ Hi)). pose proof (Hheight ro (nth_error_In _ _ Ho)).
  destruct Hsit as (S1 & S2 & S3). unfold disjoint_rects in D. lia.
Qed.

(* the own segment: accepted at cost 0 *)
Lemma own_leg : exists lg rc, nth_error legs o = Some lg /\ nth_error rcs o = Some rc /\ frow n ro lg rc.
Proof.
  assert (Hon : (o < length rows)%nat) by (apply nth_error_Some; congruence).
  destruct (nth_error legs o) as [lg|] eqn:El; [|apply nth_error_None in El; rewrite (fi_len1 _ _ _ HI) in El; lia].
  destruct (nth_error rcs o) as [rc|] eqn:Erc; [|apply nth_error_None in Erc; rewrite (fi_len2 _ _ _ HI) in Erc; lia].
  exists lg, rc. split; [reflexivity|]. split; [reflexivity|]. exact (fi_row _ _ _ HI _ _ _ _ Ho El Erc).
Qed.

Lemma own_fits lg rc : frow n ro lg rc ->
  exists T, J lg T /\ T <= ctx c - used lg /\ ctx c + cw c <= rend lg /\ cw c <= remaining_space lg.
Proof.
  intros (_ & _ & [Rb Re _ _ _ _ _] & (F & HJ & HF) & _).
  specialize (HF n c (le_n n) Hc Hsit). destruct Hsit as (S1 & S2 & S3).
  exists (F - used lg). split; [exact HJ|]. split; [lia|]. split; [lia|].
  destruct HJ as (HJb & _). unfold remaining_space. lia.
Qed.

Lemma a_try_own st : openst st -> a_try rows legs c (Z.of_nat o) st = (false, (Z.of_nat o, 0)).
Proof.
  intros Hst. destruct st as [bestRow bestDist]. unfold a_try. rewrite nthZ_of_nat, Ho.
  destruct own_leg as (lg & rc & El & Erc & Hf). rewrite nthZ_of_nat, El.
  destruct (own_fits lg rc Hf) as (T & HJ & HT & He & Hrem).
  replace (negb (maxY (rr ro) - minY (rr ro) =? ch c)) with false.
  2:{ symmetry. apply negb_false_iff, Z.eqb_eq. rewrite Hch. apply Hheight. eapply nth_error_In; exact Ho. }
  destruct Hsit as (S1 & S2 & S3).
  replace (cw c * Z.abs (minY (rr ro) - cty c)) with 0 by (rewrite S1, Z.sub_diag; cbn; lia).
  replace (negb (bestRow =? -1) && (bestDist <? 0)) with false.
  2:{ symmetry. destruct Hst as [H|H]; cbn [fst snd] in H.
      - subst bestRow. reflexivity.
      - apply andb_false_iff. right. apply Z.ltb_ge. lia. }
  replace (remaining_space lg <? cw c) with false by (symmetry; apply Z.ltb_ge; exact Hrem).
  assert (Hgo : get_orientation rows c (Z.of_nat o) = Some (seg_orientation c ro)).
  { unfold get_orientation. rewrite nthZ_of_nat, Ho. reflexivity. }
  rewrite Hgo. replace (orient_eqb (seg_orientation c ro) oINVALID) with false.
  2:{ symmetry. destruct (orient_eqb _ oINVALID) eqn:E; [|reflexivity]. apply orient_eqb_eq in E. contradiction. }
  assert (Hcost : snd (get_cost lg (cw c) (ctx c)) = 0).
  { rewrite query_predicts_push. destruct (push_fix lg T (cw c) (ctx c) HJ Hw HT He) as (C0 & _). exact C0. }
  rewrite Hcost. cbn [Z.add].
  replace ((bestRow =? -1) || (0 <? bestDist)) with true; [reflexivity|].
  symmetry. destruct Hst as [H|H]; cbn [fst snd] in H.
  - subst bestRow. reflexivity.
  - apply orb_true_iff. right. apply Z.ltb_lt. exact H.
Qed.

(* the upward sweep from the first segment at the cell's y *)
Lemma a_scan_first d : forall k st, o = (k + d)%nat ->
  (forall i ri, (k <= i <= o)%nat -> nth_error rows i = Some ri -> minY (rr ri) = cty c) ->
  openst st ->
  a_scan rows legs c (zrange (Z.of_nat k) (Z.of_nat (length rows))) st = (Z.of_nat o, 0).
Proof.
  assert (Hon : (o < length rows)%nat) by (apply nth_error_Some; congruence).
  induction d as [|d IH]; intros k st Hk Hy Hst.
  - assert (k = o) by lia. subst k. rewrite zrange_cons by lia. cbn [a_scan].
    rewrite (a_try_own st Hst). apply a_scan_fixed.
  - rewrite zrange_cons by lia. cbn [a_scan].
    destruct (nth_error rows k) as [rk|] eqn:Ek; [|apply nth_error_None in Ek; lia].
    destruct (a_try_sameY k rk st Ek ltac:(lia) (Hy k rk ltac:(lia) Ek) Hst) as (st' & Et & Hst').
    rewrite Et. replace (Z.of_nat k + 1) with (Z.of_nat (S k)) by lia.
    apply IH; [lia| |exact Hst']. intros i ri Hi. apply Hy. lia.
Qed.

(* placeCell puts the cell back on its own segment *)
Lemma a_place_own :
  exists lg rc, nth_error legs o = Some lg /\ nth_error rcs o = Some rc /\
    a_place rows legs rcs n c = (upd legs o (fst (push lg (cw c) (ctx c))), upd rcs o (rc ++ [n]), true).
Proof.
  destruct own_leg as (lg & rc & El & Erc & Hf). exists lg, rc. split; [exact El|]. split; [exact Erc|].
  unfold a_place.
  destruct (closest_row_own rows (cty c) o ro Hsorted Ho (proj1 Hsit)) as (k & Hk & Hko & Hy).
  rewrite Hk. rewrite (a_scan_first (o - k) k (-1, 9223372036854775807)); [|lia|exact Hy|left; reflexivity].
  rewrite a_scan_fixed.
  replace (Z.of_nat o =? -1) with false by (symmetry; apply Z.eqb_neq; lia).
  rewrite !nthZ_of_nat, El, Erc, Nat2Z.id. reflexivity.
Qed.

Lemma f_step legs' rcs' b :
  a_place rows legs rcs n c = (legs', rcs', b) -> FInv legs' rcs' (S n).
Proof.
  destruct a_place_own as (lg & rc & El & Erc & Hp). rewrite Hp. intros [= <- <- <-].
  pose proof (fi_row _ _ _ HI _ _ _ _ Ho El Erc) as Hf.
  destruct (own_fits lg rc Hf) as (T & HJ & HT & He & Hrem).
  assert (Hol : (o < length legs)%nat) by (apply nth_error_Some; congruence).
  assert (Hor' : (o < length rcs)%nat) by (apply nth_error_Some; congruence).
  constructor.
  - rewrite upd_length. exact (fi_len1 _ _ _ HI).
  - rewrite upd_length. exact (fi_len2 _ _ _ HI).
  - intros i r lg' rc' Hr Hl Hrc.
    apply nth_error_upd_inv in Hl as [[-> ->]|[Hnio Hl]].
    + rewrite nth_error_upd_eq in Hrc by exact Hor'. injection Hrc as <-.
      rewrite Ho in Hr. injection Hr as <-.
      destruct Hf as (HInv & Hq & Hreach & _ & Hmem).
      pose proof HInv as (_ & _ & Hu & Hs).
      destruct (push_fix lg T (cw c) (ctx c) HJ Hw HT He) as (_ & _ & _ & Cu & _ & _ & CJ). cbn zeta in Cu, CJ.
      split; [apply push_inv; assumption|]. split; [apply push_qinv; assumption|]. split; [|split].
      * rewrite map_app. cbn [map]. unfold wt at 2. rewrite (cellat_nth n c Hc).
        pose proof Hreach as [_ Re _ _ _ _ _]. rewrite Re in He.
        eapply reach_push; eassumption.
      * exists (ctx c + cw c). split.
        -- replace (ctx c + cw c - used (fst (push lg (cw c) (ctx c)))) with (ctx c - used lg) by (rewrite Cu; lia).
           exact CJ.
        -- intros m c' Hm Hc' Hs'. apply (Horder n m c c' ro); try assumption; try lia. eapply nth_error_In; exact Ho.
      * intros ci Hci. apply in_app_iff in Hci as [Hci|[<-|[]]].
        -- destruct (Hmem ci Hci). split; [lia|assumption].
        -- split; [lia|]. rewrite (cellat_nth n c Hc). exact Hsit.
    + rewrite nth_error_upd_neq in Hrc by congruence. apply frow_weaken. eapply (fi_row _ _ _ HI); eassumption.
  - intros ci Hci. destruct (Nat.eq_dec ci n) as [->|Hcin].
    + exists o, (rc ++ [n]). split; [apply nth_error_upd_eq; exact Hor'|]. apply in_or_app. right. left. reflexivity.
    + destruct (fi_all _ _ _ HI ci) as (i & rc' & Hi & Hin); [lia|].
      destruct (Nat.eq_dec i o) as [->|Hni].
      * rewrite Erc in Hi. injection Hi as <-. exists o, (rc ++ [n]).
        split; [apply nth_error_upd_eq; exact Hor'|]. apply in_or_app. left. exact Hin.
      * exists i, rc'. split; [|exact Hin]. rewrite nth_error_upd_neq by congruence. exact Hi.
Qed.
End OneCell.

Lemma f_loop cs : forall pre legs rcs,
  cells = pre ++ cs -> FInv legs rcs (length pre) ->
  forall legs' rcs' n', fold_left (a_step rows) cs (legs, rcs, length pre) = (legs', rcs', n') ->
  FInv legs' rcs' (length cells).
Proof.
  induction cs as [|c cs IH]; intros pre legs rcs Hsplit HI legs' rcs' n'; cbn [fold_left].
  - intros [= <- <- <-]. rewrite Hsplit, app_nil_r. exact HI.
  - unfold a_step at 2. destruct (a_place rows legs rcs (length pre) c) as [[legs1 rcs1] b] eqn:Ep.
    assert (Hc : nth_error cells (length pre) = Some c).
    { rewrite Hsplit, nth_error_app2 by lia. rewrite Nat.sub_diag. reflexivity. }
    destruct (Hcells _ _ Hc) as (_ & _ & ro & Hro & Hsit & Hor). apply In_nth_error in Hro as [o Ho].
    pose proof (f_step legs rcs (length pre) c o ro HI Hc Ho Hsit Hor legs1 rcs1 b Ep) as HI1.
    replace (S (length pre)) with (length (pre ++ [c])) in * by (rewrite app_length; cbn; lia).
    apply IH; [rewrite <- app_assoc; exact Hsplit|exact HI1].
Qed.

(* the read-back returns every cell at its own coordinates *)
Lemma f_fill legs rcs m c :
  FInv legs rcs (length cells) -> nth_error cells m = Some c ->
  exists r, In r rows /\ sits c r /\
    nth_error (a_fill rows cells 0 rows legs rcs (map (fun _ => @None (Z * Z * orient)) cells)) m
    = Some (Some (ctx c, cty c, seg_orientation c r)).
Proof.
  clear Hrh Hsorted Hheight Hne Hpd Hcells Horder. intros HI Hc.
  assert (Hm : (m < length cells)%nat) by (apply nth_error_Some; congruence).
  (* the value, if any, is the target *)
  assert (Hval : forall v, nth_error (a_fill rows cells 0 rows legs rcs (map (fun _ => @None (Z * Z * orient)) cells)) m = Some (Some v) ->
            exists r, In r rows /\ sits c r /\ v = (ctx c, cty c, seg_orientation c r)).
  { intros v Hv. apply a_fill_spec in Hv as [Hv|(j & r & lg & rc & H1 & H2 & H3 & (k & x & c0 & oo & K1 & K2 & K3 & K4 & K5))].
    - exfalso. eapply st0_none; exact Hv.
    - rewrite Hc in K3. injection K3 as <-.
      destruct (fi_row _ _ _ HI _ _ _ _ H1 H2 H3) as (_ & _ & [_ _ _ _ _ Rpl _] & _ & Hmem).
      destruct (Hmem m (nth_error_In _ _ K1)) as [_ Hs]. rewrite (cellat_nth m c Hc) in Hs.
      exists r. split; [eapply nth_error_In; exact H1|]. split; [exact Hs|].
      rewrite Rpl, map_map in K2. rewrite (map_nth_error _ _ _ K1) in K2. injection K2 as <-.
      cbn [Z.add] in K4. unfold get_orientation in K4. rewrite nthZ_of_nat, H1 in K4. injection K4 as <-.
      destruct Hs as (S1 & _). rewrite K5. unfold wt. cbn [snd]. rewrite (cellat_nth m c Hc), S1. reflexivity. }
  (* there is a value *)
  destruct (fi_all _ _ _ HI m Hm) as (i & rc & Hi & Hin).
  assert (Hil : (i < length rows)%nat) by (rewrite <- (fi_len2 _ _ _ HI); apply nth_error_Some; congruence).
  destruct (nth_error rows i) as [r|] eqn:Er; [|apply nth_error_None in Er; lia].
  destruct (nth_error legs i) as [lg|] eqn:El; [|apply nth_error_None in El; rewrite (fi_len1 _ _ _ HI) in El; lia].
  destruct (fi_row _ _ _ HI _ _ _ _ Er El Hi) as (_ & _ & [_ _ _ _ _ Rpl _] & _ & _).
  apply In_nth_error in Hin as [k Hk].
  assert (Hx : nth_error (placement lg) k = Some (snd (wt m))).
  { rewrite Rpl, map_map. apply (map_nth_error (fun x => snd (wt x))). exact Hk. }
  destruct (a_fill_some rows cells rows 0 legs rcs (map (fun _ => @None (Z * Z * orient)) cells) m) as (v & Hv).
  - rewrite map_length. exact Hm.
  - right. exists i, r, lg, rc, (snd (wt m)), c. eexists. repeat split; try eassumption.
    + eapply nth_error_combine_In; eassumption.
    + unfold get_orientation. cbn [Z.add]. rewrite nthZ_of_nat, Er. reflexivity.
  - destruct (Hval v Hv) as (r' & R1 & R2 & ->). exists r'. split; [exact R1|]. split; [exact R2|exact Hv].
Qed.
End Fix.

(* Abacus pass: cells whose targets form a legal placement, listed left to right within each
   segment, are returned exactly at their targets *)
Theorem abacus_fixpoint rows0 cells rh :
  0 < rh ->
  (forall r, In r rows0 -> maxY (rr r) - minY (rr r) = rh /\ minX (rr r) <= maxX (rr r)) ->
  pairwise_disjoint (map rr rows0) ->
  (forall m c, nth_error cells m = Some c ->
     0 < cw c /\ ch c = rh /\ exists r, In r rows0 /\ sits c r /\ seg_orientation c r <> oINVALID) ->
  (forall m m' c c' r, (m < m')%nat -> nth_error cells m = Some c -> nth_error cells m' = Some c' ->
     In r rows0 -> sits c r -> sits c' r -> ctx c + cw c <= ctx c') ->
  forall m c, nth_error cells m = Some c ->
    exists r, In r rows0 /\ sits c r /\
      nth_error (abacus_run rows0 cells) m = Some (Some (ctx c, cty c, seg_orientation c r)).
Proof.
  intros Hrh Hrows Hpd Hcells Horder m c Hc. set (rows := sort_rows rows0).
  assert (H1 : forall r, In r rows -> maxY (rr r) - minY (rr r) = rh) by (intros r Hr; apply Hrows, sort_rows_In; exact Hr).
  assert (H2 : forall r, In r rows -> minX (rr r) <= maxX (rr r)) by (intros r Hr; apply Hrows, sort_rows_In; exact Hr).
  assert (H3 : pairwise_disjoint (map rr rows)) by (apply pd_sort; exact Hpd).
  assert (H4 : forall m c, nth_error cells m = Some c ->
     0 < cw c /\ ch c = rh /\ exists r, In r rows /\ sits c r /\ seg_orientation c r <> oINVALID).
  { intros m0 c0 Hc0. destruct (Hcells m0 c0 Hc0) as (A & B & r & R1 & R2 & R3). split; [exact A|]. split; [exact B|].
    exists r. split; [apply sort_rows_In; exact R1|split; assumption]. }
  assert (H5 : forall m m' c c' r, (m < m')%nat -> nth_error cells m = Some c -> nth_error cells m' = Some c' ->
     In r rows -> sits c r -> sits c' r -> ctx c + cw c <= ctx c').
  { intros m0 m1 c0 c1 r Hlt A B Hr. apply (Horder m0 m1 c0 c1 r Hlt A B). apply sort_rows_In. exact Hr. }
  rewrite abacus_run_unfold. unfold abacus_rowlegs, abacus_rowcells. fold rows.
  destruct (abacus_state rows cells) as [[legs rcs] n] eqn:E. cbn [fst snd].
  pose proof (f_loop rows cells rh Hrh (sort_rows_sortedY rows0) H1 H2 H3 H4 H5 cells [] _ _ eq_refl
                (f_init rows cells H2) legs rcs n E) as HI.
  destruct (f_fill rows cells legs rcs m c HI Hc) as (r & R1 & R2 & R3).
  exists r. split; [apply sort_rows_In; exact R1|]. split; [exact R2|exact R3].
Qed.


(* ------------------------------------------------------------------ *)
(* Legalizer::run *)

Lemma select_all cellsL order keep :
  (forall i, In i order -> (i < length cellsL)%nat) -> (forall c, In c cellsL -> keep c = true) ->
  select cellsL (map (fun _ => @None (Z * Z * orient)) cellsL) order keep =
  map (fun i => (i, nth i cellsL dcell)) order.
Proof.
  intros Hlt Hk. unfold select. induction order as [|i order IH]; cbn [flat_map map]; [reflexivity|].
  rewrite IH by (intros j Hj; apply Hlt; right; exact Hj).
  specialize (Hlt i (or_introl eq_refl)).
  destruct (nth_error cellsL i) as [c|] eqn:Ec; [|apply nth_error_None in Ec; lia].
  unfold placed. rewrite (st0_nth cellsL i c Ec). rewrite (Hk c (nth_error_In _ _ Ec)).
  rewrite (nth_error_nth _ _ dcell Ec). reflexivity.
Qed.

Lemma NoDup_nth_neq {A} (l : list A) a b x y :
  NoDup l -> a <> b -> nth_error l a = Some x -> nth_error l b = Some y -> x <> y.
Proof.
  intros Hnd Hab Ha Hb ->. apply Hab. apply (proj1 (NoDup_nth_error l) Hnd).
  - apply nth_error_Some. congruence.
  - congruence.
Qed.

Theorem legalize_fixpoint rows0 cellsL order rh :
  0 < rh ->
  (forall r, In r rows0 -> maxY (rr r) - minY (rr r) = rh /\ nonempty_row r) ->
  pairwise_disjoint (map rr rows0) ->
  (* every cell is row-high and sits inside a segment that its polarity admits *)
  (forall i c, nth_error cellsL i = Some c ->
     0 < cw c /\ ch c = rh /\ exists r, In r rows0 /\ sits c r /\ seg_orientation c r <> oINVALID) ->
  (* two different cells of one segment do not overlap *)
  (forall i j ci cj r, i <> j -> nth_error cellsL i = Some ci -> nth_error cellsL j = Some cj ->
     In r rows0 -> sits ci r -> sits cj r -> ctx ci + cw ci <= ctx cj \/ ctx cj + cw cj <= ctx ci) ->
  (* the order lists every cell once, left to right within a segment *)
  NoDup order -> (forall i, In i order <-> (i < length cellsL)%nat) ->
  (forall a b i j ci cj r, nth_error order a = Some i -> nth_error order b = Some j ->
     nth_error cellsL i = Some ci -> nth_error cellsL j = Some cj ->
     In r rows0 -> sits ci r -> sits cj r -> ctx ci + cw ci <= ctx cj -> (a < b)%nat) ->
  exists pl, legalize rows0 cellsL order = Ok pl /\ length pl = length cellsL /\
    forall i c, nth_error cellsL i = Some c ->
      exists r, In r rows0 /\ sits c r /\ nth_error pl i = Some (ctx c, cty c, seg_orientation c r).
Proof.
  intros Hrh Hrows Hpd Hcells Hdisj Hnd Hcov Hord.
  destruct (sort_rows rows0) as [|r0 rest] eqn:Hs.
  { assert (rows0 = []) by (apply length_zero_iff_nil; rewrite <- sort_rows_length, Hs; reflexivity). subst rows0.
    assert (cellsL = []).
    { destruct cellsL as [|c cs]; [reflexivity|]. destruct (Hcells O c eq_refl) as (_ & _ & r & [] & _). }
    subst cellsL. exists []. split; [|split; [reflexivity|intros i c H; destruct i; discriminate]].
    unfold legalize. cbn [sort_rows fold_right map length]. rewrite existsb_st0_nil. reflexivity. }
  assert (Hr0 : maxY (rr r0) - minY (rr r0) = rh).
  { apply Hrows. apply sort_rows_In. rewrite Hs. left. reflexivity. }
  assert (Hh : Forall (fun c => ch c = maxY (rr r0) - minY (rr r0)) cellsL).
  { apply Forall_forall. intros c Hc. apply In_nth_error in Hc as [i Hi]. destruct (Hcells i c Hi) as (_ & H & _). lia. }
  rewrite (legalize_rowhigh_eq _ _ _ _ _ Hs Hh (fun r Hr => proj2 (Hrows r Hr))). cbv zeta. rewrite Hr0.
  set (st0 := map (fun _ : cell => @None (Z * Z * orient)) cellsL).
  assert (Hsel : select cellsL st0 order (fun c => ch c =? rh) = map (fun i => (i, nth i cellsL dcell)) order).
  { apply select_all.
    - intros i Hi. apply Hcov. exact Hi.
    - intros c Hc. apply In_nth_error in Hc as [i Hi]. destruct (Hcells i c Hi) as (_ & H & _). apply Z.eqb_eq. exact H. }
  rewrite Hsel. set (sel := map (fun i => (i, nth i cellsL dcell)) order). set (cellsA := map snd sel).
  assert (HselN : forall m i c, nth_error sel m = Some (i, c) -> nth_error order m = Some i /\ nth_error cellsL i = Some c).
  { intros m i c Hm. unfold sel in Hm. apply nth_error_map_inv in Hm as (i' & Hi' & [= -> ->]).
    split; [exact Hi'|]. apply nth_error_nth'. apply Hcov. eapply nth_error_In; exact Hi'. }
  assert (HA_N : forall m c, nth_error cellsA m = Some c -> exists i, nth_error sel m = Some (i, c)).
  { intros m c Hm. unfold cellsA in Hm. apply nth_error_map_inv in Hm as ([i c'] & Hm & ->). exists i. exact Hm. }
  (* the Abacus pass returns the targets *)
  assert (HA : forall m c, nth_error cellsA m = Some c ->
            exists r, In r rows0 /\ sits c r /\
              nth_error (abacus_run (sort_rows rows0) cellsA) m = Some (Some (ctx c, cty c, seg_orientation c r))).
  { intros m c Hm.
    destruct (abacus_fixpoint (sort_rows rows0) cellsA rh Hrh) with (m := m) (c := c) as (r & R1 & R2 & R3).
    - intros r Hr. apply (proj1 (sort_rows_In _ _)) in Hr. destruct (Hrows r Hr) as (A & B & _). split; [exact A|lia].
    - apply pd_sort. exact Hpd.
    - intros m0 c0 Hm0. destruct (HA_N m0 c0 Hm0) as (i & Hi). destruct (HselN _ _ _ Hi) as (_ & Hc0).
      destruct (Hcells i c0 Hc0) as (A & B & r & R1 & R2 & R3). split; [exact A|]. split; [exact B|].
      exists r. split; [apply sort_rows_In; exact R1|split; assumption].
    - intros m0 m1 c0 c1 r Hlt Hm0 Hm1 Hr S0 S1. apply (proj1 (sort_rows_In _ _)) in Hr.
      destruct (HA_N m0 c0 Hm0) as (i & Hi). destruct (HselN _ _ _ Hi) as (Oi & Ci).
      destruct (HA_N m1 c1 Hm1) as (j & Hj). destruct (HselN _ _ _ Hj) as (Oj & Cj).
      assert (Hij : i <> j) by (apply (NoDup_nth_neq order m0 m1); try assumption; lia).
      destruct (Hdisj i j c0 c1 r Hij Ci Cj Hr S0 S1) as [D|D]; [exact D|].
      pose proof (Hord m1 m0 j i c1 c0 r Oj Oi Cj Ci Hr S1 S0 D). lia.
    - exact Hm.
    - exists r. split; [apply sort_rows_In; exact R1|]. split; [exact R2|exact R3]. }
  set (res := abacus_run (sort_rows rows0) cellsA) in *.
  set (st2 := import st0 sel res).
  assert (Hlen2 : length st2 = length cellsL).
  { unfold st2. rewrite import_length. unfold st0. apply map_length. }
  (* every slot of the result is the target of its cell *)
  assert (Hst2 : forall i c, nth_error cellsL i = Some c ->
            exists r, In r rows0 /\ sits c r /\ nth_error st2 i = Some (Some (ctx c, cty c, seg_orientation c r))).
  { intros i c Hc.
    assert (Hi : (i < length cellsL)%nat) by (apply nth_error_Some; congruence).
    assert (Hval : has_value st2 i).
    { apply import_some; [unfold st0; rewrite map_length; exact Hi|right].
      destruct (In_nth_error order i (proj2 (Hcov i) Hi)) as [m Hm].
      assert (Hsm : nth_error sel m = Some (i, c)).
      { unfold sel. rewrite (map_nth_error _ _ _ Hm). rewrite (nth_error_nth _ _ dcell Hc). reflexivity. }
      assert (Hcm : nth_error cellsA m = Some c) by (unfold cellsA; rewrite (map_nth_error _ _ _ Hsm); reflexivity).
      destruct (HA m c Hcm) as (r & _ & _ & Hres). exists m, c. eexists. split; [exact Hsm|exact Hres]. }
    destruct Hval as (v & Hv). pose proof Hv as Hv'.
    apply import_spec in Hv' as [Hv'|(m & c1 & Hm & Hres)]; [exfalso; eapply st0_none; exact Hv'|].
    destruct (HselN _ _ _ Hm) as (_ & Hc1). rewrite Hc in Hc1. injection Hc1 as <-.
    assert (Hcm : nth_error cellsA m = Some c) by (unfold cellsA; rewrite (map_nth_error _ _ _ Hm); reflexivity).
    destruct (HA m c Hcm) as (r & R1 & R2 & R3). fold res in R3. rewrite R3 in Hres. injection Hres as <-.
    exists r. split; [exact R1|]. split; [exact R2|exact Hv]. }
  assert (Hall : forallb is_some st2 = true).
  { apply forallb_forall. intros p Hp. apply In_nth_error in Hp as [i Hi].
    assert (Hil : (i < length cellsL)%nat) by (rewrite <- Hlen2; apply nth_error_Some; congruence).
    destruct (nth_error cellsL i) as [c|] eqn:Ec; [|apply nth_error_None in Ec; lia].
    destruct (Hst2 i c Ec) as (r & _ & _ & H). rewrite H in Hi. injection Hi as <-. reflexivity. }
  rewrite Hall. exists (vals st2). split; [reflexivity|].
  pose proof (all_some_vals st2 Hall) as Hmap. split.
  - pose proof (f_equal (@length _) Hmap) as Hl. rewrite map_length in Hl. rewrite Hl. exact Hlen2.
  - intros i c Hc. destruct (Hst2 i c Hc) as (r & R1 & R2 & R3). exists r. split; [exact R1|]. split; [exact R2|].
    rewrite <- Hmap in R3. apply nth_error_map_inv in R3 as (v & Hv & [= <-]). exact Hv.
Qed.

Print Assumptions abacus_fixpoint.
Print Assumptions legalize_fixpoint.

(* ------------------------------------------------------------------ *)
(* circuit level *)

(* row r lies under the bottom-left corner of cell k *)
Definition under (r : row) (k : ccell) : Prop :=
  minY (rr r) = c_y k /\ minX (rr r) <= c_x k < maxX (rr r).

(* the polarity of every movable cell admits the row it stands on (legality in the sense of
   C01 says nothing about orientations) *)
Definition polarity_admits (c : circuit) : Prop :=
  forall k r, In k (movable c) -> In r (rows c) -> under r k ->
              seg_orientation (leg_cell_of k) r <> oINVALID.

(* the order lists every movable cell once (indices into the movable cells, as in
   Legalizer::computeCellOrder) and, within one free segment, from left to right *)
Definition order_left_to_right (c : circuit) (order : list nat) : Prop :=
  NoDup order /\ (forall i, In i order <-> (i < length (movable c))%nat) /\
  forall a b i j ki kj s, nth_error order a = Some i -> nth_error order b = Some j ->
    nth_error (movable c) i = Some ki -> nth_error (movable c) j = Some kj ->
    In s (free_rows c) -> sits (leg_cell_of ki) s -> sits (leg_cell_of kj) s ->
    c_x ki + cw (leg_cell_of ki) <= c_x kj -> (a < b)%nat.

(* what legalization may do to a cell of an already legal design: nothing but give it the
   orientation its polarity prescribes in the row under it (its own when the table says keep) *)
Definition kept (c : circuit) (k k' : ccell) : Prop :=
  same_frame k k' /\ c_x k' = c_x k /\ c_y k' = c_y k /\
  (c_fixed k = false ->
     exists r, In r (rows c) /\ under r k /\ c_o k' = seg_orientation (leg_cell_of k) r).

Lemma Forall2_of_combine {A B} (P : A -> B -> Prop) l : forall l',
  length l = length l' -> (forall a b, In (a, b) (combine l l') -> P a b) -> Forall2 P l l'.
Proof.
  induction l as [|x l IH]; intros [|y l'] Hlen H; cbn [length] in Hlen; try discriminate; constructor.
  - apply H. left. reflexivity.
  - apply IH; [lia|]. intros a b Hin. apply H. right. exact Hin.
Qed.

Lemma same_frame_refl k : same_frame k k.
Proof. unfold same_frame. repeat split; reflexivity. Qed.

Lemma movable_not_fixed c k : In k (movable c) -> c_fixed k = false.
Proof. unfold movable. intros H. apply filter_In in H as [_ H]. apply negb_true_iff in H. exact H. Qed.

Theorem legalize_circuit_fixpoint c rh order :
  rowhigh_design c rh -> legal c -> polarity_admits c -> order_left_to_right c order ->
  exists c', legalize_circuit c order = LegOk c' /\ rows c' = rows c /\
             Forall2 (kept c) (cells c) (cells c').
Proof.
  intros (Hrh & Hheight & Hpd & Hturn & Hmov) Hlegal Hpol (Hnd & Hcov & Hord).
  (* what legality says, whether or not there is a row *)
  assert (Hleg : (forall k, In k (movable c) -> cell_legal c rh k) /\ pairwise_disjoint (map placement_of (movable c))).
  { unfold legal in Hlegal.
    assert (Hcase : rows c = [] \/ rows c <> []) by (destruct (rows c); [left; reflexivity|right; discriminate]).
    destruct Hcase as [Hrows|Hrows].
    - unfold row_height in Hlegal. rewrite Hrows in Hlegal. rewrite Hlegal. split; [intros k []|exact I].
    - rewrite (row_height_uniform c rh Hrows Hheight) in Hlegal.
      destruct Hlegal as (_ & A & B). split; assumption. }
  destruct Hleg as [Hcl Hcd].
  assert (Hfh : forall s, In s (free_rows c) -> maxY (rr s) - minY (rr s) = rh).
  { intros s Hs. apply free_rows_In in Hs as (r & obs & Hr & Hs). apply freespace_rows_shape in Hs.
    specialize (Hheight r Hr). lia. }
  (* the free segment a movable cell stands in, and the row of the circuit it comes from *)
  assert (Hown : forall k, In k (movable c) ->
            0 < cw (leg_cell_of k) /\ ch (leg_cell_of k) = rh /\
            exists s, In s (free_rows c) /\ sits (leg_cell_of k) s /\ seg_orientation (leg_cell_of k) s <> oINVALID).
  { intros k Hk. destruct (Hmov k Hk) as (Hw & Hh & _). split; [exact Hw|]. split; [exact Hh|].
    destruct (Hcl k Hk) as (_ & n & Hn & _ & _ & Hstrip). destruct (Hstrip O Hn) as (s & Hs & Y1 & _ & X1 & X2).
    exists s. split; [exact Hs|].
    assert (Ex : minX (placement_of k) = c_x k) by reflexivity.
    assert (Ey : minY (placement_of k) = c_y k) by reflexivity.
    assert (Hsit : sits (leg_cell_of k) s).
    { unfold sits, leg_cell_of. cbn [cw ctx cty]. lia. }
    split; [exact Hsit|].
    destruct (free_rows_In _ _ Hs) as (r & obs & Hr & Hsr). apply freespace_rows_shape in Hsr.
    destruct Hsr as (A & B & C & D & E & F).
    replace (seg_orientation (leg_cell_of k) s) with (seg_orientation (leg_cell_of k) r)
      by (unfold seg_orientation; rewrite C; reflexivity).
    apply Hpol; [exact Hk|exact Hr|]. unfold under. unfold leg_cell_of in Hw. cbn [cw] in Hw. lia. }
  assert (Hnthk : forall i lc, nth_error (leg_cells c) i = Some lc ->
            exists k, nth_error (movable c) i = Some k /\ lc = leg_cell_of k).
  { intros i lc H. unfold leg_cells in H. apply nth_error_map_inv in H. exact H. }
  destruct (legalize_fixpoint (free_rows c) (leg_cells c) order rh Hrh) as (pl & Hpl & Hlen & Hval).
  - intros s Hs. split; [apply Hfh; exact Hs|apply (free_rows_nonempty c); exact Hs].
  - apply free_rows_pd. exact Hpd.
  - intros i lc Hi. destruct (Hnthk i lc Hi) as (k & Hk & ->). apply Hown. eapply nth_error_In; exact Hk.
  - intros i j ci cj s Hij Hi Hj Hs Si Sj.
    destruct (Hnthk i ci Hi) as (ki & Hki & ->). destruct (Hnthk j cj Hj) as (kj & Hkj & ->).
    pose proof (pd_nth _ Hcd i j _ _ Hij (map_nth_error placement_of _ _ Hki) (map_nth_error placement_of _ _ Hkj)) as D.
    destruct (Hmov ki (nth_error_In _ _ Hki)) as (Wi & Hi' & _). destruct (Hmov kj (nth_error_In _ _ Hkj)) as (Wj & Hj' & _).
    destruct Si as (Yi & _). destruct Sj as (Yj & _).
    assert (minX (placement_of ki) = c_x ki) by reflexivity. assert (minY (placement_of ki) = c_y ki) by reflexivity.
    assert (minX (placement_of kj) = c_x kj) by reflexivity. assert (minY (placement_of kj) = c_y kj) by reflexivity.
    unfold leg_cell_of in *. cbn [cw ctx cty] in *. unfold disjoint_rects in D. lia.
  - exact Hnd.
  - unfold leg_cells. rewrite map_length. exact Hcov.
  - intros a b i j ci cj s Ha Hb Hi Hj Hs Si Sj Hx.
    destruct (Hnthk i ci Hi) as (ki & Hki & ->). destruct (Hnthk j cj Hj) as (kj & Hkj & ->).
    apply (Hord a b i j ki kj s); assumption.
  - unfold leg_cells in Hlen. rewrite map_length in Hlen.
    exists {| rows := rows c; cells := export_cells (cells c) pl |}.
    split; [unfold legalize_circuit; rewrite Hpl; reflexivity|]. split; [reflexivity|]. cbn [cells].
    apply Forall2_of_combine; [symmetry; apply export_cells_length|].
    intros k k' Hin. apply export_pairs in Hin as [[Hf ->]|(ci & v & Hk & Hv & ->)]; [| |exact Hlen].
    + split; [apply same_frame_refl|]. split; [reflexivity|]. split; [reflexivity|]. intros H. congruence.
    + fold (movable c) in Hk. pose proof (nth_error_In _ _ Hk) as Hkin.
      destruct (Hval ci (leg_cell_of k) (map_nth_error leg_cell_of _ _ Hk)) as (s & Hs & (Y1 & X1 & X2) & Hv').
      rewrite Hv' in Hv. injection Hv as <-. cbn [leg_cell_of ctx cty]. unfold kept, moved. cbn [c_x c_y c_o c_fixed].
      split; [|split; [reflexivity|split; [reflexivity|]]].
      * unfold same_frame. cbn. repeat split; try reflexivity. intros H. rewrite (movable_not_fixed c k Hkin) in H. discriminate.
      * intros _. destruct (free_rows_In _ _ Hs) as (r & obs & Hr & Hsr). apply freespace_rows_shape in Hsr.
        destruct Hsr as (A & B & C & D & E & F). destruct (Hmov k Hkin) as (Hw & _).
        exists r. split; [exact Hr|]. split.
        -- unfold under. unfold leg_cell_of in X1, X2, Y1. cbn [cw ctx cty] in X1, X2, Y1. lia.
        -- unfold seg_orientation. rewrite C. reflexivity.
Qed.

Lemma Forall2_eq_list {A} (l l' : list A) : Forall2 eq l l' -> l = l'.
Proof. induction 1; congruence. Qed.

Lemma Forall2_impl_In {A B} (P Q : A -> B -> Prop) l l' :
  Forall2 P l l' -> (forall a b, In a l -> P a b -> Q a b) -> Forall2 Q l l'.
Proof.
  induction 1 as [|x y l l' Hxy H IH]; intros HPQ; constructor.
  - apply HPQ; [left; reflexivity|exact Hxy].
  - apply IH. intros a b Ha. apply HPQ. right. exact Ha.
Qed.

(* C11 proper: when moreover every movable cell already has the orientation its polarity
   prescribes in its row (always the case without polarity), legalization returns the
   circuit it was given *)
Theorem legalize_circuit_idempotent c rh order :
  rowhigh_design c rh -> legal c -> polarity_admits c -> order_left_to_right c order ->
  (forall k r, In k (movable c) -> In r (rows c) -> under r k -> seg_orientation (leg_cell_of k) r = c_o k) ->
  legalize_circuit c order = LegOk c.
Proof.
  intros Hd Hl Hp Ho Hor.
  destruct (legalize_circuit_fixpoint c rh order Hd Hl Hp Ho) as (c' & Hc' & Hrows & Hcells).
  rewrite Hc'. f_equal.
  assert (Heq : cells c = cells c').
  { apply Forall2_eq_list. eapply Forall2_impl_In; [exact Hcells|].
    intros k k' Hkin ((F1 & F2 & F3 & F4 & F5 & F6) & Hx & Hy & Ho').
    destruct (c_fixed k) eqn:Hf; [apply F6; reflexivity|].
    assert (Hm : In k (movable c)) by (unfold movable; apply filter_In; split; [exact Hkin|rewrite Hf; reflexivity]).
    destruct (Ho' eq_refl) as (r & Hr & Hu & Hko). rewrite (Hor k r Hm Hr Hu) in Hko.
    destruct k, k'. cbn in *. congruence. }
  destruct c as [r1 l1], c' as [r2 l2]. cbn [rows cells] in *. congruence.
Qed.

(* ------------------------------------------------------------------ *)
(* "legalizing twice gives the same positions as legalizing once" *)

Lemma seg_orientation_again lc lc' r :
  cpol lc' = cpol lc -> cor lc' = seg_orientation lc r -> seg_orientation lc' r = seg_orientation lc r.
Proof.
  unfold seg_orientation. intros -> ->. destruct (orient_eqb _ oUNKNOWN); reflexivity.
Qed.

(* what a successful legalization of a row-high design returns, cell by cell *)
Lemma legalize_output c rh order c1 :
  rowhigh_design c rh -> legalize_circuit c order = LegOk c1 ->
  rows c1 = rows c /\
  forall k', In k' (movable c1) ->
    exists k x y o s r, In k (movable c) /\ k' = moved k (x, y, o) /\
      In s (free_rows c) /\ In r (rows c) /\
      minY (rr s) = minY (rr r) /\ ro s = ro r /\ minX (rr r) <= minX (rr s) /\ maxX (rr s) <= maxX (rr r) /\
      y = minY (rr s) /\ minX (rr s) <= x /\ x + cw (leg_cell_of k) <= maxX (rr s) /\
      o <> oINVALID /\ o = seg_orientation (leg_cell_of k) s /\
      placement_of k' = cellrect (leg_cell_of k) x y.
Proof.
  intros (Hrh & Hheight & Hpd & Hturn & Hmov). unfold legalize_circuit.
  destruct (legalize (free_rows c) (leg_cells c) order) as [pl| |] eqn:Hleg; try discriminate.
  intros [= <-]. split; [reflexivity|].
  assert (Hfh : forall s, In s (free_rows c) -> maxY (rr s) - minY (rr s) = rh).
  { intros s Hs. apply free_rows_In in Hs as (r & obs & Hr & Hs). apply freespace_rows_shape in Hs.
    specialize (Hheight r Hr). lia. }
  assert (Hcells : Forall (fun lc => ch lc = rh /\ 0 < cw lc) (leg_cells c)).
  { apply Forall_forall. intros lc Hlc. unfold leg_cells in Hlc. apply in_map_iff in Hlc as (k & <- & Hk).
    destruct (Hmov k Hk) as (H1 & H2 & _). unfold leg_cell_of. cbn [cw ch]. split; [exact H2|exact H1]. }
  destruct (legalize_rowhigh_sound _ _ _ _ _ Hrh Hfh (free_rows_pd c Hpd) Hcells Hleg) as (Hlen & Hcell & _).
  unfold leg_cells in Hlen. rewrite map_length in Hlen.
  intros k' Hk'. unfold movable in Hk'. cbn [cells] in Hk'. rewrite (export_movable _ _ Hlen) in Hk'.
  apply in_map_iff in Hk' as ([k [[x y] o]] & <- & Hin). cbn [fst snd].
  apply In_nth_error in Hin as [ci Hci]. apply nth_error_combine_inv in Hci as [Hk Hv].
  fold (movable c) in Hk. pose proof (nth_error_In _ _ Hk) as Hkin.
  assert (Hlc : nth_error (leg_cells c) ci = Some (leg_cell_of k)) by (apply map_nth_error; exact Hk).
  destruct (Hcell ci _ x y o Hlc Hv) as (s & Hs & Hy & Hx1 & Hx2 & Hinv & Ho).
  destruct (free_rows_In _ _ Hs) as (r & obs & Hr & Hsr). apply freespace_rows_shape in Hsr.
  destruct Hsr as (A & B & C & D & E & F).
  exists k, x, y, o, s, r. repeat split; try assumption.
  apply placement_moved. rewrite Ho. replace (c_o k) with (cor (leg_cell_of k)) by reflexivity.
  apply seg_orientation_turn.
  - rewrite C. apply Hturn. exact Hr.
  - cbn [leg_cell_of cor cpol]. apply (Hmov k Hkin).
Qed.

Theorem legalize_circuit_twice c rh order order2 c1 :
  rowhigh_design c rh -> legalize_circuit c order = LegOk c1 -> order_left_to_right c1 order2 ->
  legalize_circuit c1 order2 = LegOk c1.
Proof.
  intros Hd Hc1 Ho2. pose proof Hd as (Hrh & Hheight & Hpd & Hturn & Hmov).
  destruct (legalize_output c rh order c1 Hd Hc1) as (Hrows & Hout).
  (* the row under an output cell is the row of the segment it was put in *)
  assert (Hunder : forall k' r', In k' (movable c1) -> In r' (rows c1) -> under r' k' ->
            exists k, In k (movable c) /\ c_pol k' = c_pol k /\
                      c_o k' = seg_orientation (leg_cell_of k) r' /\ c_o k' <> oINVALID).
  { intros k' r' Hk' Hr' Hu.
    destruct (Hout k' Hk') as (k & x & y & o & s & r & Hk & -> & Hs & Hr & A & C & D & F & Hy & X1 & X2 & Hinv & Ho & _).
    rewrite Hrows in Hr'. destruct (Hmov k Hk) as (Hw & _). unfold under, moved in Hu. cbn [c_x c_y] in Hu.
    assert (r' = r).
    { apply (rows_point_unique (rows c) rh x y r' r Hpd Hrh Hheight Hr' Hr); try lia.
      unfold leg_cell_of in X2. cbn [cw] in X2. lia. }
    subst r'. exists k. split; [exact Hk|]. unfold moved. cbn [c_pol c_o]. split; [reflexivity|]. split; [|exact Hinv].
    rewrite Ho. unfold seg_orientation. rewrite C. reflexivity. }
  assert (Hagain : forall k' r', In k' (movable c1) -> In r' (rows c1) -> under r' k' ->
            seg_orientation (leg_cell_of k') r' = c_o k' /\ c_o k' <> oINVALID).
  { intros k' r' Hk' Hr' Hu. destruct (Hunder k' r' Hk' Hr' Hu) as (k & _ & Hp & Ho & Hinv). split; [|exact Hinv].
    rewrite Ho. apply seg_orientation_again; [exact Hp|exact Ho]. }
  apply (legalize_circuit_idempotent c1 rh order2).
  - split; [exact Hrh|]. rewrite Hrows. split; [exact Hheight|]. split; [exact Hpd|]. split; [exact Hturn|].
    intros k' Hk'.
    destruct (Hout k' Hk') as (k & x & y & o & s & r & Hk & Ek & Hs & Hr & A & C & D & F & Hy & X1 & X2 & Hinv & Ho & Hp).
    destruct (Hmov k Hk) as (Hw & Hh & Ht). rewrite Hp. unfold cellrect. cbn [minX maxX minY maxY].
    unfold leg_cell_of at 1 2. cbn [cw ch]. split; [lia|]. split; [lia|].
    destruct Ht as [Ht|Ht]; [left|right; rewrite Ek; exact Ht].
    rewrite Ek. unfold moved. cbn [c_o]. rewrite Ho, <- Ht.
    replace (c_o k) with (cor (leg_cell_of k)) by reflexivity. apply seg_orientation_turn.
    + rewrite C. apply Hturn. exact Hr.
    + left. exact Ht.
  - eapply legalize_circuit_rowhigh_legal; eassumption.
  - intros k' r' Hk' Hr' Hu. destruct (Hagain k' r' Hk' Hr' Hu) as [E Hinv]. rewrite E. exact Hinv.
  - exact Ho2.
  - intros k' r' Hk' Hr' Hu. apply (Hagain k' r' Hk' Hr' Hu).
Qed.

Print Assumptions legalize_circuit_fixpoint.
Print Assumptions legalize_circuit_idempotent.
Print Assumptions legalize_circuit_twice.
